import Yabgp.Base.Bytes
