/-
  Line-protocol driver: one JSON request per line on stdin, one JSON response per line on stdout.
  Imports only models, specs and the JSON glue (no Lemmas/Props, no Mathlib) so it links natively.
-/
import Yabgp.Driver.Ops

open Lean (Json)

partial def loop (h : IO.FS.Stream) (out : IO.FS.Stream) (st : Yabgp.Glue.DState) : IO Unit := do
  let line ← h.getLine
  if line.isEmpty then return ()
  let (st', resp) :=
    match Json.parse line with
    | .error e => (st, Yabgp.Glue.obj [("error", Json.str s!"json: {e}")])
    | .ok j =>
      match Yabgp.Glue.dispatch st j with
      | .ok r => r
      | .error e => (st, Yabgp.Glue.obj [("error", Json.str e)])
  out.putStrLn resp.compress
  out.flush
  loop h out st'

def main : IO Unit := do
  let out ← IO.getStdout
  loop (← IO.getStdin) out {}
  out.flush
