/-
  Byte strings as `List UInt8`, big-endian encoders/readers and the few Python
  byte-string operations every yabgp decoder is built from (DESIGN §4.1, §4.2).
  Import-free.
-/
namespace Yabgp

abbrev Bytes := List UInt8

/-- one octet from a natural number (low 8 bits, like `struct.pack('!B', n & 0xff)`) -/
@[inline] def u8 (n : Nat) : UInt8 := UInt8.ofNat n

/-- big-endian encoders -/
def be8 (n : Nat) : Bytes := [u8 n]
def be16 (n : Nat) : Bytes := [u8 (n / 256), u8 n]
def be24 (n : Nat) : Bytes := [u8 (n / 65536), u8 (n / 256), u8 n]
def be32 (n : Nat) : Bytes := [u8 (n / 16777216), u8 (n / 65536), u8 (n / 256), u8 n]

/-- big-endian encoder of `k` octets -/
def beN : Nat → Nat → Bytes
  | 0, _ => []
  | k+1, n => beN k (n / 256) ++ [u8 n]

/-- big-endian value of a whole byte string (`int(binascii.b2a_hex(s), 16)` for non-empty `s`) -/
def beVal (b : Bytes) : Nat := b.foldl (fun acc x => acc * 256 + x.toNat) 0

/-- readers: value and rest, `none` when too short -/
def rd8 : Bytes → Option (Nat × Bytes)
  | a :: r => some (a.toNat, r)
  | _ => none
def rd16 : Bytes → Option (Nat × Bytes)
  | a :: b :: r => some (a.toNat * 256 + b.toNat, r)
  | _ => none
def rd24 : Bytes → Option (Nat × Bytes)
  | a :: b :: c :: r => some (a.toNat * 65536 + b.toNat * 256 + c.toNat, r)
  | _ => none
def rd32 : Bytes → Option (Nat × Bytes)
  | a :: b :: c :: d :: r =>
      some (a.toNat * 16777216 + b.toNat * 65536 + c.toNat * 256 + d.toNat, r)
  | _ => none

/-- Python slice `b[i:j]` (never fails, truncates) -/
def slice (b : Bytes) (i j : Nat) : Bytes := (b.take j).drop i

/-- `struct.unpack('!H', s)`: fails unless `len(s)` is exactly 2 -/
def unpackH : Bytes → Option Nat
  | [a, b] => some (a.toNat * 256 + b.toNat)
  | _ => none
def unpackB : Bytes → Option Nat
  | [a] => some a.toNat
  | _ => none
def unpackI : Bytes → Option Nat
  | [a, b, c, d] => some (a.toNat * 16777216 + b.toNat * 65536 + c.toNat * 256 + d.toNat)
  | _ => none

/-- split at `n` if at least `n` bytes are there -/
def takeExact (n : Nat) (b : Bytes) : Option (Bytes × Bytes) :=
  if n ≤ b.length then some (b.take n, b.drop n) else none

theorem u8_toNat {n : Nat} (h : n < 256) : (u8 n).toNat = n := by
  simp [u8, UInt8.toNat_ofNat']; omega

theorem u8_toNat_mod (n : Nat) : (u8 n).toNat = n % 256 := by
  simp [u8, UInt8.toNat_ofNat']

theorem u8_of_toNat (a : UInt8) : u8 a.toNat = a := by
  simp [u8]

theorem toNat_lt (a : UInt8) : a.toNat < 256 := UInt8.toNat_lt a

@[simp] theorem be16_length (n : Nat) : (be16 n).length = 2 := rfl
@[simp] theorem be32_length (n : Nat) : (be32 n).length = 4 := rfl
@[simp] theorem be24_length (n : Nat) : (be24 n).length = 3 := rfl
@[simp] theorem be8_length (n : Nat) : (be8 n).length = 1 := rfl
@[simp] theorem beN_length (k n : Nat) : (beN k n).length = k := by
  induction k generalizing n with
  | zero => rfl
  | succ k ih => simp [beN, ih]

theorem rd8_be8 {n : Nat} (h : n < 256) (r : Bytes) : rd8 (be8 n ++ r) = some (n, r) := by
  simp only [be8, rd8, List.cons_append, List.nil_append]; rw [u8_toNat h]

theorem rd16_be16 {n : Nat} (h : n < 65536) (r : Bytes) : rd16 (be16 n ++ r) = some (n, r) := by
  simp only [be16, rd16, List.cons_append, List.nil_append]
  simp only [u8_toNat_mod]; congr 2; omega

theorem rd24_be24 {n : Nat} (h : n < 16777216) (r : Bytes) : rd24 (be24 n ++ r) = some (n, r) := by
  simp only [be24, rd24, List.cons_append, List.nil_append]
  simp only [u8_toNat_mod]; congr 2; omega

theorem rd32_be32 {n : Nat} (h : n < 4294967296) (r : Bytes) : rd32 (be32 n ++ r) = some (n, r) := by
  simp only [be32, rd32, List.cons_append, List.nil_append]
  simp only [u8_toNat_mod]; congr 2; omega

theorem unpackH_be16 {n : Nat} (h : n < 65536) : unpackH (be16 n) = some n := by
  simp only [be16, unpackH]
  simp only [u8_toNat_mod]; congr 1; omega

theorem unpackI_be32 {n : Nat} (h : n < 4294967296) : unpackI (be32 n) = some n := by
  simp only [be32, unpackI]
  simp only [u8_toNat_mod]; congr 1; omega

theorem unpackB_be8 {n : Nat} (h : n < 256) : unpackB (be8 n) = some n := by
  simp only [be8, unpackB]; rw [u8_toNat h]

/-- the value read by `rd16` is below 2^16, etc. -/
theorem rd16_lt {b r : Bytes} {n : Nat} (h : rd16 b = some (n, r)) : n < 65536 := by
  match b, h with
  | a :: c :: _, h =>
    simp only [rd16, Option.some.injEq, Prod.mk.injEq] at h
    have := toNat_lt a; have := toNat_lt c; omega

theorem rd16_length {b r : Bytes} {n : Nat} (h : rd16 b = some (n, r)) : b.length = r.length + 2 := by
  match b, h with
  | a :: c :: _, h =>
    simp only [rd16, Option.some.injEq, Prod.mk.injEq] at h
    simp [← h.2]

theorem rd8_length {b r : Bytes} {n : Nat} (h : rd8 b = some (n, r)) : b.length = r.length + 1 := by
  match b, h with
  | a :: _, h =>
    simp only [rd8, Option.some.injEq, Prod.mk.injEq] at h
    simp [← h.2]

theorem rd32_length {b r : Bytes} {n : Nat} (h : rd32 b = some (n, r)) : b.length = r.length + 4 := by
  match b, h with
  | a :: c :: d :: e :: _, h =>
    simp only [rd32, Option.some.injEq, Prod.mk.injEq] at h
    simp [← h.2]

theorem takeExact_append (a r : Bytes) : takeExact a.length (a ++ r) = some (a, r) := by
  simp [takeExact]

theorem takeExact_length {n : Nat} {b x r : Bytes} (h : takeExact n b = some (x, r)) :
    x.length = n ∧ b.length = n + r.length ∧ b = x ++ r := by
  unfold takeExact at h
  split at h
  · simp only [Option.some.injEq, Prod.mk.injEq] at h
    obtain ⟨h1, h2⟩ := h
    subst h1; subst h2
    refine ⟨?_, ?_, ?_⟩
    · simp; omega
    · simp; omega
    · simp
  · simp at h

/-- hex rendering (lower case, two digits per octet), as `binascii.b2a_hex` -/
def hexDigit (n : Nat) : Char :=
  if n < 10 then Char.ofNat (48 + n) else Char.ofNat (87 + n)
def toHex (b : Bytes) : String :=
  String.ofList (b.flatMap fun x => [hexDigit (x.toNat / 16), hexDigit (x.toNat % 16)])

def hexVal (c : Char) : Option Nat :=
  if '0' ≤ c ∧ c ≤ '9' then some (c.toNat - 48)
  else if 'a' ≤ c ∧ c ≤ 'f' then some (c.toNat - 87)
  else if 'A' ≤ c ∧ c ≤ 'F' then some (c.toNat - 55)
  else none

def ofHexList : List Char → Option Bytes
  | [] => some []
  | a :: b :: r => do
      let x ← hexVal a; let y ← hexVal b; let t ← ofHexList r
      pure (u8 (x * 16 + y) :: t)
  | _ => none
def ofHex (s : String) : Option Bytes := ofHexList s.toList

end Yabgp
