/-
  Model of the Adj-RIB / version bookkeeping of one `BGP` protocol object (yabgp/core/protocol.py):
    BGP.__init__ (the rib / version / *_dict attributes), init_rib, update_rib_in_ipv4,
    update_rib_out_ipv4, update_receive_verion, update_send_version, the part of _update_received that
    calls them, and the two calls api/v1.py::send_update_message makes on the sent side.
  The model transcribes the code AS REPAIRED by the C19 `fix:` commit (address families compared as
  tuples, str(k) in the key rendering, the MPLS label not part of a VPN route's key).

  Abstraction of values (the code only ever hashes / compares them with ==):
    * an IPv4 prefix string                       -> a `Nat` id
    * an attribute dictionary `msg['attr']`       -> a `Nat` id (equal ids <-> equal dictionaries)
    * the key string the version functions build  -> a `Nat` id OF THE RULE.  The key is
        "{" + ",".join('"%s":"%s"' % (k, rule[k]) for k in sorted(rule)) + "}"      (without 'label' for VPN routes)
      a deterministic rendering of the rule's fields that is injective on the rules the decoders and the
      REST layer produce (field values contain no '"'): the model uses the rule itself as the key.
    * the value stored under a key: deepcopy(attr) minus attr[14]['nlri'] (plus the rule's label for VPN
      routes) -> a `Nat` id attached to the announced rule.  It is a pure function of (attr, rule); the
      model leaves it arbitrary per rule, the harness recomputes it independently.
  A Python `dict` is an insertion-ordered association list with unique keys.  Import-free.
-/

namespace Yabgp.Rib

/-- a Python dict (keys and values are ids), in insertion order -/
abbrev Table := List (Nat × Nat)

namespace Table

/-- `d.get(x)` -/
def get? : Table → Nat → Option Nat
  | [], _ => none
  | (k, v) :: t, x => if k = x then some v else get? t x

/-- `x in d` -/
def has (t : Table) (x : Nat) : Bool := (t.get? x).isSome

/-- assignment to a key that is present keeps its position -/
def replace : Table → Nat → Nat → Table
  | [], _, _ => []
  | (k, v) :: t, x, y => if k = x then (k, y) :: replace t x y else (k, v) :: replace t x y

/-- `d[x] = y` -/
def set (t : Table) (x y : Nat) : Table := if t.has x then t.replace x y else t ++ [(x, y)]

/-- `d.pop(x)` / `del d[x]` for a present key -/
def pop (t : Table) (x : Nat) : Table := t.filter (fun kv => kv.1 != x)

end Table

/-- `send_version` / `receive_version` -/
structure Versions where
  ipv4 : Nat := 0
  flowspec : Nat := 0
  srPolicy : Nat := 0
  mplsVpn : Nat := 0
deriving DecidableEq, Repr

/-- the attributes of a `BGP` object that the anchored functions read or write -/
structure State where
  ribIn : Table := []        -- adj_rib_in['ipv4']
  ribOut : Table := []       -- adj_rib_out['ipv4']
  tree : List Nat := []      -- adj_rib_in_ipv4_tree: the prefixes that have a node
  sendVer : Versions := {}
  recvVer : Versions := {}
  fsSend : Table := []       -- flowspec_send_dict
  fsRecv : Table := []       -- flowspec_receive_dict
  srSend : Table := []       -- sr_send_dict
  srRecv : Table := []       -- sr_receive_dict (never written)
  vpnSend : Table := []      -- mpls_vpn_send_dict
  vpnRecv : Table := []      -- mpls_vpn_receive_dict
deriving DecidableEq, Repr

/-- `BGP.__init__` -/
def State.init : State := {}

/-- `attr[14]` as the version functions look at it: the address family decides the branch; every
    announced rule comes with (key, value to store) -/
inductive Reach where
  | flowspec (rules : List (Nat × Nat))    -- afi_safi (1, 133): for prefix in attr[14]['nlri']
  | srPolicy (key : Nat)                   -- afi_safi (1, 73): attr[14]['nlri'] is ONE rule; the value is `attr` itself
  | mplsVpn (rules : List (Nat × Nat))     -- afi_safi (1, 128)
  | other                                  -- any other family: no branch is taken
deriving DecidableEq, Repr

/-- `attr[15]` -/
inductive Unreach where
  | flowspec (keys : List Nat)
  | srPolicy (key : Nat)
  | mplsVpn (keys : List Nat)
  | other
deriving DecidableEq, Repr

/-- a decoded UPDATE (received side) or the JSON body of a send request (sent side) -/
structure Msg where
  attr : Nat := 0                     -- msg['attr'] as a whole
  nlri : List Nat := []
  withdraw : List Nat := []
  reach : Option Reach := none        -- attr.get(14)
  unreach : Option Unreach := none    -- attr.get(15)
deriving DecidableEq, Repr

/-! ### loop bodies on one dictionary and its counter -/

/-- body of every withdraw loop:
      if key in d:  version += 1;  d.pop(key)            (else: nothing, or a log line) -/
def wdStep (tv : Table × Nat) (k : Nat) : Table × Nat :=
  if tv.1.has k then (tv.1.pop k, tv.2 + 1) else tv

/-- body of the IPv4 announce loops:
      if prefix not in d: version += 1
      else: if attr == d[prefix]: pass  else: version += 1
      d[prefix] = attr -/
def annStepIpv4 (a : Nat) (tv : Table × Nat) (k : Nat) : Table × Nat :=
  if !tv.1.has k then (tv.1.set k a, tv.2 + 1)
  else if tv.1.get? k == some a then (tv.1.set k a, tv.2)
  else (tv.1.set k a, tv.2 + 1)

/-- body of the flowspec / sr-policy / mpls-vpn announce loops:
      if key not in d: version += 1; d[key] = value
      else: if value == d[key]: pass  else: version += 1; d[key] = value -/
def annStepMp (tv : Table × Nat) (kv : Nat × Nat) : Table × Nat :=
  if !tv.1.has kv.1 then (tv.1.set kv.1 kv.2, tv.2 + 1)
  else if tv.1.get? kv.1 == some kv.2 then tv
  else (tv.1.set kv.1 kv.2, tv.2 + 1)

/-! ### the radix tree next to adj_rib_in -/

/-- `if tree.search_exact(p): tree.delete(p)` -/
def treeDelete (tr : List Nat) (p : Nat) : List Nat :=
  if tr.contains p then tr.filter (fun q => q != p) else tr

/-- `tree.add(p)` -/
def treeAdd (tr : List Nat) (p : Nat) : List Nat :=
  if tr.contains p then tr else tr ++ [p]

/-- body of the withdraw loop of update_rib_in_ipv4 (dictionary, counter, tree) -/
def ribInWdStep (x : (Table × Nat) × List Nat) (p : Nat) : (Table × Nat) × List Nat :=
  if x.1.1.has p then ((x.1.1.pop p, x.1.2 + 1), treeDelete x.2 p) else x

/-- body of the announce loop of update_rib_in_ipv4 -/
def ribInAnnStep (a : Nat) (x : (Table × Nat) × List Nat) (p : Nat) : (Table × Nat) × List Nat :=
  (annStepIpv4 a x.1 p, treeAdd x.2 p)

/-! ### the anchored functions -/

/-- `init_rib` (called by connectionMade and connectionLost): both IPv4 tables are replaced by empty
    ones; counters, the radix tree and the flowspec / sr / vpn dictionaries are left alone -/
def initRib (s : State) : State := { s with ribIn := [], ribOut := [] }

def ribInLoops (s : State) (m : Msg) : (Table × Nat) × List Nat :=
  m.nlri.foldl (ribInAnnStep m.attr) (m.withdraw.foldl ribInWdStep ((s.ribIn, s.recvVer.ipv4), s.tree))

/-- `update_rib_in_ipv4(msg)`: the withdraw loop, then the announce loop.  (The surrounding try/except
    only matters for unhashable prefixes or a missing 'ipv4' family, which typed inputs exclude.) -/
def updateRibInIpv4 (s : State) (m : Msg) : State :=
  { s with ribIn := (ribInLoops s m).1.1,
           recvVer := { s.recvVer with ipv4 := (ribInLoops s m).1.2 },
           tree := (ribInLoops s m).2 }

def ribOutLoops (s : State) (m : Msg) : Table × Nat :=
  m.nlri.foldl (annStepIpv4 m.attr) (m.withdraw.foldl wdStep (s.ribOut, s.sendVer.ipv4))

/-- `update_rib_out_ipv4(msg)` -/
def updateRibOutIpv4 (s : State) (m : Msg) : State :=
  { s with ribOut := (ribOutLoops s m).1, sendVer := { s.sendVer with ipv4 := (ribOutLoops s m).2 } }

/-- `if 14 in attr:` of update_receive_verion -/
def recvReach (s : State) : Reach → State
  | .flowspec rules =>
      { s with fsRecv := (rules.foldl annStepMp (s.fsRecv, s.recvVer.flowspec)).1,
               recvVer := { s.recvVer with flowspec := (rules.foldl annStepMp (s.fsRecv, s.recvVer.flowspec)).2 } }
  | .srPolicy _ => s          -- LOG.info('recieve sr send')
  | .mplsVpn rules =>
      { s with vpnRecv := (rules.foldl annStepMp (s.vpnRecv, s.recvVer.mplsVpn)).1,
               recvVer := { s.recvVer with mplsVpn := (rules.foldl annStepMp (s.vpnRecv, s.recvVer.mplsVpn)).2 } }
  | .other => s

/-- `if 15 in attr:` of update_receive_verion -/
def recvUnreach (s : State) : Unreach → State
  | .flowspec keys =>
      { s with fsRecv := (keys.foldl wdStep (s.fsRecv, s.recvVer.flowspec)).1,
               recvVer := { s.recvVer with flowspec := (keys.foldl wdStep (s.fsRecv, s.recvVer.flowspec)).2 } }
  | .srPolicy _ => s          -- LOG.info('recieve sr withdraw')
  | .mplsVpn keys =>
      { s with vpnRecv := (keys.foldl wdStep (s.vpnRecv, s.recvVer.mplsVpn)).1,
               recvVer := { s.recvVer with mplsVpn := (keys.foldl wdStep (s.vpnRecv, s.recvVer.mplsVpn)).2 } }
  | .other => s

def optApply {α : Type} (f : State → α → State) (s : State) : Option α → State
  | none => s
  | some a => f s a

/-- `update_receive_verion(attr, nlri, withdraw)`: attribute 14 first, then attribute 15 -/
def updateReceiveVersion (s : State) (m : Msg) : State :=
  optApply recvUnreach (optApply recvReach s m.reach) m.unreach

/-- `if 14 in attr:` of update_send_version; `a` is the id of `attr` (the sr-policy branch stores `attr`) -/
def sendReach (a : Nat) (s : State) : Reach → State
  | .flowspec rules =>
      { s with fsSend := (rules.foldl annStepMp (s.fsSend, s.sendVer.flowspec)).1,
               sendVer := { s.sendVer with flowspec := (rules.foldl annStepMp (s.fsSend, s.sendVer.flowspec)).2 } }
  | .srPolicy key =>
      { s with srSend := (annStepMp (s.srSend, s.sendVer.srPolicy) (key, a)).1,
               sendVer := { s.sendVer with srPolicy := (annStepMp (s.srSend, s.sendVer.srPolicy) (key, a)).2 } }
  | .mplsVpn rules =>
      { s with vpnSend := (rules.foldl annStepMp (s.vpnSend, s.sendVer.mplsVpn)).1,
               sendVer := { s.sendVer with mplsVpn := (rules.foldl annStepMp (s.vpnSend, s.sendVer.mplsVpn)).2 } }
  | .other => s

/-- `if 15 in attr:` of update_send_version -/
def sendUnreach (s : State) : Unreach → State
  | .flowspec keys =>
      { s with fsSend := (keys.foldl wdStep (s.fsSend, s.sendVer.flowspec)).1,
               sendVer := { s.sendVer with flowspec := (keys.foldl wdStep (s.fsSend, s.sendVer.flowspec)).2 } }
  | .srPolicy key =>
      { s with srSend := (wdStep (s.srSend, s.sendVer.srPolicy) key).1,
               sendVer := { s.sendVer with srPolicy := (wdStep (s.srSend, s.sendVer.srPolicy) key).2 } }
  | .mplsVpn keys =>
      { s with vpnSend := (keys.foldl wdStep (s.vpnSend, s.sendVer.mplsVpn)).1,
               sendVer := { s.sendVer with mplsVpn := (keys.foldl wdStep (s.vpnSend, s.sendVer.mplsVpn)).2 } }
  | .other => s

/-- `update_send_version(peer_ip, attr, nlri, withdraw)` -/
def updateSendVersion (s : State) (m : Msg) : State :=
  optApply sendUnreach (optApply (sendReach m.attr) s m.reach) m.unreach

/-- the tail of `_update_received` for an UPDATE that decoded without error:
      self.update_receive_verion(...)
      if CONF.bgp.rib:  if msg.get('afi_safi') == 'ipv4':  self.update_rib_in_ipv4(msg)
    `afi_safi` is 'ipv4' when `nlri or withdraw`; it can also be 'ipv4' for an MP attribute of family
    (1, 1) without either, and then update_rib_in_ipv4 runs over two empty lists and changes nothing
    (`updateRibInIpv4_nil`). -/
def updateReceived (rib : Bool) (s : State) (m : Msg) : State :=
  if rib && (!m.nlri.isEmpty || !m.withdraw.isEmpty) then updateRibInIpv4 (updateReceiveVersion s m) m
  else updateReceiveVersion s m

/-- what api/v1.py does for an accepted send request before the message goes out:
      if cfg.CONF.bgp.rib: api_utils.save_send_ipv4_policies(msg)      (= update_rib_out_ipv4)
      api_utils.update_send_version(peer_ip, attr, nlri, withdraw) -/
def apiSend (rib : Bool) (s : State) (m : Msg) : State :=
  updateSendVersion (if rib then updateRibOutIpv4 s m else s) m

/-! ### histories of one peering -/

inductive Ev where
  | recv (m : Msg)       -- a well-formed UPDATE arrives in Established
  | recvMalformed        -- an UPDATE with a decoding error: _update_received returns before any bookkeeping
  | send (m : Msg)       -- an accepted REST send request
  | lost                 -- connectionLost on the current protocol object (init_rib)
  | connect              -- a new connection: buildProtocol creates a fresh BGP object, connectionMade runs init_rib
deriving DecidableEq, Repr

def step (rib : Bool) (s : State) : Ev → State
  | .recv m => updateReceived rib s m
  | .recvMalformed => s
  | .send m => apiSend rib s m
  | .lost => initRib s
  | .connect => initRib State.init

def run (rib : Bool) (s : State) (evs : List Ev) : State := evs.foldl (step rib) s

end Yabgp.Rib
