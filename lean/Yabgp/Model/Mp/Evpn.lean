/-
  Model of yabgp/message/attribute/nlri/evpn.py (EVPN NLRI, RFC 7432) and of the two label-stack
  helpers of yabgp/message/attribute/nlri/__init__.py it uses, AS THE CODE IS after the repairs
  "fix: encode the EVPN ESI type 3 local discriminator in 3 octets" and "fix: the size of an
  address field decides between IPv4 and IPv6" (NLRI.parse_ip_address).

  Values are structured: route distinguishers, ESIs, MAC addresses (48-bit `Nat`), IP addresses
  (version + value), label lists.  Text forms (`'1.1.1.1:5'`, `'00-11-22-33-44-55'`, `'::1'`) exist
  only in the JSON glue.  `none` always means "the Python code raises".
  Import-free apart from the byte helpers.
-/
import Yabgp.Base.Bytes

namespace Yabgp.Evpn

/-- an IP address as `netaddr.IPAddress` holds it: version and value -/
structure Ip where
  v6 : Bool
  val : Nat
  deriving DecidableEq, Repr

/-- `int(binascii.b2a_hex(s), 16)`: raises on the empty string -/
def hexInt (b : Bytes) : Option Nat :=
  match b with
  | [] => none
  | _ => some (beVal b)

/-- `NLRI.parse_ip_address(data)`: `IPAddress(int(hex(data)), 4 if len(data) <= 4 else 6)`;
    raises on an empty field and on a value that does not fit 128 bits -/
def parseIp (b : Bytes) : Option Ip :=
  match b with
  | [] => none
  | _ =>
    if b.length ≤ 4 then some { v6 := false, val := beVal b }
    else if beVal b < 2 ^ 128 then some { v6 := true, val := beVal b }
    else none

/-- `netaddr.IPAddress(text).packed` -/
def ipPacked (ip : Ip) : Option Bytes :=
  if ip.v6 then (if ip.val < 2 ^ 128 then some (beN 16 ip.val) else none)
  else (if ip.val < 2 ^ 32 then some (be32 ip.val) else none)

/-! ### route distinguisher -/

/-- what `parse_rd` returns / `construct_rd` accepts.  `asn a b` is the text `'a:b'` (types 0 and 2
    print the same way), `ip i n` is `'d.d.d.d:n'` (type 1), `raw` is `str(rd_value)` of another type -/
inductive Rd where
  | asn (a b : Nat)
  | ip (ip an : Nat)
  | raw (b : Bytes)
  deriving DecidableEq, Repr

def unpackHI : Bytes → Option (Nat × Nat)
  | [a, b, c, d, e, f] =>
      some (a.toNat * 256 + b.toNat, c.toNat * 16777216 + d.toNat * 65536 + e.toNat * 256 + f.toNat)
  | _ => none
def unpackIH : Bytes → Option (Nat × Nat)
  | [a, b, c, d, e, f] =>
      some (a.toNat * 16777216 + b.toNat * 65536 + c.toNat * 256 + d.toNat, e.toNat * 256 + f.toNat)
  | _ => none

/-- `EVPN.parse_rd(data)` with `data = value[0:8]` -/
def parseRd (data : Bytes) : Option Rd :=
  match unpackH (slice data 0 2) with
  | none => none
  | some ty =>
    if ty = 0 then (unpackHI (slice data 2 8)).map fun p => Rd.asn p.1 p.2
    else if ty = 1 then (unpackIH (slice data 2 8)).map fun p => Rd.ip p.1 p.2
    else if ty = 2 then (unpackIH (slice data 2 8)).map fun p => Rd.asn p.1 p.2
    else some (Rd.raw (slice data 2 8))

/-- `EVPN.construct_rd(text)` -/
def constructRd : Rd → Option Bytes
  | .ip i n => if i < 4294967296 ∧ n < 65536 then some (be16 1 ++ be32 i ++ be16 n) else none
  | .asn a b =>
    if a ≤ 65535 then (if b < 4294967296 then some (be16 0 ++ be16 a ++ be32 b) else none)
    else (if a < 4294967296 ∧ b < 65536 then some (be16 2 ++ be32 a ++ be16 b) else none)
  | .raw _ => none

/-! ### Ethernet segment identifier -/

inductive Esi where
  | t0 (v : Nat)
  | t1 (mac key : Nat)      -- ce_mac_addr, ce_port_key
  | t2 (mac pri : Nat)      -- rb_mac_addr, rb_priority
  | t3 (mac ld : Nat)       -- sys_mac_addr, ld_value
  | t4 (rid ld : Nat)       -- router_id, ld_value
  | t5 (asn ld : Nat)       -- as_num, ld_value
  | other (ty : Nat)        -- any other type octet: value {}
  deriving DecidableEq, Repr

/-- `EVPN.parse_esi(esi)` with `esi = value[k:k+10]` -/
def parseEsi (esi : Bytes) : Option Esi :=
  match unpackB (slice esi 0 1) with
  | none => none
  | some ty =>
    if ty = 0 then (hexInt (esi.drop 1)).map Esi.t0
    else if ty = 1 then
      match hexInt (slice esi 1 7), unpackH (slice esi 7 9) with
      | some m, some k => some (Esi.t1 m k)
      | _, _ => none
    else if ty = 2 then
      match hexInt (slice esi 1 7), unpackH (slice esi 7 9) with
      | some m, some k => some (Esi.t2 m k)
      | _, _ => none
    else if ty = 3 then
      match hexInt (slice esi 1 7), hexInt (esi.drop 7) with
      | some m, some k => some (Esi.t3 m k)
      | _, _ => none
    else if ty = 4 then
      match hexInt (slice esi 1 5), unpackI (slice esi 5 9) with
      | some m, some k => some (Esi.t4 m k)
      | _, _ => none
    else if ty = 5 then
      match hexInt (slice esi 1 5), unpackI (slice esi 5 9) with
      | some m, some k => some (Esi.t5 m k)
      | _, _ => none
    else some (Esi.other ty)

/-- number of hexadecimal digits of `hex(n)` -/
def hexDigits (n : Nat) : Nat :=
  if h : n < 16 then 1 else 1 + hexDigits (n / 16)
termination_by n
decreasing_by omega

/-- the six octets of a MAC address given as `'XX-XX-XX-XX-XX-XX'` (the text form can only express 48 bits) -/
def mac6 (m : Nat) : Option Bytes := if m < 2 ^ 48 then some (beN 6 m) else none

/-- `EVPN.construct_esi(esi_data)` -/
def constructEsi : Esi → Option Bytes
  | .t0 v =>
    -- hex digits left-padded to 18; longer values keep their own (even) number of digits
    if hexDigits v ≤ 18 then some (0 :: beN 9 v)
    else if hexDigits v % 2 = 1 then none
    else some (0 :: beN (hexDigits v / 2) v)
  | .t1 m k => (mac6 m).bind fun mb => if k < 65536 then some ([1] ++ mb ++ be16 k ++ [0]) else none
  | .t2 m k => (mac6 m).bind fun mb => if k < 65536 then some ([2] ++ mb ++ be16 k ++ [0]) else none
  | .t3 m ld => (mac6 m).bind fun mb => if ld < 4294967296 then some ([3] ++ mb ++ be24 ld) else none
  | .t4 a ld => if a < 4294967296 ∧ ld < 4294967296 then some ([4] ++ be32 a ++ be32 ld ++ [0]) else none
  | .t5 a ld => if a < 4294967296 ∧ ld < 4294967296 then some ([5] ++ be32 a ++ be32 ld ++ [0]) else none
  | .other _ => some []

/-! ### MPLS label stack (NLRI.parse_mpls_label_stack / construct_mpls_label_stack) -/

def parseLabels : Bytes → List Nat
  | a :: b :: c :: r =>
    if c.toNat % 2 = 1 then [(a.toNat * 65536 + b.toNat * 256 + c.toNat) / 16]
    else (a.toNat * 65536 + b.toNat * 256 + c.toNat) / 16 :: parseLabels r
  | _ => []

/-- the labels before the last one: `struct.pack('!L', label << 4)[1:]` -/
def constructInitLabels : List Nat → Option Bytes
  | [] => some []
  | l :: r =>
    if l * 16 < 4294967296 then (constructInitLabels r).map (be24 (l * 16) ++ ·) else none

/-- `construct_mpls_label_stack(labels)`: raises on `[]`; a last label 0 is written without bottom-of-stack -/
def constructLabels (ls : List Nat) : Option Bytes :=
  match ls.getLast? with
  | none => none
  | some last =>
    match constructInitLabels ls.dropLast with
    | none => none
    | some ini =>
      if last ≠ 0 then (if last * 16 + 1 < 4294967296 then some (ini ++ be24 (last * 16 + 1)) else none)
      else some (ini ++ [0, 0, 0])

/-! ### the route types -/

/-- a decoded route (`{'type': t, 'value': {...}}`); `t5c` is the shape `IPRoutePrefix.construct` takes
    (`esi` is a number there), `unk` an entry of a type `EVPN.construct` does not know -/
inductive Route where
  | t1 (rd : Rd) (esi : Esi) (tag : Nat) (label : List Nat)
  | t2 (rd : Rd) (esi : Esi) (tag : Nat) (mac : Nat) (ip : Option Ip) (label : List Nat)
  | t3 (rd : Rd) (tag : Nat) (ip : Option Ip)
  | t4 (rd : Rd) (esi : Esi) (ip : Option Ip)
  | t5 (rd : Rd) (esi : Esi) (tag : Nat) (pfx : Ip) (plen : Nat) (gw : Ip) (label : List Nat)
  | t5c (rd : Rd) (esi : Nat) (tag : Nat) (pfx : Ip) (plen : Nat) (gw : Ip) (label : List Nat)
  | unk (ty : Nat)
  deriving DecidableEq, Repr

def Route.type : Route → Nat
  | .t1 .. => 1 | .t2 .. => 2 | .t3 .. => 3 | .t4 .. => 4 | .t5 .. => 5 | .t5c .. => 5 | .unk ty => ty

/-- the optional IP address field: length octet (bits), then `length // 8` octets -/
def parseIpField (lenOctet : Bytes) (after : Bytes) : Option (Option Ip) :=
  match lenOctet with
  | [l] => if l.toNat = 0 then some none else (parseIp (after.take (l.toNat / 8))).map some
  | _ => none

def constructIpField : Option Ip → Option Bytes
  | none => some [0]
  | some ip => (ipPacked ip).map fun b => u8 (b.length * 8) :: b

def parseT1 (v : Bytes) : Option Route :=
  match parseRd (slice v 0 8), parseEsi (slice v 8 18), unpackI (slice v 18 22) with
  | some rd, some esi, some tag => some (.t1 rd esi tag (parseLabels (v.drop 22)))
  | _, _, _ => none

def constructT1 (rd : Rd) (esi : Esi) (tag : Nat) (label : List Nat) : Option Bytes :=
  match constructRd rd, constructEsi esi, constructLabels label with
  | some a, some b, some d => if tag < 4294967296 then some (a ++ b ++ be32 tag ++ d) else none
  | _, _, _ => none

/-- the labels of a type 2 route start after the IP address (when there is one) -/
def t2LabelOffset (v : Bytes) : Nat :=
  match slice v 29 30 with
  | [l] => 30 + l.toNat / 8
  | _ => 30

def parseT2 (v : Bytes) : Option Route :=
  match parseRd (slice v 0 8), parseEsi (slice v 8 18), unpackI (slice v 18 22), hexInt (slice v 23 29),
        parseIpField (slice v 29 30) (v.drop 30) with
  | some rd, some esi, some tag, some mac, some ip =>
      some (.t2 rd esi tag mac ip (parseLabels (v.drop (t2LabelOffset v))))
  | _, _, _, _, _ => none

def constructT2 (rd : Rd) (esi : Esi) (tag mac : Nat) (ip : Option Ip) (label : List Nat) : Option Bytes :=
  match constructRd rd, constructEsi esi, mac6 mac, constructIpField ip,
        (if label = [] then some [] else constructLabels label) with
  | some a, some b, some m, some i, some d =>
      if tag < 4294967296 then some (a ++ b ++ be32 tag ++ [48] ++ m ++ i ++ d) else none
  | _, _, _, _, _ => none

def parseT3 (v : Bytes) : Option Route :=
  match parseRd (slice v 0 8), unpackI (slice v 8 12), parseIpField (slice v 12 13) (v.drop 13) with
  | some rd, some tag, some ip => some (.t3 rd tag ip)
  | _, _, _ => none

def constructT3 (rd : Rd) (tag : Nat) (ip : Option Ip) : Option Bytes :=
  match constructRd rd, constructIpField ip with
  | some a, some i => if tag < 4294967296 then some (a ++ be32 tag ++ i) else none
  | _, _ => none

def parseT4 (v : Bytes) : Option Route :=
  match parseRd (slice v 0 8), parseEsi (slice v 8 18), parseIpField (slice v 18 19) (v.drop 19) with
  | some rd, some esi, some ip => some (.t4 rd esi ip)
  | _, _, _ => none

def constructT4 (rd : Rd) (esi : Esi) (ip : Option Ip) : Option Bytes :=
  match constructRd rd, constructEsi esi, constructIpField ip with
  | some a, some b, some i => some (a ++ b ++ i)
  | _, _, _ => none

/-- width of the prefix and gateway fields of a type 5 route, from what follows the prefix length octet -/
def t5Width (rest : Bytes) : Nat :=
  if rest.length = 11 then 4 else if rest.length = 35 then 16 else 23

def parseT5 (v : Bytes) : Option Route :=
  match parseRd (slice v 0 8), parseEsi (slice v 8 18), unpackI (slice v 18 22), unpackB (slice v 22 23),
        parseIp ((v.drop 23).take (t5Width (v.drop 23))),
        parseIp (((v.drop 23).drop (t5Width (v.drop 23))).take (t5Width (v.drop 23))) with
  | some rd, some esi, some tag, some plen, some pfx, some gw =>
      some (.t5 rd esi tag pfx plen gw
        (parseLabels (((v.drop 23).drop (t5Width (v.drop 23))).drop (t5Width (v.drop 23)))))
  | _, _, _, _, _, _ => none

/-- `struct.pack('!d', n)` for an integer that a double holds exactly (n < 2^53); `none` beyond
    (not modelled: rounding) -/
def log2 (n : Nat) : Nat := if h : n < 2 then 0 else 1 + log2 (n / 2)
termination_by n
decreasing_by omega

def packDouble (n : Nat) : Option Bytes :=
  if n = 0 then some (beN 8 0)
  else if n < 2 ^ 53 then some (beN 8 ((1023 + log2 n) * 2 ^ 52 + (n - 2 ^ log2 n) * 2 ^ (52 - log2 n)))
  else none

def constructT5 (rd : Rd) (esi tag : Nat) (pfx : Ip) (plen : Nat) (gw : Ip) (label : List Nat) : Option Bytes :=
  match constructRd rd, packDouble esi, ipPacked pfx, ipPacked gw, constructLabels label with
  | some a, some e, some p, some g, some d =>
      if tag < 4294967296 ∧ plen < 256 then some (a ++ [0, 0] ++ e ++ be32 tag ++ [u8 plen] ++ p ++ g ++ d)
      else none
  | _, _, _, _, _ => none

/-! ### the route list -/

/-- outcome of one (type, value) pair in `EVPN.parse` -/
inductive Dec where
  | ok (r : Route)
  | skip            -- unknown route type: nothing is appended
  | err             -- the route decoder raises

def decodeRoute (ty : Nat) (v : Bytes) : Dec :=
  if ty = 1 then (match parseT1 v with | some r => .ok r | none => .err)
  else if ty = 2 then (match parseT2 v with | some r => .ok r | none => .err)
  else if ty = 3 then (match parseT3 v with | some r => .ok r | none => .err)
  else if ty = 4 then (match parseT4 v with | some r => .ok r | none => .err)
  else if ty = 5 then (match parseT5 v with | some r => .ok r | none => .err)
  else .skip

/-- `EVPN.parse(nlri_data)`: type, length, value; entries of an unknown type are skipped;
    a single trailing octet raises (`ord(b'')`) -/
def parseRoutes (b : Bytes) : Option (List Route) :=
  match b with
  | [] => some []
  | [_] => none
  | t :: l :: rest =>
    match decodeRoute t.toNat (rest.take l.toNat) with
    | .err => none
    | .skip => parseRoutes (rest.drop l.toNat)
    | .ok r => (parseRoutes (rest.drop l.toNat)).map (r :: ·)
termination_by b.length
decreasing_by all_goals (simp only [List.length_drop, List.length_cons]; omega)

/-- the value octets `EVPN.construct` produces for one entry (`b''` for an unknown type) -/
def constructRouteValue : Route → Option Bytes
  | .t1 rd esi tag label => constructT1 rd esi tag label
  | .t2 rd esi tag mac ip label => constructT2 rd esi tag mac ip label
  | .t3 rd tag ip => constructT3 rd tag ip
  | .t4 rd esi ip => constructT4 rd esi ip
  | .t5 .. => none                       -- struct.pack('!d', dict) raises
  | .t5c rd esi tag pfx plen gw label => constructT5 rd esi tag pfx plen gw label
  | .unk _ => some []

/-- one entry: nothing when the value is empty, else `pack('!2B', type, len)` + value -/
def constructRoute (r : Route) : Option Bytes :=
  match constructRouteValue r with
  | none => none
  | some [] => some []
  | some v => if r.type < 256 ∧ v.length < 256 then some (u8 r.type :: u8 v.length :: v) else none

/-- `EVPN.construct(nlri_list)` -/
def constructRoutes : List Route → Option Bytes
  | [] => some []
  | r :: rs =>
    match constructRoute r, constructRoutes rs with
    | some a, some b => some (a ++ b)
    | _, _ => none

end Yabgp.Evpn
