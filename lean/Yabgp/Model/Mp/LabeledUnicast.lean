/-
  Model of yabgp/message/attribute/nlri/labeled_unicast/__init__.py (LabeledUnicast.parse / construct;
  IPv4LabeledUnicast and IPv6LabeledUnicast only set AFI), with fix_1 (IPv6 text), fix_2
  (construct_prefix_v6) and fix_3 (construct_prefix_v4 for /0).  The label stack helpers are the shared
  ones of nlri/__init__.py, unrepaired: a last label 0 is written without bottom-of-stack (known finding).
-/
import Yabgp.Model.Mp.Common

namespace Yabgp.Mp

structure LuRoute where
  labels : List Nat
  pfx : MPfx
  pathId : Option Nat := none
  deriving DecidableEq, Repr

/-- `prefix_hex` and the address text of one route: `nbl` octets follow the length octet, `n` labels were read -/
def luAddr (af : AF) (bitlen n : Nat) (rest : Bytes) : Option Ip :=
  match af with
  | .inet =>
    match intOfBytes ((rest.take (ceil8 bitlen)).drop (3 * n) ++ zeros (4 + 3 * n - ceil8 bitlen)) with
    | none => none
    | some v => ipOfInt v
  | .inet6 =>
    match intOfBytes ((rest.take (ceil8 bitlen)).drop (3 * n) ++ zeros ((128 + 24 * n - bitlen) / 8)) with
    | none => none
    | some v => ip6OfInt v

/-- one loop iteration after the optional path id -/
def parseLuOne (af : AF) (pid : Option Nat) (b : Bytes) : R (LuRoute × Bytes) :=
  match b with
  | [] => .error .other                                  -- ord(b''): TypeError
  | l :: rest =>
    match luAddr af l.toNat (parseLabels rest).length rest with
    | none => .error .other
    | some a =>
      .ok ({ labels := parseLabels rest,
             pfx := { addr := a, len := (l.toNat : Int) - 24 * ((parseLabels rest).length : Int) },
             pathId := pid },
           rest.drop (ceil8 l.toNat))

def stepLu (af : AF) (addpath : Bool) (b : Bytes) : R (LuRoute × Bytes) :=
  if addpath then
    match rd32 b with
    | none => .error .other
    | some (pid, r) => parseLuOne af (some pid) r
  else parseLuOne af none b

theorem parseLuOne_length {af : AF} {pid : Option Nat} {b r : Bytes} {x : LuRoute}
    (h : parseLuOne af pid b = .ok (x, r)) : r.length < b.length := by
  unfold parseLuOne at h
  split at h
  · simp at h
  · split at h
    · simp at h
    · simp only [Except.ok.injEq, Prod.mk.injEq] at h
      rw [← h.2]; simp; omega

theorem stepLu_length (af : AF) (addpath : Bool) (b : Bytes) (x : LuRoute) (r : Bytes)
    (h : stepLu af addpath b = .ok (x, r)) : r.length < b.length := by
  unfold stepLu at h
  split at h
  · split at h
    · simp at h
    · rename_i pid r' hr
      have := rd32_length hr
      have := parseLuOne_length h
      omega
  · exact parseLuOne_length h

/-- `LabeledUnicast.parse(nlri_data, addpath)` for `cls.AFI = af` -/
def parseLu (af : AF) (addpath : Bool) (b : Bytes) : R (List LuRoute) :=
  many (fun _ => false) (stepLu af addpath) (stepLu_length af addpath) b

/-- the prefix octets of one route (`construct_prefix_v4` / `construct_prefix_v6`) -/
def luPrefixHex (af : AF) (p : MPfx) : Option Bytes :=
  match af with
  | .inet => constructPrefixV4 p
  | .inet6 => constructPrefixV6 p

/-- `struct.pack('!B', 8 * len(label_hex) + prefixlen)` and the rest of one element; the `path_id` key of
    an add-path entry is never read -/
def encLuWith (af : AF) (labelHex : Option Bytes) (r : LuRoute) : Option Bytes :=
  match labelHex, luPrefixHex af r.pfx with
  | some lh, some ph =>
    if 0 ≤ (8 * lh.length : Int) + r.pfx.len ∧ (8 * lh.length : Int) + r.pfx.len < 256
    then some (be8 ((8 * lh.length : Int) + r.pfx.len).toNat ++ lh ++ ph)
    else none
  | _, _ => none

/-- flag == 'advertise' -/
def encLuRoute (af : AF) (r : LuRoute) : Option Bytes := encLuWith af (encLabels encLastLu r.labels) r

/-- flag == 'withdraw': the label stack is replaced by 0x800000 -/
def encLuWithdraw (af : AF) (r : LuRoute) : Option Bytes := encLuWith af (some withdrawLabelHex) r

def constructLu (af : AF) (rs : List LuRoute) : Option Bytes := encAll (encLuRoute af) rs
def constructLuWithdraw (af : AF) (rs : List LuRoute) : Option Bytes := encAll (encLuWithdraw af) rs

end Yabgp.Mp
