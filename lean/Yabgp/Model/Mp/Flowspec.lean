/-
  Model of yabgp/message/attribute/nlri/ipv4_flowspec.py (IPv4 flow specification NLRI, RFC 5575)
  AS THE CODE IS after the repairs
    "fix: encode the flowspec items joined by '&' (AND bit)",
    "fix: flowspec values are carried in 1, 2, 4 or 8 octets",
    "fix: flowspec prefix component of length 0",
    "fix: flowspec extended NLRI length is 0xfnnn".
  The numeric-operator TEXT (`'=254|>=254&<=300'`) is modelled on `List Char`: the property is about
  values round-tripping through that text.  `none` = the Python code raises.
-/
import Yabgp.Base.Bytes
import Yabgp.Model.Text

namespace Yabgp.Flowspec
open Yabgp.Text

/-! ### prefix components (types 1 and 2) -/

/-- first four octets, missing ones read as 0: `"%s.%s.%s.%s" % tuple((data + ['0']*4)[0:4])` -/
def addr4 (b : Bytes) : Nat :=
  (b.getD 0 0).toNat * 16777216 + (b.getD 1 0).toNat * 65536 + (b.getD 2 0).toNat * 256 + (b.getD 3 0).toNat

/-- a component value: a prefix `'a.b.c.d/len'` (address as a 32-bit value) or an operator text -/
inductive Comp where
  | pfx (addr len : Nat)
  | ops (text : List Char)
  deriving DecidableEq, Repr

/-- `parse_prefix(data)`: value and the number of octets the caller skips (`ceil(len/8) + 1`) -/
def parsePrefix (data : Bytes) : Option (Comp × Nat) :=
  match data with
  | [] => none
  | l :: rest => some (.pfx (addr4 (rest.take ((l.toNat + 7) / 8))) l.toNat, (l.toNat + 7) / 8 + 1)

/-- number of address octets `construct_prefix` keeps -/
def pfxKeep (masklen : Nat) : Nat :=
  if 16 < masklen ∧ masklen ≤ 24 then 3
  else if 8 < masklen ∧ masklen ≤ 16 then 2
  else if 0 < masklen ∧ masklen ≤ 8 then 1
  else if masklen = 0 then 0
  else 4

/-- `construct_prefix('a.b.c.d/len')` -/
def constructPrefix (addr len : Nat) : Option Bytes :=
  if addr < 4294967296 ∧ len < 256 then some (u8 len :: (be32 addr).take (pfxKeep len)) else none

/-! ### numeric operators: octets -> text -/

def bit (f k : Nat) : Bool := f / 2 ^ k % 2 = 1

/-- `parse_operator_flag`: value length `1 << ((f >> 4) & 3)` -/
def opLen (f : Nat) : Nat := 2 ^ (f / 16 % 4)

/-- `parse_operators(data)`: list of (operator octet, value) and the offset it returns (one more than
    what it consumed); raises when an operator octet is the last octet -/
def parseOperators (data : Bytes) : Option (List (Nat × Nat) × Nat) :=
  match data with
  | [] => some ([], 1)
  | f :: rest =>
    match rest.take (opLen f.toNat) with
    | [] => none
    | v =>
      if bit f.toNat 7 then some ([(f.toNat, beVal v)], 1 + opLen f.toNat + 1)
      else
        match parseOperators (rest.drop (opLen f.toNat)) with
        | none => none
        | some (l, off) => some ((f.toNat, beVal v) :: l, 1 + opLen f.toNat + off)
termination_by data.length
decreasing_by simp only [List.length_drop, List.length_cons]; omega

/-- one item of `operator_dict_to_str` appended to what has been rendered so far -/
def itemStr (acc : List Char) (f v : Nat) : List Char :=
  acc ++ (if bit f 6 then ['&'] else if acc ≠ [] then ['|'] else [])
      ++ (if bit f 1 then ['>'] else []) ++ (if bit f 2 then ['<'] else []) ++ (if bit f 0 then ['='] else [])
      ++ decStr v

/-- `operator_dict_to_str(list)` -/
def opsToStr (acc : List Char) : List (Nat × Nat) → List Char
  | [] => acc
  | (f, v) :: r => opsToStr (itemStr acc f v) r

/-! ### numeric operators: text -> octets -/

/-- `int(s)` for the strings the harness sends (ASCII, no blank, sign or underscore): decimal digits only -/
def pyInt (s : List Char) : Option Nat := parseDec s

/-- `a + b in s` for two characters -/
def hasSub2 (a b : Char) : List Char → Bool
  | x :: y :: r => (x = a && y = b) || hasSub2 a b (y :: r)
  | _ => false

/-- state of `construct_operators`: `off_set` survives from one item to the next (it is unbound until some
    item has an operator), and the octets produced so far -/
structure CoSt where
  off : Option Nat
  out : Bytes

/-- the operator of one item: (`off_set`, EQ, GT, LT); `none` = no operator recognised (`off_set` keeps its
    previous value) -/
def detectOp (d : List Char) : Option (Nat × Bool × Bool × Bool) :=
  if d.head? = some '=' then some (1, true, false, false)
  else if hasSub2 '>' '=' d then some (2, true, true, false)
  else if hasSub2 '<' '=' d then some (2, true, false, true)
  else if d.contains '>' then some (1, false, true, false)
  else if d.contains '<' then some (1, false, false, true)
  else none

/-- octets that carry `value`: 1, 2, 4 or 8; 16 has no LEN code (KeyError) -/
def valLen (v : Nat) : Option Nat :=
  if v < 256 then some 1 else if v < 65536 then some 2 else if v < 4294967296 then some 4
  else if v < 18446744073709551616 then some 8 else none

def lenCode (n : Nat) : Nat := if n = 1 then 0 else if n = 2 then 16 else if n = 4 then 32 else 48

def b2n (b : Bool) : Nat := if b then 1 else 0

/-- one item: operator octet (`construct_operator_flag`) and value -/
def coItem (eol and : Bool) (st : CoSt) (d : List Char) : Option CoSt :=
  match d with
  | [] => none                                                 -- data[0]: IndexError
  | _ =>
    match (match detectOp d with
           | some (o, eq, gt, lt) => some (o, eq, gt, lt)
           | none => st.off.map fun o => (o, false, false, false)) with
    | none => none                                             -- off_set unbound
    | some (o, eq, gt, lt) =>
      match pyInt (d.drop o) with
      | none => none
      | some v =>
        match valLen v with
        | none => none
        | some n =>
          some { off := some o,
                 out := st.out ++ u8 (128 * b2n eol + 64 * b2n and + lenCode n + 4 * b2n lt + 2 * b2n gt + b2n eq)
                          :: beN n v }

/-- the inner loop over `and_data.split('&')`; `first` = this is item 0 of the group -/
def coAnd (lastOr first : Bool) (st : CoSt) : List (List Char) → Option CoSt
  | [] => some st
  | d :: r =>
    match coItem (lastOr && r.isEmpty) (!first) st d with
    | none => none
    | some st' => coAnd lastOr false st' r

/-- the outer loop over `data.split('|')` -/
def coOr (st : CoSt) : List (List Char) → Option CoSt
  | [] => some st
  | g :: r =>
    match coAnd r.isEmpty true st (splitAll '&' g) with
    | none => none
    | some st' => coOr st' r

/-- `construct_operators(text)` -/
def constructOperators (text : List Char) : Option Bytes :=
  (coOr { off := none, out := [] } (splitAll '|' text)).map (·.out)

/-! ### one flow specification (a dict: component type -> value) -/

abbrev Rule := List (Nat × Comp)

/-- Python `d[k] = v` on an insertion-ordered association list -/
def dictSet (d : Rule) (k : Nat) (v : Comp) : Rule :=
  match d with
  | [] => [(k, v)]
  | (k', v') :: r => if k' = k then (k, v) :: r else (k', v') :: dictSet r k v

def dictGet (d : Rule) (k : Nat) : Option Comp :=
  match d with
  | [] => none
  | (k', v') :: r => if k' = k then some v' else dictGet r k

/-- one component at the head of `value` (after its type octet): its value and how many of the octets
    that follow the type octet are skipped -/
def parseComp (t : Nat) (rest : Bytes) : Option (Comp × Nat) :=
  if t = 1 ∨ t = 2 then parsePrefix rest
  else
    match parseOperators rest with
    | none => none
    | some (l, off) => some (.ops (opsToStr [] l), off - 1)

/-- `IPv4FlowSpec.parse(value)` with the dict built so far -/
def parseRule (acc : Rule) (value : Bytes) : Option Rule :=
  match value with
  | [] => some acc
  | t :: rest =>
    match parseComp t.toNat rest with
    | none => none
    | some (c, n) => parseRule (dictSet acc t.toNat c) (rest.drop n)
termination_by value.length
decreasing_by simp only [List.length_drop, List.length_cons]; omega

/-- component types `construct_nlri` writes, in its order -/
def pfxTypes : List Nat := [1, 2]
def opTypes : List Nat := [3, 4, 5, 6, 7, 8, 10, 11]

/-- one prefix component of `construct_nlri` (`if data.get(type)`) -/
def constructPfxComp (d : Rule) (t : Nat) : Option Bytes :=
  match dictGet d t with
  | none => some []
  | some (.pfx a l) => (constructPrefix a l).map (u8 t :: ·)
  | some (.ops []) => some []
  | some (.ops _) => none                      -- construct_prefix on a text without '/': raises

/-- one operator component -/
def constructOpComp (d : Rule) (t : Nat) : Option Bytes :=
  match dictGet d t with
  | none => some []
  | some (.ops []) => some []
  | some (.ops s) => (constructOperators s).map (u8 t :: ·)
  | some (.pfx _ _) => none                    -- construct_operators('a.b.c.d/len'): no operator, raises

def concatOpt : List (Option Bytes) → Option Bytes
  | [] => some []
  | x :: r =>
    match x, concatOpt r with
    | some a, some b => some (a ++ b)
    | _, _ => none

/-- the components of one flow specification, without the length field -/
def constructRuleBody (d : Rule) : Option Bytes :=
  concatOpt (pfxTypes.map (constructPfxComp d) ++ opTypes.map (constructOpComp d))

/-- result of `construct_nlri`: `some none` is Python's `None` (no component at all) -/
def constructNlri (d : Rule) : Option (Option Bytes) :=
  match constructRuleBody d with
  | none => none
  | some [] => some none
  | some b =>
    if b.length ≥ 240 then (if 61440 + b.length < 65536 then some (some (be16 (61440 + b.length) ++ b)) else none)
    else some (some (u8 b.length :: b))

/-- `IPv4FlowSpec.construct(value)`: concatenation; `b'' + None` raises -/
def constructRules : List Rule → Option Bytes
  | [] => some []
  | d :: r =>
    match constructNlri d, constructRules r with
    | some (some a), some b => some (a ++ b)
    | _, _ => none

/-- the loop of MpReachNLRI.parse / MpUnReachNLRI.parse over the flow specifications: 1-octet length, or
    2 octets `0xfnnn` when the high nibble is all ones and more than two octets are left; empty dicts are dropped -/
def parseRules (b : Bytes) : Option (List Rule) :=
  match b with
  | [] => some []
  | l :: rest =>
    if l.toNat / 16 = 15 ∧ (l :: rest).length > 2 then
      match rest with
      | [] => none
      | l2 :: rest2 =>
        match parseRule [] (rest2.take ((l.toNat * 256 + l2.toNat) % 4096)) with
        | none => none
        | some d =>
          match parseRules (rest2.drop ((l.toNat * 256 + l2.toNat) % 4096)) with
          | none => none
          | some ds => some (if d = [] then ds else d :: ds)
    else
      match parseRule [] (rest.take l.toNat) with
      | none => none
      | some d =>
        match parseRules (rest.drop l.toNat) with
        | none => none
        | some ds => some (if d = [] then ds else d :: ds)
termination_by b.length
decreasing_by all_goals (simp only [List.length_drop, List.length_cons]; omega)

end Yabgp.Flowspec
