/-
  Shared pieces of the multiprotocol NLRI models (C07, families IPv6 unicast, IPv4/IPv6 labeled unicast,
  VPNv4/VPNv6): addresses, prefixes, label stacks, route distinguishers, the `while data:` loop.

  Mirrors yabgp/message/attribute/nlri/__init__.py (NLRI.construct_prefix_v4, construct_prefix_v6,
  parse_mpls_label_stack, construct_mpls_label_stack) and MPLSVPN.parse_rd / construct_rd /
  construct_mpls_label_stack of nlri/mpls_vpn.py, as repaired by fix_1 .. fix_5 of the MPV report.

  Values are structured (DESIGN §4.4): an address is what the netaddr text denotes - a family and an
  integer; a prefix is an address and the integer after the '/'; a route distinguisher is the form of
  its text ('asn:an' covers wire types 0 and 2, 'a.b.c.d:an' is wire type 1).  The text itself is
  produced / parsed by netaddr and is handled by the Python canonicaliser (harness/impl_mp.py).
  Import-free apart from Base and the error type of Model/Attr.
-/
import Yabgp.Base.Bytes
import Yabgp.Model.Attr

namespace Yabgp.Mp

/-- what a netaddr address text denotes -/
inductive Ip
  | v4 (n : Nat)
  | v6 (n : Nat)
  deriving DecidableEq, Repr

inductive AF
  | inet
  | inet6
  deriving DecidableEq, Repr

def AF.afi : AF → Nat
  | .inet => 1
  | .inet6 => 2

/-- `'<address>/<int>'`; the integer is whatever the code computed (it can be negative on hostile input) -/
structure MPfx where
  addr : Ip
  len : Int
  deriving DecidableEq, Repr

/-- a route distinguisher as its text form: `asn:an` (wire type 0 when asn <= 0xffff, else type 2),
    `a.b.c.d:an` (wire type 1), or `str(bytes)` for an unknown type -/
inductive Rd
  | asForm (asn an : Nat)
  | ipForm (ip an : Nat)
  | raw (b : Bytes)
  deriving DecidableEq, Repr

def p32 : Nat := 4294967296
def p128 : Nat := 340282366920938463463374607431768211456

def Ip.val : Ip → Nat
  | .v4 n => n
  | .v6 n => n

/-- bits of the family of the text -/
def Ip.width : Ip → Nat
  | .v4 _ => 32
  | .v6 _ => 128

/-- `netaddr.IPAddress(text).packed` -/
def Ip.packed : Ip → Bytes
  | .v4 n => be32 n
  | .v6 n => beN 16 n

def zeros (k : Nat) : Bytes := List.replicate k 0

/-- `int(binascii.b2a_hex(s), 16)`: ValueError on the empty string -/
def intOfBytes (b : Bytes) : Option Nat := if b = [] then none else some (beVal b)

/-- `netaddr.IPAddress(n)`: the family is guessed from the magnitude; AddrFormatError from 2^128 on -/
def ipOfInt (n : Nat) : Option Ip :=
  if n < p32 then some (.v4 n) else if n < p128 then some (.v6 n) else none

/-- `netaddr.IPAddress(n, version=6)` -/
def ip6OfInt (n : Nat) : Option Ip := if n < p128 then some (.v6 n) else none

/-- `MpReachNLRI.parse_nexthop_address`: family by the length of the field -/
def nhAddr (b : Bytes) : Option Ip :=
  match intOfBytes b with
  | none => none
  | some n =>
    if b.length ≤ 4 then some (.v4 n)             -- n < 2^32 because of the length
    else ip6OfInt n

/-- the octet count both decoders compute from a bit length -/
def ceil8 (l : Nat) : Nat := if l % 8 = 0 then l / 8 else l / 8 + 1

/-! ### prefixes on the encoding side -/

def prefixOctetsV4 (len : Int) : Nat :=
  if len = 0 then 0 else if len ≤ 8 then 1 else if len ≤ 16 then 2 else if len ≤ 24 then 3 else 4

/-- `NLRI.construct_prefix_v4(masklen, prefix_str)`; `struct.pack('!I', IPNetwork(prefix_str).value)`
    raises for a value that needs more than 32 bits -/
def constructPrefixV4 (p : MPfx) : Option Bytes :=
  if p.addr.val < p32 then some ((be32 p.addr.val).take (prefixOctetsV4 p.len)) else none

/-- `NLRI.construct_prefix_v6(prefix)`; `netaddr.IPNetwork(prefix)` raises unless 0 <= mask <= width -/
def constructPrefixV6 (p : MPfx) : Option Bytes :=
  if 0 ≤ p.len ∧ p.len ≤ p.addr.width then some (p.addr.packed.take ((p.len.toNat + 7) / 8)) else none

/-! ### label stacks -/

/-- `parse_mpls_label_stack`: 3 octets per label until the bottom-of-stack bit or the data runs out -/
def parseLabels : Bytes → List Nat
  | a :: b :: c :: r =>
    if (a.toNat * 65536 + b.toNat * 256 + c.toNat) % 2 = 1
    then [(a.toNat * 65536 + b.toNat * 256 + c.toNat) / 16]
    else (a.toNat * 65536 + b.toNat * 256 + c.toNat) / 16 :: parseLabels r
  | _ => []

/-- `struct.pack('!L', x)[1:]` -/
def pack24 (x : Nat) : Option Bytes := if x < p32 then some (be24 x) else none

/-- last label of `NLRI.construct_mpls_label_stack` (labeled unicast): label 0 is written without the
    bottom-of-stack bit -/
def encLastLu (l : Nat) : Option Bytes := if l = 0 then some [0, 0, 0] else pack24 (l * 16 + 1)

/-- last label of `MPLSVPN.construct_mpls_label_stack` (fix_4) -/
def encLastVpn (l : Nat) : Option Bytes := pack24 (l * 16 + 1)

/-- `construct_mpls_label_stack(labels)`; `labels[-1]` raises on the empty list -/
def encLabels (last : Nat → Option Bytes) : List Nat → Option Bytes
  | [] => none
  | [l] => last l
  | l :: r =>
    match pack24 (l * 16), encLabels last r with
    | some a, some b => some (a ++ b)
    | _, _ => none

def withdrawLabelHex : Bytes := [0x80, 0, 0]
def withdrawLabel : Nat := 524288

/-! ### route distinguishers -/

/-- `MPLSVPN.parse_rd(data)` on the (at most 8) octets it is given -/
def parseRd (d : Bytes) : Option Rd :=
  match d with
  | t1 :: t2 :: v =>
    if t1.toNat * 256 + t2.toNat = 0 then
      match rd16 (v.take 6) with                     -- struct.unpack('!HI', rd_value)
      | some (asn, r) =>
        match unpackI r with
        | some an => some (.asForm asn an)
        | none => none
      | none => none
    else if t1.toNat * 256 + t2.toNat = 1 then
      match rd32 (v.take 6) with                     -- '!I' on [0:4], '!H' on [4:6]
      | some (ip, r) =>
        match unpackH r with
        | some an => some (.ipForm ip an)
        | none => none
      | none => none
    else if t1.toNat * 256 + t2.toNat = 2 then
      match rd32 (v.take 6) with                     -- struct.unpack('!IH', rd_value)
      | some (asn, r) =>
        match unpackH r with
        | some an => some (.asForm asn an)
        | none => none
      | none => none
    else some (.raw (v.take 6))
  | _ => none                                        -- struct.unpack('!H', data[0:2])

/-- `MPLSVPN.construct_rd(text)`; the `str(bytes)` form of an unknown type is not accepted back
    (the glue never passes it) -/
def constructRd : Rd → Option Bytes
  | .ipForm ip an => if ip < p32 ∧ an < 65536 then some (be16 1 ++ be32 ip ++ be16 an) else none
  | .asForm asn an =>
    if asn ≤ 65535 then (if an < p32 then some (be16 0 ++ be16 asn ++ be32 an) else none)
    else if asn < p32 ∧ an < 65536 then some (be16 2 ++ be32 asn ++ be16 an) else none
  | .raw _ => none

/-! ### the `while data:` loop of every NLRI decoder -/

/-- `stop` is IPv6Unicast's `if nlri_data == b'\x00\x00'` (constantly false elsewhere); `step` decodes one
    route and returns what is left, and always consumes something -/
def many {α : Type} (stop : Bytes → Bool) (step : Bytes → R (α × Bytes))
    (hstep : ∀ b x r, step b = .ok (x, r) → r.length < b.length) (b : Bytes) : R (List α) :=
  match b with
  | [] => .ok []
  | y :: ys =>
    if stop (y :: ys) then .ok []
    else
      match h : step (y :: ys) with
      | .error e => .error e
      | .ok (x, r) =>
        match many stop step hstep r with
        | .ok xs => .ok (x :: xs)
        | .error e => .error e
termination_by b.length
decreasing_by exact hstep _ _ _ h

/-- list encoders: every element must encode (`none` = the Python constructor raises) -/
def encAll {α : Type} (enc : α → Option Bytes) : List α → Option Bytes
  | [] => some []
  | x :: xs =>
    match enc x, encAll enc xs with
    | some a, some b => some (a ++ b)
    | _, _ => none

/-- outcome of an attribute constructor -/
inductive CRes
  | ok (b : Bytes)
  | none                -- the constructor returns None
  | raise               -- any exception
  deriving DecidableEq, Repr

/-- `FLAG, ID, struct.pack('!H', len(attr_value)), attr_value` -/
def attrWrap (code : Nat) (v : Bytes) : CRes :=
  if v.length < 65536 then .ok ([0x90, u8 code] ++ be16 v.length ++ v) else .raise

end Yabgp.Mp
