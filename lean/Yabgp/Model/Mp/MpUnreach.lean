/-
  Model of yabgp/message/attribute/mpunreachnlri.py (MpUnReachNLRI.parse / construct) for the address
  families (2,1), (1,4), (2,4), (1,128), (2,128); every other afi/safi is `.other`.
  The decoder has no branch for labeled unicast: (1,4) and (2,4) come back as `repr(nlri_bin)`.
-/
import Yabgp.Model.Mp.MpReach

namespace Yabgp.Mp

inductive MpUnreachVal
  /-- `{'afi_safi': (2, 1), 'withdraw': [..]}` -/
  | ipv6Unicast (withdraw : List U6Route)
  /-- `(af, 4)` as the constructor takes it -/
  | labeled (af : AF) (withdraw : List LuRoute)
  /-- `(af, 4)` as the decoder returns it: `'withdraw': repr(nlri_bin)` -/
  | labeledRaw (af : AF) (raw : Bytes)
  /-- `(af, 128)` -/
  | vpn (af : AF) (withdraw : List VpnRoute)
  | other (afi safi : Nat)
  deriving DecidableEq, Repr

def parseUnreachBody (afi safi : Nat) (addpath : Bool) (nlri : Bytes) : R MpUnreachVal :=
  match afOf afi with
  | none => .ok (.other afi safi)
  | some af =>
    if safi = safiVpn then
      match parseVpn af true addpath nlri with
      | .error e => .error e
      | .ok rs => .ok (.vpn af rs)
    else if safi = safiLabel then .ok (.labeledRaw af nlri)
    else if afi = 2 ∧ safi = safiUnicast then
      match parseU6 addpath nlri with
      | .error e => .error e
      | .ok rs => .ok (.ipv6Unicast rs)
    else .ok (.other afi safi)

/-- `MpUnReachNLRI.parse(value, afi_add_path)` -/
def parseMpUnreach (addpath : Bool) (v : Bytes) : R MpUnreachVal :=
  match v with
  | a1 :: a2 :: s :: rest => parseUnreachBody (a1.toNat * 256 + a2.toNat) s.toNat addpath rest
  | _ => .error (.upd C.eAttrLen)

def unreachValue (afi safi : Nat) (nlri : Bytes) : Bytes := be16 afi ++ be8 safi ++ nlri

/-- `MpUnReachNLRI.construct(value)` -/
def constructMpUnreach (v : MpUnreachVal) : CRes :=
  match v with
  | .vpn af rs =>
    match constructVpn af true rs with
    | none => .raise
    | some nl => if nl = [] then .none else attrWrap C.tMpUnreach (unreachValue af.afi safiVpn nl)
  | .labeled .inet rs =>
    if rs = [] then .none                             -- `value.get('withdraw') or []` is empty
    else match constructLuWithdraw .inet rs with
      | none => .raise
      | some nl => attrWrap C.tMpUnreach (unreachValue 1 safiLabel nl)
  | .labeled .inet6 _ => .none                        -- no branch for (2, 4): falls off the end
  | .ipv6Unicast rs =>
    match constructU6 rs with
    | none => .raise
    | some nl => if nl = [] then .none else attrWrap C.tMpUnreach (unreachValue 2 safiUnicast nl)
  | .labeledRaw _ _ => .raise                         -- a str where a list of dicts is expected
  | .other _ _ => .raise                              -- not modelled here

end Yabgp.Mp
