/-
  Model of yabgp/message/attribute/mpreachnlri.py (MpReachNLRI.parse / construct /
  construct_mpls_vpn_nexthop / parse_nexthop_address) for the address families
  (2,1) IPv6 unicast, (1,4)/(2,4) labeled unicast, (1,128)/(2,128) MPLS VPN.
  Every other afi/safi is `.other` (modelled elsewhere: EVPN, flowspec, BGP-LS, SR-TE, IPv4 unicast).
-/
import Yabgp.Model.Mp.Ipv6Unicast
import Yabgp.Model.Mp.LabeledUnicast
import Yabgp.Model.Mp.MplsVpn

namespace Yabgp.Mp

def safiUnicast : Nat := 1
def safiLabel : Nat := 4
def safiVpn : Nat := 128

/-- the dictionaries MpReachNLRI.parse returns / MpReachNLRI.construct takes, per family -/
inductive MpReachVal
  /-- `{'afi_safi': (2, 1), 'nexthop': .., ['linklocal_nexthop': ..,] 'nlri': [..]}` -/
  | ipv6Unicast (nexthop : Ip) (linklocal : Option Ip) (nlri : List U6Route)
  /-- `(af, 4)`; `nexthop` is `none` for the empty string -/
  | labeled (af : AF) (nexthop : Option Ip) (nlri : List LuRoute)
  /-- `(af, 128)`; `'nexthop': {'rd': .., 'str': ..}` -/
  | vpn (af : AF) (nhRd : Rd) (nh : Ip) (nlri : List VpnRoute)
  | other (afi safi : Nat)
  deriving DecidableEq, Repr

def afOf (afi : Nat) : Option AF := if afi = 1 then some .inet else if afi = 2 then some .inet6 else none

/-- next hop of the labeled families: `''` when the field is empty -/
def luNexthop (nh : Bytes) : R (Option Ip) :=
  if nh = [] then .ok none
  else match nhAddr nh with
    | some a => .ok (some a)
    | none => .error .other

/-- next hop of the VPN families: route distinguisher, then the address -/
def vpnNexthop (nh : Bytes) : R (Rd × Ip) :=
  match parseRd (nh.take 8), nhAddr (nh.drop 8) with
  | some rd, some a => .ok (rd, a)
  | _, _ => .error .other

/-- next hop of IPv6 unicast: the first 16 octets; link-local iff the field has exactly 32 -/
def u6Nexthop (nh : Bytes) : R (Ip × Option Ip) :=
  match nhAddr (nh.take 16) with
  | none => .error .other
  | some a =>
    if nh.length = 32 then
      match nhAddr (nh.drop 16) with
      | none => .error .other
      | some ll => .ok (a, some ll)
    else .ok (a, none)

/-- the branches of MpReachNLRI.parse after the header -/
def parseReachBody (afi safi : Nat) (addpath : Bool) (nh nlri : Bytes) : R MpReachVal :=
  match afOf afi with
  | none => .ok (.other afi safi)
  | some af =>
    if safi = safiVpn then
      match vpnNexthop nh with
      | .error e => .error e
      | .ok (rd, a) =>
        match parseVpn af false addpath nlri with
        | .error e => .error e
        | .ok rs => .ok (.vpn af rd a rs)
    else if safi = safiLabel then
      match luNexthop nh with
      | .error e => .error e
      | .ok a =>
        match parseLu af addpath nlri with
        | .error e => .error e
        | .ok rs => .ok (.labeled af a rs)
    else if afi = 2 ∧ safi = safiUnicast then
      match u6Nexthop nh with
      | .error e => .error e
      | .ok (a, ll) =>
        match parseU6 addpath nlri with
        | .error e => .error e
        | .ok rs => .ok (.ipv6Unicast a ll rs)
    else .ok (.other afi safi)

/-- `MpReachNLRI.parse(value, afi_add_path)`; `addpath` is what `afi_add_path` says for this family.
    `struct.unpack('!HBB', value[0:4])` failing is the only UpdateMessageError (attribute length) -/
def parseMpReach (addpath : Bool) (v : Bytes) : R MpReachVal :=
  match v with
  | a1 :: a2 :: s :: n :: rest =>
    parseReachBody (a1.toNat * 256 + a2.toNat) s.toNat addpath (rest.take n.toNat) (rest.drop (n.toNat + 1))
  | _ => .error (.upd C.eAttrLen)

/-- `construct_mpls_vpn_nexthop`: `map(int, rd.split(':'))`, always wire type 0 -/
def constructVpnNexthop (rd : Rd) (a : Ip) : Option Bytes :=
  match rd with
  | .asForm asn an => if asn < 65536 ∧ an < p32 then some (be16 0 ++ be16 asn ++ be32 an ++ a.packed) else none
  | _ => none

/-- afi, safi, next hop length, next hop, reserved octet, NLRI -/
def reachValue (afi safi nhLen : Nat) (nh nlri : Bytes) : Bytes :=
  be16 afi ++ be8 safi ++ be8 nhLen ++ nh ++ [0] ++ nlri

/-- `MpReachNLRI.construct(value)` -/
def constructMpReach (v : MpReachVal) : CRes :=
  match v with
  | .vpn af rd a rs =>
    match constructVpnNexthop rd a, constructVpn af false rs with
    | some nh, some nl => attrWrap C.tMpReach (reachValue af.afi safiVpn nh.length nh nl)
    | _, _ => .raise
  | .labeled af nh rs =>
    match constructLu af rs with
    | none => .raise
    | some nl =>
      if nl = [] then .none                          -- `if nlri_hex:` fails, nothing is returned
      else match nh with
        | none => .raise                             -- nexthop = '' ; bytes + str raises TypeError
        | some a => attrWrap C.tMpReach (reachValue af.afi safiLabel a.packed.length a.packed nl)
  | .ipv6Unicast a ll rs =>
    match constructU6 rs with
    | none => .raise
    | some nl =>
      match ll with
      | none => attrWrap C.tMpReach (reachValue 2 safiUnicast 16 a.packed nl)
      | some l => attrWrap C.tMpReach (reachValue 2 safiUnicast 32 (a.packed ++ l.packed) nl)
  | .other _ _ => .raise                              -- not modelled here

end Yabgp.Mp
