/-
  Model of yabgp/message/attribute/nlri/ipv6_unicast.py (IPv6Unicast.parse / construct), with fix_1
  (`netaddr.IPAddress(n, version=6)`).  The `b'\x00\x00'` special case of the decoder is kept: the
  repository's own test `test_parse_2` depends on it (known finding, see Props/C07a.lean).
-/
import Yabgp.Model.Mp.Common

namespace Yabgp.Mp

structure U6Route where
  pfx : MPfx
  pathId : Option Nat := none
  deriving DecidableEq, Repr

/-- one loop iteration after the optional path id -/
def parseU6One (pid : Option Nat) (b : Bytes) : R (U6Route × Bytes) :=
  match b with
  | [] => .error .other                                  -- nlri_data[0]: IndexError
  | l :: rest =>
    match intOfBytes (rest.take (ceil8 l.toNat) ++ zeros ((128 - l.toNat) / 8)) with
    | none => .error .other                              -- int('', 16)
    | some n =>
      match ip6OfInt n with
      | none => .error .other                            -- AddrFormatError
      | some a => .ok ({ pfx := { addr := a, len := l.toNat }, pathId := pid }, rest.drop (ceil8 l.toNat))

def stepU6 (addpath : Bool) (b : Bytes) : R (U6Route × Bytes) :=
  if addpath then
    match rd32 b with                                    -- struct.unpack("!I", nlri_data[:4])
    | none => .error .other
    | some (pid, r) => parseU6One (some pid) r
  else parseU6One none b

/-- `if nlri_data == b'\x00\x00': nlri_data = nlri_data[2:]; continue` -/
def stopU6 (b : Bytes) : Bool := b = [0, 0]

theorem parseU6One_length {pid : Option Nat} {b r : Bytes} {x : U6Route}
    (h : parseU6One pid b = .ok (x, r)) : r.length < b.length := by
  unfold parseU6One at h
  split at h
  · simp at h
  · split at h
    · simp at h
    · split at h
      · simp at h
      · simp only [Except.ok.injEq, Prod.mk.injEq] at h
        rw [← h.2]; simp; omega

theorem stepU6_length (addpath : Bool) (b : Bytes) (x : U6Route) (r : Bytes)
    (h : stepU6 addpath b = .ok (x, r)) : r.length < b.length := by
  unfold stepU6 at h
  split at h
  · split at h
    · simp at h
    · rename_i pid r' hr
      have := rd32_length hr
      have := parseU6One_length h
      omega
  · exact parseU6One_length h

/-- `IPv6Unicast.parse(nlri_data, addpath)` -/
def parseU6 (addpath : Bool) (b : Bytes) : R (List U6Route) :=
  many stopU6 (stepU6 addpath) (stepU6_length addpath) b

/-- one element of `IPv6Unicast.construct`: `netaddr.IPNetwork(prefix)` raises for a dict (add-path entry)
    and for a mask outside 0..width; then the length octet and `prefix.ip.packed[:prefix_byte_len]` -/
def encU6Route (r : U6Route) : Option Bytes :=
  match r.pathId with
  | some _ => none
  | none =>
    if 0 ≤ r.pfx.len ∧ r.pfx.len ≤ r.pfx.addr.width
    then some (be8 r.pfx.len.toNat ++ r.pfx.addr.packed.take (ceil8 r.pfx.len.toNat))
    else none

/-- `IPv6Unicast.construct(nlri_list)` -/
def constructU6 (rs : List U6Route) : Option Bytes := encAll encU6Route rs

end Yabgp.Mp
