/-
  Model of yabgp/message/attribute/nlri/mpls_vpn.py (MPLSVPN.parse / construct; ipv4_mpls_vpn.py and
  ipv6_mpls_vpn.py only set AFI/SAFI and forward), with fix_1 (IPv6 text), fix_2/fix_3 (prefix octets),
  fix_4 (bottom-of-stack on a last label 0) and fix_5 (offsets follow the number of labels decoded).
-/
import Yabgp.Model.Mp.Common

namespace Yabgp.Mp

structure VpnRoute where
  labels : List Nat
  rd : Rd
  pfx : MPfx
  pathId : Option Nat := none
  deriving DecidableEq, Repr

/-- the address of one route from `prefix = value[9 + 3n : prefix_byte_len + 1]` -/
def vpnAddr (af : AF) (pre : Bytes) : Option Ip :=
  match af with
  | .inet =>
    match unpackI (pre ++ zeros (4 - pre.length)) with     -- struct.unpack('!I', prefix): exactly 4 octets
    | none => none
    | some v => some (.v4 v)
  | .inet6 =>
    match intOfBytes (pre ++ zeros (16 - pre.length)) with
    | none => none
    | some v => ip6OfInt v

/-- the label stack of one route: decoded, or the constant `[524288]` when withdrawing -/
def vpnLabels (iswithdraw : Bool) (rest : Bytes) : List Nat :=
  if iswithdraw then [withdrawLabel] else parseLabels rest

/-- one loop iteration after the optional path id -/
def parseVpnOne (af : AF) (iswithdraw : Bool) (pid : Option Nat) (b : Bytes) : R (VpnRoute × Bytes) :=
  match b with
  | [] => .error .other                                  -- value[0]: IndexError
  | l :: rest =>
    match parseRd (slice rest (3 * (vpnLabels iswithdraw rest).length) (8 + 3 * (vpnLabels iswithdraw rest).length)) with
    | none => .error .other
    | some rd =>
      match vpnAddr af (slice rest (8 + 3 * (vpnLabels iswithdraw rest).length) (ceil8 l.toNat)) with
      | none => .error .other
      | some a =>
        .ok ({ labels := vpnLabels iswithdraw rest, rd := rd,
               pfx := { addr := a,
                        len := (l.toNat : Int) - 8 * (3 * ((vpnLabels iswithdraw rest).length : Int) + 8) },
               pathId := pid },
             rest.drop (ceil8 l.toNat))

def stepVpn (af : AF) (iswithdraw addpath : Bool) (b : Bytes) : R (VpnRoute × Bytes) :=
  if addpath then
    match rd32 b with
    | none => .error .other
    | some (pid, r) => parseVpnOne af iswithdraw (some pid) r
  else parseVpnOne af iswithdraw none b

theorem parseVpnOne_length {af : AF} {w : Bool} {pid : Option Nat} {b r : Bytes} {x : VpnRoute}
    (h : parseVpnOne af w pid b = .ok (x, r)) : r.length < b.length := by
  unfold parseVpnOne at h
  split at h
  · simp at h
  · split at h
    · simp at h
    · split at h
      · simp at h
      · simp only [Except.ok.injEq, Prod.mk.injEq] at h
        rw [← h.2]; simp; omega

theorem stepVpn_length (af : AF) (w addpath : Bool) (b : Bytes) (x : VpnRoute) (r : Bytes)
    (h : stepVpn af w addpath b = .ok (x, r)) : r.length < b.length := by
  unfold stepVpn at h
  split at h
  · split at h
    · simp at h
    · rename_i pid r' hr
      have := rd32_length hr
      have := parseVpnOne_length h
      omega
  · exact parseVpnOne_length h

/-- `MPLSVPN.parse(value, iswithdraw, addpath)` for `cls.AFI = af` -/
def parseVpn (af : AF) (iswithdraw addpath : Bool) (b : Bytes) : R (List VpnRoute) :=
  many (fun _ => false) (stepVpn af iswithdraw addpath) (stepVpn_length af iswithdraw addpath) b

def vpnPrefixHex (af : AF) (p : MPfx) : Option Bytes :=
  match af with
  | .inet => constructPrefixV4 p
  | .inet6 => constructPrefixV6 p

/-- one element of `MPLSVPN.construct`: `struct.pack('!B', prefix_len + len(label_hex + rd_hex) * 8)` -/
def encVpnWith (af : AF) (labelHex : Option Bytes) (r : VpnRoute) : Option Bytes :=
  match labelHex, constructRd r.rd, vpnPrefixHex af r.pfx with
  | some lh, some rh, some ph =>
    if 0 ≤ r.pfx.len + (8 * (lh.length + rh.length) : Int) ∧ r.pfx.len + (8 * (lh.length + rh.length) : Int) < 256
    then some (be8 (r.pfx.len + (8 * (lh.length + rh.length) : Int)).toNat ++ lh ++ rh ++ ph)
    else none
  | _, _, _ => none

def encVpnRoute (af : AF) (iswithdraw : Bool) (r : VpnRoute) : Option Bytes :=
  encVpnWith af (if iswithdraw then some withdrawLabelHex else encLabels encLastVpn r.labels) r

def constructVpn (af : AF) (iswithdraw : Bool) (rs : List VpnRoute) : Option Bytes :=
  encAll (encVpnRoute af iswithdraw) rs

end Yabgp.Mp
