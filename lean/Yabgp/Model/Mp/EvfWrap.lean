/-
  Model of the L2VPN/EVPN (afi 25, safi 70) and IPv4 flow-specification (afi 1, safi 133) branches of
  yabgp/message/attribute/mpreachnlri.py (MpReachNLRI.parse / construct) and
  yabgp/message/attribute/mpunreachnlri.py (MpUnReachNLRI.parse / construct), as the code is after the
  repairs listed in Model/Mp/Evpn.lean and Model/Mp/Flowspec.lean.  Every other (afi, safi) is
  `notMine` here (modelled by Model/Mp/* of the other families).
-/
import Yabgp.Model.Mp.Evpn
import Yabgp.Model.Mp.Flowspec

namespace Yabgp.Evf
open Yabgp.Evpn Yabgp.Flowspec

/-- the NLRI of the two families -/
inductive Nlri where
  | evpn (rs : List Route)
  | flowspec (rules : List Rule)
  deriving DecidableEq, Repr

/-- MP_REACH_NLRI value: `nexthop = none` is the empty string the flowspec branch uses -/
structure Reach where
  nexthop : Option Ip
  nlri : Nlri
  deriving DecidableEq, Repr

/-- outcome of a parse -/
inductive PR (α : Type) where
  | ok (v : α)
  | attrLen          -- UpdateMessageError(ERR_MSG_UPDATE_ATTR_LEN)
  | raises           -- any other exception
  | notMine          -- another address family
  deriving Repr

def afiL2vpn : Nat := 25
def safiEvpn : Nat := 70
def afiInet : Nat := 1
def safiFlowspec : Nat := 133

/-- `struct.unpack('!HBB', value[0:4])` -/
def unpackHBB : Bytes → Option (Nat × Nat × Nat)
  | [a, b, c, d] => some (a.toNat * 256 + b.toNat, c.toNat, d.toNat)
  | _ => none
def unpackHB : Bytes → Option (Nat × Nat)
  | [a, b, c] => some (a.toNat * 256 + b.toNat, c.toNat)
  | _ => none

/-- MpReachNLRI.parse(value) -/
def parseReach (value : Bytes) : PR Reach :=
  match unpackHBB (slice value 0 4) with
  | none => .attrLen
  | some (afi, safi, nhl) =>
    if afi = afiL2vpn ∧ safi = safiEvpn then
      match parseIp (slice value 4 (4 + nhl)), parseRoutes (value.drop (5 + nhl)) with
      | some nh, some rs => .ok { nexthop := some nh, nlri := .evpn rs }
      | _, _ => .raises
    else if afi = afiInet ∧ safi = safiFlowspec then
      match parseRules (value.drop (5 + nhl)) with
      | none => .raises
      | some rules =>
        match slice value 4 (4 + nhl) with
        | [] => .ok { nexthop := none, nlri := .flowspec rules }
        | nb =>
          match parseIp nb with
          | some nh => .ok { nexthop := some nh, nlri := .flowspec rules }
          | none => .raises
    else .notMine

/-- MpUnReachNLRI.parse(value) -/
def parseUnreach (value : Bytes) : PR Nlri :=
  match unpackHB (slice value 0 3) with
  | none => .attrLen
  | some (afi, safi) =>
    if afi = afiL2vpn ∧ safi = safiEvpn then
      match parseRoutes (value.drop 3) with
      | some rs => .ok (.evpn rs)
      | none => .raises
    else if afi = afiInet ∧ safi = safiFlowspec then
      match parseRules (value.drop 3) with
      | some rules => .ok (.flowspec rules)
      | none => .raises
    else .notMine

/-- outcome of a construct: `none'` is Python's `None` (nothing to send) -/
inductive CR where
  | bytes (b : Bytes)
  | none'
  | raises
  deriving DecidableEq, Repr

/-- flags (optional + extended length), type code, 2-octet length, value -/
def attrHeader (code : Nat) (value : Bytes) : CR :=
  if value.length < 65536 then .bytes ([0x90, u8 code] ++ be16 value.length ++ value) else .raises

/-- MpReachNLRI.construct(value) for the two families -/
def constructReach (r : Reach) : CR :=
  match r.nlri with
  | .evpn rs =>
    match r.nexthop with
    | none => .raises                                    -- netaddr.IPAddress('') raises
    | some nh =>
      match ipPacked nh, constructRoutes rs with
      | some nb, some nl => attrHeader 14 (be16 afiL2vpn ++ [u8 safiEvpn, u8 nb.length] ++ nb ++ [0] ++ nl)
      | _, _ => .raises
  | .flowspec rules =>
    match (match r.nexthop with | none => some [] | some nh => ipPacked nh), constructRules rules with
    | some nb, some nl =>
      if nl = [] then .none'
      else attrHeader 14 (be16 afiInet ++ [u8 safiFlowspec, u8 nb.length] ++ nb ++ [0] ++ nl)
    | _, _ => .raises

/-- MpUnReachNLRI.construct(value) for the two families -/
def constructUnreach (n : Nlri) : CR :=
  match n with
  | .evpn rs =>
    match constructRoutes rs with
    | none => .raises
    | some [] => .none'
    | some nl => attrHeader 15 (be16 afiL2vpn ++ [u8 safiEvpn] ++ nl)
  | .flowspec rules =>
    if rules = [] then .none'
    else
      match constructRules rules with
      | none => .raises
      | some nl => attrHeader 15 (be16 afiInet ++ [u8 safiFlowspec] ++ nl)

end Yabgp.Evf
