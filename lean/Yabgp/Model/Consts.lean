/-
  Constants the hand-written models use.  `Props/GenAgree.lean` proves each of them equal to
  the value regenerated from /repo's source (`Yabgp/Gen/*.lean`) on every run.
-/
namespace Yabgp.C

-- path attribute type codes (yabgp/common/constants.py BGPTYPE_*)
def tOrigin := 1
def tAsPath := 2
def tNextHop := 3
def tMed := 4
def tLocalPref := 5
def tAtomicAgg := 6
def tAggregator := 7
def tCommunity := 8
def tOriginatorId := 9
def tClusterList := 10
def tMpReach := 14
def tMpUnreach := 15
def tExtCommunity := 16
def tAs4Path := 17
def tAs4Aggregator := 18
def tPmsi := 22
def tTunnelEncaps := 23
def tLinkState := 29
def tLargeCommunity := 32
def tPrefixSid := 40

-- attribute flag octets (FLAG of every Attribute subclass)
def fOrigin := 0x40
def fAsPath := 0x40
def fNextHop := 0x40
def fMed := 0x80
def fLocalPref := 0x40
def fAtomicAgg := 0x40
def fAggregator := 0xC0
def fCommunity := 0xC0
def fOriginatorId := 0x80
def fClusterList := 0x80
def fLargeCommunity := 0xE0
def fExtCommunity := 0xC0
def fMpReach := 0x90
def fMpUnreach := 0x90
def fExtLen := 0x10

-- UPDATE error sub-codes
def eMalformedAttrList := 1
def eAttrLen := 5
def eInvalidOrigin := 6
def eInvalidNextHop := 8
def eOptionalAttr := 9
def eInvalidNetworkField := 10
def eMalformedAsPath := 11

-- message types, header
def hdrLen := 19
def maxLen := 4096
def msgOpen := 1
def msgUpdate := 2
def msgNotification := 3
def msgKeepalive := 4
def msgRouteRefresh := 5
def msgCiscoRouteRefresh := 128

-- notification codes
def errHdr := 1
def errOpen := 2
def errUpdate := 3
def errHold := 4
def errFsm := 5
def errCease := 6
def hdrNotSync := 1
def hdrBadLen := 2
def hdrBadType := 3
def openBadVersion := 1
def openBadPeerAs := 2
def openBadBgpId := 3
def openUnsupOptParam := 4
def openBadHold := 6

def largeHoldTime := 240
def asTrans := 23456

end Yabgp.C
