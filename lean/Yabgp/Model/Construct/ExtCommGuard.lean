/-
  C08 — ExtCommunity.construct as repaired by fix_5 of the W8 report (after every item exactly 0 or 8 octets must
  have been added), as the model of builder XC (Model/ExtComm.lean) behind that guard.
-/
import Yabgp.Model.ExtComm

namespace Yabgp.ExtComm

/-- fix_5: `len(ext_community_hex) - encoded_len not in (0, 8)` raises -/
def constructOneR (i : Item) : Option Bytes :=
  match constructOne i with
  | some b => if b.length = 0 ∨ b.length = 8 then some b else none
  | none => none

def constructBodyR : List Item → Option Bytes
  | [] => some []
  | i :: r =>
    match constructOneR i, constructBodyR r with
    | some a, some b => some (a ++ b)
    | _, _ => none

/-- `ExtCommunity.construct(value)` as repaired -/
def constructR (items : List Item) : COut :=
  match constructBodyR items with
  | none => .raises
  | some [] => .retNone
  | some body =>
    if body.length < 256 then .ok (be8 C.fExtCommunity ++ be8 C.tExtCommunity ++ be8 body.length ++ body)
    else .raises

/-- the REST translation followed by the repaired constructor (`rest` of Model/ExtComm.lean with `constructR`) -/
def restR (p : Peer) (texts : List (List Char)) : Tr Bytes :=
  match translate p texts with
  | .ok items =>
    match constructR items with
    | .ok b => .ok b
    | .retNone => .raises
    | .raises => .raises
  | .refused w => .refused w
  | .raises => .raises

end Yabgp.ExtComm
