/-
  C08 — the constructors as repaired by the C08 fixes (fix_2, fix_6, fix_7 of the W8 report), written as
  the existing constructor models behind a decidable guard.  Each of these repairs only adds a `raise`
  in front of an input that used to be encoded into a structurally invalid message, so

      repaired constructor x  =  if guard x then constructor-as-modelled x else raise

  holds exactly (an exception anywhere in a Python constructor aborts the whole construction, so the
  place of the check does not matter).  When the guards are folded into Model/Update.lean and
  Model/Mp/Common.lean these definitions become equal to the plain constructors on all inputs.

    fix_2  Update.construct_prefix_v4: with add-path every prefix needs a path identifier
    fix_6  NLRI.construct_prefix_v4 (labeled unicast / VPN, IPv4): prefix length within 0..32
    fix_7  MpReachNLRI.construct (2, 1): next hop and link-local next hop are IPv6 addresses

  Import-free apart from the models.
-/
import Yabgp.Model.Update
import Yabgp.Model.Mp.MpUnreach

namespace Yabgp

/-- fix_2: in add-path mode a prefix given without path identifier is refused -/
def pathIdGuard (addpath : Bool) (ps : List Pfx) : Bool :=
  !addpath || ps.all (fun p => p.pathId.isSome)

/-- `Update.construct_prefix_v4(prefix_list, add_path)` as repaired -/
def constructPrefixV4R (addpath : Bool) (ps : List Pfx) : Option Bytes :=
  if pathIdGuard addpath ps then constructPrefixV4 addpath ps else none

/-- `Update.construct(msg, asn4, addpath)` as repaired -/
def constructUpdateR (asn4 addpath : Bool) (m : UpdMsg) : Option Bytes :=
  if pathIdGuard addpath m.nlri && pathIdGuard addpath m.withdraw then constructUpdate asn4 addpath m else none

namespace Mp

def Ip.isV6 : Ip → Bool
  | .v6 _ => true
  | .v4 _ => false

/-- fix_6: `construct_prefix_v4(masklen, ..)` raises unless `0 <= masklen <= 32` -/
def v4LenOk (p : MPfx) : Bool := decide (0 ≤ p.len) && decide (p.len ≤ 32)

/-- the NLRI classes as repaired (fix_6): `IPv4LabeledUnicast.construct`, `IPv4MPLSVPN.construct` -/
def luGuard (af : AF) (rs : List LuRoute) : Bool :=
  match af with
  | .inet => rs.all (fun r => v4LenOk r.pfx)
  | .inet6 => true

def vpnGuard (af : AF) (rs : List VpnRoute) : Bool :=
  match af with
  | .inet => rs.all (fun r => v4LenOk r.pfx)
  | .inet6 => true

def constructLuR (af : AF) (rs : List LuRoute) : Option Bytes := if luGuard af rs then constructLu af rs else none
def constructLuWithdrawR (af : AF) (rs : List LuRoute) : Option Bytes :=
  if luGuard af rs then constructLuWithdraw af rs else none
def constructVpnR (af : AF) (wd : Bool) (rs : List VpnRoute) : Option Bytes :=
  if vpnGuard af rs then constructVpn af wd rs else none

/-- the inputs the repaired `MpReachNLRI.construct` does not refuse up front -/
def reachGuard : MpReachVal → Bool
  | .ipv6Unicast a ll _ =>
    a.isV6 && (match ll with
               | none => true
               | some l => l.isV6)                                  -- fix_7
  | .labeled .inet _ rs => rs.all (fun r => v4LenOk r.pfx)          -- fix_6
  | .vpn .inet _ _ rs => rs.all (fun r => v4LenOk r.pfx)            -- fix_6
  | _ => true

/-- `MpReachNLRI.construct(value)` as repaired -/
def constructMpReachR (v : MpReachVal) : CRes := if reachGuard v then constructMpReach v else .raise

def unreachGuard : MpUnreachVal → Bool
  | .labeled .inet rs => rs.all (fun r => v4LenOk r.pfx)            -- fix_6
  | .vpn .inet rs => rs.all (fun r => v4LenOk r.pfx)                -- fix_6
  | _ => true

/-- `MpUnReachNLRI.construct(value)` as repaired -/
def constructMpUnreachR (v : MpUnreachVal) : CRes := if unreachGuard v then constructMpUnreach v else .raise

end Mp
end Yabgp
