/-
  Constructor model of yabgp/message/attribute/tunnelencaps.py (TunnelEncaps.construct,
  construct_weight_and_seg, construct_optional_label_sid), as repaired by fix_10 of the W8 report (the
  addresses of the IPv4 segment kinds and of the remote endpoint are parsed for the family their fixed
  length announces).  The code has no decoder for this attribute.

  The value is the dictionary the REST API passes: key "0" says 'old' or 'new' encoding, the other keys are
  sub-TLV values; only the keys 0 and 128 produce octets at their place in the dictionary's order (everything
  else is read while key 0 is handled), so the order is one bit: does 128 come before 0.
  `none` = the Python code raises.  Import-free apart from the shared MP helpers.
-/
import Yabgp.Model.Mp.Common

namespace Yabgp.Tunnel
open Yabgp.Mp

/-- `{'label': l, 'TC': .., 'S': .., 'TTL': ..}` of `construct_optional_label_sid` (TTL defaults to 255) -/
structure Sid where
  label : Nat
  tc : Option Nat := none
  s : Option Nat := none
  ttl : Option Nat := none
  deriving DecidableEq, Repr

def Sid.value (x : Sid) : Nat :=
  x.label * 4096 + (x.tc.getD 0) * 512 + (x.s.getD 0) * 256 + x.ttl.getD 255

/-- `struct.pack('!I', n)` -/
def packI (n : Nat) : Option Bytes := if n < p32 then some (be32 n) else none
def packB (n : Nat) : Option Bytes := if n < 256 then some (be8 n) else none

/-- `netaddr.IPAddress(text, 4).packed` -/
def packed4 : Ip → Option Bytes
  | .v4 n => packI n
  | .v6 _ => none

def packed6 : Ip → Option Bytes
  | .v6 n => if n < p128 then some (beN 16 n) else none
  | .v4 _ => none

/-- one entry of a segment list: `{'<type>': {...}}` -/
inductive Seg
  | mpls (sid : Sid)                                              -- 1: {'label': .., ..}
  | v4node (node : Ip) (sid : Option Sid)                         -- 3
  | v4index (itf : Nat) (node : Ip) (sid : Option Sid)            -- 5
  | v4addr (loc rem : Ip) (sid : Option Sid)                      -- 6
  | other (ty : Nat)                                              -- no branch: nothing is written
  deriving DecidableEq, Repr

def optSid : Option Sid → Option Bytes
  | none => some []
  | some x => packI x.value

/-- the octets of one segment sub-TLV -/
def constructSeg : Seg → Option Bytes
  | .mpls sid => (packI sid.value).map fun v => [1, 6, 0, 0] ++ v
  | .v4node node sid =>
    match packed4 node, optSid sid with
    | some n, some v => some ([3, u8 (6 + v.length), 0, 0] ++ n ++ v)
    | _, _ => none
  | .v4index itf node sid =>
    match packI itf, packed4 node, optSid sid with
    | some i, some n, some v => some ([5, u8 (10 + v.length), 0, 0] ++ i ++ n ++ v)
    | _, _, _ => none
  | .v4addr loc rem sid =>
    match packed4 loc, packed4 rem, optSid sid with
    | some l, some r, some v => some ([6, u8 (10 + v.length), 0, 0] ++ l ++ r ++ v)
    | _, _, _ => none
  | .other _ => some []

def constructSegs : List Seg → Option Bytes
  | [] => some []
  | s :: r =>
    match constructSeg s, constructSegs r with
    | some a, some b => some (a ++ b)
    | _, _ => none

/-- one segment list `{'9': weight, '1': [segments]}`; `segs = none`: the key 1 is missing (KeyError) -/
structure SegList where
  weight : Option Nat
  segs : Option (List Seg)
  deriving DecidableEq, Repr

def constructWeight : Option Nat → Option Bytes
  | none => some []
  | some w => (packI w).map fun v => [9, 6, 0, 0] ++ v

/-- `pack('!B', 128) + pack('!H', len(weight) + len(seg) + 1) + b'\x00' + weight + seg` -/
def constructSegList (l : SegList) : Option Bytes :=
  match l.segs with
  | none => none
  | some ss =>
    match constructWeight l.weight, constructSegs ss with
    | some w, some s =>
      if w.length + s.length + 1 < 65536 then some ([128] ++ be16 (w.length + s.length + 1) ++ [0] ++ w ++ s) else none
    | _, _ => none

def constructSegLists : List SegList → Option Bytes
  | [] => some []
  | l :: r =>
    match constructSegList l, constructSegLists r with
    | some a, some b => some (a ++ b)
    | _, _ => none

/-- what is stored under key 6: the old preference (a number) or the new remote endpoint (a dictionary) -/
inductive K6
  | num (n : Nat)
  | endpoint (asn : Nat) (afi : Option Bool) (addr : Ip)      -- afi: some false 'ipv4', some true 'ipv6', none: anything else
  deriving DecidableEq, Repr

inductive Enc
  | old | new | other
  deriving DecidableEq, Repr

structure Policy where
  enc : Option Enc                    -- none: key 0 missing
  segFirst : Bool := false            -- key 128 precedes key 0 in the dictionary
  k6 : Option K6 := none
  k7 : Option Nat := none
  k12 : Option Nat := none
  k13 : Option Nat := none
  k14 : Option Nat := none
  k15 : Option Nat := none
  k129 : Option Bytes := none         -- the policy name, ASCII
  k128 : Option (List SegList) := none
  deriving DecidableEq, Repr

/-- `type, 6, 00 00, pack('!I', v)` -/
def sub6 (ty : Nat) (v : Nat) : Option Bytes := (packI v).map fun b => [u8 ty, 6, 0, 0] ++ b

/-- binding SID: `data[7] << 12`, else `data[13] << 12`, else the empty one (length 2) -/
def bindingSid (ty : Nat) (p : Policy) : Option Bytes :=
  match p.k7 with
  | some v => sub6 ty (v * 4096)
  | none =>
    match p.k13 with
    | some v => sub6 ty (v * 4096)
    | none => some [u8 ty, 2, 0, 0]

def oldBlock (p : Policy) : Option Bytes :=
  let pref : Option Bytes :=
    match p.k6 with
    | some (.num v) => sub6 6 v
    | some (.endpoint ..) => none                    -- struct.pack('!I', dict)
    | none => (match p.k12 with | some v => sub6 6 v | none => some [])
  match pref, bindingSid 7 p with
  | some a, some b => some (a ++ b)
  | _, _ => none

def remoteEndpoint (k : K6) : Option Bytes :=
  match k with
  | .num _ => none                                   -- int has no .get
  | .endpoint asn afi addr =>
    match afi with
    | some false => (match packI asn, packed4 addr with
                     | some a, some x => some ([6, 10] ++ a ++ be16 1 ++ x)
                     | _, _ => none)
    | some true => (match packI asn, packed6 addr with
                    | some a, some x => some ([6, 22] ++ a ++ be16 2 ++ x)
                    | _, _ => none)
    | none => none

def optB (o : Option Nat) (f : Bytes → Bytes) : Option Bytes :=
  match o with
  | none => some []
  | some v => (packB v).map f

def newBlock (p : Policy) : Option Bytes :=
  let pref : Option Bytes :=
    match p.k6 with
    | some _ => some []
    | none => (match p.k12 with | some v => sub6 12 v | none => some [])
  let name : Option Bytes :=
    match p.k129 with
    | none => some []
    | some n => if n.length + 1 < 65536 then some ([129] ++ be16 (n.length + 1) ++ [0] ++ n) else none
  let ep : Option Bytes :=
    match p.k6 with
    | none => some []
    | some k => remoteEndpoint k
  match pref, bindingSid 13 p, optB p.k14 (fun b => [14, 3, 0, 0] ++ b), optB p.k15 (fun b => [15, 2] ++ b ++ [0]), name, ep with
  | some a, some b, some c, some d, some e, some f => some (a ++ b ++ c ++ d ++ e ++ f)
  | _, _, _, _, _, _ => none

/-- what key 128 contributes -/
def segBlock (p : Policy) : Option Bytes :=
  match p.k128 with
  | none => some []
  | some ls => constructSegLists ls

/-- what key 0 contributes -/
def encBlock (p : Policy) : Option Bytes :=
  match p.enc with
  | some .old => oldBlock p
  | some .new => newBlock p
  | _ => none

/-- the sub-TLVs of the SR policy tunnel, in the order the dictionary's keys are visited -/
def policyValue (p : Policy) : Option Bytes :=
  match encBlock p, segBlock p with
  | some a, some b => some (if p.segFirst then b ++ a else a ++ b)
  | _, _ => none

/-- `TunnelEncaps.construct(value)`: FLAG 0xD0, ID 23, 2-octet length, one tunnel TLV of type 15 -/
def constructTunnel (p : Policy) : Option Bytes :=
  match policyValue p with
  | none => none
  | some v =>
    if v.length + 4 < 65536 then
      some ([0xD0, 23] ++ be16 (v.length + 4) ++ (be16 15 ++ be16 v.length ++ v))
    else none

end Yabgp.Tunnel
