/-
  Constructor models of two construct-only families of C08 (the code has no decoder worth the name for them):

  * yabgp/message/attribute/nlri/ipv4_srte.py  IPv4SRTE.construct (as repaired by fix_8 of the W8 report: the
    endpoint is parsed as IPv4) and the (1, 73) branches of MpReachNLRI.construct / MpUnReachNLRI.construct;
  * yabgp/message/attribute/pmsitunnel.py  PMSITunnel.construct / construct_pmsi_label / construct_tunnel_type,
    as called from Update.construct_attributes (the EVPN overlay dictionary is always there).

  Addresses are `Mp.Ip` (what the netaddr text denotes: family and value).  `none` / `.raise` = the Python
  code raises.  Import-free apart from the shared MP helpers.
-/
import Yabgp.Model.Mp.Common

namespace Yabgp.Construct
open Yabgp.Mp

/-! ### SR policy NLRI -/

/-- `{'distinguisher': d, 'color': c, 'endpoint': text}` -/
structure SrteNlri where
  distinguisher : Nat
  color : Nat
  endpoint : Ip
  deriving DecidableEq, Repr

/-- `IPv4SRTE.construct(data)`: `netaddr.IPAddress(endpoint, 4)` raises for an IPv6 text -/
def constructSrte (n : SrteNlri) : Option Bytes :=
  match n.endpoint with
  | .v4 e =>
    if n.distinguisher < p32 ∧ n.color < p32 ∧ e < p32 then
      some (be8 ((be32 n.distinguisher ++ be32 n.color ++ be32 e).length * 8) ++
            (be32 n.distinguisher ++ be32 n.color ++ be32 e))
    else none
  | .v6 _ => none

/-- `netaddr.IPAddress(text).packed` of a next hop: the value has to fit its family -/
def packedOk (a : Ip) : Option Bytes :=
  match a with
  | .v4 n => if n < p32 then some (be32 n) else none
  | .v6 n => if n < p128 then some (beN 16 n) else none

/-- the (1, 73) branch of `MpReachNLRI.construct`; `nexthop = none` is a text netaddr refuses (`nexthop = ''`,
    then bytes + str raises) -/
def constructSrteReach (nexthop : Option Ip) (n : SrteNlri) : CRes :=
  match nexthop with
  | none => .raise
  | some nh =>
    match packedOk nh, constructSrte n with
    | some nb, some nl => attrWrap 14 (reachValue' 1 73 nb nl)
    | _, _ => .raise
where
  reachValue' (afi safi : Nat) (nh nlri : Bytes) : Bytes :=
    be16 afi ++ be8 safi ++ be8 nh.length ++ nh ++ [0] ++ nlri

/-- the (1, 73) branch of `MpUnReachNLRI.construct`; `withdraw = none` is the empty / missing dictionary -/
def constructSrteUnreach (withdraw : Option SrteNlri) : CRes :=
  match withdraw with
  | none => .none
  | some n =>
    match constructSrte n with
    | some nl => attrWrap 15 (be16 1 ++ be8 73 ++ nl)
    | none => .raise

/-! ### PMSI tunnel -/

/-- what `EVPN.signal_evpn_overlay(attr_dict)` says about the label encoding -/
inductive Overlay
  | mpls            -- not (EVPN and encapsulation extended community): `label << 4`
  | vni             -- EVPN with encapsulation VXLAN (8) or NVGRE (9): the label value as it is
  | unsupported     -- EVPN with another encapsulation value: construct_pmsi_label returns None
  deriving DecidableEq, Repr

/-- `struct.pack('!L', x)[1:]` -/
def low24 (x : Nat) : Option Bytes := if x < p32 then some (be24 x) else none

def constructPmsiLabel (o : Overlay) (label : Nat) : Option Bytes :=
  match o with
  | .mpls => low24 (label * 16)
  | .vni => low24 label
  | .unsupported => none

/-- `PMSITunnel.construct(value, evpn_overlay)`: `mpls_label[0]` (`label = none`: empty list), tunnel type 6 is
    the only one whose identifier is bytes (every other type concatenates `''` and raises) -/
def constructPmsi (o : Overlay) (leaf ty : Nat) (label : Option Nat) (tid : Option Ip) : Option Bytes :=
  match label, tid with
  | some l, some t =>
    match constructPmsiLabel o l, packedOk t with
    | some lb, some tb =>
      if leaf < 256 ∧ ty = 6 then
        some (be8 0xC0 ++ be8 22 ++ be8 (be8 leaf ++ be8 ty ++ lb ++ tb).length ++ (be8 leaf ++ be8 ty ++ lb ++ tb))
      else none
    | _, _ => none
  | _, _ => none

end Yabgp.Construct
