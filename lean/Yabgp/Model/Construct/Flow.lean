/-
  Flow specification constructors for C08:

  * IPv4 (yabgp/message/attribute/nlri/ipv4_flowspec.py): the model of builder EVF (Model/Mp/Flowspec.lean) behind
    the guard of fix_14 of the W8 report (`construct_prefix` raises unless the length is within 0..32; an IPv6
    text cannot be expressed in that model);
  * IPv6 (yabgp/message/attribute/nlri/ipv6_flowspec.py, construct-only, as repaired by fix_11): `construct_nlri`,
    `construct_prefix` (RFC 8956 pattern), the operator lists - same code as the IPv4 class, so
    `Flowspec.constructOperators` is reused - and the (2, 133) branch of MpReachNLRI.construct.

  `none` = the Python code raises.
-/
import Yabgp.Model.Mp.EvfWrap
import Yabgp.Model.Mp.Common

namespace Yabgp.Flowspec

/-- fix_14: prefix components (types 1, 2) with a length above 32 are refused -/
def pfxLenOk (d : Rule) (t : Nat) : Bool :=
  match dictGet d t with
  | some (.pfx _ l) => decide (l ≤ 32)
  | _ => true

def ruleGuard (d : Rule) : Bool := pfxLenOk d 1 && pfxLenOk d 2

/-- `IPv4FlowSpec.construct_nlri(data)` as repaired -/
def constructNlriR (d : Rule) : Option (Option Bytes) := if ruleGuard d then constructNlri d else none

/-- `IPv4FlowSpec.construct(value)` as repaired -/
def constructRulesR (rules : List Rule) : Option Bytes :=
  if rules.all ruleGuard then constructRules rules else none

end Yabgp.Flowspec

namespace Yabgp.Evf
open Yabgp.Flowspec

def flowGuard : Nlri → Bool
  | .flowspec rules => rules.all ruleGuard
  | .evpn _ => true

end Yabgp.Evf

namespace Yabgp.Flow6
open Yabgp.Mp

/-- a component value of an IPv6 flow specification: `{'prefix': 'addr/len', 'offset': n}` or an operator text -/
inductive Comp6
  | pfx (addr : Ip) (len offset : Int)
  | ops (text : List Char)
  deriving DecidableEq, Repr

/-- the dictionary after `int(key)`, in insertion order (keys distinct) -/
abbrev Rule6 := List (Nat × Comp6)

def get (d : Rule6) (k : Nat) : Option Comp6 :=
  match d with
  | [] => none
  | (k', v) :: r => if k' = k then some v else get r k

/-- the pattern of RFC 8956 §3.1: bits `offset .. len-1` of the address, left aligned, padded to an octet boundary -/
def pattern (a : Nat) (len offset : Nat) : Bytes :=
  beN ((len - offset + 7) / 8) ((a / 2 ^ (128 - len)) % 2 ^ (len - offset) * 2 ^ ((8 - (len - offset) % 8) % 8))

/-- `IPv6FlowSpec.construct_prefix(prefix)` -/
def constructPrefix6 (addr : Ip) (len offset : Int) : Option Bytes :=
  match addr with
  | .v4 _ => none                                            -- netaddr.IPAddress(ip, 6)
  | .v6 a =>
    if a < p128 ∧ 0 ≤ offset ∧ offset ≤ len ∧ len ≤ 128 then
      some (be8 len.toNat ++ be8 offset.toNat ++ pattern a len.toNat offset.toNat)
    else none

/-- one prefix component of `construct_nlri` (`if data.get(type)`) -/
def pfxComp (d : Rule6) (t : Nat) : Option Bytes :=
  match get d t with
  | none => some []
  | some (.pfx a l o) => (constructPrefix6 a l o).map (u8 t :: ·)
  | some (.ops []) => some []
  | some (.ops _) => none                                    -- str has no .get

/-- one operator component -/
def opComp (d : Rule6) (t : Nat) : Option Bytes :=
  match get d t with
  | none => some []
  | some (.ops []) => some []
  | some (.ops s) => (Flowspec.constructOperators s).map (u8 t :: ·)
  | some (.pfx ..) => none                                   -- dict has no .split

def pfxTypes : List Nat := [1, 2]
def opTypes : List Nat := [3, 4, 5, 6, 7, 8, 9, 10, 11, 12, 13]

def ruleBody (d : Rule6) : Option Bytes :=
  Flowspec.concatOpt (pfxTypes.map (pfxComp d) ++ opTypes.map (opComp d))

/-- `construct_nlri(data)`: `some none` is Python's `None` (no component at all) -/
def constructNlri6 (d : Rule6) : Option (Option Bytes) :=
  match ruleBody d with
  | none => none
  | some [] => some none
  | some b =>
    if b.length ≥ 240 then (if 61440 + b.length < 65536 then some (some (be16 (61440 + b.length) ++ b)) else none)
    else some (some (u8 b.length :: b))

/-- `IPv6FlowSpec.construct(value)`; `b'' + None` raises -/
def constructRules6 : List Rule6 → Option Bytes
  | [] => some []
  | d :: r =>
    match constructNlri6 d, constructRules6 r with
    | some (some a), some b => some (a ++ b)
    | _, _ => none

/-- `netaddr.IPAddress(value['nexthop']).packed`, `b''` for a text netaddr refuses (`none` here) -/
def nexthopBytes : Option Ip → Option Bytes
  | none => some []
  | some (.v4 n) => if n < p32 then some (be32 n) else none
  | some (.v6 n) => if n < p128 then some (beN 16 n) else none

/-- the (2, 133) branch of `MpReachNLRI.construct`: `.none` when there is no flow specification -/
def constructReach6 (nexthop : Option Ip) (rules : List Rule6) : CRes :=
  match nexthopBytes nexthop, constructRules6 rules with
  | some nb, some nl =>
    if nl = [] then .none
    else attrWrap 14 (be16 2 ++ be8 133 ++ be8 nb.length ++ nb ++ [0] ++ nl)
  | _, _ => .raise

end Yabgp.Flow6
