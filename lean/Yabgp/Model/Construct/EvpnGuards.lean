/-
  C08 — the EVPN constructors as repaired by fix_9, fix_12, fix_13 of the W8 report (and, in the two MP wrappers,
  the IPv4 flow specification guard of fix_14, Model/Construct/Flow.lean), written as the existing models
  (Model/Mp/Evpn.lean, Model/Mp/EvfWrap.lean) behind a decidable guard (see Model/Construct/Guards.lean
  for why this is exact):

    * `construct_esi` raises unless the identifier it built is 10 octets long
      (unknown ESI type, type 0 value of 2^72 or more);
    * a MAC/IP advertisement route needs its label stack (`value['label']`, non-empty);
    * an IP prefix route takes prefix and gateway from one address family, a prefix length that family
      has, and exactly one label.
-/
import Yabgp.Model.Mp.EvfWrap
import Yabgp.Model.Construct.Flow

namespace Yabgp.Evpn

/-- the identifier `construct_esi` built is 10 octets long (or it raised anyway) -/
def esiGuard (e : Esi) : Bool :=
  match constructEsi e with
  | some b => decide (b.length = 10)
  | none => true

/-- `EVPN.construct_esi(esi_data)` as repaired -/
def constructEsiR (e : Esi) : Option Bytes := if esiGuard e then constructEsi e else none

def routeGuard : Route → Bool
  | .t1 _ esi _ _ => esiGuard esi
  | .t2 _ esi _ _ _ label => esiGuard esi && decide (label ≠ [])
  | .t4 _ esi _ => esiGuard esi
  | .t5c _ _ _ pfx plen gw label =>
    decide (pfx.v6 = gw.v6) && decide (plen ≤ (if pfx.v6 then 128 else 32)) && decide (label.length = 1)
  | _ => true

/-- `EVPN.construct(nlri_list)` as repaired -/
def constructRoutesR (rs : List Route) : Option Bytes :=
  if rs.all routeGuard then constructRoutes rs else none

end Yabgp.Evpn

namespace Yabgp.Evf
open Yabgp.Evpn

def nlriGuard : Nlri → Bool
  | .evpn rs => rs.all routeGuard
  | .flowspec rules => rules.all Flowspec.ruleGuard          -- fix_14

/-- `MpReachNLRI.construct` / `MpUnReachNLRI.construct` for (25, 70) and (1, 133) as repaired -/
def constructReachR (r : Reach) : CR := if nlriGuard r.nlri then constructReach r else .raises
def constructUnreachR (n : Nlri) : CR := if nlriGuard n then constructUnreach n else .raises

end Yabgp.Evf
