/-
  Model of the session layer: yabgp/core/fsm.py, protocol.py (dataReceived / parse_buffer / dispatch /
  send_*), factory.py (BGPPeering) and timer.py, transcribed statement by statement (DESIGN Appendix E,
  as amended by the fix: commits).  Time is in ticks of 1/3 s.  Outputs of one event are accumulated in
  `Sess.outs`, so that every action is a function `Sess → Sess`.
  The UPDATE decoder is a parameter (`UpdClass`): the session logic only looks at whether decoding
  raised, reported a sub-error, or succeeded.
-/
import Yabgp.Model.Open

namespace Yabgp

inductive St
  | idle | connect | active | openSent | openConfirm | established
  deriving DecidableEq, Repr

/-- the reactor's view of one connector / transport -/
inductive Phase
  | connecting     -- connectTCP issued, outcome pending
  | connected      -- transport up, data is delivered
  | closing        -- we called loseConnection; no more data; connectionLost still owed
  | closed         -- failed, or connectionLost delivered
  deriving DecidableEq, Repr

structure Stats where
  opens : Nat := 0
  notifications : Nat := 0
  updates : Nat := 0
  keepalives : Nat := 0
  routeRefresh : Nat := 0
  deriving DecidableEq, Repr

/-- one connector and (once connected) its BGP protocol instance -/
structure Conn where
  phase : Phase := .connecting
  disconnected : Bool := false      -- BGP.disconnected
  asn4 : Bool := false              -- BGP.fourbytesas
  sent : Stats := {}
  recv : Stats := {}
  deriving DecidableEq, Repr

structure Timers where
  retry : Option Nat := none
  hold : Option Nat := none
  keepalive : Option Nat := none
  idleHold : Option Nat := none
  deriving DecidableEq, Repr

structure Cfg where
  localAs : Nat
  remoteAs : Nat
  holdCfg : Nat            -- seconds
  retryT : Nat             -- seconds
  idleHoldT : Nat          -- seconds
  localId : Nat            -- BGP identifier derived from the local address
  caps0 : LocalCaps
  deriving DecidableEq, Repr

inductive UpdClass
  | raises | malformed | good | unmodelled
  deriving DecidableEq, Repr

inductive Out
  | write (c : Nat) (b : Bytes)
  | lose (c : Nat)
  | connect (c : Nat)
  | hEstablished
  | hConnLost (c : Nat)
  | hConnFailed
  | hSendOpen (c : Nat) (asn hold id : Nat)
  | hOpen (c : Nat) (m : OpenMsg)
  | hKeepalive (c : Nat)
  | hNotification (c : Nat) (data : Bytes)
  | hUpdate (c : Nat) (asn4 : Bool) (body : Bytes)
  | hUpdateError (c : Nat) (body : Bytes)
  | hRouteRefresh (c : Nat) (afi res safi ty : Nat)
  | retStart (v : Nat)          -- 0 False, 1 True, 2 "EST"
  | retStop
  | escaped                     -- a Python exception would leave the callback
  | unmodelled                  -- the UPDATE body is outside the decoders modelled so far
  deriving DecidableEq, Repr

structure Sess where
  cfg : Cfg
  now : Nat := 0
  st : St := .idle
  tm : Timers := {}
  allowAuto : Bool := true
  retryCounter : Nat := 0
  holdTime : Nat                      -- FSM.hold_time (seconds); keep_alive_time = holdTime / 3 s = holdTime ticks
  proto : Option Nat := none          -- FSM.protocol
  estab : Option Nat := none          -- BGPPeering.estab_protocol
  pending : Option Nat := none        -- BGPPeering.connector: the connector of the last attempt started
  conns : List Conn := []
  localCaps : LocalCaps
  remote : CapaDict := {}             -- running_config['capability']['remote']
  bgpId : Option Nat := none
  outs : List Out := []
  deriving Repr

def boot (cfg : Cfg) : Sess :=
  { cfg := cfg, holdTime := cfg.holdCfg, localCaps := cfg.caps0 }

namespace Sess

/-! ### field setters (every action below is a composition of these) -/

def emit (s : Sess) (o : Out) : Sess := { s with outs := s.outs ++ [o] }
def withNow (s : Sess) (v : Nat) : Sess := { s with now := v }
def withSt (s : Sess) (v : St) : Sess := { s with st := v }
def withTm (s : Sess) (v : Timers) : Sess := { s with tm := v }
def withAllow (s : Sess) (v : Bool) : Sess := { s with allowAuto := v }
def withRetryCounter (s : Sess) (v : Nat) : Sess := { s with retryCounter := v }
def withHoldTime (s : Sess) (v : Nat) : Sess := { s with holdTime := v }
def withProto (s : Sess) (v : Option Nat) : Sess := { s with proto := v }
def withEstab (s : Sess) (v : Option Nat) : Sess := { s with estab := v }
def withPending (s : Sess) (v : Option Nat) : Sess := { s with pending := v }
def withConns (s : Sess) (v : List Conn) : Sess := { s with conns := v }
def withLocalCaps (s : Sess) (v : LocalCaps) : Sess := { s with localCaps := v }
def withRemote (s : Sess) (v : CapaDict) : Sess := { s with remote := v }
def withBgpId (s : Sess) (v : Option Nat) : Sess := { s with bgpId := v }
def withOuts (s : Sess) (v : List Out) : Sess := { s with outs := v }

def setRetry (s : Sess) (v : Option Nat) : Sess := s.withTm { s.tm with retry := v }
def setHold (s : Sess) (v : Option Nat) : Sess := s.withTm { s.tm with hold := v }
def setKeepalive (s : Sess) (v : Option Nat) : Sess := s.withTm { s.tm with keepalive := v }
def setIdleHold (s : Sess) (v : Option Nat) : Sess := s.withTm { s.tm with idleHold := v }

def conn (s : Sess) (i : Nat) : Conn := s.conns.getD i {}
def setConn (s : Sess) (i : Nat) (c : Conn) : Sess := s.withConns (s.conns.set i c)

/-- per-connection field updates -/
def setPhase (s : Sess) (i : Nat) (p : Phase) : Sess := s.setConn i { (s.conn i) with phase := p }
def setDisconnected (s : Sess) (i : Nat) : Sess := s.setConn i { (s.conn i) with disconnected := true }
def setAsn4 (s : Sess) (i : Nat) : Sess := s.setConn i { (s.conn i) with asn4 := true }
def bumpSent (s : Sess) (i : Nat) (f : Stats → Stats) : Sess := s.setConn i { (s.conn i) with sent := f (s.conn i).sent }
def bumpRecv (s : Sess) (i : Nat) (f : Stats → Stats) : Sess := s.setConn i { (s.conn i) with recv := f (s.conn i).recv }

def incOpens (st : Stats) : Stats := { st with opens := st.opens + 1 }
def incNotifications (st : Stats) : Stats := { st with notifications := st.notifications + 1 }
def incUpdates (st : Stats) : Stats := { st with updates := st.updates + 1 }
def incKeepalives (st : Stats) : Stats := { st with keepalives := st.keepalives + 1 }
def incRouteRefresh (st : Stats) : Stats := { st with routeRefresh := st.routeRefresh + 1 }

/-- assigning FSM.state: a change to Established is reported to the application -/
def setSt (s : Sess) (v : St) : Sess :=
  if v ≠ s.st ∧ v = .established then (s.emit .hEstablished).withSt v else s.withSt v

def holdTicks (s : Sess) : Nat := 3 * s.holdTime
def kaTicks (s : Sess) : Nat := s.holdTime
def retryDeadline (s : Sess) : Nat := s.now + 3 * s.cfg.retryT
def idleDeadline (s : Sess) : Nat := s.now + 3 * s.cfg.idleHoldT

/-! ### protocol-level sends (always through FSM.protocol) -/

def transportUp (c : Conn) : Bool := c.phase = .connected ∨ c.phase = .closing

/-- transport.write on connection `i` (ignored when the transport is no longer connected) -/
def writeOn (s : Sess) (i : Nat) (b : Bytes) : Sess :=
  if transportUp (s.conn i) then s.emit (.write i b) else s

def sendNotification (s : Sess) (err sub : Nat) (data : Bytes) : Sess :=
  match s.proto with
  | none => s.emit .escaped
  | some i =>
    match constructNotification err sub data with
    | some w => (s.bumpSent i incNotifications).writeOn i w
    | none => (s.bumpSent i incNotifications).emit .escaped

def sendKeepalive (s : Sess) : Sess :=
  match s.proto with
  | none => s.emit .escaped
  | some i => (s.bumpSent i incKeepalives).writeOn i constructKeepalive

def remoteNonEmpty (r : CapaDict) : Bool :=
  r.fourBytesAs || r.afiSafi.isSome || r.routeRefresh || r.ciscoRouteRefresh || r.gracefulRestart ||
  r.ciscoMultiSession || r.enhancedRouteRefresh || r.addPath.isSome || r.llgr.isSome || r.extNexthop.isSome ||
  !r.unknown.isEmpty

/-- capability_negotiate: local capabilities the last peer OPEN lacked are popped (global, permanent) -/
def negotiateCaps (l : LocalCaps) (r : CapaDict) : LocalCaps :=
  if remoteNonEmpty r then
    { afiSafi := if r.afiSafi.isSome then l.afiSafi else none
      ciscoRouteRefresh := l.ciscoRouteRefresh && r.ciscoRouteRefresh
      routeRefresh := l.routeRefresh && r.routeRefresh
      fourBytesAs := l.fourBytesAs && r.fourBytesAs
      extNexthop := if r.extNexthop.isSome then l.extNexthop else none
      addPath := if r.addPath.isSome then l.addPath else none
      enhancedRouteRefresh := l.enhancedRouteRefresh && r.enhancedRouteRefresh
      gracefulRestart := l.gracefulRestart && r.gracefulRestart
      ciscoMultiSession := l.ciscoMultiSession && r.ciscoMultiSession }
  else l

/-- the OPEN message BGP.send_open builds in state `s` -/
def openWire (s : Sess) : Option Bytes :=
  constructOpen 4 s.cfg.localAs s.cfg.holdCfg (s.bgpId.getD 0) (negotiateCaps s.localCaps s.remote)

/-- BGP.send_open on FSM.protocol; the Bool is false when an exception leaves send_open before anything
    was written (capability_negotiate has already run by then) -/
def sendOpen (s : Sess) : Sess × Bool :=
  match s.proto with
  | none => (s, false)
  | some i =>
    match s.openWire with
    | none => (s.withLocalCaps (negotiateCaps s.localCaps s.remote), false)
    | some w =>
      ((((s.withLocalCaps (negotiateCaps s.localCaps s.remote)).writeOn i w).bumpSent i incOpens).emit
          (.hSendOpen i s.cfg.localAs s.cfg.holdCfg (s.bgpId.getD 0)), true)

/-! ### FSM helpers -/

/-- BGP.closeConnection on connection `i` -/
def closeOn (s : Sess) (i : Nat) : Sess :=
  if (s.conn i).phase = .connected then ((s.setPhase i .closing).setDisconnected i).emit (.lose i)
  else if (s.conn i).phase = .closing then s.setDisconnected i
  else s

/-- FSM._close_connection -/
def closeConn (s : Sess) : Sess :=
  match s.proto with
  | none => s
  | some i => (s.closeOn i).withRetryCounter 0

def incRetryCounter (s : Sess) : Sess := s.withRetryCounter (s.retryCounter + 1)

/-- FSM._error_close -/
def errorClose (s : Sess) : Sess :=
  ((s.withTm { retry := none, hold := none, keepalive := none, idleHold := some s.idleDeadline }).closeConn).incRetryCounter.setSt .idle

/-- BGPPeering.abort_pending_connect: the attempt still in flight (if any) is given up.  `connector.stopConnecting()`
    reports the failure to `clientConnectionFailed`, which ignores a connector that is not `self.connector` any more. -/
def abortPending (s : Sess) : Sess :=
  match s.pending with
  | none => s
  | some j =>
    if (s.conn j).phase = .connecting then (s.withPending none).setPhase j .closed else s.withPending none

/-- BGPPeering.connect -/
def connectTcp (s : Sess) : Sess :=
  if s.abortPending.st ≠ .established then
    ((s.abortPending.withConns (s.abortPending.conns ++ [({} : Conn)])).emit (.connect s.abortPending.conns.length)).withPending
      (some s.abortPending.conns.length)
  else s.abortPending

/-- BGPPeering.automatic_start(idle_hold) (with FSM.automatic_start inlined) -/
def autoStart (s : Sess) (idleHold : Bool) : Sess :=
  if s.st = .idle then
    if idleHold then s.setIdleHold (some s.idleDeadline)
    else if s.allowAuto then ((s.incRetryCounter.setRetry (some s.retryDeadline)).setSt .connect).connectTcp
    else s
  else s

/-- the first half of BGPPeering.connection_closed(pro) -/
def dropEstab (s : Sess) (pro : Option Nat) : Sess :=
  match pro with
  | some p => if s.estab = some p then (s.withEstab none).setSt .idle else s
  | none => s

/-- BGPPeering.connection_closed(pro) -/
def connectionClosed (s : Sess) (pro : Option Nat) : Sess :=
  if (s.dropEstab pro).allowAuto then (s.dropEstab pro).autoStart true else s.dropEstab pro

/-- FSM.connection_failed -/
def connectionFailed (s : Sess) : Sess :=
  match s.st with
  | .connect => (((s.setRetry none).closeConn).setSt .idle).connectionClosed s.proto
  | .active => (s.setRetry (some s.retryDeadline)).setSt .idle
  | .openSent => ((((s.closeConn).setRetry (some s.retryDeadline)).setHold none).setSt .active).connectionClosed s.proto
  | .openConfirm => s.errorClose
  | .established => s.errorClose
  | .idle => s

/-! ### operator events -/

def manualStart (s : Sess) : Sess :=
  match s.st with
  | .established => s.emit (.retStart 2)
  | .idle => ((((s.withAllow true).setRetry (some s.retryDeadline)).setSt .connect).connectTcp).emit (.retStart 1)
  | _ => s.emit (.retStart 0)

def manualStop (s : Sess) : Sess :=
  (((((((if s.st = .established then s.sendNotification C.errCease 0 [] else s).withTm {}).closeConn).withRetryCounter 0).withAllow false).setSt .idle).abortPending).emit .retStop

/-! ### connection events -/

/-- FSM.connection_made (state is Connect here: _initProtocol has just set it) -/
def connectionMade (s : Sess) : Sess :=
  if ((s.setRetry none).setIdleHold none).sendOpen.2 then
    ((((s.setRetry none).setIdleHold none).sendOpen.1).setHold (some (s.now + 3 * C.largeHoldTime))).setSt .openSent
  else ((s.setRetry none).setIdleHold none).sendOpen.1     -- exception caught and logged by connectionMade

/-- a pending connectTCP succeeded: buildProtocol, makeConnection, connectionMade -/
def connOk (s : Sess) (i : Nat) : Sess :=
  ((((((s.setPhase i .connected).withProto (some i)).setSt .connect).withEstab (some i)).withBgpId
      (some (s.bgpId.getD s.cfg.localId)))).connectionMade

/-- a pending connectTCP failed (refused, timed out): clientConnectionFailed - ignored for a connector that is not
    `self.connector` (one the peering has given up itself) -/
def connFail (s : Sess) (i : Nat) : Sess :=
  if s.pending = some i then (((s.withPending none).setPhase i .closed).emit .hConnFailed).connectionFailed
  else s.setPhase i .closed

/-- connectionLost delivered for connection `i` (peer closed, or our close completed) -/
def connLost (s : Sess) (i : Nat) : Sess :=
  if (s.conn i).disconnected then ((s.setPhase i .closed).emit (.hConnLost i)).connectionClosed (some i)
  else ((s.setPhase i .closed).emit (.hConnLost i)).connectionFailed

/-! ### timer events -/

def fireRetry (s : Sess) : Sess :=
  match s.st with
  | .connect | .active => (((s.setRetry none).closeConn).setRetry (some s.retryDeadline)).connectTcp
  | .idle => s.setRetry none
  | _ => ((s.setRetry none).sendNotification C.errFsm 0 []).errorClose

def fireHold (s : Sess) : Sess :=
  match s.st with
  | .openSent | .openConfirm | .established =>
      ((((s.setHold none).sendNotification C.errHold 0 []).setRetry none).errorClose).setSt .idle
  | .connect | .active => (s.setHold none).errorClose
  | .idle => s.setHold none

def fireKeepalive (s : Sess) : Sess :=
  match s.st with
  | .openConfirm | .established =>
      if s.holdTime > 0 then ((s.setKeepalive none).sendKeepalive).setKeepalive (some (s.now + s.kaTicks))
      else (s.setKeepalive none).sendKeepalive
  | .connect | .active => (s.setKeepalive none).errorClose
  | _ => s.setKeepalive none

def fireIdleHold (s : Sess) : Sess :=
  if s.st = .idle then (s.setIdleHold none).autoStart false else s.setIdleHold none

/-! ### FSM message events -/

def headerError (s : Sess) (sub : Nat) (data : Bytes) : Sess :=
  (s.sendNotification C.errHdr sub data).errorClose

def openMessageError (s : Sess) (sub : Nat) : Sess :=
  (s.sendNotification C.errOpen sub []).errorClose

def fsmOpenReceived (s : Sess) : Sess :=
  match s.st with
  | .connect | .active => s.errorClose
  | .openSent =>
      if s.holdTime > 0 then
        ((((s.setRetry none).sendKeepalive).setKeepalive (some (s.now + s.kaTicks))).setHold (some (s.now + s.holdTicks))).setSt .openConfirm
      else ((((s.setRetry none).sendKeepalive).setKeepalive none).setHold none).setSt .openConfirm
  | .openConfirm => (s.sendNotification C.errFsm 0 []).errorClose
  | .established => (s.sendNotification C.errFsm 0 []).errorClose
  | .idle => s

def restartHold (s : Sess) : Sess :=
  if s.holdTime ≠ 0 then s.setHold (some (s.now + s.holdTicks)) else s

def fsmKeepaliveReceived (s : Sess) : Sess :=
  match s.st with
  | .openConfirm => s.restartHold.setSt .established
  | .established => s.restartHold
  | .connect | .active => s.errorClose
  | .openSent => (s.sendNotification C.errFsm 0 []).errorClose
  | .idle => s

def fsmUpdateReceived (s : Sess) : Sess :=
  match s.st with
  | .established => s.restartHold
  | .connect | .active => s.errorClose
  | .openSent | .openConfirm => (s.sendNotification C.errFsm 0 []).errorClose
  | .idle => s

def fsmNotificationReceived (s : Sess) (err sub : Nat) : Sess :=
  if err = C.errOpen ∧ sub = 1 then
    match s.st with
    | .openSent | .openConfirm => ((((s.setRetry none).setHold none).setKeepalive none).closeConn).setSt .idle
    | .connect | .active => s.errorClose
    | .established => s.errorClose
    | .idle => s
  else if s.st ≠ .idle then s.errorClose else s

/-! ### BGP.parse_buffer: one iteration on connection `i` -/

/-- the tail of BGP._open_received once Open.parse succeeded and the AS matched -/
def openAccepted (s : Sess) (i : Nat) (m : OpenMsg) : Sess × Bool :=
  if m.holdTime ≠ 0 ∧ m.holdTime < 3 then
    ((if m.caps.fourBytesAs ∧ (s.cfg.localAs > 65535 ∨ s.localCaps.fourBytesAs) then (s.withRemote m.caps).setAsn4 i
      else s.withRemote m.caps).openMessageError C.openBadHold, false)
  else
    ((((if m.caps.fourBytesAs ∧ (s.cfg.localAs > 65535 ∨ s.localCaps.fourBytesAs) then (s.withRemote m.caps).setAsn4 i
        else s.withRemote m.caps).withHoldTime (min s.cfg.holdCfg m.holdTime)).fsmOpenReceived).emit (.hOpen i m), true)

/-- BGP._open_received; the Bool is the value parse_buffer returns (True = continue) -/
def openReceived (s : Sess) (i : Nat) (body : Bytes) : Sess × Bool :=
  match parseOpen body with
  | .error (.hdr sub) => ((s.bumpRecv i incOpens).headerError sub [], false)
  | .error (.open sub) => ((s.bumpRecv i incOpens).openMessageError sub, false)
  | .error .other => (s.bumpRecv i incOpens, true)              -- outer catch-all: logged, message skipped
  | .ok m =>
    if s.cfg.remoteAs ≠ m.asn then ((s.bumpRecv i incOpens).openMessageError C.openBadPeerAs, false)
    else (s.bumpRecv i incOpens).openAccepted i m

/-- the dispatch part of parse_buffer for a complete frame of type `ty` with body `body` -/
def dispatch (U : Bool → Bytes → UpdClass) (s : Sess) (i : Nat) (ty : Nat) (body : Bytes) : Sess × Bool :=
  if ty = C.msgOpen then openReceived s i body
  else if ty = C.msgUpdate then
    match U (s.conn i).asn4 body with
    | .raises => (s.bumpRecv i incUpdates, true)
    | .unmodelled => ((s.bumpRecv i incUpdates).emit .unmodelled, true)
    | .malformed => (((s.bumpRecv i incUpdates).emit (.hUpdateError i body)).fsmUpdateReceived, true)
    | .good => (((s.bumpRecv i incUpdates).emit (.hUpdate i (s.conn i).asn4 body)).fsmUpdateReceived, true)
  else if ty = C.msgNotification then
    match parseNotification body with
    | none => (s, true)
    | some (e, sub, d) => ((((s.bumpRecv i incNotifications).emit (.hNotification i d))).fsmNotificationReceived e sub, true)
  else if ty = C.msgKeepalive then
    if body = [] then (((s.bumpRecv i incKeepalives).emit (.hKeepalive i)).fsmKeepaliveReceived, true)
    else (((s.bumpRecv i incKeepalives).emit (.hKeepalive i)).headerError C.hdrBadLen [], false)
  else if ty = C.msgRouteRefresh ∨ ty = C.msgCiscoRouteRefresh then
    match parseRouteRefresh body with
    | none => (s.bumpRecv i incRouteRefresh, true)
    | some (a, r, sf) => ((s.bumpRecv i incRouteRefresh).emit (.hRouteRefresh i a r sf ty), true)
  else (s.headerError C.hdrBadType (be16 ty), true)

/-- what parse_buffer sees at the head of the receive buffer -/
inductive Head
  | short                                  -- fewer than 19 octets, or the announced length not there yet
  | badMarker
  | badLength (len : Nat)
  | frame (ty : Nat) (body : Bytes) (len : Nat)
  deriving DecidableEq, Repr

def frameLen (buf : Bytes) : Nat := (buf.getD 16 0).toNat * 256 + (buf.getD 17 0).toNat

def headOf (buf : Bytes) : Head :=
  if buf.length < C.hdrLen then .short
  else if buf.take 16 ≠ marker then .badMarker
  else if frameLen buf < C.hdrLen ∨ frameLen buf > C.maxLen then .badLength (frameLen buf)
  else if buf.length < frameLen buf then .short
  else .frame (buf.getD 18 0).toNat ((buf.take (frameLen buf)).drop C.hdrLen) (frameLen buf)

/-- one call of parse_buffer on connection `i` whose receive buffer is `buf` (only parse_buffer and
    dataReceived touch `_receive_buffer`, so it is threaded separately from the rest of the state):
    `some rest` = returned True with the buffer advanced, `none` = returned False (buffer unchanged) -/
def parseBuffer (U : Bool → Bytes → UpdClass) (s : Sess) (i : Nat) (buf : Bytes) : Sess × Option Bytes :=
  if (s.conn i).disconnected then (s, none)
  else
    match headOf buf with
    | .short => (s, none)
    | .badMarker => (s.headerError C.hdrNotSync [], none)
    | .badLength len => (s.headerError C.hdrBadLen (be16 len), none)
    | .frame ty body len =>
      if (dispatch U s i ty body).2 then ((dispatch U s i ty body).1, some (buf.drop len))
      else ((dispatch U s i ty body).1, none)

/-- `while self.parse_buffer(): pass` — fuel is the buffer length: every True iteration drops ≥ 19 octets
    (Props/C04 proves that the fuel is never exhausted); returns the final state and the remaining buffer -/
def drain (U : Bool → Bytes → UpdClass) : Nat → Sess → Nat → Bytes → Sess × Bytes
  | 0, s, _, buf => (s, buf)
  | fuel+1, s, i, buf =>
    match (parseBuffer U s i buf).2 with
    | some rest => drain U fuel (parseBuffer U s i buf).1 i rest
    | none => ((parseBuffer U s i buf).1, buf)

/-- BGP.dataReceived on connection `i`, whose receive buffer held `buf`: the new state and the new buffer.
    (`_receive_buffer` is read and written by dataReceived / parse_buffer only, so the buffers live next to
    the session state — `World` below — instead of inside it.) -/
def dataReceived (U : Bool → Bytes → UpdClass) (s : Sess) (i : Nat) (buf data : Bytes) : Sess × Bytes :=
  drain U ((buf ++ data).length / 19 + 1) s i (buf ++ data)

end Sess

/-! ### events -/

inductive TimerId | retry | hold | keepalive | idleHold
  deriving DecidableEq, Repr

inductive Ev
  | boot                        -- reactor.callLater(..., bgp_peering.automatic_start)
  | manualStart | manualStop
  | connOk (c : Nat) | connFail (c : Nat)
  | chunk (c : Nat) (data : Bytes)
  | lost (c : Nat)
  | advance (dt : Nat)
  | fire (t : TimerId)
  deriving DecidableEq, Repr

def timerOf (tm : Timers) : TimerId → Option Nat
  | .retry => tm.retry | .hold => tm.hold | .keepalive => tm.keepalive | .idleHold => tm.idleHold

def allTimers (tm : Timers) : List Nat :=
  tm.retry.toList ++ tm.hold.toList ++ tm.keepalive.toList ++ tm.idleHold.toList

/-- which events the environment can produce in state `s` -/
def enabled (s : Sess) : Ev → Bool
  | .boot => true
  | .manualStart => true
  | .manualStop => true
  | .connOk c => c < s.conns.length ∧ (s.conn c).phase = .connecting
  | .connFail c => c < s.conns.length ∧ (s.conn c).phase = .connecting
  | .chunk c _ => c < s.conns.length ∧ (s.conn c).phase = .connected
  | .lost c => c < s.conns.length ∧ ((s.conn c).phase = .connected ∨ (s.conn c).phase = .closing)
  | .advance dt => 0 < dt ∧ (allTimers s.tm).all (fun d => s.now + dt ≤ d)
  | .fire t => match timerOf s.tm t with
               | some d => d ≤ s.now
               | none => false

/-- the session state together with the receive buffer of every connection -/
structure World where
  sess : Sess
  rbuf : Nat → Bytes := fun _ => []

def setRbuf (f : Nat → Bytes) (i : Nat) (b : Bytes) : Nat → Bytes := fun j => if j = i then b else f j

def step (U : Bool → Bytes → UpdClass) (w : World) (e : Ev) : World :=
  match e with
  | .boot => { w with sess := (w.sess.withOuts []).autoStart false }
  | .manualStart => { w with sess := (w.sess.withOuts []).manualStart }
  | .manualStop => { w with sess := (w.sess.withOuts []).manualStop }
  | .connOk c => { w with sess := (w.sess.withOuts []).connOk c }
  | .connFail c => { w with sess := (w.sess.withOuts []).connFail c }
  | .chunk c d =>
      { sess := ((w.sess.withOuts []).dataReceived U c (w.rbuf c) d).1,
        rbuf := setRbuf w.rbuf c ((w.sess.withOuts []).dataReceived U c (w.rbuf c) d).2 }
  | .lost c => { w with sess := (w.sess.withOuts []).connLost c }
  | .advance dt => { w with sess := (w.sess.withOuts []).withNow (w.sess.now + dt) }
  | .fire .retry => { w with sess := (w.sess.withOuts []).fireRetry }
  | .fire .hold => { w with sess := (w.sess.withOuts []).fireHold }
  | .fire .keepalive => { w with sess := (w.sess.withOuts []).fireKeepalive }
  | .fire .idleHold => { w with sess := (w.sess.withOuts []).fireIdleHold }

def run (U : Bool → Bytes → UpdClass) (w : World) : List Ev → World
  | [] => w
  | e :: es => run U (step U w e) es

def bootWorld (cfg : Cfg) : World := { sess := boot cfg }

end Yabgp
