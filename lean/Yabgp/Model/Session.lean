/-
  Model of the session layer: yabgp/core/fsm.py, protocol.py (dataReceived / parse_buffer / dispatch /
  send_*), factory.py (BGPPeering) and timer.py, transcribed statement by statement (DESIGN Appendix E,
  as amended by the fix: commits).  Time is in ticks of 1/3 s.  Outputs of one event are accumulated in
  `Sess.outs`, so that every action is a function `Sess → Sess`.
  The UPDATE decoder is a parameter (`UpdClass`): the session logic only looks at whether decoding
  raised, reported a sub-error, or succeeded.
-/
import Yabgp.Model.Open

namespace Yabgp

inductive St
  | idle | connect | active | openSent | openConfirm | established
  deriving DecidableEq, Repr

/-- the reactor's view of one connector / transport -/
inductive Phase
  | connecting     -- connectTCP issued, outcome pending
  | connected      -- transport up, data is delivered
  | closing        -- we called loseConnection; no more data; connectionLost still owed
  | closed         -- failed, or connectionLost delivered
  deriving DecidableEq, Repr

structure Stats where
  opens : Nat := 0
  notifications : Nat := 0
  updates : Nat := 0
  keepalives : Nat := 0
  routeRefresh : Nat := 0
  deriving DecidableEq, Repr

/-- one connector and (once connected) its BGP protocol instance -/
structure Conn where
  phase : Phase := .connecting
  disconnected : Bool := false      -- BGP.disconnected
  buf : Bytes := []                 -- BGP._receive_buffer
  asn4 : Bool := false              -- BGP.fourbytesas
  sent : Stats := {}
  recv : Stats := {}
  deriving DecidableEq, Repr

structure Timers where
  retry : Option Nat := none
  hold : Option Nat := none
  keepalive : Option Nat := none
  idleHold : Option Nat := none
  deriving DecidableEq, Repr

structure Cfg where
  localAs : Nat
  remoteAs : Nat
  holdCfg : Nat            -- seconds
  retryT : Nat             -- seconds
  idleHoldT : Nat          -- seconds
  localId : Nat            -- BGP identifier derived from the local address
  caps0 : LocalCaps
  deriving DecidableEq, Repr

inductive UpdClass
  | raises | malformed | good | unmodelled
  deriving DecidableEq, Repr

inductive Out
  | write (c : Nat) (b : Bytes)
  | lose (c : Nat)
  | connect (c : Nat)
  | hEstablished
  | hConnLost (c : Nat)
  | hConnFailed
  | hSendOpen (c : Nat) (asn hold id : Nat)
  | hOpen (c : Nat) (m : OpenMsg)
  | hKeepalive (c : Nat)
  | hNotification (c : Nat) (data : Bytes)
  | hUpdate (c : Nat) (asn4 : Bool) (body : Bytes)
  | hUpdateError (c : Nat) (body : Bytes)
  | hRouteRefresh (c : Nat) (afi res safi ty : Nat)
  | retStart (v : Nat)          -- 0 False, 1 True, 2 "EST"
  | retStop
  | escaped                     -- a Python exception would leave the callback
  | unmodelled                  -- the UPDATE body is outside the decoders modelled so far
  deriving DecidableEq, Repr

structure Sess where
  cfg : Cfg
  now : Nat := 0
  st : St := .idle
  tm : Timers := {}
  allowAuto : Bool := true
  retryCounter : Nat := 0
  holdTime : Nat                      -- FSM.hold_time (seconds); keep_alive_time = holdTime / 3 s = holdTime ticks
  proto : Option Nat := none          -- FSM.protocol
  estab : Option Nat := none          -- BGPPeering.estab_protocol
  conns : List Conn := []
  localCaps : LocalCaps
  remote : CapaDict := {}             -- running_config['capability']['remote']
  bgpId : Option Nat := none
  outs : List Out := []
  deriving Repr

def boot (cfg : Cfg) : Sess :=
  { cfg := cfg, holdTime := cfg.holdCfg, localCaps := cfg.caps0 }

namespace Sess

def emit (s : Sess) (o : Out) : Sess := { s with outs := s.outs ++ [o] }

def conn (s : Sess) (i : Nat) : Conn := s.conns.getD i {}
def setConn (s : Sess) (i : Nat) (c : Conn) : Sess := { s with conns := s.conns.set i c }

/-- assigning FSM.state: a change to Established is reported to the application -/
def setSt (s : Sess) (v : St) : Sess :=
  if v ≠ s.st ∧ v = .established then { (s.emit .hEstablished) with st := v } else { s with st := v }

def holdTicks (s : Sess) : Nat := 3 * s.holdTime
def kaTicks (s : Sess) : Nat := s.holdTime

/-! ### protocol-level sends (always through FSM.protocol) -/

def bumpSent (c : Conn) (f : Stats → Stats) : Conn := { c with sent := f c.sent }
def bumpRecv (c : Conn) (f : Stats → Stats) : Conn := { c with recv := f c.recv }

def transportUp (c : Conn) : Bool := c.phase = .connected ∨ c.phase = .closing

/-- transport.write on connection `i` (ignored when the transport is no longer connected) -/
def writeOn (s : Sess) (i : Nat) (b : Bytes) : Sess :=
  if transportUp (s.conn i) then s.emit (.write i b) else s

def sendNotification (s : Sess) (err sub : Nat) (data : Bytes) : Sess :=
  match s.proto with
  | none => s.emit .escaped
  | some i =>
    let s1 := s.setConn i (bumpSent (s.conn i) fun st => { st with notifications := st.notifications + 1 })
    match constructNotification err sub data with
    | some w => s1.writeOn i w
    | none => s1.emit .escaped

def sendKeepalive (s : Sess) : Sess :=
  match s.proto with
  | none => s.emit .escaped
  | some i =>
    (s.setConn i (bumpSent (s.conn i) fun st => { st with keepalives := st.keepalives + 1 })).writeOn i constructKeepalive

def remoteNonEmpty (r : CapaDict) : Bool :=
  r.fourBytesAs || r.afiSafi.isSome || r.routeRefresh || r.ciscoRouteRefresh || r.gracefulRestart ||
  r.ciscoMultiSession || r.enhancedRouteRefresh || r.addPath.isSome || r.llgr.isSome || r.extNexthop.isSome ||
  !r.unknown.isEmpty

/-- capability_negotiate: local capabilities the last peer OPEN lacked are popped (global, permanent) -/
def negotiateCaps (l : LocalCaps) (r : CapaDict) : LocalCaps :=
  if remoteNonEmpty r then
    { afiSafi := if r.afiSafi.isSome then l.afiSafi else none
      ciscoRouteRefresh := l.ciscoRouteRefresh && r.ciscoRouteRefresh
      routeRefresh := l.routeRefresh && r.routeRefresh
      fourBytesAs := l.fourBytesAs && r.fourBytesAs
      extNexthop := if r.extNexthop.isSome then l.extNexthop else none
      addPath := if r.addPath.isSome then l.addPath else none
      enhancedRouteRefresh := l.enhancedRouteRefresh && r.enhancedRouteRefresh
      gracefulRestart := l.gracefulRestart && r.gracefulRestart
      ciscoMultiSession := l.ciscoMultiSession && r.ciscoMultiSession }
  else l

/-- BGP.send_open on FSM.protocol; the Bool is false when an exception leaves send_open before anything
    was written (capability_negotiate has already run by then) -/
def sendOpen (s : Sess) : Sess × Bool :=
  match s.proto with
  | none => (s, false)
  | some i =>
    match constructOpen 4 s.cfg.localAs s.cfg.holdCfg (s.bgpId.getD 0) (negotiateCaps s.localCaps s.remote) with
    | none => ({ s with localCaps := negotiateCaps s.localCaps s.remote }, false)
    | some w =>
      (((({ s with localCaps := negotiateCaps s.localCaps s.remote }).writeOn i w).setConn i
          (bumpSent ((({ s with localCaps := negotiateCaps s.localCaps s.remote }).writeOn i w).conn i)
            fun st => { st with opens := st.opens + 1 })).emit
          (.hSendOpen i s.cfg.localAs s.cfg.holdCfg (s.bgpId.getD 0)), true)

/-! ### FSM helpers -/

/-- FSM._close_connection -/
def closeConn (s : Sess) : Sess :=
  match s.proto with
  | none => s
  | some i =>
    let c := s.conn i
    let s1 :=
      if c.phase = .connected then (s.setConn i { c with phase := .closing, disconnected := true }).emit (.lose i)
      else if c.phase = .closing then s.setConn i { c with disconnected := true }
      else s
    { s1 with retryCounter := 0 }

/-- FSM._error_close -/
def errorClose (s : Sess) : Sess :=
  let s1 := { s with tm := { retry := none, hold := none, keepalive := none,
                             idleHold := some (s.now + 3 * s.cfg.idleHoldT) } }
  let s2 := s1.closeConn
  ({ s2 with retryCounter := s2.retryCounter + 1 }).setSt .idle

/-- BGPPeering.connect -/
def connectTcp (s : Sess) : Sess :=
  if s.st ≠ .established then
    ({ s with conns := s.conns ++ [({} : Conn)] }).emit (.connect s.conns.length)
  else s

/-- BGPPeering.automatic_start(idle_hold) (with FSM.automatic_start inlined) -/
def autoStart (s : Sess) (idleHold : Bool) : Sess :=
  if s.st = .idle then
    if idleHold then { s with tm := { s.tm with idleHold := some (s.now + 3 * s.cfg.idleHoldT) } }
    else if s.allowAuto then
      (({ s with retryCounter := s.retryCounter + 1,
                 tm := { s.tm with retry := some (s.now + 3 * s.cfg.retryT) } }).setSt .connect).connectTcp
    else s
  else s

/-- BGPPeering.connection_closed(pro) -/
def connectionClosed (s : Sess) (pro : Option Nat) : Sess :=
  let s1 :=
    match pro with
    | some p => if s.estab = some p then ({ s with estab := none }).setSt .idle else s
    | none => s
  if s1.allowAuto then s1.autoStart true else s1

/-- FSM.connection_failed -/
def connectionFailed (s : Sess) : Sess :=
  match s.st with
  | .connect =>
      let s1 := ({ s with tm := { s.tm with retry := none } }).closeConn
      (s1.setSt .idle).connectionClosed s1.proto
  | .active =>
      ({ s with tm := { s.tm with retry := some (s.now + 3 * s.cfg.retryT) } }).setSt .idle
  | .openSent =>
      let s1 := s.closeConn
      let s2 := ({ s1 with tm := { s1.tm with retry := some (s1.now + 3 * s1.cfg.retryT) } }).setSt .active
      s2.connectionClosed s2.proto
  | .openConfirm => s.errorClose
  | .established => s.errorClose
  | .idle => s

/-! ### operator events -/

def manualStart (s : Sess) : Sess :=
  match s.st with
  | .established => s.emit (.retStart 2)
  | .idle =>
      ((({ s with allowAuto := true, tm := { s.tm with retry := some (s.now + 3 * s.cfg.retryT) } }).setSt .connect).connectTcp).emit (.retStart 1)
  | _ => s.emit (.retStart 0)

def manualStop (s : Sess) : Sess :=
  let s1 := if s.st = .established then s.sendNotification C.errCease 0 [] else s
  let s2 := ({ s1 with tm := {} }).closeConn
  (({ s2 with retryCounter := 0, allowAuto := false }).setSt .idle).emit .retStop

/-! ### connection events -/

/-- a pending connectTCP succeeded: buildProtocol, makeConnection, connectionMade -/
def connOk (s : Sess) (i : Nat) : Sess :=
  let s1 := (s.setConn i { (s.conn i) with phase := .connected })
  let s2 := ({ s1 with proto := some i, estab := some i }).setSt .connect
  let s3 := { s2 with bgpId := some (s2.bgpId.getD s2.cfg.localId) }
  -- FSM.connection_made
  let s4 := { s3 with tm := { s3.tm with retry := none, idleHold := none } }
  if s4.sendOpen.2 then
    ({ s4.sendOpen.1 with tm := { s4.sendOpen.1.tm with hold := some (s4.now + 3 * C.largeHoldTime) } }).setSt .openSent
  else s4.sendOpen.1                             -- exception caught and logged by connectionMade

/-- a pending connectTCP failed (refused, timed out) -/
def connFail (s : Sess) (i : Nat) : Sess :=
  ((s.setConn i { (s.conn i) with phase := .closed }).emit .hConnFailed).connectionFailed

/-- connectionLost delivered for connection `i` (peer closed, or our close completed) -/
def connLost (s : Sess) (i : Nat) : Sess :=
  let s1 := (s.setConn i { (s.conn i) with phase := .closed }).emit (.hConnLost i)
  if (s.conn i).disconnected then s1.connectionClosed (some i) else s1.connectionFailed

/-! ### timer events -/

def fireRetry (s : Sess) : Sess :=
  let s0 := { s with tm := { s.tm with retry := none } }
  match s0.st with
  | .connect | .active =>
      let s1 := s0.closeConn
      ({ s1 with tm := { s1.tm with retry := some (s1.now + 3 * s1.cfg.retryT) } }).connectTcp
  | .idle => s0
  | _ => (s0.sendNotification C.errFsm 0 []).errorClose

def fireHold (s : Sess) : Sess :=
  let s0 := { s with tm := { s.tm with hold := none } }
  match s0.st with
  | .openSent | .openConfirm | .established =>
      let s1 := s0.sendNotification C.errHold 0 []
      (({ s1 with tm := { s1.tm with retry := none } }).errorClose).setSt .idle
  | .connect | .active => s0.errorClose
  | .idle => s0

def fireKeepalive (s : Sess) : Sess :=
  let s0 := { s with tm := { s.tm with keepalive := none } }
  match s0.st with
  | .openConfirm | .established =>
      let s1 := s0.sendKeepalive
      if s1.holdTime > 0 then { s1 with tm := { s1.tm with keepalive := some (s1.now + s1.kaTicks) } } else s1
  | .connect | .active => s0.errorClose
  | _ => s0

def fireIdleHold (s : Sess) : Sess :=
  let s0 := { s with tm := { s.tm with idleHold := none } }
  if s0.st = .idle then s0.autoStart false else s0

/-! ### FSM message events -/

def headerError (s : Sess) (sub : Nat) (data : Bytes) : Sess :=
  (s.sendNotification C.errHdr sub data).errorClose

def openMessageError (s : Sess) (sub : Nat) : Sess :=
  (s.sendNotification C.errOpen sub []).errorClose

def fsmOpenReceived (s : Sess) : Sess :=
  match s.st with
  | .connect | .active => s.errorClose
  | .openSent =>
      let s1 := ({ s with tm := { s.tm with retry := none } }).sendKeepalive
      let s2 :=
        if s1.holdTime > 0 then
          { s1 with tm := { s1.tm with keepalive := some (s1.now + s1.kaTicks), hold := some (s1.now + s1.holdTicks) } }
        else { s1 with tm := { s1.tm with keepalive := none, hold := none } }
      s2.setSt .openConfirm
  | .openConfirm => s
  | .established => (s.sendNotification C.errFsm 0 []).errorClose
  | .idle => s

def fsmKeepaliveReceived (s : Sess) : Sess :=
  match s.st with
  | .openConfirm =>
      (if s.holdTime ≠ 0 then { s with tm := { s.tm with hold := some (s.now + s.holdTicks) } } else s).setSt .established
  | .established =>
      if s.holdTime ≠ 0 then { s with tm := { s.tm with hold := some (s.now + s.holdTicks) } } else s
  | .connect | .active => s.errorClose
  | .openSent => (s.sendNotification C.errFsm 0 []).errorClose
  | .idle => s

def fsmUpdateReceived (s : Sess) : Sess :=
  match s.st with
  | .established =>
      if s.holdTime ≠ 0 then { s with tm := { s.tm with hold := some (s.now + s.holdTicks) } } else s
  | .connect | .active => s.errorClose
  | .openSent | .openConfirm => (s.sendNotification C.errFsm 0 []).errorClose
  | .idle => s

def fsmNotificationReceived (s : Sess) (err sub : Nat) : Sess :=
  if err = C.errOpen ∧ sub = 1 then
    match s.st with
    | .openSent | .openConfirm => (({ s with tm := { s.tm with retry := none } }).closeConn).setSt .idle
    | .connect | .active => s.errorClose
    | .established => s.errorClose
    | .idle => s
  else if s.st ≠ .idle then s.errorClose else s

/-! ### BGP.parse_buffer: one iteration on connection `i` -/

/-- BGP._open_received; the Bool is the value parse_buffer returns (True = continue) -/
def openReceived (s : Sess) (i : Nat) (body : Bytes) : Sess × Bool :=
  let s1 := s.setConn i (bumpRecv (s.conn i) fun st => { st with opens := st.opens + 1 })
  match parseOpen body with
  | .error (.hdr sub) => (s1.headerError sub [], false)
  | .error (.open sub) => (s1.openMessageError sub, false)
  | .error .other => (s1, true)                            -- outer catch-all: logged, message skipped
  | .ok m =>
    if s1.cfg.remoteAs ≠ m.asn then (s1.openMessageError C.openBadPeerAs, false)
    else
      let s2 := { s1 with remote := m.caps }
      let s3 :=
        if m.caps.fourBytesAs ∧ (s2.cfg.localAs > 65535 ∨ s2.localCaps.fourBytesAs) then
          s2.setConn i { (s2.conn i) with asn4 := true }
        else s2
      if m.holdTime ≠ 0 ∧ m.holdTime < 3 then (s3.openMessageError C.openBadHold, false)
      else
        let s4 := { s3 with holdTime := min s3.cfg.holdCfg m.holdTime }
        ((s4.fsmOpenReceived).emit (.hOpen i m), true)

/-- the dispatch part of parse_buffer for a complete frame of type `ty` with body `body` -/
def dispatch (U : Bool → Bytes → UpdClass) (s : Sess) (i : Nat) (ty : Nat) (body : Bytes) : Sess × Bool :=
  if ty = C.msgOpen then openReceived s i body
  else if ty = C.msgUpdate then
    match U (s.conn i).asn4 body with
    | .raises => (s, true)
    | .unmodelled => (s.emit .unmodelled, true)
    | .malformed =>
        let s1 := s.emit (.hUpdateError i body)
        let s2 := s1.setConn i (bumpRecv (s1.conn i) fun st => { st with updates := st.updates + 1 })
        (s2.fsmUpdateReceived, true)
    | .good =>
        let s1 := s.emit (.hUpdate i (s.conn i).asn4 body)
        let s2 := s1.setConn i (bumpRecv (s1.conn i) fun st => { st with updates := st.updates + 1 })
        (s2.fsmUpdateReceived, true)
  else if ty = C.msgNotification then
    match parseNotification body with
    | none => (s, true)
    | some (e, sub, d) =>
        let s1 := s.setConn i (bumpRecv (s.conn i) fun st => { st with notifications := st.notifications + 1 })
        ((s1.emit (.hNotification i d)).fsmNotificationReceived e sub, true)
  else if ty = C.msgKeepalive then
    let s1 := s.setConn i (bumpRecv (s.conn i) fun st => { st with keepalives := st.keepalives + 1 })
    let s2 := s1.emit (.hKeepalive i)
    if body = [] then (s2.fsmKeepaliveReceived, true)
    else (s2.headerError C.hdrBadLen [], false)
  else if ty = C.msgRouteRefresh ∨ ty = C.msgCiscoRouteRefresh then
    match parseRouteRefresh body with
    | none => (s, true)
    | some (a, r, sf) =>
        let s1 := s.setConn i (bumpRecv (s.conn i) fun st => { st with routeRefresh := st.routeRefresh + 1 })
        (s1.emit (.hRouteRefresh i a r sf ty), true)
  else (s.headerError C.hdrBadType (be16 ty), true)

/-- what parse_buffer sees at the head of the receive buffer -/
inductive Head
  | short                                  -- fewer than 19 octets, or the announced length not there yet
  | badMarker
  | badLength (len : Nat)
  | frame (ty : Nat) (body : Bytes) (len : Nat)
  deriving DecidableEq, Repr

def frameLen (buf : Bytes) : Nat := (buf.getD 16 0).toNat * 256 + (buf.getD 17 0).toNat

def headOf (buf : Bytes) : Head :=
  if buf.length < C.hdrLen then .short
  else if buf.take 16 ≠ marker then .badMarker
  else if frameLen buf < C.hdrLen ∨ frameLen buf > C.maxLen then .badLength (frameLen buf)
  else if buf.length < frameLen buf then .short
  else .frame (buf.getD 18 0).toNat ((buf.take (frameLen buf)).drop C.hdrLen) (frameLen buf)

/-- one call of parse_buffer on connection `i`; the Bool is its return value -/
def parseBuffer (U : Bool → Bytes → UpdClass) (s : Sess) (i : Nat) : Sess × Bool :=
  if (s.conn i).disconnected then (s, false)
  else
    match headOf (s.conn i).buf with
    | .short => (s, false)
    | .badMarker => (s.headerError C.hdrNotSync [], false)
    | .badLength len => (s.headerError C.hdrBadLen (be16 len), false)
    | .frame ty body len =>
      let r := dispatch U s i ty body
      if r.2 then
        (r.1.setConn i { (r.1.conn i) with buf := (r.1.conn i).buf.drop len }, true)
      else (r.1, false)

/-- `while self.parse_buffer(): pass` — fuel is the buffer length: every True iteration drops ≥ 19 octets
    (Props/C04 proves that the fuel is never exhausted) -/
def drain (U : Bool → Bytes → UpdClass) : Nat → Sess → Nat → Sess
  | 0, s, _ => s
  | fuel+1, s, i =>
    let r := parseBuffer U s i
    if r.2 then drain U fuel r.1 i else r.1

/-- BGP.dataReceived on connection `i` -/
def dataReceived (U : Bool → Bytes → UpdClass) (s : Sess) (i : Nat) (data : Bytes) : Sess :=
  let s1 := s.setConn i { (s.conn i) with buf := (s.conn i).buf ++ data }
  drain U ((s1.conn i).buf.length / 19 + 1) s1 i

end Sess

/-! ### events -/

inductive TimerId | retry | hold | keepalive | idleHold
  deriving DecidableEq, Repr

inductive Ev
  | boot                        -- reactor.callLater(..., bgp_peering.automatic_start)
  | manualStart | manualStop
  | connOk (c : Nat) | connFail (c : Nat)
  | chunk (c : Nat) (data : Bytes)
  | lost (c : Nat)
  | advance (dt : Nat)
  | fire (t : TimerId)
  deriving DecidableEq, Repr

def timerOf (tm : Timers) : TimerId → Option Nat
  | .retry => tm.retry | .hold => tm.hold | .keepalive => tm.keepalive | .idleHold => tm.idleHold

def allTimers (tm : Timers) : List Nat :=
  tm.retry.toList ++ tm.hold.toList ++ tm.keepalive.toList ++ tm.idleHold.toList

/-- which events the environment can produce in state `s` -/
def enabled (s : Sess) : Ev → Bool
  | .boot => true
  | .manualStart => true
  | .manualStop => true
  | .connOk c => c < s.conns.length ∧ (s.conn c).phase = .connecting
  | .connFail c => c < s.conns.length ∧ (s.conn c).phase = .connecting
  | .chunk c _ => c < s.conns.length ∧ (s.conn c).phase = .connected
  | .lost c => c < s.conns.length ∧ ((s.conn c).phase = .connected ∨ (s.conn c).phase = .closing)
  | .advance dt => 0 < dt ∧ (allTimers s.tm).all (fun d => s.now + dt ≤ d)
  | .fire t => match timerOf s.tm t with
               | some d => d ≤ s.now
               | none => false

def step (U : Bool → Bytes → UpdClass) (s : Sess) (e : Ev) : Sess :=
  let s0 := { s with outs := [] }
  match e with
  | .boot => s0.autoStart false
  | .manualStart => s0.manualStart
  | .manualStop => s0.manualStop
  | .connOk c => s0.connOk c
  | .connFail c => s0.connFail c
  | .chunk c d => s0.dataReceived U c d
  | .lost c => s0.connLost c
  | .advance dt => { s0 with now := s0.now + dt }
  | .fire .retry => s0.fireRetry
  | .fire .hold => s0.fireHold
  | .fire .keepalive => s0.fireKeepalive
  | .fire .idleHold => s0.fireIdleHold

def run (U : Bool → Bytes → UpdClass) (s : Sess) : List Ev → Sess
  | [] => s
  | e :: es => run U (step U s e) es

end Yabgp
