/-
  Model of the PMSI tunnel attribute DECODER (RFC 6514 §5), transcribed from
    yabgp/message/attribute/pmsitunnel.py  PMSITunnel.parse / parse_mpls_label / parse_vni / parse_tunnel_id
  as the code is:
    flag        = ord(value[0:1])                      TypeError on an empty slice
    tunnel_type = ord(value[1:2])                      TypeError on an empty slice
    label       = unpack('!L', b'\0' + value[2:5])     struct.error unless 3 octets are there;  `>> 4` unless EVPN overlay
    tunnel_id   = None                                 tunnel type 0
                | str(IPAddress(int(b2a_hex(value[5:]), 16)))   tunnel type 6: ValueError on no octets, the family is
                                                       guessed from the magnitude, AddrFormatError from 2^128 on -
                                                       the LENGTH of the field is never looked at
                | 'not supported'                      every other type
  `none` = the decoder raises (every such exception is caught by `Update.parse_attributes` and reported as
  malformed attribute list); no loop anywhere: the decoder is straight-line code.
-/
import Yabgp.Model.Mp.Common

namespace Yabgp.Pmsi
open Yabgp.Mp

inductive TunnelId
  | absent                 -- Python `None`
  | ip (a : Ip)
  | notSupported           -- the text 'not supported'
  deriving DecidableEq, Repr

structure Val where
  leaf : Nat
  ttype : Nat
  label : Nat
  tid : TunnelId
  deriving DecidableEq, Repr

/-- `PMSITunnel.parse_tunnel_id(tunel_type, tunel_data)` -/
def parseTunnelId (t : Nat) (d : Bytes) : Option TunnelId :=
  if t = 0 then some .absent
  else if t = 6 then
    match intOfBytes d with
    | none => none
    | some n => (ipOfInt n).map .ip
  else some .notSupported

/-- `parse_mpls_label` (`evpn = false`) / `parse_vni` (`evpn = true`) on the three label octets -/
def labelOf (evpn : Bool) (a b c : UInt8) : Nat :=
  if evpn then a.toNat * 65536 + b.toNat * 256 + c.toNat else (a.toNat * 65536 + b.toNat * 256 + c.toNat) / 16

/-- `PMSITunnel.parse(value, evpn_overlay)` -/
def parse (evpn : Bool) (v : Bytes) : Option Val :=
  match v with
  | f :: t :: a :: b :: c :: d =>
    match parseTunnelId t.toNat d with
    | some tid => some ⟨f.toNat, t.toNat, labelOf evpn a b c, tid⟩
    | none => none
  | _ => none

end Yabgp.Pmsi
