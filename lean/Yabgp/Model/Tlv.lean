/-
  Parametric model of the TLV container loops of yabgp/message/attribute (BGP-LS NLRI, BGP-LS attribute,
  BGP Prefix-SID and their nested sub-TLV loops), as they are in the code (DESIGN §5 C11 / C15).

  Every one of these loops has the same skeleton

      while data:                                  -- stops on the empty string
          <read a header of `hdr` octets>          -- struct.unpack on a slice: raises when fewer than hdr octets are left
          value = data[hdr : hdr + length]         -- a slice: silently TRUNCATED when the length runs past the end
          <decode the body: may raise / may skip>  -- per-TLV body decoder, dispatched on the header
          data = data[hdr + length :]              -- always advances by at least hdr >= 2 octets

  and differs only in the header layout (`Shape`) and in the body decoder.  The model is parametric in the body
  decoder `body : header → value → Except ε (Option α)` (`none` = the loop `continue`s without an element, as
  BGPLS.parse does for unknown NLRI types).  The body sees the whole header, not only the type code, because
  BGPLS.parse_node_descriptor tests the length FIELD (not len(value)) and SRCapabilities reads a range size from it;
  `byType` adapts a decoder `Nat → Bytes → …` that looks at the type code only.

  No fuel anywhere: `tlvRun` is defined by well-founded recursion on the number of octets left, so Lean accepting
  the definition is the termination proof of the loop shape; `Run.steps` counts the iterations.

  Import-free apart from Base/Bytes.
-/
import Yabgp.Base.Bytes

namespace Yabgp.Tlv
open Yabgp

/-- layout of a TLV header: its size, and how the type code and the length field are read from its octets -/
structure Shape where
  hdr : Nat
  hpos : 0 < hdr
  typ : Bytes → Nat
  len : Bytes → Nat

/-- why a loop stopped -/
inductive Stop (ε : Type) where
  /-- `while data:` saw the empty string: normal end -/
  | done
  /-- 1 ≤ octets left < header size: `struct.unpack` raises `struct.error` (the argument is what was left) -/
  | short (rest : Bytes)
  /-- the body decoder raised on the TLV with this header and (possibly truncated) value -/
  | fail (h v : Bytes) (e : ε)
  deriving Repr, DecidableEq

/-- the observable run of a loop: elements appended so far, why it stopped, iterations started -/
structure Run (α ε : Type) where
  vals : List α
  stop : Stop ε
  steps : Nat
  deriving Repr, DecidableEq

/-- one more successful iteration in front of a run -/
def Run.push {α ε : Type} (x : Option α) (r : Run α ε) : Run α ε :=
  { vals := x.toList ++ r.vals, stop := r.stop, steps := r.steps + 1 }

/-- `data[:hdr]` -/
def hdrOf (sh : Shape) (b : Bytes) : Bytes := b.take sh.hdr
/-- `data[hdr : hdr + length]` (Python slice: truncated when the length field runs past the end) -/
def valOf (sh : Shape) (b : Bytes) : Bytes := slice b sh.hdr (sh.hdr + sh.len (hdrOf sh b))
/-- `data[hdr + length :]` -/
def restOf (sh : Shape) (b : Bytes) : Bytes := b.drop (sh.hdr + sh.len (hdrOf sh b))

theorem restOf_lt (sh : Shape) (b : Bytes) (hb : b ≠ []) : (restOf sh b).length < b.length := by
  have hp := sh.hpos
  have : 0 < b.length := List.length_pos_iff.mpr hb
  simp only [restOf, List.length_drop]
  omega

set_option linter.unusedVariables false in
/-- THE LOOP.  `ε` = what a raising body decoder leaves behind, `α` = element type. -/
def tlvRun {α ε : Type} (sh : Shape) (body : Bytes → Bytes → Except ε (Option α)) (b : Bytes) : Run α ε :=
  if hb : b = [] then { vals := [], stop := .done, steps := 0 }
  else if b.length < sh.hdr then { vals := [], stop := .short b, steps := 1 }
  else
    match body (hdrOf sh b) (valOf sh b) with
    | .error e => { vals := [], stop := .fail (hdrOf sh b) (valOf sh b) e, steps := 1 }
    | .ok x => (tlvRun sh body (restOf sh b)).push x
termination_by b.length
decreasing_by exact restOf_lt sh b hb

/-- the SPLIT of a byte string by a loop shape: the (header, value) pairs the loop visits, whether it ends
    normally or on a short header, and the number of iterations - the run with a body that never fails -/
def tlvSplit (sh : Shape) (b : Bytes) : Run (Bytes × Bytes) Unit :=
  tlvRun sh (fun h v => .ok (some (h, v))) b

/-- iterations started by the last, unsuccessful pass through the loop head: none at a normal end -/
def stopSteps {ε : Type} : Stop ε → Nat
  | .done => 0
  | _ => 1

/-- map a body decoder over a split, stopping at the first TLV it raises on (what the harness does with the
    REAL per-TLV decoders; `tlvRun_eq_walk` in Lemmas/TlvLemmas shows this is the loop) -/
def walk {α ε : Type} (body : Bytes → Bytes → Except ε (Option α)) :
    List (Bytes × Bytes) → Stop ε → Run α ε
  | [], tail => { vals := [], stop := tail, steps := stopSteps tail }
  | (h, v) :: r, tail =>
    match body h v with
    | .error e => { vals := [], stop := .fail h v e, steps := 1 }
    | .ok x => (walk body r tail).push x

/-- the stop reason of a split carried to another error type (a split never `fail`s) -/
def Stop.cast {ε : Type} : Stop Unit → Stop ε
  | .done => .done
  | .short r => .short r
  | .fail _ _ _ => .done

/-- a body decoder that only looks at the type code -/
def byType {α ε : Type} (sh : Shape) (f : Nat → Bytes → Except ε (Option α)) : Bytes → Bytes → Except ε (Option α) :=
  fun h v => f (sh.typ h) v

/-! ### the header layouts that occur -/

/-- 2-octet type, 2-octet length: `struct.unpack('!HH', data[:4])` (BGP-LS NLRI, descriptors, attribute TLVs) -/
def tlv22 : Shape :=
  { hdr := 4, hpos := by decide,
    typ := fun h => beVal (h.take 2), len := fun h => beVal ((h.drop 2).take 2) }

/-- 1-octet type, 2-octet length: `data[0]`, `struct.unpack('!H', data[1:3])` (Prefix-SID and SRv6 service TLVs) -/
def tlv12 : Shape :=
  { hdr := 3, hpos := by decide,
    typ := fun h => beVal (h.take 1), len := fun h => beVal ((h.drop 1).take 2) }

/-- SR capabilities / SRLB range entries: 3-octet range size, 2-octet sub-TLV type (never looked at), 2-octet
    sub-TLV length at `value[5:7]`, advance `7 + length`.  "Type" = the five octets in front of the length. -/
def srRange : Shape :=
  { hdr := 7, hpos := by decide,
    typ := fun h => beVal (h.take 5), len := fun h => beVal ((h.drop 5).take 2) }

/-- fixed-stride lists (`while value: unpack(value[:k]); value = value[k:]`, and
    `for i in range(0, len(data), k): unpack(data[i:i+k])`): a TLV loop whose "header" is the element and whose
    length is 0; a tail shorter than the stride makes `struct.unpack` raise -/
def stride (k : Nat) (hk : 0 < k) : Shape :=
  { hdr := k, hpos := hk, typ := beVal, len := fun _ => 0 }

/-- header encoders (for statements about well-formed inputs and for the non-vacuity examples) -/
def hdr22 (t l : Nat) : Bytes := be16 t ++ be16 l
def hdr12 (t l : Nat) : Bytes := be8 t ++ be16 l
def hdrSr (range ty l : Nat) : Bytes := be24 range ++ be16 ty ++ be16 l

/-! ### the instances: which loop of the code is which shape after which preamble

  `skip` = octets in front of the first TLV that the enclosing decoder consumes itself (`data = data[k:]`, a
  slice: shorter inputs give the empty string and zero iterations; the preamble reads themselves may raise before
  the loop is reached - that is part of the enclosing body decoder, not of the loop).  -/

structure Instance where
  name : String
  shape : Shape
  skip : Nat

/-- BGPLS.parse: the NLRI list of MP_REACH / MP_UNREACH (16388, 71).  Unknown NLRI type: `continue` (no element). -/
def instNlri : Instance := { name := "bgpls.nlri", shape := tlv22, skip := 0 }
/-- BGPLS.parse_nlri: descriptors after protocol-id (1) and identifier (8) -/
def instNlriDesc : Instance := { name := "bgpls.descriptors", shape := tlv22, skip := 9 }
/-- BGPLS.parse_node_descriptor: sub-TLVs of a local/remote node descriptor; result is a dict (later keys win) -/
def instNodeDesc : Instance := { name := "bgpls.node_descriptor", shape := tlv22, skip := 0 }
/-- BGPLS.parse_nlri, descriptor 263: multi-topology ids, stride 2 -/
def instMtId : Instance := { name := "bgpls.mt_id", shape := stride 2 (by decide), skip := 0 }
/-- LinkState.unpack: the BGP-LS attribute (type 29) -/
def instLsAttr : Instance := { name := "ls.attr", shape := tlv22, skip := 0 }
/-- SRv6EndXSID.unpack (1106): sub-TLVs after 22 octets -/
def instEndX : Instance := { name := "ls.srv6_end_x_sid", shape := tlv22, skip := 22 }
/-- SRv6LANEndXSID.unpack (1107/1108): sub-TLVs after 6+6+16 (IS-IS) or 6+4+16 (OSPFv3) octets -/
def instLanEndXIsis : Instance := { name := "ls.srv6_lan_end_x_sid.isis", shape := tlv22, skip := 28 }
def instLanEndXOspf : Instance := { name := "ls.srv6_lan_end_x_sid.ospf", shape := tlv22, skip := 26 }
/-- SRv6Locator.unpack (1162): sub-TLVs after 8 octets -/
def instLocator : Instance := { name := "ls.srv6_locator", shape := tlv22, skip := 8 }
/-- SRCapabilities.unpack (1034) / SRLB.unpack (1036): range entries after flags + reserved -/
def instSrCap : Instance := { name := "ls.sr_capabilities", shape := srRange, skip := 2 }
def instSrlb : Instance := { name := "ls.srlb", shape := srRange, skip := 2 }
/-- fixed-stride TLV bodies of the BGP-LS attribute -/
def instSrlg : Instance := { name := "ls.srlg", shape := stride 4 (by decide), skip := 0 }
def instIgpTag : Instance := { name := "ls.igp_route_tag", shape := stride 4 (by decide), skip := 0 }
def instExtIgpTag : Instance := { name := "ls.ext_igp_route_tag", shape := stride 8 (by decide), skip := 0 }
def instNodeMsd : Instance := { name := "ls.node_msd", shape := stride 2 (by decide), skip := 0 }
/-- BGPPrefixSID.unpack: the BGP Prefix-SID attribute (type 40) -/
def instPrefixSid : Instance := { name := "psid.attr", shape := tlv12, skip := 0 }
/-- SRv6L3Service.unpack (TLV 5): sub-TLVs after one reserved octet -/
def instL3Service : Instance := { name := "psid.srv6_l3_service", shape := tlv12, skip := 1 }
/-- SRv6SIDInformation.unpack (sub-TLV 1): sub-sub-TLVs after 21 octets -/
def instSidInfo : Instance := { name := "psid.srv6_sid_information", shape := tlv12, skip := 21 }

def instances : List Instance :=
  [instNlri, instNlriDesc, instNodeDesc, instMtId, instLsAttr, instEndX, instLanEndXIsis, instLanEndXOspf,
   instLocator, instSrCap, instSrlb, instSrlg, instIgpTag, instExtIgpTag, instNodeMsd, instPrefixSid,
   instL3Service, instSidInfo]

/-- the run of an instance on the bytes handed to the enclosing decoder -/
def Instance.run {α ε : Type} (i : Instance) (body : Bytes → Bytes → Except ε (Option α)) (data : Bytes) : Run α ε :=
  tlvRun i.shape body (data.drop i.skip)

def Instance.split (i : Instance) (data : Bytes) : Run (Bytes × Bytes) Unit :=
  tlvSplit i.shape (data.drop i.skip)

/-! ### dispatch of the BGP-LS attribute loop (LinkState.unpack) -/

/-- the literal list in `LinkState.unpack`: TLV types whose decoder is also given the protocol id of the NLRI -/
def lsSpecial : List Nat := [1099, 1100, 1158, 1162, 1038]

/-- `LinkState.registered_tlvs.keys()` (tied to the source by Props/C11b `gen_ls_registry`) -/
def lsRegistered : List Nat :=
  [258, 266, 267, 1024, 1025, 1026, 1027, 1028, 1029, 1030, 1031, 1034, 1035, 1036, 1038, 1050, 1088, 1089, 1090,
   1091, 1092, 1093, 1094, 1095, 1096, 1097, 1098, 1099, 1100, 1101, 1102, 1103, 1106, 1107, 1108, 1110, 1114, 1115,
   1116, 1117, 1118, 1119, 1120, 1152, 1153, 1154, 1155, 1156, 1158, 1161, 1162, 1170, 1171, 1173, 1250, 1251, 1252]

/-- registered classes whose `unpack` takes the protocol id as a second argument -/
def lsTwoArg : List Nat := [1038, 1099, 1100, 1107, 1108, 1158, 1162]
/-- registered classes without an `unpack` method at all (OspfForwardingAddr defines `parse`) -/
def lsNoUnpack : List Nat := [1156]

/-- how `LinkState.unpack` calls the decoder of a TLV type -/
inductive LsCall where
  /-- `registered_tlvs[t].unpack(value, bgpls_pro_id)` -/
  | withPro
  /-- `registered_tlvs[t].unpack(value)` -/
  | plain
  /-- `{'type': t, 'value': str(b2a_hex(value))}` -/
  | unknown
  deriving Repr, DecidableEq

def lsCall (registered : List Nat) (t : Nat) : LsCall :=
  if t ∈ lsSpecial ∧ t ∈ registered then .withPro
  else if t ∈ registered then .plain
  else .unknown

/-- the nested loops of 1106 / 1107 / 1108 / 1162 dispatch on the same registry but always call `unpack(value)` -/
def lsSubCall (registered : List Nat) (t : Nat) : LsCall :=
  if t ∈ registered then .plain else .unknown

/-- the body decoder of the attribute loop, from the decoders of the registered classes: `plain t v`,
    `withPro t v pro` (pro = `bgpls_pro_id`, `none` = Python None) and the rendering of an unknown TLV -/
def lsBody {α ε : Type} (registered : List Nat) (pro : Option Nat)
    (plain : Nat → Bytes → Except ε α) (withPro : Nat → Bytes → Option Nat → Except ε α)
    (unknown : Nat → Bytes → α) : Bytes → Bytes → Except ε (Option α) :=
  fun h v =>
    match lsCall registered (tlv22.typ h) with
    | .withPro => (withPro (tlv22.typ h) v pro).map some
    | .plain => (plain (tlv22.typ h) v).map some
    | .unknown => .ok (some (unknown (tlv22.typ h) v))

/-- `LinkState.unpack(data, bgpls_pro_id)`: `.done` = `cls(value=tlvs)`; `.fail _ v _` =
    UpdateMessageError(sub_error = 1, data = v, sub_results = cls(value = tlvs so far)) (the try/except around
    the dispatch); `.short` = struct.error from the header read, which is OUTSIDE that try -/
def lsUnpack {α ε : Type} (registered : List Nat) (pro : Option Nat)
    (plain : Nat → Bytes → Except ε α) (withPro : Nat → Bytes → Option Nat → Except ε α)
    (unknown : Nat → Bytes → α) (data : Bytes) : Run α ε :=
  tlvRun tlv22 (lsBody registered pro plain withPro unknown) data

/-- BGPLS.parse: known NLRI types 1, 2, 3, 4, 6 go to parse_nlri; everything else is skipped -/
def nlriKnown : List Nat := [1, 2, 3, 4, 6]

def nlriBody {α ε : Type} (parseNlri : Nat → Bytes → Except ε α) : Bytes → Bytes → Except ε (Option α) :=
  fun h v => if tlv22.typ h ∈ nlriKnown then (parseNlri (tlv22.typ h) v).map some else .ok none

/-- the generic registry dispatch of BGPPrefixSID / SRv6L3Service / SRv6SIDInformation (no try/except) -/
def regBody {α ε : Type} (sh : Shape) (registered : List Nat) (dec : Nat → Bytes → Except ε α)
    (unknown : Nat → Bytes → α) : Bytes → Bytes → Except ε (Option α) :=
  fun h v => if sh.typ h ∈ registered then (dec (sh.typ h) v).map some else .ok (some (unknown (sh.typ h) v))

def prefixSidRegistered : List Nat := [5]
def l3ServiceRegistered : List Nat := [1]
def sidInformationRegistered : List Nat := [1]

/-! ### Python dict semantics of parse_node_descriptor (`return_data[key] = ...` in loop order) -/

/-- value under `k` after assigning the pairs in order: the LAST assignment wins -/
def pyGet {κ β : Type} [DecidableEq κ] (k : κ) : List (κ × β) → Option β
  | [] => none
  | (k', v) :: r => match pyGet k r with
    | some w => some w
    | none => if k' = k then some v else none

/-! ### total number of loop iterations over ALL nesting levels of the BGP-LS attribute

  A registered sub-TLV decoder that itself runs a TLV loop over part of its value (only 1106 can be reached
  through the one-argument nested call; it can contain itself) recurses on a strictly shorter string.
  `nest h` = `some k` when the TLV with header `h` is such a container with a k-octet preamble.  -/

def deepSteps (sh : Shape) (nest : Bytes → Option Nat) (b : Bytes) : Nat :=
  if hb : b = [] then 0
  else if b.length < sh.hdr then 1
  else
    1 + (match nest (hdrOf sh b) with
         | some k => deepSteps sh nest ((valOf sh b).drop k)
         | none => 0)
      + deepSteps sh nest (restOf sh b)
termination_by b.length
decreasing_by
  · have hp := sh.hpos
    have : 0 < b.length := List.length_pos_iff.mpr hb
    simp only [valOf, slice, List.length_drop, List.length_take]
    omega
  · exact restOf_lt sh b hb

/-- the only container reachable through a nested one-argument call -/
def lsNest (h : Bytes) : Option Nat := if tlv22.typ h = 1106 then some 22 else none

/-! ### where the BGP-LS attribute is decoded inside Update.parse_attributes, and with which protocol id

  The attribute loop keeps two variables for BGP-LS: `bgpls_pro_id` (set by an MP_REACH_NLRI whose first NLRI is a
  dict with a truthy "protocol_id") and `bgpls_attr` (a type-29 value seen while no protocol id is known yet,
  decoded after the loop).  `Item` abstracts one attribute of the list: what matters here is only its type code,
  and for MP_REACH the protocol id it yields.  `γ` = decoded LinkState value, `β` = any other decoded value. -/

inductive Item (β : Type) where
  /-- MP_REACH_NLRI (14): decoded value and `nlri[0]["protocol_id"]` when that exists and is truthy (≥ 1) -/
  | mpReach (v : β) (pro : Option Nat)
  /-- LINK_STATE (29) with this value -/
  | linkState (b : Bytes)
  /-- any other attribute: type code (≠ 14, 29) and decoded value -/
  | other (code : Nat) (v : β)

def Item.code {β : Type} : Item β → Nat
  | .mpReach _ _ => 14
  | .linkState _ => 29
  | .other c _ => c

/-- decoded attribute: other values, or the BGP-LS value decoded with a protocol id -/
inductive Dec (β γ : Type) where
  | val (v : β)
  | ls (v : γ)
  deriving DecidableEq

structure PaState (β γ : Type) where
  pro : Option Nat := none
  deferred : Option Bytes := none
  attrs : List (Nat × Dec β γ) := []

/-- Python truthiness of `bgpls_pro_id` -/
def truthy : Option Nat → Bool
  | some (_ + 1) => true
  | _ => false

/-- one iteration of the attribute loop as far as BGP-LS is concerned; `lsDec pro b` = LinkState.unpack, an
    error ends parse_attributes (UpdateMessageError with the attributes decoded so far) -/
def paStep {β γ ε : Type} (lsDec : Option Nat → Bytes → Except ε γ) (s : PaState β γ) :
    Item β → Except (ε × List (Nat × Dec β γ)) (PaState β γ)
  | .mpReach v p =>
      .ok { s with pro := if truthy p then p else s.pro, attrs := s.attrs ++ [(14, .val v)] }
  | .linkState b =>
      if truthy s.pro then
        match lsDec s.pro b with
        | .ok g => .ok { s with attrs := s.attrs ++ [(29, .ls g)] }
        | .error e => .error (e, s.attrs)
      else .ok { s with deferred := some b }
  | .other c v => .ok { s with attrs := s.attrs ++ [(c, .val v)] }

def paLoop {β γ ε : Type} (lsDec : Option Nat → Bytes → Except ε γ) (s : PaState β γ) :
    List (Item β) → Except (ε × List (Nat × Dec β γ)) (PaState β γ)
  | [] => .ok s
  | it :: r => match paStep lsDec s it with
    | .ok s' => paLoop lsDec s' r
    | .error e => .error e

/-- after the loop: `if bgpls_attr is not None:` (repaired; `nonEmptyOnly = true` gives the code before the
    repair, `if bgpls_attr:`, which drops an empty deferred attribute) -/
def paFinish {β γ ε : Type} (nonEmptyOnly : Bool) (lsDec : Option Nat → Bytes → Except ε γ) (s : PaState β γ) :
    Except (ε × List (Nat × Dec β γ)) (List (Nat × Dec β γ)) :=
  match s.deferred with
  | none => .ok s.attrs
  | some b =>
    if nonEmptyOnly && b.isEmpty then .ok s.attrs
    else match lsDec s.pro b with
      | .ok g => .ok (s.attrs ++ [(29, .ls g)])
      | .error e => .error (e, s.attrs)

/-- the attribute dictionary (as the list of assignments in order; read with `pyGet`) -/
def parseAttrsLs {β γ ε : Type} (nonEmptyOnly : Bool) (lsDec : Option Nat → Bytes → Except ε γ)
    (items : List (Item β)) : Except (ε × List (Nat × Dec β γ)) (List (Nat × Dec β γ)) :=
  match paLoop lsDec {} items with
  | .ok s => paFinish nonEmptyOnly lsDec s
  | .error e => .error e

/-! ### finite iteration (`for … in range(..)`, comprehensions over a tuple / bytes object)

  A Python `for` over a `range` or over an immutable finite collection ends after as many iterations as the
  iterable has elements; `range(start, stop, 0)` raises ValueError instead of looping. -/

/-- `len(range(start, stop, step))` for non-negative arguments (`none` = ValueError for step 0) -/
def rangeLen (start stop step : Nat) : Option Nat :=
  if step = 0 then none else some ((stop - start + step - 1) / step)

/-! ### the loops of the source this model covers (tied to the inventory regenerated from the AST by
    harness/gen_loops.py: Props/C11b `gen_loops_covered`, and suites/tlv.py at run time) -/

inductive Cover where
  /-- an instance of `tlvRun` (name of the `Instance`) -/
  | tlv (inst : String)
  /-- iteration over a `range` / immutable finite collection: ends by construction -/
  | finite (what : String)
  deriving Repr, DecidableEq

structure Covered where
  id : String
  hash : Nat
  adv : Nat
  cover : Cover

/-- every `while` / `for` / comprehension in nlri/linkstate.py, linkstate/** and sr/**, by normalised source hash;
    `adv` = the constant part of the advance as read from the loop's AST (= header size of the instance) -/
def coveredLoops : List Covered := [
  { id := "yabgp/message/attribute/linkstate/link/lan_adj_sid.py:LanAdjSegID.unpack:0",
    hash := 0x29ec2311810b1a91, adv := 0, cover := .finite "range" },
  { id := "yabgp/message/attribute/linkstate/link/srlg.py:SRLGList.unpack:0",
    hash := 0x4fdcc686fc2c7b17, adv := 4, cover := .tlv "ls.srlg" },
  { id := "yabgp/message/attribute/linkstate/link/srv6_end_x_sid.py:SRv6EndXSID.unpack:0",
    hash := 0xa6837e1ab7568155, adv := 4, cover := .tlv "ls.srv6_end_x_sid" },
  { id := "yabgp/message/attribute/linkstate/link/srv6_lan_end_x_sid.py:SRv6LANEndXSID.parse_isis_neighbor_id:0",
    hash := 0x4c4f27c26bb80bc2, adv := 0, cover := .finite "range" },
  { id := "yabgp/message/attribute/linkstate/link/srv6_lan_end_x_sid.py:SRv6LANEndXSID.unpack:0",
    hash := 0xa6837e1ab7568155, adv := 4, cover := .tlv "ls.srv6_lan_end_x_sid.isis" },
  { id := "yabgp/message/attribute/linkstate/link/unsrv_bw.py:UnrsvBandwidth.unpack:0",
    hash := 0xf715c2e338e9298c, adv := 0, cover := .finite "collection" },
  { id := "yabgp/message/attribute/linkstate/linkstate.py:LinkState.unpack:0",
    hash := 0xccf7ec18ba0a7c2f, adv := 4, cover := .tlv "ls.attr" },
  { id := "yabgp/message/attribute/linkstate/node/node_msd.py:NodeMSD_266.unpack:0",
    hash := 0x98866539a04707db, adv := 2, cover := .tlv "ls.node_msd" },
  { id := "yabgp/message/attribute/linkstate/node/sr_algorithm.py:SRAlgorithm.unpack:0",
    hash := 0xe0b8b1d3e13222ff, adv := 0, cover := .finite "collection" },
  { id := "yabgp/message/attribute/linkstate/node/sr_capabilities.py:SRCapabilities.unpack:0",
    hash := 0x0a2c61e443af98c6, adv := 7, cover := .tlv "ls.sr_capabilities" },
  { id := "yabgp/message/attribute/linkstate/node/srlb.py:SRLB.unpack:0",
    hash := 0x0a2c61e443af98c6, adv := 7, cover := .tlv "ls.srlb" },
  { id := "yabgp/message/attribute/linkstate/prefix/ext_igp_route_tag_list.py:ExtIGPRouteTagList.unpack:0",
    hash := 0x653537c925e5b802, adv := 8, cover := .tlv "ls.ext_igp_route_tag" },
  { id := "yabgp/message/attribute/linkstate/prefix/igp_route_tag_list.py:IGPRouteTagList.unpack:0",
    hash := 0xd07a316d2e1ab95d, adv := 4, cover := .tlv "ls.igp_route_tag" },
  { id := "yabgp/message/attribute/linkstate/prefix/srv6_locator.py:SRv6Locator.unpack:0",
    hash := 0xa6837e1ab7568155, adv := 4, cover := .tlv "ls.srv6_locator" },
  { id := "yabgp/message/attribute/linkstate/srv6_sid/srv6_bgp_peer_node_sid.py:SRv6BGPPeerNodeSID.unpack:0",
    hash := 0x2a3ac771b5bb23a6, adv := 0, cover := .finite "collection" },
  { id := "yabgp/message/attribute/nlri/linkstate.py:BGPLS.parse:0",
    hash := 0xc3b12ff91205c4a4, adv := 4, cover := .tlv "bgpls.nlri" },
  { id := "yabgp/message/attribute/nlri/linkstate.py:BGPLS.parse_iso_node_id:0",
    hash := 0x4c4f27c26bb80bc2, adv := 0, cover := .finite "range" },
  { id := "yabgp/message/attribute/nlri/linkstate.py:BGPLS.parse_nlri:0",
    hash := 0xc3004b10a9d379b0, adv := 4, cover := .tlv "bgpls.descriptors" },
  { id := "yabgp/message/attribute/nlri/linkstate.py:BGPLS.parse_nlri:1",
    hash := 0xc2bb007d6f6834c2, adv := 2, cover := .tlv "bgpls.mt_id" },
  { id := "yabgp/message/attribute/nlri/linkstate.py:BGPLS.parse_nlri:2",
    hash := 0x8f9452d463a4817a, adv := 0, cover := .finite "range" },
  { id := "yabgp/message/attribute/nlri/linkstate.py:BGPLS.parse_node_descriptor:0",
    hash := 0xabd6d1153d8b398a, adv := 4, cover := .tlv "bgpls.node_descriptor" },
  { id := "yabgp/message/attribute/sr/bgpprefixsid.py:BGPPrefixSID.unpack:0",
    hash := 0x835addc9e31ec1f3, adv := 3, cover := .tlv "psid.attr" },
  { id := "yabgp/message/attribute/sr/srv6/l3service.py:SRv6L3Service.unpack:0",
    hash := 0x80359b28c1e67a86, adv := 3, cover := .tlv "psid.srv6_l3_service" },
  { id := "yabgp/message/attribute/sr/srv6/sidinformation.py:SRv6SIDInformation.unpack:0",
    hash := 0xc36c484826b9211a, adv := 3, cover := .tlv "psid.srv6_sid_information" }]

/-- header size of the named instance -/
def hdrOfInstance (n : String) : Option Nat := (instances.find? (fun i => i.name == n)).map (fun i => i.shape.hdr)

end Yabgp.Tlv
