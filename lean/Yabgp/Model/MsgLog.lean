/-
  Model of the on-disk message log of yabgp/handler/default_handler.py (C20):
  DefaultHandler.init / init_msg_file / get_last_seq_and_file (+ drop_unterminated_line of the repair) /
  write_msg / check_file_size, as repaired by the commit "fix: recover the message log after a crash or a
  rotation ...".  The start-up code of the pinned tree (before the repair) is kept as `restartOrig`, so that the
  defects are witnessed by theorems (Props/C20.lean, KF_*) and the tie can be run against either tree.

  What is abstracted: the text of a record.  A record is (seq, type, length of its JSON text in bytes); the
  payload and the time stamp only contribute their length (`plen` = length of the JSON text with the digits of
  `seq` taken out, supplied by the environment with the event).  A file is its name (the number time.time()
  returned when it was created - a Nat in clock ticks), its newline-terminated lines and what follows the last
  newline (`tail`: nothing, or the torn fragment a crash left behind).
  The environment: a clock that never goes backwards (`tick`), the events reported by the protocol layer,
  the size check update_received performs after its write (`rotateCheck`), a crash of the process while the
  bytes of a record are on their way to the disk (`crash`: exactly the first `off` bytes of `json ++ "\n"`
  arrived), and a start of a new process on the same directory (`restart`).
  Import-free.
-/

namespace Yabgp.MsgLog

/-- one record: `{"t": .., "seq": seq, "type": ty, "msg": ..}`; `len` = bytes of that text, newline not counted -/
structure Rec where
  seq : Nat
  ty : Nat
  len : Nat
  deriving DecidableEq, Repr

/-- a newline-terminated line of a file -/
inductive Line where
  | record (r : Rec)       -- exactly one record
  | junk (len : Nat)       -- `len` bytes that start with `{` and are not one JSON text (json.loads raises)
  deriving DecidableEq, Repr

/-- the bytes after the last newline of a file (at least one): `whole = some r` when they are exactly the
    complete JSON text of `r` whose newline did not make it -/
structure Torn where
  len : Nat
  whole : Option Rec
  deriving DecidableEq, Repr

structure File where
  name : Nat
  lines : List Line
  tail : Option Torn
  deriving DecidableEq, Repr

/-- DefaultHandler: msg_sequence[peer] and the name of the file object in peer_files[peer] -/
structure Handler where
  seq : Nat
  cur : Nat
  deriving DecidableEq, Repr

structure World where
  fs : List File          -- the directory <write_dir>/<peer>/msg/, in creation order
  clock : Nat             -- what time.time() returns now
  h : Option Handler      -- the running process, if any
  refused : Bool          -- the last start ended in sys.exit()
  deriving DecidableEq, Repr

def empty : World := { fs := [], clock := 0, h := none, refused := false }

inductive Op where
  | tick (dt : Nat)
  | event (ty plen : Nat)            -- any callback that calls write_msg
  | rotateCheck                      -- check_file_size (update_received calls it after its write)
  | crash (ty plen off : Nat)        -- write_msg interrupted: `off` bytes of `json ++ "\n"` reached the disk
  | restart                          -- a new DefaultHandler().init() on the same directory
  deriving DecidableEq, Repr

/-! ### sizes -/

def digitsAux : Nat → Nat → Nat
  | 0, _ => 1
  | fuel + 1, n => if n < 10 then 1 else 1 + digitsAux fuel (n / 10)

/-- number of decimal digits of `n` (len(str(n))) -/
def digits (n : Nat) : Nat := digitsAux n n

def lineBytes : Line → Nat
  | .record r => r.len + 1
  | .junk n => n + 1

def sumBytes : List Line → Nat
  | [] => 0
  | l :: ls => lineBytes l + sumBytes ls

def tailBytes : Option Torn → Nat
  | none => 0
  | some t => t.len

/-- os.path.getsize -/
def fileSize (f : File) : Nat := sumBytes f.lines + tailBytes f.tail

/-! ### the file system -/

def findFile (name : Nat) : List File → Option File
  | [] => none
  | f :: fs => if f.name = name then some f else findFile name fs

def hasFile (name : Nat) (fs : List File) : Bool := (findFile name fs).isSome

/-- apply `g` to the file called `name` -/
def updFile (name : Nat) (g : File → File) : List File → List File
  | [] => []
  | f :: fs => if f.name = name then g f :: fs else f :: updFile name g fs

/-- open(name, 'a'): creates the file when it does not exist, leaves an existing one as it is -/
def openAppend (fs : List File) (name : Nat) : List File :=
  if hasFile name fs then fs else fs ++ [{ name := name, lines := [], tail := none }]

/-- all of `json ++ "\n"` is appended.  After a torn fragment the bytes land on the fragment's line. -/
def appendFull (r : Rec) (f : File) : File :=
  match f.tail with
  | none => { f with lines := f.lines ++ [.record r] }
  | some t => { f with lines := f.lines ++ [.junk (t.len + r.len)], tail := none }

/-- only the first `off` bytes (0 < off ≤ r.len) of the JSON text are appended -/
def appendTorn (r : Rec) (off : Nat) (f : File) : File :=
  match f.tail with
  | none => { f with tail := some { len := off, whole := if off = r.len then some r else none } }
  | some t => { f with tail := some { len := t.len + off, whole := none } }

/-- the first `off` bytes of `json ++ "\n"` are appended -/
def appendPrefix (r : Rec) (off : Nat) (f : File) : File :=
  if off = 0 then f
  else if off ≤ r.len then appendTorn r off f
  else appendFull r f

/-- file_list.sort(): insertion sort by name, ascending -/
def insertByName (f : File) : List File → List File
  | [] => [f]
  | g :: gs => if f.name ≤ g.name then f :: g :: gs else g :: insertByName f gs

def sortAsc : List File → List File
  | [] => []
  | f :: fs => insertByName f (sortAsc fs)

/-! ### write_msg, check_file_size -/

/-- the record write_msg builds: the handler's sequence number; its text is `plen` bytes plus the digits -/
def mkRec (h : Handler) (ty plen : Nat) : Rec := { seq := h.seq, ty := ty, len := plen + digits h.seq }

def sizeOfNamed (fs : List File) (name : Nat) : Nat :=
  match findFile name fs with
  | some f => fileSize f
  | none => 0

def writeMsg (w : World) (h : Handler) (ty plen : Nat) : World :=
  { w with fs := updFile h.cur (appendFull (mkRec h ty plen)) w.fs, h := some { h with seq := h.seq + 1 } }

def checkFileSize (maxSize : Nat) (w : World) (h : Handler) : World :=
  if maxSize ≤ sizeOfNamed w.fs h.cur then
    { w with fs := openAppend w.fs w.clock, h := some { h with cur := w.clock } }
  else w

def crashWrite (w : World) (h : Handler) (ty plen off : Nat) : World :=
  { w with fs := updFile h.cur (appendPrefix (mkRec h ty plen) off) w.fs, h := none }

/-! ### start-up: init_msg_file / get_last_seq_and_file -/

def startWith (w : World) (fs : List File) (lastSeq : Nat) (name : Nat) : World :=
  { w with fs := openAppend fs name, h := some { seq := lastSeq + 1, cur := name }, refused := false }

def refuse (w : World) (fs : List File) : World := { w with fs := fs, h := none, refused := true }

/-- drop_unterminated_line -/
def dropTail (f : File) : File := { f with tail := none }

/-- `for file_name in reversed(file_list)`: the last line of the newest file that has a line
    (argument: newest first) -/
def scanLast : List File → Option Line
  | [] => none
  | f :: older =>
    match f.lines.getLast? with
    | some l => some l
    | none => scanLast older

/-- the repaired start-up -/
def restart (w : World) : World :=
  match (sortAsc w.fs).getLast? with
  | none => startWith w w.fs 0 w.clock
  | some newest =>
    match scanLast (sortAsc (updFile newest.name dropTail w.fs)).reverse with
    | none => startWith w (updFile newest.name dropTail w.fs) 0 newest.name
    | some (.record r) => startWith w (updFile newest.name dropTail w.fs) r.seq newest.name
    | some (.junk _) => refuse w (updFile newest.name dropTail w.fs)

/-- what `for line in fh: pass` leaves in `line` for a file, as the pinned code reads it: the torn
    fragment counts as the last line -/
inductive LastLine where
  | nothing                  -- empty file
  | record (r : Rec)         -- json.loads succeeds
  | bad                      -- json.loads raises
  deriving DecidableEq, Repr

def lastLineOrig (f : File) : LastLine :=
  match f.tail with
  | some t =>
    match t.whole with
    | some r => .record r
    | none => .bad
  | none =>
    match f.lines.getLast? with
    | none => .nothing
    | some (.record r) => .record r
    | some (.junk _) => .bad

/-- the start-up of the pinned tree (before the repair): only the newest file is read, its last line
    is parsed whether or not it is terminated, nothing is cut -/
def restartOrig (w : World) : World :=
  match (sortAsc w.fs).getLast? with
  | none => startWith w w.fs 0 w.clock
  | some newest =>
    match lastLineOrig newest with
    | .nothing => startWith w w.fs 0 newest.name
    | .record r => startWith w w.fs r.seq newest.name
    | .bad => refuse w w.fs

/-! ### one operation, a history -/

def stepWith (rs : World → World) (maxSize : Nat) (w : World) : Op → World
  | .tick dt => { w with clock := w.clock + dt }
  | .event ty plen =>
    match w.h with
    | none => w
    | some h => writeMsg w h ty plen
  | .rotateCheck =>
    match w.h with
    | none => w
    | some h => checkFileSize maxSize w h
  | .crash ty plen off =>
    match w.h with
    | none => w
    | some h => crashWrite w h ty plen off
  | .restart => rs w

def step (maxSize : Nat) (w : World) (op : Op) : World := stepWith restart maxSize w op
def stepOrig (maxSize : Nat) (w : World) (op : Op) : World := stepWith restartOrig maxSize w op

def run (maxSize : Nat) : World → List Op → World
  | w, [] => w
  | w, op :: ops => run maxSize (step maxSize w op) ops

def runOrig (maxSize : Nat) : World → List Op → World
  | w, [] => w
  | w, op :: ops => runOrig maxSize (stepOrig maxSize w op) ops

end Yabgp.MsgLog
