/-
  Model of yabgp/message/attribute/extcommunity.py (`ExtCommunity.parse`, `ExtCommunity.construct`) and of the
  "extended community recombine" translation of yabgp/api/v1.py (identical in `send_update_message` and
  `json_to_bin`), on `List Char` / `List UInt8`, AS THE CODE IS after the repairs
     fix: encode the link-bandwidth extended community as an IEEE float      (dmzlink-bw: '!Hf' both ways)
     fix: REST extended-community translation no longer fails for a peer without the 4-octet AS capability
          (`remote.get('four_bytes_as', False)`)
     fix: REST translates route-origin like route-target (the peer's capabilities are consulted only for an
          AS number above 65535).

  Text conventions (DESIGN §4.4): `str.split(sep)`, `split(sep, 1)`, `strip()`, `lower()`, `'.' in s`, `int(s)`,
  `int(s, 16)`, `netaddr.IPAddress(s)` are modelled on ASCII input:
    * whitespace = space, \t, \n, \v, \f, \r (what both `str.strip` and `int` strip; \x1c-\x1f and non-ASCII
      whitespace are outside the model);
    * `int(s)`: surrounding whitespace, one optional sign, ASCII digits with single underscores between digits;
    * `int(s, 16)`: the same with hex digits and an optional "0x" prefix;
    * `netaddr.IPAddress(s)` (netaddr 1.x, inet_pton): exactly the canonical dotted quad.
  Floats never appear: `struct.pack('!f', int)` / `int(struct.unpack('!f'))` are modelled on the bit pattern.
  Import-free apart from Base/Model.
-/
import Yabgp.Base.Bytes
import Yabgp.Model.Attr
import Yabgp.Model.Text

namespace Yabgp.ExtComm
open Yabgp.Text

/-! ### Python string operations -/

def isWs (c : Char) : Bool :=
  c = ' ' || c = '\t' || c = '\n' || c = '\r' || c.toNat = 11 || c.toNat = 12

def lstrip (s : List Char) : List Char := s.dropWhile isWs

/-- `s.strip()` -/
def strip (s : List Char) : List Char := (lstrip (lstrip s).reverse).reverse

def lowerChar (c : Char) : Char :=
  if 65 ≤ c.toNat ∧ c.toNat ≤ 90 then Char.ofNat (c.toNat + 32) else c

/-- `s.lower()` -/
def lower (s : List Char) : List Char := s.map lowerChar

/-- `s.split(sep)[0]`, also `s.split(sep, 1)[0]` -/
def firstField (sep : Char) (s : List Char) : List Char :=
  match splitOnFirst sep s with
  | some (a, _) => a
  | none => s

/-- `a, b = s.split(':')`: exactly two fields, else ValueError -/
def split2 (s : List Char) : Option (List Char × List Char) :=
  match splitAll ':' s with
  | [a, b] => some (a, b)
  | _ => none

/-- underscore rule of `int()`: an underscore only between two digits; returns the string without them -/
def unders : Bool → List Char → Option (List Char)
  | prev, [] => if prev then some [] else none
  | prev, c :: r =>
    if c = '_' then (if prev then unders false r else none)
    else (unders true r).map (c :: ·)

def pyDigits (s : List Char) : Option Nat := (unders false s).bind parseDec

def pyIntCore (s : List Char) : Option Int :=
  match s with
  | [] => none
  | c :: r =>
    if c = '-' then (pyDigits r).map (fun n => -(Int.ofNat n))
    else if c = '+' then (pyDigits r).map Int.ofNat
    else (pyDigits (c :: r)).map Int.ofNat

/-- `int(s)`; `none` = ValueError -/
def pyInt (s : List Char) : Option Int := pyIntCore (strip s)

/-- the value if it lies in `0 ≤ v < bound` (what `struct.pack` accepts for an unsigned field) -/
def inRange (bound : Nat) (v : Option Int) : Option Nat :=
  match v with
  | some i => if 0 ≤ i ∧ i < Int.ofNat bound then some i.toNat else none
  | none => none

def parseHexAux : Nat → List Char → Option Nat
  | acc, [] => some acc
  | acc, c :: r =>
    match hexVal c with
    | some d => parseHexAux (acc * 16 + d) r
    | none => none

def parseHex (s : List Char) : Option Nat :=
  match s with
  | [] => none
  | _ => parseHexAux 0 s

/-- hex digits with the underscore rule -/
def hexDigits (s : List Char) : Option Nat := (unders false s).bind parseHex

/-- after the sign: an optional "0x" / "0X" prefix (which may be followed by one underscore), then the digits -/
def pyHexCore (s : List Char) : Option Nat :=
  match s with
  | z :: x :: r =>
    if z = '0' ∧ (x = 'x' ∨ x = 'X') then
      match r with
      | u :: r' => if u = '_' then hexDigits r' else hexDigits r
      | [] => none
    else hexDigits s
  | _ => hexDigits s

def pyHexSigned (s : List Char) : Option Int :=
  match s with
  | [] => none
  | c :: r =>
    if c = '-' then (pyHexCore r).map (fun n => -(Int.ofNat n))
    else if c = '+' then (pyHexCore r).map Int.ofNat
    else (pyHexCore (c :: r)).map Int.ofNat

/-- `int(s, 16)`; `none` = ValueError -/
def pyHex (s : List Char) : Option Int := pyHexSigned (strip s)

/-- `netaddr.IPAddress(s)` for an IPv4 literal: the canonical dotted quad only -/
def pyIpv4 (s : List Char) : Option Nat :=
  match parseIpv4 s with
  | some n => if ipv4Str n = s then some n else none
  | none => none

/-! ### IEEE 754 binary32 <-> int, on bit patterns -/

/-- drop the low `sh` bits of `n`, rounding to nearest, ties to even -/
def roundAt (sh n : Nat) : Nat :=
  if n % 2 ^ sh > 2 ^ (sh - 1) ∨ (n % 2 ^ sh = 2 ^ (sh - 1) ∧ n / 2 ^ sh % 2 = 1) then (n / 2 ^ sh + 1) * 2 ^ sh
  else n / 2 ^ sh * 2 ^ sh

/-- round to `p` significant bits (int -> double is `p = 53`, double -> float is `p = 24`) -/
def roundBits (p n : Nat) : Nat :=
  if n < 2 ^ p then n else roundAt (Nat.log2 n + 1 - p) n

/-- fraction field of a positive number that has at most 24 significant bits -/
def f32Frac (n : Nat) : Nat :=
  if Nat.log2 n ≤ 23 then n * 2 ^ (23 - Nat.log2 n) - 2 ^ 23 else n / 2 ^ (Nat.log2 n - 23) - 2 ^ 23

def f32BitsPos (n : Nat) : Nat := (127 + Nat.log2 n) * 2 ^ 23 + f32Frac n

/-- `struct.pack('!f', i)` for a Python int: the 32-bit pattern; `none` = OverflowError -/
def packF (i : Int) : Option Nat :=
  if i = 0 then some 0
  else if 2 ^ 1024 ≤ roundBits 53 i.natAbs then none
  else if 2 ^ 128 ≤ roundBits 24 (roundBits 53 i.natAbs) then none
  else some (f32BitsPos (roundBits 24 (roundBits 53 i.natAbs)) + (if i < 0 then 2 ^ 31 else 0))

/-- `int(struct.unpack('!f', bits))`: (negative?, magnitude truncated toward zero); `none` = inf / nan -/
def unpackF (bits : Nat) : Option (Bool × Nat) :=
  if bits / 2 ^ 23 % 256 = 255 then none
  else if bits / 2 ^ 23 % 256 = 0 then some (decide (bits / 2 ^ 31 % 2 = 1), 0)
  else if 150 ≤ bits / 2 ^ 23 % 256 then
    some (decide (bits / 2 ^ 31 % 2 = 1), (2 ^ 23 + bits % 2 ^ 23) * 2 ^ (bits / 2 ^ 23 % 256 - 150))
  else some (decide (bits / 2 ^ 31 % 2 = 1), (2 ^ 23 + bits % 2 ^ 23) / 2 ^ (150 - bits / 2 ^ 23 % 256))

/-- `'%s' % i` for a Python int given as sign and magnitude -/
def intStr (neg : Bool) (mag : Nat) : List Char :=
  if neg ∧ mag ≠ 0 then '-' :: decStr mag else decStr mag

/-! ### tables of yabgp/common/constants.py -/

/-- BGP_EXT_COM_STR_DICT -/
def strDict : List (Nat × String) :=
  [ (258, "route-target"), (2, "route-target"), (514, "route-target"), (779, "color"), (16388, "dmzlink-bw"),
    (259, "route-origin"), (515, "route-origin"), (3, "route-origin"), (32776, "redirect-vrf"),
    (2048, "redirect-nexthop"), (1537, "esi-label"), (1536, "mac-mobility"), (32777, "traffic-marking-dscp"),
    (32774, "traffic-rate"), (51052544, "color-00"), (51068928, "color-01"), (51085312, "color-10"),
    (51101696, "color-11"), (780, "encapsulation"), (1538, "es-import"), (1539, "router-mac"),
    (32775, "traffic-action") ]

/-- BGP_EXT_COM_DICT -/
def dict : List (String × Nat) :=
  [ ("redirect-vrf", 32776), ("traffic-marking-dscp", 32777), ("traffic-rate", 32774), ("traffic-action", 32775),
    ("color", 779), ("color-00", 51052544), ("color-01", 51068928), ("color-10", 51085312), ("color-11", 51101696),
    ("encapsulation", 780), ("es-import", 1538), ("router-mac", 1539) ]

/-- BGP_EXT_COM_DICT_1 -/
def dict1 : List (String × Nat) := [ ("esi-label", 1537), ("mac-mobility", 1536) ]

def nameOf (code : Nat) : List Char :=
  match strDict.find? (·.1 = code) with
  | some (_, s) => s.toList
  | none => []

def lookup (d : List (String × Nat)) (k : List Char) : Option Nat :=
  match d.find? (fun e => e.1.toList = k) with
  | some (_, v) => some v
  | none => none

/-! ### ExtCommunity.parse -/

/-- one decoded extended community: structured kind + fields -/
inductive Val
  | as2 (code asn an : Nat)         -- '!HI' : route-target / route-origin / redirect-vrf
  | ip4 (code ip an : Nat)          -- IPv4 + '!H' : route-target / route-origin / redirect-nexthop
  | as4 (code asn an : Nat)         -- '!IH'
  | rate (code asn : Nat) (neg : Bool) (mag : Nat)   -- '!Hf', int(float): traffic-rate / dmzlink-bw
  | action (s t : Nat)              -- bits 6 and 7 of the last octet
  | mark (v : Nat)                  -- last octet
  | opaque (code v : Nat)           -- last four octets: color / encapsulation
  | mac (code : Nat) (a b c d e f : Nat)   -- six octets: es-import / router-mac
  | macMob (flag seq : Nat)
  | esiLabel (flag label : Nat)
  | unknown (value : Bytes)         -- [0, repr(value_tmp)]
  deriving DecidableEq, Repr

def hexUp (d : Nat) : Char := if d < 10 then Char.ofNat (48 + d) else Char.ofNat (55 + d)

/-- two upper-case hex digits of one octet -/
def hex2 (b : Nat) : List Char := [hexUp (b / 16 % 16), hexUp (b % 16)]

/-- `str(netaddr.EUI(int))` of six octets -/
def macStr (a b c d e f : Nat) : List Char :=
  hex2 a ++ '-' :: (hex2 b ++ '-' :: (hex2 c ++ '-' :: (hex2 d ++ '-' :: (hex2 e ++ '-' :: hex2 f))))

/-- the text (or the `[0, repr]` pair) the decoder appends for one community -/
inductive Rendered
  | text (s : List Char)
  | unknown (value : Bytes)
  deriving DecidableEq, Repr

def render : Val → Rendered
  | .as2 code asn an => .text (nameOf code ++ ':' :: (decStr asn ++ ':' :: decStr an))
  | .ip4 code ip an => .text (nameOf code ++ ':' :: (ipv4Str ip ++ ':' :: decStr an))
  | .as4 code asn an => .text (nameOf code ++ ':' :: (decStr asn ++ ':' :: decStr an))
  | .rate code asn neg mag => .text (nameOf code ++ ':' :: (decStr asn ++ ':' :: intStr neg mag))
  | .action s t => .text (nameOf 32775 ++ ':' :: 'S' :: ':' :: (decStr s ++ ',' :: 'T' :: ':' :: decStr t))
  | .mark v => .text (nameOf 32777 ++ ':' :: decStr v)
  | .opaque code v => .text (nameOf code ++ ':' :: decStr v)
  | .mac code a b c d e f => .text (nameOf code ++ ':' :: macStr a b c d e f)
  | .macMob flag seq => .text (nameOf 1536 ++ ':' :: (decStr flag ++ ':' :: decStr seq))
  | .esiLabel flag label => .text (nameOf 1537 ++ ':' :: (decStr flag ++ ':' :: decStr label))
  | .unknown v => .unknown v

def n16 (a b : UInt8) : Nat := a.toNat * 256 + b.toNat
def n32 (a b c d : UInt8) : Nat := a.toNat * 16777216 + b.toNat * 65536 + c.toNat * 256 + d.toNat

def rateOf (code asn : Nat) : Option (Bool × Nat) → R Val
  | some (neg, mag) => .ok (.rate code asn neg mag)
  | none => .error .other                -- int(inf) / int(nan)

def decodeRate (code : Nat) (a b c d e f : UInt8) : R Val :=
  rateOf code (n16 a b) (unpackF (n32 c d e f))

/-- one 8-octet community: type, sub-type and `value_tmp = [a..f]` -/
def decodeOne (t s a b c d e f : UInt8) : R Val :=
  if n16 t s = 2 ∨ n16 t s = 3 ∨ n16 t s = 32776 then .ok (.as2 (n16 t s) (n16 a b) (n32 c d e f))
  else if n16 t s = 258 ∨ n16 t s = 259 ∨ n16 t s = 2048 then .ok (.ip4 (n16 t s) (n32 a b c d) (n16 e f))
  else if n16 t s = 514 ∨ n16 t s = 515 then .ok (.as4 (n16 t s) (n32 a b c d) (n16 e f))
  else if n16 t s = 32774 ∨ n16 t s = 16388 then decodeRate (n16 t s) a b c d e f
  else if n16 t s = 32775 then .ok (.action (f.toNat / 2 % 2) (f.toNat % 2))
  else if n16 t s = 32777 then .ok (.mark f.toNat)
  else if n16 t s = 780 ∨ n16 t s = 779 then .ok (.opaque (n16 t s) (n32 c d e f))
  else if n16 t s = 1538 ∨ n16 t s = 1539 then
    .ok (.mac (n16 t s) a.toNat b.toNat c.toNat d.toNat e.toNat f.toNat)
  else if n16 t s = 1536 then .ok (.macMob a.toNat (n32 c d e f))
  else if n16 t s = 1537 then .ok (.esiLabel a.toNat ((d.toNat * 65536 + e.toNat * 256 + f.toNat) / 16))
  else .ok (.unknown [a, b, c, d, e, f])

def decodeAll : Bytes → R (List Val)
  | t :: s :: a :: b :: c :: d :: e :: f :: rest =>
    match decodeOne t s a b c d e f with
    | .ok v =>
      match decodeAll rest with
      | .ok vs => .ok (v :: vs)
      | .error err => .error err
    | .error err => .error err
  | _ => .ok []

/-- `ExtCommunity.parse(value)`, structured -/
def parseVals (v : Bytes) : R (List Val) :=
  if v.length % 8 ≠ 0 then .error (.upd C.eAttrLen) else decodeAll v

/-- `ExtCommunity.parse(value)`: what the decoder returns -/
def parse (v : Bytes) : R (List Rendered) :=
  match parseVals v with
  | .ok vs => .ok (vs.map render)
  | .error e => .error e

/-! ### ExtCommunity.construct -/

/-- the items the REST layer hands to the constructor (`[code, ...]`) -/
inductive Item
  | str (code : Nat) (s : List Char)          -- [code, 'text']
  | num (code : Nat) (n : Int)                -- [32777, int]
  | num2 (code : Nat) (a b : Int)             -- [1537 | 1536, int, int]
  | nh (ip : List Char) (flag : Int)          -- [2048, 'ip', int]
  | action (s t : Option Int)                 -- [32775, {'s': int, 't': int}]
  deriving DecidableEq, Repr

/-- '!HHI' code, int(a), int(b) of "a:b" -/
def conAs2 (code : Nat) (s : List Char) : Option Bytes :=
  match split2 s with
  | some (a, b) =>
    match inRange 65536 (pyInt a), inRange 4294967296 (pyInt b) with
    | some x, some y => some (be16 code ++ be16 x ++ be32 y)
    | _, _ => none
  | none => none

/-- '!H' code + IPAddress(ip).packed + '!H' int(an) of "ip:an" -/
def conIp4 (code : Nat) (s : List Char) : Option Bytes :=
  match split2 s with
  | some (a, b) =>
    match pyIpv4 a, inRange 65536 (pyInt b) with
    | some x, some y => some (be16 code ++ be32 x ++ be16 y)
    | _, _ => none
  | none => none

/-- '!HIH' -/
def conAs4 (code : Nat) (s : List Char) : Option Bytes :=
  match split2 s with
  | some (a, b) =>
    match inRange 4294967296 (pyInt a), inRange 65536 (pyInt b) with
    | some x, some y => some (be16 code ++ be32 x ++ be16 y)
    | _, _ => none
  | none => none

/-- '!HHf' code, int(asn), int(rate) -/
def conRate (code : Nat) (s : List Char) : Option Bytes :=
  match split2 s with
  | some (a, b) =>
    match inRange 65536 (pyInt a), (pyInt b).bind packF with
    | some x, some y => some (be16 code ++ be16 x ++ be32 y)
    | _, _ => none
  | none => none

/-- '!HHI' code, 0, int(s) -/
def conOpaque (code : Nat) (s : List Char) : Option Bytes :=
  match inRange 4294967296 (pyInt s) with
  | some x => some (be16 code ++ be16 0 ++ be32 x)
  | none => none

/-- '!II' code, int(s)  (the color-xx variants, 32-bit codes) -/
def conColorX (code : Nat) (s : List Char) : Option Bytes :=
  match inRange 4294967296 (pyInt s) with
  | some x => some (be32 code ++ be32 x)
  | none => none

def hexByte (s : List Char) : Option UInt8 :=
  match inRange 256 (pyHex s) with
  | some v => some (u8 v)
  | none => none

/-- '!H' code + one octet per '-'-separated hex field (any number of fields) -/
def conMac (code : Nat) (s : List Char) : Option Bytes :=
  match (splitAll '-' s).mapM hexByte with
  | some bs => some (be16 code ++ bs)
  | none => none

def constructOne : Item → Option Bytes
  | .str code s =>
    if code = 2 ∨ code = 3 ∨ code = 32776 then conAs2 code s
    else if code = 258 ∨ code = 259 then conIp4 code s
    else if code = 514 ∨ code = 515 then conAs4 code s
    else if code = 32774 ∨ code = 16388 then conRate code s
    else if code = 779 ∨ code = 780 then conOpaque code s
    else if code = 51052544 ∨ code = 51068928 ∨ code = 51085312 ∨ code = 51101696 then conColorX code s
    else if code = 1538 ∨ code = 1539 then conMac code s
    else if code = 2048 ∨ code = 32777 ∨ code = 1537 ∨ code = 1536 ∨ code = 32775 then none  -- wrong shape: raises
    else some []                                                                          -- LOG.warn, skipped
  | .num code n =>
    if code = 32777 then (inRange 256 (some n)).map fun v => be16 code ++ be32 0 ++ be8 0 ++ be8 v
    else none                                   -- shape the REST layer produces for 32777 only
  | .num2 code a b =>
    if code = 1537 then
      match inRange 256 (some a), inRange 268435456 (some b) with
      | some f, some l => some (be16 code ++ be8 f ++ [0, 0] ++ (be32 (l * 16 + 1)).drop 1)
      | _, _ => none
    else if code = 1536 then
      match inRange 256 (some a), inRange 4294967296 (some b) with
      | some f, some q => some (be16 code ++ be8 f ++ [0] ++ be32 q)
      | _, _ => none
    else none                                   -- shape the REST layer produces for these two codes only
  | .nh ip flag =>
    match pyIpv4 ip, inRange 65536 (some flag) with
    | some x, some y => some (be16 2048 ++ be32 x ++ be16 y)
    | _, _ => none
  | .action s t =>
    (inRange 256 (some (s.getD 0 * 2 + t.getD 0))).map fun v => be16 32775 ++ be32 0 ++ be8 0 ++ be8 v

def constructBody : List Item → Option Bytes
  | [] => some []
  | i :: r =>
    match constructOne i, constructBody r with
    | some a, some b => some (a ++ b)
    | _, _ => none

/-- outcome of `ExtCommunity.construct(value)` -/
inductive COut
  | ok (attr : Bytes)
  | retNone            -- nothing was encoded: logs an error and returns None
  | raises
  deriving DecidableEq, Repr

def construct (items : List Item) : COut :=
  match constructBody items with
  | none => .raises
  | some [] => .retNone
  | some body =>
    if body.length < 256 then .ok (be8 C.fExtCommunity ++ be8 C.tExtCommunity ++ be8 body.length ++ body)
    else .raises

/-! ### the REST translation (yabgp/api/v1.py) -/

/-- what the views read from `get_peer_conf_and_state` -/
structure Peer where
  remoteCaps : Bool     -- `res['peer']['capability']['remote']` is a non-empty dict
  fourBytesAs : Bool    -- `...['remote'].get('four_bytes_as', False)`
  deriving DecidableEq, Repr

/-- result of the translation: the item list, an early `return flask.jsonify({'status': False, ...})`
    (1 = 'please check peer state', 2 = 'peer not support as num of greater than 65535',
     3 = 'unexpected extended community ...'), or an exception (HTTP 500) -/
inductive Tr (α : Type)
  | ok (a : α)
  | refused (why : Nat)
  | raises
  deriving DecidableEq, Repr

/-- run `f` over the fields in order, stop at the first refusal / exception -/
def trList (f : List Char → Tr (List Item)) : List (List Char) → Tr (List Item)
  | [] => .ok []
  | x :: r =>
    match f x with
    | .ok a =>
      match trList f r with
      | .ok b => .ok (a ++ b)
      | .refused w => .refused w
      | .raises => .raises
    | .refused w => .refused w
    | .raises => .raises

/-- one comma-separated field of a route-target (codes 258, 2, 514) or a route-origin (259, 3, 515): an IPv4
    administrator when the first field contains a '.', else a 2-octet AS when it is at most 65535, else a 4-octet AS
    if the peer advertised the capability -/
def adminOne (cIp cAs2 cAs4 : Nat) (p : Peer) (vau : List Char) : Tr (List Item) :=
  if '.' ∈ firstField ':' (strip vau) then .ok [.str cIp (strip vau)]
  else
    match pyInt (strip (firstField ':' (strip vau))) with
    | none => .raises
    | some i =>
      if i ≤ 65535 then .ok [.str cAs2 (strip vau)]
      else if p.remoteCaps = false then .refused 1
      else if p.fourBytesAs then .ok [.str cAs4 (strip vau)]
      else .refused 2

def rtOne (p : Peer) (vau : List Char) : Tr (List Item) := adminOne 258 2 514 p vau

def roOne (p : Peer) (vau : List Char) : Tr (List Item) := adminOne 259 3 515 p vau

/-- the `vau_dict` loop of traffic-action: `none` = exception -/
def actionFields : List (List Char) → Option Int → Option Int → Option (Option Int × Option Int)
  | [], s, t => some (s, t)
  | vau :: r, s, t =>
    match splitOnFirst ':' (strip vau) with
    | none => none                                -- flg, v = ... : ValueError
    | some (flg, v) =>
      if flg = ['s'] then
        match pyInt v with
        | some i => actionFields r (some i) t
        | none => none
      else if flg = ['t'] then
        match pyInt v with
        | some i => actionFields r s (some i)
        | none => none
      else actionFields r s t

/-- the generic BGP_EXT_COM_DICT branch -/
def dictOne (code : Nat) (vau : List Char) : Tr (List Item) :=
  if code = 32777 then
    match pyInt (strip vau) with
    | some i => .ok [.num code i]
    | none => .raises
  else .ok [.str code (strip vau)]

/-- the branch taken for the stripped, lower-cased key -/
def dispatch (p : Peer) (k value : List Char) : Tr (List Item) :=
  if k = "route-target".toList then trList (rtOne p) (splitAll ',' (strip value))
  else if k = "dmzlink-bw".toList then .ok ((splitAll ',' (strip value)).map fun v => .str 16388 (strip v))
  else if k = "route-origin".toList then trList (roOne p) (splitAll ',' (strip value))
  else if k = "redirect-vrf".toList then .ok [.str 32776 (strip value)]
  else if k = "redirect-nexthop".toList then
    match splitOnFirst ':' (strip value) with
    | none => .raises                              -- values[1]: IndexError
    | some (a, b) =>
      match pyInt b with
      | some i => .ok [.nh a i]
      | none => .raises
  else if k = "traffic-action".toList then
    match actionFields (splitAll ',' (lower (strip value))) none none with
    | some (s, t) => .ok [.action s t]
    | none => .raises
  else
    match lookup dict1 k with
    | some code =>
      match splitOnFirst ':' (strip value) with
      | none => .raises                            -- int(values[0]) ValueError or values[1] IndexError
      | some (a, b) =>
        match pyInt a, pyInt b with
        | some x, some y => .ok [.num2 code x y]
        | _, _ => .raises
    | none =>
      match lookup dict k with
      | some code => trList (dictOne code) (splitAll ',' (strip value))
      | none => .refused 3

/-- one posted string of `attr[16]` -/
def translateOne (p : Peer) (s : List Char) : Tr (List Item) :=
  match splitOnFirst ':' s with
  | none => .raises                                -- key, value = ... : ValueError
  | some (key, value) => dispatch p (lower (strip key)) value

/-- the whole `attr[16]` list -/
def translate (p : Peer) (texts : List (List Char)) : Tr (List Item) := trList (translateOne p) texts

/-- translation followed by `ExtCommunity.construct` (what `Update.construct` is given):
    the attribute octets; `raises` also when the constructor returns None (`bytes += None`) -/
def rest (p : Peer) (texts : List (List Char)) : Tr Bytes :=
  match translate p texts with
  | .ok items =>
    match construct items with
    | .ok b => .ok b
    | .retNone => .raises
    | .raises => .raises
  | .refused w => .refused w
  | .raises => .raises

end Yabgp.ExtComm

/-! ### COMMUNITIES and LARGE_COMMUNITY on their text forms (REST passes `attr[8]` / `attr[32]` through unchanged) -/
namespace Yabgp.CommText
open Yabgp.Text

/-- `Community.construct(value)` on the text items; `none` = raises -/
def constructComm (texts : List (List Char)) : Option Bytes :=
  (texts.mapM parseComm).bind fun vs => constructAttr false C.tCommunity (.community vs)

/-- `Community.parse(value)`: the rendered list -/
def parseCommText (v : Bytes) : R (List (List Char)) :=
  match parseCommunity v with
  | .ok (.community vs) => .ok (vs.map commStr)
  | .ok _ => .error .other
  | .error e => .error e

/-- `LargeCommunity.construct(value)` on "a:b:c" items -/
def constructLarge (texts : List (List Char)) : Option Bytes :=
  (texts.mapM parseLarge).bind fun ts => constructAttr false C.tLargeCommunity (.largeCommunity ts)

def parseLargeText (v : Bytes) : R (List (List Char)) :=
  match parseLargeCommunity v with
  | .ok (.largeCommunity ts) => .ok (ts.map largeStr)
  | .ok _ => .error .other
  | .error e => .error e

end Yabgp.CommText
