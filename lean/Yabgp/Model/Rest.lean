/-
  Model of the REST control surface: yabgp/api/v1.py (views and their decorator chains), yabgp/api/utils.py
  (log_request, makesure_peer_establish, the helpers that reach into the running BGPPeering), the parts of
  yabgp/core/protocol.py the views call (send_update, send_bin_update, send_route_refresh, construct_update_to_bin)
  and the behaviour of Flask / Flask-HTTPAuth the property depends on (405 for a method the rule does not accept,
  the automatic OPTIONS answer, `login_required`, 415 / 400 raised by `request.json`).

  A request arrives already routed: `handle rc r req s` is the answer to request `req` that matched rule `r` of the
  url_map (`Route` is what harness/gen_routes.py writes to Gen/Routes.lean on every run: rule, methods, whether Flask
  answers OPTIONS itself, the decorator names of the view outermost first, the view name), in session state `s`, with
  the API credentials `rc`.  The decorator chain is INTERPRETED in the order given by the route record, then the view
  runs.  Outputs (transport writes, connectTCP, loseConnection, handler callbacks) are appended to `Sess.outs`, as in
  the session model.

  The credentials check is the one of the repaired code (`fix: … non-ASCII password`, verify_password callback):
  valid = a non-empty user name equal to the configured one and a password equal to the configured one.
  The peer address in the URL is ignored by every view of the code, so it does not appear in the model.
  Not modelled: the text forms of extended communities (attribute 16, C17), MP_REACH / MP_UNREACH (14 / 15, C07),
  the Adj-RIB-Out / version bookkeeping done by send/update before the send (C19); the worker-thread / reactor-thread
  interleaving (a request is one atomic event here).
-/
import Yabgp.Model.Session

namespace Yabgp.Rest

/-- one rule of the url_map with the view behind it (the shape of `Yabgp.Gen.Routes.Route`) -/
structure Route where
  rule : String
  methods : List String
  autoOptions : Bool
  decorators : List String        -- outermost first
  view : String
  deriving DecidableEq, Repr

inductive Deco
  | loginRequired          -- flask_httpauth.HTTPAuth.login_required (auth = HTTPBasicAuth, verify_password = verify_pw)
  | logRequest             -- yabgp.api.utils.log_request
  | makesureEstablished    -- yabgp.api.utils.makesure_peer_establish
  | unknown
  deriving DecidableEq, Repr

def Deco.ofName (n : String) : Deco :=
  if n = "login_required" then .loginRequired
  else if n = "log_request" then .logRequest
  else if n = "makesure_peer_establish" then .makesureEstablished
  else .unknown

inductive View
  | peer | version | statistic | sendRouteRefresh | sendUpdate | manualStart | manualStop
  | adjRibIn | adjRibOut | jsonToBin | sendBinUpdate
  | root | index | static
  | unknown
  deriving DecidableEq, Repr

def View.ofName (n : String) : View :=
  if n = "peer" then .peer
  else if n = "get_peer_version" then .version
  else if n = "get_peer_statistic" then .statistic
  else if n = "send_route_refresh" then .sendRouteRefresh
  else if n = "send_update_message" then .sendUpdate
  else if n = "manual_start" then .manualStart
  else if n = "manual_stop" then .manualStop
  else if n = "search_adj_rib_in" then .adjRibIn
  else if n = "search_adj_rib_out" then .adjRibOut
  else if n = "json_to_bin" then .jsonToBin
  else if n = "send_bin_update" then .sendBinUpdate
  else if n = "root" then .root
  else if n = "index" then .index
  else if n = "static" then .static
  else .unknown

/-- the views that ask the protocol to put a BGP message on the wire -/
def View.isSend : View → Bool
  | .sendRouteRefresh | .sendUpdate | .sendBinUpdate => true
  | _ => false

/-! ### requests -/

/-- a JSON body that is not an object -/
inductive NonObj | null | number | string | list
  deriving DecidableEq, Repr

/-- `binary_data` of send/bin_update after the optional `format=human` re-joining -/
inductive BinData
  | absent                  -- key missing or a falsy value
  | notText                 -- not a string, or non-ASCII text: TypeError / ValueError, caught by `except Exception`
  | notHex                  -- binascii.Error (odd length, non-hexadecimal digit)
  | bytes (b : Bytes)       -- the octets asked for
  deriving DecidableEq, Repr

/-- the fields of a JSON object the views look at -/
structure JObj where
  attr : List (Nat × AttrVal) := []        -- `attr` (keys converted with int()), [] when absent / null / {}
  nlri : List Pfx := []
  withdraw : List Pfx := []
  afi : Option Nat := none
  safi : Option Nat := none
  res : Option Nat := none
  bin : BinData := .absent
  data : Bool := false                     -- `data` is a list of IPv4 prefixes (adj-rib queries)
  ribFam : Bool := true                    -- query argument afi_safi absent or 'ipv4'
  deriving DecidableEq, Repr

inductive Body
  | noJson                  -- no body / not application/json: request.json raises 415
  | badJson                 -- application/json that does not parse: 400
  | nonObj (k : NonObj)
  | obj (o : JObj)
  deriving DecidableEq, Repr

structure Request where
  method : String
  auth : Option (String × String)     -- (user, password) carried by the Authorization header, if it parses
  action : String := "send"           -- the <action> segment of /version/<action>
  body : Body := .noJson
  deriving DecidableEq, Repr

/-- CONF.rest.username / CONF.rest.password -/
structure RestCfg where
  user : String
  password : String
  deriving DecidableEq, Repr

/-! ### responses -/

/-- why an answer is `{"status": false}` (the `code` text of the real answer; informational) -/
inductive Why
  | peerState | checkPostData | sendFailed | afUnsupported | badAction | alreadyEstablished | idleHold
  | stopFailed | noInput | evenLength | ribError
  deriving DecidableEq, Repr

inductive RespBody
  | empty                       -- no content (HEAD, automatic OPTIONS)
  | unauthorized                -- "Unauthorized Access"
  | error                       -- an HTML error page (405, 415, 400, 404, 500)
  | statusTrue                  -- {"status": true}
  | statusFalse (w : Why)       -- {"status": false, "code": …}
  | statusData                  -- {"status": true, "data": …}
  | peer (st : St)              -- {"peer": {… "fsm": state …}}
  | version                     -- {"version": …}
  | stats (sent recv : Stats)   -- {"send": …, "receive": …}
  | bin (b : Bytes)             -- {"bin": hex}
  | json                        -- some other JSON document (API root)
  | unmodelled
  deriving DecidableEq, Repr

structure Response where
  status : Nat
  body : RespBody
  deriving DecidableEq, Repr

def ok (b : RespBody) : Response := ⟨200, b⟩
def refused (w : Why) : Response := ⟨200, .statusFalse w⟩
def serverError : Response := ⟨500, .error⟩
def unmodelled : Response := ⟨0, .unmodelled⟩

/-- the answer reports a successful operation -/
def Response.success (r : Response) : Bool := r.status = 200 ∧ r.body = .statusTrue

/-! ### authentication -/

/-- v1.verify_pw as Flask-HTTPAuth calls it: no (parsable) Authorization header gives ("", "") -/
def validCreds (rc : RestCfg) : Option (String × String) → Bool
  | none => false
  | some (u, p) => u ≠ "" ∧ u = rc.user ∧ p = rc.password

/-! ### what the views call in protocol.py -/

/-- the documented default: LOCAL_PREF 100 on an iBGP session when attributes are given without one
    (`attr[5] = 100` goes to the end of the dictionary) -/
def withDefaultLocalPref (cfg : Cfg) (attr : List (Nat × AttrVal)) : List (Nat × AttrVal) :=
  if attr ≠ [] ∧ dictGet attr C.tLocalPref = none ∧ cfg.remoteAs = cfg.localAs then
    attr ++ [(C.tLocalPref, .localPref 100)]
  else attr

def hasMp (attr : List (Nat × AttrVal)) : Bool :=
  (dictGet attr C.tMpReach).isSome || (dictGet attr C.tMpUnreach).isSome

/-- the message send/update and json_to_bin hand to the protocol -/
def requestedUpdate (cfg : Cfg) (o : JObj) : UpdMsg :=
  { attr := withDefaultLocalPref cfg o.attr, nlri := o.nlri, withdraw := o.withdraw }

/-- `(attr and nlri) or withdraw` -/
def sendable (m : UpdMsg) : Bool := (m.attr ≠ [] ∧ m.nlri ≠ []) ∨ m.withdraw ≠ []

/-- BGP.send_update through api_utils.send_update (add_path_ipv4_send is never set by the code: `false`) -/
def updSend (s : Sess) (m : UpdMsg) : Response × Sess :=
  match s.proto with
  | none => (serverError, s)                       -- AttributeError on None, not caught
  | some i =>
    match constructUpdate (s.conn i).asn4 false m with
    | some w => (ok .statusTrue, (s.writeOn i w).bumpSent i Sess.incUpdates)
    | none => (refused .sendFailed, s)             -- `except Exception: return False`

/-- BGP.construct_update_to_bin behind json_to_bin ("construct failed" is then fed to b2a_hex: 500) -/
def updToBin (s : Sess) (m : UpdMsg) : Response × Sess :=
  match s.proto with
  | none => (serverError, s)
  | some i =>
    match constructUpdate (s.conn i).asn4 false m with
    | some w => (ok (.bin w), s)
    | none => (serverError, s)

/-- the message type BGP.send_route_refresh picks from what the peer advertised -/
def rrType (r : CapaDict) : Option Nat :=
  if r.ciscoRouteRefresh then some C.msgCiscoRouteRefresh
  else if r.routeRefresh then some C.msgRouteRefresh
  else none

/-- BGP.send_route_refresh through api_utils.send_route_refresh (which catches every exception) -/
def rrSend (s : Sess) (afi safi res : Nat) : Response × Sess :=
  match s.proto with
  | none => (refused .sendFailed, s)
  | some i =>
    match rrType s.remote with
    | none => (refused .afUnsupported, s)
    | some ty =>
      match s.remote.afiSafi with
      | none => (refused .sendFailed, s)           -- KeyError 'afi_safi'
      | some l =>
        if (afi, safi) ∈ l then
          match constructRouteRefresh ty afi res safi with
          | some w => (ok .statusTrue, (s.writeOn i w).bumpSent i Sess.incRouteRefresh)
          | none => (refused .sendFailed, s)       -- struct.error
        else (refused .afUnsupported, s)

/-- BGP.send_bin_update: the octets go to the transport as they are and are counted as one UPDATE, like send_update
    (transport.write ignores an empty string, and nothing is counted for one) -/
def binSend (s : Sess) (b : Bytes) : Response × Sess :=
  match s.proto with
  | none => (refused .checkPostData, s)            -- AttributeError, caught by the view's `except Exception`
  | some i => if b = [] then (ok .statusTrue, s) else (ok .statusTrue, (s.writeOn i b).bumpSent i Sess.incUpdates)

/-! ### the views -/

/-- what `flask.request.get_json()` does with a body that is not a JSON document -/
def noDocument : Body → Option Response
  | .noJson => some ⟨415, .error⟩
  | .badJson => some ⟨400, .error⟩
  | _ => none

def viewSendUpdate (req : Request) (s : Sess) : Response × Sess :=
  match req.body with
  | .noJson => (⟨415, .error⟩, s)
  | .badJson => (⟨400, .error⟩, s)
  | .nonObj _ => (serverError, s)                  -- `.get` on None / a number / a string / a list
  | .obj o =>
    if hasMp o.attr then (unmodelled, s)
    else if sendable (requestedUpdate s.cfg o) then updSend s (requestedUpdate s.cfg o)
    else (refused .checkPostData, s)

def viewJsonToBin (req : Request) (s : Sess) : Response × Sess :=
  match req.body with
  | .noJson => (⟨415, .error⟩, s)
  | .badJson => (⟨400, .error⟩, s)
  | .nonObj _ => (serverError, s)
  | .obj o =>
    if hasMp o.attr then (unmodelled, s)
    else if sendable (requestedUpdate s.cfg o) then updToBin s (requestedUpdate s.cfg o)
    else (refused .checkPostData, s)

def viewSendRouteRefresh (req : Request) (s : Sess) : Response × Sess :=
  match req.body with
  | .noJson => (⟨415, .error⟩, s)
  | .badJson => (⟨400, .error⟩, s)
  | .nonObj .null => (serverError, s)              -- `'afi' in None`
  | .nonObj .number => (serverError, s)
  | .nonObj .string => (refused .checkPostData, s) -- substring test (the text does not contain "afi")
  | .nonObj .list => (refused .checkPostData, s)
  | .obj o =>
    match o.afi, o.safi with
    | some a, some sf => rrSend s a sf (o.res.getD 0)
    | _, _ => (refused .checkPostData, s)

def viewSendBinUpdate (req : Request) (s : Sess) : Response × Sess :=
  match req.body with
  | .noJson => (⟨415, .error⟩, s)
  | .badJson => (⟨400, .error⟩, s)
  | .nonObj _ => (serverError, s)
  | .obj o =>
    match o.bin with
    | .absent => (refused .noInput, s)
    | .notText => (refused .checkPostData, s)
    | .notHex => (refused .evenLength, s)
    | .bytes b => binSend s b

def viewAdjRib (req : Request) (s : Sess) : Response × Sess :=
  match req.body with
  | .noJson => (⟨415, .error⟩, s)
  | .badJson => (⟨400, .error⟩, s)
  | .nonObj _ => (serverError, s)
  | .obj o =>
    if o.data ∧ o.ribFam ∧ s.proto.isSome then (ok .statusData, s) else (refused .ribError, s)

def viewVersion (req : Request) (s : Sess) : Response × Sess :=
  if req.action = "send" ∨ req.action = "received" then
    match s.proto with
    | none => (serverError, s)
    | some _ => (ok .version, s)
  else (refused .badAction, s)

def viewStatistic (s : Sess) : Response × Sess :=
  match s.proto with
  | none => (serverError, s)
  | some i => (ok (.stats (s.conn i).sent (s.conn i).recv), s)

/-- api_utils.manual_start: BGPPeering.manual_start answers "EST", True or a falsy value -/
def viewManualStart (s : Sess) : Response × Sess :=
  match s.st with
  | .established => (refused .alreadyEstablished, s.manualStart)
  | .idle => (ok .statusTrue, s.manualStart)
  | _ => (refused .idleHold, s.manualStart)

/-- api_utils.manual_stop (an exception out of FSM.manual_stop is caught; that needs Established without a
    protocol, which no history reaches) -/
def viewManualStop (s : Sess) : Response × Sess :=
  if s.st = .established ∧ s.proto = none then (refused .stopFailed, s)
  else (ok .statusTrue, s.manualStop)

def runView (v : View) (req : Request) (s : Sess) : Response × Sess :=
  match v with
  | .peer => (ok (.peer s.st), s)
  | .version => viewVersion req s
  | .statistic => viewStatistic s
  | .sendRouteRefresh => viewSendRouteRefresh req s
  | .sendUpdate => viewSendUpdate req s
  | .manualStart => viewManualStart s
  | .manualStop => viewManualStop s
  | .adjRibIn => viewAdjRib req s
  | .adjRibOut => viewAdjRib req s
  | .jsonToBin => viewJsonToBin req s
  | .sendBinUpdate => viewSendBinUpdate req s
  | .root => (ok .json, s)
  | .index => (ok .json, s)
  | .static => (⟨404, .error⟩, s)
  | .unknown => (unmodelled, s)

/-! ### the decorator chain, outermost first -/

def runChain (rc : RestCfg) : List Deco → View → Request → Sess → Response × Sess
  | [], v, req, s => runView v req s
  | .loginRequired :: ds, v, req, s =>
      -- Flask-HTTPAuth does not authenticate OPTIONS requests (they reach a view only when the rule
      -- turned Flask's automatic answer off)
      if req.method = "OPTIONS" then runChain rc ds v req s
      else if validCreds rc req.auth then runChain rc ds v req s
      else (⟨401, .unauthorized⟩, s)
  | .logRequest :: ds, v, req, s =>
      -- `if request.method == 'POST': LOG.info(..., request.json)`
      if req.method = "POST" then
        match noDocument req.body with
        | some e => (e, s)
        | none => runChain rc ds v req s
      else runChain rc ds v req s
  | .makesureEstablished :: ds, v, req, s =>
      if s.st = .established then runChain rc ds v req s else (refused .peerState, s)
  | .unknown :: _, _, _, s => (unmodelled, s)

/-- a HEAD request runs the view and drops the content -/
def stripHead (req : Request) (r : Response × Sess) : Response × Sess :=
  if req.method = "HEAD" then ({ r.1 with body := .empty }, r.2) else r

/-- the answer to request `req` that matched rule `r`, in session state `s` -/
def handle (rc : RestCfg) (r : Route) (req : Request) (s : Sess) : Response × Sess :=
  if req.method ∉ r.methods then stripHead req (⟨405, .error⟩, s)          -- werkzeug, before any view code
  else if req.method = "OPTIONS" ∧ r.autoOptions then (ok .empty, s)        -- Flask's automatic OPTIONS answer
  else stripHead req (runChain rc (r.decorators.map Deco.ofName) (View.ofName r.view) req s)

/-- the url_map as the model and the driver know it; Props/C16.lean proves it equal to the table regenerated
    from /repo on every run -/
def routes : List Route := [
  ⟨"/static/<path:filename>", ["GET", "HEAD", "OPTIONS"], true, [], "static"⟩,
  ⟨"/v1/", ["GET", "HEAD", "OPTIONS"], true, ["log_request"], "root"⟩,
  ⟨"/v1/peer/<peer_ip>/state", ["GET", "HEAD", "OPTIONS"], true, ["login_required", "log_request"], "peer"⟩,
  ⟨"/v1/peer/<peer_ip>/version/<action>", ["GET", "HEAD", "OPTIONS"], true, ["login_required", "log_request"],
    "get_peer_version"⟩,
  ⟨"/v1/peer/<peer_ip>/statistic", ["GET", "HEAD", "OPTIONS"], true, ["login_required", "log_request"],
    "get_peer_statistic"⟩,
  ⟨"/v1/peer/<peer_ip>/send/route-refresh", ["OPTIONS", "POST"], true,
    ["login_required", "log_request", "makesure_peer_establish"], "send_route_refresh"⟩,
  ⟨"/v1/peer/<peer_ip>/send/update", ["OPTIONS", "POST"], true,
    ["login_required", "log_request", "makesure_peer_establish"], "send_update_message"⟩,
  ⟨"/v1/peer/<peer_ip>/manual-start", ["GET", "HEAD", "OPTIONS"], true, ["login_required", "log_request"],
    "manual_start"⟩,
  ⟨"/v1/peer/<peer_ip>/manual-stop", ["GET", "HEAD", "OPTIONS"], true, ["login_required", "log_request"],
    "manual_stop"⟩,
  ⟨"/v1/peer/<peer_ip>/adj-rib-in", ["OPTIONS", "POST"], true,
    ["login_required", "log_request", "makesure_peer_establish"], "search_adj_rib_in"⟩,
  ⟨"/v1/peer/<peer_ip>/adj-rib-out", ["OPTIONS", "POST"], true,
    ["login_required", "log_request", "makesure_peer_establish"], "search_adj_rib_out"⟩,
  ⟨"/v1/peer/<peer_ip>/json_to_bin", ["OPTIONS", "POST"], true,
    ["login_required", "log_request", "makesure_peer_establish"], "json_to_bin"⟩,
  ⟨"/v1/peer/<peer_ip>/send/bin_update", ["OPTIONS", "POST"], true,
    ["login_required", "log_request", "makesure_peer_establish"], "send_bin_update"⟩,
  ⟨"/", ["GET", "HEAD", "OPTIONS"], true, [], "index"⟩]

/-- the rule is under /v1/peer/ -/
def underPeer (r : Route) : Bool := "/v1/peer/".toList.isPrefixOf r.rule.toList

def findRoute (rule : String) : Option Route := routes.find? (fun r => r.rule = rule)

/-- a REST request as one more event of the session model: outputs of the previous event are dropped first -/
def restStep (rc : RestCfg) (r : Route) (req : Request) (w : World) : Response × World :=
  ((handle rc r req (w.sess.withOuts [])).1, { w with sess := (handle rc r req (w.sess.withOuts [])).2 })

end Yabgp.Rest
