/-
  Model of yabgp/message/update.py: Update.parse / parse_prefix_list / parse_attributes and
  Update.construct / construct_attributes / construct_prefix_v4 / construct_header.
-/
import Yabgp.Model.Attr

namespace Yabgp

/-- an IPv4 prefix as the code handles it: 32-bit address value, length, optional add-path id -/
structure Pfx where
  addr : Nat
  len : Nat
  pathId : Option Nat := none
  deriving DecidableEq, Repr

/-! ### parse_prefix_list -/

/-- `prefix_data[-1] &= 255 << (8 - remainder)` on the last octet present -/
def maskLast (rem : Nat) : Bytes → Bytes
  | [] => []
  | [x] => [u8 (x.toNat / 2 ^ (8 - rem) * 2 ^ (8 - rem))]
  | x :: r => x :: maskLast rem r

/-- first four octets, zero padded, as a 32-bit value -/
def addrOf (b : Bytes) : Nat :=
  (b.getD 0 0).toNat * 16777216 + (b.getD 1 0).toNat * 65536 + (b.getD 2 0).toNat * 256 + (b.getD 3 0).toNat

def pfxOctets (l : Nat) : Nat := (l + 7) / 8

/-- the address octets of one prefix, trailing bits of the last octet present masked -/
def pfxData (l : Nat) (rest : Bytes) : Bytes :=
  if l % 8 > 0 then maskLast (l % 8) (rest.take (pfxOctets l)) else rest.take (pfxOctets l)

/-- one iteration of the loop body after the optional path id: `none` = raises -/
def parseOnePrefix (pid : Option Nat) (b : Bytes) : Option (Pfx × Bytes) :=
  match b with
  | [] => none                                  -- postfix[0] IndexError (only reachable with add-path)
  | l :: rest =>
    if l.toNat > 32 then none
    else if l.toNat % 8 > 0 ∧ rest.take (pfxOctets l.toNat) = [] then none   -- prefix_data[-1] IndexError
    else some ({ addr := addrOf (pfxData l.toNat rest), len := l.toNat, pathId := pid },
               rest.drop (pfxOctets l.toNat))

/-- one loop iteration: optional path id, then the prefix -/
def stepPrefix (addpath : Bool) (b : Bytes) : Option (Pfx × Bytes) :=
  if addpath then
    match rd32 b with
    | none => none                              -- struct.unpack('!I', <4 octets)
    | some (pid, r) => parseOnePrefix (some pid) r
  else parseOnePrefix none b

theorem parseOnePrefix_length {pid : Option Nat} {b r : Bytes} {p : Pfx}
    (h : parseOnePrefix pid b = some (p, r)) : r.length < b.length := by
  unfold parseOnePrefix at h
  split at h
  · simp at h
  · split at h
    · simp at h
    · split at h
      · simp at h
      · simp only [Option.some.injEq, Prod.mk.injEq] at h
        rw [← h.2]; simp; omega

theorem stepPrefix_length {addpath : Bool} {b r : Bytes} {p : Pfx}
    (h : stepPrefix addpath b = some (p, r)) : r.length < b.length := by
  unfold stepPrefix at h
  split at h
  · split at h
    · simp at h
    · rename_i pid r' hr
      have := rd32_length hr
      have := parseOnePrefix_length h
      omega
  · exact parseOnePrefix_length h

def parsePrefixList (addpath : Bool) (b : Bytes) : Option (List Pfx) :=
  match b with
  | [] => some []
  | x :: xs =>
    match h : stepPrefix addpath (x :: xs) with
    | none => none
    | some (p, r) =>
      match parsePrefixList addpath r with
      | some ps => some (p :: ps)
      | none => none
termination_by b.length
decreasing_by exact stepPrefix_length h

theorem parsePrefixList_cons (addpath : Bool) (x : UInt8) (xs : Bytes) :
    parsePrefixList addpath (x :: xs) =
      match stepPrefix addpath (x :: xs) with
      | none => none
      | some (p, r) =>
        match parsePrefixList addpath r with
        | some ps => some (p :: ps)
        | none => none := by
  rw [parsePrefixList]
  split <;> simp_all

/-! ### parse_attributes -/

/-- Python dict assignment `d[k] = v` on an insertion-ordered association list -/
def dictSet (d : List (Nat × AttrVal)) (k : Nat) (v : AttrVal) : List (Nat × AttrVal) :=
  match d with
  | [] => [(k, v)]
  | (k', v') :: r => if k' = k then (k, v) :: r else (k', v') :: dictSet r k v

def dictGet (d : List (Nat × AttrVal)) (k : Nat) : Option AttrVal :=
  match d with
  | [] => none
  | (k', v') :: r => if k' = k then some v' else dictGet r k

/-- type codes whose value decoder lives in another model file (MP, ext. community, PMSI, BGP-LS,
    prefix-SID); `parseAttrValue` answers `unmodelled` for them until they are plugged in below -/
def otherModelCodes : List Nat := [14, 15, 16, 22, 29, 40]

def parseAttrValue (asn4 : Bool) (code : Nat) (v : Bytes) : R AttrVal :=
  if code = C.tOrigin then parseOrigin v
  else if code = C.tAsPath then (parseAsPath asn4 v).map .asPath
  else if code = C.tNextHop then parseNextHop v
  else if code = C.tMed then (parseU32 v).map .med
  else if code = C.tLocalPref then (parseU32 v).map .localPref
  else if code = C.tAtomicAgg then parseAtomicAgg v
  else if code = C.tAggregator then parseAggregator asn4 v
  else if code = C.tCommunity then parseCommunity v
  else if code = C.tOriginatorId then parseOriginatorId v
  else if code = C.tClusterList then parseClusterList v
  else if code = C.tAs4Path then (parseAsPath true v).map .asPath
  else if code = C.tAs4Aggregator then parseAggregator true v
  else if code = C.tLargeCommunity then parseLargeCommunity v
  else if code ∈ otherModelCodes then .ok (.unmodelled code)
  else .ok (.raw v)

/-- one attribute header: flags, type, value, rest; `none` = the header itself is truncated -/
def splitAttr (b : Bytes) : Option (Nat × Nat × Bytes × Bytes) :=
  match b with
  | f :: t :: rest =>
    if f.toNat / 16 % 2 = 1 then
      match rd16 rest with
      | some (n, r) => some (f.toNat, t.toNat, r.take n, r.drop n)
      | none => none
    else
      match rest with
      | n :: r => some (f.toNat, t.toNat, r.take n.toNat, r.drop n.toNat)
      | [] => none
  | _ => none

theorem splitAttr_length {b v r : Bytes} {f t : Nat} (h : splitAttr b = some (f, t, v, r)) :
    r.length < b.length := by
  unfold splitAttr at h
  split at h
  · rename_i f' t' rest
    split at h
    · split at h
      · rename_i n r' hr
        simp only [Option.some.injEq, Prod.mk.injEq] at h
        have := rd16_length hr
        rw [← h.2.2.2]; simp; omega
      · simp at h
    · split at h
      · simp only [Option.some.injEq, Prod.mk.injEq] at h
        rw [← h.2.2.2]; simp; omega
      · simp at h
  · simp at h

/-- the loop of parse_attributes: the dictionary built so far and the error sub-code, if any.
    (`UpdateMessageError(sub)` keeps `sub`; any other exception becomes sub-code 1.) -/
def parseAttrLoop (asn4 : Bool) (acc : List (Nat × AttrVal)) (b : Bytes) :
    List (Nat × AttrVal) × Option Nat :=
  match b with
  | [] => (acc, none)
  | x :: xs =>
    match h : splitAttr (x :: xs) with
    | none => (acc, some C.eMalformedAttrList)
    | some (_, t, v, r) =>
      match parseAttrValue asn4 t v with
      | .error (.upd s) => (acc, some s)
      | .error .other => (acc, some C.eMalformedAttrList)
      | .ok val => parseAttrLoop asn4 (dictSet acc t val) r
termination_by b.length
decreasing_by exact splitAttr_length h

def parseAttributes (asn4 : Bool) (b : Bytes) : List (Nat × AttrVal) × Option Nat :=
  parseAttrLoop asn4 [] b

/-! ### Update.parse -/

structure UpdResult where
  withdraw : List Pfx
  nlri : List Pfx
  attr : List (Nat × AttrVal)
  subError : Option Nat
  deriving DecidableEq, Repr

/-- `none` = an exception escapes Update.parse (the two length fields are out of range) -/
def parseUpdate (asn4 addpath : Bool) (msg : Bytes) : Option UpdResult :=
  match unpackH (slice msg 0 2) with
  | none => none
  | some wl =>
    match unpackH (slice msg (wl + 2) (wl + 4)) with
    | none => none
    | some al =>
      let wdata := slice msg 2 (wl + 2)
      let adata := slice msg (wl + 4) (wl + 4 + al)
      let ndata := msg.drop (wl + 4 + al)
      let (w, n, perr) :=
        match parsePrefixList addpath wdata with
        | none => (([] : List Pfx), ([] : List Pfx), some C.eInvalidNetworkField)
        | some w =>
          match parsePrefixList addpath ndata with
          | none => (w, [], some C.eInvalidNetworkField)
          | some n => (w, n, none)
      let (attrs, aerr) := parseAttributes asn4 adata
      some { withdraw := w, nlri := n, attr := attrs,
             subError := match aerr with
                         | some e => some e
                         | none => perr }

/-! ### construct -/

def prefixOctets (len : Nat) : Nat :=
  if len = 0 then 0 else if len ≤ 8 then 1 else if len ≤ 16 then 2 else if len ≤ 24 then 3 else 4

def constructPrefix (addpath : Bool) (p : Pfx) : Option Bytes :=
  if p.len > 32 ∨ ¬ p.addr < 4294967296 then none
  else
    let body := be8 p.len ++ (be32 p.addr).take (prefixOctets p.len)
    match p.pathId with
    | none => some body
    | some pid =>
      if addpath then (if pid < 4294967296 then some (be32 pid ++ body) else none)
      else none                                   -- dict without add-path: `.split` on a dict raises

def constructPrefixV4 (addpath : Bool) : List Pfx → Option Bytes
  | [] => some []
  | p :: ps => do
      let a ← constructPrefix addpath p
      let b ← constructPrefixV4 addpath ps
      pure (a ++ b)

/-- type codes construct_attributes has a branch for and that this file models -/
def constructCodes : List Nat := [1, 2, 3, 4, 5, 6, 7, 8, 9, 10, 32]
/-- type codes construct_attributes has a branch for, modelled elsewhere -/
def constructOtherCodes : List Nat := [14, 15, 16, 22, 23]

def constructAttributes (asn4 : Bool) : List (Nat × AttrVal) → Option Bytes
  | [] => some []
  | (code, v) :: r => do
      let a ← (if code ∈ constructCodes then constructAttr asn4 code v
               else if code ∈ constructOtherCodes then none
               else some [])                      -- no branch: silently skipped
      let b ← constructAttributes asn4 r
      pure (a ++ b)

def marker : Bytes := List.replicate 16 (0xff : UInt8)

def constructHeader (ty : Nat) (body : Bytes) : Option Bytes :=
  if body.length + 19 < 65536 then some (marker ++ be16 (body.length + 19) ++ be8 ty ++ body) else none

structure UpdMsg where
  attr : List (Nat × AttrVal)
  nlri : List Pfx
  withdraw : List Pfx
  deriving DecidableEq, Repr

def constructUpdateBody (asn4 addpath : Bool) (m : UpdMsg) : Option Bytes := do
  let a ← constructAttributes asn4 m.attr
  let n ← constructPrefixV4 addpath m.nlri
  let w ← constructPrefixV4 addpath m.withdraw
  if w.length < 65536 ∧ a.length < 65536 then
    pure (be16 w.length ++ w ++ be16 a.length ++ a ++ n)
  else none

def constructUpdate (asn4 addpath : Bool) (m : UpdMsg) : Option Bytes := do
  let body ← constructUpdateBody asn4 addpath m
  constructHeader C.msgUpdate body

end Yabgp
