/-
  What an auditor (Spec/LogSpec.lean) sees of a directory of the model (Model/MsgLog.lean): the bridge between
  the two, used by the statements of Props/C20.lean and by the driver.  A line is a record for the auditor
  exactly when it is one complete record in the model; the torn bytes are the length of the tail.
-/
import Yabgp.Model.MsgLog
import Yabgp.Spec.LogSpec

namespace Yabgp.MsgLog
open Yabgp.LogSpec

def viewLine : Line → SLine
  | .record r => .record r.seq
  | .junk _ => .broken

def viewLines : List Line → List SLine
  | [] => []
  | l :: ls => viewLine l :: viewLines ls

def viewFile (f : File) : SFile := { name := f.name, lines := viewLines f.lines, torn := tailBytes f.tail }

def view : List File → List SFile
  | [] => []
  | f :: fs => viewFile f :: view fs

/-- the audit of the model's directory -/
def auditWorld (w : World) : Bool := audit (view w.fs) w.h.isSome

end Yabgp.MsgLog
