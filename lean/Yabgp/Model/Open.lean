/-
  Model of yabgp/message/open.py (Open.parse / Open.construct / Capability.*), notification.py,
  keepalive.py and route_refresh.py.
-/
import Yabgp.Model.Update

namespace Yabgp

/-- exception classes the callers of Open.parse distinguish -/
inductive OErr
  | hdr (sub : Nat)      -- MessageHeaderError(sub)
  | open (sub : Nat)     -- OpenMessageError(sub)
  | other                -- anything else (struct.error, KeyError, ...)
  deriving DecidableEq, Repr

/-- the `capa_dict` Open.parse builds -/
structure CapaDict where
  fourBytesAs : Bool := false
  afiSafi : Option (List (Nat × Nat)) := none
  routeRefresh : Bool := false
  ciscoRouteRefresh : Bool := false
  gracefulRestart : Bool := false
  ciscoMultiSession : Bool := false
  enhancedRouteRefresh : Bool := false
  addPath : Option (List (Nat × Nat × Nat)) := none        -- (afi, safi, send/receive)
  llgr : Option (List (Nat × Nat × Nat)) := none           -- (afi, safi, time)
  extNexthop : Option (List (Nat × Nat × Nat)) := none     -- (afi, safi, nexthop afi)
  unknown : List (Nat × Bytes) := []                       -- str(code) ↦ repr(value), later wins
  deriving DecidableEq, Repr

structure OpenMsg where
  version : Nat
  asn : Nat
  holdTime : Nat
  bgpId : Nat
  caps : CapaDict
  deriving DecidableEq, Repr

/-- (afi, safi) pairs of AFI_SAFI_DICT; proved equal to the generated table in GenAgree -/
def afiSafiKnown : List (Nat × Nat) :=
  [(1, 1), (1, 2), (2, 1), (1, 4), (2, 4), (1, 133), (1, 128), (2, 128), (25, 70), (16388, 71), (1, 73), (2, 133)]

def unknownSet (d : List (Nat × Bytes)) (k : Nat) (v : Bytes) : List (Nat × Bytes) :=
  match d with
  | [] => [(k, v)]
  | (k', v') :: r => if k' = k then (k, v) :: r else (k', v') :: unknownSet r k v

/-- the ADD_PATH value loop: `while len(v) % 4 == 0 and v:` -/
def addPathLoop (acc : List (Nat × Nat × Nat)) (v : Bytes) : Except OErr (List (Nat × Nat × Nat)) :=
  match v with
  | a :: b :: c :: d :: r =>
    if (a :: b :: c :: d :: r).length % 4 = 0 then
      if (a.toNat * 256 + b.toNat, c.toNat) ∈ afiSafiKnown ∧ 1 ≤ d.toNat ∧ d.toNat ≤ 3 then
        addPathLoop (acc ++ [(a.toNat * 256 + b.toNat, c.toNat, d.toNat)]) r
      else addPathLoop acc r                              -- a family / action without a name is ignored (RFC 5492)
    else .ok acc
  | _ => .ok acc

/-- the LLGR value loop: `while len(v) >= 7` -/
def llgrLoop (acc : List (Nat × Nat × Nat)) (v : Bytes) : List (Nat × Nat × Nat) :=
  match v with
  | a :: b :: c :: _ :: t1 :: t2 :: t3 :: r =>
    llgrLoop (acc ++ [(a.toNat * 256 + b.toNat, c.toNat, t1.toNat * 65536 + t2.toNat * 256 + t3.toNat)]) r
  | _ => acc

/-- the extended-next-hop value loop: `while len(v) > 0: unpack('!HHH', v[:6])` -/
def extNhLoop (acc : List (Nat × Nat × Nat)) (v : Bytes) : Except OErr (List (Nat × Nat × Nat)) :=
  match v with
  | [] => .ok acc
  | a :: b :: c :: d :: e :: f :: r =>
    extNhLoop (acc ++ [(a.toNat * 256 + b.toNat, c.toNat * 256 + d.toNat, e.toNat * 256 + f.toNat)]) r
  | _ => .error .other

/-- the effect of one capability (code, value) on (asn, capa_dict) -/
def applyCap (asn : Nat) (d : CapaDict) (code : Nat) (v : Bytes) : Except OErr (Nat × CapaDict) :=
  if code = 65 then
    match unpackI v with
    | some a => .ok (a, { d with fourBytesAs := true })
    | none => .error .other
  else if code = 1 then
    match v with
    | [a, b, _, s] => .ok (asn, { d with afiSafi := some ((d.afiSafi.getD []) ++ [(a.toNat * 256 + b.toNat, s.toNat)]) })
    | _ => .error .other
  else if code = 2 then .ok (asn, { d with routeRefresh := true })
  else if code = 128 then .ok (asn, { d with ciscoRouteRefresh := true })
  else if code = 64 then .ok (asn, { d with gracefulRestart := true })
  else if code = 131 then .ok (asn, { d with ciscoMultiSession := true })
  else if code = 70 then .ok (asn, { d with enhancedRouteRefresh := true })
  else if code = 69 then
    match addPathLoop (d.addPath.getD []) v with
    | .ok l => .ok (asn, { d with addPath := some l })
    | .error e => .error e
  else if code = 71 then .ok (asn, { d with llgr := some (llgrLoop [] v) })
  else if code = 5 then
    match extNhLoop [] v with
    | .ok l => .ok (asn, { d with extNexthop := some l })
    | .error e => .error e
  else .ok (asn, { d with unknown := unknownSet d.unknown code v })

/-- the inner `while capabilities:` loop over one optional parameter's value -/
def capsLoop (st : Nat × CapaDict) (b : Bytes) : Except OErr (Nat × CapaDict) :=
  match b with
  | [] => .ok st
  | [_] => .error (.open C.hdrBadLen)          -- Capability.parse: OpenMessageError(sub_error=ERR_MSG_HDR_BAD_MSG_LEN)
  | c :: l :: rest =>
    match applyCap st.1 st.2 c.toNat (rest.take l.toNat) with
    | .ok st' => capsLoop st' (rest.drop l.toNat)
    | .error e => .error e
termination_by b.length
decreasing_by simp; omega

/-- the outer `while self.opt_paras:` loop -/
def optParasLoop (st : Nat × CapaDict) (b : Bytes) : Except OErr (Nat × CapaDict) :=
  match b with
  | [] => .ok st
  | [_] => .error .other                       -- struct.unpack('!BB', 1 octet)
  | t :: l :: rest =>
    if t.toNat ≠ 2 then .error (.open C.openUnsupOptParam)
    else
      match capsLoop st (rest.take l.toNat) with
      | .ok st' => optParasLoop st' (rest.drop l.toNat)
      | .error e => .error e
termination_by b.length
decreasing_by simp; omega

def parseOpen (msg : Bytes) : Except OErr OpenMsg :=
  match msg with
  | v :: a1 :: a2 :: h1 :: h2 :: i1 :: i2 :: i3 :: i4 :: ol :: rest =>
    if v.toNat ≠ 4 then .error (.open C.openBadVersion)
    else if a1.toNat * 256 + a2.toNat = 0 then .error (.open C.openBadPeerAs)
    else
      if ol.toNat = 0 then
        .ok { version := 4, asn := a1.toNat * 256 + a2.toNat, holdTime := h1.toNat * 256 + h2.toNat,
              bgpId := i1.toNat * 16777216 + i2.toNat * 65536 + i3.toNat * 256 + i4.toNat, caps := {} }
      else
        match optParasLoop (a1.toNat * 256 + a2.toNat, {}) rest with
        | .ok st => .ok { version := 4, asn := st.1, holdTime := h1.toNat * 256 + h2.toNat,
                          bgpId := i1.toNat * 16777216 + i2.toNat * 65536 + i3.toNat * 256 + i4.toNat, caps := st.2 }
        | .error e => .error e
  | _ => .error (.hdr C.hdrBadLen)

/-! ### Open.construct -/

/-- the local capability dictionary (`running_config['capability']['local']`) as Open.construct reads it -/
structure LocalCaps where
  afiSafi : Option (List (Nat × Nat)) := none     -- key present?
  ciscoRouteRefresh : Bool := false               -- truthiness of the value (absent = false)
  routeRefresh : Bool := false
  fourBytesAs : Bool := false
  extNexthop : Option (List (Nat × Nat × Nat)) := none
  addPath : Option Nat := none                    -- 1 receive, 2 send, 3 both (from the string)
  enhancedRouteRefresh : Bool := false
  gracefulRestart : Bool := false                 -- never encoded; kept because negotiation pops it
  ciscoMultiSession : Bool := false
  deriving DecidableEq, Repr

def encMp (l : List (Nat × Nat)) : Bytes :=
  l.flatMap fun p => [2, 6, 1, 4] ++ be16 p.1 ++ [0] ++ be8 p.2

def encExtNh (l : List (Nat × Nat × Nat)) : Bytes :=
  l.flatMap fun t => be16 t.1 ++ be16 t.2.1 ++ be16 t.2.2

def mpOk (l : List (Nat × Nat)) : Bool := l.all fun p => p.1 < 65536 ∧ p.2 < 256
def extNhOk (l : List (Nat × Nat × Nat)) : Bool := l.all fun t => t.1 < 65536 ∧ t.2.1 < 65536 ∧ t.2.2 < 65536

def capMp (c : LocalCaps) : Option Bytes :=
  match c.afiSafi with
  | some l => if mpOk l then some (encMp l) else none
  | none => some []

def capCrr (c : LocalCaps) : Bytes := if c.ciscoRouteRefresh then [2, 2, 128, 0] else []
def capRr (c : LocalCaps) : Bytes := if c.routeRefresh then [2, 2, 2, 0] else []

def capAs4 (asn : Nat) (c : LocalCaps) : Option Bytes :=
  if asn > 65535 ∨ c.fourBytesAs then
    (if asn < 4294967296 then some ([2, 6, 65, 4] ++ be32 asn) else none)
  else some []

def capEnh (c : LocalCaps) : Option Bytes :=
  match c.extNexthop with
  | some l =>
      if extNhOk l ∧ (encExtNh l).length + 2 < 256 then
        some ([2] ++ be8 ((encExtNh l).length + 2) ++ [5] ++ be8 (encExtNh l).length ++ encExtNh l)
      else none
  | none => some []

def capAp (c : LocalCaps) : Option Bytes :=
  match c.addPath with
  | some v => if 1 ≤ v ∧ v ≤ 3 then some ([2, 6, 69, 4, 0, 1, 1] ++ be8 v) else none
  | none => some []

def capErr (c : LocalCaps) : Bytes := if c.enhancedRouteRefresh then [2, 2, 70, 0] else []

/-- the capability block of Open.construct; `none` = raises -/
def constructCaps (asn : Nat) (c : LocalCaps) : Option Bytes :=
  match capMp c, capAs4 asn c, capEnh c, capAp c with
  | some mp, some as4, some enh, some ap => some (mp ++ capCrr c ++ capRr c ++ as4 ++ enh ++ ap ++ capErr c)
  | _, _, _, _ => none

def constructOpen (version asn hold bgpId : Nat) (c : LocalCaps) : Option Bytes := do
  let capas ← constructCaps asn c
  let asField := if asn > 65535 then C.asTrans else asn
  if version < 256 ∧ hold < 65536 ∧ bgpId < 4294967296 ∧ capas.length < 256 then
    constructHeader C.msgOpen (be8 version ++ be16 asField ++ be16 hold ++ be32 bgpId ++ be8 capas.length ++ capas)
  else none

/-! ### NOTIFICATION, KEEPALIVE, ROUTE-REFRESH -/

/-- Notification.parse: `none` = raises (fewer than 2 octets) -/
def parseNotification (b : Bytes) : Option (Nat × Nat × Bytes) :=
  match b with
  | e :: s :: d => some (e.toNat, s.toNat, d)
  | _ => none

def constructNotification (err sub : Nat) (data : Bytes) : Option Bytes :=
  if err < 256 ∧ sub < 256 then constructHeader C.msgNotification (be8 err ++ be8 sub ++ data) else none

/-- KeepAlive.parse: ok iff the body is empty, else MessageHeaderError(2) -/
def parseKeepalive (b : Bytes) : Except OErr Unit :=
  if b = [] then .ok () else .error (.hdr C.hdrBadLen)

def constructKeepalive : Bytes := marker ++ be16 19 ++ be8 C.msgKeepalive

/-- RouteRefresh.parse: exactly 4 octets, else raises -/
def parseRouteRefresh (b : Bytes) : Option (Nat × Nat × Nat) :=
  match b with
  | [a, b', r, s] => some (a.toNat * 256 + b'.toNat, r.toNat, s.toNat)
  | _ => none

def constructRouteRefresh (ty afi res safi : Nat) : Option Bytes :=
  if afi < 65536 ∧ res < 256 ∧ safi < 256 ∧ ty < 256 then
    constructHeader ty (be16 afi ++ be8 res ++ be8 safi)
  else none

end Yabgp
