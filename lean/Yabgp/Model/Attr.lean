/-
  Model of the standard path attributes of yabgp/message/attribute/*.py:
  `X.parse(value)` and `X.construct(value)` for ORIGIN, AS_PATH, NEXT_HOP, MED, LOCAL_PREF,
  ATOMIC_AGGREGATE, AGGREGATOR, COMMUNITIES, ORIGINATOR_ID, CLUSTER_LIST, LARGE_COMMUNITY
  (+ AS4_PATH / AS4_AGGREGATOR on the decode side).  Values are structured; the text the
  Python code renders (dotted quads, "a:b") is the business of `Model/Text.lean`.
  Import-free apart from Base.
-/
import Yabgp.Base.Bytes
import Yabgp.Model.Consts

namespace Yabgp

/-- the only error classes the code distinguishes (DESIGN §4.3) -/
inductive Err
  | upd (sub : Nat)      -- UpdateMessageError(sub_error=sub)
  | other                -- any other Python exception
  deriving DecidableEq, Repr

abbrev R := Except Err

inductive AttrVal
  | origin (n : Nat)
  | asPath (segs : List (Nat × List Nat))
  | nextHop (ip : Nat)
  | med (n : Nat)
  | localPref (n : Nat)
  | atomicAgg
  | aggregator (asn ip : Nat)
  | community (cs : List Nat)
  | originatorId (ip : Nat)
  | clusterList (ips : List Nat)
  | largeCommunity (xs : List (Nat × Nat × Nat))
  | raw (b : Bytes)               -- unknown type code: rendered as hex
  | unmodelled (code : Nat)       -- type code whose decoder is modelled elsewhere / not yet
  deriving DecidableEq, Repr

/-! ### decoders -/

def parseOrigin (v : Bytes) : R AttrVal :=
  match v with
  | [] => .error .other                      -- ord(b'') raises TypeError
  | a :: _ => if a.toNat ≤ 2 then .ok (.origin a.toNat) else .error (.upd C.eInvalidOrigin)

def asWidth (asn4 : Bool) : Nat := if asn4 then 4 else 2

/-- read `n` AS numbers from a byte string that is long enough -/
def decAsns (asn4 : Bool) : Nat → Bytes → List Nat
  | 0, _ => []
  | n+1, b =>
    if asn4 then
      match rd32 b with
      | some (x, r) => x :: decAsns asn4 n r
      | none => []
    else
      match rd16 b with
      | some (x, r) => x :: decAsns asn4 n r
      | none => []

def parseAsPath (asn4 : Bool) (v : Bytes) : R (List (Nat × List Nat)) :=
  match v with
  | [] => .ok []
  | [_] => .error .other                     -- struct.unpack('!BB', 1 octet) outside the try
  | t :: n :: rest =>
    if t.toNat < 1 ∨ 4 < t.toNat then .error (.upd C.eMalformedAsPath)
    else if rest.length < n.toNat * asWidth asn4 then .error (.upd C.eAttrLen)
    else
      match parseAsPath asn4 (rest.drop (n.toNat * asWidth asn4)) with
      | .ok segs => .ok ((t.toNat, decAsns asn4 n.toNat rest) :: segs)
      | .error e => .error e
termination_by v.length
decreasing_by simp; omega

def parseNextHop (v : Bytes) : R AttrVal :=
  if v.length % 4 = 0 then
    match rd32 v with
    | some (x, _) => .ok (.nextHop x)
    | none => .error .other                  -- int(b2a_hex(b''), 16) raises ValueError
  else .error (.upd C.eAttrLen)

def parseU32 (v : Bytes) : R Nat :=
  match unpackI v with
  | some x => .ok x
  | none => .error (.upd C.eAttrLen)

def parseAtomicAgg (v : Bytes) : R AttrVal :=
  if v = [] then .ok .atomicAgg else .error (.upd C.eOptionalAttr)

def parseAggregator (asn4 : Bool) (v : Bytes) : R AttrVal :=
  if asn4 then
    match unpackI (v.take 4), unpackI (v.drop 4) with
    | some a, some ip => .ok (.aggregator a ip)
    | _, _ => .error (.upd C.eAttrLen)
  else
    match unpackH (v.take 2), unpackI (v.drop 2) with
    | some a, some ip => .ok (.aggregator a ip)
    | _, _ => .error (.upd C.eAttrLen)

/-- a whole byte string as 32-bit big-endian words (length a multiple of 4) -/
def words32 : Bytes → List Nat
  | a :: b :: c :: d :: r =>
      (a.toNat * 16777216 + b.toNat * 65536 + c.toNat * 256 + d.toNat) :: words32 r
  | _ => []

def parseCommunity (v : Bytes) : R AttrVal :=
  if v.length % 4 = 0 then .ok (.community (words32 v)) else .error (.upd C.eAttrLen)

def parseOriginatorId (v : Bytes) : R AttrVal :=
  match unpackI v with
  | some x => .ok (.originatorId x)
  | none => .error (.upd C.eAttrLen)

def parseClusterList (v : Bytes) : R AttrVal :=
  if v.length % 4 = 0 then .ok (.clusterList (words32 v)) else .error (.upd C.eAttrLen)

def triples : List Nat → List (Nat × Nat × Nat)
  | a :: b :: c :: r => (a, b, c) :: triples r
  | _ => []

def parseLargeCommunity (v : Bytes) : R AttrVal :=
  if v.length % 12 = 0 then .ok (.largeCommunity (triples (words32 v))) else .error (.upd C.eAttrLen)

/-! ### encoders (`none` = the Python constructor raises) -/

def encAsns (asn4 : Bool) (xs : List Nat) : Bytes :=
  xs.flatMap fun x => if asn4 then be32 x else be16 x

def asnOk (asn4 : Bool) (x : Nat) : Bool := if asn4 then x < 4294967296 else x < 65536

def encSegment (asn4 : Bool) (s : Nat × List Nat) : Option Bytes :=
  if s.1 < 256 ∧ s.2.length < 256 ∧ s.2.all (asnOk asn4) then
    some (be8 s.1 ++ be8 s.2.length ++ encAsns asn4 s.2)
  else none

def encSegments (asn4 : Bool) : List (Nat × List Nat) → Option Bytes
  | [] => some []
  | s :: r => do
      let a ← encSegment asn4 s
      let b ← encSegments asn4 r
      pure (a ++ b)

/-- attribute header with a 1-octet length, or (AS_PATH only) 2-octet when > 255 -/
def attrHdr1 (flag code : Nat) (body : Bytes) : Option Bytes :=
  if body.length < 256 then some (be8 flag ++ be8 code ++ be8 body.length ++ body) else none

def constructAsPath (asn4 : Bool) (segs : List (Nat × List Nat)) : Option Bytes := do
  let raw ← encSegments asn4 segs
  if raw.length > 255 then
    if raw.length < 65536 then
      pure (be8 (C.fAsPath + C.fExtLen) ++ be8 C.tAsPath ++ be16 raw.length ++ raw)
    else none
  else pure (be8 C.fAsPath ++ be8 C.tAsPath ++ be8 raw.length ++ raw)

def ip4Ok (x : Nat) : Bool := x < 4294967296

def constructAttr (asn4 : Bool) (code : Nat) (v : AttrVal) : Option Bytes :=
  match v with
  | .origin n =>
      if code = C.tOrigin then
        if n ≤ 2 then some (be8 C.fOrigin ++ be8 C.tOrigin ++ be8 1 ++ be8 n) else none
      else none
  | .asPath segs => if code = C.tAsPath then constructAsPath asn4 segs else none
  | .nextHop ip =>
      if code = C.tNextHop ∧ ip4Ok ip then some (be8 C.fNextHop ++ be8 C.tNextHop ++ be8 4 ++ be32 ip) else none
  | .med n =>
      if code = C.tMed ∧ n < 4294967296 then some (be8 C.fMed ++ be8 C.tMed ++ be8 4 ++ be32 n) else none
  | .localPref n =>
      if code = C.tLocalPref ∧ n < 4294967296 then
        some (be8 C.fLocalPref ++ be8 C.tLocalPref ++ be8 4 ++ be32 n) else none
  | .atomicAgg => if code = C.tAtomicAgg then some (be8 C.fAtomicAgg ++ be8 C.tAtomicAgg ++ be8 0) else none
  | .aggregator a ip =>
      if code = C.tAggregator ∧ asnOk asn4 a ∧ ip4Ok ip then
        attrHdr1 C.fAggregator C.tAggregator ((if asn4 then be32 a else be16 a) ++ be32 ip)
      else none
  | .community cs =>
      if code = C.tCommunity ∧ cs.all (· < 4294967296) then
        attrHdr1 C.fCommunity C.tCommunity (cs.flatMap be32)
      else none
  | .originatorId ip =>
      if code = C.tOriginatorId ∧ ip4Ok ip then
        some (be8 C.fOriginatorId ++ be8 C.tOriginatorId ++ be8 4 ++ be32 ip) else none
  | .clusterList ips =>
      if code = C.tClusterList ∧ ips.all ip4Ok then
        attrHdr1 C.fClusterList C.tClusterList (ips.flatMap be32)
      else none
  | .largeCommunity xs =>
      if code = C.tLargeCommunity ∧ xs.all (fun t => t.1 < 4294967296 ∧ t.2.1 < 4294967296 ∧ t.2.2 < 4294967296) then
        attrHdr1 C.fLargeCommunity C.tLargeCommunity (xs.flatMap fun t => be32 t.1 ++ be32 t.2.1 ++ be32 t.2.2)
      else none
  | .raw _ => none
  | .unmodelled _ => none

end Yabgp
