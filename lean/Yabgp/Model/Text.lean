/-
  Text forms the Python code renders and accepts (DESIGN §4.4): decimal integers, IPv4 dotted
  quads, communities "a:b" / well-known names, large communities "a:b:c".
  Own definitions on `List Char` so that the inverse laws can be proved (Props/C17, C06).
-/
import Yabgp.Base.Bytes

namespace Yabgp.Text

def digitChar (d : Nat) : Char := Char.ofNat (48 + d)

/-- decimal digits, least significant first -/
def decRev (n : Nat) : List Char :=
  if h : n < 10 then [digitChar n] else digitChar (n % 10) :: decRev (n / 10)
termination_by n
decreasing_by omega

/-- `str(n)` / `'%s' % n` for a non-negative int -/
def decStr (n : Nat) : List Char := (decRev n).reverse

def digitVal (c : Char) : Option Nat :=
  if 48 ≤ c.toNat ∧ c.toNat ≤ 57 then some (c.toNat - 48) else none

def parseDecAux : Nat → List Char → Option Nat
  | acc, [] => some acc
  | acc, c :: r =>
    match digitVal c with
    | some d => parseDecAux (acc * 10 + d) r
    | none => none

/-- `int(s)` restricted to non-empty strings of ASCII digits (what the decoder renders) -/
def parseDec (s : List Char) : Option Nat :=
  match s with
  | [] => none
  | _ => parseDecAux 0 s

/-- split on the first occurrence of `sep` (`s.split(sep, 1)`): `none` when absent -/
def splitOnFirst (sep : Char) : List Char → Option (List Char × List Char)
  | [] => none
  | c :: r =>
    if c = sep then some ([], r)
    else match splitOnFirst sep r with
      | some (a, b) => some (c :: a, b)
      | none => none

theorem splitOnFirst_length {sep : Char} : ∀ {s a b : List Char},
    splitOnFirst sep s = some (a, b) → b.length < s.length := by
  intro s
  induction s with
  | nil => intro a b h; simp [splitOnFirst] at h
  | cons c r ih =>
    intro a b h
    simp only [splitOnFirst] at h
    split at h
    · simp at h; rw [← h.2]; simp
    · split at h
      · rename_i a' b' h'
        simp at h; have := ih h'; rw [← h.2]; simp; omega
      · simp at h

/-- `s.split(sep)` -/
def splitAll (sep : Char) (s : List Char) : List (List Char) :=
  match h : splitOnFirst sep s with
  | none => [s]
  | some (a, b) => a :: splitAll sep b
termination_by s.length
decreasing_by exact splitOnFirst_length h

/-- IPv4 dotted quad of a 32-bit value (`str(netaddr.IPAddress(n))` for n < 2^32) -/
def ipv4Str (n : Nat) : List Char :=
  decStr (n / 16777216 % 256) ++ ['.'] ++ decStr (n / 65536 % 256) ++ ['.'] ++
  decStr (n / 256 % 256) ++ ['.'] ++ decStr (n % 256)

/-- strict dotted-quad parser: four decimal fields 0..255 -/
def parseIpv4 (s : List Char) : Option Nat :=
  match splitAll '.' s with
  | [a, b, c, d] =>
    match parseDec a, parseDec b, parseDec c, parseDec d with
    | some a, some b, some c, some d =>
      if a < 256 ∧ b < 256 ∧ c < 256 ∧ d < 256 then some (a * 16777216 + b * 65536 + c * 256 + d) else none
    | _, _, _, _ => none
  | _ => none

/-- "a:b" of a community value -/
def commPlain (v : Nat) : List Char := decStr (v / 65536) ++ [':'] ++ decStr (v % 65536)

/-- large community "a:b:c" -/
def largeStr (t : Nat × Nat × Nat) : List Char :=
  decStr t.1 ++ [':'] ++ decStr t.2.1 ++ [':'] ++ decStr t.2.2

def parseLarge (s : List Char) : Option (Nat × Nat × Nat) :=
  match splitAll ':' s with
  | [a, b, c] =>
    match parseDec a, parseDec b, parseDec c with
    | some a, some b, some c => some (a, b, c)
    | _, _, _ => none
  | _ => none

def upperChar (c : Char) : Char :=
  if 97 ≤ c.toNat ∧ c.toNat ≤ 122 then Char.ofNat (c.toNat - 32) else c
def upper (s : List Char) : List Char := s.map upperChar

/-- well-known community names (value, name as the decoder renders it);
    proved equal to the generated table in Props/GenAgree -/
def wellKnown : List (Nat × String) :=
  [ (0xFFFF0000, "PLANNED_SHUT"), (0xFFFF0001, "ACCEPT_OWN"),
    (0xFFFF0002, "ROUTE_FILTER_TRANSLATED_v4"), (0xFFFF0003, "ROUTE_FILTER_v4"),
    (0xFFFF0004, "ROUTE_FILTER_TRANSLATED_v6"), (0xFFFF0005, "ROUTE_FILTER_v6"),
    (0xFFFF029A, "BLACKHOLE"), (0xFFFFFF01, "NO_EXPORT"), (0xFFFFFF02, "NO_ADVERTISE"),
    (0xFFFFFF03, "NO_EXPORT_SUBCONFED"), (0xFFFFFF04, "NOPEER") ]

/-- Community.parse's rendering of one 32-bit value -/
def commStr (v : Nat) : List Char :=
  match wellKnown.find? (·.1 = v) with
  | some (_, name) => name.toList
  | none => commPlain v

/-- Community.construct's reading of one text item: `none` = raises.
    (name looked up upper-cased in the upper-cased table; else `int(a) * 65536 + int(b)` packed '!I') -/
def parseComm (s : List Char) : Option Nat :=
  match wellKnown.find? (fun e => upper e.2.toList = upper s) with
  | some (v, _) => some v
  | none =>
    match splitAll ':' s with
    | a :: b :: _ =>
      match parseDec a, parseDec b with
      | some a, some b => if a * 65536 + b < 4294967296 then some (a * 65536 + b) else none
      | _, _ => none
    | _ => none

end Yabgp.Text
