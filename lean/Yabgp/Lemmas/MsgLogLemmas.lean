/-
  Lemmas for C20 (message log): the invariant of the handler's directory, its preservation by every
  operation, and the bridge from the invariant to the audit of Spec/LogSpec.lean.
-/
import Yabgp.Model.MsgLogView

namespace Yabgp.MsgLog
open Yabgp.LogSpec (SLine SFile)

/-! ### the lines of a directory, read in list order -/

def allLines : List File → List Line
  | [] => []
  | f :: fs => f.lines ++ allLines fs

/-- every line is one record and the numbers are k, k+1, ... -/
def chain : Nat → List Line → Prop
  | _, [] => True
  | k, .record r :: ls => r.seq = k ∧ chain (k + 1) ls
  | _, .junk _ :: _ => False

theorem allLines_append (a b : List File) : allLines (a ++ b) = allLines a ++ allLines b := by
  induction a with
  | nil => rfl
  | cons f fs ih => simp [allLines, ih]

@[simp] theorem allLines_single (f : File) : allLines [f] = f.lines := by simp [allLines]

theorem chain_append (a b : List Line) : ∀ k, chain k (a ++ b) ↔ chain k a ∧ chain (k + a.length) b := by
  induction a with
  | nil => intro k; simp [chain]
  | cons l ls ih =>
    intro k
    cases l with
    | record r =>
      simp only [List.cons_append, chain, ih, List.length_cons]
      have : k + 1 + ls.length = k + (ls.length + 1) := by omega
      rw [this]; constructor
      · rintro ⟨h1, h2, h3⟩; exact ⟨⟨h1, h2⟩, h3⟩
      · rintro ⟨⟨h1, h2⟩, h3⟩; exact ⟨h1, h2, h3⟩
    | junk n => simp [chain]

theorem chain_single (k : Nat) (r : Rec) : chain k [.record r] ↔ r.seq = k := by simp [chain]

/-- the last line of a well-numbered log is a record and carries the number of lines -/
theorem chain_getLast {k : Nat} {ls : List Line} (h : chain k ls) {l : Line} (hl : ls.getLast? = some l) :
    ∃ r, l = .record r ∧ r.seq + 1 = k + ls.length := by
  obtain ⟨init, rfl⟩ : ∃ init, ls = init ++ [l] := by
    rcases List.getLast?_eq_some_iff.mp hl with ⟨ys, hy⟩; exact ⟨ys, hy⟩
  rw [chain_append] at h
  cases l with
  | record r => exact ⟨r, rfl, by have := h.2; simp [chain] at this; simp; omega⟩
  | junk n => exact absurd h.2 (by simp [chain])

/-! ### files by name -/

def Asc (fs : List File) : Prop := fs.Pairwise (fun a b => a.name < b.name)

theorem asc_append_single {init : List File} {last : File} :
    Asc (init ++ [last]) ↔ Asc init ∧ ∀ f ∈ init, f.name < last.name := by
  unfold Asc
  rw [List.pairwise_append]
  simp

theorem findFile_none {name : Nat} {fs : List File} : findFile name fs = none ↔ ∀ f ∈ fs, f.name ≠ name := by
  induction fs with
  | nil => simp [findFile]
  | cons g gs ih =>
    simp only [findFile]
    split
    · rename_i hg; simp [hg]
    · rename_i hg; simp [ih, hg]

theorem findFile_some {name : Nat} {fs : List File} {f : File} (h : findFile name fs = some f) :
    f ∈ fs ∧ f.name = name := by
  induction fs with
  | nil => simp [findFile] at h
  | cons g gs ih =>
    simp only [findFile] at h
    split at h
    · rename_i hg
      cases h
      exact ⟨by simp, hg⟩
    · exact ⟨by simp [(ih h).1], (ih h).2⟩

theorem hasFile_iff {name : Nat} {fs : List File} : hasFile name fs = true ↔ ∃ f ∈ fs, f.name = name := by
  unfold hasFile
  cases h : findFile name fs with
  | none =>
    have := findFile_none.mp h
    simp only [Option.isSome_none, Bool.false_eq_true, false_iff, not_exists, not_and]
    exact this
  | some f =>
    simp only [Option.isSome_some, true_iff]
    exact ⟨f, findFile_some h⟩

theorem findFile_last {init : List File} {last : File} (h : ∀ f ∈ init, f.name ≠ last.name) :
    findFile last.name (init ++ [last]) = some last := by
  induction init with
  | nil => simp [findFile]
  | cons g gs ih =>
    have hg : g.name ≠ last.name := h g (by simp)
    simp only [List.cons_append, findFile, if_neg hg]
    exact ih (fun f hf => h f (by simp [hf]))

theorem updFile_last {init : List File} {last : File} (g : File → File) (h : ∀ f ∈ init, f.name ≠ last.name) :
    updFile last.name g (init ++ [last]) = init ++ [g last] := by
  induction init with
  | nil => simp [updFile]
  | cons x xs ih =>
    have hx : x.name ≠ last.name := h x (by simp)
    simp only [List.cons_append, updFile, if_neg hx]
    rw [ih (fun f hf => h f (by simp [hf]))]

theorem insertByName_lt {f : File} {gs : List File} (h : ∀ g ∈ gs, f.name < g.name) : insertByName f gs = f :: gs := by
  cases gs with
  | nil => rfl
  | cons g r =>
    have : f.name ≤ g.name := Nat.le_of_lt (h g (by simp))
    simp [insertByName, this]

theorem sortAsc_of_asc {fs : List File} (h : Asc fs) : sortAsc fs = fs := by
  induction fs with
  | nil => rfl
  | cons f r ih =>
    unfold Asc at h
    rw [List.pairwise_cons] at h
    simp only [sortAsc, ih h.2]
    exact insertByName_lt h.1

theorem scanLast_eq (gs : List File) : scanLast gs = (allLines gs.reverse).getLast? := by
  induction gs with
  | nil => rfl
  | cons f older ih =>
    rw [List.reverse_cons, allLines_append, allLines_single, List.getLast?_append]
    simp only [scanLast]
    cases hl : f.lines.getLast? with
    | none => simpa using ih
    | some l => simp

theorem scanLast_reverse (fs : List File) : scanLast fs.reverse = (allLines fs).getLast? := by
  rw [scanLast_eq, List.reverse_reverse]

/-! ### the invariant -/

def noTails (fs : List File) : Prop := ∀ f ∈ fs, f.tail = none

/-- The invariant of the handler's directory (DESIGN §5 C20): the files are in the order of their names, no name
    lies in the future, the lines of all files read in that order are records numbered 1, 2, 3, ...,
    unterminated bytes exist at most at the end of the newest file, and while a handler runs there are none at
    all, its next number is the number of lines + 1 and the file it has open is the newest one. -/
structure SInv (w : World) : Prop where
  asc : Asc w.fs
  le : ∀ f ∈ w.fs, f.name ≤ w.clock
  num : chain 1 (allLines w.fs)
  old : noTails w.fs.dropLast
  run : ∀ h, w.h = some h →
    noTails w.fs ∧ h.seq = (allLines w.fs).length + 1 ∧ w.fs.getLast?.map (·.name) = some h.cur
  ref : w.refused = false

theorem nil_or_concat {α : Type} (l : List α) : l = [] ∨ ∃ init last, l = init ++ [last] := by
  cases h : l.getLast? with
  | none => exact Or.inl (List.getLast?_eq_none_iff.mp h)
  | some a =>
    obtain ⟨ys, hy⟩ := List.getLast?_eq_some_iff.mp h
    exact Or.inr ⟨ys, a, hy⟩

theorem noTails_append_single {init : List File} {last : File} :
    noTails (init ++ [last]) ↔ noTails init ∧ last.tail = none := by
  unfold noTails
  constructor
  · intro h; exact ⟨fun f hf => h f (by simp [hf]), h last (by simp)⟩
  · rintro ⟨h1, h2⟩ f hf
    simp at hf
    rcases hf with hf | rfl
    · exact h1 f hf
    · exact h2

/-- building the invariant for a non-empty directory from its parts -/
theorem SInv.build {init : List File} {last : File} {clock : Nat} {ho : Option Handler}
    (hasc : Asc init) (hlt : ∀ f ∈ init, f.name < last.name) (hle : last.name ≤ clock)
    (hnum : chain 1 (allLines init ++ last.lines)) (hold : noTails init)
    (hrun : ∀ h, ho = some h → last.tail = none ∧ h.seq = (allLines init ++ last.lines).length + 1 ∧ h.cur = last.name) :
    SInv { fs := init ++ [last], clock := clock, h := ho, refused := false } where
  asc := asc_append_single.mpr ⟨hasc, hlt⟩
  le := by
    intro f hf
    simp at hf
    rcases hf with hf | rfl
    · exact Nat.le_trans (Nat.le_of_lt (hlt f hf)) hle
    · exact hle
  num := by simpa [allLines_append] using hnum
  old := by simpa using hold
  run := by
    intro h hh
    obtain ⟨h1, h2, h3⟩ := hrun h hh
    refine ⟨noTails_append_single.mpr ⟨hold, h1⟩, ?_, ?_⟩
    · simpa [allLines_append] using h2
    · simp [h3]
  ref := rfl

/-- taking the invariant of a non-empty directory apart -/
theorem SInv.parts {init : List File} {last : File} {clock : Nat} {ho : Option Handler} {rf : Bool}
    (hw : SInv { fs := init ++ [last], clock := clock, h := ho, refused := rf }) :
    Asc init ∧ (∀ f ∈ init, f.name < last.name) ∧ last.name ≤ clock ∧
    chain 1 (allLines init ++ last.lines) ∧ noTails init ∧
    (∀ h, ho = some h → last.tail = none ∧ h.seq = (allLines init ++ last.lines).length + 1 ∧ h.cur = last.name) := by
  have hasc := asc_append_single.mp hw.asc
  refine ⟨hasc.1, hasc.2, hw.le last (by simp), ?_, ?_, ?_⟩
  · simpa [allLines_append] using hw.num
  · simpa using hw.old
  · intro h hh
    obtain ⟨h1, h2, h3⟩ := hw.run h hh
    refine ⟨(noTails_append_single.mp h1).2, ?_, ?_⟩
    · simpa [allLines_append] using h2
    · simpa using h3.symm

theorem SInv.nil_dead {clock : Nat} {ho : Option Handler} {rf : Bool}
    (hw : SInv { fs := [], clock := clock, h := ho, refused := rf }) : ho = none := by
  cases ho with
  | none => rfl
  | some h => have := (hw.run h rfl).2.2; simp at this

theorem sinv_empty : SInv empty where
  asc := List.Pairwise.nil
  le := by intro f hf; simp [empty] at hf
  num := trivial
  old := by intro f hf; simp [empty] at hf
  run := by intro h hh; simp [empty] at hh
  ref := rfl

/-! ### what one operation does to the invariant and to the lines -/

/-- the lines an operation adds to the log: `alive` = a handler is running, `n` = lines written so far -/
def emit (alive : Bool) (n : Nat) : Op → List Line
  | .event ty plen => if alive then [.record { seq := n + 1, ty := ty, len := plen + digits (n + 1) }] else []
  | .crash ty plen off =>
    if alive && decide (plen + digits (n + 1) < off) then
      [.record { seq := n + 1, ty := ty, len := plen + digits (n + 1) }] else []
  | _ => []

def aliveAfter (alive : Bool) : Op → Bool
  | .restart => true
  | .crash _ _ _ => false
  | _ => alive

theorem appendFull_clean {r : Rec} {f : File} (h : f.tail = none) :
    appendFull r f = { f with lines := f.lines ++ [.record r] } := by
  unfold appendFull; rw [h]

theorem appendPrefix_clean {r : Rec} {off : Nat} {f : File} (h : f.tail = none) :
    (appendPrefix r off f).name = f.name ∧
    (appendPrefix r off f).lines = f.lines ++ (if r.len < off then [.record r] else []) := by
  unfold appendPrefix
  split
  · rename_i h0; subst h0; simp
  · split
    · rename_i h1
      have : ¬ r.len < off := by omega
      simp [appendTorn, h, this]
    · rename_i h1
      have : r.len < off := by omega
      simp [appendFull_clean h, this]

theorem step_tick (m : Nat) (w : World) (dt : Nat) (hw : SInv w) : SInv (step m w (.tick dt)) where
  asc := hw.asc
  le := fun f hf => Nat.le_trans (hw.le f hf) (Nat.le_add_right _ _)
  num := hw.num
  old := hw.old
  run := hw.run
  ref := hw.ref

theorem writeMsg_spec (w : World) (h : Handler) (ty plen : Nat) (hw : SInv w) (hh : w.h = some h) :
    SInv (writeMsg w h ty plen) ∧
    allLines (writeMsg w h ty plen).fs = allLines w.fs ++ [.record (mkRec h ty plen)] := by
  obtain ⟨fs, clock, ho, rf⟩ := w
  have hrf : rf = false := hw.ref
  subst hrf
  simp only at hh; subst hh
  rcases nil_or_concat fs with rfl | ⟨init, last, rfl⟩
  · exact absurd hw.nil_dead (by simp)
  · obtain ⟨hasc, hlt, hle, hnum, hold, hrun⟩ := hw.parts
    obtain ⟨ht, hs, hc⟩ := hrun h rfl
    have hne : ∀ f ∈ init, f.name ≠ last.name := fun f hf => Nat.ne_of_lt (hlt f hf)
    have hfs : updFile h.cur (appendFull (mkRec h ty plen)) (init ++ [last])
        = init ++ [{ last with lines := last.lines ++ [.record (mkRec h ty plen)] }] := by
      rw [hc, updFile_last _ hne, appendFull_clean ht]
    unfold writeMsg
    simp only [hfs]
    refine ⟨SInv.build hasc hlt hle ?_ hold ?_, ?_⟩
    · rw [← List.append_assoc, chain_append]
      refine ⟨hnum, ?_⟩
      simp only [chain, mkRec, and_true]
      omega
    · intro h' hh'
      simp only [Option.some.injEq] at hh'
      subst hh'
      refine ⟨ht, ?_, hc⟩
      simp only [List.length_append, List.length_cons, List.length_nil] at hs ⊢
      omega
    · simp [allLines_append]

theorem crashWrite_spec (w : World) (h : Handler) (ty plen off : Nat) (hw : SInv w) (hh : w.h = some h) :
    SInv (crashWrite w h ty plen off) ∧
    allLines (crashWrite w h ty plen off).fs
      = allLines w.fs ++ (if (mkRec h ty plen).len < off then [.record (mkRec h ty plen)] else []) := by
  obtain ⟨fs, clock, ho, rf⟩ := w
  have hrf : rf = false := hw.ref
  subst hrf
  simp only at hh; subst hh
  rcases nil_or_concat fs with rfl | ⟨init, last, rfl⟩
  · exact absurd hw.nil_dead (by simp)
  · obtain ⟨hasc, hlt, hle, hnum, hold, hrun⟩ := hw.parts
    obtain ⟨ht, hs, hc⟩ := hrun h rfl
    have hne : ∀ f ∈ init, f.name ≠ last.name := fun f hf => Nat.ne_of_lt (hlt f hf)
    obtain ⟨hn, hl⟩ := appendPrefix_clean (r := mkRec h ty plen) (off := off) ht
    have hfs : updFile h.cur (appendPrefix (mkRec h ty plen) off) (init ++ [last])
        = init ++ [appendPrefix (mkRec h ty plen) off last] := by
      rw [hc, updFile_last _ hne]
    unfold crashWrite
    simp only [hfs]
    refine ⟨SInv.build hasc (by rw [hn]; exact hlt) (by rw [hn]; exact hle) ?_ hold (by intro h' hh'; cases hh'), ?_⟩
    · rw [hl, ← List.append_assoc, chain_append]
      refine ⟨hnum, ?_⟩
      split
      · simp only [chain, mkRec, and_true]; omega
      · trivial
    · simp [allLines_append, hl]

theorem checkFileSize_spec (m : Nat) (w : World) (h : Handler) (hw : SInv w) (hh : w.h = some h) :
    SInv (checkFileSize m w h) ∧ allLines (checkFileSize m w h).fs = allLines w.fs ∧
    (checkFileSize m w h).h.isSome = true := by
  unfold checkFileSize
  split
  · obtain ⟨fs, clock, ho, rf⟩ := w
    have hrf : rf = false := hw.ref
    subst hrf
    simp only at hh; subst hh
    rcases nil_or_concat fs with rfl | ⟨init, last, rfl⟩
    · exact absurd hw.nil_dead (by simp)
    · obtain ⟨hasc, hlt, hle, hnum, hold, hrun⟩ := hw.parts
      obtain ⟨ht, hs, hc⟩ := hrun h rfl
      simp only
      unfold openAppend
      split
      · rename_i hf
        obtain ⟨f, hfm, hfn⟩ := hasFile_iff.mp hf
        have hlast : last.name = clock := by
          simp at hfm
          rcases hfm with hfm | rfl
          · have := hlt f hfm; omega
          · exact hfn
        refine ⟨SInv.build hasc hlt hle hnum hold ?_, rfl, rfl⟩
        intro h' hh'
        simp only [Option.some.injEq] at hh'
        subst hh'
        exact ⟨ht, hs, hlast.symm⟩
      · rename_i hf
        have hno : ∀ f ∈ init ++ [last], f.name ≠ clock := by
          intro f hfm hfn
          exact hf (hasFile_iff.mpr ⟨f, hfm, hfn⟩)
        refine ⟨SInv.build (last := { name := clock, lines := [], tail := none }) hw.asc ?_ (Nat.le_refl _) ?_ ?_ ?_, ?_, rfl⟩
        · intro f hfm
          have h1 := hw.le f hfm
          have h2 := hno f hfm
          simp only at h1 ⊢
          omega
        · simpa [allLines_append] using hnum
        · exact noTails_append_single.mpr ⟨hold, ht⟩
        · intro h' hh'
          simp only [Option.some.injEq] at hh'
          subst hh'
          refine ⟨rfl, ?_, rfl⟩
          simpa [allLines_append] using hs
        · simp [allLines_append, allLines]
  · exact ⟨hw, rfl, by simp [hh]⟩

/-- the repaired start-up: always succeeds on a directory that satisfies the invariant, loses no line,
    removes the unterminated bytes, continues with the next number -/
theorem restart_spec (w : World) (hw : SInv w) :
    SInv (restart w) ∧ allLines (restart w).fs = allLines w.fs ∧ (restart w).h.isSome = true ∧
    (restart w).refused = false := by
  obtain ⟨fs, clock, ho, rf⟩ := w
  rcases nil_or_concat fs with rfl | ⟨init, last, rfl⟩
  · have e : restart { fs := [], clock := clock, h := ho, refused := rf }
        = { fs := [] ++ [{ name := clock, lines := [], tail := none }], clock := clock,
            h := some { seq := 1, cur := clock }, refused := false } := by
      simp [restart, sortAsc, startWith, openAppend, hasFile, findFile]
    rw [e]
    refine ⟨SInv.build List.Pairwise.nil (by intro f hf; cases hf) (Nat.le_refl _) trivial (by intro f hf; cases hf) ?_,
      by simp [allLines], rfl, rfl⟩
    intro h hh
    simp only [Option.some.injEq] at hh
    subst hh
    exact ⟨rfl, rfl, rfl⟩
  · have hasc := asc_append_single.mp hw.asc
    have hlt := hasc.2
    have hle : last.name ≤ clock := hw.le last (by simp)
    have hnum : chain 1 (allLines init ++ last.lines) := by simpa [allLines_append] using hw.num
    have hold : noTails init := by simpa using hw.old
    have hne : ∀ f ∈ init, f.name ≠ last.name := fun f hf => Nat.ne_of_lt (hlt f hf)
    have hfs' : updFile last.name dropTail (init ++ [last]) = init ++ [dropTail last] := updFile_last _ hne
    have hasc' : Asc (init ++ [dropTail last]) := asc_append_single.mpr ⟨hasc.1, hlt⟩
    have hopen : openAppend (init ++ [dropTail last]) last.name = init ++ [dropTail last] := by
      have hf : hasFile last.name (init ++ [dropTail last]) = true := hasFile_iff.mpr ⟨dropTail last, by simp, rfl⟩
      unfold openAppend
      rw [if_pos hf]
    have hlines : allLines (init ++ [dropTail last]) = allLines init ++ last.lines := by
      simp [allLines_append, dropTail]
    have hg : (sortAsc (init ++ [last])).getLast? = some last := by
      rw [sortAsc_of_asc hw.asc]; simp
    unfold restart
    simp only [hg, hfs', sortAsc_of_asc hasc', scanLast_reverse, hlines]
    have key : ∀ s, s = (allLines init ++ last.lines).length →
        SInv (startWith { fs := init ++ [last], clock := clock, h := ho, refused := rf } (init ++ [dropTail last]) s last.name) ∧
        allLines (startWith { fs := init ++ [last], clock := clock, h := ho, refused := rf } (init ++ [dropTail last]) s last.name).fs
          = allLines (init ++ [last]) ∧
        (startWith { fs := init ++ [last], clock := clock, h := ho, refused := rf } (init ++ [dropTail last]) s last.name).h.isSome = true ∧
        (startWith { fs := init ++ [last], clock := clock, h := ho, refused := rf } (init ++ [dropTail last]) s last.name).refused = false := by
      intro s hs
      unfold startWith
      simp only [hopen]
      refine ⟨SInv.build (last := dropTail last) hasc.1 hlt hle hnum hold ?_, ?_, ?_⟩
      rotate_left 2
      · first | trivial | exact ⟨rfl, rfl⟩ | simp
      · intro h hh
        simp only [Option.some.injEq] at hh
        subst hh
        refine ⟨rfl, ?_, rfl⟩
        simp only [dropTail]
        omega
      · simp [allLines_append, dropTail]
    cases hl : (allLines init ++ last.lines).getLast? with
    | none =>
      have : allLines init ++ last.lines = [] := List.getLast?_eq_none_iff.mp hl
      exact key 0 (by rw [this]; rfl)
    | some l =>
      obtain ⟨r, rfl, hr⟩ := chain_getLast hnum hl
      have : (allLines init ++ last.lines).length ≠ 0 := by
        intro h0
        have : allLines init ++ last.lines = [] := List.eq_nil_of_length_eq_zero h0
        rw [this] at hl; cases hl
      exact key r.seq (by omega)

/-- one operation: the invariant is kept, the log grows by exactly the lines `emit` names, and a handler
    runs afterwards exactly when `aliveAfter` says so -/
theorem step_spec (m : Nat) (w : World) (op : Op) (hw : SInv w) :
    SInv (step m w op) ∧
    allLines (step m w op).fs = allLines w.fs ++ emit w.h.isSome (allLines w.fs).length op ∧
    (step m w op).h.isSome = aliveAfter w.h.isSome op := by
  cases op with
  | tick dt => exact ⟨step_tick m w dt hw, by simp [step, stepWith, emit], rfl⟩
  | event ty plen =>
    cases hh : w.h with
    | none => simp [step, stepWith, hh, emit, aliveAfter, hw]
    | some h =>
      obtain ⟨h1, h2⟩ := writeMsg_spec w h ty plen hw hh
      have hs := (hw.run h hh).2.1
      simp only [step, stepWith, hh]
      refine ⟨h1, ?_, by simp [writeMsg, aliveAfter]⟩
      rw [h2]
      simp [emit, mkRec, hs]
  | rotateCheck =>
    cases hh : w.h with
    | none => simp [step, stepWith, hh, emit, aliveAfter, hw]
    | some h =>
      obtain ⟨h1, h2, h3⟩ := checkFileSize_spec m w h hw hh
      simp only [step, stepWith, hh]
      exact ⟨h1, by simp [h2, emit], by simp [h3, aliveAfter]⟩
  | crash ty plen off =>
    cases hh : w.h with
    | none => simp [step, stepWith, hh, emit, aliveAfter, hw]
    | some h =>
      obtain ⟨h1, h2⟩ := crashWrite_spec w h ty plen off hw hh
      have hs := (hw.run h hh).2.1
      simp only [step, stepWith, hh]
      refine ⟨h1, ?_, by simp [crashWrite, aliveAfter]⟩
      rw [h2]
      simp [emit, mkRec, hs]
  | restart =>
    obtain ⟨h1, h2, h3, _⟩ := restart_spec w hw
    simp only [step, stepWith]
    exact ⟨h1, by simp [h2, emit], by simp [h3, aliveAfter]⟩

theorem sinv_run (m : Nat) : ∀ (ops : List Op) (w : World), SInv w → SInv (run m w ops) := by
  intro ops
  induction ops with
  | nil => intro w hw; exact hw
  | cons op r ih => intro w hw; exact ih _ (step_spec m w op hw).1

/-! ### from the invariant to the audit of Spec/LogSpec.lean -/

theorem insertName_lt {f : SFile} {gs : List SFile} (h : ∀ g ∈ gs, f.name < g.name) :
    LogSpec.insertName f gs = f :: gs := by
  cases gs with
  | nil => rfl
  | cons g r =>
    have : f.name ≤ g.name := Nat.le_of_lt (h g (by simp))
    simp [LogSpec.insertName, this]

theorem mem_view {g : SFile} {fs : List File} (h : g ∈ view fs) : ∃ f ∈ fs, g = viewFile f := by
  induction fs with
  | nil => simp [view] at h
  | cons f r ih =>
    simp only [view, List.mem_cons] at h
    rcases h with rfl | h
    · exact ⟨f, by simp, rfl⟩
    · obtain ⟨f', hf', e⟩ := ih h
      exact ⟨f', by simp [hf'], e⟩

theorem byName_view {fs : List File} (h : Asc fs) : LogSpec.byName (view fs) = view fs := by
  induction fs with
  | nil => rfl
  | cons f r ih =>
    unfold Asc at h
    rw [List.pairwise_cons] at h
    simp only [view, LogSpec.byName, ih h.2]
    apply insertName_lt
    intro g hg
    obtain ⟨f', hf', rfl⟩ := mem_view hg
    exact h.1 f' hf'

theorem distinctNames_view {fs : List File} (h : Asc fs) : LogSpec.distinctNames (view fs) = true := by
  induction fs with
  | nil => rfl
  | cons f r ih =>
    unfold Asc at h
    rw [List.pairwise_cons] at h
    cases r with
    | nil => rfl
    | cons g r' =>
      have hfg : f.name < g.name := h.1 g (by simp)
      have := ih h.2
      simp only [view] at this ⊢
      simp only [LogSpec.distinctNames, this, Bool.and_true]
      simp [viewFile, hfg]

theorem viewLines_append (a b : List Line) : viewLines (a ++ b) = viewLines a ++ viewLines b := by
  induction a with
  | nil => rfl
  | cons l ls ih => simp [viewLines, ih]

theorem specLines_view (fs : List File) : LogSpec.allLines (view fs) = viewLines (allLines fs) := by
  induction fs with
  | nil => rfl
  | cons f r ih => simp [view, LogSpec.allLines, allLines, viewLines_append, ih, viewFile]

theorem seqRun_view {ls : List Line} : ∀ {k : Nat}, chain k ls → LogSpec.seqRun k (viewLines ls) = true := by
  induction ls with
  | nil => intro k _; rfl
  | cons l r ih =>
    intro k h
    cases l with
    | record rc =>
      simp only [chain] at h
      simp [viewLines, viewLine, LogSpec.seqRun, h.1, ih h.2]
    | junk n => exact absurd h (by simp [chain])

theorem noTorn_view {fs : List File} (h : noTails fs) : LogSpec.noTorn (view fs) = true := by
  induction fs with
  | nil => rfl
  | cons f r ih =>
    have hf : f.tail = none := h f (by simp)
    have hr : noTails r := fun g hg => h g (by simp [hg])
    simp [view, LogSpec.noTorn, viewFile, hf, tailBytes, ih hr]

theorem tornOnlyLast_view {fs : List File} (h : noTails fs.dropLast) : LogSpec.tornOnlyLast (view fs) = true := by
  induction fs with
  | nil => rfl
  | cons f r ih =>
    cases r with
    | nil => rfl
    | cons g r' =>
      have hf : f.tail = none := h f (by simp [List.dropLast])
      have hr : noTails (g :: r').dropLast := fun x hx => h x (by simp [List.dropLast, hx])
      have := ih hr
      simp only [view] at this ⊢
      simp only [LogSpec.tornOnlyLast, this, Bool.and_true]
      simp [viewFile, hf, tailBytes]

/-- the invariant implies the audit -/
theorem audit_of_sinv {w : World} (hw : SInv w) : auditWorld w = true := by
  unfold auditWorld LogSpec.audit
  rw [byName_view hw.asc, distinctNames_view hw.asc, specLines_view, seqRun_view hw.num]
  cases hh : w.h with
  | none => simp [tornOnlyLast_view hw.old]
  | some h => simp [noTorn_view (hw.run h hh).1]

end Yabgp.MsgLog
