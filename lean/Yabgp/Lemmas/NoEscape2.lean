/-
  "Nothing escapes", the reactions and the events (second half of Lemmas/NoEscape.lean).
-/
import Yabgp.Lemmas.NoEscape

namespace Yabgp
namespace Sess

theorem ne_sendKeepalive {s : Sess} {i : Nat} (h : Norm s i) : NE s s.sendKeepalive := by
  rw [sendKeepalive_norm h]
  exact (ne_bumpSent s _ _).trans (ne_emit _ _ rfl)

theorem ne_sendNotification {s : Sess} {i : Nat} (h : Norm s i) (e sub : Nat) (d : Bytes)
    (he : e < 256) (hs : sub < 256) (hd : d.length + 21 < 65536) : NE s (s.sendNotification e sub d) := by
  rw [sendNotification_norm h e sub d he hs hd]
  exact (ne_bumpSent s _ _).trans (ne_emit _ _ rfl)

/-- send_open never lets anything escape (an OPEN that cannot be built is reported by the Bool, caught in connectionMade) -/
theorem ne_sendOpen (s : Sess) : NE s s.sendOpen.1 := by
  unfold sendOpen
  split
  · exact NE.refl _
  · split
    · exact ne_withLocalCaps s _
    · have hw : ∀ (t : Sess) (i : Nat) (w : Bytes), NE t (t.writeOn i w) := by
        intro t i w
        unfold writeOn
        split
        · exact ne_emit _ _ rfl
        · exact NE.refl _
      exact (((ne_withLocalCaps s _).trans (hw _ _ _)).trans (ne_bumpSent _ _ _)).trans (ne_emit _ _ rfl)

theorem ne_fsmErr {s : Sess} {i : Nat} (h : Norm s i) : NE s ((s.sendNotification C.errFsm 0 []).errorClose) :=
  (ne_sendNotification h _ _ _ (by decide) (by decide) (by decide)).trans (ne_errorClose _).bal

theorem ne_headerError {s : Sess} {i : Nat} (h : Norm s i) (sub : Nat) (d : Bytes) (hs : sub < 256)
    (hd : d.length + 21 < 65536) : NE s (s.headerError sub d) :=
  (ne_sendNotification h _ _ _ (by decide) hs hd).trans (ne_errorClose _).bal

theorem ne_openMessageError {s : Sess} {i : Nat} (h : Norm s i) (sub : Nat) (hs : sub < 256) :
    NE s (s.openMessageError sub) :=
  (ne_sendNotification h _ _ _ (by decide) hs (by decide)).trans (ne_errorClose _).bal

theorem ne_fsmOpenReceived {s : Sess} {i : Nat} (h : Norm s i) : NE s s.fsmOpenReceived := by
  unfold fsmOpenReceived
  split
  · exact (ne_errorClose _).bal
  · exact (ne_errorClose _).bal
  · split
    · exact (((ne_setRetry s _).bal.trans (ne_sendKeepalive (h.setRetry _))).trans
        ((ne_setKeepalive _ _).trans ((ne_setHold _ _).trans (ne_setSt _ _))).bal)
    · exact (((ne_setRetry s _).bal.trans (ne_sendKeepalive (h.setRetry _))).trans
        ((ne_setKeepalive _ _).trans ((ne_setHold _ _).trans (ne_setSt _ _))).bal)
  · exact ne_fsmErr h
  · exact ne_fsmErr h
  · exact NE.refl _

theorem ne_fsmKeepaliveReceived {s : Sess} {i : Nat} (h : Norm s i) : NE s s.fsmKeepaliveReceived := by
  unfold fsmKeepaliveReceived
  split
  · exact ((ne_restartHold s).trans (ne_setSt _ _)).bal
  · exact (ne_restartHold s).bal
  · exact (ne_errorClose _).bal
  · exact (ne_errorClose _).bal
  · exact ne_fsmErr h
  · exact NE.refl _

theorem ne_fsmUpdateReceived {s : Sess} {i : Nat} (h : Norm s i) : NE s s.fsmUpdateReceived := by
  unfold fsmUpdateReceived
  split
  · exact (ne_restartHold s).bal
  · exact (ne_errorClose _).bal
  · exact (ne_errorClose _).bal
  · exact ne_fsmErr h
  · exact ne_fsmErr h
  · exact NE.refl _

theorem ne_fsmNotificationReceived (s : Sess) (e sub : Nat) : NE s (s.fsmNotificationReceived e sub) := by
  unfold fsmNotificationReceived
  split
  · split
    · exact ((((ne_setRetry s _).trans (ne_setHold _ _)).trans (ne_setKeepalive _ _)).trans (ne_closeConn _)).trans (ne_setSt _ _)
    · exact ((((ne_setRetry s _).trans (ne_setHold _ _)).trans (ne_setKeepalive _ _)).trans (ne_closeConn _)).trans (ne_setSt _ _)
    · exact ne_errorClose _
    · exact ne_errorClose _
    · exact ne_errorClose _
    · exact NE.refl _
  · split
    · exact ne_errorClose _
    · exact NE.refl _

theorem ne_openAccepted {s : Sess} {i : Nat} (h : Norm s i) (j : Nat) (m : OpenMsg) : NE s (s.openAccepted j m).1 := by
  unfold openAccepted
  split
  · simp only
    split
    · exact ((ne_withRemote s _).trans (ne_setAsn4 _ _)).bal.trans
        (ne_openMessageError ((h.withRemote _).setAsn4 _) _ (by decide))
    · exact (ne_withRemote s _).bal.trans (ne_openMessageError (h.withRemote _) _ (by decide))
  · simp only
    split
    · exact ((((ne_withRemote s _).trans (ne_setAsn4 _ _)).trans (ne_withHoldTime _ _)).bal.trans
        (ne_fsmOpenReceived (((h.withRemote _).setAsn4 _).withHoldTime _))).trans (ne_emit _ _ rfl).bal
    · exact ((((ne_withRemote s _).trans (ne_withHoldTime _ _)).bal.trans
        (ne_fsmOpenReceived ((h.withRemote _).withHoldTime _)))).trans (ne_emit _ _ rfl).bal

theorem ne_openReceived {s : Sess} {i : Nat} (h : Norm s i) (j : Nat) (body : Bytes) : NE s (s.openReceived j body).1 := by
  unfold openReceived
  split
  · rename_i sub hp
    exact (ne_bumpRecv s _ _).bal.trans (ne_headerError (h.bumpRecv _ _) _ _ (parseOpen_err _ _ hp) (by decide))
  · rename_i sub hp
    exact (ne_bumpRecv s _ _).bal.trans (ne_openMessageError (h.bumpRecv _ _) _ (parseOpen_err _ _ hp))
  · exact (ne_bumpRecv s _ _).bal
  · split
    · exact (ne_bumpRecv s _ _).bal.trans (ne_openMessageError (h.bumpRecv _ _) _ (by decide))
    · exact (ne_bumpRecv s _ _).bal.trans (ne_openAccepted (h.bumpRecv _ _) _ _)

theorem be16_length' (n : Nat) : (be16 n).length = 2 := by simp [be16]

theorem ne_dispatch (U : Bool → Bytes → UpdClass) {s : Sess} {i : Nat} (h : Norm s i) (j ty : Nat) (body : Bytes) :
    NE s (dispatch U s j ty body).1 := by
  unfold dispatch
  split
  · exact ne_openReceived h j body
  split
  · split
    · exact (ne_bumpRecv s _ _).bal
    · exact ((ne_bumpRecv s _ _).trans (ne_emit _ _ rfl)).bal
    · exact ((ne_bumpRecv s _ _).trans (ne_emit _ _ rfl)).bal.trans
        (ne_fsmUpdateReceived ((h.bumpRecv _ _).emit _))
    · exact ((ne_bumpRecv s _ _).trans (ne_emit _ _ rfl)).bal.trans
        (ne_fsmUpdateReceived ((h.bumpRecv _ _).emit _))
  split
  · split
    · exact NE.refl _
    · exact (((ne_bumpRecv s _ _).trans (ne_emit _ _ rfl)).trans (ne_fsmNotificationReceived _ _ _)).bal
  split
  · split
    · exact ((ne_bumpRecv s _ _).trans (ne_emit _ _ rfl)).bal.trans
        (ne_fsmKeepaliveReceived ((h.bumpRecv _ _).emit _))
    · exact ((ne_bumpRecv s _ _).trans (ne_emit _ _ rfl)).bal.trans
        (ne_headerError ((h.bumpRecv _ _).emit _) _ _ (by decide) (by decide))
  split
  · split
    · exact (ne_bumpRecv s _ _).bal
    · exact ((ne_bumpRecv s _ _).trans (ne_emit _ _ rfl)).bal
  · exact ne_headerError h _ _ (by decide) (by rw [be16_length]; decide)

/-- one call of parse_buffer on the tracked, open connection -/
theorem ne_parseBuffer (U : Bool → Bytes → UpdClass) {s : Sess} {i : Nat} (hp : s.proto = some i) (hlt : i < s.conns.length)
    (hup : (s.conn i).disconnected = false → (s.conn i).phase = .connected) (buf : Bytes) :
    NE s (parseBuffer U s i buf).1 := by
  unfold parseBuffer
  split
  · exact NE.refl _
  · rename_i hd
    have hn : Norm s i := ⟨hp, hlt, hup (by simpa using hd), by simpa using hd⟩
    split
    · exact NE.refl _
    · exact ne_headerError hn _ _ (by decide) (by decide)
    · exact ne_headerError hn _ _ (by decide) (by rw [be16_length]; decide)
    · split <;> exact ne_dispatch U hn i _ _


end Sess
end Yabgp
