/-
  Round trip of the attribute loop, the prefix lists and the whole UPDATE.
-/
import Yabgp.Lemmas.AttrRt
import Mathlib.Tactic.IntervalCases

namespace Yabgp

theorem parseAttrLoop_nil (asn4 : Bool) (acc : List (Nat × AttrVal)) :
    parseAttrLoop asn4 acc [] = (acc, none) := by
  rw [parseAttrLoop]

theorem parseAttrLoop_unfold (asn4 : Bool) (acc : List (Nat × AttrVal)) (b : Bytes) (hb : b ≠ []) :
    parseAttrLoop asn4 acc b =
      match splitAttr b with
      | none => (acc, some C.eMalformedAttrList)
      | some (_, t, v, r) =>
        match parseAttrValue asn4 t v with
        | .error (.upd s) => (acc, some s)
        | .error .other => (acc, some C.eMalformedAttrList)
        | .ok val => parseAttrLoop asn4 (dictSet acc t val) r := by
  cases b with
  | nil => exact absurd rfl hb
  | cons x xs =>
    conv => lhs; rw [parseAttrLoop]
    split <;> rename_i h <;> simp only [h]
    all_goals (split <;> simp_all)

def keys (d : List (Nat × AttrVal)) : List Nat := d.map (·.1)

theorem dictSet_fresh (d : List (Nat × AttrVal)) (k : Nat) (v : AttrVal) (h : k ∉ keys d) :
    dictSet d k v = d ++ [(k, v)] := by
  induction d with
  | nil => rfl
  | cons e r ih =>
    obtain ⟨k', v'⟩ := e
    simp only [keys, List.map_cons, List.mem_cons, not_or] at h
    simp only [dictSet]
    rw [if_neg (fun hh => h.1 hh.symm)]
    rw [ih (by simpa [keys] using h.2)]
    rfl

theorem splitAttr_nonempty {b : Bytes} {x : Nat × Nat × Bytes × Bytes} (h : splitAttr b = some x) : b ≠ [] := by
  intro hb; subst hb; simp [splitAttr] at h

/-- decoding the concatenation of constructed attributes rebuilds exactly the dictionary given -/
theorem attrLoop_roundtrip (asn4 : Bool) (as : List (Nat × AttrVal)) :
    ∀ (acc : List (Nat × AttrVal)) (w : Bytes),
      (∀ kv ∈ as, kv.1 ∈ constructCodes ∧ AttrOk asn4 kv.1 kv.2) →
      (keys acc ++ keys as).Nodup →
      constructAttributes asn4 as = some w →
      parseAttrLoop asn4 acc w = (acc ++ as, none) := by
  induction as with
  | nil =>
    intro acc w _ _ hc
    simp [constructAttributes] at hc; subst hc
    simp [parseAttrLoop_nil]
  | cons kv r ih =>
    intro acc w hok hnd hc
    obtain ⟨code, v⟩ := kv
    obtain ⟨hcode, hv⟩ := hok (code, v) (by simp)
    simp only [constructAttributes, hcode, ↓reduceIte] at hc
    cases h1 : constructAttr asn4 code v with
    | none => simp [h1] at hc
    | some w1 =>
      cases h2 : constructAttributes asn4 r with
      | none => simp [h1, h2] at hc
      | some w2 =>
        simp [h1, h2] at hc
        subst hc
        obtain ⟨f, body, hsplit, hparse⟩ := attr_roundtrip asn4 code v w1 w2 hv h1
        rw [parseAttrLoop_unfold asn4 acc (w1 ++ w2) (splitAttr_nonempty hsplit)]
        simp only [hsplit, hparse]
        have hfresh : code ∉ keys acc := by
          intro hin
          have := List.nodup_append.mp hnd
          exact this.2.2 code hin code (by simp [keys]) rfl
        rw [dictSet_fresh acc code v hfresh]
        rw [ih (acc ++ [(code, v)]) w2 (fun kv hkv => hok kv (by simp [hkv])) ?_ h2]
        · simp
        · simpa [keys, List.append_assoc] using hnd

end Yabgp

namespace Yabgp

/-- a prefix in network form (no host bits), as the property takes them -/
def PfxOk (addpath : Bool) (p : Pfx) : Prop :=
  p.len ≤ 32 ∧ p.addr < 4294967296 ∧ p.addr % 2 ^ (32 - p.len) = 0 ∧
  (if addpath then ∃ pid, p.pathId = some pid ∧ pid < 4294967296 else p.pathId = none)

set_option maxRecDepth 2000 in
theorem parseOnePrefix_enc (pid : Option Nat) (addr len : Nat) (rest : Bytes)
    (hl : len ≤ 32) (ha : addr < 4294967296) (hn : addr % 2 ^ (32 - len) = 0) :
    parseOnePrefix pid (be8 len ++ (be32 addr).take (prefixOctets len) ++ rest) =
      some ({ addr := addr, len := len, pathId := pid }, rest) := by
  have hlen : (u8 len).toNat = len := u8_toNat (by omega)
  simp only [be8, List.cons_append, List.nil_append, parseOnePrefix, hlen]
  rw [if_neg (by omega)]
  interval_cases len <;>
    simp [prefixOctets, pfxOctets, pfxData, be32, maskLast, addrOf, u8_toNat_mod] <;> omega

end Yabgp

namespace Yabgp

theorem stepPrefix_enc (addpath : Bool) (p : Pfx) (w rest : Bytes)
    (hok : PfxOk addpath p) (hc : constructPrefix addpath p = some w) :
    stepPrefix addpath (w ++ rest) = some (p, rest) := by
  obtain ⟨hl, ha, hn, hp⟩ := hok
  obtain ⟨addr, len, pathId⟩ := p
  simp only at hl ha hn hp
  unfold constructPrefix at hc
  simp only [show ¬ (len > 32 ∨ ¬ addr < 4294967296) by omega, ↓reduceIte] at hc
  cases addpath
  · simp only [Bool.false_eq_true, ↓reduceIte] at hp
    subst hp
    simp only [Option.some.injEq] at hc
    subst hc
    simp only [stepPrefix, Bool.false_eq_true, ↓reduceIte]
    exact parseOnePrefix_enc none addr len rest hl ha hn
  · simp only [↓reduceIte] at hp
    obtain ⟨pid, rfl, hpid⟩ := hp
    simp only [↓reduceIte, hpid, Option.some.injEq] at hc
    subst hc
    simp only [stepPrefix, ↓reduceIte, List.append_assoc, rd32_be32 hpid]
    have := parseOnePrefix_enc (some pid) addr len rest hl ha hn
    simpa [List.append_assoc] using this

theorem constructPrefix_nonempty {addpath : Bool} {p : Pfx} {w : Bytes}
    (hc : constructPrefix addpath p = some w) : w ≠ [] := by
  unfold constructPrefix at hc
  split at hc
  · simp at hc
  · split at hc
    · simp at hc; subst hc; simp [be8]
    · split at hc
      · split at hc
        · simp at hc; subst hc; simp [be32]
        · simp at hc
      · simp at hc

/-- list level, in the compositional form (used by C06 and C15) -/
theorem parsePrefixList_enc (addpath : Bool) (ps : List Pfx) :
    ∀ (w rest : Bytes), (∀ p ∈ ps, PfxOk addpath p) → constructPrefixV4 addpath ps = some w →
      parsePrefixList addpath (w ++ rest) = (parsePrefixList addpath rest).map (ps ++ ·) := by
  induction ps with
  | nil =>
    intro w rest _ hc
    simp [constructPrefixV4] at hc; subst hc
    simp only [List.nil_append]
    cases h : parsePrefixList addpath rest <;> simp
  | cons p r ih =>
    intro w rest hok hc
    simp only [constructPrefixV4] at hc
    cases h1 : constructPrefix addpath p with
    | none => simp [h1] at hc
    | some w1 =>
      cases h2 : constructPrefixV4 addpath r with
      | none => simp [h1, h2] at hc
      | some w2 =>
        simp [h1, h2] at hc
        subst hc
        have hstep := stepPrefix_enc addpath p w1 (w2 ++ rest) (hok p (by simp)) h1
        obtain ⟨x, xs, rfl⟩ := List.exists_cons_of_ne_nil (constructPrefix_nonempty h1)
        simp only [List.cons_append, List.append_assoc] at hstep ⊢
        rw [parsePrefixList_cons, hstep]
        simp only
        rw [ih w2 rest (fun q hq => hok q (by simp [hq])) h2]
        cases parsePrefixList addpath rest <;> simp

theorem parsePrefixList_enc_all (addpath : Bool) (ps : List Pfx) (w : Bytes)
    (hok : ∀ p ∈ ps, PfxOk addpath p) (hc : constructPrefixV4 addpath ps = some w) :
    parsePrefixList addpath w = some ps := by
  have := parsePrefixList_enc addpath ps w [] hok hc
  simp only [List.append_nil] at this
  rw [this]
  have h0 : parsePrefixList addpath [] = some [] := by rw [parsePrefixList]
  simp [h0]

end Yabgp
