/-
  An invariant of the session model that C16 needs: whenever the state machine is in OpenSent, OpenConfirm or
  Established, the connection it tracks (`FSM.protocol`) exists, is connected and has not been closed by us; and a
  connection we closed is never reported as connected again.  It holds at boot and is preserved by every enabled
  environment event and by every REST request (any route record, any request).
-/
import Yabgp.Lemmas.RestLemmas
import Yabgp.Lemmas.StLemmas

namespace Yabgp.RestInv
open Yabgp.Sess

def inSession (st : St) : Prop := st = .openSent ∨ st = .openConfirm ∨ st = .established

/-- a connection we closed (`BGP.disconnected`) is closing or closed -/
def DiscClosed (s : Sess) : Prop :=
  ∀ j, (s.conn j).disconnected = true → (s.conn j).phase = .closing ∨ (s.conn j).phase = .closed

structure SessInv (s : Sess) : Prop where
  tracked : inSession s.st → ∃ i, s.proto = some i ∧ i < s.conns.length ∧ (s.conn i).phase = .connected
  disc : DiscClosed s

theorem SessInv.norm {s : Sess} (h : SessInv s) (hs : inSession s.st) : ∃ i, Norm s i := by
  obtain ⟨i, hp, hl, hu⟩ := h.tracked hs
  refine ⟨i, hp, hl, hu, ?_⟩
  cases hd : (s.conn i).disconnected with
  | false => rfl
  | true => rcases h.disc i hd with h1 | h1 <;> rw [hu] at h1 <;> cases h1

/-! ### how an action may change the connections -/

/-- what `abort_pending_connect` does to one connection: an attempt in flight is given up -/
def Aborted (c c' : Conn) : Prop := c.phase = .connecting ∧ c'.phase = .closed ∧ c'.disconnected = c.disconnected

/-- the tracked connection, the phases and the `disconnected` flags are the same (connections may be appended, an
    attempt in flight may have been given up) -/
structure Same (s s' : Sess) : Prop where
  proto : s'.proto = s.proto
  len : s.conns.length ≤ s'.conns.length
  conn : ∀ j, ((s'.conn j).phase = (s.conn j).phase ∧ (s'.conn j).disconnected = (s.conn j).disconnected) ∨
              Aborted (s.conn j) (s'.conn j)

/-- as `Same`, except that connections may have been closed by us -/
structure Ch (s s' : Sess) : Prop where
  proto : s'.proto = s.proto
  len : s.conns.length ≤ s'.conns.length
  conn : ∀ j, ((s'.conn j).phase = (s.conn j).phase ∧ (s'.conn j).disconnected = (s.conn j).disconnected) ∨
              ((s'.conn j).phase = .closing ∧ (s'.conn j).disconnected = true) ∨
              Aborted (s.conn j) (s'.conn j)

theorem Same.refl (s : Sess) : Same s s := ⟨rfl, Nat.le_refl _, fun _ => Or.inl ⟨rfl, rfl⟩⟩
theorem Same.trans {a b c : Sess} (h1 : Same a b) (h2 : Same b c) : Same a c := by
  refine ⟨h2.proto.trans h1.proto, Nat.le_trans h1.len h2.len, fun j => ?_⟩
  rcases h2.conn j with h | h
  · rcases h1.conn j with h' | h'
    · exact Or.inl ⟨h.1.trans h'.1, h.2.trans h'.2⟩
    · exact Or.inr ⟨h'.1, h.1.trans h'.2.1, h.2.trans h'.2.2⟩
  · rcases h1.conn j with h' | h'
    · exact Or.inr ⟨by rw [← h'.1]; exact h.1, h.2.1, h.2.2.trans h'.2⟩
    · have := h.1; rw [h'.2.1] at this; cases this
theorem Same.ch {s s' : Sess} (h : Same s s') : Ch s s' :=
  ⟨h.proto, h.len, fun j => (h.conn j).elim Or.inl (fun x => Or.inr (Or.inr x))⟩
theorem Ch.refl (s : Sess) : Ch s s := (Same.refl s).ch
theorem Ch.trans {a b c : Sess} (h1 : Ch a b) (h2 : Ch b c) : Ch a c := by
  refine ⟨h2.proto.trans h1.proto, Nat.le_trans h1.len h2.len, fun j => ?_⟩
  rcases h2.conn j with h | h | h
  · rcases h1.conn j with h' | h' | h'
    · exact Or.inl ⟨h.1.trans h'.1, h.2.trans h'.2⟩
    · exact Or.inr (Or.inl ⟨h.1.trans h'.1, h.2.trans h'.2⟩)
    · exact Or.inr (Or.inr ⟨h'.1, h.1.trans h'.2.1, h.2.trans h'.2.2⟩)
  · exact Or.inr (Or.inl h)
  · rcases h1.conn j with h' | h' | h'
    · exact Or.inr (Or.inr ⟨by rw [← h'.1]; exact h.1, h.2.1, h.2.2.trans h'.2⟩)
    · have := h.1; rw [h'.1] at this; cases this
    · have := h.1; rw [h'.2.1] at this; cases this

theorem Same.of_eq {s s' : Sess} (hc : s'.conns = s.conns) (hp : s'.proto = s.proto) : Same s s' :=
  ⟨hp, by rw [hc]; exact Nat.le_refl _, fun j => Or.inl (by simp [Sess.conn, hc])⟩

theorem DiscClosed.of_ch {s s' : Sess} (h : DiscClosed s) (c : Ch s s') : DiscClosed s' := by
  intro j hd
  rcases c.conn j with hh | hh | hh
  · rw [hh.1]; exact h j (hh.2 ▸ hd)
  · exact Or.inl hh.1
  · exact Or.inr hh.2.1

/-- rule 1: phases untouched and the state stays in (or leaves) the session states -/
theorem SessInv.of_same {s s' : Sess} (h : SessInv s) (c : Same s s') (hst : inSession s'.st → inSession s.st) :
    SessInv s' := by
  refine ⟨fun hs => ?_, h.disc.of_ch c.ch⟩
  obtain ⟨i, hp, hl, hu⟩ := h.tracked (hst hs)
  refine ⟨i, c.proto.trans hp, Nat.lt_of_lt_of_le hl c.len, ?_⟩
  rcases c.conn i with hh | hh
  · exact hh.1.trans hu
  · have := hh.1; rw [hu] at this; cases this

/-- rule 2: connections closed by us, and the state is outside the session states afterwards -/
theorem SessInv.of_ch {s s' : Sess} (h : DiscClosed s) (c : Ch s s') (hst : ¬ inSession s'.st) : SessInv s' :=
  ⟨fun hs => absurd hs hst, h.of_ch c⟩

theorem not_inSession_idle : ¬ inSession .idle := by intro h; rcases h with h | h | h <;> cases h
theorem not_inSession_connect : ¬ inSession .connect := by intro h; rcases h with h | h | h <;> cases h
theorem not_inSession_active : ¬ inSession .active := by intro h; rcases h with h | h | h <;> cases h

/-! ### `Same` for the helpers that do not touch phases -/

theorem same_emit (s : Sess) (o : Out) : Same s (s.emit o) := Same.of_eq rfl rfl
theorem same_withNow (s : Sess) (v : Nat) : Same s (s.withNow v) := Same.of_eq rfl rfl
theorem same_withSt (s : Sess) (v : St) : Same s (s.withSt v) := Same.of_eq rfl rfl
theorem same_withTm (s : Sess) (v : Timers) : Same s (s.withTm v) := Same.of_eq rfl rfl
theorem same_withAllow (s : Sess) (v : Bool) : Same s (s.withAllow v) := Same.of_eq rfl rfl
theorem same_withRetryCounter (s : Sess) (v : Nat) : Same s (s.withRetryCounter v) := Same.of_eq rfl rfl
theorem same_incRetryCounter (s : Sess) : Same s s.incRetryCounter := Same.of_eq rfl rfl
theorem same_withHoldTime (s : Sess) (v : Nat) : Same s (s.withHoldTime v) := Same.of_eq rfl rfl
theorem same_withEstab (s : Sess) (v : Option Nat) : Same s (s.withEstab v) := Same.of_eq rfl rfl
theorem same_withLocalCaps (s : Sess) (v : LocalCaps) : Same s (s.withLocalCaps v) := Same.of_eq rfl rfl
theorem same_withRemote (s : Sess) (v : CapaDict) : Same s (s.withRemote v) := Same.of_eq rfl rfl
theorem same_withBgpId (s : Sess) (v : Option Nat) : Same s (s.withBgpId v) := Same.of_eq rfl rfl
theorem same_withOuts (s : Sess) (v : List Out) : Same s (s.withOuts v) := Same.of_eq rfl rfl
theorem same_setRetry (s : Sess) (v : Option Nat) : Same s (s.setRetry v) := Same.of_eq rfl rfl
theorem same_setHold (s : Sess) (v : Option Nat) : Same s (s.setHold v) := Same.of_eq rfl rfl
theorem same_setKeepalive (s : Sess) (v : Option Nat) : Same s (s.setKeepalive v) := Same.of_eq rfl rfl
theorem same_setIdleHold (s : Sess) (v : Option Nat) : Same s (s.setIdleHold v) := Same.of_eq rfl rfl

theorem same_setSt (s : Sess) (v : St) : Same s (s.setSt v) := by
  unfold Sess.setSt; split
  · exact (same_emit s _).trans (same_withSt _ v)
  · exact same_withSt s v

/-- replacing a connection record by one with the same phase and flag -/
theorem same_setConn (s : Sess) (i : Nat) (c : Conn) (hp : c.phase = (s.conn i).phase)
    (hd : c.disconnected = (s.conn i).disconnected) : Same s (s.setConn i c) := by
  refine ⟨rfl, by simp, fun j => ?_⟩
  rw [conn_setConn]; split
  · rename_i hh; rw [← hh.1]; exact Or.inl ⟨hp, hd⟩
  · exact Or.inl ⟨rfl, rfl⟩

theorem same_bumpSent (s : Sess) (i : Nat) (f : Stats → Stats) : Same s (s.bumpSent i f) := same_setConn s i _ rfl rfl
theorem same_bumpRecv (s : Sess) (i : Nat) (f : Stats → Stats) : Same s (s.bumpRecv i f) := same_setConn s i _ rfl rfl
theorem same_setAsn4 (s : Sess) (i : Nat) : Same s (s.setAsn4 i) := same_setConn s i _ rfl rfl

theorem same_writeOn (s : Sess) (i : Nat) (b : Bytes) : Same s (s.writeOn i b) := by
  unfold writeOn; split
  · exact same_emit s _
  · exact Same.refl s

theorem same_sendNotification (s : Sess) (e sub : Nat) (d : Bytes) : Same s (s.sendNotification e sub d) := by
  unfold sendNotification; split
  · exact same_emit s _
  · split
    · exact (same_bumpSent s _ _).trans (same_writeOn _ _ _)
    · exact (same_bumpSent s _ _).trans (same_emit _ _)

theorem same_sendKeepalive (s : Sess) : Same s s.sendKeepalive := by
  unfold sendKeepalive; split
  · exact same_emit s _
  · exact (same_bumpSent s _ _).trans (same_writeOn _ _ _)

theorem same_restartHold (s : Sess) : Same s s.restartHold := by
  unfold restartHold; split
  · exact same_setHold s _
  · exact Same.refl s

theorem same_sendOpen (s : Sess) : Same s s.sendOpen.1 := by
  unfold sendOpen; split
  · exact Same.refl s
  · split
    · exact same_withLocalCaps s _
    · exact (((same_withLocalCaps s _).trans (same_writeOn _ _ _)).trans (same_bumpSent _ _ _)).trans (same_emit _ _)

/-- appending a fresh connector does not change what `conn` answers for any index -/
theorem conn_append_default (s : Sess) (j : Nat) : ((s.withConns (s.conns ++ [({} : Conn)])).conn j) = s.conn j := by
  unfold conn withConns
  simp only [List.getD_eq_getElem?_getD]
  by_cases h : j < s.conns.length
  · rw [List.getElem?_append_left h]
  · have h' : s.conns.length ≤ j := Nat.le_of_not_lt h
    rw [List.getElem?_append_right h']
    rw [List.getElem?_eq_none (l := s.conns) h']
    by_cases h2 : j - s.conns.length = 0
    · simp [h2]
    · have : ([({} : Conn)])[j - s.conns.length]? = none := by
        apply List.getElem?_eq_none; simp; omega
      simp [this]

theorem same_abortPending (s : Sess) : Same s s.abortPending := by
  refine ⟨by simp, by simp, fun j => ?_⟩
  rcases phase_abortPending s j with h | ⟨h1, h2, _⟩
  · exact Or.inl ⟨h, disconnected_abortPending s j⟩
  · exact Or.inr ⟨h2, h1, disconnected_abortPending s j⟩

theorem same_withPending (s : Sess) (v : Option Nat) : Same s (s.withPending v) := Same.of_eq rfl rfl

theorem same_connectTcp (s : Sess) : Same s s.connectTcp := by
  unfold connectTcp; split
  · refine (same_abortPending s).trans (Same.trans (b := s.abortPending.withConns (s.abortPending.conns ++ [({} : Conn)]))
      ⟨rfl, by simp [withConns], fun j => ?_⟩ ((same_emit _ _).trans (same_withPending _ _)))
    rw [conn_append_default]; exact Or.inl ⟨rfl, rfl⟩
  · exact same_abortPending s

@[simp] theorem st_connectTcp (s : Sess) : s.connectTcp.st = s.st := by
  unfold connectTcp; split <;> simp [Sess.emit, withConns]

theorem same_autoStart (s : Sess) (b : Bool) : Same s (s.autoStart b) := by
  unfold autoStart
  split
  · split
    · exact same_setIdleHold s _
    · split
      · exact (((same_incRetryCounter s).trans (same_setRetry _ _)).trans (same_setSt _ _)).trans (same_connectTcp _)
      · exact Same.refl s
  · exact Same.refl s

theorem st_autoStart (s : Sess) (b : Bool) : (s.autoStart b).st = s.st ∨ (s.autoStart b).st = .connect := by
  unfold autoStart
  split
  · split
    · exact Or.inl rfl
    · split
      · right; simp
      · exact Or.inl rfl
  · exact Or.inl rfl

theorem same_dropEstab (s : Sess) (p : Option Nat) : Same s (s.dropEstab p) := by
  unfold dropEstab; split
  · split
    · exact (same_withEstab s _).trans (same_setSt _ _)
    · exact Same.refl s
  · exact Same.refl s

theorem st_dropEstab (s : Sess) (p : Option Nat) : (s.dropEstab p).st = s.st ∨ (s.dropEstab p).st = .idle := by
  unfold dropEstab; split
  · split
    · right; simp
    · exact Or.inl rfl
  · exact Or.inl rfl

theorem same_connectionClosed (s : Sess) (p : Option Nat) : Same s (s.connectionClosed p) := by
  unfold connectionClosed; split
  · exact (same_dropEstab s p).trans (same_autoStart _ _)
  · exact same_dropEstab s p

theorem st_connectionClosed (s : Sess) (p : Option Nat) :
    (s.connectionClosed p).st = s.st ∨ (s.connectionClosed p).st = .idle ∨ (s.connectionClosed p).st = .connect := by
  unfold connectionClosed; split
  · rcases st_autoStart (s.dropEstab p) true with h | h
    · rcases st_dropEstab s p with h' | h'
      · exact Or.inl (h.trans h')
      · exact Or.inr (Or.inl (h.trans h'))
    · exact Or.inr (Or.inr h)
  · rcases st_dropEstab s p with h' | h'
    · exact Or.inl h'
    · exact Or.inr (Or.inl h')

/-! ### `Ch` for the helpers that close -/

theorem ch_closeOn (s : Sess) (i : Nat) : Ch s (s.closeOn i) := by
  unfold closeOn
  split
  · rename_i hph
    refine Ch.trans ?_ (same_emit _ _).ch
    refine ⟨rfl, by simp [setPhase, setDisconnected], fun j => ?_⟩
    simp only [setDisconnected, setPhase, conn_setConn, len_setConn]
    by_cases hj : i = j ∧ i < s.conns.length
    · right
      obtain ⟨rfl, hl⟩ := hj
      simp [hl]
    · left
      have hj' : ¬ (i = j ∧ i < s.conns.length) := hj
      simp [hj']
  · split
    · rename_i hph
      refine ⟨rfl, by simp [setDisconnected], fun j => ?_⟩
      simp only [setDisconnected, conn_setConn]
      by_cases hj : i = j ∧ i < s.conns.length
      · right; left; rw [if_pos hj]; exact ⟨hj.1 ▸ hph, rfl⟩
      · left; simp [hj]
    · exact Ch.refl s

theorem ch_closeConn (s : Sess) : Ch s s.closeConn := by
  unfold closeConn; split
  · exact Ch.refl s
  · exact (ch_closeOn s _).trans (same_withRetryCounter _ _).ch

theorem ch_errorClose (s : Sess) : Ch s s.errorClose := by
  unfold errorClose
  exact (((same_withTm s _).ch.trans (ch_closeConn _)).trans (same_incRetryCounter _).ch).trans (same_setSt _ _).ch

theorem ch_headerError (s : Sess) (sub : Nat) (d : Bytes) : Ch s (s.headerError sub d) :=
  (same_sendNotification s _ _ _).ch.trans (ch_errorClose _)

theorem ch_openMessageError (s : Sess) (sub : Nat) : Ch s (s.openMessageError sub) :=
  (same_sendNotification s _ _ _).ch.trans (ch_errorClose _)

theorem ch_connectionFailed (s : Sess) : Ch s s.connectionFailed := by
  unfold connectionFailed
  split
  · exact (((same_setRetry s _).ch.trans (ch_closeConn _)).trans (same_setSt _ _).ch).trans (same_connectionClosed _ _).ch
  · exact ((same_setRetry s _).trans (same_setSt _ _)).ch
  · exact ((((ch_closeConn s).trans (same_setRetry _ _).ch).trans (same_setHold _ _).ch).trans (same_setSt _ _).ch).trans (same_connectionClosed _ _).ch
  · exact ch_errorClose s
  · exact ch_errorClose s
  · exact Ch.refl s

theorem st_connectionFailed (s : Sess) : ¬ inSession s.connectionFailed.st := by
  unfold connectionFailed
  split
  · rcases st_connectionClosed (((s.setRetry none).closeConn).setSt .idle) s.proto with h | h | h <;> rw [h]
    · simp; exact not_inSession_idle
    · exact not_inSession_idle
    · exact not_inSession_connect
  · simp; exact not_inSession_idle
  · rcases st_connectionClosed ((((s.closeConn).setRetry (some s.retryDeadline)).setHold none).setSt .active) s.proto with h | h | h <;> rw [h]
    · simp; exact not_inSession_active
    · exact not_inSession_idle
    · exact not_inSession_connect
  · simp; exact not_inSession_idle
  · simp; exact not_inSession_idle
  · rename_i h; rw [h]; exact not_inSession_idle

/-! ### the invariant under the helpers -/

theorem SessInv.same_st {s s' : Sess} (h : SessInv s) (c : Same s s') (hst : s'.st = s.st) : SessInv s' :=
  h.of_same c (fun x => hst ▸ x)

theorem inv_errorClose {s : Sess} (h : SessInv s) : SessInv s.errorClose :=
  SessInv.of_ch h.disc (ch_errorClose s) (by simp; exact not_inSession_idle)

theorem inv_fsmErr {s : Sess} (h : SessInv s) (e sub : Nat) (d : Bytes) : SessInv ((s.sendNotification e sub d).errorClose) :=
  SessInv.of_ch h.disc ((same_sendNotification s _ _ _).ch.trans (ch_errorClose _)) (by simp; exact not_inSession_idle)

theorem inv_headerError {s : Sess} (h : SessInv s) (sub : Nat) (d : Bytes) : SessInv (s.headerError sub d) :=
  inv_fsmErr h _ _ _

theorem inv_openMessageError {s : Sess} (h : SessInv s) (sub : Nat) : SessInv (s.openMessageError sub) :=
  inv_fsmErr h _ _ _

theorem inv_emit {s : Sess} (h : SessInv s) (o : Out) : SessInv (s.emit o) := h.same_st (same_emit s o) rfl
theorem inv_bumpRecv {s : Sess} (h : SessInv s) (i : Nat) (f : Stats → Stats) : SessInv (s.bumpRecv i f) :=
  h.same_st (same_bumpRecv s i f) rfl
theorem inv_bumpSent {s : Sess} (h : SessInv s) (i : Nat) (f : Stats → Stats) : SessInv (s.bumpSent i f) :=
  h.same_st (same_bumpSent s i f) rfl
theorem inv_writeOn {s : Sess} (h : SessInv s) (i : Nat) (b : Bytes) : SessInv (s.writeOn i b) :=
  h.same_st (same_writeOn s i b) (by simp)
theorem sessInv_withOuts {s : Sess} (h : SessInv s) (v : List Out) : SessInv (s.withOuts v) :=
  h.same_st (same_withOuts s v) rfl

theorem inSession_openSent : inSession .openSent := Or.inl rfl
theorem inSession_openConfirm : inSession .openConfirm := Or.inr (Or.inl rfl)
theorem inSession_established : inSession .established := Or.inr (Or.inr rfl)

theorem inv_fsmOpenReceived {s : Sess} (h : SessInv s) : SessInv s.fsmOpenReceived := by
  unfold fsmOpenReceived
  split
  · exact inv_errorClose h
  · exact inv_errorClose h
  · rename_i hst
    split
    · exact h.of_same (((((same_setRetry s _).trans (same_sendKeepalive _)).trans (same_setKeepalive _ _)).trans
        (same_setHold _ _)).trans (same_setSt _ _)) (fun _ => hst ▸ inSession_openSent)
    · exact h.of_same (((((same_setRetry s _).trans (same_sendKeepalive _)).trans (same_setKeepalive _ _)).trans
        (same_setHold _ _)).trans (same_setSt _ _)) (fun _ => hst ▸ inSession_openSent)
  · exact inv_fsmErr h _ _ _
  · exact inv_fsmErr h _ _ _
  · exact h

theorem inv_fsmKeepaliveReceived {s : Sess} (h : SessInv s) : SessInv s.fsmKeepaliveReceived := by
  unfold fsmKeepaliveReceived
  split
  · rename_i hst
    exact h.of_same ((same_restartHold s).trans (same_setSt _ _)) (fun _ => hst ▸ inSession_openConfirm)
  · exact h.same_st (same_restartHold s) (by simp)
  · exact inv_errorClose h
  · exact inv_errorClose h
  · exact inv_fsmErr h _ _ _
  · exact h

theorem inv_fsmUpdateReceived {s : Sess} (h : SessInv s) : SessInv s.fsmUpdateReceived := by
  unfold fsmUpdateReceived
  split
  · exact h.same_st (same_restartHold s) (by simp)
  · exact inv_errorClose h
  · exact inv_errorClose h
  · exact inv_fsmErr h _ _ _
  · exact inv_fsmErr h _ _ _
  · exact h

theorem inv_fsmNotificationReceived {s : Sess} (h : SessInv s) (e sub : Nat) : SessInv (s.fsmNotificationReceived e sub) := by
  have hidle : ∀ t : Sess, DiscClosed t → SessInv (((((t.setRetry none).setHold none).setKeepalive none).closeConn).setSt .idle) := fun t ht =>
    SessInv.of_ch ht (((((same_setRetry t _).trans (same_setHold _ _)).trans (same_setKeepalive _ _)).ch.trans (ch_closeConn _)).trans (same_setSt _ _).ch)
      (by simp; exact not_inSession_idle)
  unfold fsmNotificationReceived
  split
  · split
    · exact hidle s h.disc
    · exact hidle s h.disc
    · exact inv_errorClose h
    · exact inv_errorClose h
    · exact inv_errorClose h
    · exact h
  · split
    · exact inv_errorClose h
    · exact h

theorem inv_openAccepted {s : Sess} (h : SessInv s) (i : Nat) (m : OpenMsg) : SessInv (s.openAccepted i m).1 := by
  have h1 : SessInv (s.withRemote m.caps) := h.same_st (same_withRemote s _) rfl
  have h2 : SessInv ((s.withRemote m.caps).setAsn4 i) := h1.same_st (same_setAsn4 _ i) rfl
  unfold openAccepted
  split
  · split
    · exact inv_openMessageError h2 _
    · exact inv_openMessageError h1 _
  · split
    · exact inv_emit (inv_fsmOpenReceived (h2.same_st (same_withHoldTime _ (min s.cfg.holdCfg m.holdTime)) rfl)) _
    · exact inv_emit (inv_fsmOpenReceived (h1.same_st (same_withHoldTime _ (min s.cfg.holdCfg m.holdTime)) rfl)) _

theorem inv_openReceived {s : Sess} (h : SessInv s) (i : Nat) (body : Bytes) : SessInv (s.openReceived i body).1 := by
  unfold openReceived
  split
  · exact inv_headerError (inv_bumpRecv h i _) _ _
  · exact inv_openMessageError (inv_bumpRecv h i _) _
  · exact inv_bumpRecv h i _
  · split
    · exact inv_openMessageError (inv_bumpRecv h i _) _
    · exact inv_openAccepted (inv_bumpRecv h i _) i _

theorem inv_dispatch (U : Bool → Bytes → UpdClass) {s : Sess} (h : SessInv s) (i ty : Nat) (body : Bytes) :
    SessInv (dispatch U s i ty body).1 := by
  unfold dispatch
  split
  · exact inv_openReceived h i body
  · split
    · split
      · exact inv_bumpRecv h i _
      · exact inv_emit (inv_bumpRecv h i _) _
      · exact inv_fsmUpdateReceived (inv_emit (inv_bumpRecv h i _) _)
      · exact inv_fsmUpdateReceived (inv_emit (inv_bumpRecv h i _) _)
    · split
      · split
        · exact h
        · exact inv_fsmNotificationReceived (inv_emit (inv_bumpRecv h i _) _) _ _
      · split
        · split
          · exact inv_fsmKeepaliveReceived (inv_emit (inv_bumpRecv h i _) _)
          · exact inv_headerError (inv_emit (inv_bumpRecv h i _) _) _ _
        · split
          · split
            · exact inv_bumpRecv h i _
            · exact inv_emit (inv_bumpRecv h i _) _
          · exact inv_headerError h _ _

theorem inv_parseBuffer (U : Bool → Bytes → UpdClass) {s : Sess} (h : SessInv s) (i : Nat) (buf : Bytes) :
    SessInv (parseBuffer U s i buf).1 := by
  unfold parseBuffer
  split
  · exact h
  · split
    · exact h
    · exact inv_headerError h _ _
    · exact inv_headerError h _ _
    · split <;> exact inv_dispatch U h i _ _

theorem inv_drain (U : Bool → Bytes → UpdClass) (i : Nat) :
    ∀ (f : Nat) (s : Sess) (buf : Bytes), SessInv s → SessInv (drain U f s i buf).1 := by
  intro f
  induction f with
  | zero => intro s buf h; exact h
  | succ n ih =>
    intro s buf h
    unfold drain
    split
    · exact ih _ _ (inv_parseBuffer U h i buf)
    · exact inv_parseBuffer U h i buf

theorem inv_dataReceived (U : Bool → Bytes → UpdClass) {s : Sess} (h : SessInv s) (i : Nat) (buf data : Bytes) :
    SessInv (dataReceived U s i buf data).1 := inv_drain U i _ s _ h

theorem inv_autoStart {s : Sess} (h : SessInv s) (b : Bool) : SessInv (s.autoStart b) :=
  h.of_same (same_autoStart s b) (fun hs => by
    rcases st_autoStart s b with e | e
    · exact e ▸ hs
    · rw [e] at hs; exact absurd hs not_inSession_connect)

theorem inv_manualStart {s : Sess} (h : SessInv s) : SessInv s.manualStart := by
  unfold manualStart
  split
  · exact inv_emit h _
  · exact inv_emit (SessInv.of_same h ((((same_withAllow s true).trans (same_setRetry _ _)).trans (same_setSt _ _)).trans
      (same_connectTcp _)) (fun hs => by simp at hs; exact absurd hs not_inSession_connect)) _
  · exact inv_emit h _

theorem inv_manualStop {s : Sess} (h : SessInv s) : SessInv s.manualStop := by
  unfold manualStop
  have h0 : Same s (if s.st = .established then s.sendNotification C.errCease 0 [] else s) := by
    split
    · exact same_sendNotification s _ _ _
    · exact Same.refl s
  exact inv_emit (SessInv.of_ch h.disc ((((((h0.trans (same_withTm _ _)).ch.trans (ch_closeConn _)).trans
    (same_withRetryCounter _ _).ch).trans (same_withAllow _ _).ch).trans (same_setSt _ _).ch).trans (same_abortPending _).ch)
    (by simp; exact not_inSession_idle)) _

theorem disc_false_of_connecting {s : Sess} (h : DiscClosed s) {c : Nat} (hc : (s.conn c).phase = .connecting) :
    (s.conn c).disconnected = false := by
  cases hd : (s.conn c).disconnected with
  | false => rfl
  | true => rcases h c hd with h1 | h1 <;> rw [hc] at h1 <;> cases h1

theorem discClosed_setPhase {s : Sess} (h : DiscClosed s) (c : Nat) (p : Phase)
    (hp : p = .closing ∨ p = .closed ∨ (s.conn c).disconnected = false) : DiscClosed (s.setPhase c p) := by
  intro j hd
  simp only [setPhase, conn_setConn] at hd ⊢
  by_cases hj : c = j ∧ c < s.conns.length
  · rw [if_pos hj] at hd ⊢
    simp only at hd ⊢
    rcases hp with e | e | e
    · exact Or.inl e
    · exact Or.inr e
    · rw [e] at hd; cases hd
  · rw [if_neg hj] at hd ⊢
    exact h j hd

/-- the invariant from an explicit tracked connection -/
theorem SessInv.of_tracked {t r : Sess} {i : Nat} (hd : DiscClosed t) (c : Same t r) (hp : t.proto = some i)
    (hl : i < t.conns.length) (hu : (t.conn i).phase = .connected) : SessInv r :=
  ⟨fun _ => ⟨i, c.proto.trans hp, Nat.lt_of_lt_of_le hl c.len, by
      rcases c.conn i with hh | hh
      · exact hh.1.trans hu
      · have := hh.1; rw [hu] at this; cases this⟩, hd.of_ch c.ch⟩

theorem same_connectionMade (t : Sess) : Same t t.connectionMade := by
  unfold connectionMade
  have h1 : Same t ((t.setRetry none).setIdleHold none).sendOpen.1 :=
    ((same_setRetry t _).trans (same_setIdleHold _ _)).trans (same_sendOpen _)
  split
  · exact (h1.trans (same_setHold _ _)).trans (same_setSt _ _)
  · exact h1

theorem inv_connOk {s : Sess} (h : SessInv s) (c : Nat) (hlt : c < s.conns.length)
    (hph : (s.conn c).phase = .connecting) : SessInv (s.connOk c) := by
  have hd := disc_false_of_connecting h.disc hph
  have h1 : DiscClosed ((s.setPhase c .connected).withProto (some c)) :=
    discClosed_setPhase h.disc c _ (Or.inr (Or.inr hd))
  have hu : (((s.setPhase c .connected).withProto (some c)).conn c).phase = .connected := by
    show ((s.setPhase c .connected).conn c).phase = .connected
    simp [setPhase, conn_setConn, hlt]
  have hl : c < ((s.setPhase c .connected).withProto (some c)).conns.length := by
    show c < (s.setPhase c .connected).conns.length
    simp [setPhase]; exact hlt
  unfold connOk
  exact SessInv.of_tracked h1 ((((same_setSt _ _).trans (same_withEstab _ _)).trans (same_withBgpId _ _)).trans
    (same_connectionMade _)) rfl hl hu

theorem inv_connFail {s : Sess} (h : SessInv s) (c : Nat) (hph : (s.conn c).phase = .connecting) :
    SessInv (s.connFail c) := by
  unfold connFail
  split
  · exact SessInv.of_ch (s := (s.withPending none).setPhase c .closed)
      (discClosed_setPhase (s := s.withPending none) h.disc c _ (Or.inr (Or.inl rfl)))
      ((same_emit _ _).ch.trans (ch_connectionFailed _)) (st_connectionFailed _)
  · -- a connector the peering has given up: nothing but its phase changes, and it was not the tracked connection
    refine ⟨fun hs => ?_, discClosed_setPhase h.disc c _ (Or.inr (Or.inl rfl))⟩
    obtain ⟨i, hp, hl, hu⟩ := h.tracked hs
    refine ⟨i, hp, by simpa [setPhase] using hl, ?_⟩
    have hne : c ≠ i := by intro e; subst e; rw [hu] at hph; cases hph
    simp only [setPhase, conn_setConn]
    rw [if_neg (fun hh => hne hh.1)]
    exact hu

theorem inv_connLost {s : Sess} (h : SessInv s) (c : Nat) : SessInv (s.connLost c) := by
  have hd1 : DiscClosed (s.setPhase c .closed) := discClosed_setPhase h.disc c _ (Or.inr (Or.inl rfl))
  unfold connLost
  split
  · rename_i hdc
    -- we closed `c` ourselves: it is not the tracked connection of a session state
    have h1 : SessInv (s.setPhase c .closed) := by
      refine ⟨fun hs => ?_, hd1⟩
      obtain ⟨i, hn⟩ := h.norm hs
      have hne : c ≠ i := by
        intro e; subst e; rw [hn.nd] at hdc; cases hdc
      refine ⟨i, hn.proto, by simp [setPhase]; exact hn.lt, ?_⟩
      simp only [setPhase, conn_setConn]
      rw [if_neg (fun hh => hne hh.1)]
      exact hn.up
    refine SessInv.of_same (inv_emit h1 _) (same_connectionClosed _ _) (fun hs => ?_)
    rcases st_connectionClosed ((s.setPhase c .closed).emit (.hConnLost c)) (some c) with e | e | e
    · exact e ▸ hs
    · rw [e] at hs; exact absurd hs not_inSession_idle
    · rw [e] at hs; exact absurd hs not_inSession_connect
  · exact SessInv.of_ch hd1 ((same_emit _ _).ch.trans (ch_connectionFailed _)) (st_connectionFailed _)

theorem inv_fireRetry {s : Sess} (h : SessInv s) : SessInv s.fireRetry := by
  unfold fireRetry
  split
  · rename_i hst
    exact SessInv.of_ch h.disc ((((same_setRetry s _).ch.trans (ch_closeConn _)).trans (same_setRetry _ _).ch).trans
      (same_connectTcp _).ch) (by simp [hst]; exact not_inSession_connect)
  · rename_i hst
    exact SessInv.of_ch h.disc ((((same_setRetry s _).ch.trans (ch_closeConn _)).trans (same_setRetry _ _).ch).trans
      (same_connectTcp _).ch) (by simp [hst]; exact not_inSession_active)
  · exact h.same_st (same_setRetry s none) rfl
  · exact inv_fsmErr (h.same_st (same_setRetry s none) rfl) _ _ _

theorem inv_fireHold {s : Sess} (h : SessInv s) : SessInv s.fireHold := by
  have hx : SessInv (((((s.setHold none).sendNotification C.errHold 0 []).setRetry none).errorClose).setSt .idle) :=
    SessInv.of_ch h.disc (((((same_setHold s _).trans (same_sendNotification _ _ _ _)).trans (same_setRetry _ _)).ch.trans
      (ch_errorClose _)).trans (same_setSt _ _).ch) (by simp; exact not_inSession_idle)
  unfold fireHold
  split
  · exact hx
  · exact hx
  · exact hx
  · exact inv_errorClose (h.same_st (same_setHold s none) rfl)
  · exact inv_errorClose (h.same_st (same_setHold s none) rfl)
  · exact h.same_st (same_setHold s none) rfl

theorem inv_fireKeepalive {s : Sess} (h : SessInv s) : SessInv s.fireKeepalive := by
  unfold fireKeepalive
  split
  · split
    · exact h.same_st (((same_setKeepalive s _).trans (same_sendKeepalive _)).trans (same_setKeepalive _ _)) (by simp)
    · exact h.same_st ((same_setKeepalive s _).trans (same_sendKeepalive _)) (by simp)
  · split
    · exact h.same_st (((same_setKeepalive s _).trans (same_sendKeepalive _)).trans (same_setKeepalive _ _)) (by simp)
    · exact h.same_st ((same_setKeepalive s _).trans (same_sendKeepalive _)) (by simp)
  · exact inv_errorClose (h.same_st (same_setKeepalive s none) rfl)
  · exact inv_errorClose (h.same_st (same_setKeepalive s none) rfl)
  · exact h.same_st (same_setKeepalive s none) rfl

theorem inv_fireIdleHold {s : Sess} (h : SessInv s) : SessInv s.fireIdleHold := by
  unfold fireIdleHold
  split
  · exact inv_autoStart (h.same_st (same_setIdleHold s none) rfl) _
  · exact h.same_st (same_setIdleHold s none) rfl

theorem sessInv_boot (cfg : Cfg) : SessInv (bootWorld cfg).sess := by
  refine ⟨fun hs => absurd hs not_inSession_idle, fun j hd => ?_⟩
  simp [bootWorld, boot, conn] at hd

/-- every enabled environment event preserves the invariant -/
theorem sessInv_step (U : Bool → Bytes → UpdClass) (w : World) (e : Ev) (hen : enabled w.sess e = true)
    (h : SessInv w.sess) : SessInv (step U w e).sess := by
  have h0 : SessInv (w.sess.withOuts []) := sessInv_withOuts h []
  cases e with
  | boot => exact inv_autoStart h0 _
  | manualStart => exact inv_manualStart h0
  | manualStop => exact inv_manualStop h0
  | connOk c =>
    simp only [enabled, decide_eq_true_eq] at hen
    exact inv_connOk h0 c hen.1 hen.2
  | connFail c =>
    simp only [enabled, Bool.and_eq_true, decide_eq_true_eq] at hen
    exact inv_connFail h0 c hen.2
  | chunk c d => exact inv_dataReceived U h0 c _ d
  | lost c => exact inv_connLost h0 c
  | advance dt => exact h0.same_st (same_withNow _ _) rfl
  | fire t =>
    cases t with
    | retry => exact inv_fireRetry h0
    | hold => exact inv_fireHold h0
    | keepalive => exact inv_fireKeepalive h0
    | idleHold => exact inv_fireIdleHold h0

/-! ### REST requests -/

theorem inv_runView (v : Rest.View) (req : Rest.Request) {s : Sess} (h : SessInv s) : SessInv (Rest.runView v req s).2 := by
  by_cases hv : v.isSend = false
  · rcases Rest.runView_state v req s hv with e | e | e <;> rw [e]
    · exact h
    · exact inv_manualStart h
    · exact inv_manualStop h
  · cases v <;> simp [Rest.View.isSend] at hv
    · simp only [Rest.runView]
      unfold Rest.viewSendRouteRefresh Rest.rrSend
      repeat' split
      all_goals first | exact h | exact inv_bumpSent (inv_writeOn h _ _) _ _
    · simp only [Rest.runView]
      unfold Rest.viewSendUpdate Rest.updSend
      repeat' split
      all_goals first | exact h | exact inv_bumpSent (inv_writeOn h _ _) _ _
    · simp only [Rest.runView]
      unfold Rest.viewSendBinUpdate Rest.binSend
      repeat' split
      all_goals first | exact h | exact inv_bumpSent (inv_writeOn h _ _) _ _

/-- every REST request (any route record) preserves the invariant -/
theorem sessInv_handle (rc : Rest.RestCfg) (r : Rest.Route) (req : Rest.Request) (s : Sess) (h : SessInv s) :
    SessInv (Rest.handle rc r req s).2 := by
  unfold Rest.handle
  split
  · rw [Rest.stripHead_snd]; exact h
  · split
    · exact h
    · rw [Rest.stripHead_snd]
      rcases Rest.chain_cases rc (Rest.View.ofName r.view) req s (r.decorators.map Rest.Deco.ofName) with hh | hh
      · rw [hh.1]; exact inv_runView _ req h
      · rw [hh.1]; exact h

end Yabgp.RestInv
