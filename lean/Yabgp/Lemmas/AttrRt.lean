/-
  Round-trip lemmas for the standard path attributes.
-/
import Yabgp.Lemmas.Basic
import Yabgp.Model.Update

namespace Yabgp

/-- well-formedness of one AS_PATH segment for the encoder: type 1..4, ≤ 255 AS numbers in range -/
def SegOk (asn4 : Bool) (s : Nat × List Nat) : Prop :=
  1 ≤ s.1 ∧ s.1 ≤ 4 ∧ s.2.length < 256 ∧ ∀ x ∈ s.2, asnOk asn4 x = true

theorem encSegment_ok {asn4 : Bool} {s : Nat × List Nat} (h : SegOk asn4 s) :
    encSegment asn4 s = some (be8 s.1 ++ be8 s.2.length ++ encAsns asn4 s.2) := by
  obtain ⟨h1, h2, h3, h4⟩ := h
  unfold encSegment
  rw [if_pos]
  refine ⟨by omega, h3, ?_⟩
  simpa [List.all_eq_true] using h4

theorem parseAsPath_cons (asn4 : Bool) (t n : UInt8) (rest : Bytes) :
    parseAsPath asn4 (t :: n :: rest) =
      if t.toNat < 1 ∨ 4 < t.toNat then .error (.upd C.eMalformedAsPath)
      else if rest.length < n.toNat * asWidth asn4 then .error (.upd C.eAttrLen)
      else
        match parseAsPath asn4 (rest.drop (n.toNat * asWidth asn4)) with
        | .ok segs => .ok ((t.toNat, decAsns asn4 n.toNat rest) :: segs)
        | .error e => .error e := by
  conv => lhs; rw [parseAsPath]
  split
  · rfl
  · split
    · rfl
    · split <;> simp_all

theorem parseAsPath_enc (asn4 : Bool) (segs : List (Nat × List Nat)) (raw : Bytes)
    (hok : ∀ s ∈ segs, SegOk asn4 s) (henc : encSegments asn4 segs = some raw) :
    parseAsPath asn4 raw = .ok segs := by
  induction segs generalizing raw with
  | nil =>
    simp [encSegments] at henc; subst henc; rw [parseAsPath]
  | cons s r ih =>
    have hs := hok s (by simp)
    have hr : ∀ s' ∈ r, SegOk asn4 s' := fun s' h' => hok s' (by simp [h'])
    simp only [encSegments, encSegment_ok hs] at henc
    cases hrest : encSegments asn4 r with
    | none => simp [hrest] at henc
    | some rawr =>
      simp [hrest] at henc
      subst henc
      obtain ⟨h1, h2, h3, h4⟩ := hs
      simp only [be8, List.cons_append, List.nil_append, List.append_assoc]
      rw [parseAsPath_cons]
      have ht : (u8 s.1).toNat = s.1 := u8_toNat (by omega)
      have hn : (u8 s.2.length).toNat = s.2.length := u8_toNat h3
      rw [ht, hn]
      rw [if_neg (by omega)]
      have hl := encAsns_length asn4 s.2
      rw [if_neg (by simp [hl])]
      rw [← hl, List.drop_left, ih rawr hr hrest]
      simp only [hl]
      rw [decAsns_enc asn4 s.2 rawr h4]

end Yabgp

namespace Yabgp

theorem splitAttr_short (f c : Nat) (body rest : Bytes) (hf : f < 256) (hc : c < 256)
    (hfe : f / 16 % 2 = 0) (hl : body.length < 256) :
    splitAttr (be8 f ++ be8 c ++ be8 body.length ++ body ++ rest) = some (f, c, body, rest) := by
  simp only [be8, List.cons_append, List.nil_append, splitAttr]
  rw [u8_toNat hf, u8_toNat hc, u8_toNat hl]
  rw [if_neg (by omega)]
  simp

theorem splitAttr_ext (f c : Nat) (body rest : Bytes) (hf : f < 256) (hc : c < 256)
    (hfe : f / 16 % 2 = 1) (hl : body.length < 65536) :
    splitAttr (be8 f ++ be8 c ++ be16 body.length ++ body ++ rest) = some (f, c, body, rest) := by
  simp only [be8, List.cons_append, List.nil_append, splitAttr, List.append_assoc]
  rw [u8_toNat hf, u8_toNat hc]
  rw [if_pos hfe, rd16_be16 hl]
  simp

/-- in-range values of the standard attributes, per type code and AS mode -/
def AttrOk (asn4 : Bool) (code : Nat) : AttrVal → Prop
  | .origin n => code = 1 ∧ n ≤ 2
  | .asPath segs => code = 2 ∧ ∀ s ∈ segs, SegOk asn4 s
  | .nextHop ip => code = 3 ∧ ip < 4294967296
  | .med n => code = 4 ∧ n < 4294967296
  | .localPref n => code = 5 ∧ n < 4294967296
  | .atomicAgg => code = 6
  | .aggregator a ip => code = 7 ∧ asnOk asn4 a = true ∧ ip < 4294967296
  | .community cs => code = 8 ∧ ∀ c ∈ cs, c < 4294967296
  | .originatorId ip => code = 9 ∧ ip < 4294967296
  | .clusterList ips => code = 10 ∧ ∀ c ∈ ips, c < 4294967296
  | .largeCommunity xs => code = 32 ∧ ∀ t ∈ xs, t.1 < 4294967296 ∧ t.2.1 < 4294967296 ∧ t.2.2 < 4294967296
  | .raw _ => False
  | .unmodelled _ => False

theorem words32_be32_append {a : Nat} (h : a < 4294967296) (t : Bytes) :
    words32 (be32 a ++ t) = a :: words32 t := by
  simp only [be32, List.cons_append, List.nil_append, words32]
  simp only [u8_toNat_mod]; congr 1; omega

theorem triples_words (xs : List (Nat × Nat × Nat))
    (h : ∀ t ∈ xs, t.1 < 4294967296 ∧ t.2.1 < 4294967296 ∧ t.2.2 < 4294967296) :
    triples (words32 (xs.flatMap fun t => be32 t.1 ++ be32 t.2.1 ++ be32 t.2.2)) = xs := by
  induction xs with
  | nil => rfl
  | cons x r ih =>
    obtain ⟨h1, h2, h3⟩ := h x (by simp)
    have hr := ih (fun y hy => h y (by simp [hy]))
    rw [List.flatMap_cons, List.append_assoc, List.append_assoc]
    rw [words32_be32_append h1, words32_be32_append h2, words32_be32_append h3]
    simp only [triples]
    rw [hr]

theorem triples_flat_length (xs : List (Nat × Nat × Nat)) :
    (xs.flatMap fun t => be32 t.1 ++ be32 t.2.1 ++ be32 t.2.2).length = 12 * xs.length := by
  induction xs with
  | nil => rfl
  | cons x r ih => simp only [List.flatMap_cons, List.length_append, be32_length, ih, List.length_cons]; omega

end Yabgp

namespace Yabgp

theorem pav_1 (a : Bool) (v : Bytes) : parseAttrValue a 1 v = parseOrigin v := by
  simp [parseAttrValue, C.tOrigin]
theorem pav_2 (a : Bool) (v : Bytes) : parseAttrValue a 2 v = (parseAsPath a v).map .asPath := by
  simp [parseAttrValue, C.tOrigin, C.tAsPath]
theorem pav_3 (a : Bool) (v : Bytes) : parseAttrValue a 3 v = parseNextHop v := by
  simp [parseAttrValue, C.tOrigin, C.tAsPath, C.tNextHop]
theorem pav_4 (a : Bool) (v : Bytes) : parseAttrValue a 4 v = (parseU32 v).map .med := by
  simp [parseAttrValue, C.tOrigin, C.tAsPath, C.tNextHop, C.tMed]
theorem pav_5 (a : Bool) (v : Bytes) : parseAttrValue a 5 v = (parseU32 v).map .localPref := by
  simp [parseAttrValue, C.tOrigin, C.tAsPath, C.tNextHop, C.tMed, C.tLocalPref]
theorem pav_6 (a : Bool) (v : Bytes) : parseAttrValue a 6 v = parseAtomicAgg v := by
  simp [parseAttrValue, C.tOrigin, C.tAsPath, C.tNextHop, C.tMed, C.tLocalPref, C.tAtomicAgg]
theorem pav_7 (a : Bool) (v : Bytes) : parseAttrValue a 7 v = parseAggregator a v := by
  simp [parseAttrValue, C.tOrigin, C.tAsPath, C.tNextHop, C.tMed, C.tLocalPref, C.tAtomicAgg, C.tAggregator]
theorem pav_8 (a : Bool) (v : Bytes) : parseAttrValue a 8 v = parseCommunity v := by
  simp [parseAttrValue, C.tOrigin, C.tAsPath, C.tNextHop, C.tMed, C.tLocalPref, C.tAtomicAgg, C.tAggregator,
    C.tCommunity]
theorem pav_9 (a : Bool) (v : Bytes) : parseAttrValue a 9 v = parseOriginatorId v := by
  simp [parseAttrValue, C.tOrigin, C.tAsPath, C.tNextHop, C.tMed, C.tLocalPref, C.tAtomicAgg, C.tAggregator,
    C.tCommunity, C.tOriginatorId]
theorem pav_10 (a : Bool) (v : Bytes) : parseAttrValue a 10 v = parseClusterList v := by
  simp [parseAttrValue, C.tOrigin, C.tAsPath, C.tNextHop, C.tMed, C.tLocalPref, C.tAtomicAgg, C.tAggregator,
    C.tCommunity, C.tOriginatorId, C.tClusterList]
theorem pav_32 (a : Bool) (v : Bytes) : parseAttrValue a 32 v = parseLargeCommunity v := by
  simp [parseAttrValue, C.tOrigin, C.tAsPath, C.tNextHop, C.tMed, C.tLocalPref, C.tAtomicAgg, C.tAggregator,
    C.tCommunity, C.tOriginatorId, C.tClusterList, C.tAs4Path, C.tAs4Aggregator, C.tLargeCommunity]

/-- every standard attribute: the encoder's output is one well-delimited attribute whose value the
    decoder maps back to the value that was given -/
theorem attr_roundtrip (asn4 : Bool) (code : Nat) (v : AttrVal) (w rest : Bytes)
    (hok : AttrOk asn4 code v) (hc : constructAttr asn4 code v = some w) :
    ∃ f body, splitAttr (w ++ rest) = some (f, code, body, rest) ∧
      parseAttrValue asn4 code body = .ok v := by
  cases v with
  | origin n =>
    obtain ⟨rfl, hn⟩ := hok
    simp [constructAttr, C.tOrigin, hn] at hc
    subst hc
    refine ⟨C.fOrigin, be8 n, ?_, ?_⟩
    · exact splitAttr_short C.fOrigin 1 (be8 n) rest (by decide) (by decide) (by decide) (by simp)
    · simp [pav_1, parseOrigin, be8, u8_toNat (show n < 256 by omega), hn]
  | asPath segs =>
    obtain ⟨rfl, hs⟩ := hok
    simp only [constructAttr, C.tAsPath, ↓reduceIte, constructAsPath] at hc
    cases henc : encSegments asn4 segs with
    | none => simp [henc] at hc
    | some raw =>
      simp only [henc, Option.bind_eq_bind, Option.bind_some, Option.pure_def] at hc
      have hp := parseAsPath_enc asn4 segs raw hs henc
      split at hc
      · split at hc
        · rename_i h1 h2
          simp only [Option.some.injEq] at hc
          subst hc
          refine ⟨C.fAsPath + C.fExtLen, raw, ?_, ?_⟩
          · exact splitAttr_ext _ 2 raw rest (by decide) (by decide) (by decide) h2
          · simp [pav_2, hp, Except.map]
        · simp at hc
      · rename_i h1
        simp only [Option.some.injEq] at hc
        subst hc
        refine ⟨C.fAsPath, raw, ?_, ?_⟩
        · exact splitAttr_short _ 2 raw rest (by decide) (by decide) (by decide) (by omega)
        · simp [pav_2, hp, Except.map]
  | nextHop ip =>
    obtain ⟨rfl, hn⟩ := hok
    simp [constructAttr, C.tNextHop, ip4Ok, hn] at hc
    subst hc
    refine ⟨C.fNextHop, be32 ip, ?_, ?_⟩
    · exact splitAttr_short _ 3 (be32 ip) rest (by decide) (by decide) (by decide) (by simp)
    · have := rd32_be32 hn []
      simp only [List.append_nil] at this
      simp [pav_3, parseNextHop, this]
  | med n =>
    obtain ⟨rfl, hn⟩ := hok
    simp [constructAttr, C.tMed, hn] at hc
    subst hc
    refine ⟨C.fMed, be32 n, ?_, ?_⟩
    · exact splitAttr_short _ 4 (be32 n) rest (by decide) (by decide) (by decide) (by simp)
    · simp [pav_4, parseU32, unpackI_be32 hn, Except.map]
  | localPref n =>
    obtain ⟨rfl, hn⟩ := hok
    simp [constructAttr, C.tLocalPref, hn] at hc
    subst hc
    refine ⟨C.fLocalPref, be32 n, ?_, ?_⟩
    · exact splitAttr_short _ 5 (be32 n) rest (by decide) (by decide) (by decide) (by simp)
    · simp [pav_5, parseU32, unpackI_be32 hn, Except.map]
  | atomicAgg =>
    have hcode : code = 6 := hok
    subst hcode
    simp [constructAttr, C.tAtomicAgg] at hc
    subst hc
    refine ⟨C.fAtomicAgg, [], ?_, ?_⟩
    · exact splitAttr_short _ 6 [] rest (by decide) (by decide) (by decide) (by simp)
    · simp [pav_6, parseAtomicAgg]
  | aggregator a ip =>
    obtain ⟨rfl, ha, hip⟩ := hok
    cases asn4
    · simp only [asnOk, Bool.false_eq_true, ↓reduceIte, decide_eq_true_eq] at ha
      simp [constructAttr, C.tAggregator, asnOk, ha, ip4Ok, hip, attrHdr1] at hc
      subst hc
      refine ⟨C.fAggregator, be16 a ++ be32 ip,
        splitAttr_short _ 7 (be16 a ++ be32 ip) rest (by decide) (by decide) (by decide) (by simp), ?_⟩
      have h1 : (be16 a ++ be32 ip).take 2 = be16 a := by simp [be16]
      have h2 : (be16 a ++ be32 ip).drop 2 = be32 ip := by simp [be16]
      simp only [pav_7, parseAggregator, Bool.false_eq_true, ↓reduceIte, h1, h2, unpackH_be16 ha,
        unpackI_be32 hip]
    · simp only [asnOk, ↓reduceIte, decide_eq_true_eq] at ha
      simp [constructAttr, C.tAggregator, asnOk, ha, ip4Ok, hip, attrHdr1] at hc
      subst hc
      refine ⟨C.fAggregator, be32 a ++ be32 ip,
        splitAttr_short _ 7 (be32 a ++ be32 ip) rest (by decide) (by decide) (by decide) (by simp), ?_⟩
      have h1 : (be32 a ++ be32 ip).take 4 = be32 a := by simp [be32]
      have h2 : (be32 a ++ be32 ip).drop 4 = be32 ip := by simp [be32]
      simp only [pav_7, parseAggregator, ↓reduceIte, h1, h2, unpackI_be32 ha, unpackI_be32 hip]
  | community cs =>
    obtain ⟨rfl, hcs⟩ := hok
    have hall : cs.all (· < 4294967296) = true := by simpa [List.all_eq_true] using hcs
    simp only [constructAttr, C.tCommunity, hall, and_self, ↓reduceIte, attrHdr1] at hc
    split at hc
    · rename_i hl
      simp only [Option.some.injEq] at hc
      subst hc
      refine ⟨C.fCommunity, _, splitAttr_short _ 8 _ rest (by decide) (by decide) (by decide) hl, ?_⟩
      have h4 := flatMap_be32_length cs
      simp only [pav_8, parseCommunity, h4, Nat.mul_mod_right, ↓reduceIte, words32_flatMap_be32 cs hcs]
    · simp at hc
  | originatorId ip =>
    obtain ⟨rfl, hn⟩ := hok
    simp [constructAttr, C.tOriginatorId, ip4Ok, hn] at hc
    subst hc
    refine ⟨C.fOriginatorId, be32 ip, ?_, ?_⟩
    · exact splitAttr_short _ 9 (be32 ip) rest (by decide) (by decide) (by decide) (by simp)
    · simp [pav_9, parseOriginatorId, unpackI_be32 hn]
  | clusterList ips =>
    obtain ⟨rfl, hcs⟩ := hok
    have hall : ips.all ip4Ok = true := by simpa [List.all_eq_true, ip4Ok] using hcs
    simp only [constructAttr, C.tClusterList, hall, and_self, ↓reduceIte, attrHdr1] at hc
    split at hc
    · rename_i hl
      simp only [Option.some.injEq] at hc
      subst hc
      refine ⟨C.fClusterList, _, splitAttr_short _ 10 _ rest (by decide) (by decide) (by decide) hl, ?_⟩
      have h4 := flatMap_be32_length ips
      simp only [pav_10, parseClusterList, h4, Nat.mul_mod_right, ↓reduceIte, words32_flatMap_be32 ips hcs]
    · simp at hc
  | largeCommunity xs =>
    obtain ⟨rfl, hcs⟩ := hok
    have hall : xs.all (fun t => t.1 < 4294967296 ∧ t.2.1 < 4294967296 ∧ t.2.2 < 4294967296) = true := by
      simpa [List.all_eq_true] using hcs
    simp only [constructAttr, C.tLargeCommunity, hall, and_self, ↓reduceIte, attrHdr1] at hc
    split at hc
    · rename_i hl
      simp only [Option.some.injEq] at hc
      subst hc
      refine ⟨C.fLargeCommunity, _, splitAttr_short _ 32 _ rest (by decide) (by decide) (by decide) hl, ?_⟩
      have h4 := triples_flat_length xs
      simp only [pav_32, parseLargeCommunity, h4, Nat.mul_mod_right, ↓reduceIte, triples_words xs hcs]
    · simp at hc
  | raw b => exact absurd hok id
  | unmodelled c => exact absurd hok id

end Yabgp
