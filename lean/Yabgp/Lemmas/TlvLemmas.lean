/-
  Helper lemmas about the parametric TLV loop (Model/Tlv.lean): unfolding, one whole TLV in front of anything,
  the split/walk factorisation, work bounds, headers, Python-dict reads.
-/
import Yabgp.Model.Tlv

namespace Yabgp.Tlv
open Yabgp

variable {α ε : Type}

/-! ### unfolding -/

theorem tlvRun_unfold (sh : Shape) (body : Bytes → Bytes → Except ε (Option α)) (b : Bytes) :
    tlvRun sh body b =
      if b = [] then { vals := [], stop := .done, steps := 0 }
      else if b.length < sh.hdr then { vals := [], stop := .short b, steps := 1 }
      else match body (hdrOf sh b) (valOf sh b) with
        | .error e => { vals := [], stop := .fail (hdrOf sh b) (valOf sh b) e, steps := 1 }
        | .ok x => (tlvRun sh body (restOf sh b)).push x := by
  conv => lhs; rw [tlvRun]
  by_cases hb : b = []
  · simp [hb]
  · by_cases hs : b.length < sh.hdr
    · simp [hb, hs]
    · simp only [hb, hs, dite_false, if_false]
      cases body (hdrOf sh b) (valOf sh b) <;> rfl

@[simp] theorem tlvRun_nil (sh : Shape) (body : Bytes → Bytes → Except ε (Option α)) :
    tlvRun sh body [] = { vals := [], stop := .done, steps := 0 } := by
  rw [tlvRun_unfold]; simp

theorem tlvRun_short (sh : Shape) (body : Bytes → Bytes → Except ε (Option α)) (b : Bytes)
    (hb : b ≠ []) (hs : b.length < sh.hdr) :
    tlvRun sh body b = { vals := [], stop := .short b, steps := 1 } := by
  rw [tlvRun_unfold]; simp [hb, hs]

theorem tlvRun_step (sh : Shape) (body : Bytes → Bytes → Except ε (Option α)) (b : Bytes)
    (hs : sh.hdr ≤ b.length) :
    tlvRun sh body b =
      match body (hdrOf sh b) (valOf sh b) with
      | .error e => { vals := [], stop := .fail (hdrOf sh b) (valOf sh b) e, steps := 1 }
      | .ok x => (tlvRun sh body (restOf sh b)).push x := by
  have hp := sh.hpos
  have hb : b ≠ [] := by intro h; subst h; simp at hs; omega
  rw [tlvRun_unfold]; simp [hb, Nat.not_lt.mpr hs]

/-! ### one whole TLV (header of the right size, value exactly as long as the length field says) in front -/

theorem hdrOf_item (sh : Shape) (h v r : Bytes) (hh : h.length = sh.hdr) :
    hdrOf sh (h ++ v ++ r) = h := by
  simp [hdrOf, List.append_assoc, ← hh]

theorem valOf_item (sh : Shape) (h v r : Bytes) (hh : h.length = sh.hdr) (hl : sh.len h = v.length) :
    valOf sh (h ++ v ++ r) = v := by
  unfold valOf
  rw [hdrOf_item sh h v r hh, hl, ← hh]
  unfold slice
  rw [List.take_left' (l₁ := h ++ v) (by simp)]
  exact List.drop_left' rfl

theorem restOf_item (sh : Shape) (h v r : Bytes) (hh : h.length = sh.hdr) (hl : sh.len h = v.length) :
    restOf sh (h ++ v ++ r) = r := by
  unfold restOf
  rw [hdrOf_item sh h v r hh, hl, ← hh]
  exact List.drop_left' (by simp)

/-- the loop on a whole TLV followed by anything -/
theorem tlvRun_item (sh : Shape) (body : Bytes → Bytes → Except ε (Option α)) (h v r : Bytes)
    (hh : h.length = sh.hdr) (hl : sh.len h = v.length) :
    tlvRun sh body (h ++ v ++ r) =
      match body h v with
      | .error e => { vals := [], stop := .fail h v e, steps := 1 }
      | .ok x => (tlvRun sh body r).push x := by
  rw [tlvRun_step sh body _ (by simp; omega)]
  rw [hdrOf_item sh h v r hh, valOf_item sh h v r hh hl, restOf_item sh h v r hh hl]

/-! ### lists of whole TLVs -/

/-- the encoding of a list of (header, value) pairs -/
def enc (items : List (Bytes × Bytes)) : Bytes := items.flatMap fun hv => hv.1 ++ hv.2

/-- every header has the shape's size and every length field is the true length of the value -/
def Whole (sh : Shape) (items : List (Bytes × Bytes)) : Prop :=
  ∀ hv ∈ items, hv.1.length = sh.hdr ∧ sh.len hv.1 = hv.2.length

@[simp] theorem enc_nil : enc [] = [] := rfl
@[simp] theorem enc_cons (hv : Bytes × Bytes) (r : List (Bytes × Bytes)) : enc (hv :: r) = hv.1 ++ hv.2 ++ enc r := by
  simp [enc, List.flatMap_cons]
theorem enc_append (xs ys : List (Bytes × Bytes)) : enc (xs ++ ys) = enc xs ++ enc ys := by
  simp [enc, List.flatMap_append]

theorem Whole.tail {sh : Shape} {hv : Bytes × Bytes} {r : List (Bytes × Bytes)} (h : Whole sh (hv :: r)) :
    Whole sh r := fun x hx => h x (by simp [hx])

theorem Whole.append {sh : Shape} {xs ys : List (Bytes × Bytes)} (hx : Whole sh xs) (hy : Whole sh ys) :
    Whole sh (xs ++ ys) := by
  intro hv hm
  rcases List.mem_append.mp hm with h | h
  · exact hx hv h
  · exact hy hv h

/-- run the body over whole TLVs, then continue with `k` -/
def walkThen (body : Bytes → Bytes → Except ε (Option α)) : List (Bytes × Bytes) → Run α ε → Run α ε
  | [], k => k
  | (h, v) :: r, k =>
    match body h v with
    | .error e => { vals := [], stop := .fail h v e, steps := 1 }
    | .ok x => (walkThen body r k).push x

/-- the loop on a concatenation of whole TLVs followed by ANY byte string `b` -/
theorem tlvRun_enc_append (sh : Shape) (body : Bytes → Bytes → Except ε (Option α))
    (items : List (Bytes × Bytes)) (hw : Whole sh items) (b : Bytes) :
    tlvRun sh body (enc items ++ b) = walkThen body items (tlvRun sh body b) := by
  induction items with
  | nil => simp [walkThen]
  | cons hv r ih =>
    obtain ⟨h, v⟩ := hv
    obtain ⟨hh, hl⟩ := hw (h, v) (by simp)
    rw [enc_cons, List.append_assoc, tlvRun_item sh body h v (enc r ++ b) hh hl]
    simp only [walkThen]
    rw [ih hw.tail]

/-- when every body decodes, `walkThen` just prepends the elements -/
def okVals (body : Bytes → Bytes → Except ε (Option α)) (items : List (Bytes × Bytes)) : List α :=
  items.flatMap fun hv => match body hv.1 hv.2 with
    | .ok x => x.toList
    | .error _ => []

theorem walkThen_ok (body : Bytes → Bytes → Except ε (Option α)) (items : List (Bytes × Bytes))
    (hok : ∀ hv ∈ items, ∃ x, body hv.1 hv.2 = .ok x) (k : Run α ε) :
    walkThen body items k =
      { vals := okVals body items ++ k.vals, stop := k.stop, steps := items.length + k.steps } := by
  induction items with
  | nil => simp [walkThen, okVals]
  | cons hv r ih =>
    obtain ⟨h, v⟩ := hv
    obtain ⟨x, hx⟩ := hok (h, v) (by simp)
    simp only [walkThen, hx]
    rw [ih (fun y hy => hok y (by simp [hy]))]
    simp only [Run.push, okVals, List.flatMap_cons, hx, List.append_assoc, List.length_cons]
    congr 1
    omega

/-! ### split / walk: the loop is "split by the shape, then map the body decoder" -/

theorem tlvRun_eq_walk (sh : Shape) (body : Bytes → Bytes → Except ε (Option α)) (b : Bytes) :
    tlvRun sh body b = walk body (tlvSplit sh b).vals (tlvSplit sh b).stop.cast := by
  induction hn : b.length using Nat.strongRecOn generalizing b with
  | _ n ih =>
    unfold tlvSplit
    by_cases hb : b = []
    · subst hb; simp [walk, Stop.cast, stopSteps]
    · by_cases hs : b.length < sh.hdr
      · rw [tlvRun_short sh body b hb hs, tlvRun_short sh _ b hb hs]
        simp [walk, Stop.cast, stopSteps]
      · have hs' : sh.hdr ≤ b.length := Nat.not_lt.mp hs
        rw [tlvRun_step sh body b hs', tlvRun_step sh _ b hs']
        have hlt := restOf_lt sh b hb
        have := ih (restOf sh b).length (by omega) (restOf sh b) rfl
        unfold tlvSplit at this
        simp only [Run.push, Option.toList, List.cons_append, List.nil_append, walk]
        cases hbody : body (hdrOf sh b) (valOf sh b) with
        | error e => rfl
        | ok x => simp only [this]

/-- the pairs of a split are the slices the loop takes: a split never fails -/
theorem tlvSplit_stop_ne_fail (sh : Shape) (b : Bytes) (h v : Bytes) (e : Unit) :
    (tlvSplit sh b).stop ≠ .fail h v e := by
  induction hn : b.length using Nat.strongRecOn generalizing b with
  | _ n ih =>
    unfold tlvSplit
    by_cases hb : b = []
    · subst hb; simp
    · by_cases hs : b.length < sh.hdr
      · rw [tlvRun_short sh _ b hb hs]; simp
      · rw [tlvRun_step sh _ b (Nat.not_lt.mp hs)]
        have hlt := restOf_lt sh b hb
        have := ih (restOf sh b).length (by omega) (restOf sh b) rfl
        unfold tlvSplit at this
        simpa [Run.push] using this

/-! ### work bounds -/

/-- iterations started ≤ octets; more precisely every iteration but possibly the last owns `hdr` octets -/
theorem tlvRun_steps_bound (sh : Shape) (body : Bytes → Bytes → Except ε (Option α)) (b : Bytes) :
    sh.hdr * (tlvRun sh body b).steps ≤ b.length + (sh.hdr - 1) := by
  induction hn : b.length using Nat.strongRecOn generalizing b with
  | _ n ih =>
    have hp := sh.hpos
    by_cases hb : b = []
    · subst hb; simp
    · by_cases hs : b.length < sh.hdr
      · rw [tlvRun_short sh body b hb hs]
        have : 0 < b.length := List.length_pos_iff.mpr hb
        simp; omega
      · have hs' : sh.hdr ≤ b.length := Nat.not_lt.mp hs
        rw [tlvRun_step sh body b hs']
        cases hbody : body (hdrOf sh b) (valOf sh b) with
        | error e => simp; omega
        | ok x =>
          have hlt := restOf_lt sh b hb
          have h1 := ih (restOf sh b).length (by omega) (restOf sh b) rfl
          have h2 : (restOf sh b).length ≤ b.length - sh.hdr := by
            simp only [restOf, List.length_drop]; omega
          simp only [Run.push, Nat.mul_add, Nat.mul_one]
          omega

theorem tlvRun_steps_le (sh : Shape) (body : Bytes → Bytes → Except ε (Option α)) (b : Bytes) :
    (tlvRun sh body b).steps ≤ b.length := by
  have h := tlvRun_steps_bound sh body b
  have hp := sh.hpos
  by_cases hb : b = []
  · subst hb; simp
  · have : 0 < b.length := List.length_pos_iff.mpr hb
    have h3 : sh.hdr * (tlvRun sh body b).steps ≤ sh.hdr * b.length := by
      calc sh.hdr * (tlvRun sh body b).steps ≤ b.length + (sh.hdr - 1) := h
        _ ≤ sh.hdr * b.length := by
          have : sh.hdr * b.length = b.length + (sh.hdr - 1) * b.length := by
            conv => lhs; rw [show sh.hdr = 1 + (sh.hdr - 1) by omega]
            rw [Nat.add_mul, Nat.one_mul]
          rw [this]
          have : (sh.hdr - 1) * 1 ≤ (sh.hdr - 1) * b.length := Nat.mul_le_mul_left _ (by omega)
          omega
    exact Nat.le_of_mul_le_mul_left h3 hp

/-- the elements produced are at most one per iteration -/
theorem tlvRun_vals_le_steps (sh : Shape) (body : Bytes → Bytes → Except ε (Option α)) (b : Bytes) :
    (tlvRun sh body b).vals.length ≤ (tlvRun sh body b).steps := by
  induction hn : b.length using Nat.strongRecOn generalizing b with
  | _ n ih =>
    by_cases hb : b = []
    · subst hb; simp
    · by_cases hs : b.length < sh.hdr
      · rw [tlvRun_short sh body b hb hs]; simp
      · rw [tlvRun_step sh body b (Nat.not_lt.mp hs)]
        cases hbody : body (hdrOf sh b) (valOf sh b) with
        | error e => simp
        | ok x =>
          have hlt := restOf_lt sh b hb
          have h1 := ih (restOf sh b).length (by omega) (restOf sh b) rfl
          cases x <;> simp [Run.push] <;> omega

/-- total iterations over all nesting levels ≤ octets -/
theorem deepSteps_unfold (sh : Shape) (nest : Bytes → Option Nat) (b : Bytes) :
    deepSteps sh nest b =
      if b = [] then 0
      else if b.length < sh.hdr then 1
      else 1 + (match nest (hdrOf sh b) with
                | some k => deepSteps sh nest ((valOf sh b).drop k)
                | none => 0)
             + deepSteps sh nest (restOf sh b) := by
  conv => lhs; rw [deepSteps]
  by_cases hb : b = []
  · simp [hb]
  · by_cases hs : b.length < sh.hdr
    · simp [hb, hs]
    · simp only [hb, hs, dite_false, if_false]
      cases nest (hdrOf sh b) <;> rfl

theorem valOf_restOf_length (sh : Shape) (b : Bytes) (hs : sh.hdr ≤ b.length) :
    (valOf sh b).length + (restOf sh b).length = b.length - sh.hdr := by
  simp only [valOf, restOf, slice, List.length_drop, List.length_take]
  omega

theorem deepSteps_le (sh : Shape) (nest : Bytes → Option Nat) (b : Bytes) :
    deepSteps sh nest b ≤ b.length := by
  induction hn : b.length using Nat.strongRecOn generalizing b with
  | _ n ih =>
    have hp := sh.hpos
    rw [deepSteps_unfold]
    by_cases hb : b = []
    · simp [hb]
    · have hpos : 0 < b.length := List.length_pos_iff.mpr hb
      by_cases hs : b.length < sh.hdr
      · simp [hb, hs]; omega
      · have hs' : sh.hdr ≤ b.length := Nat.not_lt.mp hs
        simp only [hb, hs, ↓reduceIte]
        have hvr := valOf_restOf_length sh b hs'
        have h2 := ih (restOf sh b).length (by omega) (restOf sh b) rfl
        cases hnest : nest (hdrOf sh b) with
        | none => simp only; omega
        | some k =>
          have h1 := ih ((valOf sh b).drop k).length (by simp only [List.length_drop]; omega) _ rfl
          simp only [List.length_drop] at h1
          simp only
          omega

/-! ### headers -/

theorem tlv22_typ (t l : Nat) (ht : t < 65536) : tlv22.typ (hdr22 t l) = t := by
  simp only [tlv22, hdr22, be16, List.cons_append, List.nil_append, List.take, beVal, List.foldl]
  simp only [u8_toNat_mod]; omega

theorem tlv22_len (t l : Nat) (hl : l < 65536) : tlv22.len (hdr22 t l) = l := by
  simp only [tlv22, hdr22, be16, List.cons_append, List.nil_append, List.drop, List.take, beVal, List.foldl]
  simp only [u8_toNat_mod]; omega

theorem hdr22_length (t l : Nat) : (hdr22 t l).length = tlv22.hdr := rfl

theorem tlv12_typ (t l : Nat) (ht : t < 256) : tlv12.typ (hdr12 t l) = t := by
  simp only [tlv12, hdr12, be8, be16, List.cons_append, List.nil_append, List.take, beVal, List.foldl]
  simp only [u8_toNat_mod]; omega

theorem tlv12_len (t l : Nat) (hl : l < 65536) : tlv12.len (hdr12 t l) = l := by
  simp only [tlv12, hdr12, be8, be16, List.cons_append, List.nil_append, List.drop, List.take, beVal, List.foldl]
  simp only [u8_toNat_mod]; omega

theorem hdr12_length (t l : Nat) : (hdr12 t l).length = tlv12.hdr := rfl

theorem srRange_len (r ty l : Nat) (hl : l < 65536) : srRange.len (hdrSr r ty l) = l := by
  simp only [srRange, hdrSr, be24, be16, List.cons_append, List.nil_append, List.drop, List.take, beVal, List.foldl]
  simp only [u8_toNat_mod]; omega

theorem hdrSr_length (r ty l : Nat) : (hdrSr r ty l).length = srRange.hdr := rfl

/-! ### Python dict reads -/

theorem pyGet_append {κ β : Type} [DecidableEq κ] (k : κ) (xs ys : List (κ × β)) :
    pyGet k (xs ++ ys) = match pyGet k ys with
      | some w => some w
      | none => pyGet k xs := by
  induction xs with
  | nil => simp [pyGet]; cases pyGet k ys <;> rfl
  | cons e r ih =>
    obtain ⟨k', v⟩ := e
    simp only [List.cons_append, pyGet, ih]
    cases pyGet k ys with
    | some w => rfl
    | none => rfl

theorem pyGet_none_of_not_mem {κ β : Type} [DecidableEq κ] (k : κ) (xs : List (κ × β))
    (h : k ∉ xs.map (·.1)) : pyGet k xs = none := by
  induction xs with
  | nil => rfl
  | cons e r ih =>
    obtain ⟨k', v⟩ := e
    simp only [List.map_cons, List.mem_cons, not_or] at h
    simp only [pyGet, ih h.2]
    rw [if_neg (fun hh => h.1 hh.symm)]

/-- with distinct keys the read finds the one pair with that key, wherever it stands -/
theorem pyGet_of_mem_nodup {κ β : Type} [DecidableEq κ] (k : κ) (v : β) (xs : List (κ × β))
    (hn : (xs.map (·.1)).Nodup) (hm : (k, v) ∈ xs) : pyGet k xs = some v := by
  induction xs with
  | nil => simp at hm
  | cons e r ih =>
    obtain ⟨k', v'⟩ := e
    simp only [List.map_cons, List.nodup_cons] at hn
    rcases List.mem_cons.mp hm with h | h
    · simp only [Prod.mk.injEq] at h
      obtain ⟨rfl, rfl⟩ := h
      simp only [pyGet, pyGet_none_of_not_mem k r hn.1, ↓reduceIte]
    · simp only [pyGet, ih hn.2 h]

end Yabgp.Tlv
