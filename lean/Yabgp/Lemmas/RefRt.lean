/-
  Lemmas for C09: the model decoders invert the reference encoder of Spec/RfcEncode.lean.
-/
import Yabgp.Spec.RfcEncode
import Yabgp.Lemmas.UpdateRt

namespace Yabgp
open Spec

theorem encSegments_ref (four : Bool) (segs : List (Nat × List Nat)) (h : ∀ s ∈ segs, SegOk four s) :
    encSegments four segs = some (segs.flatMap fun s => [u8 s.1, u8 s.2.length] ++ s.2.flatMap (asnBytes four)) := by
  induction segs with
  | nil => rfl
  | cons s r ih =>
    have hs := h s (by simp)
    have hr := ih (fun x hx => h x (by simp [hx]))
    simp only [encSegments, encSegment_ok hs, hr, Option.bind_eq_bind, Option.bind_some, Option.pure_def,
      List.flatMap_cons]
    simp only [be8, encAsns, List.cons_append, List.nil_append, List.append_assoc]
    cases four <;> simp <;> (congr 1)

/-- the attribute type codes some decoder is registered for (anything else is kept as opaque octets) -/
def knownCodes : List Nat := [1, 2, 3, 4, 5, 6, 7, 8, 9, 10, 17, 18, 32, 14, 15, 16, 22, 29, 40]

/-- in-range values for the reference encoder: the standard attributes of C06 plus AS4_PATH / AS4_AGGREGATOR,
    plus attributes of a type the agent does not know, carrying arbitrary octets -/
def AttrOkR (asn4 : Bool) (code : Nat) (v : AttrVal) : Prop :=
  AttrOk asn4 code v ∨
  (code = 17 ∧ ∃ segs, v = .asPath segs ∧ ∀ s ∈ segs, SegOk true s) ∨
  (code = 18 ∧ ∃ a ip, v = .aggregator a ip ∧ a < 4294967296 ∧ ip < 4294967296) ∨
  (code ∉ knownCodes ∧ ∃ b, v = .raw b)

theorem pav_unknown (a : Bool) (code : Nat) (v : Bytes) (h : code ∉ knownCodes) :
    parseAttrValue a code v = .ok (.raw v) := by
  simp only [knownCodes, List.mem_cons, List.not_mem_nil, or_false, not_or] at h
  simp [parseAttrValue, C.tOrigin, C.tAsPath, C.tNextHop, C.tMed, C.tLocalPref, C.tAtomicAgg, C.tAggregator,
    C.tCommunity, C.tOriginatorId, C.tClusterList, C.tAs4Path, C.tAs4Aggregator, C.tLargeCommunity, otherModelCodes, h]

theorem pav_17 (a : Bool) (v : Bytes) : parseAttrValue a 17 v = (parseAsPath true v).map .asPath := by
  simp [parseAttrValue, C.tOrigin, C.tAsPath, C.tNextHop, C.tMed, C.tLocalPref, C.tAtomicAgg, C.tAggregator,
    C.tCommunity, C.tOriginatorId, C.tClusterList, C.tAs4Path]
theorem pav_18 (a : Bool) (v : Bytes) : parseAttrValue a 18 v = parseAggregator true v := by
  simp [parseAttrValue, C.tOrigin, C.tAsPath, C.tNextHop, C.tMed, C.tLocalPref, C.tAtomicAgg, C.tAggregator,
    C.tCommunity, C.tOriginatorId, C.tClusterList, C.tAs4Path, C.tAs4Aggregator]

/-- the value decoder of every attribute type inverts the reference value encoding -/
theorem refValue_parse (asn4 : Bool) (code : Nat) (v : AttrVal) (h : AttrOkR asn4 code v) :
    parseAttrValue asn4 code (refValue asn4 code v) = .ok v := by
  rcases h with h | ⟨rfl, segs, rfl, hs⟩ | ⟨rfl, a, ip, rfl, ha, hip⟩ | ⟨hc, b, rfl⟩
  · cases v with
    | origin n =>
      obtain ⟨rfl, hn⟩ := h
      simp [refValue, pav_1, parseOrigin, u8_toNat (show n < 256 by omega), hn]
    | asPath segs =>
      obtain ⟨rfl, hs⟩ := h
      have he := encSegments_ref asn4 segs hs
      have hp := parseAsPath_enc asn4 segs _ hs he
      simp only [refValue, pav_2]
      have : (asn4 || (2 : Nat) == 17) = asn4 := by simp
      rw [this, hp]; rfl
    | nextHop ip =>
      obtain ⟨rfl, hn⟩ := h
      have := rd32_be32 hn []
      simp only [List.append_nil] at this
      simp [refValue, pav_3, parseNextHop, this]
    | med n =>
      obtain ⟨rfl, hn⟩ := h
      simp [refValue, pav_4, parseU32, unpackI_be32 hn, Except.map]
    | localPref n =>
      obtain ⟨rfl, hn⟩ := h
      simp [refValue, pav_5, parseU32, unpackI_be32 hn, Except.map]
    | atomicAgg =>
      have hc : code = 6 := h
      subst hc
      simp [refValue, pav_6, parseAtomicAgg]
    | aggregator a ip =>
      obtain ⟨rfl, ha, hip⟩ := h
      have e : (asn4 || (7 : Nat) == 18) = asn4 := by simp
      simp only [refValue, pav_7, e, asnBytes]
      cases asn4
      · simp only [asnOk, Bool.false_eq_true, ↓reduceIte, decide_eq_true_eq] at ha
        have h1 : (be16 a ++ be32 ip).take 2 = be16 a := by simp [be16]
        have h2 : (be16 a ++ be32 ip).drop 2 = be32 ip := by simp [be16]
        simp only [parseAggregator, Bool.false_eq_true, ↓reduceIte, h1, h2, unpackH_be16 ha, unpackI_be32 hip]
      · simp only [asnOk, ↓reduceIte, decide_eq_true_eq] at ha
        have h1 : (be32 a ++ be32 ip).take 4 = be32 a := by simp [be32]
        have h2 : (be32 a ++ be32 ip).drop 4 = be32 ip := by simp [be32]
        simp only [parseAggregator, ↓reduceIte, h1, h2, unpackI_be32 ha, unpackI_be32 hip]
    | community cs =>
      obtain ⟨rfl, hcs⟩ := h
      have h4 := flatMap_be32_length cs
      simp only [refValue, pav_8, parseCommunity, h4, Nat.mul_mod_right, ↓reduceIte, words32_flatMap_be32 cs hcs]
    | originatorId ip =>
      obtain ⟨rfl, hn⟩ := h
      simp [refValue, pav_9, parseOriginatorId, unpackI_be32 hn]
    | clusterList ips =>
      obtain ⟨rfl, hcs⟩ := h
      have h4 := flatMap_be32_length ips
      simp only [refValue, pav_10, parseClusterList, h4, Nat.mul_mod_right, ↓reduceIte, words32_flatMap_be32 ips hcs]
    | largeCommunity xs =>
      obtain ⟨rfl, hcs⟩ := h
      have h4 := triples_flat_length xs
      simp only [refValue, pav_32, parseLargeCommunity, h4, Nat.mul_mod_right, ↓reduceIte, triples_words xs hcs]
    | raw b => exact absurd h id
    | unmodelled c => exact absurd h id
  · have he := encSegments_ref true segs hs
    have hp := parseAsPath_enc true segs _ hs he
    simp only [refValue, pav_17]
    have : (asn4 || (17 : Nat) == 17) = true := by simp
    rw [this, hp]; rfl
  · have e : (asn4 || (18 : Nat) == 18) = true := by simp
    simp only [refValue, pav_18, e, asnBytes, ↓reduceIte]
    have h1 : (be32 a ++ be32 ip).take 4 = be32 a := by simp [be32]
    have h2 : (be32 a ++ be32 ip).drop 4 = be32 ip := by simp [be32]
    simp only [parseAggregator, ↓reduceIte, h1, h2, unpackI_be32 ha, unpackI_be32 hip]
  · simp only [refValue, pav_unknown asn4 code b hc]

end Yabgp

namespace Yabgp
open Spec

theorem baseFlags_lt (code : Nat) : baseFlags code = 0x40 ∨ baseFlags code = 0x80 ∨ baseFlags code = 0xC0 := by
  unfold baseFlags; split
  · exact Or.inl rfl
  · split
    · exact Or.inr (Or.inl rfl)
    · exact Or.inr (Or.inr rfl)

/-- the attribute header of the reference encoder is read back whatever the variant: 1- or 2-octet length,
    Partial bit or not -/
theorem splitAttr_ref (asn4 : Bool) (a : RefAttr) (rest : Bytes) (hc : a.code < 256)
    (hl : (refValue asn4 a.code a.val).length < 65536) :
    ∃ f, splitAttr (refAttr asn4 a ++ rest) = some (f, a.code, refValue asn4 a.code a.val, rest) := by
  unfold refAttr
  simp only
  by_cases hx : (a.ext || decide (255 < (refValue asn4 a.code a.val).length)) = true
  · -- extended length
    rw [if_pos hx, if_pos hx]
    refine ⟨baseFlags a.code + (if a.partialBit then 0x20 else 0) + 0x10, ?_⟩
    have hf : baseFlags a.code + (if a.partialBit then 0x20 else 0) + 0x10 < 256 := by
      rcases baseFlags_lt a.code with h | h | h <;> rw [h] <;> split <;> omega
    have hfe : (baseFlags a.code + (if a.partialBit then 0x20 else 0) + 0x10) / 16 % 2 = 1 := by
      rcases baseFlags_lt a.code with h | h | h <;> rw [h] <;> split <;> omega
    have := splitAttr_ext _ a.code (refValue asn4 a.code a.val) rest hf hc hfe hl
    simpa [be8, List.append_assoc] using this
  · rw [if_neg hx, if_neg hx]
    have hlen : (refValue asn4 a.code a.val).length < 256 := by
      simp only [Bool.or_eq_true, decide_eq_true_eq, not_or, Nat.not_lt] at hx
      omega
    refine ⟨baseFlags a.code + (if a.partialBit then 0x20 else 0) + 0, ?_⟩
    have hf : baseFlags a.code + (if a.partialBit then 0x20 else 0) + 0 < 256 := by
      rcases baseFlags_lt a.code with h | h | h <;> rw [h] <;> split <;> omega
    have hfe : (baseFlags a.code + (if a.partialBit then 0x20 else 0) + 0) / 16 % 2 = 0 := by
      rcases baseFlags_lt a.code with h | h | h <;> rw [h] <;> split <;> omega
    have := splitAttr_short _ a.code (refValue asn4 a.code a.val) rest hf hc hfe hlen
    simpa [be8, List.append_assoc] using this

/-- decoding the concatenation of reference-encoded attributes, in ANY order, rebuilds the dictionary and
    goes on with whatever follows -/
theorem attrLoop_ref_then (asn4 : Bool) (as : List RefAttr) (rest : Bytes) :
    ∀ (acc : List (Nat × AttrVal)),
      (∀ a ∈ as, a.code < 256 ∧ AttrOkR asn4 a.code a.val ∧ (refValue asn4 a.code a.val).length < 65536) →
      (keys acc ++ as.map (·.code)).Nodup →
      parseAttrLoop asn4 acc (as.flatMap (refAttr asn4) ++ rest) =
        parseAttrLoop asn4 (acc ++ as.map (fun a => (a.code, a.val))) rest := by
  induction as with
  | nil => intro acc _ _; simp
  | cons a r ih =>
    intro acc hok hnd
    obtain ⟨hc, hv, hl⟩ := hok a (by simp)
    obtain ⟨f, hsplit⟩ := splitAttr_ref asn4 a (r.flatMap (refAttr asn4) ++ rest) hc hl
    rw [List.flatMap_cons, List.append_assoc, parseAttrLoop_unfold asn4 acc _ (splitAttr_nonempty hsplit)]
    simp only [hsplit, refValue_parse asn4 a.code a.val hv]
    have hfresh : a.code ∉ keys acc := by
      intro hin
      have := List.nodup_append.mp hnd
      exact this.2.2 a.code hin a.code (by simp) rfl
    rw [dictSet_fresh acc a.code a.val hfresh]
    rw [ih (acc ++ [(a.code, a.val)]) (fun x hx => hok x (by simp [hx])) ?_]
    · simp
    · simpa [keys, List.append_assoc] using hnd

theorem attrLoop_ref (asn4 : Bool) (as : List RefAttr) (acc : List (Nat × AttrVal))
    (hok : ∀ a ∈ as, a.code < 256 ∧ AttrOkR asn4 a.code a.val ∧ (refValue asn4 a.code a.val).length < 65536)
    (hnd : (keys acc ++ as.map (·.code)).Nodup) :
    parseAttrLoop asn4 acc (as.flatMap (refAttr asn4)) = (acc ++ as.map (fun a => (a.code, a.val)), none) := by
  have := attrLoop_ref_then asn4 as [] acc hok hnd
  simpa [parseAttrLoop_nil] using this

theorem unpackI_none {v : Bytes} (h : v.length ≠ 4) : unpackI v = none := by
  match v with
  | [] | [_] | [_, _] | [_, _, _] | _ :: _ :: _ :: _ :: _ :: _ => rfl
  | [_, _, _, _] => simp at h

theorem unpackH_none {v : Bytes} (h : v.length ≠ 2) : unpackH v = none := by
  match v with
  | [] | [_] | _ :: _ :: _ :: _ => rfl
  | [_, _] => simp at h

/-- a reference NLRI entry in network form with arbitrary trailing bits -/
def RefPfxOk (addpath : Bool) (p : RefPfx) : Prop :=
  p.len ≤ 32 ∧ p.addr < 4294967296 ∧ p.addr % 2 ^ (32 - p.len) = 0 ∧ p.junk < 2 ^ (32 - p.len) ∧
  (if addpath then ∃ pid, p.pathId = some pid ∧ pid < 4294967296 else p.pathId = none)

set_option maxRecDepth 4000 in
set_option maxHeartbeats 1000000 in
theorem parseOnePrefix_ref (pid : Option Nat) (addr len junk : Nat) (rest : Bytes)
    (hl : len ≤ 32) (ha : addr < 4294967296) (hn : addr % 2 ^ (32 - len) = 0) (hj : junk < 2 ^ (32 - len)) :
    parseOnePrefix pid ([u8 len] ++ (be32 (addr + junk)).take ((len + 7) / 8) ++ rest) =
      some ({ addr := addr, len := len, pathId := pid }, rest) := by
  have hlen : (u8 len).toNat = len := u8_toNat (by omega)
  simp only [List.cons_append, List.nil_append, parseOnePrefix, hlen]
  rw [if_neg (by omega)]
  interval_cases len <;>
    simp [pfxOctets, pfxData, be32, maskLast, addrOf, u8_toNat_mod] at hn hj ⊢ <;> omega

end Yabgp
