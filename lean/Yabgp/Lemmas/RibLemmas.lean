/-
  Helper lemmas for C19: dictionary algebra, the loops of Model/Rib.lean as lists of elementary
  operations of Spec/RibSpec.lean, frame lemmas (what each function leaves alone).
-/
import Yabgp.Model.Rib
import Yabgp.Spec.RibSpec

namespace Yabgp.Rib
open RibSpec (Op Side SEv runOps changes)

/-- the finite map a dictionary denotes -/
def abs (t : Table) : RibSpec.Table := fun k => t.get? k

/-- a dictionary with its counter, seen as a specification-level (table, counter) pair -/
def sideOf (tv : Table × Nat) : Side := { tbl := abs tv.1, ver := tv.2 }

/-! ### dictionaries -/

namespace Table

@[simp] theorem get?_nil (x : Nat) : get? [] x = none := rfl

theorem get?_cons (k v : Nat) (t : Table) (x : Nat) :
    get? ((k, v) :: t) x = if k = x then some v else get? t x := rfl

theorem get?_replace (t : Table) (x y k : Nat) :
    (replace t x y).get? k = if k = x then (t.get? x).map (fun _ => y) else t.get? k := by
  induction t with
  | nil => simp [replace]
  | cons kv t ih =>
    obtain ⟨a, b⟩ := kv
    by_cases hax : a = x
    · subst hax
      by_cases hk : k = a
      · subst hk; simp [replace, get?_cons]
      · have : ¬ a = k := fun h => hk h.symm
        simp [replace, get?_cons, this, hk, ih]
    · by_cases hk : k = x
      · subst hk
        simp [replace, get?_cons, hax, ih]
      · by_cases hak : a = k
        · simp [replace, get?_cons, hak, hk]
        · simp [replace, get?_cons, hax, hak, hk, ih]

theorem get?_append_single (t : Table) (x y k : Nat) :
    (t ++ [(x, y)]).get? k = match t.get? k with
      | some v => some v
      | none => if x = k then some y else none := by
  induction t with
  | nil => simp [get?_cons]
  | cons kv t ih =>
    obtain ⟨a, b⟩ := kv
    by_cases hak : a = k
    · simp [get?_cons, hak]
    · simp [get?_cons, hak, ih]

theorem get?_set (t : Table) (x y k : Nat) :
    (t.set x y).get? k = if k = x then some y else t.get? k := by
  unfold set has
  cases hx : t.get? x with
  | none =>
    simp only [Option.isSome_none, Bool.false_eq_true, ↓reduceIte, get?_append_single]
    by_cases hk : k = x
    · subst hk; simp [hx]
    · have : ¬ x = k := fun h => hk h.symm
      cases t.get? k <;> simp [hk, this]
  | some v =>
    simp only [Option.isSome_some, ↓reduceIte, get?_replace, hx, Option.map_some]

theorem get?_pop (t : Table) (x k : Nat) :
    (t.pop x).get? k = if k = x then none else t.get? k := by
  unfold pop
  induction t with
  | nil => simp
  | cons kv t ih =>
    obtain ⟨a, b⟩ := kv
    by_cases hax : a = x
    · subst hax
      by_cases hk : k = a
      · subst hk; simpa [List.filter_cons] using ih
      · have : ¬ a = k := fun h => hk h.symm
        simpa [List.filter_cons, get?_cons, this, hk] using ih
    · by_cases hk : k = x
      · subst hk
        simpa [List.filter_cons, hax, get?_cons] using ih
      · by_cases hak : a = k
        · simp [get?_cons, hak, hk]
        · simpa [List.filter_cons, hax, get?_cons, hak, hk] using ih

theorem has_eq (t : Table) (x : Nat) : t.has x = (t.get? x).isSome := rfl

end Table

theorem abs_nil : abs [] = RibSpec.empty := rfl

theorem abs_set (t : Table) (x y : Nat) : abs (t.set x y) = (Op.announce x y).run (abs t) := by
  funext k; simp [abs, Op.run, Table.get?_set]

theorem abs_pop (t : Table) (x : Nat) : abs (t.pop x) = (Op.withdraw x).run (abs t) := by
  funext k; simp [abs, Op.run, Table.get?_pop]

/-- re-assigning the stored value leaves the denoted map as it is -/
theorem run_announce_same (t : RibSpec.Table) (k v : Nat) (h : t k = some v) :
    (Op.announce k v).run t = t := by
  funext p
  by_cases hp : p = k
  · subst hp; simp [Op.run, h]
  · simp [Op.run, hp]

theorem run_withdraw_absent (t : RibSpec.Table) (k : Nat) (h : t k = none) :
    (Op.withdraw k).run t = t := by
  funext p
  by_cases hp : p = k
  · subst hp; simp [Op.run, h]
  · simp [Op.run, hp]

/-! ### operations lists -/

theorem runOps_append (l1 l2 : List Op) (t : RibSpec.Table) :
    runOps (l1 ++ l2) t = runOps l2 (runOps l1 t) := by
  induction l1 generalizing t with
  | nil => rfl
  | cons op l1 ih => simp [runOps, ih]

theorem changes_append (l1 l2 : List Op) (t : RibSpec.Table) :
    changes (l1 ++ l2) t = changes l1 t + changes l2 (runOps l1 t) := by
  induction l1 generalizing t with
  | nil => simp [changes, runOps]
  | cons op l1 ih => simp [changes, runOps, ih, Nat.add_assoc]

theorem Side.ext' {a b : Side} (h1 : a.tbl = b.tbl) (h2 : a.ver = b.ver) : a = b := by
  cases a; cases b; simp_all

theorem step_ops_nil (sd : Side) : sd.step (.ops []) = sd := by
  cases sd; simp [Side.step, runOps, changes]

theorem step_ops_append (sd : Side) (l1 l2 : List Op) :
    (sd.step (.ops l1)).step (.ops l2) = sd.step (.ops (l1 ++ l2)) := by
  simp [Side.step, runOps_append, changes_append, Nat.add_assoc]

/-! ### loop bodies are single operations -/

theorem sideOf_wdStep (tv : Table × Nat) (k : Nat) :
    sideOf (wdStep tv k) = (sideOf tv).step (.ops [Op.withdraw k]) := by
  unfold wdStep
  cases h : tv.1.get? k with
  | none =>
    have hh : tv.1.has k = false := by simp [Table.has_eq, h]
    apply Side.ext'
    · simp [hh, sideOf, Side.step, runOps, run_withdraw_absent (abs tv.1) k (by simpa [abs] using h)]
    · simp [hh, sideOf, Side.step, changes, Op.delta, abs, h]
  | some v =>
    have hh : tv.1.has k = true := by simp [Table.has_eq, h]
    apply Side.ext'
    · simp [hh, sideOf, Side.step, runOps, abs_pop]
    · simp [hh, sideOf, Side.step, changes, Op.delta, abs, h]

theorem sideOf_annStepIpv4 (a : Nat) (tv : Table × Nat) (k : Nat) :
    sideOf (annStepIpv4 a tv k) = (sideOf tv).step (.ops [Op.announce k a]) := by
  unfold annStepIpv4
  cases h : tv.1.get? k with
  | none =>
    have hh : tv.1.has k = false := by simp [Table.has_eq, h]
    apply Side.ext'
    · simp [hh, sideOf, Side.step, runOps, abs_set]
    · simp [hh, sideOf, Side.step, changes, Op.delta, abs, h]
  | some v =>
    have hh : tv.1.has k = true := by simp [Table.has_eq, h]
    by_cases hv : v = a
    · subst hv
      apply Side.ext'
      · simp [hh, sideOf, Side.step, runOps, abs_set]
      · simp [hh, h, sideOf, Side.step, changes, Op.delta, abs]
    · apply Side.ext'
      · simp [hh, hv, sideOf, Side.step, runOps, abs_set]
      · simp [hh, h, hv, sideOf, Side.step, changes, Op.delta, abs]

theorem sideOf_annStepMp (tv : Table × Nat) (kv : Nat × Nat) :
    sideOf (annStepMp tv kv) = (sideOf tv).step (.ops [Op.announce kv.1 kv.2]) := by
  unfold annStepMp
  cases h : tv.1.get? kv.1 with
  | none =>
    have hh : tv.1.has kv.1 = false := by simp [Table.has_eq, h]
    apply Side.ext'
    · simp [hh, sideOf, Side.step, runOps, abs_set]
    · simp [hh, sideOf, Side.step, changes, Op.delta, abs, h]
  | some v =>
    have hh : tv.1.has kv.1 = true := by simp [Table.has_eq, h]
    by_cases hv : v = kv.2
    · subst hv
      apply Side.ext'
      · simp [hh, sideOf, Side.step, runOps,
          run_announce_same (abs tv.1) kv.1 kv.2 (by simpa [abs] using h)]
      · simp [hh, h, sideOf, Side.step, changes, Op.delta, abs]
    · apply Side.ext'
      · simp [hh, hv, sideOf, Side.step, runOps, abs_set]
      · simp [hh, h, hv, sideOf, Side.step, changes, Op.delta, abs]

/-! ### loops are operation lists -/

theorem sideOf_wdLoop (ks : List Nat) (tv : Table × Nat) :
    sideOf (ks.foldl wdStep tv) = (sideOf tv).step (.ops (ks.map Op.withdraw)) := by
  induction ks generalizing tv with
  | nil => simp [step_ops_nil]
  | cons k ks ih =>
    rw [List.foldl_cons, ih, sideOf_wdStep, step_ops_append]; rfl

theorem sideOf_annLoopIpv4 (a : Nat) (ks : List Nat) (tv : Table × Nat) :
    sideOf (ks.foldl (annStepIpv4 a) tv) = (sideOf tv).step (.ops (ks.map fun p => Op.announce p a)) := by
  induction ks generalizing tv with
  | nil => simp [step_ops_nil]
  | cons k ks ih =>
    rw [List.foldl_cons, ih, sideOf_annStepIpv4, step_ops_append]; rfl

theorem sideOf_annLoopMp (rules : List (Nat × Nat)) (tv : Table × Nat) :
    sideOf (rules.foldl annStepMp tv) =
      (sideOf tv).step (.ops (rules.map fun kv => Op.announce kv.1 kv.2)) := by
  induction rules generalizing tv with
  | nil => simp [step_ops_nil]
  | cons k ks ih =>
    rw [List.foldl_cons, ih, sideOf_annStepMp, step_ops_append]; rfl

/-- the two IPv4 loops of update_rib_out_ipv4 (and, without the tree, of update_rib_in_ipv4) -/
theorem sideOf_ipv4Loops (a : Nat) (wd nl : List Nat) (tv : Table × Nat) :
    sideOf (nl.foldl (annStepIpv4 a) (wd.foldl wdStep tv)) =
      (sideOf tv).step (.ops (RibSpec.ipv4Ops wd nl a)) := by
  rw [sideOf_annLoopIpv4, sideOf_wdLoop, step_ops_append]; rfl

/-! ### the radix tree is carried along without influencing dictionary and counter -/

theorem ribInWd_fst (ks : List Nat) (x : (Table × Nat) × List Nat) :
    (ks.foldl ribInWdStep x).1 = ks.foldl wdStep x.1 := by
  induction ks generalizing x with
  | nil => rfl
  | cons k ks ih =>
    rw [List.foldl_cons, List.foldl_cons, ih]
    congr 1
    unfold ribInWdStep wdStep
    split <;> rfl

theorem ribInAnn_fst (a : Nat) (ks : List Nat) (x : (Table × Nat) × List Nat) :
    (ks.foldl (ribInAnnStep a) x).1 = ks.foldl (annStepIpv4 a) x.1 := by
  induction ks generalizing x with
  | nil => rfl
  | cons k ks ih => rw [List.foldl_cons, List.foldl_cons, ih]; rfl

theorem ribInLoops_fst (s : State) (m : Msg) :
    (ribInLoops s m).1 = m.nlri.foldl (annStepIpv4 m.attr) (m.withdraw.foldl wdStep (s.ribIn, s.recvVer.ipv4)) := by
  unfold ribInLoops
  rw [ribInAnn_fst, ribInWd_fst]

end Yabgp.Rib

namespace Yabgp.Rib
open RibSpec (Op Side SEv runOps changes)

/-! ### the (table, counter) pairs of a protocol object -/

def inIpv4 (s : State) : Side := sideOf (s.ribIn, s.recvVer.ipv4)
def outIpv4 (s : State) : Side := sideOf (s.ribOut, s.sendVer.ipv4)
def fsRecvSide (s : State) : Side := sideOf (s.fsRecv, s.recvVer.flowspec)
def vpnRecvSide (s : State) : Side := sideOf (s.vpnRecv, s.recvVer.mplsVpn)
def srRecvSide (s : State) : Side := sideOf (s.srRecv, s.recvVer.srPolicy)
def fsSendSide (s : State) : Side := sideOf (s.fsSend, s.sendVer.flowspec)
def vpnSendSide (s : State) : Side := sideOf (s.vpnSend, s.sendVer.mplsVpn)
def srSendSide (s : State) : Side := sideOf (s.srSend, s.sendVer.srPolicy)

/-! ### an UPDATE read as operations, per family -/

def reachFs : Option Reach → List (Nat × Nat)
  | some (.flowspec r) => r
  | _ => []
def reachVpn : Option Reach → List (Nat × Nat)
  | some (.mplsVpn r) => r
  | _ => []
/-- the sr-policy announcement stores the whole attribute dictionary `a` -/
def reachSr (a : Nat) : Option Reach → List (Nat × Nat)
  | some (.srPolicy k) => [(k, a)]
  | _ => []
def unreachFs : Option Unreach → List Nat
  | some (.flowspec k) => k
  | _ => []
def unreachVpn : Option Unreach → List Nat
  | some (.mplsVpn k) => k
  | _ => []
def unreachSr : Option Unreach → List Nat
  | some (.srPolicy k) => [k]
  | _ => []

def Msg.ipv4Ops (m : Msg) : List Op := RibSpec.ipv4Ops m.withdraw m.nlri m.attr
def Msg.fsOps (m : Msg) : List Op := RibSpec.mpOps (reachFs m.reach) (unreachFs m.unreach)
def Msg.vpnOps (m : Msg) : List Op := RibSpec.mpOps (reachVpn m.reach) (unreachVpn m.unreach)
def Msg.srOps (m : Msg) : List Op := RibSpec.mpOps (reachSr m.attr m.reach) (unreachSr m.unreach)

/-! ### update_rib_in_ipv4 / update_rib_out_ipv4 -/

theorem inIpv4_updateRibInIpv4 (s : State) (m : Msg) :
    inIpv4 (updateRibInIpv4 s m) = (inIpv4 s).step (.ops m.ipv4Ops) := by
  have h := sideOf_ipv4Loops m.attr m.withdraw m.nlri (s.ribIn, s.recvVer.ipv4)
  rw [← ribInLoops_fst] at h
  simpa [inIpv4, updateRibInIpv4, sideOf, Msg.ipv4Ops] using h

theorem outIpv4_updateRibOutIpv4 (s : State) (m : Msg) :
    outIpv4 (updateRibOutIpv4 s m) = (outIpv4 s).step (.ops m.ipv4Ops) := by
  have h := sideOf_ipv4Loops m.attr m.withdraw m.nlri (s.ribOut, s.sendVer.ipv4)
  simpa [outIpv4, updateRibOutIpv4, ribOutLoops, sideOf, Msg.ipv4Ops] using h

theorem updateRibInIpv4_nil (s : State) (m : Msg) (hn : m.nlri = []) (hw : m.withdraw = []) :
    updateRibInIpv4 s m = s := by
  simp [updateRibInIpv4, ribInLoops, hn, hw]

/-- update_rib_in_ipv4 writes adj_rib_in['ipv4'], receive_version['ipv4'] and the tree, nothing else -/
theorem updateRibInIpv4_frame (s : State) (m : Msg) :
    let s' := updateRibInIpv4 s m
    s'.ribOut = s.ribOut ∧ s'.sendVer = s.sendVer ∧ s'.recvVer.flowspec = s.recvVer.flowspec ∧
    s'.recvVer.srPolicy = s.recvVer.srPolicy ∧ s'.recvVer.mplsVpn = s.recvVer.mplsVpn ∧
    s'.fsSend = s.fsSend ∧ s'.fsRecv = s.fsRecv ∧ s'.srSend = s.srSend ∧ s'.srRecv = s.srRecv ∧
    s'.vpnSend = s.vpnSend ∧ s'.vpnRecv = s.vpnRecv := by
  simp [updateRibInIpv4]

/-- update_rib_out_ipv4 writes adj_rib_out['ipv4'] and send_version['ipv4'], nothing else -/
theorem updateRibOutIpv4_frame (s : State) (m : Msg) :
    let s' := updateRibOutIpv4 s m
    s'.ribIn = s.ribIn ∧ s'.tree = s.tree ∧ s'.recvVer = s.recvVer ∧ s'.sendVer.flowspec = s.sendVer.flowspec ∧
    s'.sendVer.srPolicy = s.sendVer.srPolicy ∧ s'.sendVer.mplsVpn = s.sendVer.mplsVpn ∧
    s'.fsSend = s.fsSend ∧ s'.fsRecv = s.fsRecv ∧ s'.srSend = s.srSend ∧ s'.srRecv = s.srRecv ∧
    s'.vpnSend = s.vpnSend ∧ s'.vpnRecv = s.vpnRecv := by
  simp [updateRibOutIpv4]

/-! ### update_receive_verion -/

theorem fsRecv_recvReach (s : State) (r : Option Reach) :
    fsRecvSide (optApply recvReach s r) =
      (fsRecvSide s).step (.ops ((reachFs r).map fun kv => Op.announce kv.1 kv.2)) := by
  cases r with
  | none => simp [optApply, reachFs, step_ops_nil]
  | some r =>
    cases r with
    | flowspec rules =>
      have h := sideOf_annLoopMp rules (s.fsRecv, s.recvVer.flowspec)
      simpa [optApply, recvReach, fsRecvSide, reachFs, sideOf] using h
    | srPolicy k => simp [optApply, recvReach, reachFs, step_ops_nil]
    | mplsVpn rules => simp [optApply, recvReach, reachFs, step_ops_nil, fsRecvSide]
    | other => simp [optApply, recvReach, reachFs, step_ops_nil]

theorem fsRecv_recvUnreach (s : State) (u : Option Unreach) :
    fsRecvSide (optApply recvUnreach s u) =
      (fsRecvSide s).step (.ops ((unreachFs u).map Op.withdraw)) := by
  cases u with
  | none => simp [optApply, unreachFs, step_ops_nil]
  | some u =>
    cases u with
    | flowspec keys =>
      have h := sideOf_wdLoop keys (s.fsRecv, s.recvVer.flowspec)
      simpa [optApply, recvUnreach, fsRecvSide, unreachFs, sideOf] using h
    | srPolicy k => simp [optApply, recvUnreach, unreachFs, step_ops_nil]
    | mplsVpn keys => simp [optApply, recvUnreach, unreachFs, step_ops_nil, fsRecvSide]
    | other => simp [optApply, recvUnreach, unreachFs, step_ops_nil]

theorem vpnRecv_recvReach (s : State) (r : Option Reach) :
    vpnRecvSide (optApply recvReach s r) =
      (vpnRecvSide s).step (.ops ((reachVpn r).map fun kv => Op.announce kv.1 kv.2)) := by
  cases r with
  | none => simp [optApply, reachVpn, step_ops_nil]
  | some r =>
    cases r with
    | mplsVpn rules =>
      have h := sideOf_annLoopMp rules (s.vpnRecv, s.recvVer.mplsVpn)
      simpa [optApply, recvReach, vpnRecvSide, reachVpn, sideOf] using h
    | srPolicy k => simp [optApply, recvReach, reachVpn, step_ops_nil]
    | flowspec rules => simp [optApply, recvReach, reachVpn, step_ops_nil, vpnRecvSide]
    | other => simp [optApply, recvReach, reachVpn, step_ops_nil]

theorem vpnRecv_recvUnreach (s : State) (u : Option Unreach) :
    vpnRecvSide (optApply recvUnreach s u) =
      (vpnRecvSide s).step (.ops ((unreachVpn u).map Op.withdraw)) := by
  cases u with
  | none => simp [optApply, unreachVpn, step_ops_nil]
  | some u =>
    cases u with
    | mplsVpn keys =>
      have h := sideOf_wdLoop keys (s.vpnRecv, s.recvVer.mplsVpn)
      simpa [optApply, recvUnreach, vpnRecvSide, unreachVpn, sideOf] using h
    | srPolicy k => simp [optApply, recvUnreach, unreachVpn, step_ops_nil]
    | flowspec keys => simp [optApply, recvUnreach, unreachVpn, step_ops_nil, vpnRecvSide]
    | other => simp [optApply, recvUnreach, unreachVpn, step_ops_nil]

theorem fsRecv_updateReceiveVersion (s : State) (m : Msg) :
    fsRecvSide (updateReceiveVersion s m) = (fsRecvSide s).step (.ops m.fsOps) := by
  unfold updateReceiveVersion
  rw [fsRecv_recvUnreach, fsRecv_recvReach, step_ops_append]; rfl

theorem vpnRecv_updateReceiveVersion (s : State) (m : Msg) :
    vpnRecvSide (updateReceiveVersion s m) = (vpnRecvSide s).step (.ops m.vpnOps) := by
  unfold updateReceiveVersion
  rw [vpnRecv_recvUnreach, vpnRecv_recvReach, step_ops_append]; rfl

/-- everything update_receive_verion does not write: the IPv4 tables and counters, the tree, the
    received sr-policy counter and dictionary, the whole sent side -/
def RecvVersionFrame (s s' : State) : Prop :=
  s'.ribIn = s.ribIn ∧ s'.ribOut = s.ribOut ∧ s'.tree = s.tree ∧ s'.sendVer = s.sendVer ∧
  s'.recvVer.ipv4 = s.recvVer.ipv4 ∧ s'.recvVer.srPolicy = s.recvVer.srPolicy ∧
  s'.fsSend = s.fsSend ∧ s'.srSend = s.srSend ∧ s'.srRecv = s.srRecv ∧ s'.vpnSend = s.vpnSend

theorem RecvVersionFrame.refl (s : State) : RecvVersionFrame s s := by simp [RecvVersionFrame]

theorem RecvVersionFrame.trans {a b c : State} (h1 : RecvVersionFrame a b) (h2 : RecvVersionFrame b c) :
    RecvVersionFrame a c := by
  simp only [RecvVersionFrame] at *
  obtain ⟨a1, a2, a3, a4, a5, a6, a7, a8, a9, a10⟩ := h1
  obtain ⟨b1, b2, b3, b4, b5, b6, b7, b8, b9, b10⟩ := h2
  exact ⟨b1.trans a1, b2.trans a2, b3.trans a3, b4.trans a4, b5.trans a5, b6.trans a6, b7.trans a7,
    b8.trans a8, b9.trans a9, b10.trans a10⟩

theorem recvReach_frame (s : State) (r : Option Reach) : RecvVersionFrame s (optApply recvReach s r) := by
  cases r with
  | none => exact RecvVersionFrame.refl s
  | some r => cases r <;> simp [optApply, recvReach, RecvVersionFrame]

theorem recvUnreach_frame (s : State) (u : Option Unreach) : RecvVersionFrame s (optApply recvUnreach s u) := by
  cases u with
  | none => exact RecvVersionFrame.refl s
  | some u => cases u <;> simp [optApply, recvUnreach, RecvVersionFrame]

theorem updateReceiveVersion_frame (s : State) (m : Msg) : RecvVersionFrame s (updateReceiveVersion s m) :=
  (recvReach_frame s m.reach).trans (recvUnreach_frame _ m.unreach)

/-! ### update_send_version -/

theorem fsSend_sendReach (a : Nat) (s : State) (r : Option Reach) :
    fsSendSide (optApply (sendReach a) s r) =
      (fsSendSide s).step (.ops ((reachFs r).map fun kv => Op.announce kv.1 kv.2)) := by
  cases r with
  | none => simp [optApply, reachFs, step_ops_nil]
  | some r =>
    cases r with
    | flowspec rules =>
      have h := sideOf_annLoopMp rules (s.fsSend, s.sendVer.flowspec)
      simpa [optApply, sendReach, fsSendSide, reachFs, sideOf] using h
    | srPolicy k => simp [optApply, sendReach, reachFs, step_ops_nil, fsSendSide]
    | mplsVpn rules => simp [optApply, sendReach, reachFs, step_ops_nil, fsSendSide]
    | other => simp [optApply, sendReach, reachFs, step_ops_nil]

theorem fsSend_sendUnreach (s : State) (u : Option Unreach) :
    fsSendSide (optApply sendUnreach s u) =
      (fsSendSide s).step (.ops ((unreachFs u).map Op.withdraw)) := by
  cases u with
  | none => simp [optApply, unreachFs, step_ops_nil]
  | some u =>
    cases u with
    | flowspec keys =>
      have h := sideOf_wdLoop keys (s.fsSend, s.sendVer.flowspec)
      simpa [optApply, sendUnreach, fsSendSide, unreachFs, sideOf] using h
    | srPolicy k => simp [optApply, sendUnreach, unreachFs, step_ops_nil, fsSendSide]
    | mplsVpn keys => simp [optApply, sendUnreach, unreachFs, step_ops_nil, fsSendSide]
    | other => simp [optApply, sendUnreach, unreachFs, step_ops_nil]

theorem vpnSend_sendReach (a : Nat) (s : State) (r : Option Reach) :
    vpnSendSide (optApply (sendReach a) s r) =
      (vpnSendSide s).step (.ops ((reachVpn r).map fun kv => Op.announce kv.1 kv.2)) := by
  cases r with
  | none => simp [optApply, reachVpn, step_ops_nil]
  | some r =>
    cases r with
    | mplsVpn rules =>
      have h := sideOf_annLoopMp rules (s.vpnSend, s.sendVer.mplsVpn)
      simpa [optApply, sendReach, vpnSendSide, reachVpn, sideOf] using h
    | srPolicy k => simp [optApply, sendReach, reachVpn, step_ops_nil, vpnSendSide]
    | flowspec rules => simp [optApply, sendReach, reachVpn, step_ops_nil, vpnSendSide]
    | other => simp [optApply, sendReach, reachVpn, step_ops_nil]

theorem vpnSend_sendUnreach (s : State) (u : Option Unreach) :
    vpnSendSide (optApply sendUnreach s u) =
      (vpnSendSide s).step (.ops ((unreachVpn u).map Op.withdraw)) := by
  cases u with
  | none => simp [optApply, unreachVpn, step_ops_nil]
  | some u =>
    cases u with
    | mplsVpn keys =>
      have h := sideOf_wdLoop keys (s.vpnSend, s.sendVer.mplsVpn)
      simpa [optApply, sendUnreach, vpnSendSide, unreachVpn, sideOf] using h
    | srPolicy k => simp [optApply, sendUnreach, unreachVpn, step_ops_nil, vpnSendSide]
    | flowspec keys => simp [optApply, sendUnreach, unreachVpn, step_ops_nil, vpnSendSide]
    | other => simp [optApply, sendUnreach, unreachVpn, step_ops_nil]

theorem srSend_sendReach (a : Nat) (s : State) (r : Option Reach) :
    srSendSide (optApply (sendReach a) s r) =
      (srSendSide s).step (.ops ((reachSr a r).map fun kv => Op.announce kv.1 kv.2)) := by
  cases r with
  | none => simp [optApply, reachSr, step_ops_nil]
  | some r =>
    cases r with
    | srPolicy k =>
      have h := sideOf_annStepMp (s.srSend, s.sendVer.srPolicy) (k, a)
      simpa [optApply, sendReach, srSendSide, reachSr, sideOf] using h
    | mplsVpn rules => simp [optApply, sendReach, reachSr, step_ops_nil, srSendSide]
    | flowspec rules => simp [optApply, sendReach, reachSr, step_ops_nil, srSendSide]
    | other => simp [optApply, sendReach, reachSr, step_ops_nil]

theorem srSend_sendUnreach (s : State) (u : Option Unreach) :
    srSendSide (optApply sendUnreach s u) =
      (srSendSide s).step (.ops ((unreachSr u).map Op.withdraw)) := by
  cases u with
  | none => simp [optApply, unreachSr, step_ops_nil]
  | some u =>
    cases u with
    | srPolicy k =>
      have h := sideOf_wdStep (s.srSend, s.sendVer.srPolicy) k
      simpa [optApply, sendUnreach, srSendSide, unreachSr, sideOf] using h
    | mplsVpn keys => simp [optApply, sendUnreach, unreachSr, step_ops_nil, srSendSide]
    | flowspec keys => simp [optApply, sendUnreach, unreachSr, step_ops_nil, srSendSide]
    | other => simp [optApply, sendUnreach, unreachSr, step_ops_nil]

theorem fsSend_updateSendVersion (s : State) (m : Msg) :
    fsSendSide (updateSendVersion s m) = (fsSendSide s).step (.ops m.fsOps) := by
  unfold updateSendVersion
  rw [fsSend_sendUnreach, fsSend_sendReach, step_ops_append]; rfl

theorem vpnSend_updateSendVersion (s : State) (m : Msg) :
    vpnSendSide (updateSendVersion s m) = (vpnSendSide s).step (.ops m.vpnOps) := by
  unfold updateSendVersion
  rw [vpnSend_sendUnreach, vpnSend_sendReach, step_ops_append]; rfl

theorem srSend_updateSendVersion (s : State) (m : Msg) :
    srSendSide (updateSendVersion s m) = (srSendSide s).step (.ops m.srOps) := by
  unfold updateSendVersion
  rw [srSend_sendUnreach, srSend_sendReach, step_ops_append]; rfl

/-- everything update_send_version does not write -/
def SendVersionFrame (s s' : State) : Prop :=
  s'.ribIn = s.ribIn ∧ s'.ribOut = s.ribOut ∧ s'.tree = s.tree ∧ s'.recvVer = s.recvVer ∧
  s'.sendVer.ipv4 = s.sendVer.ipv4 ∧ s'.fsRecv = s.fsRecv ∧ s'.srRecv = s.srRecv ∧ s'.vpnRecv = s.vpnRecv

theorem SendVersionFrame.refl (s : State) : SendVersionFrame s s := by simp [SendVersionFrame]

theorem SendVersionFrame.trans {a b c : State} (h1 : SendVersionFrame a b) (h2 : SendVersionFrame b c) :
    SendVersionFrame a c := by
  simp only [SendVersionFrame] at *
  obtain ⟨a1, a2, a3, a4, a5, a6, a7, a8⟩ := h1
  obtain ⟨b1, b2, b3, b4, b5, b6, b7, b8⟩ := h2
  exact ⟨b1.trans a1, b2.trans a2, b3.trans a3, b4.trans a4, b5.trans a5, b6.trans a6, b7.trans a7, b8.trans a8⟩

theorem sendReach_frame (a : Nat) (s : State) (r : Option Reach) :
    SendVersionFrame s (optApply (sendReach a) s r) := by
  cases r with
  | none => exact SendVersionFrame.refl s
  | some r => cases r <;> simp [optApply, sendReach, SendVersionFrame]

theorem sendUnreach_frame (s : State) (u : Option Unreach) : SendVersionFrame s (optApply sendUnreach s u) := by
  cases u with
  | none => exact SendVersionFrame.refl s
  | some u => cases u <;> simp [optApply, sendUnreach, SendVersionFrame]

theorem updateSendVersion_frame (s : State) (m : Msg) : SendVersionFrame s (updateSendVersion s m) :=
  (sendReach_frame m.attr s m.reach).trans (sendUnreach_frame _ m.unreach)

end Yabgp.Rib

namespace Yabgp.Rib
open RibSpec (Op Side SEv runOps changes)

/-! ### the closed form of an IPv4 UPDATE -/

theorem runOps_withdraws (ks : List Nat) (t : RibSpec.Table) :
    runOps (ks.map Op.withdraw) t = fun p => if p ∈ ks then none else t p := by
  induction ks generalizing t with
  | nil => funext p; simp [runOps]
  | cons k ks ih =>
    funext p
    simp only [List.map_cons, runOps, ih, Op.run, List.mem_cons]
    by_cases h1 : p ∈ ks <;> by_cases h2 : p = k <;> simp [h1, h2]

theorem runOps_announces (a : Nat) (ks : List Nat) (t : RibSpec.Table) :
    runOps (ks.map fun p => Op.announce p a) t = fun p => if p ∈ ks then some a else t p := by
  induction ks generalizing t with
  | nil => funext p; simp [runOps]
  | cons k ks ih =>
    funext p
    simp only [List.map_cons, runOps, ih, Op.run, List.mem_cons]
    by_cases h1 : p ∈ ks <;> by_cases h2 : p = k <;> simp [h1, h2]

/-- applying the withdrawals and then the announcements one by one gives the closed form -/
theorem runOps_ipv4Ops (wd nl : List Nat) (a : Nat) (t : RibSpec.Table) :
    runOps (RibSpec.ipv4Ops wd nl a) t = RibSpec.apply t wd nl a := by
  unfold RibSpec.ipv4Ops RibSpec.apply
  rw [runOps_append, runOps_withdraws, runOps_announces]

/-! ### "exactly when": the counter stands still iff the table is unchanged -/

def opKey : Op → Nat
  | .announce k _ => k
  | .withdraw k => k

/-- no route is both announced and withdrawn, or announced with two different attribute sets, by the
    same UPDATE (RFC 4271 section 4.3: "An UPDATE message SHOULD NOT include the same address prefix in
    the WITHDRAWN ROUTES and Network Layer Reachability Information fields") -/
def Coherent (ops : List Op) : Prop := ∀ o1 ∈ ops, ∀ o2 ∈ ops, opKey o1 = opKey o2 → o1 = o2

theorem run_other (op : Op) (t : RibSpec.Table) (p : Nat) (h : p ≠ opKey op) : op.run t p = t p := by
  cases op <;> simp_all [Op.run, opKey]

theorem run_key_const (op : Op) (t t' : RibSpec.Table) : op.run t (opKey op) = op.run t' (opKey op) := by
  cases op <;> simp [Op.run, opKey]

theorem delta_zero_run (op : Op) (t : RibSpec.Table) (h : op.delta t = 0) : op.run t = t := by
  cases op with
  | announce k v =>
    by_cases hk : t k = some v
    · exact run_announce_same t k v hk
    · simp [Op.delta, hk] at h
  | withdraw k =>
    cases hk : t k with
    | none => exact run_withdraw_absent t k hk
    | some v => simp [Op.delta, hk] at h

theorem delta_one_run (op : Op) (t : RibSpec.Table) (h : op.delta t ≠ 0) :
    op.run t (opKey op) ≠ t (opKey op) := by
  cases op with
  | announce k v =>
    by_cases hk : t k = some v
    · simp [Op.delta, hk] at h
    · simpa [Op.run, opKey] using fun h' => hk h'.symm
  | withdraw k =>
    cases hk : t k with
    | none => simp [Op.delta, hk] at h
    | some v => simp [Op.run, opKey, hk]

/-- no table change counted -> the table is what it was (for every list of operations) -/
theorem changes_zero_runOps (ops : List Op) (t : RibSpec.Table) (h : changes ops t = 0) :
    runOps ops t = t := by
  induction ops generalizing t with
  | nil => rfl
  | cons op ops ih =>
    simp only [changes, Nat.add_eq_zero_iff] at h
    have := delta_zero_run op t h.1
    simp only [runOps, this] at *
    exact ih t h.2

/-- later operations that touch `op`'s route only repeat `op`: its effect on that route stays -/
theorem runOps_keeps (op : Op) (ops : List Op) (t : RibSpec.Table)
    (h : ∀ o ∈ ops, opKey o = opKey op → o = op) (ht : t (opKey op) = op.run t (opKey op)) :
    runOps ops t (opKey op) = t (opKey op) := by
  induction ops generalizing t with
  | nil => rfl
  | cons o ops ih =>
    have ho := h o (List.mem_cons_self)
    have hrest : ∀ o' ∈ ops, opKey o' = opKey op → o' = op := fun o' ho' => h o' (List.mem_cons_of_mem _ ho')
    simp only [runOps]
    by_cases hk : opKey o = opKey op
    · have := ho hk
      subst this
      have e : o.run t (opKey o) = t (opKey o) := ht.symm
      rw [ih (o.run t) hrest (by rw [run_key_const o (o.run t) t]), e]
    · have e : o.run t (opKey op) = t (opKey op) := run_other o t _ (fun h' => hk h'.symm)
      rw [ih (o.run t) hrest (by rw [e, run_key_const op (o.run t) t]; exact ht), e]

theorem Coherent.tail {op : Op} {ops : List Op} (h : Coherent (op :: ops)) : Coherent ops :=
  fun o1 h1 o2 h2 => h o1 (List.mem_cons_of_mem _ h1) o2 (List.mem_cons_of_mem _ h2)

/-- for a coherent UPDATE the counter moves exactly when the table changes -/
theorem changes_zero_iff (ops : List Op) (t : RibSpec.Table) (hc : Coherent ops) :
    changes ops t = 0 ↔ runOps ops t = t := by
  constructor
  · exact changes_zero_runOps ops t
  · induction ops generalizing t with
    | nil => intro _; rfl
    | cons op ops ih =>
      intro h
      simp only [runOps] at h
      by_cases hd : op.delta t = 0
      · have e := delta_zero_run op t hd
        rw [e] at h
        simp [changes, hd, e, ih t hc.tail h]
      · exfalso
        have hne := delta_one_run op t hd
        have hkeep := runOps_keeps op ops (op.run t)
          (fun o ho hk => hc o (List.mem_cons_of_mem _ ho) op (List.mem_cons_self) hk)
          (run_key_const op _ _)
        rw [h] at hkeep
        exact hne hkeep.symm

theorem coherent_ipv4Ops (wd nl : List Nat) (a : Nat) (hd : ∀ p ∈ wd, p ∉ nl) :
    Coherent (RibSpec.ipv4Ops wd nl a) := by
  intro o1 h1 o2 h2 hk
  simp only [RibSpec.ipv4Ops, List.mem_append, List.mem_map] at h1 h2
  rcases h1 with ⟨k1, hk1, rfl⟩ | ⟨k1, hk1, rfl⟩ <;> rcases h2 with ⟨k2, hk2, rfl⟩ | ⟨k2, hk2, rfl⟩ <;>
    simp only [opKey] at hk <;> subst hk
  · rfl
  · exact absurd hk2 (hd _ hk1)
  · exact absurd hk1 (hd _ hk2)
  · rfl

/-! ### every stored route has a node in the radix tree -/

def TreeCovers (t : Table) (tr : List Nat) : Prop := ∀ k, t.has k = true → k ∈ tr

theorem treeCovers_wdStep (x : (Table × Nat) × List Nat) (p : Nat) (h : TreeCovers x.1.1 x.2) :
    TreeCovers (ribInWdStep x p).1.1 (ribInWdStep x p).2 := by
  unfold ribInWdStep
  split
  · intro k hk
    simp only [Table.has_eq, Table.get?_pop] at hk
    by_cases hkp : k = p
    · simp [hkp] at hk
    · simp only [hkp, ↓reduceIte] at hk
      have hin := h k (by simpa [Table.has_eq] using hk)
      unfold treeDelete
      split
      · simp [List.mem_filter, hin, hkp]
      · exact hin
  · exact h

theorem treeCovers_annStep (a : Nat) (x : (Table × Nat) × List Nat) (p : Nat) (h : TreeCovers x.1.1 x.2) :
    TreeCovers (ribInAnnStep a x p).1.1 (ribInAnnStep a x p).2 := by
  intro k hk
  have hset : (ribInAnnStep a x p).1.1 = x.1.1.set p a := by
    unfold ribInAnnStep annStepIpv4
    split
    · rfl
    · split <;> rfl
  rw [hset] at hk
  simp only [Table.has_eq, Table.get?_set] at hk
  unfold ribInAnnStep treeAdd
  by_cases hkp : k = p
  · subst hkp
    by_cases hc : k ∈ x.2
    · simp [hc]
    · simp [hc]
  · simp only [hkp, ↓reduceIte] at hk
    have hin := h k (by simpa [Table.has_eq] using hk)
    split
    · exact hin
    · simp [hin]

theorem treeCovers_ribInLoops (s : State) (m : Msg) (h : TreeCovers s.ribIn s.tree) :
    TreeCovers (ribInLoops s m).1.1 (ribInLoops s m).2 := by
  unfold ribInLoops
  have hw : ∀ (ks : List Nat) (x : (Table × Nat) × List Nat), TreeCovers x.1.1 x.2 →
      TreeCovers (ks.foldl ribInWdStep x).1.1 (ks.foldl ribInWdStep x).2 := by
    intro ks
    induction ks with
    | nil => intro x hx; exact hx
    | cons k ks ih => intro x hx; exact ih _ (treeCovers_wdStep x k hx)
  have ha : ∀ (ks : List Nat) (x : (Table × Nat) × List Nat), TreeCovers x.1.1 x.2 →
      TreeCovers (ks.foldl (ribInAnnStep m.attr) x).1.1 (ks.foldl (ribInAnnStep m.attr) x).2 := by
    intro ks
    induction ks with
    | nil => intro x hx; exact hx
    | cons k ks ih => intro x hx; exact ih _ (treeCovers_annStep m.attr x k hx)
  exact ha _ _ (hw _ _ h)

end Yabgp.Rib
