/-
  Helper lemmas about bytes and lists used by the property proofs.
-/
import Yabgp.Base.Bytes
import Yabgp.Model.Attr

namespace Yabgp

theorem words32_flatMap_be32 (xs : List Nat) (h : ∀ x ∈ xs, x < 4294967296) :
    words32 (xs.flatMap be32) = xs := by
  induction xs with
  | nil => rfl
  | cons x r ih =>
    have hx := h x (by simp)
    have hr := ih (fun y hy => h y (by simp [hy]))
    simp only [List.flatMap_cons, be32, List.cons_append, List.nil_append, words32, hr]
    simp only [u8_toNat_mod]; congr 1; omega

theorem flatMap_be32_length (xs : List Nat) : (xs.flatMap be32).length = 4 * xs.length := by
  induction xs with
  | nil => rfl
  | cons x r ih => simp [List.flatMap_cons, ih]; omega

theorem encAsns_length (asn4 : Bool) (xs : List Nat) :
    (encAsns asn4 xs).length = xs.length * asWidth asn4 := by
  induction xs with
  | nil => simp [encAsns]
  | cons x r ih =>
    unfold encAsns at ih ⊢
    simp only [List.flatMap_cons, List.length_append, ih, List.length_cons]
    cases asn4 <;> simp [asWidth] <;> omega

theorem decAsns_enc (asn4 : Bool) (xs : List Nat) (r : Bytes)
    (h : ∀ x ∈ xs, asnOk asn4 x = true) :
    decAsns asn4 xs.length (encAsns asn4 xs ++ r) = xs := by
  induction xs with
  | nil => simp [decAsns]
  | cons x t ih =>
    have hx := h x (by simp)
    have ht := ih (fun y hy => h y (by simp [hy]))
    unfold encAsns at ht ⊢
    simp only [List.flatMap_cons, List.length_cons, decAsns, List.append_assoc]
    cases asn4
    · simp only [asnOk, Bool.false_eq_true, ↓reduceIte, decide_eq_true_eq] at hx
      simp only [Bool.false_eq_true, ↓reduceIte, rd16_be16 hx]
      simp only [Bool.false_eq_true, ↓reduceIte] at ht
      rw [ht]
    · simp only [asnOk, ↓reduceIte, decide_eq_true_eq] at hx
      simp only [↓reduceIte, rd32_be32 hx]
      simp only [↓reduceIte] at ht
      rw [ht]

end Yabgp
