/-
  Liveness half of C02, the waiting period: Idle, automatic start allowed, idle-hold timer armed for `D`.  There is a
  schedule of clock ticks and expiries of the OTHER timers (in Idle a connect-retry, hold or keepalive timer left over from
  the previous session may still be armed; each of them only clears itself when it fires in Idle) after which the
  idle-hold timer is due, the state machine is still Idle with the same idle-hold timer, and no more time has passed than
  needed: `now' ≤ max now D`.
-/
import Yabgp.Props.C02

namespace Yabgp
open Sess

variable (U : Bool → Bytes → UpdClass)

/-- number of timers other than the idle-hold timer that are armed -/
def stale (tm : Timers) : Nat := tm.retry.isSome.toNat + tm.hold.isSome.toNat + tm.keepalive.isSome.toNat

structure IdleArmed (w : World) (D : Nat) : Prop where
  st : w.sess.st = .idle
  allow : w.sess.allowAuto = true
  ih : w.sess.tm.idleHold = some D

/-- the clock and due timers -/
def WaitEv : Ev → Prop
  | .advance _ => True
  | .fire _ => True
  | _ => False

def WaitGoal (w : World) (D : Nat) : Prop :=
  ∃ evs, (∀ e ∈ evs, WaitEv e) ∧ EnabledRun U w evs ∧ IdleArmed (run U w evs) D ∧
    D ≤ (run U w evs).sess.now ∧ (run U w evs).sess.now ≤ max w.sess.now D

/-- in Idle the expiry of a timer other than the idle-hold timer only clears that timer -/
theorem fire_stale (w : World) (hst : w.sess.st = .idle) (t : TimerId) (ht : t ≠ .idleHold) :
    (step U w (.fire t)).sess.st = .idle ∧ (step U w (.fire t)).sess.allowAuto = w.sess.allowAuto ∧
    (step U w (.fire t)).sess.now = w.sess.now ∧ (step U w (.fire t)).sess.tm.idleHold = w.sess.tm.idleHold ∧
    ((timerOf w.sess.tm t).isSome = true → stale (step U w (.fire t)).sess.tm + 1 = stale w.sess.tm) := by
  have hst0 : (w.sess.withOuts []).st = .idle := hst
  cases t with
  | idleHold => exact absurd rfl ht
  | retry =>
    simp only [step, fireRetry, hst0]
    refine ⟨hst, rfl, rfl, rfl, ?_⟩
    intro h
    simp only [timerOf] at h
    cases hr : w.sess.tm.retry <;> simp [hr] at h
    simp [stale, setRetry, withTm, withOuts, hr]
    omega
  | hold =>
    simp only [step, fireHold, hst0]
    refine ⟨hst, rfl, rfl, rfl, ?_⟩
    intro h
    simp only [timerOf] at h
    cases hr : w.sess.tm.hold <;> simp [hr] at h
    simp [stale, setHold, withTm, withOuts, hr]
    omega
  | keepalive =>
    simp only [step, fireKeepalive, hst0]
    refine ⟨hst, rfl, rfl, rfl, ?_⟩
    intro h
    simp only [timerOf] at h
    cases hr : w.sess.tm.keepalive <;> simp [hr] at h
    simp [stale, setKeepalive, withTm, withOuts, hr]

theorem wait_idle (D : Nat) : ∀ (n : Nat) (w : World), IdleArmed w D → (D - w.sess.now) + stale w.sess.tm ≤ n →
    WaitGoal U w D := by
  have done : ∀ (w : World), IdleArmed w D → D ≤ w.sess.now → WaitGoal U w D := by
    intro w hI hD
    exact ⟨[], by simp, trivial, hI, hD, by simp only [run]; omega⟩
  intro n
  induction n with
  | zero =>
    intro w hI hn
    exact done w hI (by omega)
  | succ n ih =>
    intro w hI hn
    by_cases hD : D ≤ w.sess.now
    · exact done w hI hD
    by_cases hdue : ∃ t d, t ≠ TimerId.idleHold ∧ timerOf w.sess.tm t = some d ∧ d ≤ w.sess.now
    · -- a left-over timer is due: it fires and clears itself
      obtain ⟨t, d, ht, hd, hle⟩ := hdue
      have hf := fire_stale U w hI.st t ht
      have hen : enabled w.sess (.fire t) = true := by simp [enabled, hd, hle]
      have hs := hf.2.2.2.2 (by rw [hd]; rfl)
      have hI1 : IdleArmed (step U w (.fire t)) D := ⟨hf.1, hf.2.1.trans hI.allow, hf.2.2.2.1.trans hI.ih⟩
      obtain ⟨evs, h1, h2, h3, h4, h5⟩ := ih (step U w (.fire t)) hI1 (by rw [hf.2.2.1]; omega)
      refine ⟨.fire t :: evs, ?_, ⟨hen, h2⟩, h3, h4, ?_⟩
      · intro e he
        rcases List.mem_cons.mp he with rfl | he
        · trivial
        · exact h1 e he
      · rw [hf.2.2.1] at h5; exact h5
    · -- nothing is due: one tick passes
      have hnd : ∀ t d, timerOf w.sess.tm t = some d → w.sess.now < d := by
        intro t d hd
        by_cases ht : t = .idleHold
        · subst ht
          have : w.sess.tm.idleHold = some d := hd
          rw [hI.ih] at this
          cases this; omega
        · apply Classical.byContradiction
          intro hlt
          exact hdue ⟨t, d, ht, hd, by omega⟩
      have hen : enabled w.sess (.advance 1) = true := by
        simp only [enabled, decide_eq_true_eq, List.all_eq_true]
        refine ⟨by omega, ?_⟩
        intro d hd
        simp only [allTimers, List.mem_append, Option.mem_toList] at hd
        rcases hd with ((hd | hd) | hd) | hd
        · have := hnd .retry d hd; omega
        · have := hnd .hold d hd; omega
        · have := hnd .keepalive d hd; omega
        · have := hnd .idleHold d hd; omega
      have hI1 : IdleArmed (step U w (.advance 1)) D := ⟨hI.st, hI.allow, hI.ih⟩
      have hnow1 : (step U w (.advance 1)).sess.now = w.sess.now + 1 := rfl
      have htm1 : (step U w (.advance 1)).sess.tm = w.sess.tm := rfl
      obtain ⟨evs, h1, h2, h3, h4, h5⟩ := ih (step U w (.advance 1)) hI1 (by rw [hnow1, htm1]; omega)
      refine ⟨.advance 1 :: evs, ?_, ⟨hen, h2⟩, h3, h4, ?_⟩
      · intro e he
        rcases List.mem_cons.mp he with rfl | he
        · trivial
        · exact h1 e he
      · rw [hnow1] at h5
        show (run U (step U w (.advance 1)) evs).sess.now ≤ max w.sess.now D
        omega

/-- **the waiting period**: from Idle with the idle-hold timer armed for `D` the clock and the left-over timers bring the
    agent to "Idle, idle-hold timer due" no later than `max now D` -/
theorem wait_for_idle_hold (w : World) (D : Nat) (h : IdleArmed w D) : WaitGoal U w D :=
  wait_idle U D _ w h (Nat.le_refl _)

end Yabgp
