/-
  (Base part of C13; the property module is Props/C13.lean, which adds the statement for every reachable state.)
  C13 — operator stop is final until operator start.
  `C01_manual_stop` gives the reaction in the single-connection situation (Cease iff Established, close, all
  timers stopped, Idle, automatic start forbidden); `C01_start_from_idle` / `C01_manual_start_ignored` give the
  two halves of "manual start".  This file adds the general facts about stop and the quiet period after it.
-/
import Yabgp.Props.C05

namespace Yabgp
open Sess

variable (U : Bool → Bytes → UpdClass)

/-- whatever the state, after manual stop: Idle, every timer stopped, automatic start forbidden, and nothing was
    connected -/
theorem C13_stop_state (s : Sess) :
    (s.manualStop).st = .idle ∧ (s.manualStop).tm = {} ∧ (s.manualStop).allowAuto = false := by
  unfold manualStop
  refine ⟨by simp, ?_, ?_⟩
  · simp
  · have h := (frm_setSt 0 ((((if s.st = .established then s.sendNotification C.errCease 0 [] else s).withTm {}).closeConn.withRetryCounter 0).withAllow false) .idle).scal.allow
    show (((((((if s.st = .established then s.sendNotification C.errCease 0 [] else s).withTm {}).closeConn.withRetryCounter 0).withAllow false).setSt .idle).abortPending).emit .retStop).allowAuto = false
    have e : ∀ t : Sess, (t.abortPending.emit .retStop).allowAuto = t.allowAuto := fun t => by
      show t.abortPending.allowAuto = _; simp
    rw [e]; exact h

/-- the stopped situation: automatic start forbidden, Idle, no timer running, and no connection attempt pending
    nor connection open (those we closed may still be waiting for their connectionLost) -/
structure Stopped (s : Sess) : Prop where
  allow : s.allowAuto = false
  st : s.st = .idle
  tm : s.tm = {}
  quiet : ∀ j, j < s.conns.length → (s.conn j).phase = .closing ∨ (s.conn j).phase = .closed

def isNoise : Out → Bool
  | .write .. => true
  | .connect .. => true
  | _ => false

end Yabgp

namespace Yabgp
open Sess

variable (U : Bool → Bytes → UpdClass)

theorem Stopped.withOuts {s : Sess} (h : Stopped s) (v : List Out) : Stopped (s.withOuts v) :=
  ⟨h.allow, h.st, h.tm, h.quiet⟩

theorem phase_setPhase (s : Sess) (c : Nat) (p : Phase) (j : Nat) :
    ((s.setPhase c p).conn j).phase = if c = j ∧ c < s.conns.length then p else (s.conn j).phase := by
  simp only [setPhase, conn_setConn]; split <;> rfl

theorem phase_setDisconnected (s : Sess) (c j : Nat) : ((s.setDisconnected c).conn j).phase = (s.conn j).phase := by
  simp only [setDisconnected, conn_setConn]; split
  · rename_i h; rw [h.1]
  · rfl

/-- closing a connection can only move a phase to `closing` -/
theorem phase_closeOn (s : Sess) (i j : Nat) :
    ((s.closeOn i).conn j).phase = (s.conn j).phase ∨ ((s.closeOn i).conn j).phase = .closing := by
  unfold closeOn
  split
  · have e : ((((s.setPhase i .closing).setDisconnected i).emit (.lose i)).conn j) = ((s.setPhase i .closing).setDisconnected i).conn j := rfl
    rw [e, phase_setDisconnected, phase_setPhase]
    split
    · exact Or.inr rfl
    · exact Or.inl rfl
  · split
    · rw [phase_setDisconnected]; exact Or.inl rfl
    · exact Or.inl rfl

theorem outs_closeOn (s : Sess) (i : Nat) : ∀ o ∈ (s.closeOn i).outs, o ∈ s.outs ∨ o = .lose i := by
  intro o ho
  unfold closeOn at ho
  split at ho
  · have : (((s.setPhase i .closing).setDisconnected i).emit (.lose i)).outs = s.outs ++ [.lose i] := rfl
    rw [this] at ho
    rcases List.mem_append.mp ho with h | h
    · exact Or.inl h
    · exact Or.inr (by simpa using h)
  · split at ho
    · exact Or.inl ho
    · exact Or.inl ho

/-- the conns-and-outs part of `Stopped` is preserved by `_close_connection`, which adds no noise -/
theorem quiet_closeConn (s : Sess) (hq : ∀ j, j < s.conns.length → (s.conn j).phase = .closing ∨ (s.conn j).phase = .closed) :
    (∀ j, j < s.closeConn.conns.length → (s.closeConn.conn j).phase = .closing ∨ (s.closeConn.conn j).phase = .closed) ∧
    (∀ o ∈ s.closeConn.outs, o ∈ s.outs ∨ isNoise o = false) := by
  unfold closeConn
  split
  · exact ⟨hq, fun o ho => Or.inl ho⟩
  · rename_i i _
    constructor
    · intro j hj
      have hl : ((s.closeOn i).withRetryCounter 0).conns.length = s.conns.length := (frm_closeOn 0 i s).len
      rw [hl] at hj
      have e : (((s.closeOn i).withRetryCounter 0).conn j) = (s.closeOn i).conn j := rfl
      rw [e]
      rcases phase_closeOn s i j with h | h
      · rw [h]; exact hq j hj
      · exact Or.inl h
    · intro o ho
      have ho' : o ∈ (s.closeOn i).outs := ho
      rcases outs_closeOn s i o ho' with h | h
      · exact Or.inl h
      · exact Or.inr (by rw [h]; rfl)

theorem manualStop_of_stopped {s : Sess} (hs : Stopped s) (ho : s.outs = []) :
    Stopped s.manualStop ∧ ∀ o ∈ s.manualStop.outs, isNoise o = false := by
  have hne : ¬ s.st = .established := by simp [hs.st]
  have hq := quiet_closeConn (s.withTm {}) hs.quiet
  unfold manualStop
  rw [if_neg hne]
  generalize hX : ((((s.withTm {}).closeConn).withRetryCounter 0).withAllow false).setSt .idle = X
  have hXallow : X.allowAuto = false := by
    rw [← hX]; exact (frm_setSt 0 ((((s.withTm {}).closeConn).withRetryCounter 0).withAllow false) .idle).scal.allow
  have hXst : X.st = .idle := by rw [← hX]; simp
  have hXtm : X.tm = {} := by rw [← hX]; simp
  have hXlen : X.conns.length = (s.withTm {}).closeConn.conns.length := by
    rw [← hX]; exact (frm_setSt 0 ((((s.withTm {}).closeConn).withRetryCounter 0).withAllow false) .idle).len
  have hXconn : ∀ j, X.conn j = (s.withTm {}).closeConn.conn j := by
    intro j; rw [← hX]; simp [Sess.setSt, conn, Sess.emit, withSt, withAllow, withRetryCounter]
  have hXouts : X.outs = (s.withTm {}).closeConn.outs := by
    rw [← hX]; simp [Sess.setSt, Sess.emit, withSt, withAllow, withRetryCounter]
  refine ⟨⟨?_, ?_, ?_, ?_⟩, ?_⟩
  · show X.abortPending.allowAuto = false; simp [hXallow]
  · show X.abortPending.st = .idle; simp [hXst]
  · show X.abortPending.tm = {}; simp [hXtm]
  · intro j hj
    have hj' : j < (s.withTm {}).closeConn.conns.length := by
      have : (X.abortPending.emit .retStop).conns.length = X.conns.length := by
        show X.abortPending.conns.length = _; simp
      rw [this, hXlen] at hj; exact hj
    have e : (X.abortPending.emit .retStop).conn j = X.abortPending.conn j := rfl
    rw [e]
    rcases phase_abortPending X j with h | ⟨h, _, _⟩
    · rw [h, hXconn]; exact hq.1 j hj'
    · exact Or.inr h
  · intro o hmem
    have : (X.abortPending.emit .retStop).outs = X.outs ++ [.retStop] := by
      show X.abortPending.outs ++ [.retStop] = _; simp
    rw [this, hXouts] at hmem
    rcases List.mem_append.mp hmem with h | h
    · rcases hq.2 o h with h' | h'
      · have : (s.withTm {}).outs = [] := ho
        rw [this] at h'; simp at h'
      · exact h'
    · simp at h; rw [h]; rfl

/-- After a manual stop, as long as the operator does not start the peer again, NO event the environment can
    produce — peer data, connection loss, time passing, timers, a repeated stop, the boot call — makes the agent
    write a BGP message or start a connection attempt, and the stopped situation persists.
    (Precondition `Stopped`: no attempt was pending and no connection open; the excluded case is the known finding
    below.) -/
theorem C13_quiet_step (w : World) (e : Ev) (hs : Stopped w.sess) (hne : e ≠ .manualStart)
    (hen : enabled w.sess e = true) :
    Stopped (step U w e).sess ∧ ∀ o ∈ (step U w e).sess.outs, isNoise o = false := by
  have h0 := hs.withOuts []
  cases e with
  | manualStart => exact absurd rfl hne
  | boot =>
    have : (w.sess.withOuts []).autoStart false = w.sess.withOuts [] := by
      have h1 : (w.sess.withOuts []).st = .idle := hs.st
      have h2 : (w.sess.withOuts []).allowAuto = false := hs.allow
      simp [autoStart, h1, h2]
    simp only [step, this]
    exact ⟨h0, by simp [withOuts]⟩
  | manualStop => exact manualStop_of_stopped h0 rfl
  | connOk c =>
    simp only [enabled, Bool.and_eq_true, decide_eq_true_eq] at hen
    rcases hs.quiet c hen.1 with h | h <;> simp [h] at hen
  | connFail c =>
    simp only [enabled, Bool.and_eq_true, decide_eq_true_eq] at hen
    rcases hs.quiet c hen.1 with h | h <;> simp [h] at hen
  | chunk c d =>
    simp only [enabled, Bool.and_eq_true, decide_eq_true_eq] at hen
    rcases hs.quiet c hen.1 with h | h <;> simp [h] at hen
  | lost c =>
    simp only [step, connLost]
    -- the state right after the connection is marked closed and the application told
    have hS : Stopped (((w.sess.withOuts []).setPhase c .closed).emit (.hConnLost c)) := by
      refine ⟨hs.allow, hs.st, hs.tm, ?_⟩
      intro j hj
      have hj' : j < w.sess.conns.length := by simpa [setPhase, setConn, withConns, Sess.emit, withOuts] using hj
      have e1 : (((w.sess.withOuts []).setPhase c .closed).emit (.hConnLost c)).conn j
          = ((w.sess.withOuts []).setPhase c .closed).conn j := rfl
      rw [e1, phase_setPhase]
      split
      · exact Or.inr rfl
      · exact hs.quiet j hj'
    have hO : ∀ o ∈ (((w.sess.withOuts []).setPhase c .closed).emit (.hConnLost c)).outs, isNoise o = false := by
      intro o ho
      have : (((w.sess.withOuts []).setPhase c .closed).emit (.hConnLost c)).outs = [.hConnLost c] := rfl
      rw [this] at ho; simp at ho; rw [ho]; rfl
    generalize (((w.sess.withOuts []).setPhase c .closed).emit (.hConnLost c)) = t at hS hO
    split
    · -- we had closed it ourselves: connection_closed
      have hdrop : Stopped (t.dropEstab (some c)) ∧ ∀ o ∈ (t.dropEstab (some c)).outs, isNoise o = false := by
        simp only [dropEstab]
        by_cases he : t.estab = some c
        · rw [if_pos he]
          refine ⟨⟨?_, by simp, ?_, ?_⟩, ?_⟩
          · exact ((frm_setSt 0 (t.withEstab none) .idle).scal.allow).trans hS.allow
          · rw [tm_setSt]; exact hS.tm
          · intro j hj
            have hl : ((t.withEstab none).setSt .idle).conns.length = t.conns.length := (frm_setSt 0 (t.withEstab none) .idle).len
            rw [hl] at hj
            have e2 : (((t.withEstab none).setSt .idle).conn j) = t.conn j := by
              unfold Sess.setSt; split <;> rfl
            rw [e2]; exact hS.quiet j hj
          · intro o ho
            have : ((t.withEstab none).setSt .idle).outs = t.outs := by
              unfold Sess.setSt
              rw [if_neg (by simp)]
              rfl
            rw [this] at ho; exact hO o ho
        · rw [if_neg he]; exact ⟨hS, hO⟩
      unfold connectionClosed
      rw [if_neg (by simp [hdrop.1.allow])]
      exact hdrop
    · -- the peer closed it: connection_failed in Idle does nothing
      have : t.connectionFailed = t := by simp only [connectionFailed, hS.st]
      rw [this]; exact ⟨hS, hO⟩
  | advance dt =>
    simp only [step]
    exact ⟨⟨hs.allow, hs.st, hs.tm, hs.quiet⟩, by simp [withNow, withOuts]⟩
  | fire t =>
    simp only [enabled] at hen
    cases t <;> simp [timerOf, hs.tm] at hen

/-- every event of the list is one the environment can produce in the state it meets -/
def EnabledRun : World → List Ev → Prop
  | _, [] => True
  | w, e :: r => enabled w.sess e = true ∧ EnabledRun (step U w e) r

/-- all outputs produced along a run, in order -/
def runOuts : World → List Ev → List Out
  | _, [] => []
  | w, e :: r => (step U w e).sess.outs ++ runOuts (step U w e) r

/-- the quiet period, for every continuation: along any sequence of environment events without a manual start the
    agent never writes a BGP message and never starts a connection attempt, and it is still stopped at the end -/
theorem C13_quiet (evs : List Ev) : ∀ (w : World), Stopped w.sess →
    (∀ e ∈ evs, e ≠ .manualStart) → EnabledRun U w evs →
    Stopped (run U w evs).sess ∧ ∀ o ∈ runOuts U w evs, isNoise o = false := by
  induction evs with
  | nil => intro w hs _ _; exact ⟨hs, fun o ho => by simp [runOuts] at ho⟩
  | cons e r ih =>
    intro w hs hne hen
    have h1 := C13_quiet_step U w e hs (hne e (by simp)) hen.1
    have ih' := ih (step U w e) h1.1 (fun e' he' => hne e' (by simp [he'])) hen.2
    refine ⟨ih'.1, ?_⟩
    intro o ho
    simp only [runOuts] at ho
    rcases List.mem_append.mp ho with h | h
    · exact h1.2 o h
    · exact ih'.2 o h

/-- manual start from the stopped situation begins connecting at once and re-enables automatic recovery -/
theorem C13_start (s : Sess) (hs : Stopped s) :
    (s.manualStart).st = .connect ∧ (s.manualStart).allowAuto = true ∧
    (s.manualStart).outs = s.outs ++ [.connect s.conns.length, .retStart 1] :=
  let h := (C01_start_from_idle s hs.st).1
  ⟨h.1, h.2.2.2, h.2.1⟩

/-- the attempt that was pending at manual stop is given up by the stop (repaired defect C13-pending-attempt-adopted:
    before the repair it was adopted when it succeeded): after `boot, stop` the connector is closed and its success is
    not an event the environment can produce any more -/
theorem C13_pending_attempt_aborted :
    (run exU (bootWorld exCfg) [.boot, .manualStop]).sess.allowAuto = false ∧
    (run exU (bootWorld exCfg) [.boot, .manualStop]).sess.st = .idle ∧
    ((run exU (bootWorld exCfg) [.boot, .manualStop]).sess.conn 0).phase = .closed ∧
    enabled (run exU (bootWorld exCfg) [.boot, .manualStop]).sess (.connOk 0) = false := by
  decide

end Yabgp

#print axioms Yabgp.C13_stop_state
#print axioms Yabgp.C13_quiet_step
#print axioms Yabgp.C13_quiet
#print axioms Yabgp.C13_start
#print axioms Yabgp.C13_pending_attempt_aborted
