/-
  Liveness half of C02, data part: one more pass over all actions of the session model, for four facts that every action
  preserves (relation `Evo s s'`):

  * `TB`  - an armed idle-hold timer expires at most one idle-hold period after "now" (the timer is only ever armed with
            `now + 3 * idleHoldT`, the clock only moves forward, the configuration never changes);
  * `BI`  - the BGP identifier is unset or the configured one;
  * connections are only appended, and a connector that has left `connecting` never returns to it.
-/
import Yabgp.Lemmas.TmLemmas

namespace Yabgp
namespace Sess

/-- an armed idle-hold timer is due within one idle-hold period -/
def TB (s : Sess) : Prop := ∀ d, s.tm.idleHold = some d → d ≤ s.now + 3 * s.cfg.idleHoldT

/-- the BGP identifier is still unset, or the one derived from the configuration -/
def BI (s : Sess) : Prop := s.bgpId = none ∨ s.bgpId = some s.cfg.localId

structure Evo (s s' : Sess) : Prop where
  cfg : s'.cfg = s.cfg
  tb : TB s → TB s'
  bi : BI s → BI s'
  len : s.conns.length ≤ s'.conns.length
  phase : ∀ j, j < s.conns.length → (s.conn j).phase ≠ .connecting → (s'.conn j).phase ≠ .connecting

theorem Evo.refl (s : Sess) : Evo s s := ⟨rfl, id, id, Nat.le_refl _, fun _ _ h => h⟩

theorem Evo.trans {a b c : Sess} (h1 : Evo a b) (h2 : Evo b c) : Evo a c :=
  ⟨h2.cfg.trans h1.cfg, fun h => h2.tb (h1.tb h), fun h => h2.bi (h1.bi h), Nat.le_trans h1.len h2.len,
   fun j hj h => h2.phase j (Nat.lt_of_lt_of_le hj h1.len) (h1.phase j hj h)⟩

/-- an update that leaves connections, clock, configuration and identifier alone and does to the idle-hold timer one of:
    nothing, stop it, arm it with `now + 3 * idleHoldT` -/
theorem Evo.of_tm {s s' : Sess} (hc : s'.conns = s.conns) (hn : s'.now = s.now) (hcfg : s'.cfg = s.cfg)
    (hb : s'.bgpId = s.bgpId)
    (hi : s'.tm.idleHold = s.tm.idleHold ∨ s'.tm.idleHold = none ∨ s'.tm.idleHold = some s.idleDeadline) : Evo s s' := by
  refine ⟨hcfg, ?_, ?_, by rw [hc]; exact Nat.le_refl _, ?_⟩
  · intro h d hd
    rw [hn, hcfg]
    rcases hi with hi | hi | hi
    · exact h d (hi ▸ hd)
    · rw [hi] at hd; cases hd
    · rw [hi] at hd; cases hd; exact Nat.le_refl _
  · intro h; unfold BI at *; rw [hb, hcfg]; exact h
  · intro j _ h; simpa [conn, hc] using h

theorem Evo.same {s s' : Sess} (hc : s'.conns = s.conns) (hn : s'.now = s.now) (hcfg : s'.cfg = s.cfg)
    (hb : s'.bgpId = s.bgpId) (hi : s'.tm.idleHold = s.tm.idleHold) : Evo s s' :=
  Evo.of_tm hc hn hcfg hb (Or.inl hi)

theorem ev_emit (s : Sess) (o : Out) : Evo s (s.emit o) := Evo.same rfl rfl rfl rfl rfl
theorem ev_withOuts (s : Sess) (v : List Out) : Evo s (s.withOuts v) := Evo.same rfl rfl rfl rfl rfl
theorem ev_withSt (s : Sess) (v : St) : Evo s (s.withSt v) := Evo.same rfl rfl rfl rfl rfl
theorem ev_withAllow (s : Sess) (v : Bool) : Evo s (s.withAllow v) := Evo.same rfl rfl rfl rfl rfl
theorem ev_withRetryCounter (s : Sess) (v : Nat) : Evo s (s.withRetryCounter v) := Evo.same rfl rfl rfl rfl rfl
theorem ev_incRetryCounter (s : Sess) : Evo s s.incRetryCounter := Evo.same rfl rfl rfl rfl rfl
theorem ev_withHoldTime (s : Sess) (v : Nat) : Evo s (s.withHoldTime v) := Evo.same rfl rfl rfl rfl rfl
theorem ev_withProto (s : Sess) (v : Option Nat) : Evo s (s.withProto v) := Evo.same rfl rfl rfl rfl rfl
theorem ev_withEstab (s : Sess) (v : Option Nat) : Evo s (s.withEstab v) := Evo.same rfl rfl rfl rfl rfl
theorem ev_withPending (s : Sess) (v : Option Nat) : Evo s (s.withPending v) := Evo.same rfl rfl rfl rfl rfl
theorem ev_withLocalCaps (s : Sess) (v : LocalCaps) : Evo s (s.withLocalCaps v) := Evo.same rfl rfl rfl rfl rfl
theorem ev_withRemote (s : Sess) (v : CapaDict) : Evo s (s.withRemote v) := Evo.same rfl rfl rfl rfl rfl
theorem ev_setRetry (s : Sess) (v : Option Nat) : Evo s (s.setRetry v) := Evo.same rfl rfl rfl rfl rfl
theorem ev_setHold (s : Sess) (v : Option Nat) : Evo s (s.setHold v) := Evo.same rfl rfl rfl rfl rfl
theorem ev_setKeepalive (s : Sess) (v : Option Nat) : Evo s (s.setKeepalive v) := Evo.same rfl rfl rfl rfl rfl

theorem ev_setIdleHold_none (s : Sess) : Evo s (s.setIdleHold none) := Evo.of_tm rfl rfl rfl rfl (Or.inr (Or.inl rfl))
theorem ev_setIdleHold_deadline (s : Sess) : Evo s (s.setIdleHold (some s.idleDeadline)) :=
  Evo.of_tm rfl rfl rfl rfl (Or.inr (Or.inr rfl))
theorem ev_withTm (s : Sess) (v : Timers)
    (h : v.idleHold = s.tm.idleHold ∨ v.idleHold = none ∨ v.idleHold = some s.idleDeadline) : Evo s (s.withTm v) :=
  Evo.of_tm rfl rfl rfl rfl h

/-- the clock moves forward -/
theorem ev_withNow (s : Sess) (v : Nat) (h : s.now ≤ v) : Evo s (s.withNow v) := by
  refine ⟨rfl, ?_, id, Nat.le_refl _, fun _ _ h => h⟩
  intro hb d hd
  have := hb d hd
  show d ≤ v + 3 * s.cfg.idleHoldT
  omega

/-- BGPPeering.buildProtocol: the identifier is chosen once, from the configuration -/
theorem ev_withBgpId (s : Sess) : Evo s (s.withBgpId (some (s.bgpId.getD s.cfg.localId))) := by
  refine ⟨rfl, id, ?_, Nat.le_refl _, fun _ _ h => h⟩
  intro h
  right
  show some (s.bgpId.getD s.cfg.localId) = some s.cfg.localId
  rcases h with h | h <;> rw [h] <;> rfl

theorem ev_setConn (s : Sess) (j : Nat) (c : Conn) (h : (s.conn j).phase ≠ .connecting → c.phase ≠ .connecting) :
    Evo s (s.setConn j c) := by
  refine ⟨rfl, id, id, by simp, ?_⟩
  intro k _ hk
  rw [conn_setConn]
  split
  · rename_i hh; rw [← hh.1] at hk; exact h hk
  · exact hk

theorem ev_setPhase (s : Sess) (j : Nat) (p : Phase) (hp : p ≠ .connecting) : Evo s (s.setPhase j p) :=
  ev_setConn s j _ (fun _ => hp)
theorem ev_setDisconnected (s : Sess) (j : Nat) : Evo s (s.setDisconnected j) := ev_setConn s j _ id
theorem ev_setAsn4 (s : Sess) (j : Nat) : Evo s (s.setAsn4 j) := ev_setConn s j _ id
theorem ev_bumpSent (s : Sess) (j : Nat) (g : Stats → Stats) : Evo s (s.bumpSent j g) := ev_setConn s j _ id
theorem ev_bumpRecv (s : Sess) (j : Nat) (g : Stats → Stats) : Evo s (s.bumpRecv j g) := ev_setConn s j _ id

/-- a new connector is appended -/
theorem ev_addConn (s : Sess) : Evo s (s.withConns (s.conns ++ [({} : Conn)])) := by
  refine ⟨rfl, id, id, by simp [withConns], ?_⟩
  intro j hj h
  have : (s.withConns (s.conns ++ [({} : Conn)])).conn j = s.conn j := by
    simp only [conn, withConns, List.getD_eq_getElem?_getD]
    rw [List.getElem?_append_left hj]
  rw [this]; exact h

theorem ev_setSt (s : Sess) (v : St) : Evo s (s.setSt v) := by
  unfold setSt
  split
  · exact (ev_emit s _).trans (ev_withSt _ _)
  · exact ev_withSt _ _

theorem ev_writeOn (s : Sess) (i : Nat) (b : Bytes) : Evo s (s.writeOn i b) := by
  unfold writeOn
  split
  · exact ev_emit _ _
  · exact Evo.refl _

theorem ev_sendNotification (s : Sess) (e sub : Nat) (d : Bytes) : Evo s (s.sendNotification e sub d) := by
  unfold sendNotification
  split
  · exact ev_emit _ _
  · split
    · exact (ev_bumpSent s _ _).trans (ev_writeOn _ _ _)
    · exact (ev_bumpSent s _ _).trans (ev_emit _ _)

theorem ev_sendKeepalive (s : Sess) : Evo s s.sendKeepalive := by
  unfold sendKeepalive
  split
  · exact ev_emit _ _
  · exact (ev_bumpSent s _ _).trans (ev_writeOn _ _ _)

theorem ev_sendOpen (s : Sess) : Evo s s.sendOpen.1 := by
  unfold sendOpen
  split
  · exact Evo.refl _
  · split
    · exact ev_withLocalCaps _ _
    · exact (((ev_withLocalCaps s _).trans (ev_writeOn _ _ _)).trans (ev_bumpSent _ _ _)).trans (ev_emit _ _)

theorem ev_closeOn (s : Sess) (i : Nat) : Evo s (s.closeOn i) := by
  unfold closeOn
  split
  · exact ((ev_setPhase s i .closing (by simp)).trans (ev_setDisconnected _ i)).trans (ev_emit _ _)
  · split
    · exact ev_setDisconnected _ _
    · exact Evo.refl _

theorem ev_closeConn (s : Sess) : Evo s s.closeConn := by
  unfold closeConn
  split
  · exact Evo.refl _
  · exact (ev_closeOn s _).trans (ev_withRetryCounter _ _)

theorem ev_errorClose (s : Sess) : Evo s s.errorClose := by
  unfold errorClose
  exact (((ev_withTm s _ (Or.inr (Or.inr rfl))).trans (ev_closeConn _)).trans (ev_incRetryCounter _)).trans (ev_setSt _ _)

theorem ev_abortPending (s : Sess) : Evo s s.abortPending := by
  unfold abortPending
  split
  · exact Evo.refl _
  · split
    · exact (ev_withPending s _).trans (ev_setPhase _ _ .closed (by simp))
    · exact ev_withPending _ _

theorem ev_connectTcp (s : Sess) : Evo s s.connectTcp := by
  unfold connectTcp
  split
  · exact (((ev_abortPending s).trans (ev_addConn _)).trans (ev_emit _ _)).trans (ev_withPending _ _)
  · exact ev_abortPending s

theorem ev_autoStart (s : Sess) (b : Bool) : Evo s (s.autoStart b) := by
  unfold autoStart
  split
  · split
    · exact ev_setIdleHold_deadline s
    · split
      · exact (((ev_incRetryCounter s).trans (ev_setRetry _ _)).trans (ev_setSt _ _)).trans (ev_connectTcp _)
      · exact Evo.refl _
  · exact Evo.refl _

theorem ev_dropEstab (s : Sess) (p : Option Nat) : Evo s (s.dropEstab p) := by
  unfold dropEstab
  split
  · split
    · exact (ev_withEstab s _).trans (ev_setSt _ _)
    · exact Evo.refl _
  · exact Evo.refl _

theorem ev_connectionClosed (s : Sess) (p : Option Nat) : Evo s (s.connectionClosed p) := by
  unfold connectionClosed
  split
  · exact (ev_dropEstab s p).trans (ev_autoStart _ _)
  · exact ev_dropEstab s p

theorem ev_connectionFailed (s : Sess) : Evo s s.connectionFailed := by
  unfold connectionFailed
  split
  · exact (((ev_setRetry s _).trans (ev_closeConn _)).trans (ev_setSt _ _)).trans (ev_connectionClosed _ _)
  · exact (ev_setRetry s _).trans (ev_setSt _ _)
  · exact ((((ev_closeConn s).trans (ev_setRetry _ _)).trans (ev_setHold _ _)).trans (ev_setSt _ _)).trans (ev_connectionClosed _ _)
  · exact ev_errorClose _
  · exact ev_errorClose _
  · exact Evo.refl _

theorem ev_manualStart (s : Sess) : Evo s s.manualStart := by
  unfold manualStart
  split
  · exact ev_emit _ _
  · exact ((((ev_withAllow s _).trans (ev_setRetry _ _)).trans (ev_setSt _ _)).trans (ev_connectTcp _)).trans (ev_emit _ _)
  · exact ev_emit _ _

theorem ev_manualStop (s : Sess) : Evo s s.manualStop := by
  unfold manualStop
  have h1 : Evo s (if s.st = .established then s.sendNotification C.errCease 0 [] else s) := by
    split
    · exact ev_sendNotification _ _ _ _
    · exact Evo.refl _
  exact ((((((h1.trans (ev_withTm _ _ (Or.inr (Or.inl rfl)))).trans (ev_closeConn _)).trans (ev_withRetryCounter _ _)).trans
    (ev_withAllow _ _)).trans (ev_setSt _ _)).trans (ev_abortPending _)).trans (ev_emit _ _)

theorem ev_connectionMade (s : Sess) : Evo s s.connectionMade := by
  unfold connectionMade
  have h1 : Evo s ((s.setRetry none).setIdleHold none) := (ev_setRetry s _).trans (ev_setIdleHold_none _)
  split
  · exact ((h1.trans (ev_sendOpen _)).trans (ev_setHold _ _)).trans (ev_setSt _ _)
  · exact h1.trans (ev_sendOpen _)

theorem ev_connOk (s : Sess) (i : Nat) : Evo s (s.connOk i) := by
  unfold connOk
  have h1 : Evo s ((((s.setPhase i .connected).withProto (some i)).setSt .connect).withEstab (some i)) :=
    (((ev_setPhase s i .connected (by simp)).trans (ev_withProto _ _)).trans (ev_setSt _ _)).trans (ev_withEstab _ _)
  have hb : ((((s.setPhase i .connected).withProto (some i)).setSt .connect).withEstab (some i)).bgpId = s.bgpId := by
    show (((s.setPhase i .connected).withProto (some i)).setSt .connect).bgpId = s.bgpId
    unfold setSt; split <;> rfl
  have hc : ((((s.setPhase i .connected).withProto (some i)).setSt .connect).withEstab (some i)).cfg = s.cfg := h1.cfg
  have h2 := ev_withBgpId ((((s.setPhase i .connected).withProto (some i)).setSt .connect).withEstab (some i))
  rw [hb, hc] at h2
  exact (h1.trans h2).trans (ev_connectionMade _)

theorem ev_connFail (s : Sess) (i : Nat) : Evo s (s.connFail i) := by
  unfold connFail
  split
  · exact (((ev_withPending s _).trans (ev_setPhase _ _ .closed (by simp))).trans (ev_emit _ _)).trans (ev_connectionFailed _)
  · exact ev_setPhase _ _ .closed (by simp)

theorem ev_connLost (s : Sess) (i : Nat) : Evo s (s.connLost i) := by
  unfold connLost
  split
  · exact ((ev_setPhase s _ .closed (by simp)).trans (ev_emit _ _)).trans (ev_connectionClosed _ _)
  · exact ((ev_setPhase s _ .closed (by simp)).trans (ev_emit _ _)).trans (ev_connectionFailed _)

theorem ev_fireRetry (s : Sess) : Evo s s.fireRetry := by
  unfold fireRetry
  split
  · exact (((ev_setRetry s _).trans (ev_closeConn _)).trans (ev_setRetry _ _)).trans (ev_connectTcp _)
  · exact (((ev_setRetry s _).trans (ev_closeConn _)).trans (ev_setRetry _ _)).trans (ev_connectTcp _)
  · exact ev_setRetry _ _
  · exact ((ev_setRetry s _).trans (ev_sendNotification _ _ _ _)).trans (ev_errorClose _)

theorem ev_fireHold (s : Sess) : Evo s s.fireHold := by
  unfold fireHold
  have hx : Evo s ((((s.setHold none).sendNotification C.errHold 0 []).setRetry none).errorClose.setSt .idle) :=
    ((((ev_setHold s _).trans (ev_sendNotification _ _ _ _)).trans (ev_setRetry _ _)).trans (ev_errorClose _)).trans
      (ev_setSt _ _)
  have hy : Evo s ((s.setHold none).errorClose) := (ev_setHold s _).trans (ev_errorClose _)
  split
  · exact hx
  · exact hx
  · exact hx
  · exact hy
  · exact hy
  · exact ev_setHold _ _

theorem ev_fireKeepalive (s : Sess) : Evo s s.fireKeepalive := by
  unfold fireKeepalive
  have hk : Evo s ((s.setKeepalive none).sendKeepalive) := (ev_setKeepalive s _).trans (ev_sendKeepalive _)
  have hy : Evo s ((s.setKeepalive none).errorClose) := (ev_setKeepalive s _).trans (ev_errorClose _)
  split
  · split
    · exact hk.trans (ev_setKeepalive _ _)
    · exact hk
  · split
    · exact hk.trans (ev_setKeepalive _ _)
    · exact hk
  · exact hy
  · exact hy
  · exact ev_setKeepalive _ _

theorem ev_fireIdleHold (s : Sess) : Evo s s.fireIdleHold := by
  unfold fireIdleHold
  split
  · exact (ev_setIdleHold_none s).trans (ev_autoStart _ _)
  · exact ev_setIdleHold_none s

/-! ### reactions to messages -/

theorem ev_headerError (s : Sess) (sub : Nat) (d : Bytes) : Evo s (s.headerError sub d) :=
  (ev_sendNotification s _ _ _).trans (ev_errorClose _)

theorem ev_openMessageError (s : Sess) (sub : Nat) : Evo s (s.openMessageError sub) :=
  (ev_sendNotification s _ _ _).trans (ev_errorClose _)

theorem ev_restartHold (s : Sess) : Evo s s.restartHold := by
  unfold restartHold
  split
  · exact ev_setHold _ _
  · exact Evo.refl _

theorem ev_fsmErr (s : Sess) : Evo s ((s.sendNotification C.errFsm 0 []).errorClose) :=
  (ev_sendNotification s _ _ _).trans (ev_errorClose _)

theorem ev_fsmOpenReceived (s : Sess) : Evo s s.fsmOpenReceived := by
  unfold fsmOpenReceived
  split
  · exact ev_errorClose _
  · exact ev_errorClose _
  · split
    · exact ((((ev_setRetry s _).trans (ev_sendKeepalive _)).trans (ev_setKeepalive _ _)).trans (ev_setHold _ _)).trans
        (ev_setSt _ _)
    · exact ((((ev_setRetry s _).trans (ev_sendKeepalive _)).trans (ev_setKeepalive _ _)).trans (ev_setHold _ _)).trans
        (ev_setSt _ _)
  · exact ev_fsmErr s
  · exact ev_fsmErr s
  · exact Evo.refl _

theorem ev_fsmKeepaliveReceived (s : Sess) : Evo s s.fsmKeepaliveReceived := by
  unfold fsmKeepaliveReceived
  split
  · exact (ev_restartHold s).trans (ev_setSt _ _)
  · exact ev_restartHold s
  · exact ev_errorClose _
  · exact ev_errorClose _
  · exact ev_fsmErr s
  · exact Evo.refl _

theorem ev_fsmUpdateReceived (s : Sess) : Evo s s.fsmUpdateReceived := by
  unfold fsmUpdateReceived
  split
  · exact ev_restartHold s
  · exact ev_errorClose _
  · exact ev_errorClose _
  · exact ev_fsmErr s
  · exact ev_fsmErr s
  · exact Evo.refl _

theorem ev_fsmNotificationReceived (s : Sess) (e sub : Nat) : Evo s (s.fsmNotificationReceived e sub) := by
  unfold fsmNotificationReceived
  split
  · split
    · exact ((((ev_setRetry s _).trans (ev_setHold _ _)).trans (ev_setKeepalive _ _)).trans (ev_closeConn _)).trans (ev_setSt _ _)
    · exact ((((ev_setRetry s _).trans (ev_setHold _ _)).trans (ev_setKeepalive _ _)).trans (ev_closeConn _)).trans (ev_setSt _ _)
    · exact ev_errorClose _
    · exact ev_errorClose _
    · exact ev_errorClose _
    · exact Evo.refl _
  · split
    · exact ev_errorClose _
    · exact Evo.refl _

theorem ev_openAccepted (s : Sess) (j : Nat) (m : OpenMsg) : Evo s (s.openAccepted j m).1 := by
  unfold openAccepted
  split
  · split
    · exact ((ev_withRemote s _).trans (ev_setAsn4 _ j)).trans (ev_openMessageError _ _)
    · exact (ev_withRemote s _).trans (ev_openMessageError _ _)
  · split
    · exact ((((ev_withRemote s _).trans (ev_setAsn4 _ j)).trans (ev_withHoldTime _ _)).trans (ev_fsmOpenReceived _)).trans
        (ev_emit _ _)
    · exact (((ev_withRemote s _).trans (ev_withHoldTime _ _)).trans (ev_fsmOpenReceived _)).trans (ev_emit _ _)

theorem ev_openReceived (s : Sess) (j : Nat) (body : Bytes) : Evo s (s.openReceived j body).1 := by
  unfold openReceived
  split
  · exact (ev_bumpRecv s j _).trans (ev_headerError _ _ _)
  · exact (ev_bumpRecv s j _).trans (ev_openMessageError _ _)
  · exact ev_bumpRecv s j _
  · split
    · exact (ev_bumpRecv s j _).trans (ev_openMessageError _ _)
    · exact (ev_bumpRecv s j _).trans (ev_openAccepted _ j _)

theorem ev_dispatch (U : Bool → Bytes → UpdClass) (s : Sess) (j ty : Nat) (body : Bytes) :
    Evo s (dispatch U s j ty body).1 := by
  unfold dispatch
  split
  · exact ev_openReceived s j body
  · split
    · split
      · exact ev_bumpRecv s j _
      · exact (ev_bumpRecv s j _).trans (ev_emit _ _)
      · exact ((ev_bumpRecv s j _).trans (ev_emit _ _)).trans (ev_fsmUpdateReceived _)
      · exact ((ev_bumpRecv s j _).trans (ev_emit _ _)).trans (ev_fsmUpdateReceived _)
    · split
      · split
        · exact Evo.refl _
        · exact ((ev_bumpRecv s j _).trans (ev_emit _ _)).trans (ev_fsmNotificationReceived _ _ _)
      · split
        · split
          · exact ((ev_bumpRecv s j _).trans (ev_emit _ _)).trans (ev_fsmKeepaliveReceived _)
          · exact ((ev_bumpRecv s j _).trans (ev_emit _ _)).trans (ev_headerError _ _ _)
        · split
          · split
            · exact ev_bumpRecv s j _
            · exact (ev_bumpRecv s j _).trans (ev_emit _ _)
          · exact ev_headerError s _ _

theorem ev_parseBuffer (U : Bool → Bytes → UpdClass) (s : Sess) (i : Nat) (buf : Bytes) :
    Evo s (parseBuffer U s i buf).1 := by
  unfold parseBuffer
  split
  · exact Evo.refl _
  · split
    · exact Evo.refl _
    · exact ev_headerError s _ _
    · exact ev_headerError s _ _
    · split
      · exact ev_dispatch U s i _ _
      · exact ev_dispatch U s i _ _

theorem ev_drain (U : Bool → Bytes → UpdClass) (i : Nat) :
    ∀ (f : Nat) (s : Sess) (buf : Bytes), Evo s (drain U f s i buf).1 := by
  intro f
  induction f with
  | zero => intro s buf; exact Evo.refl _
  | succ f ih =>
    intro s buf
    simp only [drain]
    cases hp : (parseBuffer U s i buf).2 with
    | none => exact ev_parseBuffer U s i buf
    | some rest => exact (ev_parseBuffer U s i buf).trans (ih _ rest)

end Sess

open Sess

/-- **every event** keeps the idle-hold bound and the identifier, and lets the connection table only grow -/
theorem evo_step (U : Bool → Bytes → UpdClass) (w : World) (e : Ev) : Evo w.sess (step U w e).sess := by
  have h0 : Evo w.sess (w.sess.withOuts []) := ev_withOuts _ _
  cases e with
  | boot => exact h0.trans (ev_autoStart _ _)
  | manualStart => exact h0.trans (ev_manualStart _)
  | manualStop => exact h0.trans (ev_manualStop _)
  | connOk c => exact h0.trans (ev_connOk _ c)
  | connFail c => exact h0.trans (ev_connFail _ c)
  | chunk c d => exact h0.trans (ev_drain U c _ _ _)
  | lost c => exact h0.trans (ev_connLost _ c)
  | advance dt => exact h0.trans (ev_withNow _ _ (Nat.le_add_right _ _))
  | fire t =>
    cases t with
    | retry => exact h0.trans (ev_fireRetry _)
    | hold => exact h0.trans (ev_fireHold _)
    | keepalive => exact h0.trans (ev_fireKeepalive _)
    | idleHold => exact h0.trans (ev_fireIdleHold _)

end Yabgp
