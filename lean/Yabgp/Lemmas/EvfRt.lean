/-
  Lemmas for C07 part b / C15: round trips and compositionality of the EVPN NLRI (Model/Mp/Evpn.lean), of the IPv4
  flow specification NLRI (Model/Mp/Flowspec.lean) and of their MP_REACH_NLRI / MP_UNREACH_NLRI branches
  (Model/Mp/EvfWrap.lean).  Sections: bytes and slices; EVPN fields (RD, ESI, IP, labels); EVPN routes and the route
  list; decimal text and splitting; flowspec operators text -> octets; octets -> text; components, rules; the list
  of rules; the attribute wrappers.  The property theorems themselves are in Props/C07b.lean.
-/
import Yabgp.Model.Mp.EvfWrap
import Mathlib.Tactic.IntervalCases

/-! ## part A -/

namespace Yabgp
open Yabgp.Evpn

/-! ### big-endian values of arbitrary width -/

theorem beVal_append_one (a : Bytes) (x : UInt8) : beVal (a ++ [x]) = beVal a * 256 + x.toNat := by
  simp [beVal, List.foldl_append]

theorem beVal_beN (k v : Nat) : beVal (beN k v) = v % 256 ^ k := by
  induction k generalizing v with
  | zero => simp [beN, beVal, Nat.mod_one]
  | succ k ih =>
    rw [beN, beVal_append_one, ih, u8_toNat_mod, Nat.pow_succ, Nat.mul_comm (256 ^ k) 256, Nat.mod_mul]
    omega

theorem beVal_beN_lt {k v : Nat} (h : v < 256 ^ k) : beVal (beN k v) = v := by
  rw [beVal_beN, Nat.mod_eq_of_lt h]

theorem be32_eq_beN (v : Nat) : be32 v = beN 4 v := by
  simp [be32, beN, Nat.div_div_eq_div_mul]

theorem be16_eq_beN (v : Nat) : be16 v = beN 2 v := by
  simp [be16, beN]

theorem beN_ne_nil {k v : Nat} (h : 0 < k) : beN k v ≠ [] := by
  intro hh
  have := beN_length k v
  rw [hh] at this
  simp at this; omega

theorem hexInt_beN {k v : Nat} (hk : 0 < k) (h : v < 256 ^ k) : hexInt (beN k v) = some v := by
  unfold hexInt
  split
  · rename_i hh; exact absurd hh (beN_ne_nil hk)
  · rw [beVal_beN_lt h]

/-! ### slices of concatenations -/

theorem slice_app_take {a r : Bytes} {n : Nat} (ha : a.length = n) : slice (a ++ r) 0 n = a := by
  subst ha; simp [slice]

theorem drop_app_skip {a r : Bytes} {n k : Nat} (ha : a.length = n) (hk : n ≤ k) :
    (a ++ r).drop k = r.drop (k - n) := by
  subst ha
  rw [List.drop_append]
  have : List.drop k a = [] := List.drop_eq_nil_of_le hk
  simp [this]

theorem slice_app_skip {a r : Bytes} {n i j : Nat} (ha : a.length = n) (hi : n ≤ i) :
    slice (a ++ r) i j = slice r (i - n) (j - n) := by
  unfold slice
  rw [List.drop_take, List.drop_take, drop_app_skip ha hi]
  congr 1
  omega

theorem take_app_exact {a r : Bytes} {n : Nat} (ha : a.length = n) : (a ++ r).take n = a := by
  subst ha; simp

theorem slice_zero_all {a : Bytes} {n : Nat} (ha : a.length ≤ n) : slice a 0 n = a := by
  simp [slice, List.take_of_length_le ha]

end Yabgp

/-! ## part B -/

namespace Yabgp
open Yabgp.Evpn

/-! ### in-range predicates (the value space of C07 for EVPN) -/

/-- RD types 0, 1, 2 with every field inside its width; the text `'a:b'` is type 0 for a ≤ 65535, else type 2 -/
def RdOk : Rd → Prop
  | .asn a b => (a ≤ 65535 ∧ b < 4294967296) ∨ (65535 < a ∧ a < 4294967296 ∧ b < 65536)
  | .ip i n => i < 4294967296 ∧ n < 65536
  | .raw _ => False

instance : DecidablePred RdOk := fun rd => by cases rd <;> unfold RdOk <;> infer_instance

/-- ESI types 0..5 with every field inside its width (type 0: 9 octets, type 3 local discriminator: 3 octets) -/
def EsiOk : Esi → Prop
  | .t0 v => v < 2 ^ 72
  | .t1 m k => m < 2 ^ 48 ∧ k < 65536
  | .t2 m k => m < 2 ^ 48 ∧ k < 65536
  | .t3 m ld => m < 2 ^ 48 ∧ ld < 16777216
  | .t4 a ld => a < 4294967296 ∧ ld < 4294967296
  | .t5 a ld => a < 4294967296 ∧ ld < 4294967296
  | .other _ => False

instance : DecidablePred EsiOk := fun e => by cases e <;> unfold EsiOk <;> infer_instance

def IpOk (ip : Ip) : Prop := if ip.v6 then ip.val < 2 ^ 128 else ip.val < 2 ^ 32

instance : DecidablePred IpOk := fun ip => by unfold IpOk; infer_instance

def OptIpOk : Option Ip → Prop
  | none => True
  | some ip => IpOk ip

instance : DecidablePred OptIpOk := fun ip => by cases ip <;> unfold OptIpOk <;> infer_instance

def LabelsOk (ls : List Nat) : Prop := ∀ l ∈ ls, l < 1048576

instance : DecidablePred LabelsOk := fun ls => by unfold LabelsOk; infer_instance

/-! ### route distinguisher -/

theorem rd_rt (rd : Rd) (h : RdOk rd) :
    ∃ w, constructRd rd = some w ∧ w.length = 8 ∧ parseRd w = some rd := by
  cases rd with
  | raw b => exact absurd h (by simp [RdOk])
  | ip i n =>
    obtain ⟨hi, hn⟩ := h
    refine ⟨be16 1 ++ be32 i ++ be16 n, by simp [constructRd, hi, hn], by simp, ?_⟩
    simp [parseRd, slice, be16, be32, unpackH, unpackIH, u8_toNat_mod]
    omega
  | asn a b =>
    rcases h with ⟨ha, hb⟩ | ⟨ha, ha2, hb⟩
    · refine ⟨be16 0 ++ be16 a ++ be32 b, by simp [constructRd, ha, hb], by simp, ?_⟩
      simp [parseRd, slice, be16, be32, unpackH, unpackHI, u8_toNat_mod]
      omega
    · refine ⟨be16 2 ++ be32 a ++ be16 b, ?_, by simp, ?_⟩
      · simp [constructRd, ha2, hb]; omega
      · simp [parseRd, slice, be16, be32, unpackH, unpackIH, u8_toNat_mod]
        omega

end Yabgp

namespace Yabgp
open Yabgp.Evpn

/-! ### Ethernet segment identifier -/

theorem hexDigits_unfold (n : Nat) : hexDigits n = if n < 16 then 1 else 1 + hexDigits (n / 16) := by
  rw [hexDigits]; split <;> simp_all

theorem hexDigits_le (k : Nat) : ∀ v, v < 16 ^ (k + 1) → hexDigits v ≤ k + 1 := by
  induction k with
  | zero => intro v hv; rw [hexDigits_unfold]; simp at hv; simp [hv]
  | succ k ih =>
    intro v hv
    rw [hexDigits_unfold]
    split
    · omega
    · have : v / 16 < 16 ^ (k + 1) := by
        rw [Nat.pow_succ] at hv
        exact Nat.div_lt_of_lt_mul (by rw [Nat.mul_comm]; exact hv)
      have := ih (v / 16) this
      omega

theorem mac6_ok {m : Nat} (h : m < 2 ^ 48) : mac6 m = some (beN 6 m) := by unfold mac6; rw [if_pos h]

theorem esi_rt (e : Esi) (h : EsiOk e) :
    ∃ w, constructEsi e = some w ∧ w.length = 10 ∧ parseEsi w = some e := by
  cases e with
  | other t => exact absurd h (by simp [EsiOk])
  | t0 v =>
    have hv : v < 2 ^ 72 := h
    have hd : hexDigits v ≤ 18 := hexDigits_le 17 v (by norm_num at hv ⊢; exact hv)
    refine ⟨0 :: beN 9 v, by simp [constructEsi, hd], by simp, ?_⟩
    have : hexInt (beN 9 v) = some v := hexInt_beN (by omega) (by norm_num at hv ⊢; exact hv)
    simp [parseEsi, slice, unpackB, this]
  | t1 m k =>
    obtain ⟨hm, hk⟩ := h
    refine ⟨[1] ++ beN 6 m ++ be16 k ++ [0], by simp [constructEsi, mac6_ok hm, hk], by simp, ?_⟩
    have e1 : slice ([1] ++ beN 6 m ++ be16 k ++ [0]) 1 7 = beN 6 m := by
      rw [List.append_assoc, List.append_assoc, slice_app_skip (n := 1) rfl (by omega)]
      exact slice_app_take (by simp)
    have e2 : slice ([1] ++ beN 6 m ++ be16 k ++ [0]) 7 9 = be16 k := by
      rw [List.append_assoc, slice_app_skip (a := [1] ++ beN 6 m) (n := 7) (by simp) (by omega)]
      exact slice_app_take (by simp)
    have e0 : slice ([1] ++ beN 6 m ++ be16 k ++ [0]) 0 1 = [1] := by
      rw [List.append_assoc, List.append_assoc]; exact slice_app_take rfl
    simp only [parseEsi, e0, e1, e2, unpackB, hexInt_beN (show 0 < 6 by omega) (show m < 256 ^ 6 by norm_num at hm ⊢; exact hm),
      unpackH_be16 hk]
    simp
  | t2 m k =>
    obtain ⟨hm, hk⟩ := h
    refine ⟨[2] ++ beN 6 m ++ be16 k ++ [0], by simp [constructEsi, mac6_ok hm, hk], by simp, ?_⟩
    have e1 : slice ([2] ++ beN 6 m ++ be16 k ++ [0]) 1 7 = beN 6 m := by
      rw [List.append_assoc, List.append_assoc, slice_app_skip (n := 1) rfl (by omega)]
      exact slice_app_take (by simp)
    have e2 : slice ([2] ++ beN 6 m ++ be16 k ++ [0]) 7 9 = be16 k := by
      rw [List.append_assoc, slice_app_skip (a := [2] ++ beN 6 m) (n := 7) (by simp) (by omega)]
      exact slice_app_take (by simp)
    have e0 : slice ([2] ++ beN 6 m ++ be16 k ++ [0]) 0 1 = [2] := by
      rw [List.append_assoc, List.append_assoc]; exact slice_app_take rfl
    simp only [parseEsi, e0, e1, e2, unpackB, hexInt_beN (show 0 < 6 by omega) (show m < 256 ^ 6 by norm_num at hm ⊢; exact hm),
      unpackH_be16 hk]
    simp
  | t3 m ld =>
    obtain ⟨hm, hl⟩ := h
    refine ⟨[3] ++ beN 6 m ++ be24 ld, ?_, by simp, ?_⟩
    · simp [constructEsi, mac6_ok hm]; omega
    have e1 : slice ([3] ++ beN 6 m ++ be24 ld) 1 7 = beN 6 m := by
      rw [List.append_assoc, slice_app_skip (n := 1) rfl (by omega)]
      exact slice_app_take (by simp)
    have e2 : ([3] ++ beN 6 m ++ be24 ld).drop 7 = be24 ld := by
      rw [drop_app_skip (a := [3] ++ beN 6 m) (n := 7) (by simp) (by omega)]; simp
    have e0 : slice ([3] ++ beN 6 m ++ be24 ld) 0 1 = [3] := by
      rw [List.append_assoc]; exact slice_app_take rfl
    have e3 : hexInt (be24 ld) = some ld := by
      simp [hexInt, be24, beVal, u8_toNat_mod]; omega
    simp only [parseEsi, e0, e1, e2, e3, unpackB, hexInt_beN (show 0 < 6 by omega) (show m < 256 ^ 6 by norm_num at hm ⊢; exact hm)]
    simp
  | t4 a ld =>
    obtain ⟨ha, hl⟩ := h
    refine ⟨[4] ++ be32 a ++ be32 ld ++ [0], by simp [constructEsi, ha, hl], by simp, ?_⟩
    have e1 : slice ([4] ++ be32 a ++ be32 ld ++ [0]) 1 5 = be32 a := by
      rw [List.append_assoc, List.append_assoc, slice_app_skip (n := 1) rfl (by omega)]
      exact slice_app_take (by simp)
    have e2 : slice ([4] ++ be32 a ++ be32 ld ++ [0]) 5 9 = be32 ld := by
      rw [List.append_assoc, slice_app_skip (a := [4] ++ be32 a) (n := 5) (by simp) (by omega)]
      exact slice_app_take (by simp)
    have e0 : slice ([4] ++ be32 a ++ be32 ld ++ [0]) 0 1 = [4] := by
      rw [List.append_assoc, List.append_assoc]; exact slice_app_take rfl
    have e3 : hexInt (be32 a) = some a := by
      rw [be32_eq_beN]; exact hexInt_beN (by omega) (by norm_num; exact ha)
    simp only [parseEsi, e0, e1, e2, e3, unpackB, unpackI_be32 hl]
    simp
  | t5 a ld =>
    obtain ⟨ha, hl⟩ := h
    refine ⟨[5] ++ be32 a ++ be32 ld ++ [0], by simp [constructEsi, ha, hl], by simp, ?_⟩
    have e1 : slice ([5] ++ be32 a ++ be32 ld ++ [0]) 1 5 = be32 a := by
      rw [List.append_assoc, List.append_assoc, slice_app_skip (n := 1) rfl (by omega)]
      exact slice_app_take (by simp)
    have e2 : slice ([5] ++ be32 a ++ be32 ld ++ [0]) 5 9 = be32 ld := by
      rw [List.append_assoc, slice_app_skip (a := [5] ++ be32 a) (n := 5) (by simp) (by omega)]
      exact slice_app_take (by simp)
    have e0 : slice ([5] ++ be32 a ++ be32 ld ++ [0]) 0 1 = [5] := by
      rw [List.append_assoc, List.append_assoc]; exact slice_app_take rfl
    have e3 : hexInt (be32 a) = some a := by
      rw [be32_eq_beN]; exact hexInt_beN (by omega) (by norm_num; exact ha)
    simp only [parseEsi, e0, e1, e2, e3, unpackB, unpackI_be32 hl]
    simp

end Yabgp

/-! ## part C -/

namespace Yabgp
open Yabgp.Evpn

/-! ### IP address fields -/

theorem parseIp_be32 {v : Nat} (h : v < 2 ^ 32) : parseIp (be32 v) = some { v6 := false, val := v } := by
  have hv : beVal (be32 v) = v := by rw [be32_eq_beN]; exact beVal_beN_lt (by norm_num at h ⊢; exact h)
  simp [parseIp, be32] 
  simpa [be32] using hv

theorem parseIp_beN16 {v : Nat} (h : v < 2 ^ 128) : parseIp (beN 16 v) = some { v6 := true, val := v } := by
  have hv : beVal (beN 16 v) = v := beVal_beN_lt (by norm_num at h ⊢; exact h)
  unfold parseIp
  split
  · rename_i hh; exact absurd hh (beN_ne_nil (by omega))
  · simp [hv]; norm_num at h; exact h

/-- octets of an optional IP address field behind its length octet -/
def ipLen : Option Ip → Nat
  | none => 0
  | some ip => if ip.v6 then 16 else 4

theorem ipfield_rt (ip : Option Ip) (h : OptIpOk ip) :
    ∃ l body, constructIpField ip = some (l :: body) ∧ l.toNat / 8 = body.length ∧ body.length = ipLen ip ∧
      (∀ rest, parseIpField [l] (body ++ rest) = some ip) := by
  cases ip with
  | none => exact ⟨0, [], rfl, rfl, rfl, fun rest => by simp [parseIpField]⟩
  | some ip =>
    obtain ⟨v6, val⟩ := ip
    cases v6
    · have hv : val < 2 ^ 32 := by simpa [OptIpOk, IpOk] using h
      refine ⟨u8 32, be32 val, ?_, by simp [u8_toNat_mod], by simp [ipLen], fun rest => ?_⟩
      · simp [constructIpField, ipPacked]; omega
      · have : (be32 val ++ rest).take 4 = be32 val := take_app_exact (by simp)
        simp [parseIpField, u8_toNat_mod, this, parseIp_be32 hv]
    · have hv : val < 2 ^ 128 := by simpa [OptIpOk, IpOk] using h
      refine ⟨u8 128, beN 16 val, ?_, by simp [u8_toNat_mod], by simp [ipLen], fun rest => ?_⟩
      · simp [constructIpField, ipPacked]; omega
      · have : (beN 16 val ++ rest).take 16 = beN 16 val := take_app_exact (by simp)
        simp [parseIpField, u8_toNat_mod, this, parseIp_beN16 hv]

theorem ipPacked_rt' (ip : Ip) (h : IpOk ip) :
    ∃ nb, ipPacked ip = some nb ∧ nb.length = (if ip.v6 then 16 else 4) ∧ parseIp nb = some ip := by
  obtain ⟨v6, val⟩ := ip
  cases v6
  · have hv : val < 2 ^ 32 := by simpa [IpOk] using h
    refine ⟨be32 val, ?_, by simp, parseIp_be32 hv⟩
    simp only [ipPacked, Bool.false_eq_true, ↓reduceIte]; rw [if_pos hv]
  · have hv : val < 2 ^ 128 := by simpa [IpOk] using h
    refine ⟨beN 16 val, ?_, by simp, parseIp_beN16 hv⟩
    simp only [ipPacked, ↓reduceIte]; rw [if_pos hv]

/-! ### label stacks -/

theorem constructLabels_single (l : Nat) :
    constructLabels [l] =
      if l ≠ 0 then (if l * 16 + 1 < 4294967296 then some (be24 (l * 16 + 1)) else none) else some [0, 0, 0] := by
  simp [constructLabels, constructInitLabels]

theorem constructLabels_cons2 (l l' : Nat) (r : List Nat) :
    constructLabels (l :: l' :: r) =
      if l * 16 < 4294967296 then (constructLabels (l' :: r)).map (be24 (l * 16) ++ ·) else none := by
  simp only [constructLabels, List.getLast?_cons_cons, List.dropLast_cons_cons, constructInitLabels]
  cases hl : (l' :: r).getLast? with
  | none => simp at hl
  | some last =>
    simp only
    by_cases h16 : l * 16 < 4294967296
    · simp only [h16, ↓reduceIte]
      cases constructInitLabels (l' :: r).dropLast with
      | none => simp
      | some ini =>
        simp only [Option.map_some]
        by_cases h0 : last = 0
        · simp [h0]
        · simp only [ne_eq, h0, not_false_eq_true, ↓reduceIte]
          split <;> simp
    · simp [h16]

theorem parseLabels_step (l : Nat) (h : l < 1048576) (rest : Bytes) :
    parseLabels (be24 (l * 16) ++ rest) = l :: parseLabels rest := by
  simp only [be24, List.cons_append, List.nil_append, parseLabels, u8_toNat_mod]
  rw [if_neg (by omega)]
  congr 1
  omega

theorem labels_rt (ls : List Nat) (h : LabelsOk ls) (hne : ls ≠ []) :
    ∃ w, constructLabels ls = some w ∧ parseLabels w = ls ∧ w.length = 3 * ls.length := by
  induction ls with
  | nil => exact absurd rfl hne
  | cons l r ih =>
    have hl : l < 1048576 := h l (by simp)
    cases r with
    | nil =>
      rw [constructLabels_single]
      by_cases h0 : l = 0
      · subst h0; exact ⟨[0, 0, 0], by simp, by simp [parseLabels], by simp⟩
      · refine ⟨be24 (l * 16 + 1), by simp [h0]; omega, ?_, by simp⟩
        simp only [be24, parseLabels, u8_toNat_mod]
        rw [if_pos (by omega)]
        congr 1
        omega
    | cons l' r' =>
      obtain ⟨w, hw, hp, hlen⟩ := ih (fun x hx => h x (by simp [hx])) (by simp)
      refine ⟨be24 (l * 16) ++ w, ?_, ?_, ?_⟩
      · rw [constructLabels_cons2, if_pos (by omega), hw]; rfl
      · rw [parseLabels_step l hl, hp]
      · simp [hlen]; omega

end Yabgp

/-! ## part D -/

namespace Yabgp
open Yabgp.Evpn

theorem slice_mid' {p x s : Bytes} {i j : Nat} (hi : i = p.length) (hj : j = p.length + x.length) :
    slice (p ++ x ++ s) i j = x := by
  subst hi; subst hj
  unfold slice
  rw [List.take_left' (l₁ := p ++ x) (by simp)]
  exact List.drop_left' rfl

theorem drop_mid' {p s : Bytes} {i : Nat} (hi : i = p.length) : (p ++ s).drop i = s := by
  subst hi; simp

/-- octets of the value of an in-range route (what its 1-octet length field has to hold) -/
def routeLen : Route → Nat
  | .t1 _ _ _ label => 22 + 3 * label.length
  | .t2 _ _ _ _ ip label => 30 + ipLen ip + 3 * label.length
  | .t3 _ _ ip => 13 + ipLen ip
  | .t4 _ _ ip => 19 + ipLen ip
  | _ => 0

/-- the value space of C07 for EVPN routes: types 1-4, every field inside its width, and the route fits the
    1-octet length of its entry (at most 77 labels for type 1, 66..75 for type 2) -/
def RouteOk : Route → Prop
  | .t1 rd esi tag label =>
      RdOk rd ∧ EsiOk esi ∧ tag < 4294967296 ∧ LabelsOk label ∧ label ≠ [] ∧ 22 + 3 * label.length < 256
  | .t2 rd esi tag mac ip label =>
      RdOk rd ∧ EsiOk esi ∧ tag < 4294967296 ∧ mac < 2 ^ 48 ∧ OptIpOk ip ∧ LabelsOk label ∧
      30 + ipLen ip + 3 * label.length < 256
  | .t3 rd tag ip => RdOk rd ∧ tag < 4294967296 ∧ OptIpOk ip
  | .t4 rd esi ip => RdOk rd ∧ EsiOk esi ∧ OptIpOk ip
  | .t5 .. => False
  | .t5c .. => False
  | .unk _ => False

instance : DecidablePred RouteOk := fun r => by cases r <;> unfold RouteOk <;> infer_instance

theorem t1_rt (rd : Rd) (esi : Esi) (tag : Nat) (label : List Nat)
    (h : RouteOk (.t1 rd esi tag label)) :
    ∃ w, constructT1 rd esi tag label = some w ∧ w.length = routeLen (.t1 rd esi tag label) ∧
      parseT1 w = some (.t1 rd esi tag label) := by
  obtain ⟨hrd, hesi, htag, hl, hne, _⟩ := h
  obtain ⟨a, ha, hal, hap⟩ := rd_rt rd hrd
  obtain ⟨b, hb, hbl, hbp⟩ := esi_rt esi hesi
  obtain ⟨d, hd, hdp, hdl⟩ := labels_rt label hl hne
  refine ⟨a ++ b ++ be32 tag ++ d, by simp [constructT1, ha, hb, hd, htag], ?_, ?_⟩
  · simp [routeLen, hal, hbl, hdl]; omega
  have e1 : slice (a ++ b ++ be32 tag ++ d) 0 8 = a := by
    have := slice_mid' (p := []) (x := a) (s := b ++ be32 tag ++ d) (i := 0) (j := 8) rfl (by simp [hal])
    simpa [List.append_assoc] using this
  have e2 : slice (a ++ b ++ be32 tag ++ d) 8 18 = b := by
    have := slice_mid' (p := a) (x := b) (s := be32 tag ++ d) (i := 8) (j := 18) (by simp [hal]) (by simp [hal, hbl])
    simpa [List.append_assoc] using this
  have e3 : slice (a ++ b ++ be32 tag ++ d) 18 22 = be32 tag := by
    have := slice_mid' (p := a ++ b) (x := be32 tag) (s := d) (i := 18) (j := 22) (by simp [hal, hbl]) (by simp [hal, hbl])
    simpa [List.append_assoc] using this
  have e4 : (a ++ b ++ be32 tag ++ d).drop 22 = d := drop_mid' (by simp [hal, hbl])
  simp only [parseT1, e1, e2, e3, e4, hap, hbp, unpackI_be32 htag, hdp]

theorem t3_rt (rd : Rd) (tag : Nat) (ip : Option Ip) (h : RouteOk (.t3 rd tag ip)) :
    ∃ w, constructT3 rd tag ip = some w ∧ w.length = routeLen (.t3 rd tag ip) ∧ parseT3 w = some (.t3 rd tag ip) := by
  obtain ⟨hrd, htag, hip⟩ := h
  obtain ⟨a, ha, hal, hap⟩ := rd_rt rd hrd
  obtain ⟨l, body, hi, _, hbl', hpi⟩ := ipfield_rt ip hip
  refine ⟨a ++ be32 tag ++ (l :: body), by simp [constructT3, ha, hi, htag], ?_, ?_⟩
  · simp [routeLen, hal, hbl']; omega
  have e1 : slice (a ++ be32 tag ++ (l :: body)) 0 8 = a := by
    have := slice_mid' (p := []) (x := a) (s := be32 tag ++ (l :: body)) (i := 0) (j := 8) rfl (by simp [hal])
    simpa [List.append_assoc] using this
  have e2 : slice (a ++ be32 tag ++ (l :: body)) 8 12 = be32 tag := by
    have := slice_mid' (p := a) (x := be32 tag) (s := l :: body) (i := 8) (j := 12) (by simp [hal]) (by simp [hal])
    simpa [List.append_assoc] using this
  have e3 : slice (a ++ be32 tag ++ (l :: body)) 12 13 = [l] := by
    have := slice_mid' (p := a ++ be32 tag) (x := [l]) (s := body) (i := 12) (j := 13) (by simp [hal]) (by simp [hal])
    simpa [List.append_assoc] using this
  have e4 : (a ++ be32 tag ++ (l :: body)).drop 13 = body := by
    have := drop_mid' (p := a ++ be32 tag ++ [l]) (s := body) (i := 13) (by simp [hal])
    simpa [List.append_assoc] using this
  have hp := hpi []
  simp only [List.append_nil] at hp
  simp only [parseT3, e1, e2, e3, e4, hap, unpackI_be32 htag, hp]

theorem t4_rt (rd : Rd) (esi : Esi) (ip : Option Ip) (h : RouteOk (.t4 rd esi ip)) :
    ∃ w, constructT4 rd esi ip = some w ∧ w.length = routeLen (.t4 rd esi ip) ∧ parseT4 w = some (.t4 rd esi ip) := by
  obtain ⟨hrd, hesi, hip⟩ := h
  obtain ⟨a, ha, hal, hap⟩ := rd_rt rd hrd
  obtain ⟨b, hb, hbl, hbp⟩ := esi_rt esi hesi
  obtain ⟨l, body, hi, _, hbl', hpi⟩ := ipfield_rt ip hip
  refine ⟨a ++ b ++ (l :: body), by simp [constructT4, ha, hb, hi], ?_, ?_⟩
  · simp [routeLen, hal, hbl, hbl']; omega
  have e1 : slice (a ++ b ++ (l :: body)) 0 8 = a := by
    have := slice_mid' (p := []) (x := a) (s := b ++ (l :: body)) (i := 0) (j := 8) rfl (by simp [hal])
    simpa [List.append_assoc] using this
  have e2 : slice (a ++ b ++ (l :: body)) 8 18 = b := by
    have := slice_mid' (p := a) (x := b) (s := l :: body) (i := 8) (j := 18) (by simp [hal]) (by simp [hal, hbl])
    simpa [List.append_assoc] using this
  have e3 : slice (a ++ b ++ (l :: body)) 18 19 = [l] := by
    have := slice_mid' (p := a ++ b) (x := [l]) (s := body) (i := 18) (j := 19) (by simp [hal, hbl]) (by simp [hal, hbl])
    simpa [List.append_assoc] using this
  have e4 : (a ++ b ++ (l :: body)).drop 19 = body := by
    have := drop_mid' (p := a ++ b ++ [l]) (s := body) (i := 19) (by simp [hal, hbl])
    simpa [List.append_assoc] using this
  have hp := hpi []
  simp only [List.append_nil] at hp
  simp only [parseT4, e1, e2, e3, e4, hap, hbp, hp]

theorem t2_rt (rd : Rd) (esi : Esi) (tag mac : Nat) (ip : Option Ip) (label : List Nat)
    (h : RouteOk (.t2 rd esi tag mac ip label)) :
    ∃ w, constructT2 rd esi tag mac ip label = some w ∧ w.length = routeLen (.t2 rd esi tag mac ip label) ∧
      parseT2 w = some (.t2 rd esi tag mac ip label) := by
  obtain ⟨hrd, hesi, htag, hmac, hip, hl, _⟩ := h
  obtain ⟨a, ha, hal, hap⟩ := rd_rt rd hrd
  obtain ⟨b, hb, hbl, hbp⟩ := esi_rt esi hesi
  obtain ⟨l, body, hi, hlb, hbl', hpi⟩ := ipfield_rt ip hip
  have hlab : ∃ d, (if label = [] then some [] else constructLabels label) = some d ∧ parseLabels d = label ∧
      d.length = 3 * label.length := by
    by_cases hne : label = []
    · subst hne; exact ⟨[], by simp, by simp [parseLabels], rfl⟩
    · obtain ⟨d, hd, hdp, hdl⟩ := labels_rt label hl hne
      exact ⟨d, by simp [hne, hd], hdp, hdl⟩
  obtain ⟨d, hd, hdp, hdl⟩ := hlab
  have hm6 : (beN 6 mac).length = 6 := by simp
  refine ⟨a ++ b ++ be32 tag ++ [48] ++ beN 6 mac ++ (l :: body) ++ d, ?_, ?_, ?_⟩
  · simp only [constructT2, ha, hb, mac6_ok hmac, hi, hd, htag, ↓reduceIte]
  · simp [routeLen, hal, hbl, hbl', hdl]; omega
  have e1 : slice (a ++ b ++ be32 tag ++ [48] ++ beN 6 mac ++ (l :: body) ++ d) 0 8 = a := by
    have := slice_mid' (p := []) (x := a) (s := b ++ be32 tag ++ [48] ++ beN 6 mac ++ (l :: body) ++ d) (i := 0) (j := 8) rfl
      (by simp [hal])
    simpa [List.append_assoc] using this
  have e2 : slice (a ++ b ++ be32 tag ++ [48] ++ beN 6 mac ++ (l :: body) ++ d) 8 18 = b := by
    have := slice_mid' (p := a) (x := b) (s := be32 tag ++ [48] ++ beN 6 mac ++ (l :: body) ++ d) (i := 8) (j := 18)
      (by simp [hal]) (by simp [hal, hbl])
    simpa [List.append_assoc] using this
  have e3 : slice (a ++ b ++ be32 tag ++ [48] ++ beN 6 mac ++ (l :: body) ++ d) 18 22 = be32 tag := by
    have := slice_mid' (p := a ++ b) (x := be32 tag) (s := [48] ++ beN 6 mac ++ (l :: body) ++ d) (i := 18) (j := 22)
      (by simp [hal, hbl]) (by simp [hal, hbl])
    simpa [List.append_assoc] using this
  have e4 : slice (a ++ b ++ be32 tag ++ [48] ++ beN 6 mac ++ (l :: body) ++ d) 23 29 = beN 6 mac := by
    have := slice_mid' (p := a ++ b ++ be32 tag ++ [48]) (x := beN 6 mac) (s := (l :: body) ++ d) (i := 23) (j := 29)
      (by simp [hal, hbl]) (by simp [hal, hbl])
    simpa [List.append_assoc] using this
  have e5 : slice (a ++ b ++ be32 tag ++ [48] ++ beN 6 mac ++ (l :: body) ++ d) 29 30 = [l] := by
    have := slice_mid' (p := a ++ b ++ be32 tag ++ [48] ++ beN 6 mac) (x := [l]) (s := body ++ d) (i := 29) (j := 30)
      (by simp [hal, hbl]) (by simp [hal, hbl])
    simpa [List.append_assoc] using this
  have e6 : (a ++ b ++ be32 tag ++ [48] ++ beN 6 mac ++ (l :: body) ++ d).drop 30 = body ++ d := by
    have := drop_mid' (p := a ++ b ++ be32 tag ++ [48] ++ beN 6 mac ++ [l]) (s := body ++ d) (i := 30) (by simp [hal, hbl])
    simpa [List.append_assoc] using this
  have e7 : (a ++ b ++ be32 tag ++ [48] ++ beN 6 mac ++ (l :: body) ++ d).drop (30 + l.toNat / 8) = d := by
    have := drop_mid' (p := a ++ b ++ be32 tag ++ [48] ++ beN 6 mac ++ [l] ++ body) (s := d) (i := 30 + l.toNat / 8)
      (by simp [hal, hbl, hlb]; omega)
    simpa [List.append_assoc] using this
  have hmacv : hexInt (beN 6 mac) = some mac := hexInt_beN (by omega) (by norm_num at hmac ⊢; exact hmac)
  simp only [parseT2, t2LabelOffset, e1, e2, e3, e4, e5, e6, e7, hap, hbp, unpackI_be32 htag, hmacv, hpi d, hdp]

end Yabgp

namespace Yabgp
open Yabgp.Evpn

/-! ### the route list -/

theorem parseRoutes_nil : parseRoutes [] = some [] := by rw [parseRoutes]

theorem parseRoutes_cons2 (t l : UInt8) (rest : Bytes) :
    parseRoutes (t :: l :: rest) =
      match decodeRoute t.toNat (rest.take l.toNat) with
      | .err => none
      | .skip => parseRoutes (rest.drop l.toNat)
      | .ok r => (parseRoutes (rest.drop l.toNat)).map (r :: ·) := by
  rw [parseRoutes]
  cases decodeRoute t.toNat (List.take l.toNat rest) <;> rfl

/-- one type-length-value entry in front of anything: what the loop does with it depends only on the entry -/
theorem parseRoutes_tlv (t : Nat) (body rest : Bytes) (ht : t < 256) (hb : body.length < 256) :
    parseRoutes (u8 t :: u8 body.length :: (body ++ rest)) =
      match decodeRoute t body with
      | .err => none
      | .skip => parseRoutes rest
      | .ok r => (parseRoutes rest).map (r :: ·) := by
  rw [parseRoutes_cons2, u8_toNat ht, u8_toNat hb]
  simp

theorem decodeRoute_value (r : Route) (h : RouteOk r) :
    ∃ v, constructRouteValue r = some v ∧ v.length = routeLen r ∧ 0 < routeLen r ∧ routeLen r < 256 ∧
      decodeRoute r.type v = .ok r ∧ r.type < 256 := by
  cases r with
  | t1 rd esi tag label =>
    obtain ⟨w, hc, hl, hp⟩ := t1_rt rd esi tag label h
    exact ⟨w, hc, hl, by simp [routeLen], h.2.2.2.2.2, by simp [decodeRoute, Route.type, hp], by simp [Route.type]⟩
  | t2 rd esi tag mac ip label =>
    obtain ⟨w, hc, hl, hp⟩ := t2_rt rd esi tag mac ip label h
    exact ⟨w, hc, hl, by simp [routeLen], h.2.2.2.2.2.2, by simp [decodeRoute, Route.type, hp], by simp [Route.type]⟩
  | t3 rd tag ip =>
    obtain ⟨w, hc, hl, hp⟩ := t3_rt rd tag ip h
    refine ⟨w, hc, hl, by simp [routeLen], ?_, by simp [decodeRoute, Route.type, hp], by simp [Route.type]⟩
    cases ip with
    | none => simp [routeLen, ipLen]
    | some ip => simp only [routeLen, ipLen]; split <;> omega
  | t4 rd esi ip =>
    obtain ⟨w, hc, hl, hp⟩ := t4_rt rd esi ip h
    refine ⟨w, hc, hl, by simp [routeLen], ?_, by simp [decodeRoute, Route.type, hp], by simp [Route.type]⟩
    cases ip with
    | none => simp [routeLen, ipLen]
    | some ip => simp only [routeLen, ipLen]; split <;> omega
  | t5 => exact absurd h (by simp [RouteOk])
  | t5c => exact absurd h (by simp [RouteOk])
  | unk => exact absurd h (by simp [RouteOk])

/-- one in-range route: `EVPN.construct` writes type, length and value, and in front of anything the entry decodes
    to the route, then the rest -/
theorem parseRoutes_route (r : Route) (h : RouteOk r) :
    ∃ w, constructRoute r = some w ∧ w.length = 2 + routeLen r ∧
      ∀ rest, parseRoutes (w ++ rest) = (parseRoutes rest).map (r :: ·) := by
  obtain ⟨v, hv, hvl, hpos, hlt, hd, ht⟩ := decodeRoute_value r h
  cases v with
  | nil => simp at hvl; omega
  | cons x xs =>
    refine ⟨u8 r.type :: u8 (x :: xs).length :: (x :: xs), ?_, by simp [← hvl]; omega, fun rest => ?_⟩
    · unfold constructRoute
      rw [hv]
      simp only
      rw [if_pos ⟨ht, by rw [hvl]; exact hlt⟩]
    · have := parseRoutes_tlv r.type (x :: xs) rest ht (by rw [hvl]; exact hlt)
      simp only [List.cons_append] at this ⊢
      rw [this, hd]

/-- octets of the encoding of a list of in-range routes -/
def routesLen (rs : List Route) : Nat := (rs.map fun r => 2 + routeLen r).sum

theorem parseRoutes_list (rs : List Route) (hok : ∀ r ∈ rs, RouteOk r) :
    ∃ w, constructRoutes rs = some w ∧ w.length = routesLen rs ∧
      ∀ rest, parseRoutes (w ++ rest) = (parseRoutes rest).map (rs ++ ·) := by
  induction rs with
  | nil =>
    refine ⟨[], rfl, rfl, fun rest => ?_⟩
    cases h : parseRoutes rest <;> simp [h]
  | cons r rs ih =>
    obtain ⟨w1, h1, hl1, hp1⟩ := parseRoutes_route r (hok r (by simp))
    obtain ⟨w2, h2, hl2, hp2⟩ := ih (fun q hq => hok q (by simp [hq]))
    refine ⟨w1 ++ w2, by simp [constructRoutes, h1, h2], by simp [routesLen, hl1, hl2] , fun rest => ?_⟩
    rw [List.append_assoc, hp1, hp2]
    cases h : parseRoutes rest <;> simp

/-- an entry of a route type the decoder does not know, anywhere in the list, changes nothing -/
theorem parseRoutes_unknown (t : Nat) (body rest : Bytes) (ht : t < 256) (hb : body.length < 256)
    (hu : t ∉ [1, 2, 3, 4, 5]) :
    parseRoutes (u8 t :: u8 body.length :: (body ++ rest)) = parseRoutes rest := by
  rw [parseRoutes_tlv t body rest ht hb]
  simp only [List.mem_cons, List.not_mem_nil, or_false, not_or] at hu
  simp [decodeRoute, hu]

end Yabgp

namespace Yabgp
open Yabgp.Evpn

/-! ### route type 5 (IP prefix): the shape `construct` takes differs from the shape `parse` returns -/

theorem esi_zero_double : parseEsi ([0, 0] ++ beN 8 0) = some (Esi.t0 0) := by decide

/-- type 5 decodes back only in this corner: ESI number 0 (packed as an IEEE double by `construct`), prefix and
    gateway of the same family, exactly ONE label (the decoder derives the address width from the total length) -/
theorem t5_rt (rd : Rd) (tag plen l : Nat) (pfx gw : Ip) (hrd : RdOk rd) (htag : tag < 4294967296)
    (hplen : plen < 256) (hp : IpOk pfx) (hg : IpOk gw) (hfam : pfx.v6 = gw.v6) (hl : l < 1048576) :
    ∃ w, constructT5 rd 0 tag pfx plen gw [l] = some w ∧ parseT5 w = some (.t5 rd (.t0 0) tag pfx plen gw [l]) := by
  obtain ⟨a, ha, hal, hap⟩ := rd_rt rd hrd
  obtain ⟨p, hpp, hpl, hppar⟩ := ipPacked_rt' pfx hp
  obtain ⟨g, hgp, hgl, hgpar⟩ := ipPacked_rt' gw hg
  obtain ⟨d, hd, hdp, hdl⟩ := labels_rt [l] (fun x hx => by simp at hx; subst hx; exact hl) (by simp)
  simp only [List.length_cons, List.length_nil] at hdl
  have hk : g.length = p.length := by rw [hpl, hgl, hfam]
  have hw : (p ++ g ++ d).length = 11 ∧ p.length = 4 ∨ (p ++ g ++ d).length = 35 ∧ p.length = 16 := by
    simp only [List.length_append, hk, hdl]
    rw [hpl]; split <;> simp
  refine ⟨a ++ [0, 0] ++ beN 8 0 ++ be32 tag ++ [u8 plen] ++ p ++ g ++ d, ?_, ?_⟩
  · simp [constructT5, ha, packDouble, hpp, hgp, hd, htag, hplen]
  have e1 : slice (a ++ [0, 0] ++ beN 8 0 ++ be32 tag ++ [u8 plen] ++ p ++ g ++ d) 0 8 = a := by
    have := slice_mid' (p := []) (x := a) (s := [0, 0] ++ beN 8 0 ++ be32 tag ++ [u8 plen] ++ p ++ g ++ d) (i := 0) (j := 8) rfl
      (by simp [hal])
    simpa [List.append_assoc] using this
  have e2 : slice (a ++ [0, 0] ++ beN 8 0 ++ be32 tag ++ [u8 plen] ++ p ++ g ++ d) 8 18 = [0, 0] ++ beN 8 0 := by
    have := slice_mid' (p := a) (x := [0, 0] ++ beN 8 0) (s := be32 tag ++ [u8 plen] ++ p ++ g ++ d) (i := 8) (j := 18)
      (by simp [hal]) (by simp [hal])
    simpa [List.append_assoc] using this
  have e3 : slice (a ++ [0, 0] ++ beN 8 0 ++ be32 tag ++ [u8 plen] ++ p ++ g ++ d) 18 22 = be32 tag := by
    have := slice_mid' (p := a ++ [0, 0] ++ beN 8 0) (x := be32 tag) (s := [u8 plen] ++ p ++ g ++ d) (i := 18) (j := 22)
      (by simp [hal]) (by simp [hal])
    simpa [List.append_assoc] using this
  have e4 : slice (a ++ [0, 0] ++ beN 8 0 ++ be32 tag ++ [u8 plen] ++ p ++ g ++ d) 22 23 = [u8 plen] := by
    have := slice_mid' (p := a ++ [0, 0] ++ beN 8 0 ++ be32 tag) (x := [u8 plen]) (s := p ++ g ++ d) (i := 22) (j := 23)
      (by simp [hal]) (by simp [hal])
    simpa [List.append_assoc] using this
  have e5 : (a ++ [0, 0] ++ beN 8 0 ++ be32 tag ++ [u8 plen] ++ p ++ g ++ d).drop 23 = p ++ g ++ d := by
    have := drop_mid' (p := a ++ [0, 0] ++ beN 8 0 ++ be32 tag ++ [u8 plen]) (s := p ++ g ++ d) (i := 23) (by simp [hal])
    simpa [List.append_assoc] using this
  have hwid : t5Width (p ++ g ++ d) = p.length := by
    unfold t5Width
    rcases hw with ⟨h1, h2⟩ | ⟨h1, h2⟩
    · rw [if_pos h1, h2]
    · rw [if_neg (by omega), if_pos h1, h2]
  have f1 : (p ++ g ++ d).take p.length = p := by rw [List.append_assoc]; exact take_app_exact rfl
  have f2 : ((p ++ g ++ d).drop p.length).take p.length = g := by
    rw [List.append_assoc, List.drop_left' rfl, ← hk]; exact take_app_exact rfl
  have f3 : ((p ++ g ++ d).drop p.length).drop p.length = d := by
    rw [List.append_assoc, List.drop_left' rfl, ← hk, List.drop_left' rfl]
  simp only [parseT5, e1, e2, e3, e4, e5, hwid, f1, f2, f3, hap, esi_zero_double, unpackI_be32 htag, unpackB,
    u8_toNat hplen, hppar, hgpar, hdp]

end Yabgp

/-! ## part E -/

namespace Yabgp
open Yabgp.Text

/-! ### decimal numerals -/

def IsDig (c : Char) : Prop := 48 ≤ c.toNat ∧ c.toNat ≤ 57

theorem decRev_unfold (n : Nat) :
    decRev n = if n < 10 then [digitChar n] else digitChar (n % 10) :: decRev (n / 10) := by
  rw [decRev]; split <;> simp_all

theorem digitChar_spec (d : Nat) (h : d < 10) : IsDig (digitChar d) ∧ digitVal (digitChar d) = some d := by
  interval_cases d <;> (unfold IsDig; decide)

theorem decRev_dig (n : Nat) : ∀ c ∈ decRev n, IsDig c := by
  induction n using Nat.strong_induction_on with
  | _ n ih =>
    rw [decRev_unfold]
    split
    · intro c hc; simp at hc; subst hc; exact (digitChar_spec n (by omega)).1
    · intro c hc
      simp only [List.mem_cons] at hc
      rcases hc with rfl | hc
      · exact (digitChar_spec (n % 10) (by omega)).1
      · exact ih (n / 10) (by omega) c hc

theorem decStr_dig (n : Nat) : ∀ c ∈ decStr n, IsDig c := by
  intro c hc
  exact decRev_dig n c (by simpa [decStr] using hc)

theorem decStr_ne_nil (n : Nat) : decStr n ≠ [] := by
  unfold decStr
  rw [decRev_unfold]
  split <;> simp

theorem decStr_step (n : Nat) (h : ¬ n < 10) : decStr n = decStr (n / 10) ++ [digitChar (n % 10)] := by
  unfold decStr
  conv => lhs; rw [decRev_unfold]
  simp [h]

theorem decStr_small (n : Nat) (h : n < 10) : decStr n = [digitChar n] := by
  unfold decStr
  rw [decRev_unfold]
  simp [h]

theorem parseDecAux_snoc (acc : Nat) (s : List Char) (c : Char) :
    parseDecAux acc (s ++ [c]) =
      match parseDecAux acc s with
      | some a => (match digitVal c with | some d => some (a * 10 + d) | none => none)
      | none => none := by
  induction s generalizing acc with
  | nil => simp [parseDecAux]; cases digitVal c <;> rfl
  | cons x r ih =>
    simp only [List.cons_append, parseDecAux]
    cases digitVal x with
    | none => rfl
    | some d => exact ih _

theorem parseDecAux_decStr (n : Nat) : parseDecAux 0 (decStr n) = some n := by
  induction n using Nat.strong_induction_on with
  | _ n ih =>
    by_cases h : n < 10
    · rw [decStr_small n h]
      simp [parseDecAux, (digitChar_spec n h).2]
    · rw [decStr_step n h, parseDecAux_snoc, ih (n / 10) (by omega), (digitChar_spec (n % 10) (by omega)).2]
      simp; omega

theorem parseDec_decStr (n : Nat) : parseDec (decStr n) = some n := by
  unfold parseDec
  split
  · rename_i h; exact absurd h (decStr_ne_nil n)
  · exact parseDecAux_decStr n

/-! ### split -/

theorem splitOnFirst_none {sep : Char} : ∀ {s : List Char}, sep ∉ s → splitOnFirst sep s = none := by
  intro s
  induction s with
  | nil => intro _; rfl
  | cons c r ih =>
    intro h
    simp only [List.mem_cons, not_or] at h
    simp only [splitOnFirst]
    rw [if_neg (fun hh => h.1 hh.symm), ih h.2]

theorem splitOnFirst_hit {sep : Char} : ∀ {a : List Char} (b : List Char), sep ∉ a →
    splitOnFirst sep (a ++ sep :: b) = some (a, b) := by
  intro a
  induction a with
  | nil => intro b _; simp [splitOnFirst]
  | cons c r ih =>
    intro b h
    simp only [List.mem_cons, not_or] at h
    simp only [List.cons_append, splitOnFirst]
    rw [if_neg (fun hh => h.1 hh.symm), ih b h.2]

theorem splitAll_unfold (sep : Char) (s : List Char) :
    splitAll sep s =
      match splitOnFirst sep s with
      | none => [s]
      | some (a, b) => a :: splitAll sep b := by
  rw [splitAll]
  split <;> simp_all

/-- `sep.join(xs)` -/
def joinWith (sep : Char) : List (List Char) → List Char
  | [] => []
  | [x] => x
  | x :: y :: r => x ++ sep :: joinWith sep (y :: r)

theorem splitAll_join (sep : Char) (xs : List (List Char)) (hne : xs ≠ []) (h : ∀ x ∈ xs, sep ∉ x) :
    splitAll sep (joinWith sep xs) = xs := by
  induction xs with
  | nil => exact absurd rfl hne
  | cons x r ih =>
    cases r with
    | nil =>
      rw [joinWith, splitAll_unfold, splitOnFirst_none (h x (by simp))]
    | cons y r' =>
      rw [joinWith, splitAll_unfold, splitOnFirst_hit _ (h x (by simp))]
      simp only
      rw [ih (by simp) (fun z hz => h z (by simp [hz]))]

end Yabgp

/-! ## part F -/

namespace Yabgp
open Yabgp.Text Yabgp.Flowspec

/-! ### the structured values behind an operator text -/

/-- the five supported comparison operators -/
inductive Op where
  | eq | gt | lt | ge | le
  deriving DecidableEq, Repr

def Op.sym : Op → List Char
  | .eq => ['='] | .gt => ['>'] | .lt => ['<'] | .ge => ['>', '='] | .le => ['<', '=']
def Op.eqB : Op → Bool | .eq => true | .ge => true | .le => true | _ => false
def Op.gtB : Op → Bool | .gt => true | .ge => true | _ => false
def Op.ltB : Op → Bool | .lt => true | .le => true | _ => false
def Op.off : Op → Nat | .ge => 2 | .le => 2 | _ => 1

/-- one comparison: operator and value -/
abbrev Item := Op × Nat
/-- a numeric match expression: OR (`|`) of AND-groups (`&`) of comparisons -/
abbrev Expr := List (List Item)

def itemText (it : Item) : List Char := it.1.sym ++ decStr it.2
def groupText (g : List Item) : List Char := joinWith '&' (g.map itemText)
/-- the text of an expression, e.g. `=254|>=254&<=300` -/
def exprText (e : Expr) : List Char := joinWith '|' (e.map groupText)

/-- non-empty OR of non-empty AND-groups, every value below 2^64 (1, 2, 4 or 8 octets) -/
def ExprOk (e : Expr) : Prop := e ≠ [] ∧ ∀ g ∈ e, g ≠ [] ∧ ∀ it ∈ g, it.2 < 18446744073709551616

instance : DecidablePred ExprOk := fun e => by unfold ExprOk; infer_instance

/-! ### characters -/

theorem dig_ne {c : Char} (h : IsDig c) : c ≠ '=' ∧ c ≠ '<' ∧ c ≠ '>' ∧ c ≠ '&' ∧ c ≠ '|' := by
  refine ⟨?_, ?_, ?_, ?_, ?_⟩ <;> (rintro rfl; revert h; unfold IsDig; decide)

theorem hasSub2_no_a (a b : Char) : ∀ (s : List Char), (∀ c ∈ s, c ≠ a) → hasSub2 a b s = false := by
  intro s
  induction s with
  | nil => intro _; rfl
  | cons x r ih =>
    intro h
    cases r with
    | nil => rfl
    | cons y r' =>
      simp only [hasSub2]
      have hx : x ≠ a := h x (by simp)
      simp [hx, ih (fun c hc => h c (by simp [hc]))]

theorem contains_no (a : Char) (s : List Char) (h : ∀ c ∈ s, c ≠ a) : s.contains a = false := by
  rw [Bool.eq_false_iff]
  intro hh
  have := List.contains_iff_mem.mp hh
  exact h a this rfl

theorem detectOp_item (op : Op) (v : Nat) :
    detectOp (itemText (op, v)) = some (op.off, op.eqB, op.gtB, op.ltB) ∧
    (itemText (op, v)).drop op.off = decStr v ∧ itemText (op, v) ≠ [] := by
  have hd := decStr_dig v
  obtain ⟨d, r, hdr⟩ := List.exists_cons_of_ne_nil (decStr_ne_nil v)
  have hdd : IsDig d := hd d (by simp [hdr])
  have hrr : ∀ c ∈ r, IsDig c := fun c hc => hd c (by simp [hdr, hc])
  have n1 : ∀ c ∈ d :: r, c ≠ '>' := by
    intro c hc; simp only [List.mem_cons] at hc
    rcases hc with rfl | hc
    · exact (dig_ne hdd).2.2.1
    · exact (dig_ne (hrr c hc)).2.2.1
  have n2 : ∀ c ∈ d :: r, c ≠ '<' := by
    intro c hc; simp only [List.mem_cons] at hc
    rcases hc with rfl | hc
    · exact (dig_ne hdd).2.1
    · exact (dig_ne (hrr c hc)).2.1
  have d1 : d ≠ '=' := (dig_ne hdd).1
  cases op
  · -- '='
    simp [itemText, Op.sym, Op.off, Op.eqB, Op.gtB, Op.ltB, detectOp]
  · -- '>'
    refine ⟨?_, by simp [itemText, Op.sym, Op.off], by simp [itemText, Op.sym]⟩
    simp only [itemText, Op.sym, Op.off, Op.eqB, Op.gtB, Op.ltB, detectOp, hdr, List.cons_append, List.nil_append,
      List.head?_cons]
    have h1 : hasSub2 '>' '=' ('>' :: d :: r) = false := by
      simp [hasSub2, d1, hasSub2_no_a '>' '=' (d :: r) n1]
    have h2 : hasSub2 '<' '=' ('>' :: d :: r) = false := by
      apply hasSub2_no_a
      intro c hc; simp only [List.mem_cons] at hc
      rcases hc with rfl | hc
      · decide
      · exact n2 c (by simpa using hc)
    simp [h1, h2]
  · -- '<'
    refine ⟨?_, by simp [itemText, Op.sym, Op.off], by simp [itemText, Op.sym]⟩
    simp only [itemText, Op.sym, Op.off, Op.eqB, Op.gtB, Op.ltB, detectOp, hdr, List.cons_append, List.nil_append,
      List.head?_cons]
    have h1 : hasSub2 '>' '=' ('<' :: d :: r) = false := by
      apply hasSub2_no_a
      intro c hc; simp only [List.mem_cons] at hc
      rcases hc with rfl | hc
      · decide
      · exact n1 c (by simpa using hc)
    have h2 : hasSub2 '<' '=' ('<' :: d :: r) = false := by
      simp [hasSub2, d1, hasSub2_no_a '<' '=' (d :: r) n2]
    have h3 : ('<' :: d :: r).contains '>' = false := by
      apply contains_no
      intro c hc; simp only [List.mem_cons] at hc
      rcases hc with rfl | hc
      · decide
      · exact n1 c (by simpa using hc)
    simp [h1, h2]
    exact ⟨fun h => n1 d (by simp) h.symm, fun h => n1 '>' (by simp [h]) rfl⟩
  · -- '>='
    refine ⟨?_, by simp [itemText, Op.sym, Op.off], by simp [itemText, Op.sym]⟩
    simp [itemText, Op.sym, Op.off, Op.eqB, Op.gtB, Op.ltB, detectOp, hasSub2]
  · -- '<='
    refine ⟨?_, by simp [itemText, Op.sym, Op.off], by simp [itemText, Op.sym]⟩
    simp only [itemText, Op.sym, Op.off, Op.eqB, Op.gtB, Op.ltB, detectOp, hdr, List.cons_append, List.nil_append,
      List.head?_cons]
    simp [hasSub2, hasSub2_no_a '>' '=' (d :: r) n1]

end Yabgp

namespace Yabgp
open Yabgp.Text Yabgp.Flowspec

/-! ### expected octets of an expression -/

/-- octets that carry a value below 2^64 -/
def widthOf (v : Nat) : Nat :=
  if v < 256 then 1 else if v < 65536 then 2 else if v < 4294967296 then 4 else 8

theorem valLen_ok {v : Nat} (h : v < 18446744073709551616) : valLen v = some (widthOf v) := by
  unfold valLen widthOf
  split
  · rfl
  · split
    · rfl
    · split
      · rfl
      · simp [h]

/-- the operator octet: EOL, AND, length code, LT, GT, EQ -/
def flagNat (eol and : Bool) (n : Nat) (op : Op) : Nat :=
  128 * b2n eol + 64 * b2n and + lenCode n + 4 * b2n op.ltB + 2 * b2n op.gtB + b2n op.eqB

def encItem (eol and : Bool) (it : Item) : Bytes :=
  u8 (flagNat eol and (widthOf it.2) it.1) :: beN (widthOf it.2) it.2

/-- mirrors the inner loop: EOL on the last item of the last group, AND on every item but the first -/
def encGroup (lastOr first : Bool) : List Item → Bytes
  | [] => []
  | it :: r => encItem (lastOr && r.isEmpty) (!first) it ++ encGroup lastOr false r

def encExpr : Expr → Bytes
  | [] => []
  | g :: r => encGroup r.isEmpty true g ++ encExpr r

theorem coItem_item (eol and : Bool) (st : CoSt) (it : Item) (hv : it.2 < 18446744073709551616) :
    coItem eol and st (itemText it) = some { off := some it.1.off, out := st.out ++ encItem eol and it } := by
  obtain ⟨op, v⟩ := it
  obtain ⟨hdet, hdrop, hne⟩ := detectOp_item op v
  unfold coItem
  split
  · rename_i hh; exact absurd hh hne
  · simp only [hdet, hdrop, pyInt, parseDec_decStr, valLen_ok hv, encItem, flagNat]

theorem coAnd_group (lastOr : Bool) (g : List Item) (hg : ∀ it ∈ g, it.2 < 18446744073709551616) :
    ∀ (first : Bool) (st : CoSt),
      ∃ o, coAnd lastOr first st (g.map itemText) = some { off := o, out := st.out ++ encGroup lastOr first g } := by
  induction g with
  | nil => intro first st; exact ⟨st.off, by simp [coAnd, encGroup]⟩
  | cons it r ih =>
    intro first st
    simp only [List.map_cons, coAnd, List.isEmpty_map]
    rw [coItem_item _ _ st it (hg it (by simp))]
    simp only
    obtain ⟨o, ho⟩ := ih (fun x hx => hg x (by simp [hx])) false
      { off := some it.1.off, out := st.out ++ encItem (lastOr && r.isEmpty) (!first) it }
    exact ⟨o, by rw [ho]; simp [encGroup, List.append_assoc]⟩

theorem itemText_no (it : Item) : '&' ∉ itemText it ∧ '|' ∉ itemText it := by
  obtain ⟨op, v⟩ := it
  have hd := decStr_dig v
  constructor
  · intro h
    simp only [itemText, List.mem_append] at h
    rcases h with h | h
    · cases op <;> simp [Op.sym] at h
    · exact (dig_ne (hd _ h)).2.2.2.1 rfl
  · intro h
    simp only [itemText, List.mem_append] at h
    rcases h with h | h
    · cases op <;> simp [Op.sym] at h
    · exact (dig_ne (hd _ h)).2.2.2.2 rfl

theorem joinWith_no (sep c : Char) (hc : c ≠ sep) : ∀ (xs : List (List Char)), (∀ x ∈ xs, c ∉ x) → c ∉ joinWith sep xs := by
  intro xs
  induction xs with
  | nil => intro _; simp [joinWith]
  | cons x r ih =>
    intro h
    cases r with
    | nil => simpa [joinWith] using h x (by simp)
    | cons y r' =>
      rw [joinWith]
      simp only [List.mem_append, List.mem_cons, not_or]
      exact ⟨h x (by simp), hc, ih (fun z hz => h z (by simp [hz]))⟩

theorem groupText_no_bar (g : List Item) : '|' ∉ groupText g := by
  apply joinWith_no '&' '|' (by decide)
  intro x hx
  simp only [List.mem_map] at hx
  obtain ⟨it, _, rfl⟩ := hx
  exact (itemText_no it).2

theorem splitAll_groupText (g : List Item) (hne : g ≠ []) : splitAll '&' (groupText g) = g.map itemText := by
  apply splitAll_join
  · simpa using hne
  · intro x hx
    simp only [List.mem_map] at hx
    obtain ⟨it, _, rfl⟩ := hx
    exact (itemText_no it).1

theorem splitAll_exprText (e : Expr) (hne : e ≠ []) : splitAll '|' (exprText e) = e.map groupText := by
  apply splitAll_join
  · simpa using hne
  · intro x hx
    simp only [List.mem_map] at hx
    obtain ⟨g, _, rfl⟩ := hx
    exact groupText_no_bar g

theorem coOr_expr (e : Expr) (he : ∀ g ∈ e, g ≠ [] ∧ ∀ it ∈ g, it.2 < 18446744073709551616) :
    ∀ (st : CoSt), ∃ o, coOr st (e.map groupText) = some { off := o, out := st.out ++ encExpr e } := by
  induction e with
  | nil => intro st; exact ⟨st.off, by simp [coOr, encExpr]⟩
  | cons g r ih =>
    intro st
    obtain ⟨hgne, hg⟩ := he g (by simp)
    simp only [List.map_cons, coOr, List.isEmpty_map, splitAll_groupText g hgne]
    obtain ⟨o1, h1⟩ := coAnd_group r.isEmpty g hg true st
    rw [h1]
    simp only
    obtain ⟨o, ho⟩ := ih (fun x hx => he x (by simp [hx])) { off := o1, out := st.out ++ encGroup r.isEmpty true g }
    exact ⟨o, by rw [ho]; simp [encExpr, List.append_assoc]⟩

/-- `construct_operators` on the text of an expression writes exactly the expected octets -/
theorem constructOperators_expr (e : Expr) (h : ExprOk e) : constructOperators (exprText e) = some (encExpr e) := by
  obtain ⟨hne, he⟩ := h
  unfold constructOperators
  rw [splitAll_exprText e hne]
  obtain ⟨o, ho⟩ := coOr_expr e he { off := none, out := [] }
  rw [ho]
  simp

end Yabgp

/-! ## part G -/

namespace Yabgp
open Yabgp.Text Yabgp.Flowspec

theorem widthOf_cases (v : Nat) : widthOf v = 1 ∨ widthOf v = 2 ∨ widthOf v = 4 ∨ widthOf v = 8 := by
  unfold widthOf; split
  · simp
  · split
    · simp
    · split <;> simp

theorem widthOf_fits {v : Nat} (h : v < 18446744073709551616) : v < 256 ^ widthOf v := by
  unfold widthOf; split
  · simpa using (by omega : v < 256)
  · split
    · norm_num; omega
    · split
      · norm_num; omega
      · norm_num; omega

theorem flag_facts (eol and : Bool) (n : Nat) (op : Op) (hn : n = 1 ∨ n = 2 ∨ n = 4 ∨ n = 8) :
    flagNat eol and n op < 256 ∧ opLen (flagNat eol and n op) = n ∧
    bit (flagNat eol and n op) 7 = eol ∧ bit (flagNat eol and n op) 6 = and ∧
    bit (flagNat eol and n op) 1 = op.gtB ∧ bit (flagNat eol and n op) 2 = op.ltB ∧
    bit (flagNat eol and n op) 0 = op.eqB := by
  rcases hn with rfl | rfl | rfl | rfl <;> cases eol <;> cases and <;> cases op <;> decide

theorem parseOperators_nil : parseOperators [] = some ([], 1) := by rw [parseOperators]

theorem parseOperators_cons (f : UInt8) (rest : Bytes) :
    parseOperators (f :: rest) =
      match rest.take (opLen f.toNat) with
      | [] => none
      | v =>
        if bit f.toNat 7 then some ([(f.toNat, beVal v)], 1 + opLen f.toNat + 1)
        else
          match parseOperators (rest.drop (opLen f.toNat)) with
          | none => none
          | some (l, off) => some ((f.toNat, beVal v) :: l, 1 + opLen f.toNat + off) := by
  rw [parseOperators]
  cases List.take (opLen f.toNat) rest with
  | nil => rfl
  | cons x xs =>
    simp only
    split
    · rfl
    · cases parseOperators (List.drop (opLen f.toNat) rest) with
      | none => rfl
      | some p => rfl

theorem encItem_length (eol and : Bool) (it : Item) : (encItem eol and it).length = 1 + widthOf it.2 := by
  simp [encItem]; omega

/-- an item that is not the last one: its flag and value, then whatever follows -/
theorem parseOperators_item_more (and : Bool) (it : Item) (hv : it.2 < 18446744073709551616) (T : Bytes) :
    parseOperators (encItem false and it ++ T) =
      match parseOperators T with
      | none => none
      | some (l, off) => some ((flagNat false and (widthOf it.2) it.1, it.2) :: l, 1 + widthOf it.2 + off) := by
  obtain ⟨hlt, hlen, heol, _⟩ := flag_facts false and (widthOf it.2) it.1 (widthOf_cases it.2)
  have hpos : 0 < widthOf it.2 := by rcases widthOf_cases it.2 with h | h | h | h <;> omega
  simp only [encItem, List.cons_append]
  rw [parseOperators_cons, u8_toNat hlt, hlen, take_app_exact (by simp), List.drop_left' (by simp)]
  split
  · rename_i hh; exact absurd hh (beN_ne_nil hpos)
  · simp only [heol, Bool.false_eq_true, ↓reduceIte, beVal_beN_lt (widthOf_fits hv)]

/-- the last item (EOL): the list ends here whatever follows -/
theorem parseOperators_item_eol (and : Bool) (it : Item) (hv : it.2 < 18446744073709551616) (T : Bytes) :
    parseOperators (encItem true and it ++ T) =
      some ([(flagNat true and (widthOf it.2) it.1, it.2)], 1 + widthOf it.2 + 1) := by
  obtain ⟨hlt, hlen, heol, _⟩ := flag_facts true and (widthOf it.2) it.1 (widthOf_cases it.2)
  have hpos : 0 < widthOf it.2 := by rcases widthOf_cases it.2 with h | h | h | h <;> omega
  simp only [encItem, List.cons_append]
  rw [parseOperators_cons, u8_toNat hlt, hlen, take_app_exact (by simp)]
  split
  · rename_i hh; exact absurd hh (beN_ne_nil hpos)
  · simp only [heol, ↓reduceIte, beVal_beN_lt (widthOf_fits hv)]

/-- (operator octet, value) pairs `parse_operators` returns for an expression -/
def pairsGroup (lastOr first : Bool) : List Item → List (Nat × Nat)
  | [] => []
  | it :: r => (flagNat (lastOr && r.isEmpty) (!first) (widthOf it.2) it.1, it.2) :: pairsGroup lastOr false r

def pairsExpr : Expr → List (Nat × Nat)
  | [] => []
  | g :: r => pairsGroup r.isEmpty true g ++ pairsExpr r

theorem parseOperators_group_more (g : List Item) (hg : ∀ it ∈ g, it.2 < 18446744073709551616) (T : Bytes) :
    ∀ first : Bool,
    parseOperators (encGroup false first g ++ T) =
      match parseOperators T with
      | none => none
      | some (l, off) => some (pairsGroup false first g ++ l, (encGroup false first g).length + off) := by
  induction g with
  | nil => intro first; simp only [encGroup, pairsGroup, List.nil_append, List.length_nil, Nat.zero_add]
           cases parseOperators T with
           | none => rfl
           | some p => rfl
  | cons it r ih =>
    intro first
    simp only [encGroup, Bool.false_and, List.append_assoc]
    rw [parseOperators_item_more _ it (hg it (by simp)), ih (fun x hx => hg x (by simp [hx])) false]
    cases parseOperators T with
    | none => rfl
    | some p =>
      obtain ⟨l, off⟩ := p
      simp only [pairsGroup, Bool.false_and, List.cons_append, List.length_append, encItem_length]
      congr 2
      omega

theorem parseOperators_group_last (g : List Item) (hg : ∀ it ∈ g, it.2 < 18446744073709551616) (hne : g ≠ [])
    (T : Bytes) : ∀ first : Bool,
    parseOperators (encGroup true first g ++ T) =
      some (pairsGroup true first g, (encGroup true first g).length + 1) := by
  induction g with
  | nil => exact absurd rfl hne
  | cons it r ih =>
    intro first
    cases r with
    | nil =>
      simp only [encGroup, List.isEmpty_nil, Bool.and_self, List.append_nil, pairsGroup]
      rw [parseOperators_item_eol _ it (hg it (by simp))]
      simp [encItem_length]
    | cons it' r' =>
      simp only [encGroup, List.isEmpty_cons, Bool.and_false, List.append_assoc]
      rw [parseOperators_item_more _ it (hg it (by simp))]
      have := ih (fun x hx => hg x (by simp [hx])) (by simp) false
      simp only [encGroup, List.append_assoc] at this
      rw [this]
      simp only [pairsGroup, List.isEmpty_cons, Bool.and_false, List.length_append, encItem_length]
      first | rfl | (simp only [Option.some.injEq, Prod.mk.injEq]; refine ⟨rfl, ?_⟩; simp only [List.length_append, encItem_length]; omega)

/-- the octets of an expression in front of anything: `parse_operators` returns its pairs and stops after them -/
theorem parseOperators_expr (e : Expr) (h : ExprOk e) (T : Bytes) :
    parseOperators (encExpr e ++ T) = some (pairsExpr e, (encExpr e).length + 1) := by
  obtain ⟨hne, he⟩ := h
  induction e with
  | nil => exact absurd rfl hne
  | cons g r ih =>
    obtain ⟨hgne, hg⟩ := he g (by simp)
    cases r with
    | nil =>
      simp only [encExpr, List.isEmpty_nil, List.append_nil, pairsExpr]
      exact parseOperators_group_last g hg hgne T true
    | cons g' r' =>
      simp only [encExpr, List.isEmpty_cons, List.append_assoc]
      rw [parseOperators_group_more g hg _ true]
      have := ih (by simp) (fun x hx => he x (by simp [hx]))
      simp only [encExpr, List.append_assoc] at this
      rw [this]
      simp only [pairsExpr, List.isEmpty_cons, List.length_append]
      first | rfl | (simp only [Option.some.injEq, Prod.mk.injEq]; refine ⟨rfl, ?_⟩; simp only [List.length_append, encItem_length]; omega)

end Yabgp

namespace Yabgp
open Yabgp.Text Yabgp.Flowspec

/-! ### rendering the pairs back to text -/

theorem itemStr_flag (acc : List Char) (eol and : Bool) (it : Item) :
    itemStr acc (flagNat eol and (widthOf it.2) it.1) it.2 =
      acc ++ (if and then ['&'] else if acc ≠ [] then ['|'] else []) ++ itemText it := by
  obtain ⟨_, _, _, hand, hgt, hlt, heq⟩ := flag_facts eol and (widthOf it.2) it.1 (widthOf_cases it.2)
  obtain ⟨op, v⟩ := it
  simp only [itemStr, hand, hgt, hlt, heq, itemText]
  cases op <;> simp [Op.gtB, Op.ltB, Op.eqB, Op.sym]

theorem joinWith_cons (sep : Char) (xs : List (List Char)) :
    ∀ x, joinWith sep (x :: xs) = x ++ xs.flatMap (sep :: ·) := by
  induction xs with
  | nil => intro x; simp [joinWith]
  | cons y r ih => intro x; rw [joinWith, ih y]; simp

theorem opsToStr_group_tail (lastOr : Bool) (r : List Item) :
    ∀ (acc : List Char) (L : List (Nat × Nat)),
      opsToStr acc (pairsGroup lastOr false r ++ L) = opsToStr (acc ++ (r.map itemText).flatMap ('&' :: ·)) L := by
  induction r with
  | nil => intro acc L; simp [pairsGroup]
  | cons it r ih =>
    intro acc L
    simp only [pairsGroup, List.cons_append, opsToStr, Bool.not_false, itemStr_flag, ↓reduceIte]
    rw [ih]
    simp [List.append_assoc]

theorem opsToStr_group (lastOr : Bool) (it : Item) (r : List Item) (acc : List Char) (L : List (Nat × Nat)) :
    opsToStr acc (pairsGroup lastOr true (it :: r) ++ L) =
      opsToStr (acc ++ (if acc ≠ [] then ['|'] else []) ++ groupText (it :: r)) L := by
  simp only [pairsGroup, List.cons_append, opsToStr, Bool.not_true, itemStr_flag, Bool.false_eq_true, ↓reduceIte]
  rw [opsToStr_group_tail]
  simp [groupText, joinWith_cons, List.append_assoc]

theorem itemText_ne_nil (it : Item) : itemText it ≠ [] := by
  obtain ⟨op, v⟩ := it
  cases op <;> simp [itemText, Op.sym]

theorem groupText_ne_nil (g : List Item) (h : g ≠ []) : groupText g ≠ [] := by
  cases g with
  | nil => exact absurd rfl h
  | cons it r =>
    simp only [groupText, List.map_cons, joinWith_cons]
    intro hh
    have := List.append_eq_nil_iff.mp hh
    exact itemText_ne_nil it this.1

theorem opsToStr_expr_tail (e : Expr) (he : ∀ g ∈ e, g ≠ []) :
    ∀ acc : List Char, acc ≠ [] → opsToStr acc (pairsExpr e) = acc ++ (e.map groupText).flatMap ('|' :: ·) := by
  induction e with
  | nil => intro acc _; simp [pairsExpr, opsToStr]
  | cons g r ih =>
    intro acc hacc
    obtain ⟨it, g', rfl⟩ := List.exists_cons_of_ne_nil (he g (by simp))
    simp only [pairsExpr]
    rw [opsToStr_group, ih (fun x hx => he x (by simp [hx]))]
    · simp [hacc, List.append_assoc]
    · simp [hacc]

/-- `operator_dict_to_str` of what `parse_operators` returns is the text the expression was written from -/
theorem opsToStr_expr (e : Expr) (h : ExprOk e) : opsToStr [] (pairsExpr e) = exprText e := by
  obtain ⟨hne, he⟩ := h
  obtain ⟨g, r, rfl⟩ := List.exists_cons_of_ne_nil hne
  obtain ⟨it, g', rfl⟩ := List.exists_cons_of_ne_nil (he (g) (by simp)).1
  simp only [pairsExpr]
  rw [opsToStr_group]
  simp only [ne_eq, not_true_eq_false, ↓reduceIte, List.append_nil, List.nil_append]
  rw [opsToStr_expr_tail r (fun x hx => (he x (by simp [hx])).1) _ (groupText_ne_nil _ (by simp))]
  simp [exprText, joinWith_cons]

end Yabgp

/-! ## part H -/

namespace Yabgp
open Yabgp.Text Yabgp.Flowspec

/-! ### prefix components -/

/-- a prefix whose address has nothing beyond the `ceil(len/8)` octets that are sent
    (every prefix in network form - host bits zero - is of this kind) -/
def FsPfxOk (a l : Nat) : Prop := l ≤ 32 ∧ a < 4294967296 ∧ a % 256 ^ (4 - (l + 7) / 8) = 0

instance (a l : Nat) : Decidable (FsPfxOk a l) := by unfold FsPfxOk; infer_instance

theorem netform_FsPfxOk {a l : Nat} (hl : l ≤ 32) (ha : a < 4294967296) (hn : a % 2 ^ (32 - l) = 0) : FsPfxOk a l := by
  refine ⟨hl, ha, ?_⟩
  interval_cases l <;> simp at hn ⊢ <;> omega

set_option maxRecDepth 4000 in
theorem parsePrefix_enc (a l : Nat) (rest : Bytes) (h : FsPfxOk a l) :
    constructPrefix a l = some (u8 l :: (be32 a).take (pfxKeep l)) ∧
    ((be32 a).take (pfxKeep l)).length = pfxKeep l ∧
    parsePrefix (u8 l :: ((be32 a).take (pfxKeep l) ++ rest)) = some (.pfx a l, pfxKeep l + 1) := by
  obtain ⟨hl, ha, hz⟩ := h
  have hl8 : (u8 l).toNat = l := u8_toNat (by omega)
  refine ⟨by simp [constructPrefix, ha]; omega, ?_, ?_⟩
  · interval_cases l <;> simp [pfxKeep]
  · simp only [parsePrefix, hl8]
    interval_cases l <;> simp [pfxKeep, be32, addr4, u8_toNat_mod] at hz ⊢ <;> omega

end Yabgp

namespace Yabgp
open Yabgp.Text Yabgp.Flowspec

/-! ### the component loop of one flow specification -/

theorem parseRule_nil (acc : Rule) : parseRule acc [] = some acc := by rw [parseRule]

theorem parseRule_cons (acc : Rule) (t : UInt8) (rest : Bytes) :
    parseRule acc (t :: rest) =
      match parseComp t.toNat rest with
      | none => none
      | some (c, n) => parseRule (dictSet acc t.toNat c) (rest.drop n) := by
  rw [parseRule]
  cases parseComp t.toNat rest with
  | none => rfl
  | some p => rfl

/-- one component (type octet, body) in front of anything: its value goes into the dict, decoding goes on
    behind it - whatever the component decoder is, as long as it consumes exactly the body -/
theorem parseRule_comp (acc : Rule) (t : Nat) (ht : t < 256) (body rest : Bytes) (c : Comp)
    (h : parseComp t (body ++ rest) = some (c, body.length)) :
    parseRule acc (u8 t :: (body ++ rest)) = parseRule (dictSet acc t c) rest := by
  rw [parseRule_cons, u8_toNat ht, h]
  simp

/-- structured component values: a prefix, or a numeric match expression -/
inductive SComp where
  | pfx (a l : Nat)
  | expr (e : Expr)
  deriving DecidableEq, Repr

def SComp.toComp : SComp → Comp
  | .pfx a l => .pfx a l
  | .expr e => .ops (exprText e)

/-- a flow specification as structured values, keyed by component type -/
abbrev SRule := List (Nat × SComp)

def SRule.toRule (r : SRule) : Rule := r.map fun kv => (kv.1, kv.2.toComp)

/-- component types 1, 2 carry prefixes; 3, 4, 5, 6, 7, 8, 10, 11 carry numeric expressions -/
def SCompOk (t : Nat) : SComp → Prop
  | .pfx a l => t ∈ pfxTypes ∧ FsPfxOk a l
  | .expr e => t ∈ opTypes ∧ ExprOk e

instance (t : Nat) : DecidablePred (SCompOk t) := fun c => by cases c <;> unfold SCompOk <;> infer_instance

/-- the value space of C07 for one flow specification: distinct component types, every value in range -/
def SRuleOk (r : SRule) : Prop := (r.map (·.1)).Nodup ∧ ∀ kv ∈ r, SCompOk kv.1 kv.2

instance : DecidablePred SRuleOk := fun r => by unfold SRuleOk; infer_instance

def allTypes : List Nat := [1, 2, 3, 4, 5, 6, 7, 8, 10, 11]

/-- what `construct_nlri` writes for one component type -/
def constructComp (d : Rule) (t : Nat) : Option Bytes :=
  if t ∈ pfxTypes then constructPfxComp d t else constructOpComp d t

theorem constructRuleBody_eq (d : Rule) : constructRuleBody d = concatOpt (allTypes.map (constructComp d)) := by
  simp [constructRuleBody, allTypes, pfxTypes, opTypes, constructComp]

theorem dictGet_toRule (r : SRule) (t : Nat) (c : Comp) (h : dictGet r.toRule t = some c) :
    ∃ sc, (t, sc) ∈ r ∧ c = sc.toComp := by
  induction r with
  | nil => simp [SRule.toRule, dictGet] at h
  | cons kv r ih =>
    obtain ⟨k, sc⟩ := kv
    simp only [SRule.toRule, List.map_cons, dictGet] at h
    split at h
    · rename_i hk
      simp only [Option.some.injEq] at h
      exact ⟨sc, by simp [← hk], h.symm⟩
    · obtain ⟨sc', hm, hc⟩ := ih h
      exact ⟨sc', by simp [hm], hc⟩

theorem exprText_ne_nil (e : Expr) (h : ExprOk e) : exprText e ≠ [] := by
  obtain ⟨hne, he⟩ := h
  obtain ⟨g, r, rfl⟩ := List.exists_cons_of_ne_nil hne
  simp only [exprText, List.map_cons, joinWith_cons]
  intro hh
  exact groupText_ne_nil g (he g (by simp)).1 (List.append_eq_nil_iff.mp hh).1

/-- lookup in a structured flow specification -/
def slookup : SRule → Nat → Option SComp
  | [], _ => none
  | (k, v) :: r, t => if k = t then some v else slookup r t

theorem dictGet_toRule_eq (r : SRule) (t : Nat) : dictGet r.toRule t = (slookup r t).map SComp.toComp := by
  induction r with
  | nil => rfl
  | cons kv r ih =>
    obtain ⟨k, sc⟩ := kv
    simp only [SRule.toRule, List.map_cons, dictGet, slookup]
    split
    · rfl
    · exact ih

theorem slookup_mem (r : SRule) (t : Nat) (sc : SComp) (h : slookup r t = some sc) : (t, sc) ∈ r := by
  induction r with
  | nil => simp [slookup] at h
  | cons kv r ih =>
    obtain ⟨k, v⟩ := kv
    simp only [slookup] at h
    split at h
    · rename_i hk; simp only [Option.some.injEq] at h; simp [← hk, h]
    · simp [ih h]

/-- the octets expected on the wire for the component of type `t`: nothing when the key is absent -/
def compBytes (r : SRule) (t : Nat) : Bytes :=
  match slookup r t with
  | none => []
  | some (.pfx a l) => u8 t :: u8 l :: (be32 a).take (pfxKeep l)
  | some (.expr e) => u8 t :: encExpr e

/-- every component type `construct_nlri` walks: it writes exactly the expected octets, and the decoder puts
    exactly the value back and goes on behind them -/
theorem comp_rt (r : SRule) (hok : SRuleOk r) (t : Nat) (ht : t ∈ allTypes) :
    constructComp r.toRule t = some (compBytes r t) ∧
    ∀ acc rest, parseRule acc (compBytes r t ++ rest) =
      parseRule (match dictGet r.toRule t with | some c => dictSet acc t c | none => acc) rest := by
  have ht256 : t < 256 := by
    simp only [allTypes, List.mem_cons, List.not_mem_nil, or_false] at ht
    omega
  have hg := dictGet_toRule_eq r t
  cases hs : slookup r t with
  | none =>
    rw [hs] at hg
    simp only [Option.map_none] at hg
    refine ⟨?_, fun acc rest => by simp [compBytes, hs, hg]⟩
    unfold constructComp constructPfxComp constructOpComp
    simp [hg, compBytes, hs]
  | some sc =>
    rw [hs] at hg
    simp only [Option.map_some] at hg
    have hsc := hok.2 (t, sc) (slookup_mem r t sc hs)
    cases sc with
    | pfx a l =>
      obtain ⟨htp, hp⟩ := hsc
      obtain ⟨hcp, hlen, _⟩ := parsePrefix_enc a l [] hp
      refine ⟨?_, ?_⟩
      · simp [constructComp, htp, constructPfxComp, hg, SComp.toComp, hcp, compBytes, hs]
      · intro acc rest
        simp only [compBytes, hs, hg, SComp.toComp, List.cons_append]
        have := parseRule_comp acc t ht256 (u8 l :: (be32 a).take (pfxKeep l)) rest (.pfx a l)
        simp only [List.cons_append] at this
        apply this
        have htt : t = 1 ∨ t = 2 := by simpa [pfxTypes] using htp
        have := (parsePrefix_enc a l rest hp).2.2
        simp only [parseComp, htt, ↓reduceIte, this, List.length_cons, hlen]
    | expr e =>
      obtain ⟨hto, he⟩ := hsc
      have hnp : t ∉ pfxTypes := by
        simp only [opTypes, List.mem_cons, List.not_mem_nil, or_false] at hto
        simp only [pfxTypes, List.mem_cons, List.not_mem_nil, or_false]
        omega
      have htt : ¬ (t = 1 ∨ t = 2) := by simpa [pfxTypes] using hnp
      refine ⟨?_, ?_⟩
      · obtain ⟨x, xs, hx⟩ := List.exists_cons_of_ne_nil (exprText_ne_nil e he)
        simp only [constructComp, hnp, ↓reduceIte, constructOpComp, hg, SComp.toComp, compBytes, hs]
        rw [hx]
        simp only
        rw [← hx, constructOperators_expr e he]
        rfl
      · intro acc rest
        simp only [compBytes, hs, hg, SComp.toComp, List.cons_append]
        apply parseRule_comp acc t ht256
        simp only [parseComp, htt, ↓reduceIte, parseOperators_expr e he rest, opsToStr_expr e he,
          Nat.add_sub_cancel]

end Yabgp

namespace Yabgp
open Yabgp.Text Yabgp.Flowspec

/-! ### a whole flow specification -/

/-- what the decoder's dict looks like after the components of the types `ts` (in that order) -/
def collect (d : Rule) (acc : Rule) : List Nat → Rule
  | [] => acc
  | t :: ts =>
    match dictGet d t with
    | some c => collect d (dictSet acc t c) ts
    | none => collect d acc ts

/-- the dict `IPv4FlowSpec.parse` rebuilds from a constructed flow specification: the components in the
    order `construct_nlri` writes them -/
def ordered (d : Rule) : Rule := collect d [] allTypes

theorem walk_rt (r : SRule) (hok : SRuleOk r) (ts : List Nat) (hts : ∀ t ∈ ts, t ∈ allTypes) :
    concatOpt (ts.map (constructComp r.toRule)) = some (ts.flatMap (compBytes r)) ∧
      ∀ acc rest, parseRule acc (ts.flatMap (compBytes r) ++ rest) = parseRule (collect r.toRule acc ts) rest := by
  induction ts with
  | nil => exact ⟨rfl, fun acc rest => rfl⟩
  | cons t ts ih =>
    obtain ⟨hw2, hp2⟩ := ih (fun x hx => hts x (by simp [hx]))
    obtain ⟨hc, hp⟩ := comp_rt r hok t (hts t (by simp))
    refine ⟨by simp [concatOpt, hc, hw2], fun acc rest => ?_⟩
    simp only [List.flatMap_cons, List.append_assoc, collect]
    rw [hp, hp2]
    cases dictGet r.toRule t <;> rfl

theorem dictGet_dictSet (d : Rule) (k k' : Nat) (v : Comp) :
    dictGet (dictSet d k v) k' = if k = k' then some v else dictGet d k' := by
  induction d with
  | nil => simp [dictSet, dictGet]
  | cons e r ih =>
    obtain ⟨k0, v0⟩ := e
    simp only [dictSet]
    by_cases h0 : k0 = k
    · subst h0; simp only [↓reduceIte, dictGet]
      split <;> simp_all
    · simp only [h0, ↓reduceIte, dictGet, ih]
      by_cases h1 : k0 = k'
      · subst h1; simp [Ne.symm h0]
      · simp [h1]

theorem dictGet_collect (d : Rule) (ts : List Nat) :
    ∀ (acc : Rule) (t : Nat),
      dictGet (collect d acc ts) t =
        if t ∈ ts then (match dictGet d t with | some c => some c | none => dictGet acc t) else dictGet acc t := by
  induction ts with
  | nil => intro acc t; simp [collect]
  | cons x ts ih =>
    intro acc t
    simp only [collect]
    cases hx : dictGet d x with
    | none =>
      simp only [ih, List.mem_cons]
      by_cases h1 : t ∈ ts
      · simp [h1]
      · by_cases h2 : t = x
        · subst h2; simp [h1, hx]
        · simp [h1, h2]
    | some c =>
      simp only [ih, List.mem_cons, dictGet_dictSet]
      by_cases h1 : t ∈ ts
      · simp only [h1, ↓reduceIte, or_true]
        cases hdt : dictGet d t with
        | some c' => rfl
        | none =>
          simp only
          by_cases h2 : x = t
          · subst h2; rw [hx] at hdt; cases hdt
          · simp [h2]
      · by_cases h2 : t = x
        · subst h2; simp [h1, hx]
        · simp [h1, h2, Ne.symm h2]

end Yabgp

namespace Yabgp
open Yabgp.Text Yabgp.Flowspec

/-- the octets expected on the wire for a whole flow specification (without its length field) -/
def ruleBytes (r : SRule) : Bytes := allTypes.flatMap (compBytes r)

/-- `construct_nlri` writes exactly the expected octets; decoding them rebuilds the dict: the keys in the order
    `construct_nlri` walks them, every key with exactly the value given -/
theorem rule_rt (r : SRule) (hok : SRuleOk r) :
    constructRuleBody r.toRule = some (ruleBytes r) ∧
      (∀ acc rest, parseRule acc (ruleBytes r ++ rest) = parseRule (collect r.toRule acc allTypes) rest) ∧
      parseRule [] (ruleBytes r) = some (ordered r.toRule) ∧
      ∀ t, dictGet (ordered r.toRule) t = dictGet r.toRule t := by
  obtain ⟨hb, hp⟩ := walk_rt r hok allTypes (fun t ht => ht)
  refine ⟨by rw [constructRuleBody_eq]; exact hb, hp, ?_, ?_⟩
  · have := hp [] []
    simp only [List.append_nil, parseRule_nil] at this
    exact this
  · intro t
    simp only [ordered, dictGet_collect, dictGet]
    by_cases ht : t ∈ allTypes
    · simp only [ht, ↓reduceIte]
      cases dictGet r.toRule t <;> rfl
    · simp only [ht, ↓reduceIte]
      cases hg : dictGet r.toRule t with
      | none => rfl
      | some c =>
        exfalso
        obtain ⟨sc, hm, _⟩ := dictGet_toRule r t c hg
        have := hok.2 (t, sc) hm
        apply ht
        cases sc with
        | pfx a l => have h1 := this.1; simp only [pfxTypes, allTypes, List.mem_cons, List.not_mem_nil, or_false] at h1 ⊢; omega
        | expr e => have h1 := this.1; simp only [opTypes, allTypes, List.mem_cons, List.not_mem_nil, or_false] at h1 ⊢; omega

theorem dictSet_ne_nil (d : Rule) (k : Nat) (v : Comp) : dictSet d k v ≠ [] := by
  cases d with
  | nil => simp [dictSet]
  | cons e r => obtain ⟨k0, v0⟩ := e; simp only [dictSet]; split <;> simp

theorem collect_ne_nil (d : Rule) (ts : List Nat) : ∀ acc, acc ≠ [] → collect d acc ts ≠ [] := by
  induction ts with
  | nil => intro acc h; exact h
  | cons t ts ih =>
    intro acc h
    simp only [collect]
    cases dictGet d t with
    | none => exact ih acc h
    | some c => exact ih _ (dictSet_ne_nil acc t c)

/-- a flow specification with at least one component decodes to a non-empty dict -/
theorem ordered_ne_nil (r : SRule) (hok : SRuleOk r) (hne : r ≠ []) : ordered r.toRule ≠ [] := by
  obtain ⟨kv, r', rfl⟩ := List.exists_cons_of_ne_nil hne
  obtain ⟨k, sc⟩ := kv
  have hk : dictGet (SRule.toRule ((k, sc) :: r')) k = some sc.toComp := by simp [SRule.toRule, dictGet]
  obtain ⟨_, _, _, hget⟩ := rule_rt _ hok
  intro hh
  have := hget k
  rw [hh, hk] at this
  simp [dictGet] at this

end Yabgp

/-! ## part I -/

namespace Yabgp
open Yabgp.Text Yabgp.Flowspec

theorem parseRules_nil : parseRules [] = some [] := by rw [parseRules]

theorem parseRules_short (l : UInt8) (rest : Bytes) (h : ¬ (l.toNat / 16 = 15 ∧ (l :: rest).length > 2)) :
    parseRules (l :: rest) =
      match parseRule [] (rest.take l.toNat) with
      | none => none
      | some d =>
        match parseRules (rest.drop l.toNat) with
        | none => none
        | some ds => some (if d = [] then ds else d :: ds) := by
  conv => lhs; rw [parseRules.eq_def]
  simp only
  rw [if_neg h]
  cases parseRule [] (rest.take l.toNat) with
  | none => rfl
  | some d =>
    simp only
    cases parseRules (rest.drop l.toNat) with
    | none => rfl
    | some ds => rfl

theorem parseRules_long (l l2 : UInt8) (rest2 : Bytes) (h : l.toNat / 16 = 15 ∧ (l :: l2 :: rest2).length > 2) :
    parseRules (l :: l2 :: rest2) =
      match parseRule [] (rest2.take ((l.toNat * 256 + l2.toNat) % 4096)) with
      | none => none
      | some d =>
        match parseRules (rest2.drop ((l.toNat * 256 + l2.toNat) % 4096)) with
        | none => none
        | some ds => some (if d = [] then ds else d :: ds) := by
  conv => lhs; rw [parseRules.eq_def]
  simp only
  rw [if_pos h]
  cases parseRule [] (rest2.take ((l.toNat * 256 + l2.toNat) % 4096)) with
  | none => rfl
  | some d =>
    simp only
    cases parseRules (rest2.drop ((l.toNat * 256 + l2.toNat) % 4096)) with
    | none => rfl
    | some ds => rfl

/-- the octets expected on the wire for a flow specification with its length field: one octet below 240,
    else two octets `0xfnnn` -/
def nlriBytes (r : SRule) : Bytes :=
  if (ruleBytes r).length ≥ 240 then be16 (61440 + (ruleBytes r).length) ++ ruleBytes r
  else u8 (ruleBytes r).length :: ruleBytes r

/-- the value space of C07 for one flow specification inside an attribute: in range, at least one component,
    and it fits the 12-bit extended length -/
def FsOk (r : SRule) : Prop := SRuleOk r ∧ r ≠ [] ∧ (ruleBytes r).length < 4096

instance : DecidablePred FsOk := fun r => by unfold FsOk; infer_instance

theorem ruleBytes_ne_nil (r : SRule) (hok : SRuleOk r) (hne : r ≠ []) : ruleBytes r ≠ [] := by
  intro hh
  obtain ⟨_, _, hp, _⟩ := rule_rt r hok
  rw [hh, parseRule_nil] at hp
  exact ordered_ne_nil r hok hne (by simpa using hp.symm)

theorem constructNlri_ok (r : SRule) (h : FsOk r) : constructNlri r.toRule = some (some (nlriBytes r)) := by
  obtain ⟨hok, hne, hlen⟩ := h
  obtain ⟨hb, _⟩ := rule_rt r hok
  obtain ⟨x, xs, hx⟩ := List.exists_cons_of_ne_nil (ruleBytes_ne_nil r hok hne)
  unfold constructNlri nlriBytes
  rw [hb, hx]
  simp only
  rw [← hx]
  split
  · rw [if_pos (by omega)]
  · rfl

/-- one constructed flow specification (with its 1- or 2-octet length) in front of anything decodes to its
    dict, then the rest -/
theorem parseRules_rule (r : SRule) (h : FsOk r) (rest : Bytes) :
    parseRules (nlriBytes r ++ rest) = (parseRules rest).map (ordered r.toRule :: ·) := by
  obtain ⟨hok, hne, h4096⟩ := h
  obtain ⟨_, _, hpb, _⟩ := rule_rt r hok
  have hone : ordered r.toRule ≠ [] := ordered_ne_nil r hok hne
  obtain ⟨x, xs, hx⟩ := List.exists_cons_of_ne_nil (ruleBytes_ne_nil r hok hne)
  unfold nlriBytes
  rw [hx] at hpb h4096 ⊢
  have e1 : (x :: (xs ++ rest)).take (x :: xs).length = x :: xs := by
    have := take_app_exact (a := x :: xs) (r := rest) rfl
    simpa using this
  have e2 : (x :: (xs ++ rest)).drop (x :: xs).length = rest := by
    have := List.drop_left' (l₁ := x :: xs) (l₂ := rest) rfl
    simpa using this
  split
  · -- two-octet length
    rename_i hlen
    simp only [be16, List.cons_append, List.nil_append]
    have h1 : (u8 ((61440 + (x :: xs).length) / 256)).toNat = 240 + (x :: xs).length / 256 := by
      rw [u8_toNat_mod]; omega
    have h2 : (u8 (61440 + (x :: xs).length)).toNat = (x :: xs).length % 256 := by
      rw [u8_toNat_mod]; omega
    rw [parseRules_long _ _ _ (by rw [h1]; constructor; · omega
                                  · simp only [List.length_cons, List.length_append] at hlen ⊢; omega)]
    have hn : ((u8 ((61440 + (x :: xs).length) / 256)).toNat * 256 + (u8 (61440 + (x :: xs).length)).toNat) % 4096
        = (x :: xs).length := by
      rw [h1, h2]; omega
    rw [hn, e1, e2, hpb]
    cases hr : parseRules rest with
    | none => simp
    | some ds => simp [hone]
  · rename_i hlen
    simp only [List.cons_append]
    have h1 : (u8 (x :: xs).length).toNat = (x :: xs).length := u8_toNat (by omega)
    rw [parseRules_short _ _ (by rw [h1]; omega)]
    rw [h1, e1, e2, hpb]
    cases hr : parseRules rest with
    | none => simp
    | some ds => simp [hone]

/-- `IPv4FlowSpec.construct` of a list of flow specifications writes the expected octets -/
theorem constructRules_ok (rs : List SRule) (h : ∀ r ∈ rs, FsOk r) :
    constructRules (rs.map SRule.toRule) = some (rs.flatMap nlriBytes) := by
  induction rs with
  | nil => rfl
  | cons r rs ih =>
    simp only [List.map_cons, constructRules, constructNlri_ok r (h r (by simp)),
      ih (fun q hq => h q (by simp [hq])), List.flatMap_cons]

theorem parseRules_list (rs : List SRule) (h : ∀ r ∈ rs, FsOk r) (rest : Bytes) :
    parseRules (rs.flatMap nlriBytes ++ rest) = (parseRules rest).map (rs.map (fun r => ordered r.toRule) ++ ·) := by
  induction rs with
  | nil => cases hr : parseRules rest <;> simp [hr]
  | cons r rs ih =>
    simp only [List.flatMap_cons, List.append_assoc, List.map_cons]
    rw [parseRules_rule r (h r (by simp)), ih (fun q hq => h q (by simp [hq]))]
    cases hr : parseRules rest <;> simp [hr]

end Yabgp

/-! ## part J -/

namespace Yabgp
open Yabgp.Evpn Yabgp.Flowspec Yabgp.Evf

theorem ipPacked_rt (ip : Ip) (h : IpOk ip) :
    ∃ nb, ipPacked ip = some nb ∧ (nb.length = 4 ∨ nb.length = 16) ∧ parseIp nb = some ip := by
  obtain ⟨v6, val⟩ := ip
  cases v6
  · have hv : val < 2 ^ 32 := by simpa [IpOk] using h
    refine ⟨be32 val, ?_, by simp, parseIp_be32 hv⟩
    simp only [ipPacked, Bool.false_eq_true, ↓reduceIte]; rw [if_pos hv]
  · have hv : val < 2 ^ 128 := by simpa [IpOk] using h
    refine ⟨beN 16 val, ?_, by simp, parseIp_beN16 hv⟩
    simp only [ipPacked, ↓reduceIte]; rw [if_pos hv]

theorem attrHeader_bytes {code : Nat} {value w : Bytes} (h : attrHeader code value = .bytes w) :
    w = [0x90, u8 code] ++ be16 value.length ++ value ∧ value.length < 65536 := by
  unfold attrHeader at h
  split at h
  · rename_i hl; simp only [CR.bytes.injEq] at h; exact ⟨h.symm, hl⟩
  · cases h

/-- the fixed part of an MP_REACH_NLRI value followed by next hop, reserved octet and NLRI -/
theorem reach_fields (afi safi : Nat) (nb nl : Bytes) (hafi : afi < 65536) (hsafi : safi < 256) (hnb : nb.length < 256) :
    unpackHBB (slice (be16 afi ++ [u8 safi, u8 nb.length] ++ nb ++ [0] ++ nl) 0 4) = some (afi, safi, nb.length) ∧
    slice (be16 afi ++ [u8 safi, u8 nb.length] ++ nb ++ [0] ++ nl) 4 (4 + nb.length) = nb ∧
    (be16 afi ++ [u8 safi, u8 nb.length] ++ nb ++ [0] ++ nl).drop (5 + nb.length) = nl := by
  refine ⟨?_, ?_, ?_⟩
  · simp only [be16, slice, List.cons_append, List.nil_append, List.take_succ_cons, List.take_zero, List.drop_zero,
      unpackHBB, u8_toNat hsafi, u8_toNat hnb, u8_toNat_mod]
    congr 2
    omega
  · have := slice_mid' (p := be16 afi ++ [u8 safi, u8 nb.length]) (x := nb) (s := [0] ++ nl) (i := 4) (j := 4 + nb.length)
      (by simp) (by simp)
    simpa [List.append_assoc] using this
  · have := drop_mid' (p := be16 afi ++ [u8 safi, u8 nb.length] ++ nb ++ [0]) (s := nl) (i := 5 + nb.length)
      (by simp; omega)
    simpa [List.append_assoc] using this

theorem unreach_fields (afi safi : Nat) (nl : Bytes) (hafi : afi < 65536) (hsafi : safi < 256) :
    unpackHB (slice (be16 afi ++ [u8 safi] ++ nl) 0 3) = some (afi, safi) ∧
    (be16 afi ++ [u8 safi] ++ nl).drop 3 = nl := by
  refine ⟨?_, ?_⟩
  · simp only [be16, slice, List.cons_append, List.nil_append, List.take_succ_cons, List.take_zero, List.drop_zero,
      unpackHB, u8_toNat hsafi, u8_toNat_mod]
    congr 2
    omega
  · simp [be16]

end Yabgp
