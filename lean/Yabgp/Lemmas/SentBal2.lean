/-
  Sent-side balance (C18) of the reactions to messages and timers: whenever the tracked connection is up (`Norm`)
  every reaction counts exactly the messages it writes.
-/
import Yabgp.Lemmas.SentBal
import Yabgp.Lemmas.OpenErr

namespace Yabgp
namespace Sess

theorem Norm.setAsn4 {s : Sess} {i : Nat} (h : Norm s i) (j : Nat) : Norm (s.setAsn4 j) i := by
  refine ⟨h.proto, by simp only [Sess.setAsn4, len_setConn]; exact h.lt, ?_, ?_⟩
  · simp only [Sess.setAsn4, conn_setConn]; split
    · rename_i hj; rw [hj.1]; exact h.up
    · exact h.up
  · simp only [Sess.setAsn4, conn_setConn]; split
    · rename_i hj; rw [hj.1]; exact h.nd
    · exact h.nd

theorem bal_fsmErr {s : Sess} {i : Nat} (h : Norm s i) : Bal s ((s.sendNotification C.errFsm 0 []).errorClose) :=
  (bal_sendNotification h _ _ _ (by decide) (by decide) (by decide)).trans (sq_errorClose _).bal

theorem bal_headerError {s : Sess} {i : Nat} (h : Norm s i) (sub : Nat) (d : Bytes) (hs : sub < 256)
    (hd : d.length + 21 < 65536) : Bal s (s.headerError sub d) :=
  (bal_sendNotification h _ _ _ (by decide) hs hd).trans (sq_errorClose _).bal

theorem bal_openMessageError {s : Sess} {i : Nat} (h : Norm s i) (sub : Nat) (hs : sub < 256) :
    Bal s (s.openMessageError sub) :=
  (bal_sendNotification h _ _ _ (by decide) hs (by decide)).trans (sq_errorClose _).bal

theorem bal_fsmOpenReceived {s : Sess} {i : Nat} (h : Norm s i) : Bal s s.fsmOpenReceived := by
  unfold fsmOpenReceived
  split
  · exact (sq_errorClose _).bal
  · exact (sq_errorClose _).bal
  · split
    · exact (((sq_setRetry s _).bal.trans (bal_sendKeepalive (h.setRetry _))).trans
        ((sq_setKeepalive _ _).trans ((sq_setHold _ _).trans (sq_setSt _ _))).bal)
    · exact (((sq_setRetry s _).bal.trans (bal_sendKeepalive (h.setRetry _))).trans
        ((sq_setKeepalive _ _).trans ((sq_setHold _ _).trans (sq_setSt _ _))).bal)
  · exact bal_fsmErr h
  · exact bal_fsmErr h
  · exact Bal.refl _

theorem bal_fsmKeepaliveReceived {s : Sess} {i : Nat} (h : Norm s i) : Bal s s.fsmKeepaliveReceived := by
  unfold fsmKeepaliveReceived
  split
  · exact ((sq_restartHold s).trans (sq_setSt _ _)).bal
  · exact (sq_restartHold s).bal
  · exact (sq_errorClose _).bal
  · exact (sq_errorClose _).bal
  · exact bal_fsmErr h
  · exact Bal.refl _

theorem bal_fsmUpdateReceived {s : Sess} {i : Nat} (h : Norm s i) : Bal s s.fsmUpdateReceived := by
  unfold fsmUpdateReceived
  split
  · exact (sq_restartHold s).bal
  · exact (sq_errorClose _).bal
  · exact (sq_errorClose _).bal
  · exact bal_fsmErr h
  · exact bal_fsmErr h
  · exact Bal.refl _

theorem sq_fsmNotificationReceived (s : Sess) (e sub : Nat) : Quiet s (s.fsmNotificationReceived e sub) := by
  unfold fsmNotificationReceived
  split
  · split
    · exact ((((sq_setRetry s _).trans (sq_setHold _ _)).trans (sq_setKeepalive _ _)).trans (sq_closeConn _)).trans (sq_setSt _ _)
    · exact ((((sq_setRetry s _).trans (sq_setHold _ _)).trans (sq_setKeepalive _ _)).trans (sq_closeConn _)).trans (sq_setSt _ _)
    · exact sq_errorClose _
    · exact sq_errorClose _
    · exact sq_errorClose _
    · exact Quiet.refl _
  · split
    · exact sq_errorClose _
    · exact Quiet.refl _

theorem bal_openAccepted {s : Sess} {i : Nat} (h : Norm s i) (j : Nat) (m : OpenMsg) : Bal s (s.openAccepted j m).1 := by
  unfold openAccepted
  split
  · simp only
    split
    · exact ((sq_withRemote s _).trans (sq_setAsn4 _ _)).bal.trans
        (bal_openMessageError ((h.withRemote _).setAsn4 _) _ (by decide))
    · exact (sq_withRemote s _).bal.trans (bal_openMessageError (h.withRemote _) _ (by decide))
  · simp only
    split
    · exact ((((sq_withRemote s _).trans (sq_setAsn4 _ _)).trans (sq_withHoldTime _ _)).bal.trans
        (bal_fsmOpenReceived (((h.withRemote _).setAsn4 _).withHoldTime _))).trans (sq_emit _ _ rfl).bal
    · exact ((((sq_withRemote s _).trans (sq_withHoldTime _ _)).bal.trans
        (bal_fsmOpenReceived ((h.withRemote _).withHoldTime _)))).trans (sq_emit _ _ rfl).bal

theorem bal_openReceived {s : Sess} {i : Nat} (h : Norm s i) (j : Nat) (body : Bytes) : Bal s (s.openReceived j body).1 := by
  unfold openReceived
  split
  · rename_i sub hp
    exact (sq_bumpRecv s _ _).bal.trans (bal_headerError (h.bumpRecv _ _) _ _ (parseOpen_err _ _ hp) (by decide))
  · rename_i sub hp
    exact (sq_bumpRecv s _ _).bal.trans (bal_openMessageError (h.bumpRecv _ _) _ (parseOpen_err _ _ hp))
  · exact (sq_bumpRecv s _ _).bal
  · split
    · exact (sq_bumpRecv s _ _).bal.trans (bal_openMessageError (h.bumpRecv _ _) _ (by decide))
    · exact (sq_bumpRecv s _ _).bal.trans (bal_openAccepted (h.bumpRecv _ _) _ _)

theorem be16_length (n : Nat) : (be16 n).length = 2 := by simp [be16]

theorem bal_dispatch (U : Bool → Bytes → UpdClass) {s : Sess} {i : Nat} (h : Norm s i) (j ty : Nat) (body : Bytes) :
    Bal s (dispatch U s j ty body).1 := by
  unfold dispatch
  split
  · exact bal_openReceived h j body
  split
  · split
    · exact (sq_bumpRecv s _ _).bal
    · exact ((sq_bumpRecv s _ _).trans (sq_emit _ _ rfl)).bal
    · exact ((sq_bumpRecv s _ _).trans (sq_emit _ _ rfl)).bal.trans
        (bal_fsmUpdateReceived ((h.bumpRecv _ _).emit _))
    · exact ((sq_bumpRecv s _ _).trans (sq_emit _ _ rfl)).bal.trans
        (bal_fsmUpdateReceived ((h.bumpRecv _ _).emit _))
  split
  · split
    · exact Bal.refl _
    · exact (((sq_bumpRecv s _ _).trans (sq_emit _ _ rfl)).trans (sq_fsmNotificationReceived _ _ _)).bal
  split
  · split
    · exact ((sq_bumpRecv s _ _).trans (sq_emit _ _ rfl)).bal.trans
        (bal_fsmKeepaliveReceived ((h.bumpRecv _ _).emit _))
    · exact ((sq_bumpRecv s _ _).trans (sq_emit _ _ rfl)).bal.trans
        (bal_headerError ((h.bumpRecv _ _).emit _) _ _ (by decide) (by decide))
  split
  · split
    · exact (sq_bumpRecv s _ _).bal
    · exact ((sq_bumpRecv s _ _).trans (sq_emit _ _ rfl)).bal
  · exact bal_headerError h _ _ (by decide) (by rw [be16_length]; decide)

/-- one call of parse_buffer on the tracked, open connection -/
theorem bal_parseBuffer (U : Bool → Bytes → UpdClass) {s : Sess} {i : Nat} (hp : s.proto = some i) (hlt : i < s.conns.length)
    (hup : (s.conn i).disconnected = false → (s.conn i).phase = .connected) (buf : Bytes) :
    Bal s (parseBuffer U s i buf).1 := by
  unfold parseBuffer
  split
  · exact Bal.refl _
  · rename_i hd
    have hn : Norm s i := ⟨hp, hlt, hup (by simpa using hd), by simpa using hd⟩
    split
    · exact Bal.refl _
    · exact bal_headerError hn _ _ (by decide) (by decide)
    · exact bal_headerError hn _ _ (by decide) (by rw [be16_length]; decide)
    · split <;> exact bal_dispatch U hn i _ _

end Sess
end Yabgp
