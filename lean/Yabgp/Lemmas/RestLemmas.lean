/-
  Helper lemmas for Props/C16.lean: how the decorator chain of the REST model filters a request, and what each
  sending view does on a session whose tracked connection is up.
-/
import Yabgp.Model.Rest
import Yabgp.Lemmas.OutsExt

namespace Yabgp.Rest
open Yabgp.Sess

/-! ### responses -/

@[simp] theorem success_ok_statusTrue : (ok .statusTrue).success = true := by simp [ok, Response.success]
@[simp] theorem success_refused (w : Why) : (refused w).success = false := by simp [refused, Response.success]
@[simp] theorem success_serverError : serverError.success = false := by simp [serverError, Response.success]
@[simp] theorem success_unmodelled : unmodelled.success = false := by simp [unmodelled, Response.success]
@[simp] theorem success_401 : (⟨401, .unauthorized⟩ : Response).success = false := by simp [Response.success]
@[simp] theorem success_415 : (⟨415, .error⟩ : Response).success = false := by simp [Response.success]
@[simp] theorem success_400 : (⟨400, .error⟩ : Response).success = false := by simp [Response.success]
@[simp] theorem success_405 : (⟨405, .error⟩ : Response).success = false := by simp [Response.success]
@[simp] theorem success_ok_bin (b : Bytes) : (ok (.bin b)).success = false := by simp [ok, Response.success]
@[simp] theorem success_ok_empty : (ok .empty).success = false := by simp [ok, Response.success]

theorem noDocument_not_success {b : Body} {e : Response} (h : noDocument b = some e) : e.success = false := by
  cases b <;> simp [noDocument] at h <;> subst h <;> simp

/-! ### the decorator chain -/

/-- a chain either lets the request through to the view — then every `login_required` in it saw valid credentials
    (or an OPTIONS request) and every `makesure_peer_establish` saw an Established session — or it answers by itself,
    with something that is not a success, and leaves the session alone -/
theorem chain_cases (rc : RestCfg) (v : View) (req : Request) (s : Sess) :
    ∀ ds : List Deco,
      (runChain rc ds v req s = runView v req s ∧
        (Deco.loginRequired ∈ ds → req.method = "OPTIONS" ∨ validCreds rc req.auth = true) ∧
        (Deco.makesureEstablished ∈ ds → s.st = .established)) ∨
      ((runChain rc ds v req s).2 = s ∧ (runChain rc ds v req s).1.success = false)
  | [] => Or.inl ⟨rfl, by simp, by simp⟩
  | .loginRequired :: ds => by
      simp only [runChain]
      by_cases hm : req.method = "OPTIONS"
      · rw [if_pos hm]
        rcases chain_cases rc v req s ds with h | h
        · exact Or.inl ⟨h.1, fun _ => Or.inl hm, fun hx => h.2.2 (by simpa using hx)⟩
        · exact Or.inr h
      · rw [if_neg hm]
        by_cases hv : validCreds rc req.auth = true
        · rw [if_pos hv]
          rcases chain_cases rc v req s ds with h | h
          · exact Or.inl ⟨h.1, fun _ => Or.inr hv, fun hx => h.2.2 (by simpa using hx)⟩
          · exact Or.inr h
        · rw [if_neg hv]
          exact Or.inr ⟨rfl, by simp⟩
  | .logRequest :: ds => by
      simp only [runChain]
      by_cases hm : req.method = "POST"
      · rw [if_pos hm]
        cases hd : noDocument req.body with
        | some e => exact Or.inr ⟨rfl, noDocument_not_success hd⟩
        | none =>
          rcases chain_cases rc v req s ds with h | h
          · exact Or.inl ⟨h.1, fun hx => h.2.1 (by simpa using hx), fun hx => h.2.2 (by simpa using hx)⟩
          · exact Or.inr h
      · rw [if_neg hm]
        rcases chain_cases rc v req s ds with h | h
        · exact Or.inl ⟨h.1, fun hx => h.2.1 (by simpa using hx), fun hx => h.2.2 (by simpa using hx)⟩
        · exact Or.inr h
  | .makesureEstablished :: ds => by
      simp only [runChain]
      by_cases hs : s.st = .established
      · rw [if_pos hs]
        rcases chain_cases rc v req s ds with h | h
        · exact Or.inl ⟨h.1, fun hx => h.2.1 (by simpa using hx), fun _ => hs⟩
        · exact Or.inr h
      · rw [if_neg hs]
        exact Or.inr ⟨rfl, by simp⟩
  | .unknown :: ds => Or.inr ⟨by simp [runChain], by simp [runChain]⟩

/-- a chain that starts with `login_required` answers 401 to anything but OPTIONS without valid credentials -/
theorem chain_login_rejects (rc : RestCfg) (ds : List Deco) (v : View) (req : Request) (s : Sess)
    (hm : req.method ≠ "OPTIONS") (hv : validCreds rc req.auth = false) :
    runChain rc (.loginRequired :: ds) v req s = (⟨401, .unauthorized⟩, s) := by
  simp [runChain, hm, hv]

/-- a chain that contains `makesure_peer_establish` never reaches the view unless the session is Established -/
theorem chain_gate (rc : RestCfg) (ds : List Deco) (v : View) (req : Request) (s : Sess)
    (hg : Deco.makesureEstablished ∈ ds) (hs : s.st ≠ .established) :
    (runChain rc ds v req s).2 = s ∧ (runChain rc ds v req s).1.success = false := by
  rcases chain_cases rc v req s ds with h | h
  · exact absurd (h.2.2 hg) hs
  · exact h

/-! ### HEAD -/

theorem stripHead_snd (req : Request) (r : Response × Sess) : (stripHead req r).2 = r.2 := by
  unfold stripHead; split <;> rfl

theorem stripHead_status (req : Request) (r : Response × Sess) : (stripHead req r).1.status = r.1.status := by
  unfold stripHead; split <;> rfl

theorem stripHead_success (req : Request) (r : Response × Sess) (h : (stripHead req r).1.success = true) :
    (stripHead req r) = r := by
  unfold stripHead at h ⊢
  split
  · rename_i hh; simp [hh, Response.success] at h
  · rfl

/-! ### outputs: nothing is written unless the session is Established -/

/-- not a transport write -/
def NotWrite (o : Out) : Prop := ∀ c b, o ≠ .write c b

theorem oe_withAllow {P : Out → Prop} (s : Sess) (v : Bool) : OutsExt P s (s.withAllow v) := OutsExt.of_same rfl

theorem ne_closeOn (s : Sess) (i : Nat) : OutsExt NotWrite s (s.closeOn i) := by
  unfold closeOn
  split
  · exact ((oe_setPhase s i _).trans (oe_setDisconnected _ i)).trans (OutsExt.emit _ _ (by intro c b h; cases h))
  · split
    · exact oe_setDisconnected s i
    · exact OutsExt.refl _ s

theorem ne_closeConn (s : Sess) : OutsExt NotWrite s s.closeConn := by
  unfold closeConn
  split
  · exact OutsExt.refl _ s
  · exact (ne_closeOn s _).trans (oe_withRetryCounter _ _)

theorem ne_setSt (s : Sess) (v : St) : OutsExt NotWrite s (s.setSt v) := by
  unfold Sess.setSt; split
  · exact (OutsExt.emit s _ (by intro c b h; cases h)).trans (oe_withSt _ _)
  · exact oe_withSt s v

theorem ne_abortPending (s : Sess) : OutsExt NotWrite s s.abortPending := OutsExt.of_same (by simp)

theorem ne_connectTcp (s : Sess) : OutsExt NotWrite s s.connectTcp := by
  unfold connectTcp
  split
  · exact ⟨[.connect s.abortPending.conns.length], by simp [Sess.emit, withConns],
      by intro o ho; simp at ho; subst ho; intro c b h; cases h⟩
  · exact ne_abortPending s

theorem ne_manualStart (s : Sess) : OutsExt NotWrite s s.manualStart := by
  unfold manualStart
  split
  · exact OutsExt.emit s _ (by intro c b h; cases h)
  · exact ((((oe_withAllow s true).trans (oe_setRetry _ _)).trans (ne_setSt _ _)).trans
      (ne_connectTcp _)).trans (OutsExt.emit _ _ (by intro c b h; cases h))
  · exact OutsExt.emit s _ (by intro c b h; cases h)

theorem ne_manualStop (s : Sess) (hs : s.st ≠ .established) : OutsExt NotWrite s s.manualStop := by
  unfold manualStop
  rw [if_neg hs]
  exact (((((((oe_withTm s _).trans (ne_closeConn _)).trans (oe_withRetryCounter _ _)).trans
    (oe_withAllow _ _)).trans (ne_setSt _ _))).trans (ne_abortPending _)).trans (OutsExt.emit _ _ (by intro c b h; cases h))

/-! ### the sending views on a session whose tracked connection is up -/

theorem writeOn_norm {s : Sess} {i : Nat} (h : Norm s i) (b : Bytes) : s.writeOn i b = s.emit (.write i b) := by
  simp [writeOn, transportUp, h.up]

end Yabgp.Rest

namespace Yabgp.Rest
open Yabgp.Sess

/-- send/update that answers `{"status": true}`: the body was a JSON object, the encoder accepted the requested
    message (with the default LOCAL_PREF rule applied) and the only effect is one write of that encoding on the
    tracked connection plus the Updates counter -/
theorem viewSendUpdate_success {req : Request} {s : Sess} {i : Nat} (hn : Norm s i)
    (h : (viewSendUpdate req s).1.success = true) :
    ∃ o w, req.body = .obj o ∧ constructUpdate (s.conn i).asn4 false (requestedUpdate s.cfg o) = some w ∧
      viewSendUpdate req s = (ok .statusTrue, (s.emit (.write i w)).bumpSent i incUpdates) := by
  unfold viewSendUpdate at h ⊢
  cases hb : req.body with
  | noJson => simp [hb] at h
  | badJson => simp [hb] at h
  | nonObj k => simp [hb] at h
  | obj o =>
    simp only [hb] at h ⊢
    by_cases hmp : hasMp o.attr = true
    · simp [hmp] at h
    · simp only [hmp] at h ⊢
      by_cases hsd : sendable (requestedUpdate s.cfg o) = true
      · simp only [hsd, if_true] at h ⊢
        unfold updSend at h ⊢
        simp only [hn.proto] at h ⊢
        cases hc : constructUpdate (s.conn i).asn4 false (requestedUpdate s.cfg o) with
        | none => simp [hc] at h
        | some w =>
          refine ⟨o, w, rfl, hc, ?_⟩
          simp only [Bool.false_eq_true, if_false]
          rw [writeOn_norm hn]
      · simp [hsd] at h

/-- send/route-refresh that answers `{"status": true}` -/
theorem viewSendRouteRefresh_success {req : Request} {s : Sess} {i : Nat} (hn : Norm s i)
    (h : (viewSendRouteRefresh req s).1.success = true) :
    ∃ o a sf ty l w, req.body = .obj o ∧ o.afi = some a ∧ o.safi = some sf ∧ rrType s.remote = some ty ∧
      s.remote.afiSafi = some l ∧ (a, sf) ∈ l ∧ constructRouteRefresh ty a (o.res.getD 0) sf = some w ∧
      viewSendRouteRefresh req s = (ok .statusTrue, (s.emit (.write i w)).bumpSent i incRouteRefresh) := by
  unfold viewSendRouteRefresh at h ⊢
  cases hb : req.body with
  | noJson => simp [hb] at h
  | badJson => simp [hb] at h
  | nonObj k => cases k <;> simp [hb] at h
  | obj o =>
    simp only [hb] at h ⊢
    cases ha : o.afi with
    | none => simp [ha] at h
    | some a =>
      cases hsf : o.safi with
      | none => simp [ha, hsf] at h
      | some sf =>
        simp only [ha, hsf] at h ⊢
        unfold rrSend at h ⊢
        simp only [hn.proto] at h ⊢
        cases hty : rrType s.remote with
        | none => simp [hty] at h
        | some ty =>
          simp only [hty] at h ⊢
          cases hl : s.remote.afiSafi with
          | none => simp [hl] at h
          | some l =>
            simp only [hl] at h ⊢
            by_cases hmem : (a, sf) ∈ l
            · simp only [hmem, if_true] at h ⊢
              cases hc : constructRouteRefresh ty a (o.res.getD 0) sf with
              | none => simp [hc] at h
              | some w =>
                refine ⟨o, a, sf, ty, l, w, rfl, ha, hsf, rfl, rfl, hmem, hc, ?_⟩
                simp only []
                rw [writeOn_norm hn]
            · simp [hmem] at h

/-- send/bin_update that answers `{"status": true}`: the octets given go out unchanged and are counted as one UPDATE -/
theorem viewSendBinUpdate_success {req : Request} {s : Sess} {i : Nat} (hn : Norm s i)
    (h : (viewSendBinUpdate req s).1.success = true) :
    ∃ o b, req.body = .obj o ∧ o.bin = .bytes b ∧
      viewSendBinUpdate req s = (ok .statusTrue, if b = [] then s else (s.emit (.write i b)).bumpSent i incUpdates) := by
  unfold viewSendBinUpdate at h ⊢
  cases hb : req.body with
  | noJson => simp [hb] at h
  | badJson => simp [hb] at h
  | nonObj k => simp [hb] at h
  | obj o =>
    simp only [hb] at h ⊢
    cases hbin : o.bin with
    | absent => simp [hbin] at h
    | notText => simp [hbin] at h
    | notHex => simp [hbin] at h
    | bytes b =>
      refine ⟨o, b, rfl, hbin, ?_⟩
      simp only [binSend, hn.proto]
      by_cases hbe : b = []
      · simp [hbe]
      · simp only [hbe, if_false]
        rw [writeOn_norm hn]

theorem viewVersion_snd (req : Request) (s : Sess) : (viewVersion req s).2 = s := by
  unfold viewVersion; split
  · split <;> rfl
  · rfl

theorem viewStatistic_snd (s : Sess) : (viewStatistic s).2 = s := by
  unfold viewStatistic; split <;> rfl

theorem viewAdjRib_snd (req : Request) (s : Sess) : (viewAdjRib req s).2 = s := by
  unfold viewAdjRib; split <;> try rfl
  split <;> rfl

theorem updToBin_snd (s : Sess) (m : UpdMsg) : (updToBin s m).2 = s := by
  unfold updToBin; split
  · rfl
  · split <;> rfl

theorem viewJsonToBin_snd (req : Request) (s : Sess) : (viewJsonToBin req s).2 = s := by
  unfold viewJsonToBin; split <;> try rfl
  split
  · rfl
  · split
    · exact updToBin_snd s _
    · rfl

theorem viewManualStart_snd (s : Sess) : (viewManualStart s).2 = s.manualStart := by
  unfold viewManualStart; split <;> rfl

theorem viewManualStop_snd (s : Sess) : (viewManualStop s).2 = s ∨ (viewManualStop s).2 = s.manualStop := by
  unfold viewManualStop; split
  · exact Or.inl rfl
  · exact Or.inr rfl

/-- the views that are not send views leave the session alone or are the operator start / stop of the session model -/
theorem runView_state (v : View) (req : Request) (s : Sess) (hv : v.isSend = false) :
    (runView v req s).2 = s ∨ (runView v req s).2 = s.manualStart ∨ (runView v req s).2 = s.manualStop := by
  cases v <;> simp only [View.isSend, Bool.true_eq_false] at hv <;> simp only [runView]
  · exact Or.inl trivial
  · exact Or.inl (viewVersion_snd req s)
  · exact Or.inl (viewStatistic_snd s)
  · exact Or.inr (Or.inl (viewManualStart_snd s))
  · rcases viewManualStop_snd s with h | h
    · exact Or.inl h
    · exact Or.inr (Or.inr h)
  · exact Or.inl (viewAdjRib_snd req s)
  · exact Or.inl (viewAdjRib_snd req s)
  · exact Or.inl (viewJsonToBin_snd req s)
  · exact Or.inl trivial
  · exact Or.inl trivial
  · exact Or.inl trivial
  · exact Or.inl trivial

end Yabgp.Rest
