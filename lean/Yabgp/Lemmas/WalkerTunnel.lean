/-
  C08 for the tunnel-encapsulation constructor model (Model/Construct/Tunnel.lean): lemmas relating it to the
  walker's grammar of the attribute (tunnel TLV → sub-TLVs → segment sub-TLVs).
-/
import Yabgp.Lemmas.WalkerLemmas
import Yabgp.Model.Construct.Tunnel

namespace Yabgp.Walker
open Yabgp.Tunnel

theorem packI_length (n : Nat) (b : Bytes) (h : packI n = some b) : b.length = 4 := by
  unfold packI at h; split at h <;> simp at h; subst h; simp

theorem packB_length (n : Nat) (b : Bytes) (h : packB n = some b) : b.length = 1 := by
  unfold packB at h; split at h <;> simp at h; subst h; simp

theorem packed4_length (a : Mp.Ip) (b : Bytes) (h : packed4 a = some b) : b.length = 4 := by
  cases a with
  | v4 n => exact packI_length n b h
  | v6 n => simp [packed4] at h

theorem packed6_length (a : Mp.Ip) (b : Bytes) (h : packed6 a = some b) : b.length = 16 := by
  cases a with
  | v4 n => simp [packed6] at h
  | v6 n => simp only [packed6] at h; split at h <;> simp at h; subst h; simp

theorem optSid_length (s : Option Sid) (b : Bytes) (h : optSid s = some b) : b.length = 0 ∨ b.length = 4 := by
  cases s with
  | none => simp [optSid] at h; subst h; simp
  | some x => exact Or.inr (packI_length _ b h)

/-- a TLV with 1-octet type and length in front of anything -/
theorem seq_tlv11 (p : Nat → Bytes → Bool) (ty : Nat) (v : Bytes) (hty : ty < 256) (hl : v.length < 256)
    (hok : p ty v = true) : Seq (tlv11 p) ([u8 ty, u8 v.length] ++ v) := by
  refine Seq.single (by simp) (fun r => ?_)
  have h1 : (u8 ty).toNat = ty := u8_toNat hty
  have h2 : (u8 v.length).toNat = v.length := u8_toNat hl
  simp only [List.cons_append, List.nil_append, tlv11, h1, h2, List.take_left', List.drop_left', hok]
  simp

/-- a sub-TLV of type below 128: 1-octet length -/
theorem seq_sub_short (p : Nat → Bytes → Bool) (ty : Nat) (v : Bytes) (hty : ty < 128) (hl : v.length < 256)
    (hok : p ty v = true) : Seq (subTlv p) ([u8 ty, u8 v.length] ++ v) := by
  refine Seq.single (by simp) (fun r => ?_)
  have h1 : (u8 ty).toNat = ty := u8_toNat (by omega)
  have h2 : (u8 v.length).toNat = v.length := u8_toNat hl
  simp only [List.cons_append, List.nil_append, subTlv, h1, hty, ↓reduceIte, tlv11, h2, List.take_left',
    List.drop_left', hok]
  simp

/-- a sub-TLV of type 128 or above: 2-octet length -/
theorem seq_sub_long (p : Nat → Bytes → Bool) (ty : Nat) (v : Bytes) (hty : 128 ≤ ty) (hty' : ty < 256)
    (hl : v.length < 65536) (hok : p ty v = true) : Seq (subTlv p) ([u8 ty] ++ be16 v.length ++ v) := by
  refine Seq.single (by simp) (fun r => ?_)
  have h1 : (u8 ty).toNat = ty := u8_toNat hty'
  have h2 := u16_split v.length hl
  simp only [be16, List.cons_append, List.nil_append, subTlv, h1, show ¬ ty < 128 by omega, ↓reduceIte, tlv12, h2,
    List.take_left', List.drop_left', hok]
  simp

/-! ### segments -/

theorem seq_constructSeg (s : Seg) (b : Bytes) (h : constructSeg s = some b) : Seq (tlv11 segmentOk) b := by
  cases s with
  | mpls sid =>
    simp only [constructSeg] at h
    cases hv : packI sid.value with
    | none => simp [hv] at h
    | some v =>
      simp [hv] at h; subst h
      have hl := packI_length _ v hv
      have := seq_tlv11 segmentOk 1 ([0, 0] ++ v) (by decide) (by simp [hl]) (by simp [segmentOk, hl])
      simpa [hl, u8] using this
  | v4node node sid =>
    simp only [constructSeg] at h
    cases hn : packed4 node with
    | none => simp [hn] at h
    | some n =>
      cases hv : optSid sid with
      | none => simp [hn, hv] at h
      | some v =>
        simp only [hn, hv, Option.some.injEq] at h; subst h
        have h1 := packed4_length node n hn
        have h2 := optSid_length sid v hv
        have := seq_tlv11 segmentOk 3 ([0, 0] ++ n ++ v) (by decide) (by simp [h1]; omega)
          (by rcases h2 with e | e <;> simp [segmentOk, h1, e])
        have e : ([0, 0] ++ n ++ v).length = 6 + v.length := by simp [h1]; omega
        rw [e] at this
        simpa [u8] using this
  | v4index itf node sid =>
    simp only [constructSeg] at h
    cases hi : packI itf with
    | none => simp [hi] at h
    | some i =>
      cases hn : packed4 node with
      | none => simp [hi, hn] at h
      | some n =>
        cases hv : optSid sid with
        | none => simp [hi, hn, hv] at h
        | some v =>
          simp only [hi, hn, hv, Option.some.injEq] at h; subst h
          have h0 := packI_length itf i hi
          have h1 := packed4_length node n hn
          have h2 := optSid_length sid v hv
          have := seq_tlv11 segmentOk 5 ([0, 0] ++ i ++ n ++ v) (by decide) (by simp [h0, h1]; omega)
            (by rcases h2 with e | e <;> simp [segmentOk, h0, h1, e])
          have e : ([0, 0] ++ i ++ n ++ v).length = 10 + v.length := by simp [h0, h1]; omega
          rw [e] at this
          simpa [u8] using this
  | v4addr loc rem sid =>
    simp only [constructSeg] at h
    cases hi : packed4 loc with
    | none => simp [hi] at h
    | some i =>
      cases hn : packed4 rem with
      | none => simp [hi, hn] at h
      | some n =>
        cases hv : optSid sid with
        | none => simp [hi, hn, hv] at h
        | some v =>
          simp only [hi, hn, hv, Option.some.injEq] at h; subst h
          have h0 := packed4_length loc i hi
          have h1 := packed4_length rem n hn
          have h2 := optSid_length sid v hv
          have := seq_tlv11 segmentOk 6 ([0, 0] ++ i ++ n ++ v) (by decide) (by simp [h0, h1]; omega)
            (by rcases h2 with e | e <;> simp [segmentOk, h0, h1, e])
          have e : ([0, 0] ++ i ++ n ++ v).length = 10 + v.length := by simp [h0, h1]; omega
          rw [e] at this
          simpa [u8] using this
  | other ty => simp [constructSeg] at h; subst h; exact Seq.nil _

theorem seq_constructSegs (ss : List Seg) : ∀ b, constructSegs ss = some b → Seq (tlv11 segmentOk) b := by
  induction ss with
  | nil => intro b h; simp [constructSegs] at h; subst h; exact Seq.nil _
  | cons s r ih =>
    intro b h
    simp only [constructSegs] at h
    cases h1 : constructSeg s with
    | none => simp [h1] at h
    | some a =>
      cases h2 : constructSegs r with
      | none => simp [h1, h2] at h
      | some c =>
        simp [h1, h2] at h; subst h
        exact Seq.append (seq_constructSeg s a h1) (ih c h2)

theorem seq_constructWeight (w : Option Nat) (b : Bytes) (h : constructWeight w = some b) :
    Seq (tlv11 segmentOk) b := by
  cases w with
  | none => simp [constructWeight] at h; subst h; exact Seq.nil _
  | some x =>
    simp only [constructWeight] at h
    cases hv : packI x with
    | none => simp [hv] at h
    | some v =>
      simp [hv] at h; subst h
      have hl := packI_length _ v hv
      have := seq_tlv11 segmentOk 9 ([0, 0] ++ v) (by decide) (by simp [hl]) (by simp [segmentOk, hl])
      simpa [hl, u8] using this

/-! ### sub-TLVs of the SR policy tunnel -/

abbrev SubSeq (b : Bytes) : Prop := Seq (subTlv srPolicySubOk) b

theorem seq_constructSegList (l : SegList) (b : Bytes) (h : constructSegList l = some b) : SubSeq b := by
  unfold constructSegList at h
  cases hs : l.segs with
  | none => simp [hs] at h
  | some ss =>
    simp only [hs] at h
    cases hw : constructWeight l.weight with
    | none => simp [hw] at h
    | some w =>
      cases hg : constructSegs ss with
      | none => simp [hw, hg] at h
      | some s =>
        simp only [hw, hg] at h
        split at h
        · rename_i hlen
          simp only [Option.some.injEq] at h; subst h
          have hall : all (tlv11 segmentOk) (w ++ s) = true :=
            (Seq.append (seq_constructWeight l.weight w hw) (seq_constructSegs ss s hg)).all
          have := seq_sub_long srPolicySubOk 128 ([0] ++ w ++ s) (by decide) (by decide)
            (by simp; omega) (by simp [srPolicySubOk, hall])
          have e : ([0] ++ w ++ s).length = w.length + s.length + 1 := by simp
          rw [e] at this
          simpa [u8, List.append_assoc] using this
        · simp at h

theorem seq_constructSegLists (ls : List SegList) : ∀ b, constructSegLists ls = some b → SubSeq b := by
  induction ls with
  | nil => intro b h; simp [constructSegLists] at h; subst h; exact Seq.nil _
  | cons l r ih =>
    intro b h
    simp only [constructSegLists] at h
    cases h1 : constructSegList l with
    | none => simp [h1] at h
    | some a =>
      cases h2 : constructSegLists r with
      | none => simp [h1, h2] at h
      | some c =>
        simp [h1, h2] at h; subst h
        exact Seq.append (seq_constructSegList l a h1) (ih c h2)

theorem seq_sub6 (ty v : Nat) (b : Bytes) (hty : ty = 6 ∨ ty = 7 ∨ ty = 12 ∨ ty = 13) (h : sub6 ty v = some b) :
    SubSeq b := by
  unfold sub6 at h
  cases hv : packI v with
  | none => simp [hv] at h
  | some x =>
    simp [hv] at h; subst h
    have hl := packI_length _ x hv
    have := seq_sub_short srPolicySubOk ty ([0, 0] ++ x) (by omega) (by simp [hl])
      (by rcases hty with rfl | rfl | rfl | rfl <;> simp [srPolicySubOk, hl])
    simpa [hl, u8] using this

theorem seq_bindingSid (ty : Nat) (p : Policy) (b : Bytes) (hty : ty = 7 ∨ ty = 13) (h : bindingSid ty p = some b) :
    SubSeq b := by
  unfold bindingSid at h
  have hty' : ty = 6 ∨ ty = 7 ∨ ty = 12 ∨ ty = 13 := by omega
  cases h7 : p.k7 with
  | some v => simp only [h7] at h; exact seq_sub6 ty _ b hty' h
  | none =>
    simp only [h7] at h
    cases h13 : p.k13 with
    | some v => simp only [h13] at h; exact seq_sub6 ty _ b hty' h
    | none =>
      simp only [h13, Option.some.injEq] at h; subst h
      have := seq_sub_short srPolicySubOk ty [0, 0] (by omega) (by simp)
        (by rcases hty with rfl | rfl <;> simp [srPolicySubOk])
      simpa [u8] using this

theorem seq_oldBlock (p : Policy) (b : Bytes) (h : oldBlock p = some b) : SubSeq b := by
  unfold oldBlock at h
  simp only at h
  cases hb : bindingSid 7 p with
  | none => split at h <;> simp_all
  | some bs =>
    have hbs := seq_bindingSid 7 p bs (Or.inl rfl) hb
    cases h6 : p.k6 with
    | some k =>
      cases k with
      | num v =>
        simp only [h6, hb] at h
        cases hs : sub6 6 v with
        | none => simp [hs] at h
        | some a => simp [hs] at h; subst h; exact Seq.append (seq_sub6 6 v a (Or.inl rfl) hs) hbs
      | endpoint asn afi addr => simp [h6] at h
    | none =>
      simp only [h6, hb] at h
      cases h12 : p.k12 with
      | some v =>
        simp only [h12] at h
        cases hs : sub6 6 v with
        | none => simp [hs] at h
        | some a => simp [hs] at h; subst h; exact Seq.append (seq_sub6 6 v a (Or.inl rfl) hs) hbs
      | none => simp [h12] at h; subst h; simpa using hbs

theorem seq_remoteEndpoint (k : K6) (b : Bytes) (h : remoteEndpoint k = some b) : SubSeq b := by
  cases k with
  | num n => simp [remoteEndpoint] at h
  | endpoint asn afi addr =>
    simp only [remoteEndpoint] at h
    cases afi with
    | none => simp at h
    | some v6 =>
      cases v6 with
      | false =>
        simp only at h
        cases ha : packI asn with
        | none => simp [ha] at h
        | some a =>
          cases hx : packed4 addr with
          | none => simp [ha, hx] at h
          | some x =>
            simp only [ha, hx, Option.some.injEq] at h; subst h
            have h1 := packI_length asn a ha
            have h2 := packed4_length addr x hx
            have := seq_sub_short srPolicySubOk 6 (a ++ be16 1 ++ x) (by decide) (by simp [h1, h2])
              (by simp [srPolicySubOk, h1, h2])
            have e : (a ++ be16 1 ++ x).length = 10 := by simp [h1, h2]
            rw [e] at this
            simpa [u8, List.append_assoc] using this
      | true =>
        simp only at h
        cases ha : packI asn with
        | none => simp [ha] at h
        | some a =>
          cases hx : packed6 addr with
          | none => simp [ha, hx] at h
          | some x =>
            simp only [ha, hx, Option.some.injEq] at h; subst h
            have h1 := packI_length asn a ha
            have h2 := packed6_length addr x hx
            have := seq_sub_short srPolicySubOk 6 (a ++ be16 2 ++ x) (by decide) (by simp [h1, h2])
              (by simp [srPolicySubOk, h1, h2])
            have e : (a ++ be16 2 ++ x).length = 22 := by simp [h1, h2]
            rw [e] at this
            simpa [u8, List.append_assoc] using this

end Yabgp.Walker

namespace Yabgp.Walker
open Yabgp.Tunnel

theorem seq_optB14 (o : Option Nat) (b : Bytes) (h : optB o (fun x => [14, 3, 0, 0] ++ x) = some b) : SubSeq b := by
  cases o with
  | none => simp [optB] at h; subst h; exact Seq.nil _
  | some v =>
    simp only [optB] at h
    cases hv : packB v with
    | none => simp [hv] at h
    | some x =>
      simp [hv] at h; subst h
      have hl := packB_length v x hv
      have := seq_sub_short srPolicySubOk 14 ([0, 0] ++ x) (by decide) (by simp [hl]) (by simp [srPolicySubOk, hl])
      simpa [hl, u8] using this

theorem seq_optB15 (o : Option Nat) (b : Bytes) (h : optB o (fun x => [15, 2] ++ x ++ [0]) = some b) : SubSeq b := by
  cases o with
  | none => simp [optB] at h; subst h; exact Seq.nil _
  | some v =>
    simp only [optB] at h
    cases hv : packB v with
    | none => simp [hv] at h
    | some x =>
      simp [hv] at h; subst h
      have hl := packB_length v x hv
      have := seq_sub_short srPolicySubOk 15 (x ++ [0]) (by decide) (by simp [hl]) (by simp [srPolicySubOk, hl])
      simpa [hl, u8] using this

theorem seq_newBlock (p : Policy) (b : Bytes) (h : newBlock p = some b) : SubSeq b := by
  unfold newBlock at h
  simp only at h
  split at h
  · rename_i a bs c d e f h1 h2 h3 h4 h5 h6
    simp only [Option.some.injEq] at h; subst h
    have ha : SubSeq a := by
      cases h6' : p.k6 with
      | some k => simp [h6'] at h1; subst h1; exact Seq.nil _
      | none =>
        simp only [h6'] at h1
        cases h12 : p.k12 with
        | some v => simp only [h12] at h1; exact seq_sub6 12 v a (by omega) h1
        | none => simp [h12] at h1; subst h1; exact Seq.nil _
    have he : SubSeq e := by
      cases hn : p.k129 with
      | none => simp [hn] at h5; subst h5; exact Seq.nil _
      | some n =>
        simp only [hn] at h5
        split at h5
        · rename_i hlen
          simp only [Option.some.injEq] at h5; subst h5
          have := seq_sub_long srPolicySubOk 129 ([0] ++ n) (by decide) (by decide) (by simpa using hlen)
            (by simp [srPolicySubOk])
          have e' : ([0] ++ n).length = n.length + 1 := by simp
          rw [e'] at this
          simpa [u8, List.append_assoc] using this
        · simp at h5
    have hf : SubSeq f := by
      cases h6' : p.k6 with
      | none => simp [h6'] at h6; subst h6; exact Seq.nil _
      | some k => simp only [h6'] at h6; exact seq_remoteEndpoint k f h6
    exact Seq.append (Seq.append (Seq.append (Seq.append (Seq.append ha (seq_bindingSid 13 p bs (Or.inr rfl) h2))
      (seq_optB14 p.k14 c h3)) (seq_optB15 p.k15 d h4)) he) hf
  · simp at h

theorem seq_policyValue (p : Policy) (v : Bytes) (h : policyValue p = some v) : SubSeq v := by
  unfold policyValue at h
  cases hb : encBlock p with
  | none => simp [hb] at h
  | some a =>
    cases hs : segBlock p with
    | none => simp [hb, hs] at h
    | some s =>
      simp only [hb, hs, Option.some.injEq] at h
      have ha : SubSeq a := by
        unfold encBlock at hb
        split at hb
        · exact seq_oldBlock p a hb
        · exact seq_newBlock p a hb
        · simp at hb
      have hss : SubSeq s := by
        unfold segBlock at hs
        split at hs
        · simp at hs; subst hs; exact Seq.nil _
        · exact seq_constructSegLists _ s hs
      subst h
      split
      · exact Seq.append hss ha
      · exact Seq.append ha hss

end Yabgp.Walker
