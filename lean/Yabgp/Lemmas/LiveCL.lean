/-
  Liveness half of C02, control part (on the skeleton of Lemmas/Core.lean):

  * the invariant `CL`: in Connect some connection is live (an attempt in flight, or an open transport) - this excludes
    "Connect, retry timer armed, no connection at all", from which only a connect-retry period would lead on;
  * what the loss of the tracked, open connection does: the state machine is Idle afterwards and the automatic-start flag
    is untouched.
-/
import Yabgp.Lemmas.OneConn

namespace Yabgp
namespace Core

/-- in Connect there is a live connection -/
def CL (c : Core) : Prop := c.st = .connect → ∃ j, j < c.conns.length ∧ Live c j

theorem CL.of_ne {c : Core} (h : c.st ≠ .connect) : CL c := fun e => absurd e h

theorem CL.of_same {c c' : Core} (h : CL c) (hst : c'.st = c.st) (hc : c'.conns = c.conns) : CL c' := by
  intro e
  obtain ⟨j, hj, hl⟩ := h (hst ▸ e)
  refine ⟨j, by rw [hc]; exact hj, ?_⟩
  unfold Live conn at *
  rw [hc]; exact hl

/-- BGPPeering.connect outside Established starts an attempt -/
theorem live_connectTcp {c : Core} (h : c.st ≠ .established) :
    ∃ j, j < c.connectTcp.conns.length ∧ Live c.connectTcp j := by
  unfold connectTcp
  rw [if_pos (by simpa using h)]
  refine ⟨c.abortPending.conns.length, by simp, Or.inl ?_⟩
  simp [conn]

theorem cl_connectTcp {c : Core} (h : c.st ≠ .established) : CL c.connectTcp := fun _ => live_connectTcp h

theorem dropEstab_cases (c : Core) (p : Option Nat) :
    (c.dropEstab p).st = .idle ∨ (c.dropEstab p = c ∧ ∀ q, p = some q → c.estab ≠ some q) := by
  unfold dropEstab
  cases p with
  | none => exact Or.inr ⟨rfl, fun q h => by cases h⟩
  | some q =>
    simp only
    split
    · exact Or.inl rfl
    · rename_i h
      exact Or.inr ⟨rfl, fun q' hq => by cases hq; exact h⟩

theorem autoStart_true (c : Core) :
    (c.autoStart true).st = c.st ∧ (c.autoStart true).conns = c.conns ∧ (c.autoStart true).allow = c.allow := by
  unfold autoStart
  split
  · simp [setIdleHold]
  · exact ⟨rfl, rfl, rfl⟩

/-- BGPPeering.connection_closed: Idle afterwards, or nothing but (possibly) the idle-hold flag changed -/
theorem connectionClosed_cases (c : Core) (p : Option Nat) :
    (c.connectionClosed p).st = .idle ∨
    ((c.connectionClosed p).st = c.st ∧ (c.connectionClosed p).conns = c.conns ∧ ∀ q, p = some q → c.estab ≠ some q) := by
  unfold connectionClosed
  rcases dropEstab_cases c p with h | ⟨h, hq⟩
  · left
    split
    · rw [(autoStart_true _).1]; exact h
    · exact h
  · rw [h]
    right
    split
    · exact ⟨(autoStart_true _).1, (autoStart_true _).2.1, hq⟩
    · exact ⟨rfl, rfl, hq⟩

theorem connectionClosed_st (c : Core) (p : Option Nat) :
    (c.connectionClosed p).st = .idle ∨ (c.connectionClosed p).st = c.st := by
  rcases connectionClosed_cases c p with h | h
  · exact Or.inl h
  · exact Or.inr h.1

theorem dropEstab_allow (c : Core) (p : Option Nat) : (c.dropEstab p).allow = c.allow := by
  unfold dropEstab
  cases p with
  | none => rfl
  | some q => simp only; split <;> rfl

theorem connectionClosed_allow (c : Core) (p : Option Nat) : (c.connectionClosed p).allow = c.allow := by
  unfold connectionClosed
  split
  · rw [(autoStart_true _).2.2, dropEstab_allow]
  · exact dropEstab_allow c p

theorem errorClose_allow (c : Core) : c.errorClose.allow = c.allow := by
  simp [errorClose, withSt, withTm]

theorem connectionFailed_allow (c : Core) : c.connectionFailed.allow = c.allow := by
  unfold connectionFailed
  cases c.st <;> simp only [connectionClosed_allow, errorClose_allow] <;> simp [withSt, setRetry]

theorem connLost_allow (c : Core) (i : Nat) : (c.connLost i).allow = c.allow := by
  unfold connLost
  split
  · rw [connectionClosed_allow]; rfl
  · rw [connectionFailed_allow]; rfl

/-- FSM.connection_failed never ends in Connect -/
theorem connectionFailed_st_ne (c : Core) : c.connectionFailed.st ≠ .connect := by
  unfold connectionFailed
  cases hs : c.st <;> simp only
  · simp [hs]
  · rcases connectionClosed_st (((c.setRetry false).closeConn).withSt .idle) c.proto with h | h
    · rw [h]; simp
    · rw [h]; simp [withSt]
  · simp [withSt]
  · rcases connectionClosed_st (((c.closeConn).setRetry true).withSt .active) c.proto with h | h
    · rw [h]; simp
    · rw [h]; simp [withSt]
  · simp [errorClose, withSt]
  · simp [errorClose, withSt]

/-- the loss of the tracked (`protocol` and `estab_protocol`) connection outside Idle leaves the state machine Idle -/
theorem connLost_idle (c : Core) (i : Nat) (hp : c.proto = some i) (he : c.estab = some i) (hst : c.st ≠ .idle)
    (hna : c.st ≠ .active) : (c.connLost i).st = .idle := by
  have hdrop : ∀ (x : Core), x.estab = some i → (x.connectionClosed (some i)).st = .idle := by
    intro x hx
    rcases connectionClosed_cases x (some i) with h | ⟨_, _, h⟩
    · exact h
    · exact absurd hx (h i rfl)
  unfold connLost
  split
  · exact hdrop _ he
  · unfold connectionFailed
    have hp' : (c.setPhase i .closed).proto = some i := hp
    have hst' : (c.setPhase i .closed).st = c.st := rfl
    rw [hst', hp']
    cases hs : c.st <;> simp only
    · exact absurd hs hst
    · exact hdrop _ (by simp [withSt, setRetry]; exact he)
    · exact absurd hs hna
    · exact hdrop _ (by simp [withSt, setRetry]; exact he)
    · simp [errorClose, withSt]
    · simp [errorClose, withSt]

/-! ### `CL` is an invariant -/

theorem frameOutcome_same_or_ne {c o : Core} (ho : o ∈ c.frameOutcomes) : o = c ∨ o.st ≠ .connect := by
  simp only [frameOutcomes, List.mem_cons, List.not_mem_nil, or_false] at ho
  have herr : c.errorClose.st ≠ .connect := by simp [errorClose, withSt]
  rcases ho with rfl | rfl | rfl | rfl | rfl | rfl | rfl
  · exact Or.inl rfl
  · exact Or.inr herr
  · cases h : c.st <;> simp [fsmOpenReceived, h, errorClose, withSt, setRetry]
  · cases h : c.st <;> simp [fsmKeepaliveReceived, h, errorClose, withSt]
  · cases h : c.st <;> simp [fsmUpdateReceived, h, errorClose, withSt]
  · cases h : c.st <;> simp [fsmNotificationReceived, h, errorClose, withSt, setRetry]
  · unfold fsmNotificationReceived
    simp only [Bool.false_eq_true, ↓reduceIte]
    split
    · exact Or.inr herr
    · exact Or.inl rfl

theorem cl_frameOutcome {c : Core} (h : CL c) : ∀ o ∈ c.frameOutcomes, CL o := by
  intro o ho
  rcases frameOutcome_same_or_ne ho with rfl | h'
  · exact h
  · exact CL.of_ne h'

theorem cl_autoStart {c : Core} (h : CL c) (b : Bool) : CL (c.autoStart b) := by
  unfold autoStart
  split
  · split
    · exact h.of_same rfl rfl
    · split
      · exact cl_connectTcp (by simp [withSt])
      · exact h
  · exact h

theorem cl_stepOutcome {c : Core} (h : CL c) (ho1 : One c) (hpd : Pend c) (hh : Heal c) (e : Ev) (hen : enabledC c e) :
    ∀ o ∈ c.stepOutcome e, CL o := by
  intro o ho
  cases e with
  | boot =>
    simp only [stepOutcome, List.mem_singleton] at ho; subst ho
    exact cl_autoStart h false
  | manualStart =>
    simp only [stepOutcome, List.mem_singleton] at ho; subst ho
    unfold manualStart
    cases hs : c.st <;> simp only
    · exact cl_connectTcp (by simp [withSt])
    all_goals exact h
  | manualStop =>
    simp only [stepOutcome, List.mem_singleton] at ho; subst ho
    exact CL.of_ne (by simp [manualStop, withSt])
  | connOk i =>
    obtain ⟨hl, _⟩ := hen
    simp only [stepOutcome, List.mem_cons, List.not_mem_nil, or_false] at ho
    rcases ho with rfl | rfl
    · exact CL.of_ne (by simp [connOk, withSt])
    · intro _
      simp only [connOk, Bool.false_eq_true, ↓reduceIte]
      refine ⟨i, by simpa [setIdleHold, setRetry, withEstab, withSt, withProto, setPhase] using hl, Or.inr ?_⟩
      have : ((((((c.setPhase i .connected).withProto (some i)).withSt .connect).withEstab (some i)).setRetry false).setIdleHold
          false).conn i = (c.setPhase i .connected).conn i := rfl
      rw [this, conn_setPhase, if_pos ⟨rfl, hl⟩]
  | connFail i =>
    obtain ⟨hl, hph⟩ := hen
    simp only [stepOutcome, List.mem_singleton] at ho; subst ho
    unfold connFail
    split
    · exact CL.of_ne (connectionFailed_st_ne _)
    · rename_i hne
      exact absurd (hpd i hl hph) hne
  | lost i =>
    simp only [stepOutcome, List.mem_singleton] at ho; subst ho
    unfold connLost
    split
    · rename_i hd
      rcases connectionClosed_cases (c.setPhase i .closed) (some i) with h1 | ⟨h1, h2, h3⟩
      · exact CL.of_ne (by rw [h1]; simp)
      · intro hs
        rw [h1] at hs
        have hs' : c.st = .connect := hs
        obtain ⟨j, hj, hlj⟩ := h hs'
        have hne : i ≠ j := by
          intro e; subst e
          rcases hlj with hc | hc
          · have := hh.fresh i hc
            rw [this] at hd; cases hd
          · exact h3 i rfl (ho1.tracked i hj hc).2.1
        refine ⟨j, by rw [h2, len_setPhase]; exact hj, ?_⟩
        have : ((c.setPhase i .closed).connectionClosed (some i)).conn j = c.conn j := by
          simp only [conn, h2]
          have := conn_setPhase c i j .closed
          simp only [conn] at this
          rw [this, if_neg (fun hh' => hne hh'.1)]
        unfold Live; rw [this]; exact hlj
    · exact CL.of_ne (connectionFailed_st_ne _)
  | advance dt =>
    simp only [stepOutcome, List.mem_singleton] at ho; subst ho; exact h
  | chunk i d => simp [stepOutcome] at ho
  | fire t =>
    cases t with
    | retry =>
      simp only [stepOutcome, List.mem_singleton] at ho; subst ho
      unfold fireRetry
      cases hs : c.st <;> simp only
      · exact CL.of_ne (by simp [setRetry, hs])
      · exact cl_connectTcp (by simp [setRetry, hs])
      · exact cl_connectTcp (by simp [setRetry, hs])
      all_goals exact CL.of_ne (by simp [errorClose, withSt])
    | hold =>
      simp only [stepOutcome, List.mem_singleton] at ho; subst ho
      unfold fireHold
      cases hs : c.st <;> simp only
      · exact h
      all_goals exact CL.of_ne (by simp [errorClose, withSt])
    | keepalive =>
      simp only [stepOutcome, List.mem_singleton] at ho; subst ho
      unfold fireKeepalive
      cases hs : c.st <;> simp only
      all_goals first | exact h | exact CL.of_ne (by simp [errorClose, withSt])
    | idleHold =>
      simp only [stepOutcome, List.mem_singleton] at ho; subst ho
      unfold fireIdleHold
      split
      · exact cl_autoStart (c := c.setIdleHold false) (h.of_same rfl rfl) false
      · exact h.of_same rfl rfl

end Core
end Yabgp
