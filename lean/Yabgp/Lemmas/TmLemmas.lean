/-
  GENERATED-STYLE projection lemmas (written once by a script, checked by Lean like everything else): what each
  helper does to the timers (`tm`) and to the negotiated hold time.
-/
import Yabgp.Lemmas.StLemmas

namespace Yabgp
namespace Sess

@[simp] theorem tm_emit (s : Sess) (o : Out) : (s.emit o).tm = s.tm := rfl
@[simp] theorem tm_withSt (s : Sess) (v : St) : (s.withSt v).tm = s.tm := rfl
@[simp] theorem tm_withAllow (s : Sess) (v : Bool) : (s.withAllow v).tm = s.tm := rfl
@[simp] theorem tm_withRetryCounter (s : Sess) (v : Nat) : (s.withRetryCounter v).tm = s.tm := rfl
@[simp] theorem tm_incRetryCounter (s : Sess)  : (s.incRetryCounter).tm = s.tm := rfl
@[simp] theorem tm_withProto (s : Sess) (v : Option Nat) : (s.withProto v).tm = s.tm := rfl
@[simp] theorem tm_withEstab (s : Sess) (v : Option Nat) : (s.withEstab v).tm = s.tm := rfl
@[simp] theorem tm_withConns (s : Sess) (v : List Conn) : (s.withConns v).tm = s.tm := rfl
@[simp] theorem tm_withLocalCaps (s : Sess) (v : LocalCaps) : (s.withLocalCaps v).tm = s.tm := rfl
@[simp] theorem tm_withRemote (s : Sess) (v : CapaDict) : (s.withRemote v).tm = s.tm := rfl
@[simp] theorem tm_withBgpId (s : Sess) (v : Option Nat) : (s.withBgpId v).tm = s.tm := rfl
@[simp] theorem tm_withOuts (s : Sess) (v : List Out) : (s.withOuts v).tm = s.tm := rfl
@[simp] theorem tm_withNow (s : Sess) (v : Nat) : (s.withNow v).tm = s.tm := rfl
@[simp] theorem tm_setConn (s : Sess) (i : Nat) (c : Conn) : (s.setConn i c).tm = s.tm := rfl
@[simp] theorem tm_setPhase (s : Sess) (i : Nat) (p : Phase) : (s.setPhase i p).tm = s.tm := rfl
@[simp] theorem tm_setDisconnected (s : Sess) (i : Nat) : (s.setDisconnected i).tm = s.tm := rfl
@[simp] theorem tm_setAsn4 (s : Sess) (i : Nat) : (s.setAsn4 i).tm = s.tm := rfl
@[simp] theorem tm_bumpSent (s : Sess) (i : Nat) (g : Stats → Stats) : (s.bumpSent i g).tm = s.tm := rfl
@[simp] theorem tm_bumpRecv (s : Sess) (i : Nat) (g : Stats → Stats) : (s.bumpRecv i g).tm = s.tm := rfl
@[simp] theorem tm_withHoldTime (s : Sess) (v : Nat) : (s.withHoldTime v).tm = s.tm := rfl
@[simp] theorem tm_withTm (s : Sess) (v : Timers) : (s.withTm v).tm = v := rfl
@[simp] theorem tm_setRetry (s : Sess) (v : Option Nat) : (s.setRetry v).tm = { s.tm with retry := v } := rfl
@[simp] theorem tm_setHold (s : Sess) (v : Option Nat) : (s.setHold v).tm = { s.tm with hold := v } := rfl
@[simp] theorem tm_setKeepalive (s : Sess) (v : Option Nat) : (s.setKeepalive v).tm = { s.tm with keepalive := v } := rfl
@[simp] theorem tm_setIdleHold (s : Sess) (v : Option Nat) : (s.setIdleHold v).tm = { s.tm with idleHold := v } := rfl

@[simp] theorem tm_setSt (s : Sess) (v : St) : (s.setSt v).tm = s.tm := by
  unfold Sess.setSt; split <;> rfl
@[simp] theorem tm_writeOn (s : Sess) (i : Nat) (b : Bytes) : (s.writeOn i b).tm = s.tm := by
  unfold writeOn; split <;> rfl
@[simp] theorem tm_sendNotification (s : Sess) (e sub : Nat) (d : Bytes) : (s.sendNotification e sub d).tm = s.tm := by
  unfold sendNotification; split
  · rfl
  · split <;> simp
@[simp] theorem tm_sendKeepalive (s : Sess) : (s.sendKeepalive).tm = s.tm := by
  unfold sendKeepalive; split <;> simp
@[simp] theorem tm_closeOn (s : Sess) (i : Nat) : (s.closeOn i).tm = s.tm := by
  unfold closeOn; split
  · simp
  · split <;> simp
@[simp] theorem tm_closeConn (s : Sess) : (s.closeConn).tm = s.tm := by
  unfold closeConn; split <;> simp

@[simp] theorem holdTime_emit (s : Sess) (o : Out) : (s.emit o).holdTime = s.holdTime := rfl
@[simp] theorem holdTime_withSt (s : Sess) (v : St) : (s.withSt v).holdTime = s.holdTime := rfl
@[simp] theorem holdTime_withAllow (s : Sess) (v : Bool) : (s.withAllow v).holdTime = s.holdTime := rfl
@[simp] theorem holdTime_withRetryCounter (s : Sess) (v : Nat) : (s.withRetryCounter v).holdTime = s.holdTime := rfl
@[simp] theorem holdTime_incRetryCounter (s : Sess)  : (s.incRetryCounter).holdTime = s.holdTime := rfl
@[simp] theorem holdTime_withProto (s : Sess) (v : Option Nat) : (s.withProto v).holdTime = s.holdTime := rfl
@[simp] theorem holdTime_withEstab (s : Sess) (v : Option Nat) : (s.withEstab v).holdTime = s.holdTime := rfl
@[simp] theorem holdTime_withConns (s : Sess) (v : List Conn) : (s.withConns v).holdTime = s.holdTime := rfl
@[simp] theorem holdTime_withLocalCaps (s : Sess) (v : LocalCaps) : (s.withLocalCaps v).holdTime = s.holdTime := rfl
@[simp] theorem holdTime_withRemote (s : Sess) (v : CapaDict) : (s.withRemote v).holdTime = s.holdTime := rfl
@[simp] theorem holdTime_withBgpId (s : Sess) (v : Option Nat) : (s.withBgpId v).holdTime = s.holdTime := rfl
@[simp] theorem holdTime_withOuts (s : Sess) (v : List Out) : (s.withOuts v).holdTime = s.holdTime := rfl
@[simp] theorem holdTime_withNow (s : Sess) (v : Nat) : (s.withNow v).holdTime = s.holdTime := rfl
@[simp] theorem holdTime_setConn (s : Sess) (i : Nat) (c : Conn) : (s.setConn i c).holdTime = s.holdTime := rfl
@[simp] theorem holdTime_setPhase (s : Sess) (i : Nat) (p : Phase) : (s.setPhase i p).holdTime = s.holdTime := rfl
@[simp] theorem holdTime_setDisconnected (s : Sess) (i : Nat) : (s.setDisconnected i).holdTime = s.holdTime := rfl
@[simp] theorem holdTime_setAsn4 (s : Sess) (i : Nat) : (s.setAsn4 i).holdTime = s.holdTime := rfl
@[simp] theorem holdTime_bumpSent (s : Sess) (i : Nat) (g : Stats → Stats) : (s.bumpSent i g).holdTime = s.holdTime := rfl
@[simp] theorem holdTime_bumpRecv (s : Sess) (i : Nat) (g : Stats → Stats) : (s.bumpRecv i g).holdTime = s.holdTime := rfl
@[simp] theorem holdTime_withHoldTime (s : Sess) (v : Nat) : (s.withHoldTime v).holdTime = v := rfl
@[simp] theorem holdTime_withTm (s : Sess) (v : Timers) : (s.withTm v).holdTime = s.holdTime := rfl
@[simp] theorem holdTime_setRetry (s : Sess) (v : Option Nat) : (s.setRetry v).holdTime = s.holdTime := rfl
@[simp] theorem holdTime_setHold (s : Sess) (v : Option Nat) : (s.setHold v).holdTime = s.holdTime := rfl
@[simp] theorem holdTime_setKeepalive (s : Sess) (v : Option Nat) : (s.setKeepalive v).holdTime = s.holdTime := rfl
@[simp] theorem holdTime_setIdleHold (s : Sess) (v : Option Nat) : (s.setIdleHold v).holdTime = s.holdTime := rfl

@[simp] theorem holdTime_setSt (s : Sess) (v : St) : (s.setSt v).holdTime = s.holdTime := by
  unfold Sess.setSt; split <;> rfl
@[simp] theorem holdTime_writeOn (s : Sess) (i : Nat) (b : Bytes) : (s.writeOn i b).holdTime = s.holdTime := by
  unfold writeOn; split <;> rfl
@[simp] theorem holdTime_sendNotification (s : Sess) (e sub : Nat) (d : Bytes) : (s.sendNotification e sub d).holdTime = s.holdTime := by
  unfold sendNotification; split
  · rfl
  · split <;> simp
@[simp] theorem holdTime_sendKeepalive (s : Sess) : (s.sendKeepalive).holdTime = s.holdTime := by
  unfold sendKeepalive; split <;> simp
@[simp] theorem holdTime_closeOn (s : Sess) (i : Nat) : (s.closeOn i).holdTime = s.holdTime := by
  unfold closeOn; split
  · simp
  · split <;> simp
@[simp] theorem holdTime_closeConn (s : Sess) : (s.closeConn).holdTime = s.holdTime := by
  unfold closeConn; split <;> simp


@[simp] theorem now_sendNotification (s : Sess) (e sub : Nat) (d : Bytes) : (s.sendNotification e sub d).now = s.now :=
  (frm_sendNotification 0 s e sub d).scal.now
@[simp] theorem cfg_sendNotification (s : Sess) (e sub : Nat) (d : Bytes) : (s.sendNotification e sub d).cfg = s.cfg :=
  (frm_sendNotification 0 s e sub d).scal.cfg

@[simp] theorem tm_errorClose (s : Sess) :
    (s.errorClose).tm = { retry := none, hold := none, keepalive := none, idleHold := some s.idleDeadline } := by
  unfold errorClose; simp
@[simp] theorem holdTime_errorClose (s : Sess) : (s.errorClose).holdTime = s.holdTime := by
  unfold errorClose; simp

theorem idleDeadline_sendNotification (s : Sess) (e sub : Nat) (d : Bytes) :
    (s.sendNotification e sub d).idleDeadline = s.idleDeadline := by
  simp [idleDeadline]

@[simp] theorem tm_headerError (s : Sess) (sub : Nat) (d : Bytes) :
    (s.headerError sub d).tm = { retry := none, hold := none, keepalive := none, idleHold := some s.idleDeadline } := by
  unfold headerError; simp [idleDeadline_sendNotification]
@[simp] theorem tm_openMessageError (s : Sess) (sub : Nat) :
    (s.openMessageError sub).tm = { retry := none, hold := none, keepalive := none, idleHold := some s.idleDeadline } := by
  unfold openMessageError; simp [idleDeadline_sendNotification]
@[simp] theorem holdTime_headerError (s : Sess) (sub : Nat) (d : Bytes) : (s.headerError sub d).holdTime = s.holdTime := by
  unfold headerError; simp
@[simp] theorem holdTime_openMessageError (s : Sess) (sub : Nat) : (s.openMessageError sub).holdTime = s.holdTime := by
  unfold openMessageError; simp
@[simp] theorem holdTime_restartHold (s : Sess) : (s.restartHold).holdTime = s.holdTime := by
  unfold restartHold; split <;> simp

/-! the clock -/
@[simp] theorem now_emit (s : Sess) (o : Out) : (s.emit o).now = s.now := rfl
@[simp] theorem now_withSt (s : Sess) (v : St) : (s.withSt v).now = s.now := rfl
@[simp] theorem now_withTm (s : Sess) (v : Timers) : (s.withTm v).now = s.now := rfl
@[simp] theorem now_withHoldTime (s : Sess) (v : Nat) : (s.withHoldTime v).now = s.now := rfl
@[simp] theorem now_withRemote (s : Sess) (v : CapaDict) : (s.withRemote v).now = s.now := rfl
@[simp] theorem now_withRetryCounter (s : Sess) (v : Nat) : (s.withRetryCounter v).now = s.now := rfl
@[simp] theorem now_incRetryCounter (s : Sess) : (s.incRetryCounter).now = s.now := rfl
@[simp] theorem now_setRetry (s : Sess) (v : Option Nat) : (s.setRetry v).now = s.now := rfl
@[simp] theorem now_setHold (s : Sess) (v : Option Nat) : (s.setHold v).now = s.now := rfl
@[simp] theorem now_setKeepalive (s : Sess) (v : Option Nat) : (s.setKeepalive v).now = s.now := rfl
@[simp] theorem now_setIdleHold (s : Sess) (v : Option Nat) : (s.setIdleHold v).now = s.now := rfl
@[simp] theorem now_setConn (s : Sess) (i : Nat) (c : Conn) : (s.setConn i c).now = s.now := rfl
@[simp] theorem now_setAsn4 (s : Sess) (i : Nat) : (s.setAsn4 i).now = s.now := rfl
@[simp] theorem now_bumpSent (s : Sess) (i : Nat) (g : Stats → Stats) : (s.bumpSent i g).now = s.now := rfl
@[simp] theorem now_bumpRecv (s : Sess) (i : Nat) (g : Stats → Stats) : (s.bumpRecv i g).now = s.now := rfl
@[simp] theorem now_setSt (s : Sess) (v : St) : (s.setSt v).now = s.now := (frm_setSt 0 s v).scal.now
@[simp] theorem now_sendKeepalive (s : Sess) : (s.sendKeepalive).now = s.now := (frm_sendKeepalive 0 s).scal.now
@[simp] theorem now_closeConn (s : Sess) : (s.closeConn).now = s.now := (frm_closeConn 0 s).scal.now
@[simp] theorem now_errorClose (s : Sess) : (s.errorClose).now = s.now := (frm_errorClose 0 s).scal.now
@[simp] theorem now_restartHold (s : Sess) : (s.restartHold).now = s.now := (frm_restartHold 0 s).scal.now
@[simp] theorem now_headerError (s : Sess) (sub : Nat) (d : Bytes) : (s.headerError sub d).now = s.now :=
  (frm_headerError 0 s sub d).scal.now
@[simp] theorem now_openMessageError (s : Sess) (sub : Nat) : (s.openMessageError sub).now = s.now :=
  (frm_openMessageError 0 s sub).scal.now

end Sess
end Yabgp
