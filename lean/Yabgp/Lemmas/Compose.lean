/-
  Lemmas for C15: list decoders on concatenations.
-/
import Yabgp.Lemmas.RefRt
import Yabgp.Lemmas.OpenRt

namespace Yabgp
open Spec

/-! ### 32-bit word lists: COMMUNITIES, CLUSTER_LIST; triples: LARGE_COMMUNITY -/

theorem words32_append : ∀ (a b : Bytes), a.length % 4 = 0 → words32 (a ++ b) = words32 a ++ words32 b
  | [], b, _ => by simp [words32]
  | [_], _, h => by simp at h
  | [_, _], _, h => by simp at h
  | [_, _, _], _, h => by simp at h
  | x1 :: x2 :: x3 :: x4 :: r, b, h => by
    have := words32_append r b (by simp at h; omega)
    simp [words32, this]

theorem words32_length : ∀ (a : Bytes), (words32 a).length = a.length / 4
  | [] => by simp [words32]
  | [_] => by simp [words32]
  | [_, _] => by simp [words32]
  | [_, _, _] => by simp [words32]
  | x1 :: x2 :: x3 :: x4 :: r => by
    have := words32_length r
    simp [words32, this]; omega

theorem triples_append : ∀ (a b : List Nat), a.length % 3 = 0 → triples (a ++ b) = triples a ++ triples b
  | [], b, _ => by simp [triples]
  | [_], _, h => by simp at h
  | [_, _], _, h => by simp at h
  | x1 :: x2 :: x3 :: r, b, h => by
    have := triples_append r b (by simp at h; omega)
    simp [triples, this]

/-! ### AS_PATH segments -/

/-- the wire form of a list of segments (as in the reference encoder) -/
def segsWire (four : Bool) (segs : List (Nat × List Nat)) : Bytes :=
  segs.flatMap fun s => [u8 s.1, u8 s.2.length] ++ s.2.flatMap (asnBytes four)

theorem asnBytes_length (four : Bool) (xs : List Nat) :
    (xs.flatMap (asnBytes four)).length = xs.length * asWidth four := by
  induction xs with
  | nil => simp
  | cons a as ih =>
    simp only [List.flatMap_cons, List.length_append, ih, List.length_cons]
    unfold asnBytes asWidth; cases four <;> simp [be16, be32] <;> omega

theorem asnBytes_eq_encAsns (four : Bool) (xs : List Nat) : xs.flatMap (asnBytes four) = encAsns four xs := by
  unfold encAsns asnBytes; rfl

theorem parseAsPath_append (four : Bool) (segs : List (Nat × List Nat)) (b : Bytes)
    (hs : ∀ s ∈ segs, SegOk four s) :
    parseAsPath four (segsWire four segs ++ b) = (parseAsPath four b).map (segs ++ ·) := by
  induction segs with
  | nil =>
    simp only [segsWire, List.flatMap_nil, List.nil_append]
    cases parseAsPath four b <;> rfl
  | cons s rs ih =>
    obtain ⟨h1, h2, h3, h4⟩ := hs s (by simp)
    simp only [segsWire, List.flatMap_cons, List.append_assoc, List.cons_append, List.nil_append] at ih ⊢
    rw [parseAsPath_cons]
    have hl : (u8 s.2.length).toNat = s.2.length := u8_toNat h3
    have ht1 : (u8 s.1).toNat = s.1 := u8_toNat (by omega)
    have hlen := asnBytes_length four s.2
    rw [ht1, hl, if_neg (by omega), if_neg (by simp [hlen])]
    rw [List.drop_left' hlen, ih (fun q hq => hs q (by simp [hq]))]
    rw [asnBytes_eq_encAsns, decAsns_enc four s.2 _ h4]
    cases parseAsPath four b <;> rfl

/-! ### OPEN capabilities and optional parameters, for ARBITRARY capability TLVs -/

/-- one capability TLV -/
def rawCap (c : Nat × Bytes) : Bytes := [u8 c.1, u8 c.2.length] ++ c.2

/-- the capabilities applied in order (what decoding each alone, one after the other, does) -/
def applyCaps (st : Nat × CapaDict) : List (Nat × Bytes) → Except OErr (Nat × CapaDict)
  | [] => .ok st
  | c :: r =>
    match applyCap st.1 st.2 c.1 c.2 with
    | .ok st' => applyCaps st' r
    | .error e => .error e

theorem capsLoop_append (caps : List (Nat × Bytes)) (b : Bytes) :
    ∀ st, (∀ c ∈ caps, c.1 < 256 ∧ c.2.length < 256) →
      capsLoop st (caps.flatMap rawCap ++ b) =
        match applyCaps st caps with
        | .ok st' => capsLoop st' b
        | .error e => .error e := by
  induction caps with
  | nil => intro st _; simp [applyCaps]
  | cons c r ih =>
    intro st h
    obtain ⟨hc, hl⟩ := h c (by simp)
    simp only [List.flatMap_cons, rawCap, List.cons_append, List.nil_append, List.append_assoc]
    rw [capsLoop_cons, u8_toNat hc, u8_toNat hl, List.take_left' rfl, List.drop_left' rfl]
    simp only [applyCaps]
    cases applyCap st.1 st.2 c.1 c.2 with
    | error e => rfl
    | ok st' =>
      have := ih st' (fun y hy => h y (by simp [hy]))
      simpa [rawCap] using this

/-- one optional parameter of type 2 holding capability TLVs -/
def rawParam (p : List (Nat × Bytes)) : Bytes := [2, u8 (p.flatMap rawCap).length] ++ p.flatMap rawCap

theorem optParasLoop_append (params : List (List (Nat × Bytes))) (b : Bytes) :
    ∀ st, (∀ p ∈ params, (∀ c ∈ p, c.1 < 256 ∧ c.2.length < 256) ∧ (p.flatMap rawCap).length < 256) →
      optParasLoop st (params.flatMap rawParam ++ b) =
        match applyCaps st params.flatten with
        | .ok st' => optParasLoop st' b
        | .error e => .error e := by
  induction params with
  | nil => intro st _; simp [applyCaps]
  | cons p r ih =>
    intro st h
    obtain ⟨hp, hl⟩ := h p (by simp)
    simp only [List.flatMap_cons, rawParam, List.cons_append, List.nil_append, List.append_assoc]
    rw [optParasLoop_cons, u8_toNat hl]
    have h2 : (2 : UInt8).toNat = 2 := rfl
    rw [h2]
    simp only [ne_eq, not_true_eq_false, ↓reduceIte]
    rw [List.take_left' rfl, List.drop_left' rfl]
    have hc := capsLoop_append p [] st hp
    simp only [List.append_nil] at hc
    rw [hc]
    simp only [List.flatten_cons]
    have happ : ∀ (xs ys : List (Nat × Bytes)) (s : Nat × CapaDict),
        applyCaps s (xs ++ ys) = match applyCaps s xs with
                                  | .ok s' => applyCaps s' ys
                                  | .error e => .error e := by
      intro xs
      induction xs with
      | nil => intro ys s; simp [applyCaps]
      | cons x t iht =>
        intro ys s
        simp only [List.cons_append, applyCaps]
        cases applyCap s.1 s.2 x.1 x.2 with
        | error e => rfl
        | ok s' => exact iht ys s'
    rw [happ]
    cases applyCaps st p with
    | error e => simp [capsLoop_nil]
    | ok st' =>
      simp only [capsLoop_nil]
      have := ih st' (fun y hy => h y (by simp [hy]))
      simpa [rawParam] using this

/-! ### dictionaries built from attributes in different orders -/

theorem dictGet_append_fresh (d : List (Nat × AttrVal)) (k : Nat) (v : AttrVal) (k' : Nat) :
    dictGet (d ++ [(k, v)]) k' = match dictGet d k' with
                                 | some x => some x
                                 | none => if k = k' then some v else none := by
  induction d with
  | nil => simp [dictGet]
  | cons kv r ih =>
    obtain ⟨a, b⟩ := kv
    simp only [List.cons_append, dictGet]
    split
    · rfl
    · exact ih

/-- looking a key up in an association list with distinct keys only depends on the set of pairs -/
theorem dictGet_of_mem {d : List (Nat × AttrVal)} (hnd : (d.map (·.1)).Nodup) {k : Nat} {v : AttrVal}
    (h : (k, v) ∈ d) : dictGet d k = some v := by
  induction d with
  | nil => simp at h
  | cons kv r ih =>
    obtain ⟨a, b⟩ := kv
    simp only [List.map_cons, List.nodup_cons] at hnd
    simp only [List.mem_cons, Prod.mk.injEq] at h
    simp only [dictGet]
    rcases h with ⟨rfl, rfl⟩ | h
    · simp
    · have hne : a ≠ k := by
        intro e; subst e
        exact hnd.1 (List.mem_map.mpr ⟨(a, v), h, rfl⟩)
      simp only [hne, ↓reduceIte]
      exact ih hnd.2 h

theorem dictGet_none_of_not_mem {d : List (Nat × AttrVal)} {k : Nat} (h : k ∉ d.map (·.1)) : dictGet d k = none := by
  induction d with
  | nil => rfl
  | cons kv r ih =>
    obtain ⟨a, b⟩ := kv
    simp only [List.map_cons, List.mem_cons, not_or] at h
    simp only [dictGet]
    rw [if_neg (fun e => h.1 e.symm)]
    exact ih h.2

theorem dictGet_perm {d e : List (Nat × AttrVal)} (hp : d.Perm e) (hnd : (d.map (·.1)).Nodup) (k : Nat) :
    dictGet d k = dictGet e k := by
  have hnde : (e.map (·.1)).Nodup := (hp.map _).nodup_iff.mp hnd
  by_cases hk : k ∈ d.map (·.1)
  · obtain ⟨⟨a, v⟩, hm, rfl⟩ := List.mem_map.mp hk
    rw [dictGet_of_mem hnd hm, dictGet_of_mem hnde (hp.mem_iff.mp hm)]
  · have hk' : k ∉ e.map (·.1) := fun h => hk ((hp.map _).mem_iff.mpr h)
    rw [dictGet_none_of_not_mem hk, dictGet_none_of_not_mem hk']

end Yabgp
