/-
  "Nothing escapes" (C10) over whole histories: no action of the session model ever appends the marker `Out.escaped`
  (a Python exception leaving a Twisted callback) provided each send helper is called with the tracked connection up -
  the same side condition, discharged by the same reachable-state invariants, as for the sent counters (Lemmas/SentBal*.lean).
  `NE s s'`: the outputs of `s'` extend those of `s` by items none of which is `escaped`.
-/
import Yabgp.Lemmas.SentBal2

namespace Yabgp
namespace Sess

def isEsc : Out → Bool
  | .escaped => true
  | _ => false

/-- the outputs were extended, and nothing that was appended is the escape marker -/
def NE (s s' : Sess) : Prop := ∃ l, s'.outs = s.outs ++ l ∧ ∀ o ∈ l, isEsc o = false

theorem NE.refl (s : Sess) : NE s s := ⟨[], by simp, by simp⟩

theorem NE.trans {a b c : Sess} (h1 : NE a b) (h2 : NE b c) : NE a c := by
  obtain ⟨l1, ho1, hw1⟩ := h1
  obtain ⟨l2, ho2, hw2⟩ := h2
  refine ⟨l1 ++ l2, by rw [ho2, ho1, List.append_assoc], ?_⟩
  intro o ho
  rcases List.mem_append.mp ho with h | h
  · exact hw1 o h
  · exact hw2 o h

/-- (so that proofs written for the balance relation of Lemmas/SentBal.lean can be reused word for word) -/
theorem NE.bal {s s' : Sess} (h : NE s s') : NE s s' := h

theorem NE.of_same {s s' : Sess} (ho : s'.outs = s.outs) : NE s s' := ⟨[], by simp [ho], by simp⟩

theorem ne_emit (s : Sess) (o : Out) (h : isEsc o = false) : NE s (s.emit o) := ⟨[o], rfl, by simpa using h⟩

theorem ne_setConn (s : Sess) (j : Nat) (c : Conn) : NE s (s.setConn j c) := NE.of_same rfl
theorem ne_setPhase (s : Sess) (j : Nat) (p : Phase) : NE s (s.setPhase j p) := NE.of_same rfl
theorem ne_setDisconnected (s : Sess) (j : Nat) : NE s (s.setDisconnected j) := NE.of_same rfl
theorem ne_setAsn4 (s : Sess) (j : Nat) : NE s (s.setAsn4 j) := NE.of_same rfl
theorem ne_bumpRecv (s : Sess) (j : Nat) (g : Stats → Stats) : NE s (s.bumpRecv j g) := NE.of_same rfl
theorem ne_bumpSent (s : Sess) (j : Nat) (g : Stats → Stats) : NE s (s.bumpSent j g) := NE.of_same rfl

theorem ne_withTm (s : Sess) (v : Timers) : NE s (s.withTm v) := NE.of_same rfl
theorem ne_withSt (s : Sess) (v : St) : NE s (s.withSt v) := NE.of_same rfl
theorem ne_withNow (s : Sess) (v : Nat) : NE s (s.withNow v) := NE.of_same rfl
theorem ne_withAllow (s : Sess) (v : Bool) : NE s (s.withAllow v) := NE.of_same rfl
theorem ne_withRetryCounter (s : Sess) (v : Nat) : NE s (s.withRetryCounter v) := NE.of_same rfl
theorem ne_incRetryCounter (s : Sess) : NE s (s.incRetryCounter) := NE.of_same rfl
theorem ne_withHoldTime (s : Sess) (v : Nat) : NE s (s.withHoldTime v) := NE.of_same rfl
theorem ne_withProto (s : Sess) (v : Option Nat) : NE s (s.withProto v) := NE.of_same rfl
theorem ne_withEstab (s : Sess) (v : Option Nat) : NE s (s.withEstab v) := NE.of_same rfl
theorem ne_withPending (s : Sess) (v : Option Nat) : NE s (s.withPending v) := NE.of_same rfl
theorem ne_withLocalCaps (s : Sess) (v : LocalCaps) : NE s (s.withLocalCaps v) := NE.of_same rfl
theorem ne_withRemote (s : Sess) (v : CapaDict) : NE s (s.withRemote v) := NE.of_same rfl
theorem ne_withBgpId (s : Sess) (v : Option Nat) : NE s (s.withBgpId v) := NE.of_same rfl
theorem ne_setRetry (s : Sess) (v : Option Nat) : NE s (s.setRetry v) := NE.of_same rfl
theorem ne_setHold (s : Sess) (v : Option Nat) : NE s (s.setHold v) := NE.of_same rfl
theorem ne_setKeepalive (s : Sess) (v : Option Nat) : NE s (s.setKeepalive v) := NE.of_same rfl
theorem ne_setIdleHold (s : Sess) (v : Option Nat) : NE s (s.setIdleHold v) := NE.of_same rfl

theorem ne_setSt (s : Sess) (v : St) : NE s (s.setSt v) := by
  unfold setSt
  split
  · exact (ne_emit s _ rfl).trans (ne_withSt _ _)
  · exact ne_withSt _ _

theorem ne_restartHold (s : Sess) : NE s (s.restartHold) := by
  unfold restartHold
  split
  · exact ne_setHold _ _
  · exact NE.refl _

theorem ne_closeOn (s : Sess) (j : Nat) : NE s (s.closeOn j) := by
  unfold closeOn
  split
  · exact ((ne_setPhase s j _).trans (ne_setDisconnected _ j)).trans (ne_emit _ _ rfl)
  · split
    · exact ne_setDisconnected _ _
    · exact NE.refl _

theorem ne_closeConn (s : Sess) : NE s (s.closeConn) := by
  unfold closeConn
  split
  · exact NE.refl _
  · exact (ne_closeOn s _).trans (ne_withRetryCounter _ _)

theorem ne_errorClose (s : Sess) : NE s (s.errorClose) := by
  unfold errorClose
  exact (((ne_withTm s _).trans (ne_closeConn _)).trans (ne_incRetryCounter _)).trans (ne_setSt _ _)

theorem ne_abortPending (s : Sess) : NE s (s.abortPending) := by
  unfold abortPending
  split
  · exact NE.refl _
  · split
    · exact (ne_withPending s _).trans (ne_setPhase _ _ _)
    · exact ne_withPending _ _

theorem ne_addConn (s : Sess) : NE s (s.withConns (s.conns ++ [({} : Conn)])) := NE.of_same rfl

theorem ne_connectTcp (s : Sess) : NE s (s.connectTcp) := by
  unfold connectTcp
  split
  · exact (((ne_abortPending s).trans (ne_addConn _)).trans (ne_emit _ _ rfl)).trans (ne_withPending _ _)
  · exact ne_abortPending s

theorem ne_autoStart (s : Sess) (b : Bool) : NE s (s.autoStart b) := by
  unfold autoStart
  split
  · split
    · exact ne_setIdleHold _ _
    · split
      · exact (((ne_incRetryCounter s).trans (ne_setRetry _ _)).trans (ne_setSt _ _)).trans (ne_connectTcp _)
      · exact NE.refl _
  · exact NE.refl _

theorem ne_dropEstab (s : Sess) (p : Option Nat) : NE s (s.dropEstab p) := by
  unfold dropEstab
  split
  · split
    · exact (ne_withEstab s _).trans (ne_setSt _ _)
    · exact NE.refl _
  · exact NE.refl _

theorem ne_connectionClosed (s : Sess) (p : Option Nat) : NE s (s.connectionClosed p) := by
  unfold connectionClosed
  split
  · exact (ne_dropEstab s p).trans (ne_autoStart _ _)
  · exact ne_dropEstab s p

theorem ne_connectionFailed (s : Sess) : NE s (s.connectionFailed) := by
  unfold connectionFailed
  split
  · exact (((ne_setRetry s _).trans (ne_closeConn _)).trans (ne_setSt _ _)).trans (ne_connectionClosed _ _)
  · exact (ne_setRetry s _).trans (ne_setSt _ _)
  · exact ((((ne_closeConn s).trans (ne_setRetry _ _)).trans (ne_setHold _ _)).trans (ne_setSt _ _)).trans (ne_connectionClosed _ _)
  · exact ne_errorClose _
  · exact ne_errorClose _
  · exact NE.refl _

theorem ne_manualStart (s : Sess) : NE s (s.manualStart) := by
  unfold manualStart
  split
  · exact ne_emit _ _ rfl
  · exact ((((ne_withAllow s _).trans (ne_setRetry _ _)).trans (ne_setSt _ _)).trans (ne_connectTcp _)).trans
      (ne_emit _ _ rfl)
  · exact ne_emit _ _ rfl

theorem ne_connFail (s : Sess) (i : Nat) : NE s (s.connFail i) := by
  unfold connFail
  split
  · exact (((ne_withPending s _).trans (ne_setPhase _ _ _)).trans (ne_emit _ _ rfl)).trans (ne_connectionFailed _)
  · exact ne_setPhase _ _ _

theorem ne_connLost (s : Sess) (i : Nat) : NE s (s.connLost i) := by
  unfold connLost
  split
  · exact ((ne_setPhase s _ _).trans (ne_emit _ _ rfl)).trans (ne_connectionClosed _ _)
  · exact ((ne_setPhase s _ _).trans (ne_emit _ _ rfl)).trans (ne_connectionFailed _)

theorem ne_fireIdleHold (s : Sess) : NE s (s.fireIdleHold) := by
  unfold fireIdleHold
  split
  · exact (ne_setIdleHold s _).trans (ne_autoStart _ _)
  · exact ne_setIdleHold _ _


end Sess
end Yabgp
