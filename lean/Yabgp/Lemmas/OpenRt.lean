/-
  Lemmas for C14: the capability value decoders invert the reference encoders.
-/
import Yabgp.Spec.RfcOpen
import Yabgp.Lemmas.Basic

namespace Yabgp
open Spec

theorem capsLoop_nil (st : Nat × CapaDict) : capsLoop st [] = .ok st := by rw [capsLoop]

theorem capsLoop_cons (st : Nat × CapaDict) (c l : UInt8) (rest : Bytes) :
    capsLoop st (c :: l :: rest) =
      match applyCap st.1 st.2 c.toNat (rest.take l.toNat) with
      | .ok st' => capsLoop st' (rest.drop l.toNat)
      | .error e => .error e := by
  conv => lhs; rw [capsLoop]
  split <;> simp_all

theorem optParasLoop_nil (st : Nat × CapaDict) : optParasLoop st [] = .ok st := by rw [optParasLoop]

theorem optParasLoop_cons (st : Nat × CapaDict) (t l : UInt8) (rest : Bytes) :
    optParasLoop st (t :: l :: rest) =
      if t.toNat ≠ 2 then .error (.open C.openUnsupOptParam)
      else
        match capsLoop st (rest.take l.toNat) with
        | .ok st' => optParasLoop st' (rest.drop l.toNat)
        | .error e => .error e := by
  conv => lhs; rw [optParasLoop]
  split
  · rfl
  · split <;> simp_all

theorem be16_toNat {n : Nat} (h : n < 65536) : (u8 (n / 256)).toNat * 256 + (u8 n).toNat = n := by
  simp only [u8_toNat_mod]; omega

theorem addPath_step (acc : List (Nat × Nat × Nat)) (a s d : Nat) (rest : Bytes)
    (hafi : a < 65536) (hsafi : s < 256) (hd : d < 256) (hl : rest.length % 4 = 0) :
    addPathLoop acc (be16 a ++ be8 s ++ be8 d ++ rest) =
      addPathLoop (if Spec.addPathKnown (a, s, d) then acc ++ [(a, s, d)] else acc) rest := by
  simp only [be16, be8, List.cons_append, List.nil_append]
  rw [addPathLoop]
  have : (u8 (a / 256) :: u8 a :: u8 s :: u8 d :: rest).length % 4 = 0 := by simp; omega
  rw [if_pos this, be16_toNat hafi, u8_toNat hsafi, u8_toNat hd]
  by_cases hk : (a, s) ∈ afiSafiKnown ∧ 1 ≤ d ∧ d ≤ 3
  · rw [if_pos hk, if_pos (by simpa [Spec.addPathKnown] using hk)]
  · rw [if_neg hk, if_neg (by simpa [Spec.addPathKnown] using hk)]

theorem addPath_flat_len (l : List (Nat × Nat × Nat)) :
    (l.flatMap fun t => be16 t.1 ++ be8 t.2.1 ++ be8 t.2.2).length = 4 * l.length := by
  induction l with
  | nil => rfl
  | cons x r ih => rw [List.flatMap_cons, List.length_append, ih]; simp; omega

theorem addPathLoop_enc (l : List (Nat × Nat × Nat)) :
    ∀ acc, (∀ t ∈ l, t.1 < 65536 ∧ t.2.1 < 256 ∧ t.2.2 < 256) →
      addPathLoop acc (l.flatMap fun t => be16 t.1 ++ be8 t.2.1 ++ be8 t.2.2) = .ok (acc ++ l.filter Spec.addPathKnown) := by
  induction l with
  | nil => intro acc _; simp [addPathLoop]
  | cons t r ih =>
    intro acc h
    obtain ⟨hk, h1, h3⟩ := h t (by simp)
    rw [List.flatMap_cons]
    rw [addPath_step acc t.1 t.2.1 t.2.2 _ hk h1 h3 (by rw [addPath_flat_len]; omega)]
    rw [ih _ (fun y hy => h y (by simp [hy]))]
    by_cases hkn : Spec.addPathKnown (t.1, t.2.1, t.2.2) = true
    · rw [if_pos hkn, List.filter_cons_of_pos (by simpa using hkn)]; simp
    · rw [if_neg hkn, List.filter_cons_of_neg (by simpa using hkn)]

theorem llgr_step (acc : List (Nat × Nat × Nat)) (a s f t : Nat) (rest : Bytes)
    (h1 : a < 65536) (h2 : s < 256) (h4 : t < 16777216) :
    llgrLoop acc (be16 a ++ be8 s ++ be8 f ++ be24 t ++ rest) = llgrLoop (acc ++ [(a, s, t)]) rest := by
  simp only [be16, be8, be24, List.cons_append, List.nil_append]
  rw [llgrLoop, be16_toNat h1, u8_toNat h2]
  have e3 : (u8 (t / 65536)).toNat * 65536 + (u8 (t / 256)).toNat * 256 + (u8 t).toNat = t := by
    simp only [u8_toNat_mod]; omega
  rw [e3]

theorem llgrLoop_enc (l : List (Nat × Nat × Nat × Nat)) :
    ∀ acc, (∀ t ∈ l, t.1 < 65536 ∧ t.2.1 < 256 ∧ t.2.2.1 < 256 ∧ t.2.2.2 < 16777216) →
      llgrLoop acc (l.flatMap fun t => be16 t.1 ++ be8 t.2.1 ++ be8 t.2.2.1 ++ be24 t.2.2.2)
        = acc ++ l.map (fun t => (t.1, t.2.1, t.2.2.2)) := by
  induction l with
  | nil => intro acc _; simp [llgrLoop]
  | cons t r ih =>
    intro acc h
    obtain ⟨h1, h2, _, h4⟩ := h t (by simp)
    rw [List.flatMap_cons, llgr_step acc _ _ _ _ _ h1 h2 h4]
    rw [ih _ (fun y hy => h y (by simp [hy]))]
    simp

theorem extNh_step (acc : List (Nat × Nat × Nat)) (a s n : Nat) (rest : Bytes)
    (h1 : a < 65536) (h2 : s < 65536) (h3 : n < 65536) :
    extNhLoop acc (be16 a ++ be16 s ++ be16 n ++ rest) = extNhLoop (acc ++ [(a, s, n)]) rest := by
  simp only [be16, List.cons_append, List.nil_append]
  rw [extNhLoop, be16_toNat h1, be16_toNat h2, be16_toNat h3]

theorem extNhLoop_enc (l : List (Nat × Nat × Nat)) :
    ∀ acc, (∀ t ∈ l, t.1 < 65536 ∧ t.2.1 < 65536 ∧ t.2.2 < 65536) →
      extNhLoop acc (l.flatMap fun t => be16 t.1 ++ be16 t.2.1 ++ be16 t.2.2) = .ok (acc ++ l) := by
  induction l with
  | nil => intro acc _; simp [extNhLoop]
  | cons t r ih =>
    intro acc h
    obtain ⟨h1, h2, h3⟩ := h t (by simp)
    rw [List.flatMap_cons, extNh_step acc _ _ _ _ h1 h2 h3]
    rw [ih _ (fun y hy => h y (by simp [hy]))]
    simp

end Yabgp

namespace Yabgp
open Spec

theorem applyCap_ref (st : Nat × CapaDict) (c : Cap) (h : CapOk c) :
    applyCap st.1 st.2 c.code c.value = .ok (applyRef st c) := by
  cases c with
  | mp afi safi =>
    obtain ⟨h1, h2⟩ := h
    simp only [Cap.code, Cap.value, applyCap, be16, be8, List.cons_append, List.nil_append,
      Nat.reduceEqDiff, ↓reduceIte, applyRef, be16_toNat h1, u8_toNat h2]
  | routeRefresh => simp [Cap.code, Cap.value, applyCap, applyRef]
  | ciscoRouteRefresh => simp [Cap.code, Cap.value, applyCap, applyRef]
  | enhancedRouteRefresh => simp [Cap.code, Cap.value, applyCap, applyRef]
  | gracefulRestart b => simp [Cap.code, Cap.value, applyCap, applyRef]
  | ciscoMultiSession b => simp [Cap.code, Cap.value, applyCap, applyRef]
  | as4 asn =>
    have h' : asn < 4294967296 := h
    simp [Cap.code, Cap.value, applyCap, applyRef, unpackI_be32 h']
  | addPath l =>
    obtain ⟨h1, _⟩ := h
    simp only [Cap.code, Cap.value, applyCap, Nat.reduceEqDiff, ↓reduceIte, applyRef,
      addPathLoop_enc l _ h1]
  | llgr l =>
    obtain ⟨h1, _⟩ := h
    simp only [Cap.code, Cap.value, applyCap, Nat.reduceEqDiff, ↓reduceIte, applyRef,
      llgrLoop_enc l [] h1, List.nil_append]
  | extNextHop l =>
    obtain ⟨h1, _⟩ := h
    simp only [Cap.code, Cap.value, applyCap, Nat.reduceEqDiff, ↓reduceIte, applyRef,
      extNhLoop_enc l [] h1, List.nil_append]
  | unknown code b =>
    obtain ⟨_, h2, _⟩ := h
    simp only [List.mem_cons, List.not_mem_nil, or_false, not_or] at h2
    obtain ⟨a1, a2, a3, a4, a5, a6, a7, a8, a9, a10⟩ := h2
    simp [Cap.code, Cap.value, applyCap, applyRef, a1, a2, a3, a4, a5, a6, a7, a8, a9, a10]

end Yabgp

namespace Yabgp
open Spec

theorem llgr_flat_len (l : List (Nat × Nat × Nat × Nat)) :
    (l.flatMap fun t => be16 t.1 ++ be8 t.2.1 ++ be8 t.2.2.1 ++ be24 t.2.2.2).length = 7 * l.length := by
  induction l with
  | nil => rfl
  | cons x r ih => rw [List.flatMap_cons, List.length_append, ih]; simp; omega

theorem extNh_flat_len (l : List (Nat × Nat × Nat)) :
    (l.flatMap fun t => be16 t.1 ++ be16 t.2.1 ++ be16 t.2.2).length = 6 * l.length := by
  induction l with
  | nil => rfl
  | cons x r ih => rw [List.flatMap_cons, List.length_append, ih]; simp; omega

theorem capValue_len (c : Cap) (h : CapOk c) : c.value.length < 256 := by
  cases c with
  | mp afi safi => simp [Cap.value]
  | routeRefresh => simp [Cap.value]
  | ciscoRouteRefresh => simp [Cap.value]
  | enhancedRouteRefresh => simp [Cap.value]
  | gracefulRestart b => exact h
  | ciscoMultiSession b => exact h
  | as4 asn => simp [Cap.value]
  | addPath l => obtain ⟨_, h2⟩ := h; simp only [Cap.value, addPath_flat_len]; omega
  | llgr l => obtain ⟨_, h2⟩ := h; simp only [Cap.value, llgr_flat_len]; omega
  | extNextHop l => obtain ⟨_, h2⟩ := h; simp only [Cap.value, extNh_flat_len]; omega
  | unknown code b => exact h.2.2

theorem capCode_lt (c : Cap) (h : CapOk c) : c.code < 256 := by
  cases c <;> simp [Cap.code]
  exact h.1

theorem capsLoop_enc (caps : List Cap) :
    ∀ st, (∀ c ∈ caps, CapOk c) → capsLoop st (caps.flatMap encCap) = .ok (caps.foldl applyRef st) := by
  induction caps with
  | nil => intro st _; simp [capsLoop_nil]
  | cons c r ih =>
    intro st h
    have hc := h c (by simp)
    rw [List.flatMap_cons]
    simp only [encCap, be8, List.cons_append, List.nil_append, List.append_assoc]
    rw [capsLoop_cons, u8_toNat (capCode_lt c hc), u8_toNat (capValue_len c hc)]
    rw [List.take_left' rfl, List.drop_left' rfl, applyCap_ref st c hc]
    simp only [List.foldl_cons]
    exact ih _ (fun y hy => h y (by simp [hy]))

theorem optParasLoop_enc (params : List (List Cap)) :
    ∀ st, (∀ p ∈ params, (∀ c ∈ p, CapOk c) ∧ (p.flatMap encCap).length < 256) →
      optParasLoop st (params.flatMap encParam) = .ok (params.flatten.foldl applyRef st) := by
  induction params with
  | nil => intro st _; simp [optParasLoop_nil]
  | cons p r ih =>
    intro st h
    obtain ⟨hp, hl⟩ := h p (by simp)
    rw [List.flatMap_cons]
    simp only [encParam, be8, List.cons_append, List.nil_append, List.append_assoc]
    rw [optParasLoop_cons, u8_toNat hl]
    have h2 : (2 : UInt8).toNat = 2 := rfl
    rw [h2]
    simp only [ne_eq, not_true_eq_false, ↓reduceIte]
    rw [List.take_left' rfl, List.drop_left' rfl, capsLoop_enc p st hp]
    simp only [List.flatten_cons, List.foldl_append]
    exact ih _ (fun y hy => h y (by simp [hy]))

end Yabgp
