/-
  Where the BGP-LS attribute is decoded inside Update.parse_attributes (Model/Tlv.lean `parseAttrsLs`):
  characterisation of the result for a list that contains one LINK_STATE attribute, and permutation invariance of
  the two things that result depends on.
-/
import Yabgp.Lemmas.TlvLemmas

namespace Yabgp.Tlv
open Yabgp

variable {β γ ε : Type}

/-- `bgpls_pro_id` after one more attribute -/
def proStep (acc : Option Nat) : Item β → Option Nat
  | .mpReach _ p => if truthy p then p else acc
  | _ => acc

def finalPro (init : Option Nat) (items : List (Item β)) : Option Nat := items.foldl proStep init

/-- the protocol id the attribute list yields: that of its MP_REACH_NLRI when truthy, else None -/
def proOf (items : List (Item β)) : Option Nat := finalPro none items

/-- the dictionary entry of an attribute other than LINK_STATE -/
def plainOf : Item β → Option (Nat × Dec β γ)
  | .mpReach v _ => some (14, .val v)
  | .other c v => some (c, .val v)
  | .linkState _ => none

theorem finalPro_cons (init : Option Nat) (it : Item β) (r : List (Item β)) :
    finalPro init (it :: r) = finalPro (proStep init it) r := rfl

theorem finalPro_append (init : Option Nat) (xs ys : List (Item β)) :
    finalPro init (xs ++ ys) = finalPro (finalPro init xs) ys := by
  simp [finalPro, List.foldl_append]

theorem finalPro_noMp (init : Option Nat) (r : List (Item β)) (h : ∀ v p, Item.mpReach v p ∉ r) :
    finalPro init r = init := by
  induction r generalizing init with
  | nil => rfl
  | cons it r ih =>
    rw [finalPro_cons]
    have hr : ∀ v p, Item.mpReach v p ∉ r := fun v p hm => h v p (by simp [hm])
    cases it with
    | mpReach v p => exact absurd (by simp) (h v p)
    | linkState b => exact ih init hr
    | other c v => exact ih init hr

theorem code_mem_of_mem {it : Item β} {r : List (Item β)} (h : it ∈ r) : it.code ∈ r.map Item.code :=
  List.mem_map.mpr ⟨it, h, rfl⟩

theorem finalPro_of_mem (init : Option Nat) (r : List (Item β)) (hn : (r.map Item.code).Nodup)
    (v : β) (p : Option Nat) (hm : Item.mpReach v p ∈ r) :
    finalPro init r = if truthy p then p else init := by
  induction r generalizing init with
  | nil => simp at hm
  | cons it r ih =>
    simp only [List.map_cons, List.nodup_cons] at hn
    rw [finalPro_cons]
    rcases List.mem_cons.mp hm with h | h
    · subst h
      have : ∀ v' p', Item.mpReach v' p' ∉ r := fun v' p' hm' => hn.1 (by simpa [Item.code] using code_mem_of_mem hm')
      rw [finalPro_noMp _ r this]
      rfl
    · have hc : it.code ≠ 14 := fun hc => hn.1 (by rw [hc]; simpa [Item.code] using code_mem_of_mem h)
      have : proStep init it = init := by
        cases it with
        | mpReach v' p' => exact absurd rfl hc
        | linkState b => rfl
        | other c w => rfl
      rw [this]
      exact ih init hn.2 h

theorem truthy_finalPro_mem (r : List (Item β)) (h : truthy (finalPro none r) = true) :
    ∃ v p, Item.mpReach v p ∈ r := by
  apply Classical.byContradiction
  intro hno
  have : ∀ v p, Item.mpReach v p ∉ r := fun v p hm => hno ⟨v, p, hm⟩
  rw [finalPro_noMp none r this] at h
  simp [truthy] at h

/-- a loop over attributes none of which is LINK_STATE -/
theorem paLoop_noLs (lsDec : Option Nat → Bytes → Except ε γ) (s : PaState β γ) (r : List (Item β))
    (h : ∀ b, Item.linkState b ∉ r) :
    paLoop lsDec s r =
      .ok { pro := finalPro s.pro r, deferred := s.deferred, attrs := s.attrs ++ r.filterMap plainOf } := by
  induction r generalizing s with
  | nil => simp [paLoop, finalPro]
  | cons it r ih =>
    have hr : ∀ b, Item.linkState b ∉ r := fun b hm => h b (by simp [hm])
    cases it with
    | mpReach v p =>
      simp only [paLoop, paStep]
      rw [ih _ hr]
      simp [finalPro_cons, proStep, plainOf]
    | linkState b => exact absurd (by simp) (h b)
    | other c v =>
      simp only [paLoop, paStep]
      rw [ih _ hr]
      simp [finalPro_cons, proStep, plainOf]

theorem paLoop_append (lsDec : Option Nat → Bytes → Except ε γ) (s : PaState β γ) (xs ys : List (Item β)) :
    paLoop lsDec s (xs ++ ys) =
      match paLoop lsDec s xs with
      | .ok s' => paLoop lsDec s' ys
      | .error e => .error e := by
  induction xs generalizing s with
  | nil => simp [paLoop]
  | cons it r ih =>
    simp only [List.cons_append, paLoop]
    cases paStep lsDec s it with
    | ok s' => exact ih s'
    | error e => rfl

theorem plain_keys_sub (r : List (Item β)) (k : Nat) (h : k ∉ r.map Item.code) :
    k ∉ ((r.filterMap (plainOf (γ := γ))).map (·.1)) := by
  induction r with
  | nil => simp
  | cons it r ih =>
    simp only [List.map_cons, List.mem_cons, not_or] at h
    cases it with
    | mpReach v p =>
      simp only [List.filterMap_cons, plainOf, List.map_cons, List.mem_cons, not_or]
      exact ⟨by simpa [Item.code] using h.1, ih h.2⟩
    | linkState b => simpa [List.filterMap_cons, plainOf] using ih h.2
    | other c v =>
      simp only [List.filterMap_cons, plainOf, List.map_cons, List.mem_cons, not_or]
      exact ⟨by simpa [Item.code] using h.1, ih h.2⟩

theorem plain_keys_sublist (r : List (Item β)) :
    ((r.filterMap (plainOf (γ := γ))).map (·.1)).Sublist (r.map Item.code) := by
  induction r with
  | nil => simp
  | cons it r ih =>
    cases it with
    | mpReach v p => simpa [List.filterMap_cons, plainOf, Item.code] using ih
    | linkState b =>
      simp only [List.filterMap_cons, plainOf, List.map_cons]
      exact List.Sublist.cons _ ih
    | other c v => simpa [List.filterMap_cons, plainOf, Item.code] using ih

/-- the result of the attribute loop (as repaired) on a list with one LINK_STATE attribute, anywhere -/
theorem parseAttrsLs_position (lsDec : Option Nat → Bytes → Except ε γ)
    (pre post : List (Item β)) (b : Bytes)
    (hn : ((pre ++ Item.linkState b :: post).map Item.code).Nodup) :
    match lsDec (proOf (pre ++ post)) b with
    | .ok g =>
        ∃ d, parseAttrsLs false lsDec (pre ++ Item.linkState b :: post) = .ok d ∧
          pyGet 29 d = some (.ls g) ∧
          ∀ k, k ≠ 29 → pyGet k d = pyGet k ((pre ++ post).filterMap (plainOf (γ := γ)))
    | .error e =>
        ∃ part, parseAttrsLs false lsDec (pre ++ Item.linkState b :: post) = .error (e, part) := by
  -- what distinct codes give
  simp only [List.map_append, List.map_cons, Item.code] at hn
  have hnd := List.nodup_append.mp hn
  have hpre : (pre.map Item.code).Nodup := hnd.1
  have hcons := List.nodup_cons.mp hnd.2.1
  have h29post : 29 ∉ post.map Item.code := hcons.1
  have hpost : (post.map Item.code).Nodup := hcons.2
  have h29pre : 29 ∉ pre.map Item.code := fun h => hnd.2.2 29 h 29 (by simp) rfl
  have hdisj : ∀ c, c ∈ pre.map Item.code → c ∉ post.map Item.code :=
    fun c h1 h2 => hnd.2.2 c h1 c (by simp [h2]) rfl
  have nolsPre : ∀ b', Item.linkState b' ∉ pre := fun b' hm => h29pre (by simpa [Item.code] using code_mem_of_mem hm)
  have nolsPost : ∀ b', Item.linkState b' ∉ post := fun b' hm => h29post (by simpa [Item.code] using code_mem_of_mem hm)
  have k29pre : pyGet 29 (pre.filterMap (plainOf (γ := γ))) = none :=
    pyGet_none_of_not_mem _ _ (plain_keys_sub pre 29 h29pre)
  have k29post : pyGet 29 (post.filterMap (plainOf (γ := γ))) = none :=
    pyGet_none_of_not_mem _ _ (plain_keys_sub post 29 h29post)
  -- the loop up to the LINK_STATE attribute
  have hloop1 := paLoop_noLs lsDec ({} : PaState β γ) pre nolsPre
  simp only [List.nil_append] at hloop1
  have hpro : proOf (pre ++ post) = finalPro (finalPro none pre) post := finalPro_append none pre post
  unfold parseAttrsLs
  rw [paLoop_append, hloop1]
  simp only [paLoop, paStep]
  by_cases ht : truthy (finalPro none pre) = true
  · -- protocol id already known: decoded inside the loop
    obtain ⟨v, p, hmp⟩ := truthy_finalPro_mem pre ht
    have nompPost : ∀ v' p', Item.mpReach v' p' ∉ post := fun v' p' hm =>
      hdisj 14 (by simpa [Item.code] using code_mem_of_mem hmp) (by simpa [Item.code] using code_mem_of_mem hm)
    rw [hpro, finalPro_noMp _ post nompPost]
    simp only [ht, ↓reduceIte]
    cases hd : lsDec (finalPro none pre) b with
    | error e => exact ⟨_, rfl⟩
    | ok g =>
      simp only
      rw [paLoop_noLs lsDec _ post nolsPost]
      simp only [paFinish]
      refine ⟨_, rfl, ?_, ?_⟩
      · rw [pyGet_append, k29post, pyGet_append]; simp [pyGet]
      · intro k hk
        rw [List.filterMap_append, pyGet_append, pyGet_append (xs := pre.filterMap plainOf), pyGet_append]
        have : pyGet k [((29 : Nat), (Dec.ls g : Dec β γ))] = none := by
          simp [pyGet, Ne.symm hk]
        rw [this]
  · -- not known yet: deferred, decoded after the loop with the final protocol id
    simp only [ht, Bool.false_eq_true, ↓reduceIte]
    rw [paLoop_noLs lsDec _ post nolsPost]
    simp only [paFinish, Bool.false_and, Bool.false_eq_true, ↓reduceIte]
    rw [hpro]
    cases hd : lsDec (finalPro (finalPro none pre) post) b with
    | error e => exact ⟨_, rfl⟩
    | ok g =>
      simp only
      refine ⟨_, rfl, ?_, ?_⟩
      · rw [pyGet_append]; simp [pyGet]
      · intro k hk
        rw [List.filterMap_append, pyGet_append]
        have : pyGet k [((29 : Nat), (Dec.ls g : Dec β γ))] = none := by
          simp [pyGet, Ne.symm hk]
        rw [this]

theorem proOf_perm (xs ys : List (Item β)) (hp : xs.Perm ys) (hn : (xs.map Item.code).Nodup) :
    proOf xs = proOf ys := by
  have hny : (ys.map Item.code).Nodup := (hp.map Item.code).nodup_iff.mp hn
  unfold proOf
  by_cases h : ∃ v p, Item.mpReach v p ∈ xs
  · obtain ⟨v, p, hm⟩ := h
    rw [finalPro_of_mem none xs hn v p hm, finalPro_of_mem none ys hny v p (hp.mem_iff.mp hm)]
  · have hx : ∀ v p, Item.mpReach v p ∉ xs := fun v p hm => h ⟨v, p, hm⟩
    have hy : ∀ v p, Item.mpReach v p ∉ ys := fun v p hm => h ⟨v, p, hp.mem_iff.mpr hm⟩
    rw [finalPro_noMp none xs hx, finalPro_noMp none ys hy]

theorem pyGet_plain_perm (xs ys : List (Item β)) (hp : xs.Perm ys) (hn : (xs.map Item.code).Nodup) (k : Nat) :
    pyGet k (xs.filterMap (plainOf (γ := γ))) = pyGet k (ys.filterMap (plainOf (γ := γ))) := by
  have hny : (ys.map Item.code).Nodup := (hp.map Item.code).nodup_iff.mp hn
  have hkx : ((xs.filterMap (plainOf (γ := γ))).map (·.1)).Nodup := (plain_keys_sublist xs).nodup hn
  have hky : ((ys.filterMap (plainOf (γ := γ))).map (·.1)).Nodup := (plain_keys_sublist ys).nodup hny
  have hpf : (xs.filterMap (plainOf (γ := γ))).Perm (ys.filterMap (plainOf (γ := γ))) := hp.filterMap _
  by_cases h : k ∈ (xs.filterMap (plainOf (γ := γ))).map (·.1)
  · obtain ⟨⟨k', v⟩, hm, rfl⟩ := List.mem_map.mp h
    rw [pyGet_of_mem_nodup k' v _ hkx hm, pyGet_of_mem_nodup k' v _ hky (hpf.mem_iff.mp hm)]
  · have h' : k ∉ (ys.filterMap (plainOf (γ := γ))).map (·.1) := fun hm => h ((hpf.map _).mem_iff.mpr hm)
    rw [pyGet_none_of_not_mem k _ h, pyGet_none_of_not_mem k _ h']

end Yabgp.Tlv
