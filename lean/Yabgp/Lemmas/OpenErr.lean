/-
  Open.parse only ever raises the error sub-codes the RFC defines (all below 256), so the NOTIFICATION that answers
  a rejected OPEN can always be constructed.
-/
import Yabgp.Model.Open

namespace Yabgp

/-- the sub-code carried by a header / OPEN error is a single octet -/
def OErr.small : OErr → Prop
  | .hdr s => s < 256
  | .open s => s < 256
  | .other => True

theorem addPathLoop_err (acc : List (Nat × Nat × Nat)) (v : Bytes) (e : OErr) (h : addPathLoop acc v = .error e) :
    e = .other := by
  fun_induction addPathLoop acc v with
  | case1 acc a b c d r _ _ ih => exact ih h
  | case2 acc a b c d r _ _ ih => exact ih h
  | case3 acc a b c d r _ => cases h
  | case4 acc v _ => cases h

/-- an ADD-PATH capability never makes Open.parse fail, whatever families and send/receive values it lists -/
theorem addPathLoop_total (acc : List (Nat × Nat × Nat)) (v : Bytes) : ∃ l, addPathLoop acc v = .ok l := by
  cases h : addPathLoop acc v with
  | ok l => exact ⟨l, rfl⟩
  | error e =>
    exfalso
    fun_induction addPathLoop acc v with
    | case1 acc a b c d r _ _ ih => exact ih h
    | case2 acc a b c d r _ _ ih => exact ih h
    | case3 acc a b c d r _ => cases h
    | case4 acc v _ => cases h

theorem extNhLoop_err (acc : List (Nat × Nat × Nat)) (v : Bytes) (e : OErr) (h : extNhLoop acc v = .error e) :
    e = .other := by
  fun_induction extNhLoop acc v with
  | case1 acc => cases h
  | case2 acc a b c d e' f r ih => exact ih h
  | case3 acc v _ _ => injection h with h; exact h.symm

theorem applyCap_err (asn : Nat) (d : CapaDict) (code : Nat) (v : Bytes) (e : OErr)
    (h : applyCap asn d code v = .error e) : e = .other := by
  unfold applyCap at h
  by_cases c65 : code = 65
  · rw [if_pos c65] at h
    split at h
    · cases h
    · injection h with h; exact h.symm
  rw [if_neg c65] at h
  by_cases c1 : code = 1
  · rw [if_pos c1] at h
    split at h
    · cases h
    · injection h with h; exact h.symm
  rw [if_neg c1] at h
  by_cases c2 : code = 2
  · rw [if_pos c2] at h; cases h
  rw [if_neg c2] at h
  by_cases c128 : code = 128
  · rw [if_pos c128] at h; cases h
  rw [if_neg c128] at h
  by_cases c64 : code = 64
  · rw [if_pos c64] at h; cases h
  rw [if_neg c64] at h
  by_cases c131 : code = 131
  · rw [if_pos c131] at h; cases h
  rw [if_neg c131] at h
  by_cases c70 : code = 70
  · rw [if_pos c70] at h; cases h
  rw [if_neg c70] at h
  by_cases c69 : code = 69
  · rw [if_pos c69] at h
    split at h
    · cases h
    · rename_i e' he; injection h with h; subst h; exact addPathLoop_err _ _ _ he
  rw [if_neg c69] at h
  by_cases c71 : code = 71
  · rw [if_pos c71] at h; cases h
  rw [if_neg c71] at h
  by_cases c5 : code = 5
  · rw [if_pos c5] at h
    split at h
    · cases h
    · rename_i e' he; injection h with h; subst h; exact extNhLoop_err _ _ _ he
  rw [if_neg c5] at h
  cases h

theorem capsLoop_err (st : Nat × CapaDict) (b : Bytes) (e : OErr) (h : capsLoop st b = .error e) : e.small := by
  fun_induction capsLoop st b with
  | case1 st => cases h
  | case2 st x => injection h with h; subst h; show C.hdrBadLen < 256; decide
  | case3 st c l rest st' hst ih => exact ih h
  | case4 st c l rest e' he =>
    injection h with h; subst h
    rw [applyCap_err _ _ _ _ _ he]; trivial

theorem optParasLoop_err (st : Nat × CapaDict) (b : Bytes) (e : OErr) (h : optParasLoop st b = .error e) : e.small := by
  fun_induction optParasLoop st b with
  | case1 st => cases h
  | case2 st x => injection h with h; subst h; trivial
  | case3 st t l rest ht => injection h with h; subst h; show C.openUnsupOptParam < 256; decide
  | case4 st t l rest ht st' hst ih => exact ih h
  | case5 st t l rest ht e' he => injection h with h; subst h; exact capsLoop_err _ _ _ he

theorem parseOpen_err (msg : Bytes) (e : OErr) (h : parseOpen msg = .error e) : e.small := by
  unfold parseOpen at h
  split at h
  · split at h
    · injection h with h; subst h; show C.openBadVersion < 256; decide
    · split at h
      · injection h with h; subst h; show C.openBadPeerAs < 256; decide
      · split at h
        · cases h
        · split at h
          · cases h
          · rename_i e' he
            injection h with h; subst h
            exact optParasLoop_err _ _ _ he
  · injection h with h; subst h; show C.hdrBadLen < 256; decide

end Yabgp
