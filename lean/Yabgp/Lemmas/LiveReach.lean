/-
  Liveness half of C02: the package `Reach cfg w` of everything the liveness proof uses about a reachable state of the
  world (session state + receive buffers), shown to hold after the agent's first start and to be kept by every event the
  environment can produce:

    Heal, One, Pend   (Lemmas/Heal.lean, Lemmas/OneConn.lean: never stuck / at most one live connection / attempts remembered)
    CL                (Lemmas/LiveCL.lean: in Connect some connection is live)
    TB, BI            (Lemmas/LiveEvo.lean: idle-hold deadline within one period; BGP identifier unset or the configured one)
    cfg, caps         (Props/C05.lean: the configuration never changes, capabilities are only ever dropped)
    RB                (here: a connection whose receive buffer is not empty exists and is not a pending attempt)
-/
import Yabgp.Props.C01b
import Yabgp.Lemmas.LiveCL
import Yabgp.Lemmas.LiveEvo
import Yabgp.Lemmas.LiveOpen

namespace Yabgp
open Sess

variable (U : Bool → Bytes → UpdClass)

/-- only connections that have been up can have anything in their receive buffer -/
def RB (w : World) : Prop := ∀ j, w.rbuf j ≠ [] → j < w.sess.conns.length ∧ (w.sess.conn j).phase ≠ .connecting

structure Reach (cfg : Cfg) (w : World) : Prop where
  heal : Core.Heal (core w.sess)
  one : Core.One (core w.sess)
  pend : Core.Pend (core w.sess)
  cl : Core.CL (core w.sess)
  tb : TB w.sess
  bi : BI w.sess
  hcfg : w.sess.cfg = cfg
  caps : CapsLe w.sess.localCaps cfg.caps0
  rb : RB w

theorem cl_step (w : World) (e : Ev) (hen : enabled w.sess e = true)
    (h : Core.One (core w.sess)) (hp : Core.Pend (core w.sess)) (hh : Core.Heal (core w.sess)) (hc : Core.CL (core w.sess)) :
    Core.CL (core (step U w e).sess) :=
  let r := core_step_inv U (fun c => ((Core.One c ∧ Core.Pend c) ∧ Core.Heal c) ∧ Core.CL c)
    (fun _ hc o ho => ⟨⟨⟨Core.one_frameOutcome hc.1.1.1 o ho, Core.pend_frameOutcome hc.1.1.2 o ho⟩,
      Core.heal_frameOutcome hc.1.2 o ho⟩, Core.cl_frameOutcome hc.2 o ho⟩) w e hen
    (fun hc he o ho => ⟨⟨Core.one_stepOutcome hc.1.1.1 hc.1.1.2 hc.1.2 e he o ho, Core.heal_stepOutcome hc.1.2 e he o ho⟩,
      Core.cl_stepOutcome hc.2 hc.1.1.1 hc.1.1.2 hc.1.2 e he o ho⟩)
    ⟨⟨⟨h, hp⟩, hh⟩, hc⟩
  r.2

theorem rb_step (w : World) (e : Ev) (hen : enabled w.sess e = true) (h : RB w) : RB (step U w e) := by
  have hev := evo_step U w e
  have key : ∀ j, j < w.sess.conns.length → (w.sess.conn j).phase ≠ .connecting →
      j < (step U w e).sess.conns.length ∧ ((step U w e).sess.conn j).phase ≠ .connecting :=
    fun j hj hp => ⟨Nat.lt_of_lt_of_le hj hev.len, hev.phase j hj hp⟩
  intro j hj
  by_cases hr : (step U w e).rbuf j = w.rbuf j
  · rw [hr] at hj
    obtain ⟨a, b⟩ := h j hj
    exact key j a b
  · cases e with
    | chunk c d =>
      have hjc : j = c := by
        apply Classical.byContradiction
        intro hne
        apply hr
        simp [step, setRbuf, hne]
      subst hjc
      simp only [enabled, decide_eq_true_eq] at hen
      exact key j hen.1 (by rw [hen.2]; simp)
    | boot => exact absurd rfl hr
    | manualStart => exact absurd rfl hr
    | manualStop => exact absurd rfl hr
    | connOk c => exact absurd rfl hr
    | connFail c => exact absurd rfl hr
    | lost c => exact absurd rfl hr
    | advance dt => exact absurd rfl hr
    | fire t => cases t <;> exact absurd rfl hr

theorem reach_step {cfg : Cfg} (w : World) (e : Ev) (hen : enabled w.sess e = true) (h : Reach cfg w) :
    Reach cfg (step U w e) := by
  have hop := one_step U w e hen h.one h.pend h.heal
  have hev := evo_step U w e
  have hc := step_caps_le U w e
  exact ⟨heal_step U w e hen h.heal, hop.1, hop.2, cl_step U w e hen h.one h.pend h.heal h.cl, hev.tb h.tb, hev.bi h.bi,
    hc.2.trans h.hcfg, hc.1.trans h.caps, rb_step U w e hen h.rb⟩

theorem reach_run {cfg : Cfg} (evs : List Ev) : ∀ (w : World), Reach cfg w → EnabledRun U w evs → Reach cfg (run U w evs) := by
  induction evs with
  | nil => intro w h _; exact h
  | cons e r ih =>
    intro w h hen
    exact ih (step U w e) (reach_step U w e hen.1 h) hen.2

/-- the package holds after the agent's first automatic start or the operator's first start -/
theorem reach_first (cfg : Cfg) (e0 : Ev) (he0 : e0 = .boot ∨ e0 = .manualStart) : Reach cfg (step U (bootWorld cfg) e0) := by
  have h1 := one_first U cfg e0 he0
  have hev := evo_step U (bootWorld cfg) e0
  have hc := C05_only_configured_capabilities U cfg [e0]
  have hen : enabled (bootWorld cfg).sess e0 = true := by rcases he0 with rfl | rfl <;> rfl
  refine ⟨heal_first U cfg e0 he0, h1.1, h1.2, ?_, hev.tb ?_, hev.bi (Or.inl rfl), hc.2, hc.1, rb_step U _ e0 hen ?_⟩
  · rcases he0 with rfl | rfl
    · simp only [step, bootWorld]
      rw [core_autoStart]
      exact Core.cl_autoStart (Core.CL.of_ne (by simp [core, boot, withOuts])) false
    · simp only [step, bootWorld]
      rw [core_manualStart]
      have e : (core ((boot cfg).withOuts [])).manualStart =
          ((((core ((boot cfg).withOuts [])).withAllow true).setRetry true).withSt .connect).connectTcp := by
        simp [Core.manualStart, core, boot, withOuts]
      rw [e]
      exact Core.cl_connectTcp (by simp [Core.withSt])
  · intro d hd
    simp [bootWorld, boot] at hd
  · intro j hj
    simp [bootWorld] at hj

/-- every state reachable after the start satisfies the package -/
theorem reach_of_run (cfg : Cfg) (e0 : Ev) (he0 : e0 = .boot ∨ e0 = .manualStart) (evs : List Ev)
    (hen : EnabledRun U (step U (bootWorld cfg) e0) evs) : Reach cfg (run U (bootWorld cfg) (e0 :: evs)) :=
  reach_run U evs _ (reach_first U cfg e0 he0) hen

/-- in a reachable state our OPEN can be built as soon as the OPEN advertising the configured capabilities can -/
theorem reach_openWire {cfg : Cfg} {w : World} (hR : Reach cfg w)
    (hcfg : ∃ w0, constructOpen 4 cfg.localAs cfg.holdCfg cfg.localId cfg.caps0 = some w0) :
    ∃ wr, constructOpen 4 w.sess.cfg.localAs w.sess.cfg.holdCfg (w.sess.bgpId.getD w.sess.cfg.localId)
      (negotiateCaps w.sess.localCaps w.sess.remote) = some wr := by
  obtain ⟨w0, h0⟩ := hcfg
  have hid : w.sess.bgpId.getD w.sess.cfg.localId = cfg.localId := by
    rcases hR.bi with h | h
    · rw [h, hR.hcfg]; rfl
    · rw [h, hR.hcfg]; rfl
  rw [hid, hR.hcfg]
  exact constructOpen_le _ _ _ ((negotiateCaps_le _ _).trans hR.caps) h0

end Yabgp
