/-
  Lemmas for C04: the deframer (`headOf`), the drain loop, and how the dispatch of one message can
  change the connection it arrived on.
-/
import Yabgp.Lemmas.SessBasic

namespace Yabgp
namespace Sess

/-! ### connections under the setters -/

theorem conn_setConn (s : Sess) (j i : Nat) (c : Conn) :
    (s.setConn j c).conn i = if j = i ∧ j < s.conns.length then c else s.conn i := by
  unfold setConn conn withConns
  simp only [List.getD_eq_getElem?_getD, List.getElem?_set]
  by_cases h : j = i
  · subst h
    by_cases h2 : j < s.conns.length
    · simp [h2]
    · simp [h2]
  · simp [h]

@[simp] theorem len_setConn (s : Sess) (j : Nat) (c : Conn) : (s.setConn j c).conns.length = s.conns.length := by
  simp [setConn, withConns]

@[simp] theorem proto_setConn (s : Sess) (j : Nat) (c : Conn) : (s.setConn j c).proto = s.proto := rfl

/-- scalar parts of the state that no reaction to a message or timer touches -/
structure Scal (s s' : Sess) : Prop where
  cfg : s'.cfg = s.cfg
  now : s'.now = s.now
  estab : s'.estab = s.estab
  allow : s'.allowAuto = s.allowAuto
  caps : s'.localCaps = s.localCaps
  bgpId : s'.bgpId = s.bgpId

theorem Scal.refl (s : Sess) : Scal s s := ⟨rfl, rfl, rfl, rfl, rfl, rfl⟩
theorem Scal.trans {a b c : Sess} (h1 : Scal a b) (h2 : Scal b c) : Scal a c :=
  ⟨h2.cfg.trans h1.cfg, h2.now.trans h1.now, h2.estab.trans h1.estab, h2.allow.trans h1.allow,
   h2.caps.trans h1.caps, h2.bgpId.trans h1.bgpId⟩

/-- how one action may change what the framing loop on connection `i` depends on: the tracked protocol and
    the number of connections stay, `disconnected` is never unset, and the phase of `i` only changes
    together with `disconnected` being set; configuration, clock, `estab_protocol`, the automatic-start flag,
    the local capabilities and the BGP identifier are untouched -/
structure Frm (i : Nat) (s s' : Sess) : Prop where
  proto : s'.proto = s.proto
  len : s'.conns.length = s.conns.length
  mono : (s.conn i).disconnected = true → (s'.conn i).disconnected = true
  phase : (s'.conn i).phase = (s.conn i).phase ∨ (s'.conn i).disconnected = true
  scal : Scal s s'

theorem Frm.refl (i : Nat) (s : Sess) : Frm i s s := ⟨rfl, rfl, id, Or.inl rfl, Scal.refl s⟩

theorem Frm.trans {i : Nat} {a b c : Sess} (h1 : Frm i a b) (h2 : Frm i b c) : Frm i a c := by
  refine ⟨h2.proto.trans h1.proto, h2.len.trans h1.len, fun h => h2.mono (h1.mono h), ?_, h1.scal.trans h2.scal⟩
  rcases h2.phase with h | h
  · rcases h1.phase with h' | h'
    · exact Or.inl (h.trans h')
    · exact Or.inr (h2.mono h')
  · exact Or.inr h

/-- any update that leaves `conns`, `proto` and the scalars alone -/
theorem Frm.of_same {i : Nat} {s s' : Sess} (hc : s'.conns = s.conns) (hp : s'.proto = s.proto)
    (hs : Scal s s' := by exact ⟨rfl, rfl, rfl, rfl, rfl, rfl⟩) : Frm i s s' := by
  refine ⟨hp, by rw [hc], ?_, ?_, hs⟩ <;> simp [conn, hc]

theorem Frm.setConn_keep {i j : Nat} {s : Sess} {c : Conn}
    (hd : (s.conn j).disconnected = true → c.disconnected = true)
    (hp : c.phase = (s.conn j).phase ∨ c.disconnected = true) : Frm i s (s.setConn j c) := by
  refine ⟨rfl, by simp, ?_, ?_, ⟨rfl, rfl, rfl, rfl, rfl, rfl⟩⟩
  · intro h; rw [conn_setConn]; split
    · rename_i hh; rw [← hh.1] at h; exact hd h
    · exact h
  · rw [conn_setConn]; split
    · rename_i hh; rw [← hh.1]; exact hp
    · exact Or.inl rfl

theorem frm_emit (i : Nat) (s : Sess) (o : Out) : Frm i s (s.emit o) := Frm.of_same rfl rfl
theorem frm_withTm (i : Nat) (s : Sess) (v : Timers) : Frm i s (s.withTm v) := Frm.of_same rfl rfl
theorem frm_withSt (i : Nat) (s : Sess) (v : St) : Frm i s (s.withSt v) := Frm.of_same rfl rfl
theorem frm_withRetryCounter (i : Nat) (s : Sess) (v : Nat) : Frm i s (s.withRetryCounter v) := Frm.of_same rfl rfl
theorem frm_withHoldTime (i : Nat) (s : Sess) (v : Nat) : Frm i s (s.withHoldTime v) := Frm.of_same rfl rfl
theorem frm_withRemote (i : Nat) (s : Sess) (v : CapaDict) : Frm i s (s.withRemote v) := Frm.of_same rfl rfl
theorem frm_setRetry (i : Nat) (s : Sess) (v : Option Nat) : Frm i s (s.setRetry v) := Frm.of_same rfl rfl
theorem frm_setHold (i : Nat) (s : Sess) (v : Option Nat) : Frm i s (s.setHold v) := Frm.of_same rfl rfl
theorem frm_setKeepalive (i : Nat) (s : Sess) (v : Option Nat) : Frm i s (s.setKeepalive v) := Frm.of_same rfl rfl
theorem frm_incRetryCounter (i : Nat) (s : Sess) : Frm i s (s.incRetryCounter) := Frm.of_same rfl rfl

theorem frm_setSt (i : Nat) (s : Sess) (v : St) : Frm i s (s.setSt v) := by
  unfold setSt; split
  · exact (frm_emit i s _).trans (frm_withSt i _ v)
  · exact frm_withSt i s v

theorem frm_bumpSent (i j : Nat) (s : Sess) (f : Stats → Stats) : Frm i s (s.bumpSent j f) :=
  Frm.setConn_keep id (Or.inl rfl)
theorem frm_bumpRecv (i j : Nat) (s : Sess) (f : Stats → Stats) : Frm i s (s.bumpRecv j f) :=
  Frm.setConn_keep id (Or.inl rfl)
theorem frm_setAsn4 (i j : Nat) (s : Sess) : Frm i s (s.setAsn4 j) := Frm.setConn_keep id (Or.inl rfl)
theorem frm_setDisconnected (i j : Nat) (s : Sess) : Frm i s (s.setDisconnected j) :=
  Frm.setConn_keep (fun _ => rfl) (Or.inl rfl)

theorem frm_writeOn (i j : Nat) (s : Sess) (b : Bytes) : Frm i s (s.writeOn j b) := by
  unfold writeOn; split
  · exact frm_emit i s _
  · exact Frm.refl i s

theorem frm_sendNotification (i : Nat) (s : Sess) (e sub : Nat) (d : Bytes) :
    Frm i s (s.sendNotification e sub d) := by
  unfold sendNotification
  split
  · exact frm_emit i s _
  · split
    · exact (frm_bumpSent i _ s _).trans (frm_writeOn i _ _ _)
    · exact (frm_bumpSent i _ s _).trans (frm_emit i _ _)

theorem frm_sendKeepalive (i : Nat) (s : Sess) : Frm i s (s.sendKeepalive) := by
  unfold sendKeepalive
  split
  · exact frm_emit i s _
  · exact (frm_bumpSent i _ s _).trans (frm_writeOn i _ _ _)

theorem frm_closeOn (i j : Nat) (s : Sess) : Frm i s (s.closeOn j) := by
  unfold closeOn
  split
  · refine Frm.trans ?_ (frm_emit i _ _)
    -- setPhase then setDisconnected on the same connection
    refine ⟨rfl, by simp [setPhase, setDisconnected], ?_, ?_, ⟨rfl, rfl, rfl, rfl, rfl, rfl⟩⟩
    · intro h
      simp only [setDisconnected, setPhase, conn_setConn, len_setConn]
      split <;> simp_all
    · simp only [setDisconnected, setPhase, conn_setConn, len_setConn]
      split <;> simp_all
  · split
    · exact frm_setDisconnected i j s
    · exact Frm.refl i s

theorem frm_closeConn (i : Nat) (s : Sess) : Frm i s (s.closeConn) := by
  unfold closeConn
  split
  · exact Frm.refl i s
  · exact (frm_closeOn i _ s).trans (frm_withRetryCounter i _ 0)

theorem frm_errorClose (i : Nat) (s : Sess) : Frm i s (s.errorClose) := by
  unfold errorClose
  exact (((frm_withTm i s _).trans (frm_closeConn i _)).trans (frm_incRetryCounter i _)).trans (frm_setSt i _ _)

theorem frm_headerError (i : Nat) (s : Sess) (sub : Nat) (d : Bytes) : Frm i s (s.headerError sub d) :=
  (frm_sendNotification i s _ _ _).trans (frm_errorClose i _)

theorem frm_openMessageError (i : Nat) (s : Sess) (sub : Nat) : Frm i s (s.openMessageError sub) :=
  (frm_sendNotification i s _ _ _).trans (frm_errorClose i _)

theorem frm_restartHold (i : Nat) (s : Sess) : Frm i s (s.restartHold) := by
  unfold restartHold; split
  · exact frm_setHold i s _
  · exact Frm.refl i s

theorem frm_fsmOpenReceived (i : Nat) (s : Sess) : Frm i s (s.fsmOpenReceived) := by
  unfold fsmOpenReceived
  split
  · exact frm_errorClose i s
  · exact frm_errorClose i s
  · split
    · exact ((((frm_setRetry i s _).trans (frm_sendKeepalive i _)).trans (frm_setKeepalive i _ _)).trans
        (frm_setHold i _ _)).trans (frm_setSt i _ _)
    · exact ((((frm_setRetry i s _).trans (frm_sendKeepalive i _)).trans (frm_setKeepalive i _ _)).trans
        (frm_setHold i _ _)).trans (frm_setSt i _ _)
  · exact (frm_sendNotification i s _ _ _).trans (frm_errorClose i _)
  · exact (frm_sendNotification i s _ _ _).trans (frm_errorClose i _)
  · exact Frm.refl i s

theorem frm_fsmKeepaliveReceived (i : Nat) (s : Sess) : Frm i s (s.fsmKeepaliveReceived) := by
  unfold fsmKeepaliveReceived
  split
  · exact (frm_restartHold i s).trans (frm_setSt i _ _)
  · exact frm_restartHold i s
  · exact frm_errorClose i s
  · exact frm_errorClose i s
  · exact (frm_sendNotification i s _ _ _).trans (frm_errorClose i _)
  · exact Frm.refl i s

theorem frm_fsmUpdateReceived (i : Nat) (s : Sess) : Frm i s (s.fsmUpdateReceived) := by
  unfold fsmUpdateReceived
  split
  · exact frm_restartHold i s
  · exact frm_errorClose i s
  · exact frm_errorClose i s
  · exact (frm_sendNotification i s _ _ _).trans (frm_errorClose i _)
  · exact (frm_sendNotification i s _ _ _).trans (frm_errorClose i _)
  · exact Frm.refl i s

theorem frm_fsmNotificationReceived (i : Nat) (s : Sess) (e sub : Nat) :
    Frm i s (s.fsmNotificationReceived e sub) := by
  unfold fsmNotificationReceived
  split
  · split
    · exact ((((frm_setRetry i s _).trans (frm_setHold i _ _)).trans (frm_setKeepalive i _ _)).trans (frm_closeConn i _)).trans (frm_setSt i _ _)
    · exact ((((frm_setRetry i s _).trans (frm_setHold i _ _)).trans (frm_setKeepalive i _ _)).trans (frm_closeConn i _)).trans (frm_setSt i _ _)
    · exact frm_errorClose i s
    · exact frm_errorClose i s
    · exact frm_errorClose i s
    · exact Frm.refl i s
  · split
    · exact frm_errorClose i s
    · exact Frm.refl i s

theorem frm_openAccepted (i j : Nat) (s : Sess) (m : OpenMsg) : Frm i s (s.openAccepted j m).1 := by
  unfold openAccepted
  split
  · split
    · exact ((frm_withRemote i s _).trans (frm_setAsn4 i j _)).trans (frm_openMessageError i _ _)
    · exact (frm_withRemote i s _).trans (frm_openMessageError i _ _)
  · split
    · exact ((((frm_withRemote i s _).trans (frm_setAsn4 i j _)).trans (frm_withHoldTime i _ _)).trans
        (frm_fsmOpenReceived i _)).trans (frm_emit i _ _)
    · exact (((frm_withRemote i s _).trans (frm_withHoldTime i _ _)).trans
        (frm_fsmOpenReceived i _)).trans (frm_emit i _ _)

theorem frm_openReceived (i j : Nat) (s : Sess) (body : Bytes) : Frm i s (s.openReceived j body).1 := by
  unfold openReceived
  split
  · exact (frm_bumpRecv i j s _).trans (frm_headerError i _ _ _)
  · exact (frm_bumpRecv i j s _).trans (frm_openMessageError i _ _)
  · exact frm_bumpRecv i j s _
  · split
    · exact (frm_bumpRecv i j s _).trans (frm_openMessageError i _ _)
    · exact (frm_bumpRecv i j s _).trans (frm_openAccepted i j _ _)

theorem frm_dispatch (U : Bool → Bytes → UpdClass) (i j : Nat) (s : Sess) (ty : Nat) (body : Bytes) :
    Frm i s (dispatch U s j ty body).1 := by
  unfold dispatch
  split
  · exact frm_openReceived i j s body
  · split
    · split
      · exact frm_bumpRecv i j s _
      · exact (frm_bumpRecv i j s _).trans (frm_emit i _ _)
      · exact ((frm_bumpRecv i j s _).trans (frm_emit i _ _)).trans (frm_fsmUpdateReceived i _)
      · exact ((frm_bumpRecv i j s _).trans (frm_emit i _ _)).trans (frm_fsmUpdateReceived i _)
    · split
      · split
        · exact Frm.refl i s
        · exact ((frm_bumpRecv i j s _).trans (frm_emit i _ _)).trans (frm_fsmNotificationReceived i _ _ _)
      · split
        · split
          · exact ((frm_bumpRecv i j s _).trans (frm_emit i _ _)).trans (frm_fsmKeepaliveReceived i _)
          · exact ((frm_bumpRecv i j s _).trans (frm_emit i _ _)).trans (frm_headerError i _ _ _)
        · split
          · split
            · exact frm_bumpRecv i j s _
            · exact (frm_bumpRecv i j s _).trans (frm_emit i _ _)
          · exact frm_headerError i s _ _

end Sess
end Yabgp

namespace Yabgp
namespace Sess

/-- connection `i` is the one the state machine tracks and is either still up or already closed by us -/
structure Tracked (s : Sess) (i : Nat) : Prop where
  proto : s.proto = some i
  lt : i < s.conns.length
  live : (s.conn i).phase = .connected ∨ (s.conn i).disconnected = true

theorem Tracked.of_frm {s s' : Sess} {i : Nat} (h : Tracked s i) (f : Frm i s s') : Tracked s' i := by
  refine ⟨f.proto.trans h.proto, by rw [f.len]; exact h.lt, ?_⟩
  rcases f.phase with hp | hd
  · rcases h.live with hl | hl
    · exact Or.inl (hp.trans hl)
    · exact Or.inr (f.mono hl)
  · exact Or.inr hd

theorem closeConn_disc {s : Sess} {i : Nat} (h : Tracked s i) : ((s.closeConn).conn i).disconnected = true := by
  unfold closeConn
  rw [h.proto]
  simp only
  have hself : ∀ (t : Sess), i < t.conns.length → ((t.setDisconnected i).conn i).disconnected = true := by
    intro t ht
    simp only [setDisconnected, conn_setConn]
    simp [ht]
  have key : ((s.closeOn i).conn i).disconnected = true := by
    unfold closeOn
    split
    · exact (frm_emit i _ _).mono (hself (s.setPhase i .closing) (by simp [setPhase]; exact h.lt))
    · split
      · exact hself s h.lt
      · rename_i h1 h2
        rcases h.live with hl | hl
        · exact absurd hl h1
        · exact hl
  exact (frm_withRetryCounter i (s.closeOn i) 0).mono key

theorem errorClose_disc {s : Sess} {i : Nat} (h : Tracked s i) : ((s.errorClose).conn i).disconnected = true := by
  unfold errorClose
  have h1 : Tracked (s.withTm { retry := none, hold := none, keepalive := none, idleHold := some s.idleDeadline }) i :=
    h.of_frm (frm_withTm i s _)
  have h2 := closeConn_disc h1
  exact (frm_setSt i _ _).mono ((frm_incRetryCounter i _).mono h2)

theorem headerError_disc {s : Sess} {i : Nat} (h : Tracked s i) (sub : Nat) (d : Bytes) :
    ((s.headerError sub d).conn i).disconnected = true :=
  errorClose_disc (h.of_frm (frm_sendNotification i s _ _ _))

theorem openMessageError_disc {s : Sess} {i : Nat} (h : Tracked s i) (sub : Nat) :
    ((s.openMessageError sub).conn i).disconnected = true :=
  errorClose_disc (h.of_frm (frm_sendNotification i s _ _ _))

/-- when the dispatch of a message makes parse_buffer return False, the connection has been closed by us -/
theorem dispatch_false_disc (U : Bool → Bytes → UpdClass) {s : Sess} {i : Nat} (h : Tracked s i)
    (ty : Nat) (body : Bytes) (hf : (dispatch U s i ty body).2 = false) :
    ((dispatch U s i ty body).1.conn i).disconnected = true := by
  unfold dispatch at hf ⊢
  split at hf
  · rename_i hty
    simp only [hty, ↓reduceIte]
    unfold openReceived at hf ⊢
    split at hf
    · rename_i sub he
      try simp only [he]
      exact headerError_disc (h.of_frm (frm_bumpRecv i i s _)) _ _
    · rename_i sub he
      try simp only [he]
      exact openMessageError_disc (h.of_frm (frm_bumpRecv i i s _)) _
    · simp at hf
    · rename_i m he
      try simp only [he]
      split at hf
      · rename_i hne
        rw [if_pos hne]
        exact openMessageError_disc (h.of_frm (frm_bumpRecv i i s _)) _
      · rename_i hne
        rw [if_neg hne]
        unfold openAccepted at hf ⊢
        split at hf
        · rename_i hh
          rw [if_pos hh]
          split
          · exact openMessageError_disc ((h.of_frm (frm_bumpRecv i i s _)).of_frm
              ((frm_withRemote i _ _).trans (frm_setAsn4 i i _))) _
          · exact openMessageError_disc ((h.of_frm (frm_bumpRecv i i s _)).of_frm (frm_withRemote i _ _)) _
        · simp at hf
  · rename_i hty
    rw [if_neg hty]
    split at hf
    · split at hf <;> simp at hf
    · rename_i hty2
      rw [if_neg hty2]
      split at hf
      · split at hf <;> simp at hf
      · rename_i hty3
        rw [if_neg hty3]
        split at hf
        · rename_i hty4
          rw [if_pos hty4]
          split at hf
          · simp at hf
          · rename_i hb
            rw [if_neg hb]
            exact headerError_disc ((h.of_frm (frm_bumpRecv i i s _)).of_frm (frm_emit i _ _)) _ _
        · rename_i hty4
          split at hf
          · split at hf <;> simp at hf
          · simp at hf

end Sess
end Yabgp

namespace Yabgp
namespace Sess

theorem getD_append_left (a b : Bytes) (k : Nat) (h : k < a.length) : (a ++ b).getD k 0 = a.getD k 0 := by
  simp [List.getD_eq_getElem?_getD, List.getElem?_append_left h]

theorem frameLen_append (a b : Bytes) (h : 19 ≤ a.length) : frameLen (a ++ b) = frameLen a := by
  unfold frameLen
  rw [getD_append_left a b 16 (by omega), getD_append_left a b 17 (by omega)]

/-- what the deframer sees at the head of the buffer does not change when more bytes arrive, unless it was
    still waiting for bytes -/
theorem headOf_append (a b : Bytes) (h : headOf a ≠ .short) : headOf (a ++ b) = headOf a := by
  unfold headOf at h ⊢
  by_cases h1 : a.length < C.hdrLen
  · simp [h1] at h
  · have h19 : 19 ≤ a.length := by simp [C.hdrLen] at h1; omega
    have hl : ¬ (a ++ b).length < C.hdrLen := by simp [C.hdrLen]; omega
    have ht : (a ++ b).take 16 = a.take 16 := List.take_append_of_le_length (by omega)
    rw [if_neg h1] at h
    rw [if_neg hl, if_neg h1, ht, frameLen_append a b h19]
    by_cases h2 : a.take 16 ≠ marker
    · rw [if_pos h2, if_pos h2]
    · rw [if_neg h2, if_neg h2]; rw [if_neg h2] at h
      by_cases h3 : frameLen a < C.hdrLen ∨ frameLen a > C.maxLen
      · rw [if_pos h3, if_pos h3]
      · rw [if_neg h3, if_neg h3]; rw [if_neg h3] at h
        by_cases h4 : a.length < frameLen a
        · rw [if_pos h4] at h; exact absurd rfl h
        · rw [if_neg h4]
          have h5 : ¬ (a ++ b).length < frameLen a := by simp; omega
          rw [if_neg h5, getD_append_left a b 18 (by omega)]
          rw [List.take_append_of_le_length (by omega)]

theorem headOf_frame {buf : Bytes} {ty len : Nat} {body : Bytes} (h : headOf buf = .frame ty body len) :
    19 ≤ len ∧ len ≤ 4096 ∧ len ≤ buf.length := by
  unfold headOf at h
  split at h
  · simp at h
  · split at h
    · simp at h
    · split at h
      · simp at h
      · split at h
        · simp at h
        · rename_i h1 h2 h3 h4
          simp only [Head.frame.injEq] at h
          simp only [C.hdrLen, C.maxLen, not_or, Nat.not_lt, gt_iff_lt] at h3 h4
          rw [← h.2.2]; omega

/-! ### the drain loop -/

theorem parseBuffer_some {U : Bool → Bytes → UpdClass} {s : Sess} {i : Nat} {buf rest : Bytes}
    (h : (parseBuffer U s i buf).2 = some rest) : rest.length + 19 ≤ buf.length := by
  unfold parseBuffer at h
  split at h
  · simp at h
  · split at h
    · simp at h
    · simp at h
    · simp at h
    · rename_i ty body len hh
      have := headOf_frame hh
      split at h
      · simp only [Option.some.injEq] at h
        rw [← h]; simp; omega
      · simp at h

/-- enough fuel: the result does not depend on the fuel, and the loop has ended by itself -/
theorem drain_fuel (U : Bool → Bytes → UpdClass) (i : Nat) :
    ∀ (n : Nat) (f1 f2 : Nat) (s : Sess) (buf : Bytes), buf.length ≤ n → buf.length / 19 < f1 → buf.length / 19 < f2 →
      drain U f1 s i buf = drain U f2 s i buf := by
  intro n
  induction n with
  | zero =>
    intro f1 f2 s buf hn h1 h2
    have hb : buf = [] := List.eq_nil_of_length_eq_zero (by omega)
    subst hb
    cases f1 with
    | zero => omega
    | succ f1 =>
      cases f2 with
      | zero => omega
      | succ f2 =>
        simp only [drain]
        have : (parseBuffer U s i []).2 = none := by
          unfold parseBuffer; split <;> simp [headOf, C.hdrLen]
        simp [this]
  | succ n ih =>
    intro f1 f2 s buf hn h1 h2
    cases f1 with
    | zero => omega
    | succ f1 =>
      cases f2 with
      | zero => omega
      | succ f2 =>
        simp only [drain]
        cases hp : (parseBuffer U s i buf).2 with
        | none => rfl
        | some rest =>
          have hl := parseBuffer_some hp
          simp only
          exact ih f1 f2 _ rest (by omega) (by omega) (by omega)

end Sess
end Yabgp

namespace Yabgp
namespace Sess

theorem parseBuffer_frm (U : Bool → Bytes → UpdClass) (s : Sess) (i : Nat) (buf : Bytes) :
    Frm i s (parseBuffer U s i buf).1 := by
  unfold parseBuffer
  split
  · exact Frm.refl i s
  · split
    · exact Frm.refl i s
    · exact frm_headerError i s _ _
    · exact frm_headerError i s _ _
    · split
      · exact frm_dispatch U i i s _ _
      · exact frm_dispatch U i i s _ _

/-- on the tracked connection, whenever parse_buffer returns False for a reason other than "need more
    bytes", the connection has been closed by us, so nothing further will be parsed from it -/
theorem parseBuffer_none_disc (U : Bool → Bytes → UpdClass) {s : Sess} {i : Nat} (h : Tracked s i)
    (buf : Bytes) (hn : (parseBuffer U s i buf).2 = none) (hs : headOf buf ≠ .short) :
    ((parseBuffer U s i buf).1.conn i).disconnected = true := by
  unfold parseBuffer at hn ⊢
  split
  · rename_i hd; exact hd
  · rename_i hd
    rw [if_neg hd] at hn
    split
    · rename_i hh; exact absurd hh hs
    · exact headerError_disc h _ _
    · exact headerError_disc h _ _
    · rename_i ty body len hh
      simp only [hh] at hn
      split
      · rename_i ht; rw [if_pos ht] at hn; simp at hn
      · rename_i ht
        exact dispatch_false_disc U h ty body (by simpa using ht)

theorem parseBuffer_disc_noop (U : Bool → Bytes → UpdClass) (s : Sess) (i : Nat) (buf : Bytes)
    (h : (s.conn i).disconnected = true) : parseBuffer U s i buf = (s, none) := by
  unfold parseBuffer; rw [if_pos h]

theorem drain_disc_noop (U : Bool → Bytes → UpdClass) (s : Sess) (i : Nat) (buf : Bytes) (f : Nat)
    (h : (s.conn i).disconnected = true) : drain U f s i buf = (s, buf) := by
  cases f with
  | zero => rfl
  | succ f => simp [drain, parseBuffer_disc_noop U s i buf h]

/-- the incremental law of the deframer: feeding `buf ++ more` at once is feeding `buf`, then the
    unconsumed rest of it followed by `more` — on the connection the state machine tracks -/
theorem drain_append (U : Bool → Bytes → UpdClass) (i : Nat) (more : Bytes) :
    ∀ (n : Nat) (s : Sess) (buf : Bytes) (f1 f2 f3 : Nat), buf.length ≤ n → Tracked s i →
      buf.length / 19 < f1 → (buf ++ more).length / 19 < f2 → (buf ++ more).length / 19 < f3 →
      drain U f2 s i (buf ++ more) =
        drain U f3 (drain U f1 s i buf).1 i ((drain U f1 s i buf).2 ++ more) := by
  intro n
  induction n with
  | zero =>
    intro s buf f1 f2 f3 hn ht h1 h2 h3
    have hb : buf = [] := List.eq_nil_of_length_eq_zero (by omega)
    subst hb
    cases f1 with
    | zero => omega
    | succ f1 =>
      have hp : (parseBuffer U s i []).2 = none := by
        unfold parseBuffer; split <;> simp [headOf, C.hdrLen]
      have hp1 : (parseBuffer U s i []).1 = s := by
        unfold parseBuffer; split <;> simp [headOf, C.hdrLen]
      simp only [drain, hp, hp1, List.nil_append]
      exact drain_fuel U i _ f2 f3 s _ (Nat.le_refl _) (by simpa using h2) (by simpa using h3)
  | succ n ih =>
    intro s buf f1 f2 f3 hn ht h1 h2 h3
    cases f1 with
    | zero => omega
    | succ f1 =>
      by_cases hd : (s.conn i).disconnected = true
      · rw [drain_disc_noop U s i buf _ hd, drain_disc_noop U s i _ _ hd, drain_disc_noop U s i _ _ hd]
      · by_cases hs : headOf buf = .short
        · -- nothing consumed from `buf` alone
          have hp : parseBuffer U s i buf = (s, none) := by
            unfold parseBuffer; rw [if_neg hd, hs]
          simp only [drain, hp]
          exact drain_fuel U i _ f2 f3 s _ (Nat.le_refl _) h2 h3
        · have hh := headOf_append buf more hs
          cases hp : (parseBuffer U s i buf).2 with
          | none =>
            have hdisc := parseBuffer_none_disc U ht buf hp hs
            have hpm : parseBuffer U s i (buf ++ more) = ((parseBuffer U s i buf).1, none) := by
              unfold parseBuffer at hp ⊢
              rw [if_neg hd] at hp ⊢
              rw [hh]
              split at hp <;> simp_all
              split at hp <;> simp_all
            simp only [drain, hp]
            rw [drain_disc_noop U _ i _ f3 hdisc]
            cases f2 with
            | zero => omega
            | succ f2 => simp [drain, hpm]
          | some rest =>
            -- a frame was dispatched and the loop goes on
            have hlen := parseBuffer_some hp
            have hpm : parseBuffer U s i (buf ++ more) = ((parseBuffer U s i buf).1, some (rest ++ more)) := by
              unfold parseBuffer at hp ⊢
              rw [if_neg hd] at hp ⊢
              rw [hh]
              split at hp
              · simp at hp
              · simp at hp
              · simp at hp
              · rename_i ty body len hf
                have hb := headOf_frame hf
                split at hp
                · rename_i hdt
                  simp only [Option.some.injEq] at hp
                  simp only [hdt, ↓reduceIte]
                  rw [← hp, List.drop_append_of_le_length hb.2.2, if_neg hd]
                · simp at hp
            simp only [drain, hp]
            cases f2 with
            | zero => omega
            | succ f2 =>
              simp only [drain, hpm]
              have ht' : Tracked (parseBuffer U s i buf).1 i := ht.of_frm (parseBuffer_frm U s i buf)
              exact ih _ rest f1 f2 f3 (by omega) ht' (by omega)
                (by simp at h2 ⊢; omega) (by simp at h3 ⊢; omega)

end Sess
end Yabgp

namespace Yabgp
namespace Sess

theorem drain_snd_le (U : Bool → Bytes → UpdClass) (i : Nat) :
    ∀ (f : Nat) (s : Sess) (buf : Bytes), (drain U f s i buf).2.length ≤ buf.length := by
  intro f
  induction f with
  | zero => intro s buf; simp [drain]
  | succ f ih =>
    intro s buf
    simp only [drain]
    cases hp : (parseBuffer U s i buf).2 with
    | none => simp
    | some rest =>
      have := parseBuffer_some hp
      have := ih (parseBuffer U s i buf).1 rest
      simp only
      omega

theorem drain_frm (U : Bool → Bytes → UpdClass) (i : Nat) :
    ∀ (f : Nat) (s : Sess) (buf : Bytes), Frm i s (drain U f s i buf).1 := by
  intro f
  induction f with
  | zero => intro s buf; exact Frm.refl i s
  | succ f ih =>
    intro s buf
    simp only [drain]
    cases hp : (parseBuffer U s i buf).2 with
    | none => exact parseBuffer_frm U s i buf
    | some rest => exact (parseBuffer_frm U s i buf).trans (ih _ rest)

end Sess
end Yabgp
