/-
  Lemmas that relate the constructor models to the structural walker (C08).
  Generic part: sequences of self-delimiting items.
-/
import Yabgp.Spec.Walker
import Yabgp.Model.Construct.Guards
import Yabgp.Model.Open
import Yabgp.Lemmas.Basic

namespace Yabgp.Walker

/-! ### `many` / `all` -/

theorem many_nil (item : Bytes → Option Bytes) (n : Nat) : many item n [] = true := by
  cases n <;> rfl

theorem all_nil (item : Bytes → Option Bytes) : all item [] = true := rfl

/-- more fuel never hurts -/
theorem many_mono (item : Bytes → Option Bytes) :
    ∀ (n m : Nat) (b : Bytes), n ≤ m → many item n b = true → many item m b = true := by
  intro n
  induction n with
  | zero =>
    intro m b _ h
    cases b with
    | nil => exact many_nil item m
    | cons x xs => simp [many] at h
  | succ n ih =>
    intro m b hnm h
    cases b with
    | nil => exact many_nil item m
    | cons x xs =>
      obtain ⟨m', rfl⟩ : ∃ m', m = m' + 1 := ⟨m - 1, by omega⟩
      simp only [many] at h ⊢
      split at h
      · simp at h
      · rename_i r hr
        simp only [Bool.and_eq_true, decide_eq_true_eq] at h ⊢
        exact ⟨h.1, ih m' r (by omega) h.2⟩

/-- one item in front of a well-formed sequence -/
theorem all_cons_item {item : Bytes → Option Bytes} {x r : Bytes}
    (hx : item (x ++ r) = some r) (hne : x ≠ []) (hr : all item r = true) :
    all item (x ++ r) = true := by
  unfold all at hr ⊢
  obtain ⟨y, ys, rfl⟩ := List.exists_cons_of_ne_nil hne
  simp only [List.cons_append, List.length_cons, List.length_append] at hx ⊢
  rw [show ys.length + r.length + 1 = (ys.length + r.length) + 1 from rfl]
  simp only [many, hx, Bool.and_eq_true, decide_eq_true_eq]
  refine ⟨by simp only [List.length_cons, List.length_append]; omega, ?_⟩
  exact many_mono item r.length _ r (by omega) hr

/-- `a` is a (possibly empty) sequence of well-formed items, whatever follows it -/
def Seq (item : Bytes → Option Bytes) (a : Bytes) : Prop :=
  ∀ r, all item r = true → all item (a ++ r) = true

theorem Seq.nil (item : Bytes → Option Bytes) : Seq item [] := fun _ h => h

theorem Seq.append {item : Bytes → Option Bytes} {a b : Bytes} (ha : Seq item a) (hb : Seq item b) :
    Seq item (a ++ b) := by
  intro r hr
  rw [List.append_assoc]
  exact ha _ (hb r hr)

theorem Seq.single {item : Bytes → Option Bytes} {x : Bytes} (hne : x ≠ [])
    (hx : ∀ r, item (x ++ r) = some r) : Seq item x :=
  fun r hr => all_cons_item (hx r) hne hr

theorem Seq.all {item : Bytes → Option Bytes} {a : Bytes} (ha : Seq item a) : all item a = true := by
  have := ha [] (all_nil item)
  simpa using this

theorem Seq.flatMap {α : Type} {item : Bytes → Option Bytes} (enc : α → Bytes) (xs : List α)
    (h : ∀ x ∈ xs, Seq item (enc x)) : Seq item (xs.flatMap enc) := by
  induction xs with
  | nil => exact Seq.nil item
  | cons x r ih =>
    rw [List.flatMap_cons]
    exact Seq.append (h x (by simp)) (ih (fun y hy => h y (by simp [hy])))

/-! ### `skip` -/

theorem skip_append (a r : Bytes) : skip a.length (a ++ r) = some r := by
  simp [skip]

theorem skip_eq {n : Nat} (a r : Bytes) (h : a.length = n) : skip n (a ++ r) = some r := by
  subst h; exact skip_append a r

end Yabgp.Walker

namespace Yabgp.Walker

/-! ### the message header -/

theorem marker_eq : Yabgp.marker = Walker.marker := rfl

/-- a message put together by `constructHeader` is valid exactly when its body is valid for its type -/
theorem valid_header (cfg : Cfg) (ty : Nat) (body : Bytes) (hty : ty < 256) (hlen : body.length + 19 < 65536) :
    valid cfg (Yabgp.marker ++ be16 (body.length + 19) ++ be8 ty ++ body) = bodyOk cfg ty body := by
  have hm : Yabgp.marker.length = 16 := by simp [Yabgp.marker]
  have e1 : (Yabgp.marker ++ be16 (body.length + 19) ++ be8 ty ++ body).take 16 = Walker.marker := by
    rw [List.append_assoc, List.append_assoc]
    exact List.take_left' hm
  have e2 : (Yabgp.marker ++ be16 (body.length + 19) ++ be8 ty ++ body).drop 16
      = u8 ((body.length + 19) / 256) :: u8 (body.length + 19) :: u8 ty :: body := by
    rw [List.append_assoc, List.append_assoc]
    rw [List.drop_left' hm]
    simp [be16, be8]
  have e3 : (Yabgp.marker ++ be16 (body.length + 19) ++ be8 ty ++ body).length = body.length + 19 := by
    simp [hm]; omega
  unfold valid
  rw [e1, e2]
  simp only [decide_true, Bool.true_and, e3, u8_toNat_mod]
  have h1 : (body.length + 19) / 256 % 256 * 256 + (body.length + 19) % 256 = body.length + 19 := by omega
  have h2 : ty % 256 = ty := by omega
  simp [h1, h2]

theorem constructHeader_valid (cfg : Cfg) (ty : Nat) (body w : Bytes) (hty : ty < 256)
    (hc : constructHeader ty body = some w) (hb : bodyOk cfg ty body = true) : valid cfg w = true := by
  unfold constructHeader at hc
  split at hc
  · simp only [Option.some.injEq] at hc
    rw [← hc, valid_header cfg ty body hty (by assumption)]
    exact hb
  · simp at hc

end Yabgp.Walker

namespace Yabgp.Walker

/-! ### OPEN -/

/-- one optional parameter of type 2 holding one capability -/
theorem optParam_single (code : Nat) (v r : Bytes) (hc : code < 256) (hv : v.length + 2 < 256)
    (hok : capValueOk code v = true) :
    optParamItem (u8 2 :: u8 (v.length + 2) :: u8 code :: u8 v.length :: (v ++ r)) = some r := by
  have h1 : (u8 (v.length + 2)).toNat = v.length + 2 := u8_toNat (by omega)
  have h2 : (u8 v.length).toNat = v.length := u8_toNat (by omega)
  have h3 : (u8 code).toNat = code := u8_toNat hc
  have h4 : (u8 2).toNat = 2 := rfl
  have hcap : capItem (u8 code :: u8 v.length :: v) = some [] := by
    simp only [capItem, tlv11, h2, h3, Nat.le_refl, List.take_length, hok, decide_true, Bool.and_self,
      ↓reduceIte, List.drop_length]
  have hall : all capItem (u8 code :: u8 v.length :: v) = true := by
    have := all_cons_item (item := capItem) (x := u8 code :: u8 v.length :: v) (r := [])
      (by simpa using hcap) (by simp) (all_nil _)
    simpa using this
  have htake : (u8 code :: u8 v.length :: (v ++ r)).take (v.length + 2) = u8 code :: u8 v.length :: v := by
    simp [List.take_succ_cons]
  have hdrop : (u8 code :: u8 v.length :: (v ++ r)).drop (v.length + 2) = r := by
    simp
  simp only [optParamItem, tlv11, h1, h4, htake, hdrop, optParamOk, hall, ↓reduceIte, Bool.and_true]
  simp

theorem seq_optParam (code : Nat) (v : Bytes) (hc : code < 256) (hv : v.length + 2 < 256)
    (hok : capValueOk code v = true) :
    Seq optParamItem (u8 2 :: u8 (v.length + 2) :: u8 code :: u8 v.length :: v) :=
  Seq.single (by simp) (fun r => by simpa using optParam_single code v r hc hv hok)

theorem encExtNh_length (l : List (Nat × Nat × Nat)) : (encExtNh l).length = 6 * l.length := by
  induction l with
  | nil => rfl
  | cons x r ih =>
    unfold encExtNh at ih ⊢
    simp only [List.flatMap_cons, List.length_append, ih, be16_length, List.length_cons]
    omega

theorem seq_encMp (l : List (Nat × Nat)) : Seq optParamItem (encMp l) := by
  unfold encMp
  apply Seq.flatMap
  intro p _
  have := seq_optParam 1 (be16 p.1 ++ [0] ++ be8 p.2) (by decide) (by simp) (by simp [capValueOk])
  simpa [be16, be8, u8] using this

theorem seq_capCrr (c : LocalCaps) : Seq optParamItem (capCrr c) := by
  unfold capCrr
  split
  · have := seq_optParam 128 [] (by decide) (by simp) (by simp [capValueOk])
    simpa [u8] using this
  · exact Seq.nil _

theorem seq_capRr (c : LocalCaps) : Seq optParamItem (capRr c) := by
  unfold capRr
  split
  · have := seq_optParam 2 [] (by decide) (by simp) (by simp [capValueOk])
    simpa [u8] using this
  · exact Seq.nil _

theorem seq_capErr (c : LocalCaps) : Seq optParamItem (capErr c) := by
  unfold capErr
  split
  · have := seq_optParam 70 [] (by decide) (by simp) (by simp [capValueOk])
    simpa [u8] using this
  · exact Seq.nil _

theorem seq_capMp (c : LocalCaps) (b : Bytes) (h : capMp c = some b) : Seq optParamItem b := by
  unfold capMp at h
  split at h
  · split at h
    · simp only [Option.some.injEq] at h; subst h; exact seq_encMp _
    · simp at h
  · simp only [Option.some.injEq] at h; subst h; exact Seq.nil _

theorem seq_capAs4 (asn : Nat) (c : LocalCaps) (b : Bytes) (h : capAs4 asn c = some b) : Seq optParamItem b := by
  unfold capAs4 at h
  split at h
  · split at h
    · simp only [Option.some.injEq] at h; subst h
      have := seq_optParam 65 (be32 asn) (by decide) (by simp) (by simp [capValueOk])
      simpa [u8] using this
    · simp at h
  · simp only [Option.some.injEq] at h; subst h; exact Seq.nil _

theorem seq_capEnh (c : LocalCaps) (b : Bytes) (h : capEnh c = some b) : Seq optParamItem b := by
  unfold capEnh at h
  split at h
  · rename_i l _
    split at h
    · rename_i hl
      simp only [Option.some.injEq] at h; subst h
      have := seq_optParam 5 (encExtNh l) (by decide) hl.2
        (by simp [capValueOk, encExtNh_length])
      simpa [be8, u8] using this
    · simp at h
  · simp only [Option.some.injEq] at h; subst h; exact Seq.nil _

theorem seq_capAp (c : LocalCaps) (b : Bytes) (h : capAp c = some b) : Seq optParamItem b := by
  unfold capAp at h
  split at h
  · rename_i v _
    split at h
    · simp only [Option.some.injEq] at h; subst h
      have := seq_optParam 69 ([0, 1, 1] ++ be8 v) (by decide) (by simp) (by simp [capValueOk])
      simpa [be8, u8] using this
    · simp at h
  · simp only [Option.some.injEq] at h; subst h; exact Seq.nil _

theorem seq_constructCaps (asn : Nat) (c : LocalCaps) (b : Bytes) (h : constructCaps asn c = some b) :
    Seq optParamItem b := by
  unfold constructCaps at h
  split at h
  · rename_i mp as4 enh ap h1 h2 h3 h4
    simp only [Option.some.injEq] at h; subst h
    exact Seq.append (Seq.append (Seq.append (Seq.append (Seq.append (Seq.append
      (seq_capMp c mp h1) (seq_capCrr c)) (seq_capRr c)) (seq_capAs4 asn c as4 h2)) (seq_capEnh c enh h3))
      (seq_capAp c ap h4)) (seq_capErr c)
  · simp at h

end Yabgp.Walker

namespace Yabgp.Walker

/-! ### path attributes -/

/-- an attribute with a 1-octet length -/
theorem attrItem_short (cfg : Cfg) (f code : Nat) (body r : Bytes) (hf : f < 256) (hc : code < 256)
    (hl : body.length < 256) (hext : f / 16 % 2 = 0) (hflags : flagsOk code f = true)
    (hv : attrValueOk cfg code body = true) :
    attrItem cfg (u8 f :: u8 code :: u8 body.length :: (body ++ r)) = some r := by
  have h1 : (u8 f).toNat = f := u8_toNat hf
  have h2 : (u8 code).toNat = code := u8_toNat hc
  have h3 : (u8 body.length).toNat = body.length := u8_toNat hl
  simp only [attrItem, h1, h2, h3, hext, hflags, List.take_left', List.drop_left', hv]
  simp

/-- an attribute with the extended-length bit and a 2-octet length -/
theorem attrItem_ext (cfg : Cfg) (f code : Nat) (body r : Bytes) (hf : f < 256) (hc : code < 256)
    (hl : body.length < 65536) (hext : f / 16 % 2 = 1) (hflags : flagsOk code f = true)
    (hv : attrValueOk cfg code body = true) :
    attrItem cfg (u8 f :: u8 code :: u8 (body.length / 256) :: u8 body.length :: (body ++ r)) = some r := by
  have h1 : (u8 f).toNat = f := u8_toNat hf
  have h2 : (u8 code).toNat = code := u8_toNat hc
  have h3 : (u8 (body.length / 256)).toNat * 256 + (u8 body.length).toNat = body.length := by
    simp only [u8_toNat_mod]; omega
  simp only [attrItem, h1, h2, h3, hext, hflags, List.take_left', List.drop_left', hv]
  simp

theorem seq_attr_short (cfg : Cfg) (f code : Nat) (body : Bytes) (hf : f < 256) (hc : code < 256)
    (hl : body.length < 256) (hext : f / 16 % 2 = 0) (hflags : flagsOk code f = true)
    (hv : attrValueOk cfg code body = true) :
    Seq (attrItem cfg) (be8 f ++ be8 code ++ be8 body.length ++ body) :=
  Seq.single (by simp [be8]) (fun r => by
    simpa [be8] using attrItem_short cfg f code body r hf hc hl hext hflags hv)

theorem seq_attr_ext (cfg : Cfg) (f code : Nat) (body : Bytes) (hf : f < 256) (hc : code < 256)
    (hl : body.length < 65536) (hext : f / 16 % 2 = 1) (hflags : flagsOk code f = true)
    (hv : attrValueOk cfg code body = true) :
    Seq (attrItem cfg) (be8 f ++ be8 code ++ be16 body.length ++ body) :=
  Seq.single (by simp [be8]) (fun r => by
    simpa [be8, be16] using attrItem_ext cfg f code body r hf hc hl hext hflags hv)

end Yabgp.Walker

namespace Yabgp.Walker

theorem asWidth_eq (asn4 : Bool) : Walker.asWidth asn4 = Yabgp.asWidth asn4 := rfl

theorem seq_encSegment (asn4 : Bool) (s : Nat × List Nat) (b : Bytes) (h : encSegment asn4 s = some b) :
    Seq (segItem (Walker.asWidth asn4)) b := by
  unfold encSegment at h
  split at h
  · rename_i hs
    simp only [Option.some.injEq] at h; subst h
    refine Seq.single (by simp [be8]) (fun r => ?_)
    have hn : (u8 s.2.length).toNat = s.2.length := u8_toNat hs.2.1
    simp only [be8, List.cons_append, List.nil_append, segItem, hn, List.append_assoc]
    exact skip_eq _ _ (by rw [encAsns_length, asWidth_eq])
  · simp at h

theorem seq_encSegments (asn4 : Bool) (segs : List (Nat × List Nat)) :
    ∀ b, encSegments asn4 segs = some b → Seq (segItem (Walker.asWidth asn4)) b := by
  induction segs with
  | nil => intro b h; simp [encSegments] at h; subst h; exact Seq.nil _
  | cons s r ih =>
    intro b h
    simp only [encSegments] at h
    cases h1 : encSegment asn4 s with
    | none => simp [h1] at h
    | some a =>
      cases h2 : encSegments asn4 r with
      | none => simp [h1, h2] at h
      | some c =>
        simp [h1, h2] at h; subst h
        exact Seq.append (seq_encSegment asn4 s a h1) (ih c h2)

theorem flatMap_triple_length (xs : List (Nat × Nat × Nat)) :
    (xs.flatMap fun t => be32 t.1 ++ be32 t.2.1 ++ be32 t.2.2).length = 12 * xs.length := by
  induction xs with
  | nil => rfl
  | cons x r ih =>
    simp only [List.flatMap_cons, List.length_append, be32_length, ih, List.length_cons]; omega

theorem valueOk_words (cfg : Cfg) (xs : List Nat) (code : Nat) (h : code = 8 ∨ code = 10) :
    attrValueOk cfg code (xs.flatMap be32) = true := by
  have hl := flatMap_be32_length xs
  rcases h with rfl | rfl <;> simp only [attrValueOk, hl] <;> simp

theorem valueOk_large (cfg : Cfg) (xs : List (Nat × Nat × Nat)) :
    attrValueOk cfg 32 (xs.flatMap fun t => be32 t.1 ++ be32 t.2.1 ++ be32 t.2.2) = true := by
  have hl := flatMap_triple_length xs
  simp only [attrValueOk, hl]; simp

theorem valueOk_aggregator (cfg : Cfg) (a ip : Nat) :
    attrValueOk cfg 7 ((if cfg.asn4 = true then be32 a else be16 a) ++ be32 ip) = true := by
  cases h : cfg.asn4 <;> simp [attrValueOk, Walker.asWidth, h]

/-- every attribute the constructor model returns is one well-formed attribute -/
theorem seq_constructAttr (cfg : Cfg) (code : Nat) (v : AttrVal) (w : Bytes)
    (h : constructAttr cfg.asn4 code v = some w) : Seq (attrItem cfg) w := by
  cases v with
  | origin n =>
    simp only [constructAttr] at h
    split at h
    · split at h
      · simp only [Option.some.injEq] at h; subst h
        have := seq_attr_short cfg C.fOrigin C.tOrigin (be8 n) (by decide) (by decide) (by simp) (by decide)
          (by decide) (by simp [attrValueOk, C.tOrigin])
        simpa using this
      · simp at h
    · simp at h
  | asPath segs =>
    simp only [constructAttr] at h
    split at h
    · unfold constructAsPath at h
      cases hr : encSegments cfg.asn4 segs with
      | none => simp [hr] at h
      | some raw =>
        have hseg := (seq_encSegments cfg.asn4 segs raw hr).all
        simp only [hr, Option.bind_eq_bind, Option.bind_some] at h
        split at h
        · split at h
          · rename_i hlen
            simp only [Option.pure_def, Option.some.injEq] at h; subst h
            exact seq_attr_ext cfg (C.fAsPath + C.fExtLen) C.tAsPath raw (by decide) (by decide) hlen (by decide)
              (by decide) (by simp [attrValueOk, C.tAsPath, hseg])
          · simp at h
        · rename_i hlen
          simp only [Option.pure_def, Option.some.injEq] at h; subst h
          exact seq_attr_short cfg C.fAsPath C.tAsPath raw (by decide) (by decide) (by omega) (by decide)
            (by decide) (by simp [attrValueOk, C.tAsPath, hseg])
    · simp at h
  | nextHop ip =>
    simp only [constructAttr] at h
    split at h
    · simp only [Option.some.injEq] at h; subst h
      have := seq_attr_short cfg C.fNextHop C.tNextHop (be32 ip) (by decide) (by decide) (by simp) (by decide)
        (by decide) (by simp [attrValueOk, C.tNextHop])
      simpa using this
    · simp at h
  | med n =>
    simp only [constructAttr] at h
    split at h
    · simp only [Option.some.injEq] at h; subst h
      have := seq_attr_short cfg C.fMed C.tMed (be32 n) (by decide) (by decide) (by simp) (by decide)
        (by decide) (by simp [attrValueOk, C.tMed])
      simpa using this
    · simp at h
  | localPref n =>
    simp only [constructAttr] at h
    split at h
    · simp only [Option.some.injEq] at h; subst h
      have := seq_attr_short cfg C.fLocalPref C.tLocalPref (be32 n) (by decide) (by decide) (by simp) (by decide)
        (by decide) (by simp [attrValueOk, C.tLocalPref])
      simpa using this
    · simp at h
  | atomicAgg =>
    simp only [constructAttr] at h
    split at h
    · simp only [Option.some.injEq] at h; subst h
      have := seq_attr_short cfg C.fAtomicAgg C.tAtomicAgg [] (by decide) (by decide) (by simp) (by decide)
        (by decide) (by simp [attrValueOk, C.tAtomicAgg])
      simpa using this
    · simp at h
  | aggregator a ip =>
    simp only [constructAttr] at h
    split at h
    · have hlen : ((if cfg.asn4 = true then be32 a else be16 a) ++ be32 ip).length < 256 := by
        cases cfg.asn4 <;> simp
      unfold attrHdr1 at h
      rw [if_pos hlen] at h
      simp only [Option.some.injEq] at h; subst h
      exact seq_attr_short cfg C.fAggregator C.tAggregator _ (by decide) (by decide) hlen (by decide)
        (by decide) (valueOk_aggregator cfg a ip)
    · simp at h
  | community cs =>
    simp only [constructAttr] at h
    split at h
    · unfold attrHdr1 at h
      split at h
      · rename_i hlen
        simp only [Option.some.injEq] at h; subst h
        exact seq_attr_short cfg C.fCommunity C.tCommunity _ (by decide) (by decide) hlen (by decide)
          (by decide) (valueOk_words cfg cs 8 (Or.inl rfl))
      · simp at h
    · simp at h
  | originatorId ip =>
    simp only [constructAttr] at h
    split at h
    · simp only [Option.some.injEq] at h; subst h
      have := seq_attr_short cfg C.fOriginatorId C.tOriginatorId (be32 ip) (by decide) (by decide) (by simp)
        (by decide) (by decide) (by simp [attrValueOk, C.tOriginatorId])
      simpa using this
    · simp at h
  | clusterList ips =>
    simp only [constructAttr] at h
    split at h
    · unfold attrHdr1 at h
      split at h
      · rename_i hlen
        simp only [Option.some.injEq] at h; subst h
        exact seq_attr_short cfg C.fClusterList C.tClusterList _ (by decide) (by decide) hlen (by decide)
          (by decide) (valueOk_words cfg ips 10 (Or.inr rfl))
      · simp at h
    · simp at h
  | largeCommunity xs =>
    simp only [constructAttr] at h
    split at h
    · unfold attrHdr1 at h
      split at h
      · rename_i hlen
        simp only [Option.some.injEq] at h; subst h
        exact seq_attr_short cfg C.fLargeCommunity C.tLargeCommunity _ (by decide) (by decide) hlen (by decide)
          (by decide) (valueOk_large cfg xs)
      · simp at h
    · simp at h
  | raw b => simp [constructAttr] at h
  | unmodelled c => simp [constructAttr] at h

end Yabgp.Walker

namespace Yabgp.Walker

theorem seq_constructAttributes (cfg : Cfg) (as : List (Nat × AttrVal)) :
    ∀ w, constructAttributes cfg.asn4 as = some w → Seq (attrItem cfg) w := by
  induction as with
  | nil => intro w h; simp [constructAttributes] at h; subst h; exact Seq.nil _
  | cons kv r ih =>
    intro w h
    obtain ⟨code, v⟩ := kv
    simp only [constructAttributes] at h
    cases h2 : constructAttributes cfg.asn4 r with
    | none =>
      simp only [h2, Option.bind_eq_bind] at h
      cases hh : (if code ∈ constructCodes then constructAttr cfg.asn4 code v
               else if code ∈ constructOtherCodes then none else some []) <;> simp [hh] at h
    | some c =>
      cases h1 : (if code ∈ constructCodes then constructAttr cfg.asn4 code v
               else if code ∈ constructOtherCodes then none else some []) with
      | none => simp [h1] at h
      | some a =>
        simp [h1, h2] at h; subst h
        refine Seq.append ?_ (ih c h2)
        split at h1
        · exact seq_constructAttr cfg code v a h1
        · split at h1
          · simp at h1
          · simp only [Option.some.injEq] at h1; subst h1; exact Seq.nil _

/-! ### IPv4 prefixes -/

theorem prefixOctets_eq (len : Nat) (h : len ≤ 32) : prefixOctets len = ceil8 len := by
  unfold prefixOctets ceil8
  split
  · omega
  · split
    · omega
    · split
      · omega
      · split <;> omega

/-- the repaired constructor's prefix: path identifier iff add-path, then length and ceil(length/8) octets -/
theorem prefix_item (addpath : Bool) (p : Pfx) (x r : Bytes) (hg : addpath = true → p.pathId.isSome = true)
    (h : constructPrefix addpath p = some x) :
    pathPrefixItem addpath 32 (x ++ r) = some r ∧ x ≠ [] := by
  unfold constructPrefix at h
  split at h
  · simp at h
  · rename_i hr
    have hlen : p.len ≤ 32 := by omega
    have hl : (u8 p.len).toNat = p.len := u8_toNat (by omega)
    have hbody : ∀ r', prefixItem 32 ((be8 p.len ++ (be32 p.addr).take (prefixOctets p.len)) ++ r') = some r' := by
      intro r'
      simp only [be8, List.cons_append, List.nil_append, prefixItem, hl, hlen, ↓reduceIte]
      apply skip_eq
      rw [prefixOctets_eq p.len hlen]
      simp [ceil8]; omega
    cases hp : p.pathId with
    | none =>
      simp only [hp] at h
      simp only [Option.some.injEq] at h; subst h
      cases addpath with
      | false => exact ⟨by simpa [pathPrefixItem] using hbody r, by simp [be8]⟩
      | true => simp [hp] at hg
    | some pid =>
      simp only [hp] at h
      cases addpath with
      | false => simp at h
      | true =>
        simp only [↓reduceIte] at h
        split at h
        · simp only [Option.some.injEq] at h; subst h
          refine ⟨?_, by simp [be32]⟩
          simp only [pathPrefixItem, ↓reduceIte, List.append_assoc]
          rw [skip_eq (be32 pid) _ (by simp)]
          simpa [List.append_assoc] using hbody r
        · simp at h

theorem seq_constructPrefixV4 (addpath : Bool) (ps : List Pfx) (hg : pathIdGuard addpath ps = true) :
    ∀ w, constructPrefixV4 addpath ps = some w → Seq (pathPrefixItem addpath 32) w := by
  induction ps with
  | nil => intro w h; simp [constructPrefixV4] at h; subst h; exact Seq.nil _
  | cons p r ih =>
    intro w h
    simp only [constructPrefixV4] at h
    cases h1 : constructPrefix addpath p with
    | none => simp [h1] at h
    | some a =>
      cases h2 : constructPrefixV4 addpath r with
      | none => simp [h1, h2] at h
      | some c =>
        simp [h1, h2] at h; subst h
        have hgp : addpath = true → p.pathId.isSome = true := by
          intro ha; simp [pathIdGuard, ha] at hg; exact hg.1
        have hgr : pathIdGuard addpath r = true := by
          cases addpath <;> simp_all [pathIdGuard]
        have hx := fun r' => prefix_item addpath p a r' hgp h1
        exact Seq.append (Seq.single (hx []).2 (fun r' => (hx r').1)) (ih hgr c h2)

/-! ### the UPDATE body -/

theorem u16_split (n : Nat) (h : n < 65536) : (u8 (n / 256)).toNat * 256 + (u8 n).toNat = n := by
  simp only [u8_toNat_mod]; omega

theorem updateOk_of_parts (cfg : Cfg) (w a n : Bytes) (hw : w.length < 65536) (ha : a.length < 65536)
    (sw : all (pathPrefixItem cfg.addpath 32) w = true) (sa : all (attrItem cfg) a = true)
    (sn : all (pathPrefixItem cfg.addpath 32) n = true) :
    updateOk cfg (be16 w.length ++ w ++ be16 a.length ++ a ++ n) = true := by
  have h1 := u16_split w.length hw
  have h2 := u16_split a.length ha
  have e : be16 w.length ++ w ++ be16 a.length ++ a ++ n
      = u8 (w.length / 256) :: u8 w.length :: (w ++ (u8 (a.length / 256) :: u8 a.length :: (a ++ n))) := by
    simp [be16]
  rw [e]
  simp only [updateOk, h1, List.take_left', List.drop_left', sw, updateTail, h2, sa, sn]
  simp

end Yabgp.Walker

namespace Yabgp.Walker
open Yabgp.Mp

/-! ### multiprotocol attributes -/

theorem mp_ceil8_eq (l : Nat) : Mp.ceil8 l = Walker.ceil8 l := by
  unfold Mp.ceil8 Walker.ceil8; split <;> omega

/-- `FLAG, ID, 2-octet length, value` of the MP attributes: optional, non-transitive, extended length -/
theorem seq_attrWrap (cfg : Cfg) (code : Nat) (v w : Bytes) (hcode : code = 14 ∨ code = 15)
    (h : attrWrap code v = .ok w) (hv : attrValueOk cfg code v = true) : Seq (attrItem cfg) w := by
  unfold attrWrap at h
  split at h
  · rename_i hlen
    simp only [CRes.ok.injEq] at h; subst h
    have := seq_attr_ext cfg 0x90 code v (by decide) (by omega) hlen (by decide)
      (by rcases hcode with rfl | rfl <;> decide) hv
    simpa [be8, u8] using this
  · simp at h

theorem packed_length (a : Ip) : a.packed.length = a.width / 8 := by
  cases a <;> simp [Ip.packed, Ip.width]

theorem encAll_seq {α : Type} {item : Bytes → Option Bytes} (enc : α → Option Bytes) (xs : List α)
    (h : ∀ x ∈ xs, ∀ b, enc x = some b → Seq item b) :
    ∀ w, encAll enc xs = some w → Seq item w := by
  induction xs with
  | nil => intro w hw; simp [encAll] at hw; subst hw; exact Seq.nil _
  | cons x r ih =>
    intro w hw
    simp only [encAll] at hw
    cases h1 : enc x with
    | none => simp [h1] at hw
    | some a =>
      cases h2 : encAll enc r with
      | none => simp [h1, h2] at hw
      | some c =>
        simp [h1, h2] at hw; subst hw
        exact Seq.append (h x (by simp) a h1) (ih (fun y hy => h y (by simp [hy])) c h2)

/-- IPv6 unicast route: length octet, ceil(length/8) address octets -/
theorem seq_encU6Route (r : U6Route) (b : Bytes) (h : encU6Route r = some b) : Seq (prefixItem 128) b := by
  unfold encU6Route at h
  split at h
  · simp at h
  · split at h
    · rename_i hr
      simp only [Option.some.injEq] at h; subst h
      obtain ⟨n, hn⟩ : ∃ n : Nat, r.pfx.len = n := ⟨r.pfx.len.toNat, by omega⟩
      have hw : r.pfx.addr.width ≤ 128 := by cases r.pfx.addr <;> simp [Ip.width]
      have hn' : n ≤ r.pfx.addr.width := by omega
      simp only [hn, Int.toNat_natCast]
      have hl : (u8 n).toNat = n := u8_toNat (by omega)
      refine Seq.single (by simp [be8]) (fun rest => ?_)
      simp only [be8, List.cons_append, List.nil_append, prefixItem, hl, show n ≤ 128 by omega, ↓reduceIte]
      apply skip_eq
      rw [mp_ceil8_eq]
      have := packed_length r.pfx.addr
      simp only [List.length_take, Walker.ceil8]
      have hw8 : r.pfx.addr.width = 32 ∨ r.pfx.addr.width = 128 := by cases r.pfx.addr <;> simp [Ip.width]
      omega
    · simp at h

theorem encLabels_length (last : Nat → Option Bytes) (hlast : ∀ l x, last l = some x → x.length = 3) :
    ∀ (ls : List Nat) (b : Bytes), encLabels last ls = some b → b.length = 3 * ls.length ∧ 0 < ls.length := by
  intro ls
  induction ls with
  | nil => intro b h; simp [encLabels] at h
  | cons l r ih =>
    intro b h
    cases r with
    | nil =>
      simp only [encLabels] at h
      exact ⟨by simp [hlast l b h], by simp⟩
    | cons l2 r2 =>
      simp only [encLabels] at h
      cases h1 : pack24 (l * 16) with
      | none => simp [h1] at h
      | some a =>
        cases h2 : encLabels last (l2 :: r2) with
        | none => simp [h1, h2] at h
        | some c =>
          simp [h1, h2] at h; subst h
          have ha : a.length = 3 := by
            unfold pack24 at h1; split at h1 <;> simp at h1; subst h1; simp
          have := ih c h2
          refine ⟨?_, by simp⟩
          simp only [List.length_append, ha, List.length_cons] at this ⊢
          omega

theorem encLastLu_length (l : Nat) (x : Bytes) (h : encLastLu l = some x) : x.length = 3 := by
  unfold encLastLu at h
  split at h
  · simp at h; subst h; rfl
  · unfold pack24 at h; split at h <;> simp at h; subst h; simp

theorem encLastVpn_length (l : Nat) (x : Bytes) (h : encLastVpn l = some x) : x.length = 3 := by
  unfold encLastVpn pack24 at h; split at h <;> simp at h; subst h; simp

theorem prefixOctetsV4_eq (len : Int) (h0 : 0 ≤ len) (h : len ≤ 32) : prefixOctetsV4 len = Walker.ceil8 len.toNat := by
  unfold prefixOctetsV4 Walker.ceil8
  split
  · omega
  · split
    · omega
    · split
      · omega
      · split <;> omega

/-- the prefix octets of a labeled / VPN route are ceil(len/8) many, `len` non-negative (repaired: fix_6) -/
theorem prefixHex_length (af : AF) (p : MPfx) (ph : Bytes) (hg : af = .inet → v4LenOk p = true)
    (h : luPrefixHex af p = some ph) : 0 ≤ p.len ∧ ph.length = Walker.ceil8 p.len.toNat := by
  cases af with
  | inet =>
    have hg' := hg rfl
    simp only [v4LenOk, Bool.and_eq_true, decide_eq_true_eq] at hg'
    simp only [luPrefixHex, Mp.constructPrefixV4] at h
    split at h
    · simp only [Option.some.injEq] at h; subst h
      refine ⟨hg'.1, ?_⟩
      rw [prefixOctetsV4_eq p.len hg'.1 hg'.2]
      simp [Walker.ceil8]; omega
    · simp at h
  | inet6 =>
    simp only [luPrefixHex, Mp.constructPrefixV6] at h
    split at h
    · rename_i hr
      simp only [Option.some.injEq] at h; subst h
      refine ⟨hr.1, ?_⟩
      have := packed_length p.addr
      have hw8 : p.addr.width = 32 ∨ p.addr.width = 128 := by cases p.addr <;> simp [Ip.width]
      simp only [List.length_take, Walker.ceil8]
      omega
    · simp at h

end Yabgp.Walker

namespace Yabgp.Walker
open Yabgp.Mp

/-- a route whose length octet counts `8 * pre.length + len` bits: `pre` (labels, route distinguisher) and
    ceil(len/8) prefix octets follow -/
theorem bits_route (minBits : Nat) (pre ph : Bytes) (len : Int) (h0 : 0 ≤ len)
    (hph : ph.length = Walker.ceil8 len.toNat) (hmin : minBits ≤ 8 * pre.length)
    (hlt : (8 * pre.length : Int) + len < 256) :
    Seq (bitsItem minBits) (be8 ((8 * pre.length : Int) + len).toNat ++ pre ++ ph) := by
  obtain ⟨n, hn⟩ : ∃ n : Nat, len = n := ⟨len.toNat, by omega⟩
  subst hn
  have e : ((8 * pre.length : Int) + (n : Int)).toNat = 8 * pre.length + n := by omega
  rw [e]
  have hl : (u8 (8 * pre.length + n)).toNat = 8 * pre.length + n := u8_toNat (by omega)
  refine Seq.single (by simp [be8]) (fun rest => ?_)
  simp only [be8, List.cons_append, List.nil_append, bitsItem, hl, List.append_assoc,
    show minBits ≤ 8 * pre.length + n by omega, ↓reduceIte]
  rw [← List.append_assoc]
  apply skip_eq
  simp only [List.length_append, hph, Int.toNat_natCast, Walker.ceil8]
  omega

theorem seq_encLuWith (af : AF) (lh : Bytes) (r : LuRoute) (b : Bytes) (hlh : 3 ≤ lh.length)
    (hg : af = .inet → v4LenOk r.pfx = true) (h : encLuWith af (some lh) r = some b) :
    Seq (bitsItem 24) b := by
  unfold encLuWith at h
  cases hp : luPrefixHex af r.pfx with
  | none => simp [hp] at h
  | some ph =>
    simp only [hp] at h
    split at h
    · rename_i hr
      simp only [Option.some.injEq] at h; subst h
      obtain ⟨h0, hlen⟩ := prefixHex_length af r.pfx ph hg hp
      exact bits_route 24 lh ph r.pfx.len h0 hlen (by omega) hr.2
    · simp at h

theorem seq_encLuRoute (af : AF) (r : LuRoute) (b : Bytes) (hg : af = .inet → v4LenOk r.pfx = true)
    (h : encLuRoute af r = some b) : Seq (bitsItem 24) b := by
  unfold encLuRoute at h
  cases hl : encLabels encLastLu r.labels with
  | none => simp [hl, encLuWith] at h
  | some lh =>
    rw [hl] at h
    have := encLabels_length encLastLu encLastLu_length r.labels lh hl
    exact seq_encLuWith af lh r b (by omega) hg h

theorem seq_encLuWithdraw (af : AF) (r : LuRoute) (b : Bytes) (hg : af = .inet → v4LenOk r.pfx = true)
    (h : encLuWithdraw af r = some b) : Seq (bitsItem 24) b :=
  seq_encLuWith af withdrawLabelHex r b (by simp [withdrawLabelHex]) hg h

theorem constructRd_length (rd : Rd) (b : Bytes) (h : constructRd rd = some b) : b.length = 8 := by
  cases rd with
  | asForm asn an =>
    simp only [constructRd] at h
    split at h
    · split at h <;> simp at h; subst h; simp
    · split at h <;> simp at h; subst h; simp
  | ipForm ip an =>
    simp only [constructRd] at h
    split at h <;> simp at h; subst h; simp
  | raw _ => simp [constructRd] at h

theorem vpnPrefixHex_eq (af : AF) (p : MPfx) : vpnPrefixHex af p = luPrefixHex af p := by
  cases af <;> rfl

theorem seq_encVpnWith (af : AF) (lh : Bytes) (r : VpnRoute) (b : Bytes) (hlh : 3 ≤ lh.length)
    (hg : af = .inet → v4LenOk r.pfx = true) (h : encVpnWith af (some lh) r = some b) :
    Seq (bitsItem 88) b := by
  unfold encVpnWith at h
  cases hrd : constructRd r.rd with
  | none => simp [hrd] at h
  | some rh =>
    cases hp : vpnPrefixHex af r.pfx with
    | none => simp [hrd, hp] at h
    | some ph =>
      simp only [hrd, hp] at h
      split at h
      · rename_i hr
        simp only [Option.some.injEq] at h; subst h
        have hrl := constructRd_length r.rd rh hrd
        obtain ⟨h0, hlen⟩ := prefixHex_length af r.pfx ph hg (by rw [← vpnPrefixHex_eq]; exact hp)
        have e : r.pfx.len + (8 * (lh.length + rh.length) : Int) = (8 * (lh ++ rh).length : Int) + r.pfx.len := by
          simp only [List.length_append]; push_cast; omega
        have hb := bits_route 88 (lh ++ rh) ph r.pfx.len h0 hlen (by simp only [List.length_append]; omega)
          (by rw [← e]; exact hr.2)
        rw [e]
        simpa [List.append_assoc] using hb
      · simp at h

theorem seq_encVpnRoute (af : AF) (wd : Bool) (r : VpnRoute) (b : Bytes) (hg : af = .inet → v4LenOk r.pfx = true)
    (h : encVpnRoute af wd r = some b) : Seq (bitsItem 88) b := by
  unfold encVpnRoute at h
  cases wd with
  | true => exact seq_encVpnWith af withdrawLabelHex r b (by simp [withdrawLabelHex]) hg (by simpa using h)
  | false =>
    simp only [Bool.false_eq_true, ↓reduceIte] at h
    cases hl : encLabels encLastVpn r.labels with
    | none => simp [hl, encVpnWith] at h
    | some lh =>
      rw [hl] at h
      have := encLabels_length encLastVpn encLastVpn_length r.labels lh hl
      exact seq_encVpnWith af lh r b (by omega) hg h

end Yabgp.Walker

namespace Yabgp.Walker
open Yabgp.Mp

theorem mpReachOk_reachValue (afi safi : Nat) (nh nl : Bytes) (ha : afi < 65536) (hs : safi < 256)
    (hn : nh.length < 256) (hnl : nlriOk afi safi nl = true) :
    mpReachOk (reachValue afi safi nh.length nh nl) = true := by
  have h1 := u16_split afi ha
  have h2 : (u8 safi).toNat = safi := u8_toNat hs
  have h3 : (u8 nh.length).toNat = nh.length := u8_toNat hn
  have e : reachValue afi safi nh.length nh nl
      = u8 (afi / 256) :: u8 afi :: u8 safi :: u8 nh.length :: (nh ++ (0 :: nl)) := by
    simp [reachValue, be16, be8]
  rw [e]
  simp only [mpReachOk, h3, List.drop_left', h1, h2, hnl]
  simp

theorem mpUnreachOk_unreachValue (afi safi : Nat) (nl : Bytes) (ha : afi < 65536) (hs : safi < 256)
    (hnl : nlriOk afi safi nl = true) : mpUnreachOk (unreachValue afi safi nl) = true := by
  have h1 := u16_split afi ha
  have h2 : (u8 safi).toNat = safi := u8_toNat hs
  have e : unreachValue afi safi nl = u8 (afi / 256) :: u8 afi :: u8 safi :: nl := by
    simp [unreachValue, be16, be8]
  rw [e]
  simp only [mpUnreachOk, h1, h2, hnl]

theorem afi_cases (af : AF) : af.afi = 1 ∨ af.afi = 2 := by cases af <;> simp [AF.afi]

theorem nlriOk_labeled (af : AF) (nl : Bytes) (h : all (bitsItem 24) nl = true) : nlriOk af.afi safiLabel nl = true := by
  rcases afi_cases af with e | e <;> simp [nlriOk, e, safiLabel, h]

theorem nlriOk_vpn (af : AF) (nl : Bytes) (h : all (bitsItem 88) nl = true) : nlriOk af.afi safiVpn nl = true := by
  rcases afi_cases af with e | e <;> simp [nlriOk, e, safiVpn, h]

theorem nlriOk_u6 (nl : Bytes) (h : all (prefixItem 128) nl = true) : nlriOk 2 safiUnicast nl = true := by
  simp [nlriOk, safiUnicast, h]

theorem seq_constructU6 (rs : List U6Route) (nl : Bytes) (h : constructU6 rs = some nl) : Seq (prefixItem 128) nl :=
  encAll_seq encU6Route rs (fun x _ b hb => seq_encU6Route x b hb) nl h

theorem seq_constructLu (af : AF) (rs : List LuRoute) (nl : Bytes)
    (hg : af = .inet → rs.all (fun r => v4LenOk r.pfx) = true) (h : constructLu af rs = some nl) :
    Seq (bitsItem 24) nl :=
  encAll_seq (encLuRoute af) rs (fun x hx b hb => seq_encLuRoute af x b
    (fun ha => by have := hg ha; simp only [List.all_eq_true] at this; exact this x hx) hb) nl h

theorem seq_constructLuWithdraw (af : AF) (rs : List LuRoute) (nl : Bytes)
    (hg : af = .inet → rs.all (fun r => v4LenOk r.pfx) = true) (h : constructLuWithdraw af rs = some nl) :
    Seq (bitsItem 24) nl :=
  encAll_seq (encLuWithdraw af) rs (fun x hx b hb => seq_encLuWithdraw af x b
    (fun ha => by have := hg ha; simp only [List.all_eq_true] at this; exact this x hx) hb) nl h

theorem seq_constructVpn (af : AF) (wd : Bool) (rs : List VpnRoute) (nl : Bytes)
    (hg : af = .inet → rs.all (fun r => v4LenOk r.pfx) = true) (h : constructVpn af wd rs = some nl) :
    Seq (bitsItem 88) nl :=
  encAll_seq (encVpnRoute af wd) rs (fun x hx b hb => seq_encVpnRoute af wd x b
    (fun ha => by have := hg ha; simp only [List.all_eq_true] at this; exact this x hx) hb) nl h

end Yabgp.Walker

namespace Yabgp

/-! ### helpers for the non-vacuity examples -/

/-- from "the constructor returns something" (evaluated) and a C08 theorem: a concrete valid message exists -/
theorem exists_of_isSome {P : Bytes → Prop} {o : Option Bytes} (hs : o.isSome = true) (h : ∀ w, o = some w → P w) :
    ∃ w, o = some w ∧ P w := by
  obtain ⟨w, hw⟩ := Option.isSome_iff_exists.mp hs
  exact ⟨w, hw, h w hw⟩

/-- the same for the attribute constructors (`CRes`) -/
theorem exists_of_ok {P : Bytes → Prop} {o : Mp.CRes} (hs : (match o with | .ok _ => true | _ => false) = true)
    (h : ∀ w, o = .ok w → P w) : ∃ w, o = .ok w ∧ P w := by
  cases o with
  | ok w => exact ⟨w, rfl, h w rfl⟩
  | none => simp at hs
  | raise => simp at hs

end Yabgp
