/-
  Helper lemmas for C17: the Python string operations of Model/ExtComm.lean on rendered text, the
  binary32 <-> int conversions on exactly representable values, MAC text, and the decoder on reference octets.
-/
import Yabgp.Lemmas.TextRt
import Yabgp.Model.ExtComm
import Yabgp.Spec.RfcExtComm

namespace Yabgp.ExtComm
open Yabgp.Text

/-! ### whitespace, strip, lower -/

/-- no whitespace anywhere in the string -/
def NoWs (s : List Char) : Prop := ∀ c ∈ s, isWs c = false

theorem NoWs.append {s t : List Char} (hs : NoWs s) (ht : NoWs t) : NoWs (s ++ t) := by
  intro c hc; rcases List.mem_append.mp hc with h | h
  · exact hs c h
  · exact ht c h

theorem NoWs.cons {c : Char} {s : List Char} (hc : isWs c = false) (hs : NoWs s) : NoWs (c :: s) := by
  intro d hd; rcases List.mem_cons.mp hd with h | h
  · subst h; exact hc
  · exact hs d h

theorem NoWs.nil : NoWs [] := by intro c hc; simp at hc

theorem isWs_digit {c : Char} (h : IsDigit c) : isWs c = false := by
  unfold IsDigit at h
  have h1 : c ≠ ' ' := by rintro rfl; revert h; decide
  have h2 : c ≠ '\t' := by rintro rfl; revert h; decide
  have h3 : c ≠ '\n' := by rintro rfl; revert h; decide
  have h4 : c ≠ '\r' := by rintro rfl; revert h; decide
  simp [isWs, h1, h2, h3, h4]; omega

theorem NoWs.of_digits {s : List Char} (h : AllDigits s) : NoWs s := fun c hc => isWs_digit (h c hc)

theorem noWs_decStr (n : Nat) : NoWs (decStr n) := NoWs.of_digits (decStr_allDigits n)

theorem noWs_ipv4Str (n : Nat) : NoWs (ipv4Str n) := by
  unfold ipv4Str
  have hd : isWs '.' = false := by decide
  exact ((((((noWs_decStr _).append (NoWs.cons hd NoWs.nil)).append (noWs_decStr _)).append
    (NoWs.cons hd NoWs.nil)).append (noWs_decStr _)).append (NoWs.cons hd NoWs.nil)).append (noWs_decStr _)

theorem dropWhile_noWs {s : List Char} (h : NoWs s) : s.dropWhile isWs = s := by
  cases s with
  | nil => rfl
  | cons c r => simp [List.dropWhile, h c (by simp)]

theorem strip_noWs {s : List Char} (h : NoWs s) : strip s = s := by
  unfold strip lstrip
  rw [dropWhile_noWs h]
  have hr : NoWs s.reverse := fun c hc => h c (by simpa using hc)
  rw [dropWhile_noWs hr, List.reverse_reverse]

theorem lowerChar_digit {c : Char} (h : IsDigit c) : lowerChar c = c := by
  unfold lowerChar; unfold IsDigit at h; rw [if_neg (by omega)]

theorem lower_digits {s : List Char} (h : AllDigits s) : lower s = s := by
  unfold lower
  induction s with
  | nil => rfl
  | cons c r ih =>
    rw [List.map_cons, lowerChar_digit (h c (by simp)), ih (fun d hd => h d (by simp [hd]))]

theorem lower_append (s t : List Char) : lower (s ++ t) = lower s ++ lower t := by simp [lower]

theorem lower_cons (c : Char) (s : List Char) : lower (c :: s) = lowerChar c :: lower s := by simp [lower]

/-! ### int() on rendered decimals -/

theorem unders_plain : ∀ (s : List Char) (prev : Bool), '_' ∉ s → (prev = true ∨ s ≠ []) → unders prev s = some s := by
  intro s
  induction s with
  | nil => intro prev _ h; simp at h; simp [unders, h]
  | cons c r ih =>
    intro prev hn _
    have hc : c ≠ '_' := fun e => hn (by simp [e])
    have hr : '_' ∉ r := fun e => hn (by simp [e])
    simp [unders, hc, ih true hr (Or.inl rfl)]

theorem pyDigits_decStr (n : Nat) : pyDigits (decStr n) = some n := by
  unfold pyDigits
  rw [unders_plain _ false ((decStr_allDigits n).not_mem (by decide)) (Or.inr (decStr_ne_nil n))]
  simp [parseDec_decStr]

/-- `int(str(n)) == n` with Python's full `int()` -/
theorem pyInt_decStr (n : Nat) : pyInt (decStr n) = some (Int.ofNat n) := by
  unfold pyInt
  rw [strip_noWs (noWs_decStr n)]
  obtain ⟨c, r, hcr, hc⟩ := decStr_head_isDigit n
  have h1 : c ≠ '-' := hc.ne (by decide)
  have h2 : c ≠ '+' := hc.ne (by decide)
  rw [hcr]
  simp only [pyIntCore, h1, h2, ↓reduceIte]
  rw [← hcr, pyDigits_decStr]; rfl

theorem inRange_ofNat {b n : Nat} (h : n < b) : inRange b (some (Int.ofNat n)) = some n := by
  simp only [inRange]
  rw [if_pos]
  · simp
  · constructor
    · exact Int.natCast_nonneg n
    · exact Int.ofNat_lt.mpr h

theorem pyIpv4_ipv4Str {n : Nat} (h : n < 4294967296) : pyIpv4 (ipv4Str n) = some n := by
  simp [pyIpv4, parseIpv4_ipv4Str h]

/-! ### fields -/

theorem firstField_append {a : List Char} (b : List Char) (h : ':' ∉ a) : firstField ':' (a ++ ':' :: b) = a := by
  simp [firstField, splitOnFirst_append b h]

theorem split2_append {a b : List Char} (ha : ':' ∉ a) (hb : ':' ∉ b) : split2 (a ++ ':' :: b) = some (a, b) := by
  simp [split2, splitAll_append b ha, splitAll_single hb]

/-! ### binary32 on exactly representable naturals -/

open Yabgp.RfcExt

/-- the 24-bit significand of an exactly representable positive number -/
theorem f32_mant {n : Nat} (hn : n ≠ 0) (hex : (n * 2 ^ 23) % 2 ^ Nat.log2 n = 0) :
    ∃ M, 8388608 ≤ M ∧ M < 16777216 ∧ n * 2 ^ 23 / 2 ^ Nat.log2 n = M ∧
      (Nat.log2 n ≤ 23 → n * 2 ^ (23 - Nat.log2 n) = M) ∧
      (23 ≤ Nat.log2 n → n = M * 2 ^ (Nat.log2 n - 23)) := by
  have hP : 0 < 2 ^ Nat.log2 n := Nat.pow_pos (by decide)
  have h1 : 2 ^ Nat.log2 n ≤ n := Nat.log2_self_le hn
  have h2 : n < 2 ^ Nat.log2 n * 2 := by
    have := @Nat.lt_log2_self n; rwa [Nat.pow_succ] at this
  have hM : n * 2 ^ 23 / 2 ^ Nat.log2 n * 2 ^ Nat.log2 n = n * 2 ^ 23 :=
    Nat.div_mul_cancel (Nat.dvd_of_mod_eq_zero hex)
  refine ⟨n * 2 ^ 23 / 2 ^ Nat.log2 n, ?_, ?_, rfl, ?_, ?_⟩
  · rw [Nat.le_div_iff_mul_le hP]; omega
  · rw [Nat.div_lt_iff_lt_mul hP]; omega
  · intro hk
    have e : 2 ^ (23 - Nat.log2 n) * 2 ^ Nat.log2 n = 2 ^ 23 := Nat.pow_sub_mul_pow 2 hk
    apply Nat.eq_of_mul_eq_mul_right hP
    rw [hM, Nat.mul_assoc, e]
  · intro hk
    have e : 2 ^ (Nat.log2 n - 23) * 2 ^ 23 = 2 ^ Nat.log2 n := Nat.pow_sub_mul_pow 2 hk
    apply Nat.eq_of_mul_eq_mul_right (show 0 < 2 ^ 23 by decide)
    rw [Nat.mul_assoc, e, hM]

theorem roundAt_of_dvd {sh n : Nat} (h : 2 ^ sh ∣ n) : roundAt sh n = n := by
  unfold roundAt
  have h0 : n % 2 ^ sh = 0 := Nat.mod_eq_zero_of_dvd h
  have hp : 0 < 2 ^ (sh - 1) := Nat.pow_pos (by decide)
  rw [h0, if_neg (by omega), Nat.div_mul_cancel h]

theorem log2_lt_128 {n : Nat} (hn : n ≠ 0) (h : n < 2 ^ 128) : Nat.log2 n < 128 := (Nat.log2_lt hn).mpr h

theorem roundBits_exact {n : Nat} (p : Nat) (hp : p ≤ 24 + 29) (h24 : 24 ≤ p) (hn : n ≠ 0)
    (hex : (n * 2 ^ 23) % 2 ^ Nat.log2 n = 0) : roundBits p n = n := by
  unfold roundBits
  split
  · rfl
  · rename_i hge
    have hk : p ≤ Nat.log2 n := (Nat.le_log2 hn).mpr (Nat.not_lt.mp hge)
    obtain ⟨M, _, _, _, _, hB⟩ := f32_mant hn hex
    apply roundAt_of_dvd
    have hB' := hB (by omega)
    have e : 2 ^ (Nat.log2 n - 23) = 2 ^ (p - 24) * 2 ^ (Nat.log2 n + 1 - p) := by
      rw [← Nat.pow_add]; congr 1; omega
    refine ⟨M * 2 ^ (p - 24), ?_⟩
    calc n = M * 2 ^ (Nat.log2 n - 23) := hB'
      _ = 2 ^ (Nat.log2 n + 1 - p) * (M * 2 ^ (p - 24)) := by rw [e]; ac_rfl

theorem bits_fields (k M : Nat) (hk : k < 128) (h1 : 8388608 ≤ M) (h2 : M < 16777216) :
    ((127 + k) * 8388608 + (M - 8388608)) / 8388608 % 256 = 127 + k ∧
    ((127 + k) * 8388608 + (M - 8388608)) % 8388608 = M - 8388608 ∧
    ((127 + k) * 8388608 + (M - 8388608)) / 2147483648 % 2 = 0 ∧
    8388608 + (M - 8388608) = M := by
  refine ⟨by omega, by omega, by omega, by omega⟩

/-- the model's bit pattern of an exact positive number is the IEEE one, and reading it back gives the number -/
theorem f32_exact {n : Nat} (hn : n ≠ 0) (hlt : n < 2 ^ 128) (hex : (n * 2 ^ 23) % 2 ^ Nat.log2 n = 0) :
    f32BitsPos n = ieee32 n ∧ ieee32 n < 2139095040 ∧ unpackF (ieee32 n) = some (false, n) := by
  obtain ⟨M, hM1, hM2, hM, hA, hB⟩ := f32_mant hn hex
  have hk := log2_lt_128 hn hlt
  have hi : ieee32 n = (127 + Nat.log2 n) * 8388608 + (M - 8388608) := by
    unfold ieee32; rw [if_neg hn, hM]; omega
  have hb : f32BitsPos n = (127 + Nat.log2 n) * 8388608 + (M - 8388608) := by
    unfold f32BitsPos f32Frac
    split
    · rename_i h; rw [hA h]
    · rename_i h
      have hB' := hB (by omega)
      have : n / 2 ^ (Nat.log2 n - 23) = M := by
        conv => lhs; lhs; rw [hB']
        exact Nat.mul_div_cancel _ (Nat.pow_pos (by decide))
      rw [this]
  refine ⟨by rw [hb, hi], by rw [hi]; omega, ?_⟩
  rw [hi]
  generalize hkk : Nat.log2 n = k at *
  unfold unpackF
  simp only [Nat.reducePow]
  obtain ⟨e1, e2, e3, e4⟩ := bits_fields k M hk hM1 hM2
  rw [e1, e2, e3, if_neg (by omega), if_neg (by omega), e4]
  split
  · rename_i h
    have hB' := hB (by omega)
    have : 127 + k - 150 = k - 23 := by omega
    rw [this, ← hB']; simp
  · rename_i h
    have hA' := hA (by omega)
    have : 150 - (127 + k) = 23 - k := by omega
    rw [this, ← hA', Nat.mul_div_cancel _ (Nat.pow_pos (by decide))]; simp


theorem f32Exact_iff {n : Nat} : f32Exact n = true ↔ n < 2 ^ 128 ∧ (n * 2 ^ 23) % 2 ^ Nat.log2 n = 0 := by
  simp [f32Exact]

set_option exponentiation.threshold 1100 in
/-- `struct.pack('!f', n)` of an exactly representable natural number is its IEEE 754 pattern -/
theorem packF_exact {n : Nat} (h : f32Exact n = true) : packF (Int.ofNat n) = some (ieee32 n) := by
  obtain ⟨hlt, hex⟩ := f32Exact_iff.mp h
  by_cases hn : n = 0
  · subst hn; simp [packF, ieee32]
  · have hi : (Int.ofNat n) ≠ 0 := by simpa using hn
    have hneg : ¬ (Int.ofNat n < 0) := by simp
    unfold packF
    rw [if_neg hi]
    simp only [Int.ofNat_eq_natCast, Int.natAbs_natCast]
    rw [roundBits_exact 53 (by omega) (by omega) hn hex, roundBits_exact 24 (by omega) (by omega) hn hex]
    have hbig : (2:Nat) ^ 128 ≤ 2 ^ 1024 := Nat.pow_le_pow_right (by decide) (by decide)
    rw [if_neg (by omega), if_neg (by omega)]
    have hneg' : ¬ ((n : Int) < 0) := by omega
    rw [if_neg hneg', (f32_exact hn hlt hex).1]; rfl

/-- and `int(struct.unpack('!f', ...))` of that pattern is the number -/
theorem unpackF_exact {n : Nat} (h : f32Exact n = true) : unpackF (ieee32 n) = some (false, n) ∧ ieee32 n < 4294967296 := by
  obtain ⟨hlt, hex⟩ := f32Exact_iff.mp h
  by_cases hn : n = 0
  · subst hn; simp [unpackF, ieee32]
  · have := f32_exact hn hlt hex
    exact ⟨this.2.2, by omega⟩


/-! ### MAC text -/

theorem hex2_hexByte : ∀ b < 256, hexByte (hex2 b) = some (u8 b) := by decide +kernel

theorem hex2_clean : ∀ b < 256,
    (hex2 b).all (fun c => !isWs c && c != ',' && c != ':' && c != '-' && c != '.' && c != '_') = true := by decide +kernel

theorem octetHex_eq (b : Nat) : octetHex b = hex2 b := rfl


/-! ### the REST translation on rendered text -/

theorem translateOne_key (p : Peer) {key : List Char} (value : List Char) (h : ':' ∉ key) :
    translateOne p (key ++ ':' :: value) = dispatch p (lower (strip key)) value := by
  simp [translateOne, splitOnFirst_append value h]

theorem trList_single {f : List Char → Tr (List Item)} {x : List Char} {a : List Item} (h : f x = .ok a) :
    trList f [x] = .ok a := by
  simp [trList, h]

theorem trList_cons_ok {f : List Char → Tr (List Item)} {x : List Char} {r : List (List Char)} {a b : List Item}
    (h : f x = .ok a) (hr : trList f r = .ok b) : trList f (x :: r) = .ok (a ++ b) := by
  simp [trList, h, hr]

theorem noWs_pair {a b : List Char} (ha : NoWs a) (hb : NoWs b) : NoWs (a ++ ':' :: b) :=
  ha.append (NoWs.cons (by decide) hb)

theorem notMem_pair {c : Char} {a b : List Char} (hc : c ≠ ':') (ha : c ∉ a) (hb : c ∉ b) : c ∉ a ++ ':' :: b := by
  simp [ha, hb, hc]

theorem noWs_decPair (a n : Nat) : NoWs (decStr a ++ ':' :: decStr n) := noWs_pair (noWs_decStr a) (noWs_decStr n)
theorem noComma_decPair (a n : Nat) : ',' ∉ decStr a ++ ':' :: decStr n :=
  notMem_pair (by decide) (decStr_no_sep a).2.2.1 (decStr_no_sep n).2.2.1
theorem noWs_ipPair (ip n : Nat) : NoWs (ipv4Str ip ++ ':' :: decStr n) := noWs_pair (noWs_ipv4Str ip) (noWs_decStr n)
theorem noComma_ipPair (ip n : Nat) : ',' ∉ ipv4Str ip ++ ':' :: decStr n :=
  notMem_pair (by decide) (ipv4Str_no_sep ip).2 (decStr_no_sep n).2.2.1

theorem adminOne_as2 (cIp cAs2 cAs4 : Nat) (p : Peer) {a : Nat} (n : Nat) (ha : a < 65536) :
    adminOne cIp cAs2 cAs4 p (decStr a ++ ':' :: decStr n) = .ok [.str cAs2 (decStr a ++ ':' :: decStr n)] := by
  unfold adminOne
  rw [strip_noWs (noWs_decPair a n), firstField_append _ (decStr_no_sep a).1,
    if_neg (decStr_no_sep a).2.1, strip_noWs (noWs_decStr a), pyInt_decStr]
  simp only
  rw [if_pos (by simp; omega)]

theorem adminOne_as4 (cIp cAs2 cAs4 : Nat) (p : Peer) {a : Nat} (n : Nat) (ha : 65536 ≤ a)
    (hp : p.remoteCaps = true ∧ p.fourBytesAs = true) :
    adminOne cIp cAs2 cAs4 p (decStr a ++ ':' :: decStr n) = .ok [.str cAs4 (decStr a ++ ':' :: decStr n)] := by
  unfold adminOne
  rw [strip_noWs (noWs_decPair a n), firstField_append _ (decStr_no_sep a).1,
    if_neg (decStr_no_sep a).2.1, strip_noWs (noWs_decStr a), pyInt_decStr]
  simp only
  rw [if_neg (by simp; omega)]
  simp [hp.1, hp.2]

theorem adminOne_ip4 (cIp cAs2 cAs4 : Nat) (p : Peer) (ip n : Nat) :
    adminOne cIp cAs2 cAs4 p (ipv4Str ip ++ ':' :: decStr n) = .ok [.str cIp (ipv4Str ip ++ ':' :: decStr n)] := by
  unfold adminOne
  rw [strip_noWs (noWs_ipPair ip n), firstField_append _ (ipv4Str_no_sep ip).1, if_pos (ipv4Str_has_dot ip)]

theorem tr_routeTarget (p : Peer) {v : List Char} {items : List Item} (hws : NoWs v) (hc : ',' ∉ v)
    (h : adminOne 258 2 514 p v = .ok items) : translateOne p ("route-target".toList ++ ':' :: v) = .ok items := by
  rw [translateOne_key p _ (by decide)]
  have hk : lower (strip "route-target".toList) = "route-target".toList := by decide
  have hd : dispatch p "route-target".toList v = trList (rtOne p) (splitAll ',' (strip v)) := rfl
  rw [hk, hd, strip_noWs hws, splitAll_single hc]
  exact trList_single h

theorem tr_routeOrigin (p : Peer) {v : List Char} {items : List Item} (hws : NoWs v) (hc : ',' ∉ v)
    (h : adminOne 259 3 515 p v = .ok items) : translateOne p ("route-origin".toList ++ ':' :: v) = .ok items := by
  rw [translateOne_key p _ (by decide)]
  have hk : lower (strip "route-origin".toList) = "route-origin".toList := by decide
  have hd : dispatch p "route-origin".toList v = trList (roOne p) (splitAll ',' (strip v)) := rfl
  rw [hk, hd, strip_noWs hws, splitAll_single hc]
  exact trList_single h

theorem tr_linkBw (p : Peer) {v : List Char} (hws : NoWs v) (hc : ',' ∉ v) :
    translateOne p ("dmzlink-bw".toList ++ ':' :: v) = .ok [.str 16388 v] := by
  rw [translateOne_key p _ (by decide)]
  have hk : lower (strip "dmzlink-bw".toList) = "dmzlink-bw".toList := by decide
  have hd : dispatch p "dmzlink-bw".toList v = .ok ((splitAll ',' (strip v)).map fun x => .str 16388 (strip x)) := rfl
  rw [hk, hd, strip_noWs hws, splitAll_single hc]
  simp [strip_noWs hws]

theorem tr_redirectVrf (p : Peer) {v : List Char} (hws : NoWs v) :
    translateOne p ("redirect-vrf".toList ++ ':' :: v) = .ok [.str 32776 v] := by
  rw [translateOne_key p _ (by decide)]
  have hk : lower (strip "redirect-vrf".toList) = "redirect-vrf".toList := by decide
  have hd : dispatch p "redirect-vrf".toList v = .ok [.str 32776 (strip v)] := rfl
  rw [hk, hd, strip_noWs hws]

theorem tr_redirectNh (p : Peer) (ip c : Nat) :
    translateOne p ("redirect-nexthop".toList ++ ':' :: (ipv4Str ip ++ ':' :: decStr c)) =
      .ok [.nh (ipv4Str ip) (Int.ofNat c)] := by
  rw [translateOne_key p _ (by decide)]
  have hk : lower (strip "redirect-nexthop".toList) = "redirect-nexthop".toList := by decide
  have hd : ∀ v, dispatch p "redirect-nexthop".toList v =
      match splitOnFirst ':' (strip v) with
      | none => .raises
      | some (a, b) =>
        match pyInt b with
        | some i => .ok [.nh a i]
        | none => .raises := fun _ => rfl
  rw [hk, hd, strip_noWs (noWs_ipPair ip c), splitOnFirst_append _ (ipv4Str_no_sep ip).1]
  simp only [pyInt_decStr]

/-- the generic BGP_EXT_COM_DICT branch with a plain (non-integer) value -/
theorem tr_dict_str (p : Peer) (name : String) (code : Nat) {v : List Char} (hws : NoWs v) (hc : ',' ∉ v)
    (hcolon : ':' ∉ name.toList) (hk : lower (strip name.toList) = name.toList)
    (hd : ∀ x, dispatch p name.toList x = trList (dictOne code) (splitAll ',' (strip x))) (hcode : code ≠ 32777) :
    translateOne p (name.toList ++ ':' :: v) = .ok [.str code v] := by
  rw [translateOne_key p _ hcolon, hk, hd, strip_noWs hws, splitAll_single hc]
  apply trList_single
  simp [dictOne, hcode, strip_noWs hws]

theorem tr_marking (p : Peer) (d : Nat) :
    translateOne p ("traffic-marking-dscp".toList ++ ':' :: decStr d) = .ok [.num 32777 (Int.ofNat d)] := by
  rw [translateOne_key p _ (by decide)]
  have hk : lower (strip "traffic-marking-dscp".toList) = "traffic-marking-dscp".toList := by decide
  have hd : ∀ x, dispatch p "traffic-marking-dscp".toList x = trList (dictOne 32777) (splitAll ',' (strip x)) :=
    fun _ => rfl
  rw [hk, hd, strip_noWs (noWs_decStr d), splitAll_single (decStr_no_sep d).2.2.1]
  apply trList_single
  simp [dictOne, strip_noWs (noWs_decStr d), pyInt_decStr]

/-- the BGP_EXT_COM_DICT_1 branch: esi-label / mac-mobility -/
theorem tr_dict1 (p : Peer) (name : String) (code : Nat) (a b : Nat)
    (hcolon : ':' ∉ name.toList) (hk : lower (strip name.toList) = name.toList)
    (hd : ∀ x, dispatch p name.toList x =
      match splitOnFirst ':' (strip x) with
      | none => .raises
      | some (a, b) =>
        match pyInt a, pyInt b with
        | some x, some y => .ok [.num2 code x y]
        | _, _ => .raises) :
    translateOne p (name.toList ++ ':' :: (decStr a ++ ':' :: decStr b)) =
      .ok [.num2 code (Int.ofNat a) (Int.ofNat b)] := by
  rw [translateOne_key p _ hcolon, hk, hd, strip_noWs (noWs_decPair a b), splitOnFirst_append _ (decStr_no_sep a).1]
  simp only [pyInt_decStr]

theorem tr_action (p : Peer) (s t : Nat) :
    translateOne p ("traffic-action".toList ++ ':' :: ('S' :: ':' :: (decStr s ++ ',' :: 'T' :: ':' :: decStr t))) =
      .ok [.action (some (Int.ofNat s)) (some (Int.ofNat t))] := by
  rw [translateOne_key p _ (by decide)]
  have hk : lower (strip "traffic-action".toList) = "traffic-action".toList := by decide
  have hd : ∀ v, dispatch p "traffic-action".toList v =
      match actionFields (splitAll ',' (lower (strip v))) none none with
      | some (s, t) => .ok [.action s t]
      | none => .raises := fun _ => rfl
  have hws1 : NoWs ('s' :: ':' :: decStr s) := NoWs.cons (by decide) (NoWs.cons (by decide) (noWs_decStr s))
  have hws2 : NoWs ('t' :: ':' :: decStr t) := NoWs.cons (by decide) (NoWs.cons (by decide) (noWs_decStr t))
  have hws : NoWs ('S' :: ':' :: (decStr s ++ ',' :: 'T' :: ':' :: decStr t)) :=
    NoWs.cons (by decide) (NoWs.cons (by decide) ((noWs_decStr s).append
      (NoWs.cons (by decide) (NoWs.cons (by decide) (NoWs.cons (by decide) (noWs_decStr t))))))
  have hl : lower ('S' :: ':' :: (decStr s ++ ',' :: 'T' :: ':' :: decStr t)) =
      ('s' :: ':' :: decStr s) ++ ',' :: ('t' :: ':' :: decStr t) := by
    simp only [lower_cons, lower_append, lower_digits (decStr_allDigits s), lower_digits (decStr_allDigits t)]
    rfl
  have hc1 : ',' ∉ 's' :: ':' :: decStr s := by simp [(decStr_no_sep s).2.2.1]
  have hc2 : ',' ∉ 't' :: ':' :: decStr t := by simp [(decStr_no_sep t).2.2.1]
  rw [hk, hd, strip_noWs hws, hl, splitAll_append _ hc1, splitAll_single hc2]
  have f1 : splitOnFirst ':' ('s' :: ':' :: decStr s) = some (['s'], decStr s) :=
    splitOnFirst_append (a := ['s']) (decStr s) (by decide)
  have f2 : splitOnFirst ':' ('t' :: ':' :: decStr t) = some (['t'], decStr t) :=
    splitOnFirst_append (a := ['t']) (decStr t) (by decide)
  simp [actionFields, strip_noWs hws1, strip_noWs hws2, f1, f2, pyInt_decStr]


/-! ### the constructor on the items of rendered text -/

theorem conAs2_dec (code : Nat) {a n : Nat} (ha : a < 65536) (hn : n < 4294967296) :
    conAs2 code (decStr a ++ ':' :: decStr n) = some (be16 code ++ be16 a ++ be32 n) := by
  unfold conAs2
  rw [split2_append (decStr_no_sep a).1 (decStr_no_sep n).1]
  simp only [pyInt_decStr, inRange_ofNat ha, inRange_ofNat hn]

theorem conAs4_dec (code : Nat) {a n : Nat} (ha : a < 4294967296) (hn : n < 65536) :
    conAs4 code (decStr a ++ ':' :: decStr n) = some (be16 code ++ be32 a ++ be16 n) := by
  unfold conAs4
  rw [split2_append (decStr_no_sep a).1 (decStr_no_sep n).1]
  simp only [pyInt_decStr, inRange_ofNat ha, inRange_ofNat hn]

theorem conIp4_dec (code : Nat) {ip n : Nat} (hip : ip < 4294967296) (hn : n < 65536) :
    conIp4 code (ipv4Str ip ++ ':' :: decStr n) = some (be16 code ++ be32 ip ++ be16 n) := by
  unfold conIp4
  rw [split2_append (ipv4Str_no_sep ip).1 (decStr_no_sep n).1]
  simp only [pyInt_decStr, pyIpv4_ipv4Str hip, inRange_ofNat hn]

theorem conRate_dec (code : Nat) {a r : Nat} (ha : a < 65536) (hr : f32Exact r = true) :
    conRate code (decStr a ++ ':' :: decStr r) = some (be16 code ++ be16 a ++ be32 (ieee32 r)) := by
  unfold conRate
  rw [split2_append (decStr_no_sep a).1 (decStr_no_sep r).1]
  simp only [pyInt_decStr, inRange_ofNat ha, Option.bind_some, packF_exact hr]

theorem conOpaque_dec (code : Nat) {c : Nat} (hc : c < 4294967296) :
    conOpaque code (decStr c) = some (be16 code ++ be16 0 ++ be32 c) := by
  unfold conOpaque
  simp only [pyInt_decStr, inRange_ofNat hc]

theorem u8_mod (n : Nat) : u8 (n % 256) = u8 n := by
  apply UInt8.toNat_inj.mp
  simp [u8_toNat_mod]

theorem hexByte_octet (n : Nat) : hexByte (octetHex (n % 256)) = some (u8 n) := by
  rw [octetHex_eq, hex2_hexByte _ (Nat.mod_lt _ (by decide)), u8_mod]

theorem octetHex_noDash (n : Nat) : '-' ∉ octetHex (n % 256) := by
  have := hex2_clean _ (Nat.mod_lt n (by decide : 0 < 256))
  rw [octetHex_eq]
  intro hm
  rw [List.all_eq_true] at this
  have := this _ hm
  simp at this

theorem beN6 (m : Nat) : beN 6 m = [u8 (m / 1099511627776), u8 (m / 4294967296), u8 (m / 16777216), u8 (m / 65536),
    u8 (m / 256), u8 m] := by
  simp [beN, Nat.div_div_eq_div_mul]

theorem conMac_text (code : Nat) (m : Nat) : conMac code (macText m) = some (be16 code ++ beN 6 m) := by
  unfold conMac macText
  rw [splitAll_append _ (octetHex_noDash _), splitAll_append _ (octetHex_noDash _), splitAll_append _ (octetHex_noDash _),
    splitAll_append _ (octetHex_noDash _), splitAll_append _ (octetHex_noDash _), splitAll_single (octetHex_noDash _)]
  simp [List.mapM_cons, hexByte_octet, beN6]



theorem octetHex_clean (n : Nat) : ∀ c ∈ octetHex (n % 256), isWs c = false ∧ c ≠ ',' ∧ c ≠ ':' := by
  have := hex2_clean _ (Nat.mod_lt n (by decide : 0 < 256))
  rw [octetHex_eq]
  rw [List.all_eq_true] at this
  intro c hc
  have := this c hc
  simp at this
  exact ⟨this.1.1.1.1.1, this.1.1.1.1.2, this.1.1.1.2⟩

theorem macText_clean (m : Nat) : ∀ c ∈ macText m, isWs c = false ∧ c ≠ ',' ∧ c ≠ ':' := by
  intro c hc
  unfold macText at hc
  simp only [List.mem_append, List.mem_cons] at hc
  have hd : isWs '-' = false ∧ '-' ≠ ',' ∧ '-' ≠ ':' := by decide
  rcases hc with h | rfl | h | rfl | h | rfl | h | rfl | h | rfl | h
  all_goals first | exact hd | exact octetHex_clean _ c h

theorem noWs_macText (m : Nat) : NoWs (macText m) := fun c hc => (macText_clean m c hc).1
theorem noComma_macText (m : Nat) : ',' ∉ macText m := fun hc => (macText_clean m _ hc).2.1 rfl
theorem noColon_macText (m : Nat) : ':' ∉ macText m := fun hc => (macText_clean m _ hc).2.2 rfl



/-! ### the decoder on reference octets -/

theorem n16_be {a : Nat} (h : a < 65536) : n16 (u8 (a / 256)) (u8 a) = a := by
  simp only [n16, u8_toNat_mod]; omega

theorem n32_be {n : Nat} (h : n < 4294967296) : n32 (u8 (n / 16777216)) (u8 (n / 65536)) (u8 (n / 256)) (u8 n) = n := by
  simp only [n32, u8_toNat_mod]; omega

theorem be32_small {t : Nat} (h : t < 65536) : be32 t = [0, 0] ++ be16 t := by
  simp only [be32, be16, List.cons_append, List.nil_append]
  have h1 : t / 16777216 = 0 := Nat.div_eq_of_lt (by omega)
  have h2 : t / 65536 = 0 := Nat.div_eq_of_lt (by omega)
  rw [h1, h2]; rfl

theorem decodeOne_rate1 (a b c d e f : UInt8) : decodeOne 0x80 0x06 a b c d e f = decodeRate 32774 a b c d e f := by
  simp [decodeOne, n16]

theorem decodeOne_rate2 (a b c d e f : UInt8) : decodeOne 0x40 0x04 a b c d e f = decodeRate 16388 a b c d e f := by
  simp [decodeOne, n16]

theorem decodeRate_exact (code : Nat) {a r : Nat} (ha : a < 65536) (hr : f32Exact r = true) :
    decodeRate code (u8 (a / 256)) (u8 a) (u8 (ieee32 r / 16777216)) (u8 (ieee32 r / 65536)) (u8 (ieee32 r / 256))
      (u8 (ieee32 r)) = .ok (.rate code a false r) := by
  have hu := unpackF_exact hr
  unfold decodeRate
  rw [n32_be hu.2, hu.1, n16_be ha]; rfl

/-- what one decoded community contributes in front of the rest of the list -/
def consVal (v : Val) (r : R (List Val)) : R (List Val) :=
  match r with
  | .ok vs => .ok (v :: vs)
  | .error e => .error e

theorem decodeAll_of_one {t s a b c d e f : UInt8} {v : Val} (rest : Bytes) (h : decodeOne t s a b c d e f = .ok v) :
    decodeAll (t :: s :: a :: b :: c :: d :: e :: f :: rest) = consVal v (decodeAll rest) := by
  rw [decodeAll, h]; cases decodeAll rest <;> rfl

/-- refusal of a 4-octet AS administrator towards a peer that did not advertise the capability -/
theorem adminOne_as4_refused (cIp cAs2 cAs4 : Nat) (p : Peer) {a : Nat} (n : Nat) (ha : 65536 ≤ a)
    (hp : p.remoteCaps = true ∧ p.fourBytesAs = false) :
    adminOne cIp cAs2 cAs4 p (decStr a ++ ':' :: decStr n) = .refused 2 := by
  unfold adminOne
  rw [strip_noWs (noWs_decPair a n), firstField_append _ (decStr_no_sep a).1,
    if_neg (decStr_no_sep a).2.1, strip_noWs (noWs_decStr a), pyInt_decStr]
  simp only
  rw [if_neg (by simp; omega)]
  simp [hp.1, hp.2]

/-! ### lists -/

theorem rfcBytes_length (v : EC) : (rfcBytes v).length = 8 := by
  cases v <;> simp [rfcBytes]

theorem flatMap_rfcBytes_length (vs : List EC) : (vs.flatMap rfcBytes).length = 8 * vs.length := by
  induction vs with
  | nil => rfl
  | cons v r ih => simp only [List.flatMap_cons, List.length_append, rfcBytes_length, ih, List.length_cons]; omega

theorem mapM_parseComm (vs : List Nat) (h : ∀ v ∈ vs, v < 4294967296) : (vs.map commStr).mapM parseComm = some vs := by
  induction vs with
  | nil => rfl
  | cons v r ih =>
    simp [List.mapM_cons, parseComm_commStr (h v (by simp)), ih (fun x hx => h x (by simp [hx]))]

theorem mapM_parseLarge (ts : List (Nat × Nat × Nat)) : (ts.map largeStr).mapM parseLarge = some ts := by
  induction ts with
  | nil => rfl
  | cons t r ih => simp [List.mapM_cons, parseLarge_largeStr, ih]

end Yabgp.ExtComm
