/-
  C08 for the EVPN constructor model (Model/Mp/Evpn.lean, as repaired: Model/Construct/EvpnGuards.lean):
  lemmas relating it to the walker's EVPN grammar.
-/
import Yabgp.Lemmas.WalkerLemmas
import Yabgp.Model.Construct.EvpnGuards

namespace Yabgp.Walker
open Yabgp.Evpn

theorem getD_append_at (x r : Bytes) (y : UInt8) (n : Nat) (h : x.length = n) : (x ++ y :: r).getD n 0 = y := by
  subst h
  simp [List.getD_eq_getElem?_getD]

theorem evpn_constructRd_length (rd : Evpn.Rd) (b : Bytes) (h : Evpn.constructRd rd = some b) : b.length = 8 := by
  cases rd with
  | asn a c =>
    simp only [Evpn.constructRd] at h
    split at h
    · split at h <;> simp at h; subst h; simp
    · split at h <;> simp at h; subst h; simp
  | ip i n =>
    simp only [Evpn.constructRd] at h
    split at h <;> simp at h; subst h; simp
  | raw _ => simp [Evpn.constructRd] at h

theorem constructInitLabels_length (ls : List Nat) :
    ∀ b, constructInitLabels ls = some b → b.length = 3 * ls.length := by
  induction ls with
  | nil => intro b h; simp [constructInitLabels] at h; subst h; rfl
  | cons l r ih =>
    intro b h
    simp only [constructInitLabels] at h
    split at h
    · cases hr : constructInitLabels r with
      | none => simp [hr] at h
      | some c =>
        simp [hr] at h; subst h
        have := ih c hr
        simp only [List.length_append, be24_length, this, List.length_cons]; omega
    · simp at h

theorem constructLabels_length (ls : List Nat) (b : Bytes) (h : constructLabels ls = some b) :
    b.length = 3 * ls.length ∧ 0 < ls.length := by
  unfold constructLabels at h
  cases hl : ls.getLast? with
  | none => simp [hl] at h
  | some last =>
    simp only [hl] at h
    have hne : ls ≠ [] := by intro e; subst e; simp at hl
    have hlen : ls.dropLast.length = ls.length - 1 := List.length_dropLast
    have hpos : 0 < ls.length := by cases ls <;> simp at hne ⊢
    cases hi : constructInitLabels ls.dropLast with
    | none => simp [hi] at h
    | some ini =>
      simp only [hi] at h
      have hini := constructInitLabels_length ls.dropLast ini hi
      split at h
      · split at h
        · simp only [Option.some.injEq] at h; subst h
          refine ⟨?_, hpos⟩
          simp only [List.length_append, be24_length, hini, hlen]; omega
        · simp at h
      · simp only [Option.some.injEq] at h; subst h
        refine ⟨?_, hpos⟩
        simp only [List.length_append, hini, hlen, List.length_cons, List.length_nil]; omega

theorem labelsLen_of_constructLabels (ls : List Nat) (b : Bytes) (h : constructLabels ls = some b) :
    labelsLen b.length = true := by
  obtain ⟨h1, h2⟩ := constructLabels_length ls b h
  simp [labelsLen, h1]; omega

theorem mac6_length (m : Nat) (b : Bytes) (h : mac6 m = some b) : b.length = 6 := by
  unfold mac6 at h; split at h <;> simp at h; subst h; simp

theorem ipPacked_length (ip : Evpn.Ip) (b : Bytes) (h : ipPacked ip = some b) :
    b.length = if ip.v6 then 16 else 4 := by
  unfold ipPacked at h
  split at h
  · split at h <;> simp at h; subst h; simp [*]
  · split at h <;> simp at h; subst h; simp [*]

/-- the optional IP address field: `00`, or `20` + 4 octets, or `80` + 16 octets -/
theorem constructIpField_spec (ip : Option Evpn.Ip) (b : Bytes) (h : constructIpField ip = some b) :
    ∃ (il : Nat) (x : Bytes), b = u8 il :: x ∧ (il = 0 ∨ il = 32 ∨ il = 128) ∧ x.length = il / 8 := by
  cases ip with
  | none =>
    simp [constructIpField] at h; subst h
    exact ⟨0, [], rfl, Or.inl rfl, rfl⟩
  | some a =>
    simp only [constructIpField] at h
    cases hp : ipPacked a with
    | none => simp [hp] at h
    | some x =>
      simp [hp] at h; subst h
      have hl := ipPacked_length a x hp
      refine ⟨x.length * 8, x, rfl, ?_, by omega⟩
      split at hl <;> omega

/-! ### the route values -/

theorem evpn_t1_ok (a b t d : Bytes) (ha : a.length = 8) (hb : b.length = 10) (ht : t.length = 4)
    (hd : labelsLen d.length = true) : evpnRouteOk 1 (a ++ b ++ t ++ d) = true := by
  simp only [evpnRouteOk, ↓reduceIte, List.length_append, ha, hb, ht]
  simpa using hd

theorem evpn_t2_ok (a b t m x d : Bytes) (il : Nat) (ha : a.length = 8) (hb : b.length = 10) (ht : t.length = 4)
    (hm : m.length = 6) (hil : il = 0 ∨ il = 32 ∨ il = 128) (hx : x.length = il / 8)
    (hd : labelsLen d.length = true) :
    evpnRouteOk 2 (a ++ b ++ t ++ [48] ++ m ++ (u8 il :: x) ++ d) = true := by
  have hil' : (u8 il).toNat = il := u8_toNat (by omega)
  have g22 : (a ++ b ++ t ++ [48] ++ m ++ (u8 il :: x) ++ d).getD 22 0 = 48 := by
    have := getD_append_at (a ++ b ++ t) (m ++ (u8 il :: x) ++ d) 48 22 (by simp [ha, hb, ht])
    simpa [List.append_assoc] using this
  have g29 : (a ++ b ++ t ++ [48] ++ m ++ (u8 il :: x) ++ d).getD 29 0 = u8 il := by
    have := getD_append_at (a ++ b ++ t ++ [48] ++ m) (x ++ d) (u8 il) 29 (by simp [ha, hb, ht, hm])
    simpa [List.append_assoc] using this
  have hlen : (a ++ b ++ t ++ [48] ++ m ++ (u8 il :: x) ++ d).length = 30 + il / 8 + d.length := by
    simp [ha, hb, ht, hm, hx]; omega
  simp only [evpnRouteOk, g22, g29, hil', hlen]
  have h48 : (48 : UInt8).toNat = 48 := rfl
  simp only [h48]
  have e : 30 + il / 8 + d.length - 30 - il / 8 = d.length := by omega
  rw [e, hd]
  rcases hil with rfl | rfl | rfl <;> simp [ipLenOk] <;> omega

theorem evpn_t3_ok (a t x : Bytes) (il : Nat) (ha : a.length = 8) (ht : t.length = 4)
    (hil : il = 0 ∨ il = 32 ∨ il = 128) (hx : x.length = il / 8) :
    evpnRouteOk 3 (a ++ t ++ (u8 il :: x)) = true := by
  have hil' : (u8 il).toNat = il := u8_toNat (by omega)
  have g12 : (a ++ t ++ (u8 il :: x)).getD 12 0 = u8 il :=
    getD_append_at (a ++ t) x (u8 il) 12 (by simp [ha, ht])
  have hlen : (a ++ t ++ (u8 il :: x)).length = 13 + il / 8 := by simp [ha, ht, hx]; omega
  simp only [evpnRouteOk, g12, hil', hlen]
  rcases hil with rfl | rfl | rfl <;> simp [ipLenOk]

theorem evpn_t4_ok (a b x : Bytes) (il : Nat) (ha : a.length = 8) (hb : b.length = 10)
    (hil : il = 0 ∨ il = 32 ∨ il = 128) (hx : x.length = il / 8) :
    evpnRouteOk 4 (a ++ b ++ (u8 il :: x)) = true := by
  have hil' : (u8 il).toNat = il := u8_toNat (by omega)
  have g18 : (a ++ b ++ (u8 il :: x)).getD 18 0 = u8 il :=
    getD_append_at (a ++ b) x (u8 il) 18 (by simp [ha, hb])
  have hlen : (a ++ b ++ (u8 il :: x)).length = 19 + il / 8 := by simp [ha, hb, hx]; omega
  simp only [evpnRouteOk, g18, hil', hlen]
  rcases hil with rfl | rfl | rfl <;> simp [ipLenOk]

theorem evpn_t5_ok (a e t p g d : Bytes) (plen w : Nat) (ha : a.length = 8) (he : e.length = 8) (ht : t.length = 4)
    (hw : w = 4 ∨ w = 16) (hp : p.length = w) (hg : g.length = w) (hd : d.length = 3)
    (hpl : plen ≤ 8 * w) :
    evpnRouteOk 5 (a ++ [0, 0] ++ e ++ t ++ [u8 plen] ++ p ++ g ++ d) = true := by
  have hpl' : (u8 plen).toNat = plen := u8_toNat (by omega)
  have g22 : (a ++ [0, 0] ++ e ++ t ++ [u8 plen] ++ p ++ g ++ d).getD 22 0 = u8 plen := by
    have := getD_append_at (a ++ [0, 0] ++ e ++ t) (p ++ g ++ d) (u8 plen) 22 (by simp [ha, he, ht])
    simpa [List.append_assoc] using this
  have hlen : (a ++ [0, 0] ++ e ++ t ++ [u8 plen] ++ p ++ g ++ d).length = 26 + 2 * w := by
    simp [ha, he, ht, hp, hg, hd]; omega
  simp only [evpnRouteOk, g22, hpl', hlen]
  rcases hw with rfl | rfl <;> simp <;> omega

end Yabgp.Walker

namespace Yabgp.Walker
open Yabgp.Evpn

theorem esiGuard_length (e : Esi) (b : Bytes) (hg : esiGuard e = true) (h : constructEsi e = some b) : b.length = 10 := by
  simpa [esiGuard, h] using hg

/-- the value octets of a route the repaired constructor accepts have the layout of their route type -/
theorem routeValue_ok (r : Route) (v : Bytes) (hg : routeGuard r = true) (h : constructRouteValue r = some v)
    (hne : v ≠ []) : evpnRouteOk r.type v = true := by
  cases r with
  | t1 rd esi tag label =>
    simp only [constructRouteValue, constructT1] at h
    cases h1 : Evpn.constructRd rd with
    | none => simp [h1] at h
    | some a =>
    cases h2 : constructEsi esi with
    | none => simp [h1, h2] at h
    | some b =>
    cases h3 : constructLabels label with
    | none => simp [h1, h2, h3] at h
    | some d =>
      simp only [h1, h2, h3] at h
      split at h
      · simp only [Option.some.injEq] at h; subst h
        exact evpn_t1_ok a b (be32 tag) d (evpn_constructRd_length rd a h1)
          (esiGuard_length esi b (by simpa [routeGuard] using hg) h2) (by simp)
          (labelsLen_of_constructLabels label d h3)
      · simp at h
  | t2 rd esi tag mac ip label =>
    simp only [routeGuard, Bool.and_eq_true, decide_eq_true_eq] at hg
    simp only [constructRouteValue, constructT2, if_neg hg.2] at h
    cases h1 : Evpn.constructRd rd with
    | none => simp [h1] at h
    | some a =>
    cases h2 : constructEsi esi with
    | none => simp [h1, h2] at h
    | some b =>
    cases h3 : mac6 mac with
    | none => simp [h1, h2, h3] at h
    | some m =>
    cases h4 : constructIpField ip with
    | none => simp [h1, h2, h3, h4] at h
    | some i =>
    cases h5 : constructLabels label with
    | none => simp [h1, h2, h3, h4, h5] at h
    | some d =>
      simp only [h1, h2, h3, h4, h5] at h
      split at h
      · simp only [Option.some.injEq] at h; subst h
        obtain ⟨il, x, rfl, hil, hx⟩ := constructIpField_spec ip i h4
        exact evpn_t2_ok a b (be32 tag) m x d il (evpn_constructRd_length rd a h1)
          (esiGuard_length esi b hg.1 h2) (by simp) (mac6_length mac m h3) hil hx
          (labelsLen_of_constructLabels label d h5)
      · simp at h
  | t3 rd tag ip =>
    simp only [constructRouteValue, constructT3] at h
    cases h1 : Evpn.constructRd rd with
    | none => simp [h1] at h
    | some a =>
    cases h4 : constructIpField ip with
    | none => simp [h1, h4] at h
    | some i =>
      simp only [h1, h4] at h
      split at h
      · simp only [Option.some.injEq] at h; subst h
        obtain ⟨il, x, rfl, hil, hx⟩ := constructIpField_spec ip i h4
        exact evpn_t3_ok a (be32 tag) x il (evpn_constructRd_length rd a h1) (by simp) hil hx
      · simp at h
  | t4 rd esi ip =>
    simp only [constructRouteValue, constructT4] at h
    cases h1 : Evpn.constructRd rd with
    | none => simp [h1] at h
    | some a =>
    cases h2 : constructEsi esi with
    | none => simp [h1, h2] at h
    | some b =>
    cases h4 : constructIpField ip with
    | none => simp [h1, h2, h4] at h
    | some i =>
      simp only [h1, h2, h4, Option.some.injEq] at h; subst h
      obtain ⟨il, x, rfl, hil, hx⟩ := constructIpField_spec ip i h4
      exact evpn_t4_ok a b x il (evpn_constructRd_length rd a h1)
        (esiGuard_length esi b (by simpa [routeGuard] using hg) h2) hil hx
  | t5 rd esi tag pfx plen gw label => simp [constructRouteValue] at h
  | t5c rd esi tag pfx plen gw label =>
    simp only [routeGuard, Bool.and_eq_true, decide_eq_true_eq] at hg
    obtain ⟨⟨hfam, hplen⟩, hlab⟩ := hg
    simp only [constructRouteValue, constructT5] at h
    cases h1 : Evpn.constructRd rd with
    | none => simp [h1] at h
    | some a =>
    cases h2 : packDouble esi with
    | none => simp [h1, h2] at h
    | some e =>
    cases h3 : ipPacked pfx with
    | none => simp [h1, h2, h3] at h
    | some p =>
    cases h4 : ipPacked gw with
    | none => simp [h1, h2, h3, h4] at h
    | some g =>
    cases h5 : constructLabels label with
    | none => simp [h1, h2, h3, h4, h5] at h
    | some d =>
      simp only [h1, h2, h3, h4, h5] at h
      split at h
      · simp only [Option.some.injEq] at h; subst h
        have he : e.length = 8 := by
          unfold packDouble at h2
          split at h2
          · simp at h2; subst h2; simp
          · split at h2 <;> simp at h2; subst h2; simp
        have hp := ipPacked_length pfx p h3
        have hgw := ipPacked_length gw g h4
        have hd := (constructLabels_length label d h5).1
        refine evpn_t5_ok a e (be32 tag) p g d plen (if pfx.v6 then 16 else 4) (evpn_constructRd_length rd a h1) he
          (by simp) (by split <;> simp) hp (by rw [hgw, ← hfam]) (by omega) ?_
        split at hplen <;> simp_all
      · simp at h
  | unk ty =>
    simp [constructRouteValue] at h
    exact absurd h hne

theorem seq_constructRoute (r : Route) (b : Bytes) (hg : routeGuard r = true) (h : constructRoute r = some b) :
    Seq evpnItem b := by
  unfold constructRoute at h
  cases hv : constructRouteValue r with
  | none => simp [hv] at h
  | some v =>
    cases v with
    | nil => simp [hv] at h; subst h; exact Seq.nil _
    | cons x xs =>
      simp only [hv] at h
      split at h
      · rename_i hlt
        simp only [Option.some.injEq] at h; subst h
        have hok := routeValue_ok r (x :: xs) hg hv (by simp)
        have h1 : (u8 r.type).toNat = r.type := u8_toNat hlt.1
        have h2 : (u8 (x :: xs).length).toNat = (x :: xs).length := u8_toNat hlt.2
        refine Seq.single (by simp) (fun rest => ?_)
        simp only [evpnItem, tlv11, List.cons_append, h1, h2]
        rw [show (x :: (xs ++ rest)) = (x :: xs) ++ rest from rfl]
        simp only [List.take_left', List.drop_left', hok]
        simp
      · simp at h

theorem seq_constructRoutes (rs : List Route) (hg : rs.all routeGuard = true) :
    ∀ b, constructRoutes rs = some b → Seq evpnItem b := by
  induction rs with
  | nil => intro b h; simp [constructRoutes] at h; subst h; exact Seq.nil _
  | cons r t ih =>
    intro b h
    simp only [List.all_cons, Bool.and_eq_true] at hg
    simp only [constructRoutes] at h
    cases h1 : constructRoute r with
    | none => simp [h1] at h
    | some a =>
      cases h2 : constructRoutes t with
      | none => simp [h1, h2] at h
      | some c =>
        simp [h1, h2] at h; subst h
        exact Seq.append (seq_constructRoute r a hg.1 h1) (ih hg.2 c h2)

end Yabgp.Walker
