/-
  The "normal" situation every RFC reaction is stated for: the state machine tracks connection `i`, which is
  up and which we have not closed.  Under it the close / error helpers have an explicit closed form.
-/
import Yabgp.Lemmas.Keeps

namespace Yabgp
namespace Sess

structure Norm (s : Sess) (i : Nat) : Prop where
  proto : s.proto = some i
  lt : i < s.conns.length
  up : (s.conn i).phase = .connected
  nd : (s.conn i).disconnected = false

/-- the NOTIFICATION message with the given code, sub-code and data, as RFC 4271 §4.5 lays it out -/
def notifWire (e sub : Nat) (d : Bytes) : Bytes :=
  marker ++ be16 (d.length + 21) ++ be8 3 ++ (be8 e ++ be8 sub ++ d)

theorem constructNotification_eq (e sub : Nat) (d : Bytes) (he : e < 256) (hs : sub < 256)
    (hd : d.length + 21 < 65536) : constructNotification e sub d = some (notifWire e sub d) := by
  unfold constructNotification constructHeader notifWire
  have hl : (be8 e ++ be8 sub ++ d).length = d.length + 2 := by simp; omega
  rw [if_pos ⟨he, hs⟩, hl, if_pos (by omega)]
  simp [C.msgNotification]

theorem Norm.of_conns {s s' : Sess} {i : Nat} (h : Norm s i) (hc : s'.conns = s.conns) (hp : s'.proto = s.proto) :
    Norm s' i :=
  ⟨hp.trans h.proto, by rw [hc]; exact h.lt, by simpa [conn, hc] using h.up, by simpa [conn, hc] using h.nd⟩

theorem Norm.bumpSent {s : Sess} {i : Nat} (h : Norm s i) (j : Nat) (g : Stats → Stats) : Norm (s.bumpSent j g) i := by
  refine ⟨h.proto, by simp [Sess.bumpSent]; exact h.lt, ?_, ?_⟩
  · simp only [Sess.bumpSent, conn_setConn]; split
    · rename_i hh; simpa [hh.1] using h.up
    · exact h.up
  · simp only [Sess.bumpSent, conn_setConn]; split
    · rename_i hh; simpa [hh.1] using h.nd
    · exact h.nd

theorem Norm.bumpRecv {s : Sess} {i : Nat} (h : Norm s i) (j : Nat) (g : Stats → Stats) : Norm (s.bumpRecv j g) i := by
  refine ⟨h.proto, by simp [Sess.bumpRecv]; exact h.lt, ?_, ?_⟩
  · simp only [Sess.bumpRecv, conn_setConn]; split
    · rename_i hh; simpa [hh.1] using h.up
    · exact h.up
  · simp only [Sess.bumpRecv, conn_setConn]; split
    · rename_i hh; simpa [hh.1] using h.nd
    · exact h.nd

theorem Norm.emit {s : Sess} {i : Nat} (h : Norm s i) (o : Out) : Norm (s.emit o) i := h.of_conns rfl rfl
theorem Norm.withTm {s : Sess} {i : Nat} (h : Norm s i) (v : Timers) : Norm (s.withTm v) i := h.of_conns rfl rfl
theorem Norm.setRetry {s : Sess} {i : Nat} (h : Norm s i) (v : Option Nat) : Norm (s.setRetry v) i := h.of_conns rfl rfl
theorem Norm.setHold {s : Sess} {i : Nat} (h : Norm s i) (v : Option Nat) : Norm (s.setHold v) i := h.of_conns rfl rfl
theorem Norm.setKeepalive {s : Sess} {i : Nat} (h : Norm s i) (v : Option Nat) : Norm (s.setKeepalive v) i := h.of_conns rfl rfl
theorem Norm.withRemote {s : Sess} {i : Nat} (h : Norm s i) (v : CapaDict) : Norm (s.withRemote v) i := h.of_conns rfl rfl
theorem Norm.withHoldTime {s : Sess} {i : Nat} (h : Norm s i) (v : Nat) : Norm (s.withHoldTime v) i := h.of_conns rfl rfl
theorem Norm.withOuts {s : Sess} {i : Nat} (h : Norm s i) (v : List Out) : Norm (s.withOuts v) i := h.of_conns rfl rfl

/-- on a normal state a NOTIFICATION is counted once and written once, to the tracked connection -/
theorem sendNotification_norm {s : Sess} {i : Nat} (h : Norm s i) (e sub : Nat) (d : Bytes)
    (he : e < 256) (hs : sub < 256) (hd : d.length + 21 < 65536) :
    s.sendNotification e sub d = (s.bumpSent i incNotifications).emit (.write i (notifWire e sub d)) := by
  simp only [sendNotification, h.proto, constructNotification_eq e sub d he hs hd]
  have := (h.bumpSent i incNotifications).up
  simp [writeOn, transportUp, this]

theorem sendKeepalive_norm {s : Sess} {i : Nat} (h : Norm s i) :
    s.sendKeepalive = (s.bumpSent i incKeepalives).emit (.write i constructKeepalive) := by
  simp only [sendKeepalive, h.proto]
  have := (h.bumpSent i incKeepalives).up
  simp [writeOn, transportUp, this]

/-- on a normal state `_close_connection` closes the tracked connection -/
theorem closeConn_norm {s : Sess} {i : Nat} (h : Norm s i) :
    s.closeConn = ((((s.setPhase i .closing).setDisconnected i).emit (.lose i))).withRetryCounter 0 := by
  simp only [closeConn, h.proto, closeOn, h.up, ↓reduceIte]

/-- on a normal state `_error_close` cancels the session timers, arms the idle-hold timer, closes the
    tracked connection and goes to Idle -/
theorem errorClose_norm {s : Sess} {i : Nat} (h : Norm s i) :
    s.errorClose =
      ((((((s.withTm { retry := none, hold := none, keepalive := none, idleHold := some s.idleDeadline }).setPhase i
        .closing).setDisconnected i).emit (.lose i)).withRetryCounter 0).incRetryCounter).withSt .idle := by
  unfold errorClose
  rw [closeConn_norm (h.withTm _)]
  simp [setSt]

end Sess
end Yabgp
