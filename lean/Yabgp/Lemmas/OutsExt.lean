/-
  What the reaction helpers may append to the output list: only transport writes, a close, the
  "established" notice or (unreachably) an escape marker — never a connect, never a message report.
-/
import Yabgp.Lemmas.Norm

namespace Yabgp
namespace Sess

/-- `s'` extends the outputs of `s` by items that all satisfy `P` -/
def OutsExt (P : Out → Prop) (s s' : Sess) : Prop := ∃ ext, s'.outs = s.outs ++ ext ∧ ∀ o ∈ ext, P o

theorem OutsExt.refl (P : Out → Prop) (s : Sess) : OutsExt P s s := ⟨[], by simp, by simp⟩
theorem OutsExt.trans {P : Out → Prop} {a b c : Sess} (h1 : OutsExt P a b) (h2 : OutsExt P b c) : OutsExt P a c := by
  obtain ⟨e1, q1, p1⟩ := h1
  obtain ⟨e2, q2, p2⟩ := h2
  refine ⟨e1 ++ e2, by rw [q2, q1, List.append_assoc], ?_⟩
  intro o ho
  rcases List.mem_append.mp ho with h | h
  · exact p1 o h
  · exact p2 o h
theorem OutsExt.of_same {P : Out → Prop} {s s' : Sess} (h : s'.outs = s.outs) : OutsExt P s s' := ⟨[], by simp [h], by simp⟩
theorem OutsExt.emit {P : Out → Prop} (s : Sess) (o : Out) (h : P o) : OutsExt P s (s.emit o) :=
  ⟨[o], rfl, by simp [h]⟩

/-- the kinds of output a reaction helper may produce: writes go to the tracked connection `p` only -/
structure Reactive (P : Out → Prop) (p : Option Nat) : Prop where
  write : ∀ i b, p = some i → P (.write i b)
  lose : ∀ i, P (.lose i)
  est : P .hEstablished
  esc : P .escaped

theorem Reactive.of_eq {P : Out → Prop} {p p' : Option Nat} (h : Reactive P p) (e : p' = p) : Reactive P p' := e ▸ h

section
variable {P : Out → Prop}

theorem oe_withTm (s : Sess) (v : Timers) : OutsExt P s (s.withTm v) := OutsExt.of_same rfl
theorem oe_withSt (s : Sess) (v : St) : OutsExt P s (s.withSt v) := OutsExt.of_same rfl
theorem oe_withRetryCounter (s : Sess) (v : Nat) : OutsExt P s (s.withRetryCounter v) := OutsExt.of_same rfl
theorem oe_incRetryCounter (s : Sess) : OutsExt P s (s.incRetryCounter) := OutsExt.of_same rfl
theorem oe_withHoldTime (s : Sess) (v : Nat) : OutsExt P s (s.withHoldTime v) := OutsExt.of_same rfl
theorem oe_withRemote (s : Sess) (v : CapaDict) : OutsExt P s (s.withRemote v) := OutsExt.of_same rfl
theorem oe_setRetry (s : Sess) (v : Option Nat) : OutsExt P s (s.setRetry v) := OutsExt.of_same rfl
theorem oe_setHold (s : Sess) (v : Option Nat) : OutsExt P s (s.setHold v) := OutsExt.of_same rfl
theorem oe_setKeepalive (s : Sess) (v : Option Nat) : OutsExt P s (s.setKeepalive v) := OutsExt.of_same rfl
theorem oe_setIdleHold (s : Sess) (v : Option Nat) : OutsExt P s (s.setIdleHold v) := OutsExt.of_same rfl
theorem oe_setConn (s : Sess) (i : Nat) (c : Conn) : OutsExt P s (s.setConn i c) := OutsExt.of_same rfl
theorem oe_setPhase (s : Sess) (i : Nat) (p : Phase) : OutsExt P s (s.setPhase i p) := OutsExt.of_same rfl
theorem oe_setDisconnected (s : Sess) (i : Nat) : OutsExt P s (s.setDisconnected i) := OutsExt.of_same rfl
theorem oe_setAsn4 (s : Sess) (i : Nat) : OutsExt P s (s.setAsn4 i) := OutsExt.of_same rfl
theorem oe_bumpSent (s : Sess) (i : Nat) (g : Stats → Stats) : OutsExt P s (s.bumpSent i g) := OutsExt.of_same rfl
theorem oe_bumpRecv (s : Sess) (i : Nat) (g : Stats → Stats) : OutsExt P s (s.bumpRecv i g) := OutsExt.of_same rfl

theorem oe_setSt (s : Sess) (v : St) (hP : Reactive P s.proto) : OutsExt P s (s.setSt v) := by
  unfold Sess.setSt; split
  · exact (OutsExt.emit s _ hP.est).trans (oe_withSt _ _)
  · exact oe_withSt s v

theorem oe_writeOn (s : Sess) (i : Nat) (b : Bytes) (hi : s.proto = some i) (hP : Reactive P s.proto) :
    OutsExt P s (s.writeOn i b) := by
  unfold writeOn; split
  · exact OutsExt.emit s _ (hP.write i b hi)
  · exact OutsExt.refl P s

theorem oe_sendNotification (s : Sess) (e sub : Nat) (d : Bytes) (hP : Reactive P s.proto) :
    OutsExt P s (s.sendNotification e sub d) := by
  unfold sendNotification
  split
  · exact OutsExt.emit s _ hP.esc
  · rename_i i hi
    split
    · exact (oe_bumpSent s _ _).trans (oe_writeOn _ _ _ hi hP)
    · exact (oe_bumpSent s _ _).trans (OutsExt.emit _ _ hP.esc)

theorem oe_sendKeepalive (s : Sess) (hP : Reactive P s.proto) : OutsExt P s (s.sendKeepalive) := by
  unfold sendKeepalive
  split
  · exact OutsExt.emit s _ hP.esc
  · rename_i i hi
    exact (oe_bumpSent s _ _).trans (oe_writeOn _ _ _ hi hP)

theorem oe_closeOn (s : Sess) (i : Nat) (hP : Reactive P s.proto) : OutsExt P s (s.closeOn i) := by
  unfold closeOn
  split
  · exact ((oe_setPhase s i _).trans (oe_setDisconnected _ i)).trans (OutsExt.emit _ _ (hP.lose i))
  · split
    · exact oe_setDisconnected s i
    · exact OutsExt.refl P s

theorem oe_closeConn (s : Sess) (hP : Reactive P s.proto) : OutsExt P s (s.closeConn) := by
  unfold closeConn
  split
  · exact OutsExt.refl P s
  · exact (oe_closeOn s _ hP).trans (oe_withRetryCounter _ _)

theorem oe_errorClose (s : Sess) (hP : Reactive P s.proto) : OutsExt P s (s.errorClose) := by
  unfold errorClose
  have h1 : Reactive P (s.withTm { retry := none, hold := none, keepalive := none, idleHold := some s.idleDeadline }).proto := hP
  have h2 : Reactive P ((s.withTm { retry := none, hold := none, keepalive := none, idleHold := some s.idleDeadline }).closeConn.incRetryCounter).proto :=
    hP.of_eq (frm_closeConn 0 _).proto
  exact (((oe_withTm s _).trans (oe_closeConn _ h1)).trans (oe_incRetryCounter _)).trans (oe_setSt _ _ h2)

theorem oe_headerError (s : Sess) (sub : Nat) (d : Bytes) (hP : Reactive P s.proto) : OutsExt P s (s.headerError sub d) :=
  (oe_sendNotification s _ _ _ hP).trans (oe_errorClose _ (hP.of_eq (frm_sendNotification 0 s _ _ _).proto))

theorem oe_openMessageError (s : Sess) (sub : Nat) (hP : Reactive P s.proto) : OutsExt P s (s.openMessageError sub) :=
  (oe_sendNotification s _ _ _ hP).trans (oe_errorClose _ (hP.of_eq (frm_sendNotification 0 s _ _ _).proto))

theorem oe_restartHold (s : Sess) : OutsExt P s (s.restartHold) := by
  unfold restartHold; split
  · exact oe_setHold s _
  · exact OutsExt.refl P s

theorem oe_fsmErr (s : Sess) (hP : Reactive P s.proto) : OutsExt P s ((s.sendNotification C.errFsm 0 []).errorClose) :=
  (oe_sendNotification s _ _ _ hP).trans (oe_errorClose _ (hP.of_eq (frm_sendNotification 0 s _ _ _).proto))

theorem oe_fsmOpenReceived (s : Sess) (hP : Reactive P s.proto) : OutsExt P s (s.fsmOpenReceived) := by
  unfold fsmOpenReceived
  have hk : Reactive P ((s.setRetry none).sendKeepalive).proto := hP.of_eq (frm_sendKeepalive 0 (s.setRetry none)).proto
  split
  · exact oe_errorClose s hP
  · exact oe_errorClose s hP
  · split
    · exact ((((oe_setRetry s none).trans (oe_sendKeepalive _ hP)).trans (oe_setKeepalive _ _)).trans
        (oe_setHold _ _)).trans (oe_setSt _ _ hk)
    · exact ((((oe_setRetry s none).trans (oe_sendKeepalive _ hP)).trans (oe_setKeepalive _ _)).trans
        (oe_setHold _ _)).trans (oe_setSt _ _ hk)
  · exact oe_fsmErr s hP
  · exact oe_fsmErr s hP
  · exact OutsExt.refl P s

theorem oe_fsmKeepaliveReceived (s : Sess) (hP : Reactive P s.proto) : OutsExt P s (s.fsmKeepaliveReceived) := by
  unfold fsmKeepaliveReceived
  split
  · exact (oe_restartHold s).trans (oe_setSt _ _ (hP.of_eq (frm_restartHold 0 s).proto))
  · exact oe_restartHold s
  · exact oe_errorClose s hP
  · exact oe_errorClose s hP
  · exact oe_fsmErr s hP
  · exact OutsExt.refl P s

theorem oe_fsmUpdateReceived (s : Sess) (hP : Reactive P s.proto) : OutsExt P s (s.fsmUpdateReceived) := by
  unfold fsmUpdateReceived
  split
  · exact oe_restartHold s
  · exact oe_errorClose s hP
  · exact oe_errorClose s hP
  · exact oe_fsmErr s hP
  · exact oe_fsmErr s hP
  · exact OutsExt.refl P s

theorem oe_fsmNotificationReceived (s : Sess) (e sub : Nat) (hP : Reactive P s.proto) :
    OutsExt P s (s.fsmNotificationReceived e sub) := by
  unfold fsmNotificationReceived
  have hc : Reactive P ((((s.setRetry none).setHold none).setKeepalive none).closeConn).proto :=
    hP.of_eq (frm_closeConn 0 (((s.setRetry none).setHold none).setKeepalive none)).proto
  split
  · split
    · exact ((((oe_setRetry s none).trans (oe_setHold _ none)).trans (oe_setKeepalive _ none)).trans (oe_closeConn _ hP)).trans (oe_setSt _ _ hc)
    · exact ((((oe_setRetry s none).trans (oe_setHold _ none)).trans (oe_setKeepalive _ none)).trans (oe_closeConn _ hP)).trans (oe_setSt _ _ hc)
    · exact oe_errorClose s hP
    · exact oe_errorClose s hP
    · exact oe_errorClose s hP
    · exact OutsExt.refl P s
  · split
    · exact oe_errorClose s hP
    · exact OutsExt.refl P s

end

/-- the outputs that report a received message to the application -/
def isReport : Out → Bool
  | .hOpen .. => true | .hKeepalive .. => true | .hNotification .. => true | .hUpdate .. => true
  | .hUpdateError .. => true | .hRouteRefresh .. => true | _ => false

def reports (l : List Out) : Nat := (l.filter isReport).length

theorem reactive_nonReport (p : Option Nat) : Reactive (fun o => isReport o = false) p := ⟨fun _ _ _ => rfl, fun _ => rfl, rfl, rfl⟩

theorem reports_of_ext {s s' : Sess} (h : OutsExt (fun o => isReport o = false) s s') :
    reports s'.outs = reports s.outs := by
  obtain ⟨ext, e, p⟩ := h
  unfold reports
  rw [e, List.filter_append]
  have : ext.filter isReport = [] := by
    rw [List.filter_eq_nil_iff]; intro o ho; simp [p o ho]
  simp [this]

end Sess
end Yabgp
