/-
  What the reaction helpers may append to the output list: only transport writes, a close, the
  "established" notice or (unreachably) an escape marker — never a connect, never a message report.
-/
import Yabgp.Lemmas.Norm

namespace Yabgp
namespace Sess

/-- `s'` extends the outputs of `s` by items that all satisfy `P` -/
def OutsExt (P : Out → Prop) (s s' : Sess) : Prop := ∃ ext, s'.outs = s.outs ++ ext ∧ ∀ o ∈ ext, P o

theorem OutsExt.refl (P : Out → Prop) (s : Sess) : OutsExt P s s := ⟨[], by simp, by simp⟩
theorem OutsExt.trans {P : Out → Prop} {a b c : Sess} (h1 : OutsExt P a b) (h2 : OutsExt P b c) : OutsExt P a c := by
  obtain ⟨e1, q1, p1⟩ := h1
  obtain ⟨e2, q2, p2⟩ := h2
  refine ⟨e1 ++ e2, by rw [q2, q1, List.append_assoc], ?_⟩
  intro o ho
  rcases List.mem_append.mp ho with h | h
  · exact p1 o h
  · exact p2 o h
theorem OutsExt.of_same {P : Out → Prop} {s s' : Sess} (h : s'.outs = s.outs) : OutsExt P s s' := ⟨[], by simp [h], by simp⟩
theorem OutsExt.emit {P : Out → Prop} (s : Sess) (o : Out) (h : P o) : OutsExt P s (s.emit o) :=
  ⟨[o], rfl, by simp [h]⟩

/-- the kinds of output a reaction helper may produce -/
structure Reactive (P : Out → Prop) : Prop where
  write : ∀ i b, P (.write i b)
  lose : ∀ i, P (.lose i)
  est : P .hEstablished
  esc : P .escaped

section
variable {P : Out → Prop}

theorem oe_withTm (s : Sess) (v : Timers) : OutsExt P s (s.withTm v) := OutsExt.of_same rfl
theorem oe_withSt (s : Sess) (v : St) : OutsExt P s (s.withSt v) := OutsExt.of_same rfl
theorem oe_withRetryCounter (s : Sess) (v : Nat) : OutsExt P s (s.withRetryCounter v) := OutsExt.of_same rfl
theorem oe_incRetryCounter (s : Sess) : OutsExt P s (s.incRetryCounter) := OutsExt.of_same rfl
theorem oe_withHoldTime (s : Sess) (v : Nat) : OutsExt P s (s.withHoldTime v) := OutsExt.of_same rfl
theorem oe_withRemote (s : Sess) (v : CapaDict) : OutsExt P s (s.withRemote v) := OutsExt.of_same rfl
theorem oe_setRetry (s : Sess) (v : Option Nat) : OutsExt P s (s.setRetry v) := OutsExt.of_same rfl
theorem oe_setHold (s : Sess) (v : Option Nat) : OutsExt P s (s.setHold v) := OutsExt.of_same rfl
theorem oe_setKeepalive (s : Sess) (v : Option Nat) : OutsExt P s (s.setKeepalive v) := OutsExt.of_same rfl
theorem oe_setIdleHold (s : Sess) (v : Option Nat) : OutsExt P s (s.setIdleHold v) := OutsExt.of_same rfl
theorem oe_setConn (s : Sess) (i : Nat) (c : Conn) : OutsExt P s (s.setConn i c) := OutsExt.of_same rfl
theorem oe_setPhase (s : Sess) (i : Nat) (p : Phase) : OutsExt P s (s.setPhase i p) := OutsExt.of_same rfl
theorem oe_setDisconnected (s : Sess) (i : Nat) : OutsExt P s (s.setDisconnected i) := OutsExt.of_same rfl
theorem oe_setAsn4 (s : Sess) (i : Nat) : OutsExt P s (s.setAsn4 i) := OutsExt.of_same rfl
theorem oe_bumpSent (s : Sess) (i : Nat) (g : Stats → Stats) : OutsExt P s (s.bumpSent i g) := OutsExt.of_same rfl
theorem oe_bumpRecv (s : Sess) (i : Nat) (g : Stats → Stats) : OutsExt P s (s.bumpRecv i g) := OutsExt.of_same rfl

variable (hP : Reactive P)
include hP

theorem oe_setSt (s : Sess) (v : St) : OutsExt P s (s.setSt v) := by
  unfold Sess.setSt; split
  · exact (OutsExt.emit s _ hP.est).trans (oe_withSt _ _)
  · exact oe_withSt s v

theorem oe_writeOn (s : Sess) (i : Nat) (b : Bytes) : OutsExt P s (s.writeOn i b) := by
  unfold writeOn; split
  · exact OutsExt.emit s _ (hP.write i b)
  · exact OutsExt.refl P s

theorem oe_sendNotification (s : Sess) (e sub : Nat) (d : Bytes) : OutsExt P s (s.sendNotification e sub d) := by
  unfold sendNotification
  split
  · exact OutsExt.emit s _ hP.esc
  · split
    · exact (oe_bumpSent s _ _).trans (oe_writeOn hP _ _ _)
    · exact (oe_bumpSent s _ _).trans (OutsExt.emit _ _ hP.esc)

theorem oe_sendKeepalive (s : Sess) : OutsExt P s (s.sendKeepalive) := by
  unfold sendKeepalive
  split
  · exact OutsExt.emit s _ hP.esc
  · exact (oe_bumpSent s _ _).trans (oe_writeOn hP _ _ _)

theorem oe_closeOn (s : Sess) (i : Nat) : OutsExt P s (s.closeOn i) := by
  unfold closeOn
  split
  · exact ((oe_setPhase s i _).trans (oe_setDisconnected _ i)).trans (OutsExt.emit _ _ (hP.lose i))
  · split
    · exact oe_setDisconnected s i
    · exact OutsExt.refl P s

theorem oe_closeConn (s : Sess) : OutsExt P s (s.closeConn) := by
  unfold closeConn
  split
  · exact OutsExt.refl P s
  · exact (oe_closeOn hP s _).trans (oe_withRetryCounter _ _)

theorem oe_errorClose (s : Sess) : OutsExt P s (s.errorClose) := by
  unfold errorClose
  exact (((oe_withTm s _).trans (oe_closeConn hP _)).trans (oe_incRetryCounter _)).trans (oe_setSt hP _ _)

theorem oe_headerError (s : Sess) (sub : Nat) (d : Bytes) : OutsExt P s (s.headerError sub d) :=
  (oe_sendNotification hP s _ _ _).trans (oe_errorClose hP _)

theorem oe_openMessageError (s : Sess) (sub : Nat) : OutsExt P s (s.openMessageError sub) :=
  (oe_sendNotification hP s _ _ _).trans (oe_errorClose hP _)

theorem oe_restartHold (s : Sess) : OutsExt P s (s.restartHold) := by
  unfold restartHold; split
  · exact oe_setHold s _
  · exact OutsExt.refl P s

theorem oe_fsmErr (s : Sess) : OutsExt P s ((s.sendNotification C.errFsm 0 []).errorClose) :=
  (oe_sendNotification hP s _ _ _).trans (oe_errorClose hP _)

theorem oe_fsmOpenReceived (s : Sess) : OutsExt P s (s.fsmOpenReceived) := by
  unfold fsmOpenReceived
  split
  · exact oe_errorClose hP s
  · exact oe_errorClose hP s
  · split
    · exact ((((oe_setRetry s none).trans (oe_sendKeepalive hP _)).trans (oe_setKeepalive _ _)).trans
        (oe_setHold _ _)).trans (oe_setSt hP _ _)
    · exact ((((oe_setRetry s none).trans (oe_sendKeepalive hP _)).trans (oe_setKeepalive _ _)).trans
        (oe_setHold _ _)).trans (oe_setSt hP _ _)
  · exact oe_fsmErr hP s
  · exact oe_fsmErr hP s
  · exact OutsExt.refl P s

theorem oe_fsmKeepaliveReceived (s : Sess) : OutsExt P s (s.fsmKeepaliveReceived) := by
  unfold fsmKeepaliveReceived
  split
  · exact (oe_restartHold hP s).trans (oe_setSt hP _ _)
  · exact oe_restartHold hP s
  · exact oe_errorClose hP s
  · exact oe_errorClose hP s
  · exact oe_fsmErr hP s
  · exact OutsExt.refl P s

theorem oe_fsmUpdateReceived (s : Sess) : OutsExt P s (s.fsmUpdateReceived) := by
  unfold fsmUpdateReceived
  split
  · exact oe_restartHold hP s
  · exact oe_errorClose hP s
  · exact oe_errorClose hP s
  · exact oe_fsmErr hP s
  · exact oe_fsmErr hP s
  · exact OutsExt.refl P s

theorem oe_fsmNotificationReceived (s : Sess) (e sub : Nat) : OutsExt P s (s.fsmNotificationReceived e sub) := by
  unfold fsmNotificationReceived
  split
  · split
    · exact ((oe_setRetry s none).trans (oe_closeConn hP _)).trans (oe_setSt hP _ _)
    · exact ((oe_setRetry s none).trans (oe_closeConn hP _)).trans (oe_setSt hP _ _)
    · exact oe_errorClose hP s
    · exact oe_errorClose hP s
    · exact oe_errorClose hP s
    · exact OutsExt.refl P s
  · split
    · exact oe_errorClose hP s
    · exact OutsExt.refl P s

end

/-- the outputs that report a received message to the application -/
def isReport : Out → Bool
  | .hOpen .. => true | .hKeepalive .. => true | .hNotification .. => true | .hUpdate .. => true
  | .hUpdateError .. => true | .hRouteRefresh .. => true | _ => false

def reports (l : List Out) : Nat := (l.filter isReport).length

theorem reactive_nonReport : Reactive (fun o => isReport o = false) := ⟨fun _ _ => rfl, fun _ => rfl, rfl, rfl⟩

theorem reports_of_ext {s s' : Sess} (h : OutsExt (fun o => isReport o = false) s s') :
    reports s'.outs = reports s.outs := by
  obtain ⟨ext, e, p⟩ := h
  unfold reports
  rw [e, List.filter_append]
  have : ext.filter isReport = [] := by
    rw [List.filter_eq_nil_iff]; intro o ho; simp [p o ho]
  simp [this]

end Sess
end Yabgp
