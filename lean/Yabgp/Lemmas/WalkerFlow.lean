/-
  C08 for the flow-specification constructors: the operator lists `construct_operators` writes
  (Model/Mp/Flowspec.lean by builder EVF; the IPv6 class has the same code after fix_11) are accepted by the
  walker's `opList`: every item is an operator octet and a value of `1 << len` octets, the end-of-list bit is
  on the last item and on no other.
-/
import Yabgp.Lemmas.WalkerLemmas
import Yabgp.Model.Construct.Flow

namespace Yabgp.Walker
open Yabgp.Flowspec

/-! ### `opList` -/

theorem opList_mono : ∀ (n m : Nat) (b x : Bytes), n ≤ m → opList n b = some x → opList m b = some x := by
  intro n
  induction n with
  | zero => intro m b x _ h; cases b <;> simp [opList] at h
  | succ n ih =>
    intro m b x hnm h
    obtain ⟨m', rfl⟩ : ∃ m', m = m' + 1 := ⟨m - 1, by omega⟩
    cases b with
    | nil => simp [opList] at h
    | cons op r =>
      simp only [opList] at h ⊢
      cases hs : skip (2 ^ (op.toNat / 16 % 4)) r with
      | none => simp [hs] at h
      | some r' =>
        simp only [hs] at h ⊢
        split
        · rename_i he; simpa [he] using h
        · rename_i he
          simp only [he, ↓reduceIte] at h
          exact ih m' r' x (by omega) h

/-- an item: operator octet and a value of the size the octet announces -/
def IsItem (eol : Bool) (it : Bytes) : Prop :=
  ∃ (op : UInt8) (v : Bytes), it = op :: v ∧ v.length = 2 ^ (op.toNat / 16 % 4) ∧ (op.toNat / 128 = 1 ↔ eol = true)

theorem opList_item_more (it r : Bytes) (n : Nat) (h : IsItem false it) :
    opList (n + 1) (it ++ r) = opList n r := by
  obtain ⟨op, v, rfl, hv, he⟩ := h
  have he' : ¬ op.toNat / 128 = 1 := by simpa using he
  simp only [List.cons_append, opList, skip_eq v r hv, he', ↓reduceIte]

theorem opList_item_last (it r : Bytes) (n : Nat) (h : IsItem true it) : opList (n + 1) (it ++ r) = some r := by
  obtain ⟨op, v, rfl, hv, he⟩ := h
  have he' : op.toNat / 128 = 1 := by simpa using he
  simp only [List.cons_append, opList, skip_eq v r hv, he', ↓reduceIte]

/-- items without end-of-list bit: `opList` walks through them -/
def NoEol (b : Bytes) : Prop :=
  ∀ (n : Nat) (r x : Bytes), opList n r = some x → opList (n + b.length) (b ++ r) = some x

/-- ... followed by one item with the bit: a complete operator list -/
def Final (b : Bytes) : Prop := b ≠ [] ∧ ∀ (r : Bytes) (n : Nat), b.length ≤ n → opList n (b ++ r) = some r

theorem NoEol.nil : NoEol [] := fun n r x h => by simpa using h

theorem NoEol.snoc {a it : Bytes} (ha : NoEol a) (hi : IsItem false it) : NoEol (a ++ it) := by
  intro n r x h
  have h1 : opList (n + 1) (it ++ r) = some x := by rw [opList_item_more it r n hi]; exact h
  have hl : 1 ≤ it.length := by obtain ⟨op, v, rfl, _, _⟩ := hi; simp
  have h2 := opList_mono (n + 1) (n + it.length) (it ++ r) x (by omega) h1
  have := ha (n + it.length) (it ++ r) x h2
  simpa [List.append_assoc, Nat.add_assoc, Nat.add_comm it.length] using this

theorem Final.of_snoc {a it : Bytes} (ha : NoEol a) (hi : IsItem true it) : Final (a ++ it) := by
  refine ⟨?_, fun r n hn => ?_⟩
  · obtain ⟨op, v, rfl, _, _⟩ := hi; simp
  · have hl : 1 ≤ it.length := by obtain ⟨op, v, rfl, _, _⟩ := hi; simp
    simp only [List.length_append] at hn
    obtain ⟨k, rfl⟩ : ∃ k, n = (k + 1) + a.length := ⟨n - a.length - 1, by omega⟩
    have h1 : opList (k + 1) (it ++ r) = some r := opList_item_last it r k hi
    have := ha (k + 1) (it ++ r) r h1
    simpa [List.append_assoc] using this

/-! ### `construct_operators` -/

theorem valLen_cases (v n : Nat) (h : valLen v = some n) : n = 1 ∨ n = 2 ∨ n = 4 ∨ n = 8 := by
  unfold valLen at h
  split at h
  · simp at h; omega
  · split at h
    · simp at h; omega
    · split at h
      · simp at h; omega
      · split at h <;> simp at h; omega

/-- one item of `construct_operators` appends one well-formed item with the end-of-list bit as asked -/
theorem coItem_spec (eol and : Bool) (st st' : CoSt) (d : List Char) (h : coItem eol and st d = some st') :
    ∃ it, st'.out = st.out ++ it ∧ IsItem eol it := by
  unfold coItem at h
  split at h
  · simp at h
  · split at h
    · simp at h
    · rename_i o eq gt lt _
      split at h
      · simp at h
      · rename_i v _
        split at h
        · simp at h
        · rename_i n hn
          simp only [Option.some.injEq] at h
          subst h
          refine ⟨_, rfl, _, _, rfl, ?_, ?_⟩
          · rcases valLen_cases v n hn with rfl | rfl | rfl | rfl <;>
              cases eol <;> cases and <;> cases lt <;> cases gt <;> cases eq <;>
              simp [lenCode, b2n, u8_toNat_mod]
          · rcases valLen_cases v n hn with rfl | rfl | rfl | rfl <;>
              cases eol <;> cases and <;> cases lt <;> cases gt <;> cases eq <;>
              simp [lenCode, b2n, u8_toNat_mod]

/-- the '&' loop: items without the bit, and - in the last '|' group - the bit on the last item -/
theorem coAnd_spec (lastOr : Bool) : ∀ (ds : List (List Char)) (first : Bool) (st st' : CoSt),
    coAnd lastOr first st ds = some st' →
    ∃ t, st'.out = st.out ++ t ∧
      (∀ a, NoEol a → if lastOr = true ∧ ds ≠ [] then Final (a ++ t) else NoEol (a ++ t)) := by
  intro ds
  induction ds with
  | nil =>
    intro first st st' h
    simp [coAnd] at h; subst h
    exact ⟨[], by simp, fun a ha => by simpa using ha⟩
  | cons d r ih =>
    intro first st st' h
    simp only [coAnd] at h
    cases h1 : coItem (lastOr && r.isEmpty) (!first) st d with
    | none => simp [h1] at h
    | some st1 =>
      simp only [h1] at h
      obtain ⟨it, hout, hit⟩ := coItem_spec _ _ st st1 d h1
      obtain ⟨t, hout2, ht⟩ := ih false st1 st' h
      refine ⟨it ++ t, by rw [hout2, hout, List.append_assoc], fun a ha => ?_⟩
      cases r with
      | nil =>
        simp [coAnd] at h; subst h
        have ht0 : t = [] := by simpa [hout] using hout2
        subst ht0
        cases lastOr with
        | true => simpa using Final.of_snoc ha (by simpa using hit)
        | false => simpa using NoEol.snoc ha (by simpa using hit)
      | cons d2 r2 =>
        have hit' : IsItem false it := by simpa using hit
        have := ht (a ++ it) (NoEol.snoc ha hit')
        cases lastOr with
        | true => simpa [List.append_assoc] using this
        | false => simpa [List.append_assoc] using this

theorem splitAll_ne_nil (sep : Char) (s : List Char) : Text.splitAll sep s ≠ [] := by
  rw [Text.splitAll]
  split <;> simp

/-- the '|' loop -/
theorem coOr_spec : ∀ (gs : List (List Char)) (st st' : CoSt), coOr st gs = some st' →
    ∃ t, st'.out = st.out ++ t ∧ (∀ a, NoEol a → if gs ≠ [] then Final (a ++ t) else NoEol (a ++ t)) := by
  intro gs
  induction gs with
  | nil =>
    intro st st' h
    simp [coOr] at h; subst h
    exact ⟨[], by simp, fun a ha => by simpa using ha⟩
  | cons g r ih =>
    intro st st' h
    simp only [coOr] at h
    cases h1 : coAnd r.isEmpty true st (Text.splitAll '&' g) with
    | none => simp [h1] at h
    | some st1 =>
      simp only [h1] at h
      obtain ⟨t1, hout1, ht1⟩ := coAnd_spec r.isEmpty (Text.splitAll '&' g) true st st1 h1
      obtain ⟨t2, hout2, ht2⟩ := ih st1 st' h
      refine ⟨t1 ++ t2, by rw [hout2, hout1, List.append_assoc], fun a ha => ?_⟩
      have hne := splitAll_ne_nil '&' g
      cases r with
      | nil =>
        simp [coOr] at h; subst h
        have ht0 : t2 = [] := by simpa [hout1] using hout2
        subst ht0
        have := ht1 a ha
        simpa [hne] using this
      | cons g2 r2 =>
        have h1' := ht1 a ha
        simp only [List.isEmpty_cons, Bool.false_eq_true, false_and, ↓reduceIte] at h1'
        have := ht2 (a ++ t1) h1'
        simpa [List.append_assoc] using this

/-- the octets `construct_operators(text)` returns are one complete operator list -/
theorem constructOperators_final (text : List Char) (b : Bytes) (h : constructOperators text = some b) : Final b := by
  unfold constructOperators at h
  cases hc : coOr { off := none, out := [] } (Text.splitAll '|' text) with
  | none => simp [hc] at h
  | some st' =>
    simp [hc] at h; subst h
    obtain ⟨t, hout, ht⟩ := coOr_spec _ _ st' hc
    have := ht [] NoEol.nil
    simp only [splitAll_ne_nil, ne_eq, not_false_eq_true, ↓reduceIte, List.nil_append] at this
    simpa [hout] using this

end Yabgp.Walker

/-! ### components, flow specifications -/

namespace Yabgp.Walker
open Yabgp.Flowspec

/-- an operator component: type octet 3..13 and a complete operator list -/
theorem seq_opComp (v6 : Bool) (t : Nat) (ops : Bytes) (ht : 3 ≤ t ∧ t ≤ 12 ∨ (v6 = true ∧ t = 13)) (hf : Final ops) :
    Seq (flowComp v6) (u8 t :: ops) := by
  have ht' : (u8 t).toNat = t := u8_toNat (by omega)
  refine Seq.single (by simp) (fun r => ?_)
  have hrange : 3 ≤ t ∧ t ≤ (if v6 = true then 13 else 12) := by
    rcases ht with h | ⟨h1, h2⟩
    · cases v6 <;> simp <;> omega
    · subst h1; subst h2; simp
  have h12 : ¬ (t = 1 ∨ t = 2) := by omega
  simp only [List.cons_append, flowComp, ht', h12, ↓reduceIte, hrange, and_self]
  exact hf.2 r _ (by simp)

theorem pfxKeep_eq (len : Nat) (h : len ≤ 32) : pfxKeep len = ceil8 len := by
  unfold pfxKeep ceil8
  split
  · omega
  · split
    · omega
    · split
      · omega
      · split <;> omega

/-- an IPv4 prefix component: type 1 | 2, length, ceil(length/8) octets -/
theorem seq_pfxComp4 (t addr len : Nat) (b : Bytes) (ht : t = 1 ∨ t = 2) (hl : len ≤ 32)
    (h : Flowspec.constructPrefix addr len = some b) : Seq (flowComp false) (u8 t :: b) := by
  unfold Flowspec.constructPrefix at h
  split at h
  · simp only [Option.some.injEq] at h; subst h
    have ht' : (u8 t).toNat = t := u8_toNat (by omega)
    have hl' : (u8 len).toNat = len := u8_toNat (by omega)
    refine Seq.single (by simp) (fun r => ?_)
    simp only [List.cons_append, flowComp, ht', ht, ↓reduceIte, Bool.false_eq_true, prefixItem, hl', hl]
    apply skip_eq
    rw [pfxKeep_eq len hl]
    simp [ceil8]; omega
  · simp at h

theorem seq_concatOpt {item : Bytes → Option Bytes} (xs : List (Option Bytes))
    (h : ∀ x ∈ xs, ∀ b, x = some b → Seq item b) : ∀ b, concatOpt xs = some b → Seq item b := by
  induction xs with
  | nil => intro b hb; simp [concatOpt] at hb; subst hb; exact Seq.nil _
  | cons x r ih =>
    intro b hb
    simp only [concatOpt] at hb
    cases x with
    | none => simp at hb
    | some a =>
      cases hr : concatOpt r with
      | none => simp [hr] at hb
      | some c =>
        simp [hr] at hb; subst hb
        exact Seq.append (h (some a) (by simp) a rfl) (ih (fun y hy => h y (by simp [hy])) c hr)

/-- the length field of one flow specification: 1 octet below 240, else `0xf000 + length` in 2 octets -/
theorem seq_flowItem (v6 : Bool) (body : Bytes) (hb : all (flowComp v6) body = true) :
    (body.length < 240 → Seq (flowItem v6) (u8 body.length :: body)) ∧
    (240 ≤ body.length → 61440 + body.length < 65536 → Seq (flowItem v6) (be16 (61440 + body.length) ++ body)) := by
  constructor
  · intro hl
    have hl' : (u8 body.length).toNat = body.length := u8_toNat (by omega)
    refine Seq.single (by simp) (fun r => ?_)
    simp only [List.cons_append, flowItem, hl', hl, ↓reduceIte, List.take_left', List.drop_left', hb]
    simp
  · intro h240 hlt
    refine Seq.single (by simp [be16]) (fun r => ?_)
    have h1 : (u8 ((61440 + body.length) / 256)).toNat = 240 + body.length / 256 := by
      rw [u8_toNat (by omega)]; omega
    have h2 : (u8 (61440 + body.length)).toNat = body.length % 256 := by
      rw [u8_toNat_mod]; omega
    have hlen : (240 + body.length / 256) % 16 * 256 + body.length % 256 = body.length := by omega
    simp only [be16, List.cons_append, List.nil_append, flowItem, h1, h2,
      show ¬ (240 + body.length / 256 < 240) by omega, ↓reduceIte, hlen, List.take_left', List.drop_left', hb]
    simp

/-! #### IPv4 -/

theorem seq_constructRuleBody (d : Rule) (hg : ruleGuard d = true) (b : Bytes) (h : constructRuleBody d = some b) :
    Seq (flowComp false) b := by
  unfold constructRuleBody at h
  refine seq_concatOpt _ ?_ b h
  intro x hx c hc
  simp only [List.mem_append, List.mem_map] at hx
  simp only [ruleGuard, Bool.and_eq_true] at hg
  rcases hx with ⟨t, ht, rfl⟩ | ⟨t, ht, rfl⟩
  · have ht' : t = 1 ∨ t = 2 := by simpa [Flowspec.pfxTypes] using ht
    unfold constructPfxComp at hc
    cases hd : Flowspec.dictGet d t with
    | none => simp [hd] at hc; subst hc; exact Seq.nil _
    | some comp =>
      cases comp with
      | pfx a l =>
        simp only [hd] at hc
        cases hp : Flowspec.constructPrefix a l with
        | none => simp [hp] at hc
        | some pb =>
          simp [hp] at hc; subst hc
          have hl : l ≤ 32 := by
            rcases ht' with rfl | rfl
            · have := hg.1; simpa [pfxLenOk, hd] using this
            · have := hg.2; simpa [pfxLenOk, hd] using this
          exact seq_pfxComp4 t a l pb ht' hl hp
      | ops s =>
        cases s with
        | nil => simp [hd] at hc; subst hc; exact Seq.nil _
        | cons c0 cs => simp [hd] at hc
  · have ht' : 3 ≤ t ∧ t ≤ 12 := by
      simp only [Flowspec.opTypes, List.mem_cons, List.not_mem_nil, or_false] at ht
      omega
    unfold constructOpComp at hc
    cases hd : Flowspec.dictGet d t with
    | none => simp [hd] at hc; subst hc; exact Seq.nil _
    | some comp =>
      cases comp with
      | pfx a l => simp [hd] at hc
      | ops s =>
        cases s with
        | nil => simp [hd] at hc; subst hc; exact Seq.nil _
        | cons c0 cs =>
          simp only [hd] at hc
          cases ho : constructOperators (c0 :: cs) with
          | none => simp [ho] at hc
          | some ob =>
            simp [ho] at hc; subst hc
            exact seq_opComp false t ob (Or.inl ht') (constructOperators_final _ ob ho)

theorem seq_constructNlri (d : Rule) (hg : ruleGuard d = true) (b : Bytes) (h : constructNlri d = some (some b)) :
    Seq (flowItem false) b := by
  unfold constructNlri at h
  cases hb : constructRuleBody d with
  | none => simp [hb] at h
  | some body =>
    have hall := (seq_constructRuleBody d hg body hb).all
    obtain ⟨h1, h2⟩ := seq_flowItem false body hall
    cases body with
    | nil => simp [hb] at h
    | cons x xs =>
      simp only [hb] at h
      split at h
      · rename_i hge
        split at h
        · rename_i hlt
          simp only [Option.some.injEq] at h; subst h
          exact h2 hge hlt
        · simp at h
      · rename_i hge
        simp only [Option.some.injEq] at h; subst h
        exact h1 (by omega)

theorem seq_constructRules (rules : List Rule) (hg : rules.all ruleGuard = true) :
    ∀ b, constructRules rules = some b → Seq (flowItem false) b := by
  induction rules with
  | nil => intro b h; simp [constructRules] at h; subst h; exact Seq.nil _
  | cons d r ih =>
    intro b h
    simp only [List.all_cons, Bool.and_eq_true] at hg
    simp only [constructRules] at h
    cases h1 : constructNlri d with
    | none => simp [h1] at h
    | some o =>
      cases o with
      | none => simp [h1] at h
      | some a =>
        cases h2 : constructRules r with
        | none => simp [h1, h2] at h
        | some c =>
          simp [h1, h2] at h; subst h
          exact Seq.append (seq_constructNlri d hg.1 a h1) (ih hg.2 c h2)

end Yabgp.Walker

/-! #### IPv6 -/

namespace Yabgp.Walker
open Yabgp.Flow6

/-- an IPv6 prefix component: type 1 | 2, length, offset, ceil((length - offset)/8) pattern octets -/
theorem seq_pfxComp6 (t : Nat) (addr : Mp.Ip) (len offset : Int) (b : Bytes) (ht : t = 1 ∨ t = 2)
    (h : constructPrefix6 addr len offset = some b) : Seq (flowComp true) (u8 t :: b) := by
  unfold constructPrefix6 at h
  split at h
  · simp at h
  · split at h
    · rename_i hc
      simp only [Option.some.injEq] at h; subst h
      obtain ⟨_, h0, h1, h2⟩ := hc
      obtain ⟨l, rfl⟩ : ∃ l : Nat, len = l := ⟨len.toNat, by omega⟩
      obtain ⟨o, rfl⟩ : ∃ o : Nat, offset = o := ⟨offset.toNat, by omega⟩
      have hol : o ≤ l := by omega
      have hl : l ≤ 128 := by omega
      have ht' : (u8 t).toNat = t := u8_toNat (by omega)
      have hl' : (u8 l).toNat = l := u8_toNat (by omega)
      have ho' : (u8 o).toNat = o := u8_toNat (by omega)
      refine Seq.single (by simp) (fun r => ?_)
      simp only [Int.toNat_natCast, be8, List.cons_append, List.nil_append, flowComp, ht', ht, ↓reduceIte,
        prefix6Comp, hl', ho', hol, hl, and_self]
      apply skip_eq
      simp [pattern, ceil8]
    · simp at h

theorem seq_ruleBody6 (d : Rule6) (b : Bytes) (h : ruleBody d = some b) : Seq (flowComp true) b := by
  unfold ruleBody at h
  refine seq_concatOpt _ ?_ b h
  intro x hx c hc
  simp only [List.mem_append, List.mem_map] at hx
  rcases hx with ⟨t, ht, rfl⟩ | ⟨t, ht, rfl⟩
  · have ht' : t = 1 ∨ t = 2 := by simpa [Flow6.pfxTypes] using ht
    unfold pfxComp at hc
    cases hd : Flow6.get d t with
    | none => simp [hd] at hc; subst hc; exact Seq.nil _
    | some comp =>
      cases comp with
      | pfx a l o =>
        simp only [hd] at hc
        cases hp : constructPrefix6 a l o with
        | none => simp [hp] at hc
        | some pb => simp [hp] at hc; subst hc; exact seq_pfxComp6 t a l o pb ht' hp
      | ops s =>
        cases s with
        | nil => simp [hd] at hc; subst hc; exact Seq.nil _
        | cons c0 cs => simp [hd] at hc
  · have ht' : 3 ≤ t ∧ t ≤ 13 := by
      simp only [Flow6.opTypes, List.mem_cons, List.not_mem_nil, or_false] at ht
      omega
    unfold opComp at hc
    cases hd : Flow6.get d t with
    | none => simp [hd] at hc; subst hc; exact Seq.nil _
    | some comp =>
      cases comp with
      | pfx a l o => simp [hd] at hc
      | ops s =>
        cases s with
        | nil => simp [hd] at hc; subst hc; exact Seq.nil _
        | cons c0 cs =>
          simp only [hd] at hc
          cases ho : Flowspec.constructOperators (c0 :: cs) with
          | none => simp [ho] at hc
          | some ob =>
            simp [ho] at hc; subst hc
            refine seq_opComp true t ob ?_ (constructOperators_final _ ob ho)
            by_cases h13 : t = 13
            · exact Or.inr ⟨rfl, h13⟩
            · exact Or.inl (by omega)

theorem seq_constructNlri6 (d : Rule6) (b : Bytes) (h : constructNlri6 d = some (some b)) :
    Seq (flowItem true) b := by
  unfold constructNlri6 at h
  cases hb : ruleBody d with
  | none => simp [hb] at h
  | some body =>
    have hall := (seq_ruleBody6 d body hb).all
    obtain ⟨h1, h2⟩ := seq_flowItem true body hall
    cases body with
    | nil => simp [hb] at h
    | cons x xs =>
      simp only [hb] at h
      split at h
      · rename_i hge
        split at h
        · rename_i hlt
          simp only [Option.some.injEq] at h; subst h
          exact h2 hge hlt
        · simp at h
      · rename_i hge
        simp only [Option.some.injEq] at h; subst h
        exact h1 (by omega)

theorem seq_constructRules6 (rules : List Rule6) :
    ∀ b, constructRules6 rules = some b → Seq (flowItem true) b := by
  induction rules with
  | nil => intro b h; simp [constructRules6] at h; subst h; exact Seq.nil _
  | cons d r ih =>
    intro b h
    simp only [constructRules6] at h
    cases h1 : constructNlri6 d with
    | none => simp [h1] at h
    | some o =>
      cases o with
      | none => simp [h1] at h
      | some a =>
        cases h2 : constructRules6 r with
        | none => simp [h1, h2] at h
        | some c =>
          simp [h1, h2] at h; subst h
          exact Seq.append (seq_constructNlri6 d a h1) (ih c h2)

end Yabgp.Walker
