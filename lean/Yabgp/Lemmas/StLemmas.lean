/-
  What each helper does to the FSM state.
-/
import Yabgp.Lemmas.Norm

namespace Yabgp
namespace Sess

@[simp] theorem st_emit (s : Sess) (o : Out) : (s.emit o).st = s.st := rfl
@[simp] theorem st_withTm (s : Sess) (v : Timers) : (s.withTm v).st = s.st := rfl
@[simp] theorem st_withRetryCounter (s : Sess) (v : Nat) : (s.withRetryCounter v).st = s.st := rfl
@[simp] theorem st_incRetryCounter (s : Sess) : (s.incRetryCounter).st = s.st := rfl
@[simp] theorem st_withHoldTime (s : Sess) (v : Nat) : (s.withHoldTime v).st = s.st := rfl
@[simp] theorem st_withRemote (s : Sess) (v : CapaDict) : (s.withRemote v).st = s.st := rfl
@[simp] theorem st_setRetry (s : Sess) (v : Option Nat) : (s.setRetry v).st = s.st := rfl
@[simp] theorem st_setHold (s : Sess) (v : Option Nat) : (s.setHold v).st = s.st := rfl
@[simp] theorem st_setKeepalive (s : Sess) (v : Option Nat) : (s.setKeepalive v).st = s.st := rfl
@[simp] theorem st_setIdleHold (s : Sess) (v : Option Nat) : (s.setIdleHold v).st = s.st := rfl
@[simp] theorem st_setConn (s : Sess) (i : Nat) (c : Conn) : (s.setConn i c).st = s.st := rfl
@[simp] theorem st_setPhase (s : Sess) (i : Nat) (p : Phase) : (s.setPhase i p).st = s.st := rfl
@[simp] theorem st_setDisconnected (s : Sess) (i : Nat) : (s.setDisconnected i).st = s.st := rfl
@[simp] theorem st_setAsn4 (s : Sess) (i : Nat) : (s.setAsn4 i).st = s.st := rfl
@[simp] theorem st_bumpSent (s : Sess) (i : Nat) (g : Stats → Stats) : (s.bumpSent i g).st = s.st := rfl
@[simp] theorem st_bumpRecv (s : Sess) (i : Nat) (g : Stats → Stats) : (s.bumpRecv i g).st = s.st := rfl
@[simp] theorem st_withSt (s : Sess) (v : St) : (s.withSt v).st = v := rfl

@[simp] theorem st_setSt (s : Sess) (v : St) : (s.setSt v).st = v := by
  unfold Sess.setSt; split <;> rfl

@[simp] theorem st_writeOn (s : Sess) (i : Nat) (b : Bytes) : (s.writeOn i b).st = s.st := by
  unfold writeOn; split <;> rfl

@[simp] theorem st_sendNotification (s : Sess) (e sub : Nat) (d : Bytes) : (s.sendNotification e sub d).st = s.st := by
  unfold sendNotification; split
  · rfl
  · split <;> simp

@[simp] theorem st_sendKeepalive (s : Sess) : (s.sendKeepalive).st = s.st := by
  unfold sendKeepalive; split <;> simp

@[simp] theorem st_closeOn (s : Sess) (i : Nat) : (s.closeOn i).st = s.st := by
  unfold closeOn; split
  · simp
  · split <;> simp

@[simp] theorem st_closeConn (s : Sess) : (s.closeConn).st = s.st := by
  unfold closeConn; split <;> simp

@[simp] theorem st_errorClose (s : Sess) : (s.errorClose).st = .idle := by
  unfold errorClose; simp

@[simp] theorem st_headerError (s : Sess) (sub : Nat) (d : Bytes) : (s.headerError sub d).st = .idle := by
  unfold headerError; simp

@[simp] theorem st_openMessageError (s : Sess) (sub : Nat) : (s.openMessageError sub).st = .idle := by
  unfold openMessageError; simp

@[simp] theorem st_restartHold (s : Sess) : (s.restartHold).st = s.st := by
  unfold restartHold; split <;> simp

/-- FSM.open_received: OpenConfirm is entered from OpenSent only; every other state ends Idle or is left alone -/
theorem st_fsmOpenReceived (s : Sess) :
    (s.fsmOpenReceived).st = (if s.st = .openSent then .openConfirm else .idle) := by
  unfold fsmOpenReceived
  cases h : s.st <;> simp [h]
  split <;> simp

theorem st_fsmKeepaliveReceived (s : Sess) :
    (s.fsmKeepaliveReceived).st =
      (if s.st = .openConfirm ∨ s.st = .established then .established else .idle) := by
  unfold fsmKeepaliveReceived
  cases h : s.st <;> simp [h]

theorem st_fsmUpdateReceived (s : Sess) :
    (s.fsmUpdateReceived).st = (if s.st = .established then .established else .idle) := by
  unfold fsmUpdateReceived
  cases h : s.st <;> simp [h]

theorem st_fsmNotificationReceived (s : Sess) (e sub : Nat) : (s.fsmNotificationReceived e sub).st = .idle := by
  unfold fsmNotificationReceived
  split
  · cases h : s.st <;> simp [h]
  · split
    · simp
    · rename_i h; simpa using h

end Sess
end Yabgp
