/-
  One whole message delivered in one segment on an empty receive buffer: the receive loop performs exactly
  the dispatch of that message.
-/
import Yabgp.Lemmas.Framing

namespace Yabgp
namespace Sess

/-- the wire form of a message of type `ty` with body `body` (RFC 4271 §4.1) -/
def wireOf (ty : Nat) (body : Bytes) : Bytes := marker ++ be16 (body.length + 19) ++ [u8 ty] ++ body

theorem headOf_wireOf (ty : Nat) (body : Bytes) (hty : ty < 256) (hl : body.length + 19 ≤ 4096) :
    headOf (wireOf ty body) = .frame ty body (body.length + 19) := by
  have hlen : (wireOf ty body).length = body.length + 19 := by simp [wireOf, marker, be16]
  have h16 : (wireOf ty body).getD 16 0 = u8 ((body.length + 19) / 256) := by
    simp [wireOf, marker, be16, List.replicate]
  have h17 : (wireOf ty body).getD 17 0 = u8 (body.length + 19) := by
    simp [wireOf, marker, be16, List.replicate]
  have h18 : (wireOf ty body).getD 18 0 = u8 ty := by
    simp [wireOf, marker, be16, List.replicate]
  have hfl : frameLen (wireOf ty body) = body.length + 19 := by
    unfold frameLen
    rw [h16, h17]
    simp only [u8_toNat_mod]
    omega
  have htake : (wireOf ty body).take 16 = marker := by
    simp [wireOf, marker, be16, List.replicate]
  unfold headOf
  rw [if_neg (by simp [C.hdrLen, hlen]), if_neg (by simp [htake]), hfl,
    if_neg (by simp [C.hdrLen, C.maxLen]; omega), if_neg (by simp [hlen])]
  rw [h18, u8_toNat hty]
  congr 1
  rw [List.take_of_length_le (by simp [hlen])]
  simp [wireOf, marker, be16, C.hdrLen, List.replicate]

/-- one complete message on an empty buffer: exactly one dispatch, buffer empty again -/
theorem dataReceived_one (U : Bool → Bytes → UpdClass) (s : Sess) (i ty : Nat) (body : Bytes)
    (hty : ty < 256) (hl : body.length + 19 ≤ 4096) (hnd : (s.conn i).disconnected = false)
    (hcont : (dispatch U s i ty body).2 = true) :
    dataReceived U s i [] (wireOf ty body) = ((dispatch U s i ty body).1, []) := by
  unfold dataReceived
  simp only [List.nil_append]
  have hlen : (wireOf ty body).length = body.length + 19 := by simp [wireOf, marker, be16]
  have hpb : parseBuffer U s i (wireOf ty body) = ((dispatch U s i ty body).1, some []) := by
    unfold parseBuffer
    rw [if_neg (by simp [hnd]), headOf_wireOf ty body hty hl]
    simp only [hcont, ↓reduceIte]
    rw [List.drop_of_length_le (by simp [hlen])]
  have hpb2 : ∀ t : Sess, (parseBuffer U t i []).1 = t ∧ (parseBuffer U t i []).2 = none := by
    intro t
    unfold parseBuffer
    split
    · exact ⟨rfl, rfl⟩
    · have : headOf [] = .short := by simp [headOf, C.hdrLen]
      rw [this]; exact ⟨rfl, rfl⟩
  have hf : (wireOf ty body).length / 19 + 1 = ((wireOf ty body).length / 19 - 1) + 1 + 1 := by
    rw [hlen]; omega
  rw [hf]
  unfold drain
  rw [hpb]
  simp only
  unfold drain
  rw [(hpb2 _).2]
  simp only [(hpb2 _).1]

end Sess
end Yabgp
