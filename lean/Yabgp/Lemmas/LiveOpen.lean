/-
  Liveness half of C02, the side condition "our OPEN can be built": if the OPEN for the CONFIGURED capability set is
  encodable, so is the OPEN for every capability set obtained from it by dropping capabilities (`CapsLe`, Props/C05) -
  dropping a capability only shortens the capability block.
-/
import Yabgp.Props.C05

namespace Yabgp

theorem capMp_le {l l0 : LocalCaps} (h : CapsLe l l0) {a0 : Bytes} (h0 : capMp l0 = some a0) :
    ∃ a, capMp l = some a ∧ a.length ≤ a0.length := by
  rcases h.afiSafi with h1 | h1
  · exact ⟨[], by simp [capMp, h1], by simp⟩
  · exact ⟨a0, by unfold capMp at h0 ⊢; rw [h1]; exact h0, Nat.le_refl _⟩

theorem capEnh_le {l l0 : LocalCaps} (h : CapsLe l l0) {a0 : Bytes} (h0 : capEnh l0 = some a0) :
    ∃ a, capEnh l = some a ∧ a.length ≤ a0.length := by
  rcases h.enh with h1 | h1
  · exact ⟨[], by simp [capEnh, h1], by simp⟩
  · exact ⟨a0, by unfold capEnh at h0 ⊢; rw [h1]; exact h0, Nat.le_refl _⟩

theorem capAp_le {l l0 : LocalCaps} (h : CapsLe l l0) {a0 : Bytes} (h0 : capAp l0 = some a0) :
    ∃ a, capAp l = some a ∧ a.length ≤ a0.length := by
  rcases h.ap with h1 | h1
  · exact ⟨[], by simp [capAp, h1], by simp⟩
  · exact ⟨a0, by unfold capAp at h0 ⊢; rw [h1]; exact h0, Nat.le_refl _⟩

theorem capAs4_le (asn : Nat) {l l0 : LocalCaps} (h : CapsLe l l0) {a0 : Bytes} (h0 : capAs4 asn l0 = some a0) :
    ∃ a, capAs4 asn l = some a ∧ a.length ≤ a0.length := by
  unfold capAs4 at h0 ⊢
  by_cases hc : asn > 65535 ∨ l.fourBytesAs = true
  · have hc0 : asn > 65535 ∨ l0.fourBytesAs = true := by
      rcases hc with hc | hc
      · exact Or.inl hc
      · exact Or.inr (h.fba hc)
    rw [if_pos hc0] at h0
    rw [if_pos hc]
    exact ⟨a0, h0, Nat.le_refl _⟩
  · rw [if_neg hc]
    exact ⟨[], rfl, by simp⟩

theorem capCrr_le {l l0 : LocalCaps} (h : CapsLe l l0) : (capCrr l).length ≤ (capCrr l0).length := by
  unfold capCrr
  by_cases hc : l.ciscoRouteRefresh = true
  · rw [if_pos hc, if_pos (h.crr hc)]; exact Nat.le_refl _
  · rw [if_neg hc]; simp

theorem capRr_le {l l0 : LocalCaps} (h : CapsLe l l0) : (capRr l).length ≤ (capRr l0).length := by
  unfold capRr
  by_cases hc : l.routeRefresh = true
  · rw [if_pos hc, if_pos (h.rr hc)]; exact Nat.le_refl _
  · rw [if_neg hc]; simp

theorem capErr_le {l l0 : LocalCaps} (h : CapsLe l l0) : (capErr l).length ≤ (capErr l0).length := by
  unfold capErr
  by_cases hc : l.enhancedRouteRefresh = true
  · rw [if_pos hc, if_pos (h.err hc)]; exact Nat.le_refl _
  · rw [if_neg hc]; simp

/-- the capability block for a smaller capability set exists and is not longer -/
theorem constructCaps_le (asn : Nat) {l l0 : LocalCaps} (h : CapsLe l l0) {c0 : Bytes}
    (h0 : constructCaps asn l0 = some c0) : ∃ c, constructCaps asn l = some c ∧ c.length ≤ c0.length := by
  unfold constructCaps at h0
  cases h1 : capMp l0 with
  | none => simp [h1] at h0
  | some mp0 =>
    cases h2 : capAs4 asn l0 with
    | none => simp [h1, h2] at h0
    | some as0 =>
      cases h3 : capEnh l0 with
      | none => simp [h1, h2, h3] at h0
      | some enh0 =>
        cases h4 : capAp l0 with
        | none => simp [h1, h2, h3, h4] at h0
        | some ap0 =>
          simp only [h1, h2, h3, h4, Option.some.injEq] at h0
          obtain ⟨mp, e1, k1⟩ := capMp_le h h1
          obtain ⟨as4, e2, k2⟩ := capAs4_le asn h h2
          obtain ⟨enh, e3, k3⟩ := capEnh_le h h3
          obtain ⟨ap, e4, k4⟩ := capAp_le h h4
          have k5 := capCrr_le h
          have k6 := capRr_le h
          have k7 := capErr_le h
          refine ⟨mp ++ capCrr l ++ capRr l ++ as4 ++ enh ++ ap ++ capErr l, by simp [constructCaps, e1, e2, e3, e4], ?_⟩
          rw [← h0]
          simp only [List.length_append]
          omega

/-- **the side condition of the liveness theorem is a condition on the configuration alone**: if the OPEN advertising the
    configured capabilities can be built, then so can the OPEN advertising any subset of them -/
theorem constructOpen_le (asn hold id : Nat) {l l0 : LocalCaps} (h : CapsLe l l0) {w0 : Bytes}
    (h0 : constructOpen 4 asn hold id l0 = some w0) : ∃ w, constructOpen 4 asn hold id l = some w := by
  unfold constructOpen at h0 ⊢
  simp only [Option.bind_eq_bind] at h0 ⊢
  cases hc0 : constructCaps asn l0 with
  | none => simp [hc0] at h0
  | some c0 =>
    simp only [hc0, Option.bind_some] at h0
    obtain ⟨c, hc, hlen⟩ := constructCaps_le asn h hc0
    simp only [hc, Option.bind_some]
    split at h0
    · rename_i hcond
      rw [if_pos ⟨hcond.1, hcond.2.1, hcond.2.2.1, by omega⟩]
      unfold constructHeader
      rw [if_pos (by simp [be8, be16, be32]; omega)]
      exact ⟨_, rfl⟩
    · cases h0

end Yabgp
