/-
  Helper lemmas for the multiprotocol NLRI round trips (C07a) and the compositionality of the
  NLRI list decoders (C15): big-endian arithmetic on byte strings of any width, label stacks,
  route distinguishers, the generic `while data:` loop.
-/
import Yabgp.Model.Mp.MpUnreach
import Yabgp.Lemmas.Basic
import Mathlib.Tactic.IntervalCases

namespace Yabgp.Mp

/-! ### big-endian values of arbitrary width -/

theorem beVal_foldl (acc : Nat) (b : Bytes) :
    b.foldl (fun acc x => acc * 256 + x.toNat) acc = acc * 256 ^ b.length + beVal b := by
  induction b generalizing acc with
  | nil => simp [beVal]
  | cons x r ih =>
    simp only [List.foldl_cons, List.length_cons, beVal]
    rw [ih, ih (0 * 256 + x.toNat)]
    rw [Nat.pow_succ]
    simp only [Nat.zero_mul, Nat.zero_add]
    rw [Nat.add_mul, Nat.add_assoc, Nat.mul_assoc, Nat.mul_comm 256]

theorem beVal_append (a b : Bytes) : beVal (a ++ b) = beVal a * 256 ^ b.length + beVal b := by
  unfold beVal
  rw [List.foldl_append, beVal_foldl]
  rfl

theorem beVal_zeros (k : Nat) : beVal (zeros k) = 0 := by
  induction k with
  | zero => rfl
  | succ k ih =>
    have : zeros (k + 1) = zeros k ++ [0] := by
      simp [zeros, List.replicate_succ']
    rw [this, beVal_append, ih]
    simp [beVal]

@[simp] theorem zeros_length (k : Nat) : (zeros k).length = k := by simp [zeros]

theorem beVal_singleton (x : UInt8) : beVal [x] = x.toNat := by simp [beVal]

theorem beVal_beN (k n : Nat) : beVal (beN k n) = n % 256 ^ k := by
  induction k generalizing n with
  | zero => simp [beN, beVal, Nat.mod_one]
  | succ k ih =>
    simp only [beN]
    rw [beVal_append, ih, beVal_singleton, u8_toNat_mod]
    simp only [List.length_cons, List.length_nil, Nat.zero_add, Nat.pow_one]
    rw [Nat.pow_succ, Nat.mul_comm (256 ^ k) 256, Nat.mod_mul]
    omega

theorem take_beN (k j n : Nat) (h : j ≤ k) : (beN k n).take j = beN j (n / 256 ^ (k - j)) := by
  induction k generalizing n with
  | zero =>
    have : j = 0 := by omega
    subst this; simp [beN]
  | succ k ih =>
    by_cases hj : j ≤ k
    · simp only [beN]
      rw [List.take_append_of_le_length (by simp; exact hj), ih _ hj]
      congr 1
      rw [Nat.div_div_eq_div_mul]
      congr 1
      have : k + 1 - j = (k - j) + 1 := by omega
      rw [this, Nat.pow_succ, Nat.mul_comm]
    · have : j = k + 1 := by omega
      subst this
      rw [List.take_of_length_le (by simp)]
      simp

/-- the first `k` of the `m` big-endian octets of `n`, zero padded back to `m` octets, give `n` again when
    `n` has no bits beyond those octets -/
theorem beVal_take_pad (m k n : Nat) (hk : k ≤ m) (hn : n < 256 ^ m) (hz : n % 256 ^ (m - k) = 0) :
    beVal ((beN m n).take k ++ zeros (m - k)) = n := by
  rw [beVal_append, beVal_zeros, take_beN m k n hk, beVal_beN, zeros_length, Nat.add_zero]
  have hP : 0 < 256 ^ (m - k) := Nat.pow_pos (by decide)
  have hlt : n / 256 ^ (m - k) < 256 ^ k := by
    rw [Nat.div_lt_iff_lt_mul hP, ← Nat.pow_add]
    have : k + (m - k) = m := by omega
    rw [this]; exact hn
  rw [Nat.mod_eq_of_lt hlt]
  exact Nat.div_mul_cancel (Nat.dvd_of_mod_eq_zero hz)

theorem be32_eq_beN (n : Nat) : be32 n = beN 4 n := by
  simp only [beN, be32, List.nil_append, List.cons_append, Nat.div_div_eq_div_mul]

theorem unpackI_beVal (b : Bytes) (h : b.length = 4) : unpackI b = some (beVal b) := by
  match b, h with
  | [a, b, c, d], _ => simp [unpackI, beVal]; omega

theorem ceil8_eq (l : Nat) : ceil8 l = (l + 7) / 8 := by
  unfold ceil8; split <;> omega

/-! ### label stacks -/

theorem parseLabels_be24 (x : Nat) (hx : x < 16777216) (r : Bytes) :
    parseLabels (be24 x ++ r) = if x % 2 = 1 then [x / 16] else x / 16 :: parseLabels r := by
  have hv : (u8 (x / 65536)).toNat * 65536 + (u8 (x / 256)).toNat * 256 + (u8 x).toNat = x := by
    simp only [u8_toNat_mod]; omega
  simp only [be24, List.cons_append, List.nil_append, parseLabels, hv]

/-- labels the property ranges over: 20 bits -/
def LabelOk (l : Nat) : Prop := l < 1048576

theorem pack24_mid {l : Nat} (h : LabelOk l) : pack24 (l * 16) = some (be24 (l * 16)) := by
  unfold LabelOk at h
  unfold pack24 p32
  rw [if_pos (by omega)]

theorem pack24_last {l : Nat} (h : LabelOk l) : pack24 (l * 16 + 1) = some (be24 (l * 16 + 1)) := by
  unfold LabelOk at h
  unfold pack24 p32
  rw [if_pos (by omega)]

theorem encLabels_cons2 (last : Nat → Option Bytes) (l m : Nat) (r : List Nat) :
    encLabels last (l :: m :: r) =
      (pack24 (l * 16)).bind fun a => (encLabels last (m :: r)).map (a ++ ·) := by
  rw [encLabels]
  · cases pack24 (l * 16) <;> cases encLabels last (m :: r) <;> simp
  · simp

/-- a stack of in-range labels whose last element the encoder `last` writes with the bottom-of-stack bit
    decodes to itself, whatever follows; it has 3 octets per label -/
theorem parseLabels_enc (last : Nat → Option Bytes) (ls : List Nat) (hne : ls ≠ [])
    (hall : ∀ l ∈ ls, LabelOk l)
    (hlast : ∀ l, ls.getLast? = some l → last l = some (be24 (l * 16 + 1))) :
    ∃ w, encLabels last ls = some w ∧ w.length = 3 * ls.length ∧
      ∀ rest, parseLabels (w ++ rest) = ls := by
  induction ls with
  | nil => exact absurd rfl hne
  | cons l r ih =>
    have hl : LabelOk l := hall l (by simp)
    cases r with
    | nil =>
      refine ⟨be24 (l * 16 + 1), ?_, by simp, ?_⟩
      · simp only [encLabels]
        exact hlast l (by simp)
      · intro rest
        unfold LabelOk at hl
        rw [parseLabels_be24 _ (by omega)]
        have h1 : (l * 16 + 1) % 2 = 1 := by omega
        have h2 : (l * 16 + 1) / 16 = l := by omega
        simp [h1, h2]
    | cons m t =>
      obtain ⟨w, hw, hlen, hp⟩ := ih (by simp) (fun x hx => hall x (by simp [hx]))
        (fun x hx => hlast x (by simpa [List.getLast?_cons_cons] using hx))
      refine ⟨be24 (l * 16) ++ w, ?_, ?_, ?_⟩
      · rw [encLabels_cons2, pack24_mid hl, hw]; rfl
      · simp [hlen]; omega
      · intro rest
        unfold LabelOk at hl
        rw [List.append_assoc, parseLabels_be24 _ (by omega)]
        have h1 : ¬ (l * 16) % 2 = 1 := by omega
        have h2 : (l * 16) / 16 = l := by omega
        simp [h1, h2, hp rest]

/-! ### route distinguishers -/

/-- route distinguishers the property ranges over: the two text forms with every field in range
    (`asn:an` is wire type 0 up to asn 65535 and wire type 2 above) -/
def RdOk : Rd → Prop
  | .asForm asn an => (asn ≤ 65535 ∧ an < p32) ∨ (65535 < asn ∧ asn < p32 ∧ an < 65536)
  | .ipForm ip an => ip < p32 ∧ an < 65536
  | .raw _ => False

instance (rd : Rd) : Decidable (RdOk rd) := by
  cases rd <;> unfold RdOk <;> infer_instance

theorem parseRd_tag (t : Nat) (v : Bytes) (ht : t < 256) :
    parseRd (be16 t ++ v) = parseRd ((0 : UInt8) :: u8 t :: v) := by
  have : t / 256 = 0 := by omega
  simp [be16, this, u8]

theorem parseRd_enc (rd : Rd) (h : RdOk rd) :
    ∃ w, constructRd rd = some w ∧ w.length = 8 ∧ parseRd w = some rd := by
  cases rd with
  | raw b => exact absurd h (by simp [RdOk])
  | ipForm ip an =>
    obtain ⟨h1, h2⟩ := h
    refine ⟨be16 1 ++ be32 ip ++ be16 an, by simp [constructRd, h1, h2], by simp, ?_⟩
    rw [List.append_assoc, parseRd_tag 1 _ (by decide)]
    have ht : (be32 ip ++ be16 an).take 6 = be32 ip ++ be16 an := List.take_of_length_le (by simp)
    unfold p32 at h1
    simp only [parseRd, ht, rd32_be32 h1, unpackH_be16 h2]
    simp [u8]
  | asForm asn an =>
    rcases h with ⟨h1, h2⟩ | ⟨h1, h2, h3⟩
    · refine ⟨be16 0 ++ be16 asn ++ be32 an, by simp [constructRd, h1, h2], by simp, ?_⟩
      rw [List.append_assoc, parseRd_tag 0 _ (by decide)]
      have ht : (be16 asn ++ be32 an).take 6 = be16 asn ++ be32 an := List.take_of_length_le (by simp)
      unfold p32 at h2
      simp only [parseRd, ht, rd16_be16 (show asn < 65536 by omega), unpackI_be32 h2]
      simp [u8]
    · refine ⟨be16 2 ++ be32 asn ++ be16 an, ?_, by simp, ?_⟩
      · simp [constructRd, h2, h3]; omega
      · rw [List.append_assoc, parseRd_tag 2 _ (by decide)]
        have ht : (be32 asn ++ be16 an).take 6 = be32 asn ++ be16 an := List.take_of_length_le (by simp)
        unfold p32 at h2
        simp only [parseRd, ht, rd32_be32 h2, unpackH_be16 h3]
        simp [u8]

/-! ### addresses and prefixes -/

/-- an address text denotes a value of its family -/
def IpOk : Ip → Prop
  | .v4 n => n < p32
  | .v6 n => n < p128

instance (a : Ip) : Decidable (IpOk a) := by
  cases a <;> unfold IpOk <;> infer_instance

theorem p32_eq : p32 = 256 ^ 4 := by decide
theorem p128_eq : p128 = 256 ^ 16 := by decide

theorem packed_length (a : Ip) : a.packed.length = a.width / 8 := by
  cases a <;> simp [Ip.packed, Ip.width]

theorem nhAddr_packed (a : Ip) (h : IpOk a) : nhAddr a.packed = some a := by
  cases a with
  | v4 n =>
    unfold IpOk at h
    have hne : be32 n ≠ [] := by simp [be32]
    have hv : beVal (be32 n) = n := by
      rw [be32_eq_beN, beVal_beN, ← p32_eq]; exact Nat.mod_eq_of_lt h
    simp [nhAddr, Ip.packed, intOfBytes, hne, hv]
  | v6 n =>
    unfold IpOk at h
    have hne : beN 16 n ≠ [] := by
      intro hh; have := congrArg List.length hh; simp at this
    have hv : beVal (beN 16 n) = n := by
      rw [beVal_beN, ← p128_eq]; exact Nat.mod_eq_of_lt h
    simp [nhAddr, Ip.packed, intOfBytes, hne, hv, ip6OfInt, h]

theorem slice_mid' {p x s : Bytes} {i j : Nat} (hi : i = p.length) (hj : j = p.length + x.length) :
    slice (p ++ x ++ s) i j = x := by
  subst hi; subst hj
  unfold slice
  rw [List.take_left' (l₁ := p ++ x) (by simp)]
  exact List.drop_left' rfl

/-! ### the generic decoder loop -/

section Many
variable {α : Type} (stop : Bytes → Bool) (step : Bytes → R (α × Bytes))
  (hstep : ∀ b x r, step b = .ok (x, r) → r.length < b.length)

theorem many_nil : many stop step hstep [] = .ok [] := by
  rw [many]

theorem many_cons (y : UInt8) (ys : Bytes) :
    many stop step hstep (y :: ys) =
      if stop (y :: ys) then .ok []
      else (step (y :: ys)).bind fun p => (many stop step hstep p.2).map (p.1 :: ·) := by
  conv => lhs; rw [many]
  split
  · rfl
  · split <;> rename_i h <;> simp only [h, Except.bind]
    cases many stop step hstep _ <;> rfl

/-- at no loop head inside the encoding of `xs` (followed by `rest`) does the stop test fire -/
def NoStop (enc : α → Option Bytes) : List α → Bytes → Prop
  | [], _ => True
  | x :: xs, rest => (∀ w, encAll enc (x :: xs) = some w → stop (w ++ rest) = false) ∧ NoStop enc xs rest

theorem noStop_const_false (enc : α → Option Bytes) (xs : List α) (rest : Bytes) :
    NoStop (fun _ => false) enc xs rest := by
  induction xs with
  | nil => trivial
  | cons x r ih => exact ⟨fun _ _ => rfl, ih⟩

theorem encAll_cons (enc : α → Option Bytes) (x : α) (xs : List α) :
    encAll enc (x :: xs) = (enc x).bind fun a => (encAll enc xs).map (a ++ ·) := by
  rw [encAll]
  cases enc x <;> cases encAll enc xs <;> simp

/-- the loop over the concatenated encodings of `xs`, followed by anything, yields `xs` followed by whatever
    the rest decodes to: round trip and compositionality in one statement -/
theorem many_enc (enc : α → Option Bytes) (xs : List α) :
    ∀ (w rest : Bytes), encAll enc xs = some w →
      (∀ x ∈ xs, ∀ e, enc x = some e → e ≠ [] ∧ ∀ r, step (e ++ r) = .ok (x, r)) →
      NoStop stop enc xs rest →
      many stop step hstep (w ++ rest) = (many stop step hstep rest).map (xs ++ ·) := by
  induction xs with
  | nil =>
    intro w rest hw _ _
    simp only [encAll, Option.some.injEq] at hw
    subst hw
    simp only [List.nil_append]
    cases many stop step hstep rest <;> simp [Except.map]
  | cons x r ih =>
    intro w rest hw hel hns
    have hw0 := hw
    rw [encAll_cons] at hw
    cases h1 : enc x with
    | none => simp [h1] at hw
    | some e =>
      cases h2 : encAll enc r with
      | none => simp [h1, h2] at hw
      | some w2 =>
        simp only [h1, h2, Option.bind_some, Option.map_some, Option.some.injEq] at hw
        subst hw
        obtain ⟨hne, hst⟩ := hel x (by simp) e h1
        obtain ⟨hs, hns'⟩ := hns
        have hs' := hs _ hw0
        obtain ⟨y, ys, rfl⟩ := List.exists_cons_of_ne_nil hne
        have hst' := hst (w2 ++ rest)
        simp only [List.cons_append, List.append_assoc] at hs' hst' ⊢
        rw [many_cons, hs', hst']
        simp only [Bool.false_eq_true, ↓reduceIte, Except.bind]
        rw [ih w2 rest h2 (fun z hz => hel z (by simp [hz])) hns']
        cases many stop step hstep rest <;> simp [Except.map]

/-- the whole input is the encoding -/
theorem many_enc_all (enc : α → Option Bytes) (xs : List α) (w : Bytes) (hw : encAll enc xs = some w)
    (hel : ∀ x ∈ xs, ∀ e, enc x = some e → e ≠ [] ∧ ∀ r, step (e ++ r) = .ok (x, r))
    (hns : NoStop stop enc xs []) :
    many stop step hstep w = .ok xs := by
  have := many_enc stop step hstep enc xs w [] hw hel hns
  simp only [List.append_nil] at this
  rw [this, many_nil]
  simp [Except.map]

/-- every in-range list encodes when each element does -/
theorem encAll_isSome (enc : α → Option Bytes) (xs : List α) (h : ∀ x ∈ xs, ∃ e, enc x = some e) :
    ∃ w, encAll enc xs = some w := by
  induction xs with
  | nil => exact ⟨[], rfl⟩
  | cons x r ih =>
    obtain ⟨e, he⟩ := h x (by simp)
    obtain ⟨w, hw⟩ := ih (fun y hy => h y (by simp [hy]))
    exact ⟨e ++ w, by rw [encAll_cons, he, hw]; rfl⟩

theorem encAll_append (enc : α → Option Bytes) (xs ys : List α) (a b : Bytes)
    (ha : encAll enc xs = some a) (hb : encAll enc ys = some b) :
    encAll enc (xs ++ ys) = some (a ++ b) := by
  induction xs generalizing a with
  | nil => simp only [encAll, Option.some.injEq] at ha; subst ha; simpa using hb
  | cons x r ih =>
    rw [encAll_cons] at ha
    cases h1 : enc x with
    | none => simp [h1] at ha
    | some e =>
      cases h2 : encAll enc r with
      | none => simp [h1, h2] at ha
      | some w2 =>
        simp only [h1, h2, Option.bind_some, Option.map_some, Option.some.injEq] at ha
        subst ha
        rw [List.cons_append, encAll_cons, h1, ih w2 h2]
        simp

end Many

/-! ### prefixes -/

theorem intOfBytes_take_pad (m k a : Nat) (hm : 0 < m) (hk : k ≤ m) (ha : a < 256 ^ m)
    (hz : a % 256 ^ (m - k) = 0) :
    intOfBytes ((beN m a).take k ++ zeros (m - k)) = some a := by
  have hne : (beN m a).take k ++ zeros (m - k) ≠ [] := by
    intro hh
    have := congrArg List.length hh
    simp at this
    omega
  simp only [intOfBytes, hne, ↓reduceIte, beVal_take_pad m k a hk ha hz]

/-- a prefix of family `af` the property ranges over: every mask length of the family, and no address bits
    beyond the last octet the mask length covers (network form implies it; host bits inside the last octet are
    allowed, the code sends and returns them as they are) -/
def PfxOk (af : AF) (p : MPfx) : Prop :=
  match af, p.addr with
  | .inet, .v4 a => 0 ≤ p.len ∧ p.len ≤ 32 ∧ a < p32 ∧ a % 256 ^ (4 - (p.len.toNat + 7) / 8) = 0
  | .inet6, .v6 a => 0 ≤ p.len ∧ p.len ≤ 128 ∧ a < p128 ∧ a % 256 ^ (16 - (p.len.toNat + 7) / 8) = 0
  | _, _ => False

instance (af : AF) (p : MPfx) : Decidable (PfxOk af p) := by
  obtain ⟨addr, len⟩ := p
  cases af <;> cases addr <;> unfold PfxOk <;> simp only <;> infer_instance

/-- network form (no host bits at all) is the usual special case -/
theorem pfxOk_of_network6 (a l : Nat) (hl : l ≤ 128) (ha : a < p128) (hn : a % 2 ^ (128 - l) = 0) :
    PfxOk .inet6 { addr := .v6 a, len := l } := by
  show 0 ≤ (l : Int) ∧ (l : Int) ≤ 128 ∧ a < p128 ∧ a % 256 ^ (16 - ((l : Int).toNat + 7) / 8) = 0
  refine ⟨by omega, by omega, ha, ?_⟩
  simp only [Int.toNat_natCast]
  have h256 : (256 : Nat) = 2 ^ 8 := by decide
  rw [h256, ← Nat.pow_mul]
  have hle : 8 * (16 - (l + 7) / 8) ≤ 128 - l := by omega
  exact Nat.mod_eq_zero_of_dvd (Nat.dvd_trans (Nat.pow_dvd_pow 2 hle) (Nat.dvd_of_mod_eq_zero hn))

theorem pfxOk_of_network4 (a l : Nat) (hl : l ≤ 32) (ha : a < p32) (hn : a % 2 ^ (32 - l) = 0) :
    PfxOk .inet { addr := .v4 a, len := l } := by
  show 0 ≤ (l : Int) ∧ (l : Int) ≤ 32 ∧ a < p32 ∧ a % 256 ^ (4 - ((l : Int).toNat + 7) / 8) = 0
  refine ⟨by omega, by omega, ha, ?_⟩
  simp only [Int.toNat_natCast]
  have h256 : (256 : Nat) = 2 ^ 8 := by decide
  rw [h256, ← Nat.pow_mul]
  have hle : 8 * (4 - (l + 7) / 8) ≤ 32 - l := by omega
  exact Nat.mod_eq_zero_of_dvd (Nat.dvd_trans (Nat.pow_dvd_pow 2 hle) (Nat.dvd_of_mod_eq_zero hn))

/-- what `PfxOk` says in components: width in octets `m`, value `a`, mask length `l` -/
theorem PfxOk.components {af : AF} {p : MPfx} (h : PfxOk af p) :
    ∃ (a l : Nat), p.len = (l : Int) ∧
      ((af = .inet ∧ p.addr = .v4 a ∧ l ≤ 32 ∧ a < 256 ^ 4 ∧ a % 256 ^ (4 - (l + 7) / 8) = 0) ∨
       (af = .inet6 ∧ p.addr = .v6 a ∧ l ≤ 128 ∧ a < 256 ^ 16 ∧ a % 256 ^ (16 - (l + 7) / 8) = 0)) := by
  obtain ⟨addr, len⟩ := p
  cases af <;> cases addr <;> simp only [PfxOk] at h
  · rename_i a
    obtain ⟨h0, h1, h2, h3⟩ := h
    refine ⟨a, len.toNat, by simp; omega, Or.inl ⟨rfl, rfl, by omega, by rw [← p32_eq]; exact h2, h3⟩⟩
  · rename_i a
    obtain ⟨h0, h1, h2, h3⟩ := h
    refine ⟨a, len.toNat, by simp; omega, Or.inr ⟨rfl, rfl, by omega, by rw [← p128_eq]; exact h2, h3⟩⟩

/-! ### IPv6 unicast -/

theorem take_beN_length (m k a : Nat) (hk : k ≤ m) : ((beN m a).take k).length = k := by
  simp; omega

theorem parseU6One_enc (pid : Option Nat) (a l : Nat) (hl : l ≤ 128) (ha : a < 256 ^ 16)
    (hz : a % 256 ^ (16 - (l + 7) / 8) = 0) (rest : Bytes) :
    parseU6One pid (be8 l ++ (beN 16 a).take (ceil8 l) ++ rest) =
      .ok ({ pfx := { addr := .v6 a, len := (l : Int) }, pathId := pid }, rest) := by
  have hk : (l + 7) / 8 ≤ 16 := by omega
  have hlen := take_beN_length 16 ((l + 7) / 8) a hk
  simp only [be8, List.cons_append, List.nil_append, parseU6One, u8_toNat (show l < 256 by omega), ceil8_eq]
  rw [List.take_left' hlen, List.drop_left' hlen]
  have hz' : (128 - l) / 8 = 16 - (l + 7) / 8 := by omega
  rw [hz', intOfBytes_take_pad 16 _ a (by decide) hk ha hz]
  have : a < p128 := by rw [p128_eq]; exact ha
  simp [ip6OfInt, this]

/-- IPv6 unicast routes the property ranges over (no add-path entry: the constructor cannot encode one) -/
def U6Ok (r : U6Route) : Prop := r.pathId = none ∧ PfxOk .inet6 r.pfx

instance (r : U6Route) : Decidable (U6Ok r) := by unfold U6Ok; infer_instance

theorem u6_route (r : U6Route) (h : U6Ok r) :
    ∃ e, encU6Route r = some e ∧ e ≠ [] ∧ ∀ rest, stepU6 false (e ++ rest) = .ok (r, rest) := by
  obtain ⟨⟨addr, len⟩, pid⟩ := r
  obtain ⟨hp, hpfx⟩ := h
  simp only at hp
  subst hp
  obtain ⟨a, l, hlen, hc⟩ := hpfx.components
  simp only at hlen
  subst hlen
  rcases hc with ⟨hf, _⟩ | ⟨_, haddr, hl, ha, hz⟩
  · cases hf
  · simp only at haddr
    subst haddr
    refine ⟨be8 l ++ (beN 16 a).take (ceil8 l), ?_, by simp [be8], ?_⟩
    · show (if 0 ≤ (l : Int) ∧ (l : Int) ≤ ((128 : Nat) : Int)
            then some (be8 (l : Int).toNat ++ (beN 16 a).take (ceil8 (l : Int).toNat)) else none) = _
      rw [if_pos ⟨by omega, by omega⟩]
      simp
    · intro rest
      simp only [stepU6, Bool.false_eq_true, ↓reduceIte]
      exact parseU6One_enc none a l hl ha hz rest

/-- the input class on which IPv6Unicast.parse's `b'\x00\x00'` special case fires inside the encoding of `rs`
    followed by `rest`: a default route `::/0` followed by exactly one more zero octet - either a second and
    last `::/0`, or a single 0x00 in `rest`.  `U6Safe` excludes precisely that. -/
def oneMoreDefault (xs : List U6Route) (rest : Bytes) : Prop :=
  match xs with
  | [y] => y.pfx.len = 0 ∧ rest = []
  | _ => False

instance (xs : List U6Route) (rest : Bytes) : Decidable (oneMoreDefault xs rest) := by
  unfold oneMoreDefault; split <;> infer_instance

def U6Safe : List U6Route → Bytes → Prop
  | [], _ => True
  | x :: xs, rest =>
    ¬ (x.pfx.len = 0 ∧ ((xs = [] ∧ rest = [0]) ∨ oneMoreDefault xs rest)) ∧ U6Safe xs rest

instance U6Safe.dec : (rs : List U6Route) → (rest : Bytes) → Decidable (U6Safe rs rest)
  | [], _ => isTrue trivial
  | x :: xs, rest =>
    have := U6Safe.dec xs rest
    by unfold U6Safe; infer_instance

/-- an in-range route encodes to the single octet 00 exactly when it is `::/0`; otherwise its first octet is
    not zero -/
theorem u6_enc_shape (r : U6Route) (h : U6Ok r) (e : Bytes) (he : encU6Route r = some e) :
    (e = [0] ∧ r.pfx.len = 0) ∨ (∃ y ys, e = y :: ys ∧ y ≠ 0) := by
  obtain ⟨⟨addr, len⟩, pid⟩ := r
  obtain ⟨hp, hpfx⟩ := h
  simp only at hp
  subst hp
  obtain ⟨a, l, hlen, hc⟩ := hpfx.components
  simp only at hlen
  subst hlen
  rcases hc with ⟨hf, _⟩ | ⟨_, haddr, hl, ha, hz⟩
  · cases hf
  · simp only at haddr
    subst haddr
    have he' : (if 0 ≤ (l : Int) ∧ (l : Int) ≤ ((128 : Nat) : Int)
            then some (be8 (l : Int).toNat ++ (beN 16 a).take (ceil8 (l : Int).toNat)) else none) = some e := he
    rw [if_pos ⟨by omega, by omega⟩] at he'
    simp only [Int.toNat_natCast, Option.some.injEq] at he'
    subst he'
    by_cases h0 : l = 0
    · subst h0
      left
      simp [be8, ceil8, u8]
    · right
      refine ⟨u8 l, (beN 16 a).take (ceil8 l), by simp [be8], ?_⟩
      intro hh
      have := congrArg UInt8.toNat hh
      rw [u8_toNat (show l < 256 by omega)] at this
      simp at this
      exact h0 this

theorem encAll_nil_iff {α : Type} (enc : α → Option Bytes) (xs : List α) (w : Bytes)
    (hw : encAll enc xs = some w) (hne : ∀ x ∈ xs, ∀ e, enc x = some e → e ≠ []) :
    w = [] ↔ xs = [] := by
  cases xs with
  | nil => simp only [encAll, Option.some.injEq] at hw; simp [← hw]
  | cons x r =>
    rw [encAll_cons] at hw
    cases h1 : enc x with
    | none => simp [h1] at hw
    | some e =>
      cases h2 : encAll enc r with
      | none => simp [h1, h2] at hw
      | some w2 =>
        simp only [h1, h2, Option.bind_some, Option.map_some, Option.some.injEq] at hw
        subst hw
        have := hne x (by simp) e h1
        simp [this]

theorem u6_noStop (rs : List U6Route) (rest : Bytes) (hok : ∀ r ∈ rs, U6Ok r) (hs : U6Safe rs rest) :
    NoStop stopU6 encU6Route rs rest := by
  induction rs with
  | nil => trivial
  | cons x xs ih =>
    obtain ⟨hx, hs'⟩ := hs
    refine ⟨?_, ih (fun r hr => hok r (by simp [hr])) hs'⟩
    intro w hw
    rw [encAll_cons] at hw
    cases h1 : encU6Route x with
    | none => simp [h1] at hw
    | some e =>
      cases h2 : encAll encU6Route xs with
      | none => simp [h1, h2] at hw
      | some w2 =>
        simp only [h1, h2, Option.bind_some, Option.map_some, Option.some.injEq] at hw
        subst hw
        simp only [stopU6, decide_eq_false_iff_not]
        intro heq
        apply hx
        rcases u6_enc_shape x (hok x (by simp)) e h1 with ⟨he, hd⟩ | ⟨y, ys, he, hy⟩
        · subst he
          refine ⟨hd, ?_⟩
          simp only [List.cons_append, List.nil_append, List.cons.injEq, true_and] at heq
          -- w2 ++ rest = [0]
          have hnil := encAll_nil_iff encU6Route xs w2 h2
            (fun r hr e' he' => (u6_route r (hok r (by simp [hr]))).elim fun e'' h'' => by
              rw [h''.1] at he'; cases he'; exact h''.2.1)
          cases w2 with
          | nil =>
            left
            exact ⟨hnil.mp rfl, by simpa using heq⟩
          | cons b t =>
            right
            simp only [List.cons_append, List.cons.injEq, List.append_eq_nil_iff] at heq
            obtain ⟨hb, ht, hr⟩ := heq
            subst hb; subst ht; subst hr
            cases xs with
            | nil => simp [encAll] at h2
            | cons y ys =>
              rw [encAll_cons] at h2
              cases h3 : encU6Route y with
              | none => simp [h3] at h2
              | some ey =>
                cases h4 : encAll encU6Route ys with
                | none => simp [h3, h4] at h2
                | some w3 =>
                  simp only [h3, h4, Option.bind_some, Option.map_some, Option.some.injEq] at h2
                  rcases u6_enc_shape y (hok y (by simp)) ey h3 with ⟨hey, hdy⟩ | ⟨z, zs, hey, hz⟩
                  · subst hey
                    simp only [List.cons_append, List.nil_append, List.cons.injEq, true_and] at h2
                    have hnil' := encAll_nil_iff encU6Route ys w3 h4
                      (fun r hr e' he' => (u6_route r (hok r (by simp [hr]))).elim fun e'' h'' => by
                        rw [h''.1] at he'; cases he'; exact h''.2.1)
                    have : ys = [] := hnil'.mp h2
                    subst this
                    exact ⟨hdy, rfl⟩
                  · subst hey
                    simp only [List.cons_append, List.cons.injEq] at h2
                    exact absurd h2.1 hz
        · subst he
          simp only [List.cons_append, List.cons.injEq] at heq
          exact absurd heq.1 hy

/-! ### labeled unicast and VPN: shared pieces -/

/-- address of family `af` with value `a`; its width in octets -/
def afAddr : AF → Nat → Ip
  | .inet, a => .v4 a
  | .inet6, a => .v6 a

def afOctets : AF → Nat
  | .inet => 4
  | .inet6 => 16

theorem afOctets_pos (af : AF) : 0 < afOctets af := by cases af <;> decide

/-- `PfxOk` in the uniform shape the route lemmas use -/
theorem PfxOk.uniform {af : AF} {p : MPfx} (h : PfxOk af p) :
    ∃ (a l : Nat), p = { addr := afAddr af a, len := (l : Int) } ∧ l ≤ 8 * afOctets af ∧
      a < 256 ^ afOctets af ∧ a % 256 ^ (afOctets af - (l + 7) / 8) = 0 := by
  obtain ⟨a, l, hlen, hc⟩ := h.components
  obtain ⟨addr, len⟩ := p
  simp only at hlen
  subst hlen
  rcases hc with ⟨rfl, haddr, hl, ha, hz⟩ | ⟨rfl, haddr, hl, ha, hz⟩
  · simp only at haddr; subst haddr
    exact ⟨a, l, rfl, by simpa [afOctets] using hl, ha, hz⟩
  · simp only at haddr; subst haddr
    exact ⟨a, l, rfl, by simpa [afOctets] using hl, ha, hz⟩

theorem prefixOctetsV4_eq (l : Nat) (hl : l ≤ 32) : prefixOctetsV4 (l : Int) = (l + 7) / 8 := by
  unfold prefixOctetsV4
  split
  · omega
  · split
    · omega
    · split
      · omega
      · split <;> omega

/-- `construct_prefix_v4` / `construct_prefix_v6` on an in-range prefix: the first ceil(l/8) octets -/
theorem prefixHex_eq (af : AF) (a l : Nat) (hl : l ≤ 8 * afOctets af) (ha : a < 256 ^ afOctets af) :
    luPrefixHex af { addr := afAddr af a, len := (l : Int) } = some ((beN (afOctets af) a).take ((l + 7) / 8)) := by
  cases af with
  | inet =>
    simp only [afOctets] at hl ha
    show (if a < p32 then some ((be32 a).take (prefixOctetsV4 (l : Int))) else none) = _
    rw [if_pos (by rw [p32_eq]; exact ha), prefixOctetsV4_eq l (by omega), be32_eq_beN]
    rfl
  | inet6 =>
    simp only [afOctets] at hl ha
    show (if 0 ≤ (l : Int) ∧ (l : Int) ≤ ((128 : Nat) : Int)
          then some ((beN 16 a).take (((l : Int).toNat + 7) / 8)) else none) = _
    rw [if_pos ⟨by omega, by omega⟩]
    simp [afOctets]

theorem vpnPrefixHex_eq_lu (af : AF) (p : MPfx) : vpnPrefixHex af p = luPrefixHex af p := by
  cases af <;> rfl

/-- the address text both decoders compute from the prefix octets, zero padded to the family width -/
theorem luAddr_enc (af : AF) (a l n : Nat) (w rest : Bytes) (hw : w.length = 3 * n)
    (hl : l ≤ 8 * afOctets af) (ha : a < 256 ^ afOctets af)
    (hz : a % 256 ^ (afOctets af - (l + 7) / 8) = 0) :
    luAddr af (24 * n + l) n (w ++ ((beN (afOctets af) a).take ((l + 7) / 8) ++ rest)) = some (afAddr af a) := by
  have hk : (l + 7) / 8 ≤ afOctets af := by omega
  have hlen := take_beN_length (afOctets af) ((l + 7) / 8) a hk
  have hc : ceil8 (24 * n + l) = 3 * n + (l + 7) / 8 := by rw [ceil8_eq]; omega
  have htake : (w ++ ((beN (afOctets af) a).take ((l + 7) / 8) ++ rest)).take (3 * n + (l + 7) / 8)
      = w ++ (beN (afOctets af) a).take ((l + 7) / 8) := by
    rw [← List.append_assoc]
    exact List.take_left' (by simp [hw]; omega)
  have hdrop : (w ++ (beN (afOctets af) a).take ((l + 7) / 8)).drop (3 * n)
      = (beN (afOctets af) a).take ((l + 7) / 8) := List.drop_left' hw
  have hpad := intOfBytes_take_pad (afOctets af) ((l + 7) / 8) a (afOctets_pos af) hk ha hz
  cases af with
  | inet =>
    simp only [afOctets] at *
    have hz4 : 4 + 3 * n - (3 * n + (l + 7) / 8) = 4 - (l + 7) / 8 := by omega
    simp only [luAddr, hc, htake, hdrop, hz4, hpad, afAddr]
    have : a < p32 := by rw [p32_eq]; exact ha
    simp [ipOfInt, this]
  | inet6 =>
    simp only [afOctets] at *
    have hz6 : (128 + 24 * n - (24 * n + l)) / 8 = 16 - (l + 7) / 8 := by omega
    simp only [luAddr, hc, htake, hdrop, hz6, hpad, afAddr]
    have : a < p128 := by rw [p128_eq]; exact ha
    simp [ip6OfInt, this]

/-! ### labeled unicast -/

/-- labeled-unicast routes the property ranges over: a non-empty stack of 20-bit labels, every mask length of
    the family, and the whole NLRI within the one-octet length field.  A last label of 0 is excluded: the shared
    label-stack encoder writes it without bottom-of-stack (known finding `KF_C07_labeled_last_label_zero`). -/
def LuOk (af : AF) (r : LuRoute) : Prop :=
  r.pathId = none ∧ r.labels ≠ [] ∧ (∀ l ∈ r.labels, LabelOk l) ∧ r.labels.getLast? ≠ some 0 ∧
  PfxOk af r.pfx ∧ 24 * (r.labels.length : Int) + r.pfx.len ≤ 255

instance (l : Nat) : Decidable (LabelOk l) := by unfold LabelOk; infer_instance
instance (af : AF) (r : LuRoute) : Decidable (LuOk af r) := by unfold LuOk; infer_instance

theorem encLastLu_ok (l : Nat) (h : LabelOk l) (h0 : l ≠ 0) : encLastLu l = some (be24 (l * 16 + 1)) := by
  simp only [encLastLu, h0, ↓reduceIte]
  exact pack24_last h

theorem lu_route (af : AF) (r : LuRoute) (h : LuOk af r) :
    ∃ e, encLuRoute af r = some e ∧ e ≠ [] ∧ ∀ rest, stepLu af false (e ++ rest) = .ok (r, rest) := by
  obtain ⟨ls, pfx, pid⟩ := r
  obtain ⟨hp, hne, hall, hlast, hpfx, htot⟩ := h
  simp only at hp hne hall hlast hpfx htot
  subst hp
  obtain ⟨a, l, rfl, hl, ha, hz⟩ := hpfx.uniform
  obtain ⟨w, hw, hwl, hparse⟩ := parseLabels_enc encLastLu ls hne hall (by
    intro x hx
    have hx0 : x ≠ 0 := by intro h0; subst h0; exact hlast hx
    exact encLastLu_ok x (hall x (List.mem_of_getLast? hx)) hx0)
  simp only at htot
  have hL : 24 * ls.length + l < 256 := by omega
  refine ⟨be8 (24 * ls.length + l) ++ w ++ (beN (afOctets af) a).take ((l + 7) / 8), ?_, by simp [be8], ?_⟩
  · show encLuWith af (encLabels encLastLu ls) _ = _
    rw [hw]
    unfold encLuWith
    simp only
    rw [prefixHex_eq af a l hl ha]
    simp only [hwl]
    have e1 : (8 * ((3 * ls.length : Nat) : Int) + (l : Int)).toNat = 24 * ls.length + l := by omega
    rw [if_pos ⟨by omega, by omega⟩, e1]
  · intro rest
    simp only [stepLu, Bool.false_eq_true, ↓reduceIte, be8, List.cons_append, List.nil_append,
      List.append_assoc, parseLuOne, u8_toNat hL, hparse]
    rw [luAddr_enc af a l ls.length w rest hwl hl ha hz]
    simp only
    have hc : ceil8 (24 * ls.length + l) = 3 * ls.length + (l + 7) / 8 := by rw [ceil8_eq]; omega
    have hk : (l + 7) / 8 ≤ afOctets af := by omega
    have hdrop : (w ++ ((beN (afOctets af) a).take ((l + 7) / 8) ++ rest)).drop (3 * ls.length + (l + 7) / 8)
        = rest := by
      rw [← List.append_assoc]
      exact List.drop_left' (by simp [hwl, take_beN_length _ _ _ hk])
    rw [hc, hdrop]
    have e2 : ((24 * ls.length + l : Nat) : Int) - 24 * (ls.length : Int) = (l : Int) := by omega
    rw [e2]

/-! ### MPLS VPN -/

/-- VPN routes the property ranges over.  Announced: a non-empty stack of 20-bit labels (label 0 included).
    Withdrawn: the label field is the constant 0x800000, which the decoder reports as `[524288]`. -/
def VpnOk (af : AF) (iswithdraw : Bool) (r : VpnRoute) : Prop :=
  r.pathId = none ∧
  (if iswithdraw then r.labels = [withdrawLabel] else r.labels ≠ [] ∧ ∀ l ∈ r.labels, LabelOk l) ∧
  RdOk r.rd ∧ PfxOk af r.pfx ∧ 8 * (3 * (r.labels.length : Int) + 8) + r.pfx.len ≤ 255

instance (af : AF) (w : Bool) (r : VpnRoute) : Decidable (VpnOk af w r) := by unfold VpnOk; infer_instance

theorem vpnAddr_enc (af : AF) (a l : Nat) (hl : l ≤ 8 * afOctets af) (ha : a < 256 ^ afOctets af)
    (hz : a % 256 ^ (afOctets af - (l + 7) / 8) = 0) :
    vpnAddr af ((beN (afOctets af) a).take ((l + 7) / 8)) = some (afAddr af a) := by
  have hk : (l + 7) / 8 ≤ afOctets af := by omega
  have hlen := take_beN_length (afOctets af) ((l + 7) / 8) a hk
  cases af with
  | inet =>
    simp only [afOctets] at *
    simp only [vpnAddr, hlen, afAddr]
    rw [unpackI_beVal _ (by simp [hlen]; omega), beVal_take_pad 4 _ a hk ha hz]
  | inet6 =>
    simp only [afOctets] at *
    simp only [vpnAddr, hlen, afAddr]
    rw [intOfBytes_take_pad 16 _ a (by decide) hk ha hz]
    have : a < p128 := by rw [p128_eq]; exact ha
    simp [ip6OfInt, this]

theorem vpn_route (af : AF) (wd : Bool) (r : VpnRoute) (h : VpnOk af wd r) :
    ∃ e, encVpnRoute af wd r = some e ∧ e ≠ [] ∧ ∀ rest, stepVpn af wd false (e ++ rest) = .ok (r, rest) := by
  obtain ⟨ls, rd, pfx, pid⟩ := r
  obtain ⟨hp, hlab, hrd, hpfx, htot⟩ := h
  simp only at hp hlab hrd hpfx htot
  subst hp
  obtain ⟨a, l, rfl, hl, ha, hz⟩ := hpfx.uniform
  obtain ⟨rh, hrh, hrhl, hrdp⟩ := parseRd_enc rd hrd
  -- the label field: bytes, their number, and what the decoder makes of them
  have hlabels : ∃ w, (if wd then some withdrawLabelHex else encLabels encLastVpn ls) = some w ∧
      w.length = 3 * ls.length ∧ ∀ X, vpnLabels wd (w ++ X) = ls := by
    cases wd with
    | true =>
      simp only [↓reduceIte] at hlab
      subst hlab
      exact ⟨withdrawLabelHex, rfl, rfl, fun X => rfl⟩
    | false =>
      simp only [Bool.false_eq_true, ↓reduceIte] at hlab
      obtain ⟨w, hw, hwl, hparse⟩ := parseLabels_enc encLastVpn ls hlab.1 hlab.2
        (fun x hx => pack24_last (hlab.2 x (List.mem_of_getLast? hx)))
      exact ⟨w, by simpa using hw, hwl, fun X => by simp [vpnLabels, hparse]⟩
  obtain ⟨w, hw, hwl, hvl⟩ := hlabels
  simp only at htot
  have hL : l + 8 * (3 * ls.length + 8) < 256 := by omega
  have hk : (l + 7) / 8 ≤ afOctets af := by omega
  have hoct := take_beN_length (afOctets af) ((l + 7) / 8) a hk
  refine ⟨be8 (l + 8 * (3 * ls.length + 8)) ++ w ++ rh ++ (beN (afOctets af) a).take ((l + 7) / 8), ?_,
    by simp [be8], ?_⟩
  · show encVpnWith af (if wd then some withdrawLabelHex else encLabels encLastVpn ls) _ = _
    rw [hw]
    unfold encVpnWith
    simp only
    rw [hrh, vpnPrefixHex_eq_lu, prefixHex_eq af a l hl ha]
    simp only [hwl, hrhl]
    have e1 : ((l : Int) + 8 * (((3 * ls.length : Nat) : Int) + ((8 : Nat) : Int))).toNat
        = l + 8 * (3 * ls.length + 8) := by omega
    rw [if_pos ⟨by omega, by omega⟩, e1]
  · intro rest
    simp only [stepVpn, Bool.false_eq_true, ↓reduceIte, be8, List.cons_append, List.nil_append,
      List.append_assoc, parseVpnOne, u8_toNat hL, hvl]
    have hc : ceil8 (l + 8 * (3 * ls.length + 8)) = 3 * ls.length + 8 + (l + 7) / 8 := by
      rw [ceil8_eq]; omega
    have hs1 : slice (w ++ (rh ++ ((beN (afOctets af) a).take ((l + 7) / 8) ++ rest)))
        (3 * ls.length) (8 + 3 * ls.length) = rh := by
      have := slice_mid' (p := w) (x := rh) (s := (beN (afOctets af) a).take ((l + 7) / 8) ++ rest)
        (i := 3 * ls.length) (j := 8 + 3 * ls.length) (by omega) (by omega)
      simpa [List.append_assoc] using this
    have hs2 : slice (w ++ (rh ++ ((beN (afOctets af) a).take ((l + 7) / 8) ++ rest)))
        (8 + 3 * ls.length) (3 * ls.length + 8 + (l + 7) / 8) = (beN (afOctets af) a).take ((l + 7) / 8) := by
      have := slice_mid' (p := w ++ rh) (x := (beN (afOctets af) a).take ((l + 7) / 8)) (s := rest)
        (i := 8 + 3 * ls.length) (j := 3 * ls.length + 8 + (l + 7) / 8) (by simp; omega) (by simp; omega)
      simpa [List.append_assoc] using this
    have hdrop : (w ++ (rh ++ ((beN (afOctets af) a).take ((l + 7) / 8) ++ rest))).drop
        (3 * ls.length + 8 + (l + 7) / 8) = rest := by
      rw [← List.append_assoc, ← List.append_assoc]
      exact List.drop_left' (by simp [hwl, hrhl, hoct]; omega)
    rw [hc, hs1, hs2, hrdp, vpnAddr_enc af a l hl ha hz, hdrop]
    simp only
    have e2 : ((l + 8 * (3 * ls.length + 8) : Nat) : Int) - 8 * (3 * (ls.length : Int) + 8) = (l : Int) := by
      omega
    rw [e2]

/-! ### the attribute wrappers -/

theorem attrWrap_ok (code : Nat) (v : Bytes) (h : v.length < 65536) :
    attrWrap code v = .ok ([0x90, u8 code] ++ be16 v.length ++ v) := by
  simp [attrWrap, h]

theorem parseMpReach_value (ap : Bool) (afi safi : Nat) (nh nlri : Bytes)
    (hafi : afi < 65536) (hsafi : safi < 256) (hn : nh.length < 256) :
    parseMpReach ap (reachValue afi safi nh.length nh nlri) = parseReachBody afi safi ap nh nlri := by
  have h1 : (u8 (afi / 256)).toNat * 256 + (u8 afi).toNat = afi := by
    simp only [u8_toNat_mod]; omega
  simp only [reachValue, be16, be8, List.cons_append, List.nil_append, parseMpReach, h1, u8_toNat hsafi,
    u8_toNat hn, List.append_assoc]
  congr 1
  · exact List.take_left' rfl
  · have : nh ++ (0 : UInt8) :: nlri = (nh ++ [0]) ++ nlri := by simp
    rw [this]
    exact List.drop_left' (by simp)

theorem parseMpUnreach_value (ap : Bool) (afi safi : Nat) (nlri : Bytes) (hafi : afi < 65536) (hsafi : safi < 256) :
    parseMpUnreach ap (unreachValue afi safi nlri) = parseUnreachBody afi safi ap nlri := by
  have h1 : (u8 (afi / 256)).toNat * 256 + (u8 afi).toNat = afi := by
    simp only [u8_toNat_mod]; omega
  simp only [unreachValue, be16, be8, List.cons_append, List.nil_append, parseMpUnreach, h1, u8_toNat hsafi]

theorem afi_lt (af : AF) : af.afi < 65536 := by cases af <;> decide
theorem afOf_afi (af : AF) : afOf af.afi = some af := by cases af <;> rfl
theorem afi_ne (af : AF) : ¬ (af.afi = 2 ∧ safiLabel = safiUnicast) := by simp [safiLabel, safiUnicast]

/-- the next hop dictionary of the VPN families: the RD text must be of the `asn:an` form with a 2-octet asn -/
def NhRdOk : Rd → Prop
  | .asForm asn an => asn < 65536 ∧ an < p32
  | _ => False

instance (rd : Rd) : Decidable (NhRdOk rd) := by cases rd <;> unfold NhRdOk <;> infer_instance

theorem vpnNexthop_enc (rd : Rd) (a : Ip) (hrd : NhRdOk rd) (ha : IpOk a) :
    ∃ nh, constructVpnNexthop rd a = some nh ∧ nh.length < 256 ∧ vpnNexthop nh = .ok (rd, a) := by
  cases rd with
  | raw b => exact absurd hrd (by simp [NhRdOk])
  | ipForm x y => exact absurd hrd (by simp [NhRdOk])
  | asForm asn an =>
    obtain ⟨h1, h2⟩ := hrd
    refine ⟨be16 0 ++ be16 asn ++ be32 an ++ a.packed, by simp [constructVpnNexthop, h1, h2], ?_, ?_⟩
    · simp [packed_length]; cases a <;> simp [Ip.width]
    · have hrdp : parseRd (be16 0 ++ be16 asn ++ be32 an) = some (.asForm asn an) := by
        obtain ⟨w, hw, _, hp⟩ := parseRd_enc (.asForm asn an) (Or.inl ⟨by omega, h2⟩)
        simp only [constructRd, show asn ≤ 65535 by omega, ↓reduceIte, h2, Option.some.injEq] at hw
        rw [hw]; exact hp
      have ht : (be16 0 ++ be16 asn ++ be32 an ++ a.packed).take 8 = be16 0 ++ be16 asn ++ be32 an :=
        List.take_left' (by simp)
      have hd : (be16 0 ++ be16 asn ++ be32 an ++ a.packed).drop 8 = a.packed :=
        List.drop_left' (by simp)
      simp only [vpnNexthop, ht, hd, hrdp, nhAddr_packed a ha]

/-- an IPv6 address text (next hops of IPv6 unicast: the length octet says 16 per address) -/
def IsV6 : Ip → Prop
  | .v6 n => n < p128
  | .v4 _ => False

instance (a : Ip) : Decidable (IsV6 a) := by cases a <;> unfold IsV6 <;> infer_instance

theorem IsV6.ok {a : Ip} (h : IsV6 a) : IpOk a ∧ a.packed.length = 16 := by
  cases a with
  | v4 n => exact absurd h (by simp [IsV6])
  | v6 n => exact ⟨h, by simp [Ip.packed]⟩

theorem u6Nexthop_enc (a : Ip) (ha : IsV6 a) : u6Nexthop a.packed = .ok (a, none) := by
  obtain ⟨hok, hlen⟩ := ha.ok
  have ht : a.packed.take 16 = a.packed := List.take_of_length_le (by omega)
  simp only [u6Nexthop, ht, nhAddr_packed a hok, hlen]
  simp

theorem u6Nexthop_enc_ll (a l : Ip) (ha : IsV6 a) (hl : IsV6 l) :
    u6Nexthop (a.packed ++ l.packed) = .ok (a, some l) := by
  obtain ⟨hok, hlen⟩ := ha.ok
  obtain ⟨hokl, hlenl⟩ := hl.ok
  have ht : (a.packed ++ l.packed).take 16 = a.packed := List.take_left' hlen
  have hd : (a.packed ++ l.packed).drop 16 = l.packed := List.drop_left' hlen
  simp only [u6Nexthop, ht, hd, nhAddr_packed a hok, nhAddr_packed l hokl, List.length_append, hlen, hlenl]
  simp

theorem oneMoreDefault_nil_iff (xs : List U6Route) :
    oneMoreDefault xs [] ↔ ∃ y, xs = [y] ∧ y.pfx.len = 0 := by
  unfold oneMoreDefault
  split
  · rename_i y
    constructor
    · intro h; exact ⟨y, rfl, h.1⟩
    · rintro ⟨z, hz, hz0⟩
      simp only [List.cons.injEq, and_true] at hz
      subst hz; exact ⟨hz0, rfl⟩
  · rename_i hne
    constructor
    · intro h; exact absurd h id
    · rintro ⟨z, hz, _⟩
      exact absurd hz (hne z)

end Yabgp.Mp
