/-
  The "never stuck" invariant of C02, on the control skeleton (`Lemmas/Core.lean`).
-/
import Yabgp.Lemmas.Core

namespace Yabgp
namespace Core

def InSess (st : St) : Prop := st = .openSent ∨ st = .openConfirm ∨ st = .established

/-- connection `i` exists, is up and has not been closed by us -/
def Up (c : Core) (i : Nat) : Prop := i < c.conns.length ∧ c.conn i = (.connected, false)

/-- some connection was closed by us and its connectionLost is still owed by the reactor -/
def Owed (c : Core) : Prop := ∃ i, i < c.conns.length ∧ c.conn i = (.closing, true)

def Fresh (c : Core) : Prop := ∀ j, (c.conn j).1 = .connecting → (c.conn j).2 = false

structure Heal (c : Core) : Prop where
  noActive : c.st ≠ .active
  sess : InSess c.st → ∃ i, c.proto = some i ∧ c.estab = some i ∧ Up c i
  conn : c.allow = true → c.st = .connect → c.retry = true ∨ ∃ i, c.proto = some i ∧ Up c i
  idle : c.allow = true → c.st = .idle → c.idleHold = true ∨ Owed c
  fresh : Fresh c

/-! ### connections under list updates -/

theorem getD_set (l : List (Phase × Bool)) (i j : Nat) (x d : Phase × Bool) :
    (l.set i x).getD j d = if i = j ∧ i < l.length then x else l.getD j d := by
  simp only [List.getD_eq_getElem?_getD, List.getElem?_set]
  by_cases h : i = j
  · subst h
    by_cases h2 : i < l.length <;> simp [h2]
  · simp [h]

theorem getD_append_one (l : List (Phase × Bool)) (j : Nat) (x d : Phase × Bool) :
    (l ++ [x]).getD j d = if j < l.length then l.getD j d else if j = l.length then x else d := by
  simp only [List.getD_eq_getElem?_getD]
  by_cases h : j < l.length
  · simp [h, List.getElem?_append_left h]
  · rw [if_neg h, List.getElem?_append_right (by omega)]
    by_cases h2 : j = l.length
    · subst h2; simp
    · rw [if_neg h2]
      have : j - l.length ≠ 0 := by omega
      cases hk : j - l.length with
      | zero => omega
      | succ k => simp

theorem conn_closeOn (c : Core) (i j : Nat) :
    (c.closeOn i).conn j =
      if i = j ∧ i < c.conns.length ∧ ((c.conn i).1 = .connected ∨ (c.conn i).1 = .closing) then (.closing, true) else c.conn j := by
  unfold closeOn
  split
  · rename_i h
    have e : ({ c with conns := c.conns.set i (.closing, true) } : Core).conn j =
        if i = j ∧ i < c.conns.length then (.closing, true) else c.conn j := by
      simp only [conn, getD_set]
    rw [e]
    by_cases h2 : i = j ∧ i < c.conns.length
    · rw [if_pos h2, if_pos ⟨h2.1, h2.2, h⟩]
    · rw [if_neg h2, if_neg (fun hh => h2 ⟨hh.1, hh.2.1⟩)]
  · rename_i h
    rw [if_neg (fun hh => h hh.2.2)]

theorem len_closeOn (c : Core) (i : Nat) : (c.closeOn i).conns.length = c.conns.length := by
  unfold closeOn; split <;> simp

theorem conn_setPhase (c : Core) (i j : Nat) (p : Phase) :
    (c.setPhase i p).conn j = if i = j ∧ i < c.conns.length then (p, (c.conn i).2) else c.conn j := by
  simp only [setPhase, conn, getD_set]

theorem len_setPhase (c : Core) (i : Nat) (p : Phase) : (c.setPhase i p).conns.length = c.conns.length := by
  simp [setPhase]

/-! ### Fresh -/

theorem Fresh.of_conns {c c' : Core} (h : Fresh c) (hc : c'.conns = c.conns) : Fresh c' := by
  intro j; simp only [conn, hc]; exact h j

theorem fresh_closeOn {c : Core} (h : Fresh c) (i : Nat) : Fresh (c.closeOn i) := by
  intro j hj
  rw [conn_closeOn] at hj ⊢
  split at hj
  · cases hj
  · rename_i hh; rw [if_neg hh]; exact h j hj

theorem fresh_closeConn {c : Core} (h : Fresh c) : Fresh c.closeConn := by
  unfold closeConn; split
  · exact h
  · exact fresh_closeOn h _

theorem fresh_setPhase {c : Core} (h : Fresh c) (i : Nat) (p : Phase) (hp : p ≠ .connecting) : Fresh (c.setPhase i p) := by
  intro j hj
  rw [conn_setPhase] at hj ⊢
  split at hj
  · exact absurd hj hp
  · rename_i hh; rw [if_neg hh]; exact h j hj

/-! ### `abortPending`: only the given-up attempt changes (to `closed`) -/

theorem abortPending_scalars (c : Core) :
    c.abortPending.st = c.st ∧ c.abortPending.retry = c.retry ∧ c.abortPending.idleHold = c.idleHold ∧
    c.abortPending.allow = c.allow ∧ c.abortPending.proto = c.proto ∧ c.abortPending.estab = c.estab ∧
    c.abortPending.conns.length = c.conns.length ∧ c.abortPending.pending = none := by
  unfold abortPending
  split
  · rename_i h; simp [h]
  · split <;> simp [setPhase, withPending]

@[simp] theorem abortPending_st (c : Core) : c.abortPending.st = c.st := (abortPending_scalars c).1
@[simp] theorem abortPending_retry (c : Core) : c.abortPending.retry = c.retry := (abortPending_scalars c).2.1
@[simp] theorem abortPending_idleHold (c : Core) : c.abortPending.idleHold = c.idleHold := (abortPending_scalars c).2.2.1
@[simp] theorem abortPending_allow (c : Core) : c.abortPending.allow = c.allow := (abortPending_scalars c).2.2.2.1
@[simp] theorem abortPending_proto (c : Core) : c.abortPending.proto = c.proto := (abortPending_scalars c).2.2.2.2.1
@[simp] theorem abortPending_estab (c : Core) : c.abortPending.estab = c.estab := (abortPending_scalars c).2.2.2.2.2.1
@[simp] theorem len_abortPending (c : Core) : c.abortPending.conns.length = c.conns.length := (abortPending_scalars c).2.2.2.2.2.2.1
@[simp] theorem abortPending_pending (c : Core) : c.abortPending.pending = none := (abortPending_scalars c).2.2.2.2.2.2.2

/-- a connection is either untouched by the abort, or it was the pending attempt and is closed now -/
theorem conn_abortPending (c : Core) (j : Nat) :
    c.abortPending.conn j = c.conn j ∨
    (c.abortPending.conn j = (.closed, (c.conn j).2) ∧ (c.conn j).1 = .connecting ∧ c.pending = some j) := by
  unfold abortPending
  split
  · exact Or.inl rfl
  · rename_i k hk
    split
    · rename_i hph
      have e : ((c.withPending none).setPhase k .closed).conn j =
          if k = j ∧ k < c.conns.length then (.closed, (c.conn k).2) else c.conn j := by
        have := conn_setPhase (c.withPending none) k j .closed
        simpa [withPending, conn] using this
      rw [e]
      by_cases h : k = j ∧ k < c.conns.length
      · rw [if_pos h]; obtain ⟨rfl, _⟩ := h
        exact Or.inr ⟨rfl, hph, hk⟩
      · rw [if_neg h]; exact Or.inl rfl
    · exact Or.inl rfl

theorem conn_abortPending_of_ne {c : Core} {j : Nat} (h : (c.conn j).1 ≠ .connecting) : c.abortPending.conn j = c.conn j := by
  rcases conn_abortPending c j with h1 | ⟨_, h2, _⟩
  · exact h1
  · exact absurd h2 h

theorem fresh_abortPending {c : Core} (h : Fresh c) : Fresh c.abortPending := by
  intro j hj
  rcases conn_abortPending c j with h1 | ⟨h1, _, _⟩
  · rw [h1] at hj ⊢; exact h j hj
  · rw [h1] at hj; cases hj

theorem up_abortPending {c : Core} {k : Nat} (h : Up c k) : Up c.abortPending k :=
  ⟨by rw [len_abortPending]; exact h.1, by rw [conn_abortPending_of_ne (by rw [h.2]; simp)]; exact h.2⟩

theorem owed_abortPending {c : Core} (h : Owed c) : Owed c.abortPending := by
  obtain ⟨k, hk, hc⟩ := h
  exact ⟨k, by rw [len_abortPending]; exact hk, by rw [conn_abortPending_of_ne (by rw [hc]; simp)]; exact hc⟩

theorem fresh_connectTcp {c : Core} (h : Fresh c) : Fresh c.connectTcp := by
  have h' := fresh_abortPending h
  unfold connectTcp
  split
  · intro j hj
    simp only [conn, getD_append_one] at hj ⊢
    split
    · rename_i hl; rw [if_pos hl] at hj; exact h' j hj
    · split <;> rfl
  · exact h'

/-! ### scalar fields under the closing helpers -/

@[simp] theorem closeOn_st (c : Core) (i : Nat) : (c.closeOn i).st = c.st := by unfold closeOn; split <;> rfl
@[simp] theorem closeOn_retry (c : Core) (i : Nat) : (c.closeOn i).retry = c.retry := by unfold closeOn; split <;> rfl
@[simp] theorem closeOn_idleHold (c : Core) (i : Nat) : (c.closeOn i).idleHold = c.idleHold := by unfold closeOn; split <;> rfl
@[simp] theorem closeOn_allow (c : Core) (i : Nat) : (c.closeOn i).allow = c.allow := by unfold closeOn; split <;> rfl
@[simp] theorem closeOn_proto (c : Core) (i : Nat) : (c.closeOn i).proto = c.proto := by unfold closeOn; split <;> rfl
@[simp] theorem closeOn_estab (c : Core) (i : Nat) : (c.closeOn i).estab = c.estab := by unfold closeOn; split <;> rfl
@[simp] theorem closeConn_st (c : Core) : c.closeConn.st = c.st := by unfold closeConn; split <;> simp
@[simp] theorem closeConn_retry (c : Core) : c.closeConn.retry = c.retry := by unfold closeConn; split <;> simp
@[simp] theorem closeConn_idleHold (c : Core) : c.closeConn.idleHold = c.idleHold := by unfold closeConn; split <;> simp
@[simp] theorem closeConn_allow (c : Core) : c.closeConn.allow = c.allow := by unfold closeConn; split <;> simp
@[simp] theorem closeConn_proto (c : Core) : c.closeConn.proto = c.proto := by unfold closeConn; split <;> simp
@[simp] theorem closeConn_estab (c : Core) : c.closeConn.estab = c.estab := by unfold closeConn; split <;> simp
theorem len_closeConn (c : Core) : c.closeConn.conns.length = c.conns.length := by
  unfold closeConn; split
  · rfl
  · exact len_closeOn _ _

/-! ### Up and Owed under the helpers -/

theorem Up.of_conns {c c' : Core} {i : Nat} (h : Up c i) (hc : c'.conns = c.conns) : Up c' i := by
  unfold Up conn at *; rw [hc]; exact h

theorem Owed.of_conns {c c' : Core} (h : Owed c) (hc : c'.conns = c.conns) : Owed c' := by
  unfold Owed conn at *; rw [hc]; exact h

theorem owed_closeOn {c : Core} (h : Owed c) (i : Nat) : Owed (c.closeOn i) := by
  obtain ⟨k, hk, hc⟩ := h
  refine ⟨k, by rw [len_closeOn]; exact hk, ?_⟩
  rw [conn_closeOn]
  split
  · rfl
  · exact hc

theorem owed_of_up_closeOn {c : Core} {i : Nat} (h : Up c i) : Owed (c.closeOn i) := by
  refine ⟨i, by rw [len_closeOn]; exact h.1, ?_⟩
  rw [conn_closeOn, if_pos ⟨rfl, h.1, Or.inl (by rw [h.2])⟩]

theorem owed_closeConn {c : Core} (h : Owed c) : Owed c.closeConn := by
  unfold closeConn; split
  · exact h
  · exact owed_closeOn h _

theorem up_closeOn_other {c : Core} {k : Nat} (h : Up c k) {i : Nat} (hne : i ≠ k) : Up (c.closeOn i) k := by
  refine ⟨by rw [len_closeOn]; exact h.1, ?_⟩
  rw [conn_closeOn, if_neg (fun hh => hne hh.1)]
  exact h.2

theorem up_setPhase_other {c : Core} {k : Nat} (h : Up c k) {j : Nat} (hne : j ≠ k) (p : Phase) : Up (c.setPhase j p) k := by
  refine ⟨by rw [len_setPhase]; exact h.1, ?_⟩
  rw [conn_setPhase, if_neg (fun hh => hne hh.1)]
  exact h.2

theorem owed_setPhase_other {c : Core} (h : Owed c) (j : Nat) (p : Phase)
    (hne : c.conn j ≠ (.closing, true)) : Owed (c.setPhase j p) := by
  obtain ⟨k, hk, hc⟩ := h
  have : j ≠ k := by intro e; subst e; exact hne hc
  refine ⟨k, by rw [len_setPhase]; exact hk, ?_⟩
  rw [conn_setPhase, if_neg (fun hh => this hh.1)]
  exact hc

theorem conn_connectTcp_lt {c : Core} {k : Nat} (hk : k < c.conns.length) : c.connectTcp.conn k = c.abortPending.conn k := by
  unfold connectTcp
  split
  · simp only [conn, getD_append_one, len_abortPending, if_pos hk]
  · rfl

theorem len_connectTcp_ge (c : Core) : c.conns.length ≤ c.connectTcp.conns.length := by
  unfold connectTcp; split <;> simp

theorem up_connectTcp {c : Core} {k : Nat} (h : Up c k) : Up c.connectTcp k :=
  ⟨Nat.lt_of_lt_of_le h.1 (len_connectTcp_ge c), by rw [conn_connectTcp_lt h.1]; exact (up_abortPending h).2⟩

theorem owed_connectTcp {c : Core} (h : Owed c) : Owed c.connectTcp := by
  obtain ⟨k, hk, hc⟩ := h
  refine ⟨k, Nat.lt_of_lt_of_le hk (len_connectTcp_ge c), ?_⟩
  rw [conn_connectTcp_lt hk, conn_abortPending_of_ne (by rw [hc]; simp)]; exact hc

@[simp] theorem connectTcp_st (c : Core) : c.connectTcp.st = c.st := by unfold connectTcp; split <;> simp
@[simp] theorem connectTcp_retry (c : Core) : c.connectTcp.retry = c.retry := by unfold connectTcp; split <;> simp
@[simp] theorem connectTcp_idleHold (c : Core) : c.connectTcp.idleHold = c.idleHold := by unfold connectTcp; split <;> simp
@[simp] theorem connectTcp_allow (c : Core) : c.connectTcp.allow = c.allow := by unfold connectTcp; split <;> simp
@[simp] theorem connectTcp_proto (c : Core) : c.connectTcp.proto = c.proto := by unfold connectTcp; split <;> simp
@[simp] theorem connectTcp_estab (c : Core) : c.connectTcp.estab = c.estab := by unfold connectTcp; split <;> simp

/-! ### building the invariant in the three resting situations -/

theorem Heal.of_idle_armed {c : Core} (hs : c.st = .idle) (hi : c.idleHold = true) (hf : Fresh c) : Heal c :=
  ⟨by simp [hs], by intro h; simp [InSess, hs] at h, by intro _ h; simp [hs] at h, fun _ _ => Or.inl hi, hf⟩

theorem Heal.of_idle_owed {c : Core} (hs : c.st = .idle) (ho : Owed c) (hf : Fresh c) : Heal c :=
  ⟨by simp [hs], by intro h; simp [InSess, hs] at h, by intro _ h; simp [hs] at h, fun _ _ => Or.inr ho, hf⟩

theorem Heal.of_idle_stopped {c : Core} (hs : c.st = .idle) (ha : c.allow = false) (hf : Fresh c) : Heal c :=
  ⟨by simp [hs], by intro h; simp [InSess, hs] at h, by intro _ h; simp [hs] at h, by intro h; simp [ha] at h, hf⟩

theorem Heal.of_connect_retry {c : Core} (hs : c.st = .connect) (hr : c.retry = true) (hf : Fresh c) : Heal c :=
  ⟨by simp [hs], by intro h; simp [InSess, hs] at h, fun _ _ => Or.inl hr, by intro _ h; simp [hs] at h, hf⟩

theorem heal_errorClose {c : Core} (hf : Fresh c) : Heal c.errorClose := by
  apply Heal.of_idle_armed
  · rfl
  · simp [errorClose, withSt, withTm]
  · unfold errorClose
    exact (fresh_closeConn (hf.of_conns (c' := c.withTm false true) rfl)).of_conns rfl

/-- moving inside the session states keeps the invariant when the references and the connections stay -/
theorem Heal.of_sess {c c' : Core} (h : Heal c) (hs : InSess c.st) (hs' : InSess c'.st) (hp : c'.proto = c.proto)
    (he : c'.estab = c.estab) (hc : c'.conns = c.conns) : Heal c' := by
  obtain ⟨i, h1, h2, h3⟩ := h.sess hs
  refine ⟨?_, fun _ => ⟨i, hp.trans h1, he.trans h2, h3.of_conns hc⟩, ?_, ?_, h.fresh.of_conns hc⟩
  · rcases hs' with e | e | e <;> simp [e]
  · intro _ e; rcases hs' with e' | e' | e' <;> simp [e'] at e
  · intro _ e; rcases hs' with e' | e' | e' <;> simp [e'] at e

/-- same FSM state, flags, references and connections: same invariant (the retry flag may change outside Connect,
    the idle-hold flag outside Idle) -/
theorem Heal.of_same {c c' : Core} (h : Heal c) (hst : c'.st = c.st) (ha : c'.allow = c.allow) (hp : c'.proto = c.proto)
    (he : c'.estab = c.estab) (hc : c'.conns = c.conns)
    (hr : c.st = .connect → c'.retry = c.retry) (hi : c.st = .idle → c'.idleHold = c.idleHold) : Heal c' := by
  refine ⟨by rw [hst]; exact h.noActive, ?_, ?_, ?_, h.fresh.of_conns hc⟩
  · intro hs; rw [hst] at hs
    obtain ⟨i, h1, h2, h3⟩ := h.sess hs
    exact ⟨i, hp.trans h1, he.trans h2, h3.of_conns hc⟩
  · intro hal hs; rw [hst] at hs; rw [ha] at hal
    rcases h.conn hal hs with h1 | ⟨i, h1, h2⟩
    · exact Or.inl ((hr hs).trans h1)
    · exact Or.inr ⟨i, hp.trans h1, h2.of_conns hc⟩
  · intro hal hs; rw [hst] at hs; rw [ha] at hal
    rcases h.idle hal hs with h1 | h1
    · exact Or.inl ((hi hs).trans h1)
    · exact Or.inr (h1.of_conns hc)

theorem heal_frameOutcome {c : Core} (h : Heal c) : ∀ o ∈ c.frameOutcomes, Heal o := by
  intro o ho
  simp only [frameOutcomes, List.mem_cons, List.not_mem_nil, or_false] at ho
  have herr := heal_errorClose h.fresh
  rcases ho with rfl | rfl | rfl | rfl | rfl | rfl | rfl
  · exact h
  · exact herr
  · unfold fsmOpenReceived
    cases hs : c.st <;> simp only
    · exact h
    · exact herr
    · exact herr
    · exact h.of_sess (Or.inl hs) (Or.inr (Or.inl rfl)) rfl rfl rfl
    · exact herr
    · exact herr
  · unfold fsmKeepaliveReceived
    cases hs : c.st <;> simp only
    · exact h
    · exact herr
    · exact herr
    · exact herr
    · exact h.of_sess (Or.inr (Or.inl hs)) (Or.inr (Or.inr rfl)) rfl rfl rfl
    · exact h
  · unfold fsmUpdateReceived
    cases hs : c.st <;> simp only
    · exact h
    · exact herr
    · exact herr
    · exact herr
    · exact herr
    · exact h
  · -- NOTIFICATION "unsupported version": no error close, the tracked connection is closed and its loss is awaited
    unfold fsmNotificationReceived
    simp only [↓reduceIte]
    have hver : InSess c.st → Heal (((c.setRetry false).closeConn).withSt .idle) := by
      intro hs
      obtain ⟨i, h1, _, h3⟩ := h.sess hs
      apply Heal.of_idle_owed rfl
      · have : (c.setRetry false).closeConn = (c.setRetry false).closeOn i := by
          unfold closeConn; simp only [setRetry, h1]
        apply Owed.of_conns (c := (c.setRetry false).closeOn i) _ (by rw [this]; rfl)
        exact owed_of_up_closeOn (h3.of_conns rfl)
      · exact (fresh_closeConn (h.fresh.of_conns (c' := c.setRetry false) rfl)).of_conns rfl
    cases hs : c.st <;> simp only
    · exact h
    · exact herr
    · exact herr
    · exact hver (Or.inl hs)
    · exact hver (Or.inr (Or.inl hs))
    · exact herr
  · unfold fsmNotificationReceived
    simp only [Bool.false_eq_true, ↓reduceIte]
    split
    · exact herr
    · exact h

theorem heal_autoStart {c : Core} (h : Heal c) (b : Bool) : Heal (c.autoStart b) := by
  unfold autoStart
  split
  · rename_i hs
    split
    · exact Heal.of_idle_armed hs rfl (h.fresh.of_conns rfl)
    · split
      · apply Heal.of_connect_retry
        · simp [withSt]
        · simp [withSt, setRetry]
        · exact fresh_connectTcp (h.fresh.of_conns rfl)
      · exact h
  · exact h

/-- BGPPeering.connection_closed: whatever it finds, it leaves the invariant - provided it held before unless the state was Idle -/
theorem heal_connectionClosed {c : Core} (p : Option Nat) (hf : Fresh c) (hne : c.st ≠ .idle → Heal c) :
    Heal (c.connectionClosed p) := by
  have hd : (c.dropEstab p).st = .idle ∧ Fresh (c.dropEstab p) ∨ c.dropEstab p = c := by
    unfold dropEstab
    cases p with
    | none => exact Or.inr rfl
    | some q =>
      simp only
      split
      · exact Or.inl ⟨rfl, hf.of_conns rfl⟩
      · exact Or.inr rfl
  unfold connectionClosed
  rcases hd with ⟨hs, hf'⟩ | he
  · split
    · unfold autoStart; rw [if_pos hs]; simp only [↓reduceIte]
      exact Heal.of_idle_armed hs rfl (hf'.of_conns rfl)
    · rename_i ha
      exact Heal.of_idle_stopped hs (by simpa using ha) hf'
  · rw [he]
    by_cases hs : c.st = .idle
    · split
      · unfold autoStart; rw [if_pos hs]; simp only [↓reduceIte]
        exact Heal.of_idle_armed hs rfl (hf.of_conns rfl)
      · rename_i ha
        exact Heal.of_idle_stopped hs (by simpa using ha) hf
    · split
      · exact heal_autoStart (hne hs) true
      · exact hne hs

theorem heal_connectionFailed {c : Core} (hna : c.st ≠ .active)
    (hpe : InSess c.st → ∃ i, c.proto = some i ∧ c.estab = some i) (hf : Fresh c) (hidle : c.st = .idle → Heal c) :
    Heal c.connectionFailed := by
  unfold connectionFailed
  cases hs : c.st <;> simp only
  · exact hidle hs
  · apply heal_connectionClosed
    · exact (fresh_closeConn (hf.of_conns (c' := c.setRetry false) rfl)).of_conns rfl
    · intro h; exact absurd rfl h
  · exact absurd hs hna
  · obtain ⟨i, h1, h2⟩ := hpe (Or.inl hs)
    -- estab_protocol is the tracked protocol: connection_closed drops it and the state becomes Idle
    have hfX : Fresh (((c.closeConn).setRetry true).withSt .active) := (fresh_closeConn hf).of_conns rfl
    unfold connectionClosed
    have hd : (((c.closeConn).setRetry true).withSt .active).dropEstab c.proto =
        (((((c.closeConn).setRetry true).withSt .active).withEstab none).withSt .idle) := by
      rw [h1]; unfold dropEstab; simp only [withSt, setRetry, closeConn_estab, h2, ↓reduceIte]
    rw [hd]
    split
    · unfold autoStart; simp only [withSt, ↓reduceIte]
      exact Heal.of_idle_armed rfl rfl (hfX.of_conns rfl)
    · rename_i ha
      exact Heal.of_idle_stopped rfl (by simpa using ha) (hfX.of_conns rfl)
  · exact heal_errorClose hf
  · exact heal_errorClose hf

theorem heal_setPhase_closed {c : Core} (h : Heal c) (j : Nat) (hj : ¬ Up c j) (hne : c.conn j ≠ (.closing, true)) :
    Heal (c.setPhase j .closed) := by
  have hne' : ∀ k, Up c k → j ≠ k := fun k hk e => hj (e ▸ hk)
  refine ⟨h.noActive, ?_, ?_, ?_, fresh_setPhase h.fresh j .closed (by simp)⟩
  · intro hs
    obtain ⟨i, h1, h2, h3⟩ := h.sess hs
    exact ⟨i, h1, h2, up_setPhase_other h3 (hne' i h3) _⟩
  · intro ha hs
    rcases h.conn ha hs with h1 | ⟨i, h1, h3⟩
    · exact Or.inl h1
    · exact Or.inr ⟨i, h1, up_setPhase_other h3 (hne' i h3) _⟩
  · intro ha hs
    rcases h.idle ha hs with h1 | h1
    · exact Or.inl h1
    · exact Or.inr (owed_setPhase_other h1 j _ hne)

theorem heal_stepOutcome {c : Core} (h : Heal c) (e : Ev) (hen : enabledC c e) : ∀ o ∈ c.stepOutcome e, Heal o := by
  intro o ho
  cases e with
  | boot =>
    simp only [stepOutcome, List.mem_singleton] at ho; subst ho
    exact heal_autoStart h false
  | manualStart =>
    simp only [stepOutcome, List.mem_singleton] at ho; subst ho
    unfold manualStart
    cases hs : c.st <;> simp only
    · apply Heal.of_connect_retry
      · simp [withSt]
      · simp [withSt, setRetry]
      · exact fresh_connectTcp (h.fresh.of_conns rfl)
    all_goals exact h
  | manualStop =>
    simp only [stepOutcome, List.mem_singleton] at ho; subst ho
    apply Heal.of_idle_stopped
    · simp [manualStop, withSt]
    · simp [manualStop, withSt, withAllow]
    · exact fresh_abortPending ((fresh_closeConn (h.fresh.of_conns (c' := c.withTm false false) rfl)).of_conns rfl)
  | connOk i =>
    obtain ⟨hl, hph⟩ := hen
    have hup : ∀ (c' : Core), c'.conns = (c.setPhase i .connected).conns → Up c' i := by
      intro c' hc
      refine ⟨by rw [hc, len_setPhase]; exact hl, ?_⟩
      have : c'.conn i = (c.setPhase i .connected).conn i := by simp only [conn, hc]
      rw [this, conn_setPhase, if_pos ⟨rfl, hl⟩, h.fresh i hph]
    have hfr : Fresh (c.setPhase i .connected) := fresh_setPhase h.fresh i .connected (by simp)
    simp only [stepOutcome, List.mem_cons, List.not_mem_nil, or_false] at ho
    rcases ho with rfl | rfl
    · simp only [connOk, ↓reduceIte]
      refine ⟨by simp [withSt], fun _ => ⟨i, rfl, rfl, hup _ rfl⟩, ?_, ?_, hfr.of_conns rfl⟩
      · intro _ e; simp [withSt] at e
      · intro _ e; simp [withSt] at e
    · simp only [connOk, Bool.false_eq_true, ↓reduceIte]
      refine ⟨by simp [withSt, setIdleHold, setRetry, withEstab], ?_, fun _ _ => Or.inr ⟨i, rfl, hup _ rfl⟩, ?_, hfr.of_conns rfl⟩
      · intro e; simp [InSess, withSt, setIdleHold, setRetry, withEstab] at e
      · intro _ e; simp [withSt, setIdleHold, setRetry, withEstab] at e
  | connFail i =>
    obtain ⟨hl, hph⟩ := hen
    simp only [stepOutcome, List.mem_singleton] at ho; subst ho
    have hc' : Heal (c.setPhase i .closed) :=
      heal_setPhase_closed h i (fun hu => by rw [hu.2] at hph; cases hph) (fun e => by rw [e] at hph; cases hph)
    unfold connFail
    split
    · have hc'' : Heal ((c.withPending none).setPhase i .closed) := hc'.of_same rfl rfl rfl rfl rfl (fun _ => rfl) (fun _ => rfl)
      apply heal_connectionFailed hc''.noActive
      · intro hs
        obtain ⟨k, h1, h2, _⟩ := hc''.sess hs
        exact ⟨k, h1, h2⟩
      · exact hc''.fresh
      · exact fun _ => hc''
    · exact hc'
  | lost i =>
    simp only [stepOutcome, List.mem_singleton] at ho; subst ho
    unfold connLost
    split
    · rename_i hd
      -- we had closed it ourselves: connection_closed(pro)
      apply heal_connectionClosed
      · exact fresh_setPhase h.fresh i .closed (by simp)
      · intro hs
        have hs' : c.st ≠ .idle := hs
        have hnu : ∀ k, Up c k → i ≠ k := by
          intro k hk e; subst e; rw [hk.2] at hd; cases hd
        refine ⟨h.noActive, ?_, ?_, fun _ e => absurd e hs', fresh_setPhase h.fresh i .closed (by simp)⟩
        · intro hss
          obtain ⟨k, h1, h2, h3⟩ := h.sess hss
          exact ⟨k, h1, h2, up_setPhase_other h3 (hnu k h3) _⟩
        · intro ha hss
          rcases h.conn ha hss with h1 | ⟨k, h1, h3⟩
          · exact Or.inl h1
          · exact Or.inr ⟨k, h1, up_setPhase_other h3 (hnu k h3) _⟩
    · rename_i hd
      have hd' : (c.conn i).2 = false := by simpa using hd
      -- the peer (or the network) closed it
      have hidle : c.st = .idle → Heal (c.setPhase i .closed) := by
        intro hs
        refine ⟨by simp [setPhase, hs], ?_, ?_, ?_, fresh_setPhase h.fresh i .closed (by simp)⟩
        · intro e; simp [InSess, setPhase, hs] at e
        · intro _ e; simp [setPhase, hs] at e
        · intro ha _
          rcases h.idle ha hs with h1 | h1
          · exact Or.inl h1
          · exact Or.inr (owed_setPhase_other h1 i _ (fun e => by rw [e] at hd'; cases hd'))
      apply heal_connectionFailed (c := c.setPhase i .closed) h.noActive
      · intro hs
        obtain ⟨k, h1, h2, _⟩ := h.sess hs
        exact ⟨k, h1, h2⟩
      · exact fresh_setPhase h.fresh i .closed (by simp)
      · exact hidle
  | advance dt =>
    simp only [stepOutcome, List.mem_singleton] at ho; subst ho; exact h
  | chunk i d => simp [stepOutcome] at ho
  | fire t =>
    cases t with
    | retry =>
      simp only [stepOutcome, List.mem_singleton] at ho; subst ho
      unfold fireRetry
      cases hs : c.st <;> simp only
      · exact h.of_same rfl rfl rfl rfl rfl (fun e => by rw [hs] at e; cases e) (fun _ => rfl)
      · apply Heal.of_connect_retry
        · simp [setRetry, hs]
        · simp [setRetry]
        · exact fresh_connectTcp ((fresh_closeConn (h.fresh.of_conns (c' := c.setRetry false) rfl)).of_conns rfl)
      · exact absurd hs h.noActive
      all_goals exact heal_errorClose (h.fresh.of_conns rfl)
    | hold =>
      simp only [stepOutcome, List.mem_singleton] at ho; subst ho
      unfold fireHold
      have h2 : Heal (((c.setRetry false).errorClose).withSt .idle) := by
        have := heal_errorClose (c := c.setRetry false) (h.fresh.of_conns rfl)
        exact this.of_same rfl rfl rfl rfl rfl (fun _ => rfl) (fun _ => rfl)
      cases hs : c.st <;> simp only
      · exact h
      · exact heal_errorClose h.fresh
      · exact heal_errorClose h.fresh
      all_goals exact h2
    | keepalive =>
      simp only [stepOutcome, List.mem_singleton] at ho; subst ho
      unfold fireKeepalive
      cases hs : c.st <;> simp only
      all_goals first | exact h | exact heal_errorClose h.fresh
    | idleHold =>
      simp only [stepOutcome, List.mem_singleton] at ho; subst ho
      unfold fireIdleHold
      split
      · rename_i hs
        unfold autoStart
        rw [if_pos (by simpa [setIdleHold] using hs)]
        simp only [Bool.false_eq_true, ↓reduceIte]
        split
        · apply Heal.of_connect_retry
          · simp [withSt]
          · simp [withSt, setRetry]
          · exact fresh_connectTcp (h.fresh.of_conns rfl)
        · rename_i ha
          exact Heal.of_idle_stopped hs (by simpa [setIdleHold] using ha) (h.fresh.of_conns rfl)
      · rename_i hs
        exact h.of_same rfl rfl rfl rfl rfl (fun _ => rfl) (fun e => absurd e hs)

/-- after a successful connect the new connection is up and tracked, whether or not the OPEN could be sent -/
theorem connOk_up {c : Core} (i : Nat) (hl : i < c.conns.length) (hci : c.conn i = (.connecting, false)) (b : Bool) :
    (c.connOk i b).proto = some i ∧ Up (c.connOk i b) i := by
  have hup : ∀ (c' : Core), c'.conns = (c.setPhase i .connected).conns → Up c' i := by
    intro c' hc
    refine ⟨by rw [hc, len_setPhase]; exact hl, ?_⟩
    have : c'.conn i = (c.setPhase i .connected).conn i := by simp only [conn, hc]
    rw [this, conn_setPhase, if_pos ⟨rfl, hl⟩, hci]
  cases b
  · simp only [connOk, Bool.false_eq_true, ↓reduceIte]
    exact ⟨rfl, hup _ rfl⟩
  · simp only [connOk, ↓reduceIte]
    exact ⟨rfl, hup _ rfl⟩

/-- a frame that leaves the session in one of the session states has not touched the connections -/
theorem frameOutcome_insess {c o : Core} (ho : o ∈ c.frameOutcomes) (hs : InSess o.st) :
    o.conns = c.conns ∧ o.proto = c.proto := by
  have herr : ¬ InSess c.errorClose.st := by simp [InSess, errorClose, withSt]
  simp only [frameOutcomes, List.mem_cons, List.not_mem_nil, or_false] at ho
  rcases ho with rfl | rfl | rfl | rfl | rfl | rfl | rfl
  · exact ⟨rfl, rfl⟩
  · exact absurd hs herr
  · cases h : c.st <;> simp [fsmOpenReceived, h, InSess, errorClose, withSt, setRetry] at hs ⊢
  · cases h : c.st <;> simp [fsmKeepaliveReceived, h, InSess, errorClose, withSt, setRetry] at hs ⊢
  · cases h : c.st <;> simp [fsmUpdateReceived, h, InSess, errorClose, withSt, setRetry] at hs ⊢
  · unfold fsmNotificationReceived at hs ⊢
    simp only [↓reduceIte] at hs ⊢
    cases h : c.st <;> simp only [h] at hs ⊢ <;>
      first | exact ⟨rfl, rfl⟩ | exact absurd hs herr | (simp [InSess, withSt] at hs)
  · unfold fsmNotificationReceived at hs ⊢
    simp only [Bool.false_eq_true, ↓reduceIte] at hs ⊢
    split at hs
    · exact absurd hs herr
    · rename_i h; rw [if_neg h]; exact ⟨rfl, rfl⟩

end Core
end Yabgp
