/-
  The control skeleton of the session model: FSM state, which of the two reconnection timers are armed, the
  automatic-start flag, the tracked / established protocol references and, per connection, its reactor phase
  and BGP.disconnected.  `core : Sess → Core` forgets everything else; every action of the model is shown to
  act on the skeleton as a small function `…C` (a refinement: `core (f s) = fC (core s)`), or - where the
  reaction depends on data the skeleton forgets (message contents, configuration) - to produce one of finitely
  many skeleton outcomes.  Invariants about control (C02, C12) are then proved on the skeleton.
-/
import Yabgp.Lemmas.Framing
import Yabgp.Lemmas.StLemmas
import Yabgp.Lemmas.TmLemmas

namespace Yabgp

structure Core where
  st : St
  retry : Bool
  idleHold : Bool
  allow : Bool
  proto : Option Nat
  estab : Option Nat
  pending : Option Nat
  conns : List (Phase × Bool)
  deriving DecidableEq, Repr

def pd (c : Conn) : Phase × Bool := (c.phase, c.disconnected)

def core (s : Sess) : Core :=
  { st := s.st, retry := s.tm.retry.isSome, idleHold := s.tm.idleHold.isSome, allow := s.allowAuto,
    proto := s.proto, estab := s.estab, pending := s.pending, conns := s.conns.map pd }

namespace Core

def conn (c : Core) (i : Nat) : Phase × Bool := c.conns.getD i (.connecting, false)

/-! setters mirroring the ones of `Sess`, so that every skeleton action is the same composition as the action it abstracts -/
def setRetry (c : Core) (b : Bool) : Core := { c with retry := b }
def setIdleHold (c : Core) (b : Bool) : Core := { c with idleHold := b }
def withTm (c : Core) (r i : Bool) : Core := { c with retry := r, idleHold := i }
def withSt (c : Core) (v : St) : Core := { c with st := v }
def withAllow (c : Core) (v : Bool) : Core := { c with allow := v }
def withProto (c : Core) (v : Option Nat) : Core := { c with proto := v }
def withEstab (c : Core) (v : Option Nat) : Core := { c with estab := v }
def withPending (c : Core) (v : Option Nat) : Core := { c with pending := v }
def setPhase (c : Core) (i : Nat) (p : Phase) : Core := { c with conns := c.conns.set i (p, (c.conn i).2) }

def closeOn (c : Core) (i : Nat) : Core :=
  if (c.conn i).1 = .connected ∨ (c.conn i).1 = .closing then { c with conns := c.conns.set i (.closing, true) } else c

def closeConn (c : Core) : Core :=
  match c.proto with
  | none => c
  | some i => c.closeOn i

def errorClose (c : Core) : Core := ((c.withTm false true).closeConn).withSt .idle

def abortPending (c : Core) : Core :=
  match c.pending with
  | none => c
  | some j => if (c.conn j).1 = .connecting then (c.withPending none).setPhase j .closed else c.withPending none

def connectTcp (c : Core) : Core :=
  if c.abortPending.st ≠ .established then
    { c.abortPending with conns := c.abortPending.conns ++ [(.connecting, false)], pending := some c.abortPending.conns.length }
  else c.abortPending

def autoStart (c : Core) (idle : Bool) : Core :=
  if c.st = .idle then
    if idle then c.setIdleHold true
    else if c.allow then ((c.setRetry true).withSt .connect).connectTcp
    else c
  else c

def dropEstab (c : Core) (pro : Option Nat) : Core :=
  match pro with
  | some p => if c.estab = some p then (c.withEstab none).withSt .idle else c
  | none => c

def connectionClosed (c : Core) (pro : Option Nat) : Core :=
  if (c.dropEstab pro).allow then (c.dropEstab pro).autoStart true else c.dropEstab pro

def connectionFailed (c : Core) : Core :=
  match c.st with
  | .connect => (((c.setRetry false).closeConn).withSt .idle).connectionClosed c.proto
  | .active => (c.setRetry true).withSt .idle
  | .openSent => (((c.closeConn).setRetry true).withSt .active).connectionClosed c.proto
  | .openConfirm => c.errorClose
  | .established => c.errorClose
  | .idle => c

def manualStart (c : Core) : Core :=
  match c.st with
  | .established => c
  | .idle => (((c.withAllow true).setRetry true).withSt .connect).connectTcp
  | _ => c

def manualStop (c : Core) : Core := ((((c.withTm false false).closeConn).withAllow false).withSt .idle).abortPending

/-- connectTCP succeeded; `sent` = BGP.send_open went through -/
def connOk (c : Core) (i : Nat) (sent : Bool) : Core :=
  if sent then ((((((c.setPhase i .connected).withProto (some i)).withSt .connect).withEstab (some i)).setRetry false).setIdleHold false).withSt .openSent
  else (((((c.setPhase i .connected).withProto (some i)).withSt .connect).withEstab (some i)).setRetry false).setIdleHold false

def connFail (c : Core) (i : Nat) : Core :=
  if c.pending = some i then ((c.withPending none).setPhase i .closed).connectionFailed else c.setPhase i .closed

def connLost (c : Core) (i : Nat) : Core :=
  if (c.conn i).2 then (c.setPhase i .closed).connectionClosed (some i) else (c.setPhase i .closed).connectionFailed

def fireRetry (c : Core) : Core :=
  match c.st with
  | .connect | .active => (((c.setRetry false).closeConn).setRetry true).connectTcp
  | .idle => c.setRetry false
  | _ => (c.setRetry false).errorClose

def fireHold (c : Core) : Core :=
  match c.st with
  | .openSent | .openConfirm | .established => ((c.setRetry false).errorClose).withSt .idle
  | .connect | .active => c.errorClose
  | .idle => c

def fireKeepalive (c : Core) : Core :=
  match c.st with
  | .connect | .active => c.errorClose
  | _ => c

def fireIdleHold (c : Core) : Core :=
  if c.st = .idle then (c.setIdleHold false).autoStart false else c.setIdleHold false

def fsmOpenReceived (c : Core) : Core :=
  match c.st with
  | .connect | .active => c.errorClose
  | .openSent => (c.setRetry false).withSt .openConfirm
  | .openConfirm | .established => c.errorClose
  | .idle => c

def fsmKeepaliveReceived (c : Core) : Core :=
  match c.st with
  | .openConfirm => c.withSt .established
  | .established => c
  | .connect | .active | .openSent => c.errorClose
  | .idle => c

def fsmUpdateReceived (c : Core) : Core :=
  match c.st with
  | .established => c
  | .connect | .active | .openSent | .openConfirm => c.errorClose
  | .idle => c

def fsmNotificationReceived (c : Core) (ver : Bool) : Core :=
  if ver then
    match c.st with
    | .openSent | .openConfirm => ((c.setRetry false).closeConn).withSt .idle
    | .connect | .active | .established => c.errorClose
    | .idle => c
  else if c.st ≠ .idle then c.errorClose else c

/-- everything the handling of one received frame (or of a framing error) can do to the skeleton -/
def frameOutcomes (c : Core) : List Core :=
  [c, c.errorClose, c.fsmOpenReceived, c.fsmKeepaliveReceived, c.fsmUpdateReceived,
   c.fsmNotificationReceived true, c.fsmNotificationReceived false]

end Core

/-! ### the refinement lemmas -/
namespace Sess

theorem core_conn (s : Sess) (i : Nat) : (core s).conn i = pd (s.conn i) := by
  unfold Core.conn core Sess.conn
  simp only [List.getD_eq_getElem?_getD, List.getElem?_map]
  cases s.conns[i]? <;> rfl

/-- a per-connection update that keeps phase and `disconnected` does not touch the skeleton -/
theorem core_setConn_same (s : Sess) (i : Nat) (c : Conn) (h : pd c = pd (s.conn i)) : core (s.setConn i c) = core s := by
  unfold core setConn withConns
  simp only [List.map_set, h]
  congr 1
  apply List.ext_getElem?
  intro j
  simp only [List.getElem?_set, List.length_map]
  split
  · rename_i hij
    subst hij
    split
    · rename_i hl
      simp [Sess.conn, List.getD_eq_getElem?_getD, List.getElem?_map, hl]
    · rename_i hl
      simp at hl
      simp [hl]
  · rfl

@[simp] theorem core_emit (s : Sess) (o : Out) : core (s.emit o) = core s := rfl
@[simp] theorem core_withOuts (s : Sess) (v : List Out) : core (s.withOuts v) = core s := rfl
@[simp] theorem core_withNow (s : Sess) (v : Nat) : core (s.withNow v) = core s := rfl
@[simp] theorem core_withRetryCounter (s : Sess) (v : Nat) : core (s.withRetryCounter v) = core s := rfl
@[simp] theorem core_incRetryCounter (s : Sess) : core s.incRetryCounter = core s := rfl
@[simp] theorem core_withHoldTime (s : Sess) (v : Nat) : core (s.withHoldTime v) = core s := rfl
@[simp] theorem core_withRemote (s : Sess) (v : CapaDict) : core (s.withRemote v) = core s := rfl
@[simp] theorem core_withLocalCaps (s : Sess) (v : LocalCaps) : core (s.withLocalCaps v) = core s := rfl
@[simp] theorem core_withBgpId (s : Sess) (v : Option Nat) : core (s.withBgpId v) = core s := rfl
@[simp] theorem core_setHold (s : Sess) (v : Option Nat) : core (s.setHold v) = core s := rfl
@[simp] theorem core_setKeepalive (s : Sess) (v : Option Nat) : core (s.setKeepalive v) = core s := rfl
@[simp] theorem core_setRetry (s : Sess) (v : Option Nat) : core (s.setRetry v) = (core s).setRetry v.isSome := rfl
@[simp] theorem core_setIdleHold (s : Sess) (v : Option Nat) : core (s.setIdleHold v) = (core s).setIdleHold v.isSome := rfl
@[simp] theorem core_withTm (s : Sess) (v : Timers) :
    core (s.withTm v) = (core s).withTm v.retry.isSome v.idleHold.isSome := rfl
@[simp] theorem core_withSt (s : Sess) (v : St) : core (s.withSt v) = (core s).withSt v := rfl
@[simp] theorem core_withAllow (s : Sess) (v : Bool) : core (s.withAllow v) = (core s).withAllow v := rfl
@[simp] theorem core_withProto (s : Sess) (v : Option Nat) : core (s.withProto v) = (core s).withProto v := rfl
@[simp] theorem core_withEstab (s : Sess) (v : Option Nat) : core (s.withEstab v) = (core s).withEstab v := rfl
@[simp] theorem core_withPending (s : Sess) (v : Option Nat) : core (s.withPending v) = (core s).withPending v := rfl

@[simp] theorem core_setSt (s : Sess) (v : St) : core (s.setSt v) = (core s).withSt v := by
  unfold setSt; split <;> rfl

@[simp] theorem core_bumpSent (s : Sess) (i : Nat) (g : Stats → Stats) : core (s.bumpSent i g) = core s :=
  core_setConn_same s i _ rfl
@[simp] theorem core_bumpRecv (s : Sess) (i : Nat) (g : Stats → Stats) : core (s.bumpRecv i g) = core s :=
  core_setConn_same s i _ rfl
@[simp] theorem core_setAsn4 (s : Sess) (i : Nat) : core (s.setAsn4 i) = core s :=
  core_setConn_same s i _ rfl

@[simp] theorem core_writeOn (s : Sess) (i : Nat) (b : Bytes) : core (s.writeOn i b) = core s := by
  unfold writeOn; split <;> rfl

@[simp] theorem core_sendNotification (s : Sess) (e sub : Nat) (d : Bytes) : core (s.sendNotification e sub d) = core s := by
  unfold sendNotification
  split
  · rfl
  · split <;> simp

@[simp] theorem core_sendKeepalive (s : Sess) : core s.sendKeepalive = core s := by
  unfold sendKeepalive; split <;> simp

@[simp] theorem core_restartHold (s : Sess) : core s.restartHold = core s := by
  unfold restartHold; split <;> simp

theorem core_setPhase (s : Sess) (i : Nat) (p : Phase) : core (s.setPhase i p) = (core s).setPhase i p := by
  unfold setPhase Core.setPhase
  rw [core_conn]
  unfold core setConn withConns
  simp only [List.map_set]
  rfl

theorem core_setDisconnected (s : Sess) (i : Nat) :
    core (s.setDisconnected i) = { core s with conns := (core s).conns.set i ((s.conn i).phase, true) } := by
  unfold setDisconnected core setConn withConns
  simp only [List.map_set]
  rfl

theorem conn_default_of_ge (s : Sess) (i : Nat) (h : s.conns.length ≤ i) : s.conn i = {} := by
  unfold Sess.conn
  simp [List.getD_eq_getElem?_getD, List.getElem?_eq_none h]

theorem core_closeOn (s : Sess) (i : Nat) : core (s.closeOn i) = (core s).closeOn i := by
  unfold closeOn Core.closeOn
  rw [core_conn]
  by_cases h1 : (s.conn i).phase = .connected
  · have hl : i < s.conns.length := by
      by_cases hl : i < s.conns.length
      · exact hl
      · rw [conn_default_of_ge s i (by omega)] at h1; cases h1
    simp only [h1, ↓reduceIte, pd, true_or, core_emit, core_setDisconnected, core_setPhase, Core.setPhase]
    simp only [List.set_set]
    have : ((s.setPhase i .closing).conn i).phase = .closing := by simp [setPhase, conn_setConn, hl]
    rw [this]
  · by_cases h2 : (s.conn i).phase = .closing
    · rw [if_neg h1, if_pos h2, if_pos (Or.inr (by simp [pd, h2])), core_setDisconnected, h2]
    · simp [h1, h2, pd]

theorem core_closeConn (s : Sess) : core s.closeConn = (core s).closeConn := by
  have hp : (core s).proto = s.proto := rfl
  unfold closeConn Core.closeConn
  rw [hp]
  cases s.proto with
  | none => rfl
  | some i => simp only [core_withRetryCounter, core_closeOn]

theorem core_errorClose (s : Sess) : core s.errorClose = (core s).errorClose := by
  unfold errorClose Core.errorClose
  simp only [core_setSt, core_incRetryCounter, core_closeConn, core_withTm, Option.isSome_none, Option.isSome_some]

theorem core_abortPending (s : Sess) : core s.abortPending = (core s).abortPending := by
  unfold abortPending Core.abortPending
  have hp : (core s).pending = s.pending := rfl
  rw [hp]
  cases s.pending with
  | none => rfl
  | some j =>
    simp only
    have : ((core s).conn j).1 = (s.conn j).phase := by rw [core_conn]; rfl
    rw [this]
    split
    · rw [core_setPhase, core_withPending]
    · rw [core_withPending]

theorem core_connectTcp (s : Sess) : core s.connectTcp = (core s).connectTcp := by
  unfold connectTcp Core.connectTcp
  have h1 : (core s).abortPending.st = s.abortPending.st := by rw [← core_abortPending]; rfl
  rw [h1]
  split
  · simp only [core_withPending, core_emit]
    rw [← core_abortPending]
    unfold core withConns Core.withPending
    simp [pd]
  · exact core_abortPending s

theorem core_autoStart (s : Sess) (b : Bool) : core (s.autoStart b) = (core s).autoStart b := by
  unfold autoStart Core.autoStart
  have h1 : (core s).st = s.st := rfl
  have h2 : (core s).allow = s.allowAuto := rfl
  rw [h1, h2]
  split
  · split
    · simp only [core_setIdleHold, Option.isSome_some]
    · split
      · simp only [core_connectTcp, core_setSt, core_setRetry, core_incRetryCounter, Option.isSome_some]
      · rfl
  · rfl

theorem core_dropEstab (s : Sess) (p : Option Nat) : core (s.dropEstab p) = (core s).dropEstab p := by
  unfold dropEstab Core.dropEstab
  have h1 : (core s).estab = s.estab := rfl
  rw [h1]
  cases p with
  | none => rfl
  | some q => simp only; split <;> simp only [core_setSt, core_withEstab]

theorem core_connectionClosed (s : Sess) (p : Option Nat) : core (s.connectionClosed p) = (core s).connectionClosed p := by
  unfold connectionClosed Core.connectionClosed
  have h : ((core s).dropEstab p).allow = (s.dropEstab p).allowAuto := by rw [← core_dropEstab]; rfl
  rw [h]
  split
  · rw [core_autoStart, core_dropEstab]
  · rw [core_dropEstab]

theorem core_connectionFailed (s : Sess) : core s.connectionFailed = (core s).connectionFailed := by
  unfold connectionFailed Core.connectionFailed
  have h1 : (core s).st = s.st := rfl
  have h2 : (core s).proto = s.proto := rfl
  rw [h1, h2]
  cases s.st <;>
    simp only [core_connectionClosed, core_setSt, core_closeConn, core_setRetry, core_setHold, core_errorClose, Option.isSome_none,
      Option.isSome_some]

theorem core_manualStart (s : Sess) : core s.manualStart = (core s).manualStart := by
  unfold manualStart Core.manualStart
  have h1 : (core s).st = s.st := rfl
  rw [h1]
  cases s.st <;>
    simp only [core_emit, core_connectTcp, core_setSt, core_setRetry, core_withAllow, Option.isSome_some]

theorem core_manualStop (s : Sess) : core s.manualStop = (core s).manualStop := by
  unfold manualStop Core.manualStop
  have : core (if s.st = .established then s.sendNotification C.errCease 0 [] else s) = core s := by
    split <;> simp
  simp only [core_emit, core_abortPending, core_setSt, core_withAllow, core_withRetryCounter, core_closeConn, core_withTm, this]
  rfl

theorem core_connOk (s : Sess) (i : Nat) :
    core (s.connOk i) = (core s).connOk i
      (((((((s.setPhase i .connected).withProto (some i)).setSt .connect).withEstab (some i)).withBgpId
        (some (s.bgpId.getD s.cfg.localId))).setRetry none).setIdleHold none).sendOpen.2 := by
  unfold connOk connectionMade Core.connOk
  generalize ht : (((((s.setPhase i .connected).withProto (some i)).setSt .connect).withEstab (some i)).withBgpId
      (some (s.bgpId.getD s.cfg.localId))) = t
  have hcore : core t = ((((core s).setPhase i .connected).withProto (some i)).withSt .connect).withEstab (some i) := by
    rw [← ht]; simp only [core_withBgpId, core_withEstab, core_setSt, core_withProto, core_setPhase]
  have hsend : core ((t.setRetry none).setIdleHold none).sendOpen.1 = core ((t.setRetry none).setIdleHold none) := by
    unfold sendOpen
    split
    · rfl
    · split
      · simp
      · simp
  split
  · simp only [core_setSt, core_setHold, hsend, core_setIdleHold, core_setRetry, hcore, Option.isSome_none]
  · simp only [hsend, core_setIdleHold, core_setRetry, hcore, Option.isSome_none]

theorem core_connFail (s : Sess) (i : Nat) : core (s.connFail i) = (core s).connFail i := by
  unfold connFail Core.connFail
  have hp : (core s).pending = s.pending := rfl
  rw [hp]
  split
  · rw [core_connectionFailed, core_emit, core_setPhase, core_withPending]
  · rw [core_setPhase]

theorem core_connLost (s : Sess) (i : Nat) : core (s.connLost i) = (core s).connLost i := by
  unfold connLost Core.connLost
  have : ((core s).conn i).2 = (s.conn i).disconnected := by rw [core_conn]; rfl
  rw [this]
  split
  · rw [core_connectionClosed, core_emit, core_setPhase]
  · rw [core_connectionFailed, core_emit, core_setPhase]

theorem core_fireRetry (s : Sess) : core s.fireRetry = (core s).fireRetry := by
  unfold fireRetry Core.fireRetry
  have h1 : (core s).st = s.st := rfl
  rw [h1]
  cases s.st <;>
    simp only [core_connectTcp, core_setRetry, core_closeConn, core_errorClose, core_sendNotification,
      Option.isSome_some, Option.isSome_none]

theorem core_fireHold (s : Sess) : core s.fireHold = (core s).fireHold := by
  unfold fireHold Core.fireHold
  have h1 : (core s).st = s.st := rfl
  rw [h1]
  cases s.st <;>
    simp only [core_setSt, core_setRetry, core_setHold, core_errorClose, core_sendNotification, Option.isSome_none]

theorem core_fireKeepalive (s : Sess) : core s.fireKeepalive = (core s).fireKeepalive := by
  unfold fireKeepalive Core.fireKeepalive
  have h1 : (core s).st = s.st := rfl
  rw [h1]
  cases s.st <;> simp only [core_setKeepalive, core_errorClose, core_sendKeepalive]
  all_goals (split <;> simp only [core_setKeepalive, core_sendKeepalive])

theorem core_fireIdleHold (s : Sess) : core s.fireIdleHold = (core s).fireIdleHold := by
  unfold fireIdleHold Core.fireIdleHold
  have h1 : (core s).st = s.st := rfl
  rw [h1]
  split <;> simp only [core_autoStart, core_setIdleHold, Option.isSome_none]

theorem core_fsmOpenReceived (s : Sess) : core s.fsmOpenReceived = (core s).fsmOpenReceived := by
  unfold fsmOpenReceived Core.fsmOpenReceived
  have h1 : (core s).st = s.st := rfl
  rw [h1]
  cases s.st <;> simp only [core_errorClose, core_sendNotification]
  split <;>
    simp only [core_setSt, core_setHold, core_setKeepalive, core_sendKeepalive, core_setRetry, Option.isSome_none]

theorem core_fsmKeepaliveReceived (s : Sess) : core s.fsmKeepaliveReceived = (core s).fsmKeepaliveReceived := by
  unfold fsmKeepaliveReceived Core.fsmKeepaliveReceived
  have h1 : (core s).st = s.st := rfl
  rw [h1]
  cases s.st <;> simp only [core_errorClose, core_sendNotification, core_setSt, core_restartHold]

theorem core_fsmUpdateReceived (s : Sess) : core s.fsmUpdateReceived = (core s).fsmUpdateReceived := by
  unfold fsmUpdateReceived Core.fsmUpdateReceived
  have h1 : (core s).st = s.st := rfl
  rw [h1]
  cases s.st <;> simp only [core_errorClose, core_sendNotification, core_restartHold]

theorem core_fsmNotificationReceived (s : Sess) (e sub : Nat) :
    core (s.fsmNotificationReceived e sub) = (core s).fsmNotificationReceived (decide (e = C.errOpen ∧ sub = 1)) := by
  unfold fsmNotificationReceived Core.fsmNotificationReceived
  have h1 : (core s).st = s.st := rfl
  rw [h1]
  by_cases h : e = C.errOpen ∧ sub = 1
  · simp only [h, and_self, ↓reduceIte, decide_true]
    cases s.st <;> simp only [core_errorClose, core_setSt, core_closeConn, core_setRetry, core_setHold, core_setKeepalive, Option.isSome_none]
  · simp only [h, ↓reduceIte, decide_false, Bool.false_eq_true]
    split <;> simp only [core_errorClose]

theorem core_headerError (s : Sess) (sub : Nat) (d : Bytes) : core (s.headerError sub d) = (core s).errorClose := by
  unfold headerError; rw [core_errorClose, core_sendNotification]

theorem core_openMessageError (s : Sess) (sub : Nat) : core (s.openMessageError sub) = (core s).errorClose := by
  unfold openMessageError; rw [core_errorClose, core_sendNotification]

theorem mem_outcomes_self (c : Core) : c ∈ c.frameOutcomes := by simp [Core.frameOutcomes]
theorem mem_outcomes_err (c : Core) : c.errorClose ∈ c.frameOutcomes := by simp [Core.frameOutcomes]

theorem core_openAccepted_mem (s : Sess) (i : Nat) (m : OpenMsg) :
    core (s.openAccepted i m).1 ∈ (core s).frameOutcomes := by
  have hX : core (if m.caps.fourBytesAs ∧ (s.cfg.localAs > 65535 ∨ s.localCaps.fourBytesAs) then (s.withRemote m.caps).setAsn4 i
      else s.withRemote m.caps) = core s := by split <;> simp
  unfold openAccepted
  split
  · simp only [core_openMessageError, hX]; exact mem_outcomes_err _
  · simp only [core_emit, core_fsmOpenReceived, core_withHoldTime, hX]
    simp [Core.frameOutcomes]

theorem core_openReceived_mem (s : Sess) (i : Nat) (body : Bytes) :
    core (s.openReceived i body).1 ∈ (core s).frameOutcomes := by
  unfold openReceived
  split
  · simp only [core_headerError, core_bumpRecv]; exact mem_outcomes_err _
  · simp only [core_openMessageError, core_bumpRecv]; exact mem_outcomes_err _
  · simp only [core_bumpRecv]; exact mem_outcomes_self _
  · split
    · simp only [core_openMessageError, core_bumpRecv]; exact mem_outcomes_err _
    · have := core_openAccepted_mem (s.bumpRecv i incOpens) i ‹OpenMsg›
      simpa only [core_bumpRecv] using this

theorem core_dispatch_mem (U : Bool → Bytes → UpdClass) (s : Sess) (i ty : Nat) (body : Bytes) :
    core (dispatch U s i ty body).1 ∈ (core s).frameOutcomes := by
  unfold dispatch
  split
  · exact core_openReceived_mem s i body
  · split
    · split
      · simp only [core_bumpRecv]; exact mem_outcomes_self _
      · simp only [core_emit, core_bumpRecv]; exact mem_outcomes_self _
      · simp only [core_fsmUpdateReceived, core_emit, core_bumpRecv]; simp [Core.frameOutcomes]
      · simp only [core_fsmUpdateReceived, core_emit, core_bumpRecv]; simp [Core.frameOutcomes]
    · split
      · split
        · exact mem_outcomes_self _
        · simp only [core_fsmNotificationReceived, core_emit, core_bumpRecv]
          rename_i e sub d _
          cases decide (e = C.errOpen ∧ sub = 1) <;> simp [Core.frameOutcomes]
      · split
        · split
          · simp only [core_fsmKeepaliveReceived, core_emit, core_bumpRecv]; simp [Core.frameOutcomes]
          · simp only [core_headerError, core_emit, core_bumpRecv]; exact mem_outcomes_err _
        · split
          · split
            · simp only [core_bumpRecv]; exact mem_outcomes_self _
            · simp only [core_emit, core_bumpRecv]; exact mem_outcomes_self _
          · simp only [core_headerError]; exact mem_outcomes_err _

theorem core_parseBuffer_mem (U : Bool → Bytes → UpdClass) (s : Sess) (i : Nat) (buf : Bytes) :
    core (parseBuffer U s i buf).1 ∈ (core s).frameOutcomes := by
  unfold parseBuffer
  split
  · exact mem_outcomes_self _
  · split
    · exact mem_outcomes_self _
    · simp only [core_headerError]; exact mem_outcomes_err _
    · simp only [core_headerError]; exact mem_outcomes_err _
    · split <;> exact core_dispatch_mem U s i _ _

/-- whatever is preserved by every frame outcome is preserved by the whole receive loop -/
theorem core_drain_inv (U : Bool → Bytes → UpdClass) (P : Core → Prop)
    (hP : ∀ c, P c → ∀ o ∈ c.frameOutcomes, P o) (i : Nat) :
    ∀ (fuel : Nat) (s : Sess) (buf : Bytes), P (core s) → P (core (drain U fuel s i buf).1) := by
  intro fuel
  induction fuel with
  | zero => intro s buf h; exact h
  | succ n ih =>
    intro s buf h
    unfold drain
    have h1 := hP _ h _ (core_parseBuffer_mem U s i buf)
    split
    · exact ih _ _ h1
    · exact h1

theorem core_dataReceived_inv (U : Bool → Bytes → UpdClass) (P : Core → Prop)
    (hP : ∀ c, P c → ∀ o ∈ c.frameOutcomes, P o) (i : Nat) (s : Sess) (buf data : Bytes) (h : P (core s)) :
    P (core (dataReceived U s i buf data).1) :=
  core_drain_inv U P hP i _ s _ h

end Sess

/-- one event of the environment acts on the skeleton as one of these -/
def Core.stepOutcome (c : Core) : Ev → List Core
  | .boot => [c.autoStart false]
  | .manualStart => [c.manualStart]
  | .manualStop => [c.manualStop]
  | .connOk i => [c.connOk i true, c.connOk i false]
  | .connFail i => [c.connFail i]
  | .lost i => [c.connLost i]
  | .advance _ => [c]
  | .fire .retry => [c.fireRetry]
  | .fire .hold => [c.fireHold]
  | .fire .keepalive => [c.fireKeepalive]
  | .fire .idleHold => [c.fireIdleHold]
  | .chunk _ _ => []          -- handled by `core_dataReceived_inv`

/-- what the environment must respect for an event to be possible, as far as the skeleton can tell -/
def Core.enabledC (c : Core) : Ev → Prop
  | .connOk i => i < c.conns.length ∧ (c.conn i).1 = .connecting
  | .connFail i => i < c.conns.length ∧ (c.conn i).1 = .connecting
  | .chunk i _ => i < c.conns.length ∧ (c.conn i).1 = .connected
  | .lost i => i < c.conns.length ∧ ((c.conn i).1 = .connected ∨ (c.conn i).1 = .closing)
  | .fire .retry => c.retry = true
  | .fire .idleHold => c.idleHold = true
  | _ => True

theorem enabledC_of_enabled (s : Sess) (e : Ev) (h : enabled s e = true) : (core s).enabledC e := by
  have hl : (core s).conns.length = s.conns.length := by simp [core]
  cases e with
  | connOk i =>
    simp only [enabled, Bool.and_eq_true, decide_eq_true_eq] at h
    exact ⟨by rw [hl]; exact h.1, by rw [Sess.core_conn]; exact h.2⟩
  | connFail i =>
    simp only [enabled, Bool.and_eq_true, decide_eq_true_eq] at h
    exact ⟨by rw [hl]; exact h.1, by rw [Sess.core_conn]; exact h.2⟩
  | chunk i d =>
    simp only [enabled, Bool.and_eq_true, decide_eq_true_eq] at h
    exact ⟨by rw [hl]; exact h.1, by rw [Sess.core_conn]; exact h.2⟩
  | lost i =>
    simp only [enabled, Bool.and_eq_true, decide_eq_true_eq, Bool.or_eq_true] at h
    exact ⟨by rw [hl]; exact h.1, by rw [Sess.core_conn]; exact h.2⟩
  | fire t =>
    cases t with
    | retry =>
      simp only [enabled, timerOf] at h
      show s.tm.retry.isSome = true
      cases hr : s.tm.retry <;> simp [hr] at h ⊢
    | idleHold =>
      simp only [enabled, timerOf] at h
      show s.tm.idleHold.isSome = true
      cases hr : s.tm.idleHold <;> simp [hr] at h ⊢
    | hold => trivial
    | keepalive => trivial
  | boot => trivial
  | manualStart => trivial
  | manualStop => trivial
  | advance dt => trivial

/-- an invariant of the skeleton that every skeleton action and every frame outcome preserves holds along every run -/
theorem core_step_inv (U : Bool → Bytes → UpdClass) (P : Core → Prop)
    (hF : ∀ c, P c → ∀ o ∈ c.frameOutcomes, P o)
    (w : World) (e : Ev) (hen : enabled w.sess e = true)
    (hE' : P (core w.sess) → (core w.sess).enabledC e → ∀ o ∈ (core w.sess).stepOutcome e, P o)
    (h : P (core w.sess)) : P (core (step U w e).sess) := by
  have h0 : P (core (w.sess.withOuts [])) := h
  have hE : ∀ c e', e' = e → c = core w.sess → P c → ∀ o ∈ c.stepOutcome e', P o := by
    intro c e' he hc hp
    subst he; subst hc
    exact hE' hp (enabledC_of_enabled w.sess _ hen)
  cases e with
  | boot => simp only [step]; rw [Sess.core_autoStart]; exact hE _ .boot rfl rfl h0 _ (by simp [Core.stepOutcome])
  | manualStart => simp only [step]; rw [Sess.core_manualStart]; exact hE _ .manualStart rfl rfl h0 _ (by simp [Core.stepOutcome])
  | manualStop => simp only [step]; rw [Sess.core_manualStop]; exact hE _ .manualStop rfl rfl h0 _ (by simp [Core.stepOutcome])
  | connOk i =>
    simp only [step]; rw [Sess.core_connOk]
    apply hE _ (.connOk i) rfl rfl h0
    simp only [Core.stepOutcome, Sess.core_withOuts]
    cases (Sess.sendOpen _).2 <;> simp
  | connFail i => simp only [step]; rw [Sess.core_connFail]; exact hE _ (.connFail i) rfl rfl h0 _ (by simp [Core.stepOutcome])
  | lost i => simp only [step]; rw [Sess.core_connLost]; exact hE _ (.lost i) rfl rfl h0 _ (by simp [Core.stepOutcome])
  | advance dt => simp only [step]; exact h
  | chunk c d => simp only [step]; exact Sess.core_dataReceived_inv U P hF c _ _ _ h0
  | fire t =>
    cases t with
    | retry => simp only [step]; rw [Sess.core_fireRetry]; exact hE _ (.fire .retry) rfl rfl h0 _ (by simp [Core.stepOutcome])
    | hold => simp only [step]; rw [Sess.core_fireHold]; exact hE _ (.fire .hold) rfl rfl h0 _ (by simp [Core.stepOutcome])
    | keepalive => simp only [step]; rw [Sess.core_fireKeepalive]; exact hE _ (.fire .keepalive) rfl rfl h0 _ (by simp [Core.stepOutcome])
    | idleHold => simp only [step]; rw [Sess.core_fireIdleHold]; exact hE _ (.fire .idleHold) rfl rfl h0 _ (by simp [Core.stepOutcome])

end Yabgp
