/-
  Lemmas for the sent side of C18: every action of the session model keeps the *balance* between the per-type
  sent counters of every connection and the messages of that type written to that connection:
      sent counter after  -  sent counter before  =  number of such messages written by the action.
  `Bal s s'` states this for the step from `s` to `s'` (the outputs of `s'` extend those of `s`).  Actions that
  send nothing are `Quiet`; the three send helpers are balanced when the tracked connection is up (`Norm`), and
  every call site of a send helper is reached with such a state (Props/C18b lifts this to every history).
-/
import Yabgp.Lemmas.Norm

namespace Yabgp
namespace Sess

/-- the message type octet of a frame -/
def wireType (w : Bytes) : Nat := (w.getD 18 0).toNat

/-- the statistics key a message type is counted under: the two ROUTE-REFRESH type codes (5, and 128 of the Cisco
    pre-standard capability) share the counter RouteRefresh -/
def wireKind (w : Bytes) : Nat := if wireType w = 128 then 5 else wireType w

/-- is this output the write, on connection `i`, of a message counted under `ty`? -/
def isW (i ty : Nat) : Out → Bool
  | .write j w => j == i && wireKind w == ty
  | _ => false

def isWrite : Out → Bool
  | .write _ _ => true
  | _ => false

/-- number of messages of type `ty` written on connection `i` -/
def wcount (outs : List Out) (i ty : Nat) : Nat := outs.countP (isW i ty)

/-- the sent counter for message type `ty` -/
def sentOf (st : Stats) (ty : Nat) : Nat :=
  if ty = 1 then st.opens else if ty = 2 then st.updates else if ty = 3 then st.notifications
  else if ty = 4 then st.keepalives else if ty = 5 then st.routeRefresh else 0

/-- counters and writes moved together between `s` and `s'` -/
def Bal (s s' : Sess) : Prop :=
  ∀ i ty, sentOf (s'.conn i).sent ty + wcount s.outs i ty = sentOf (s.conn i).sent ty + wcount s'.outs i ty

theorem Bal.refl (s : Sess) : Bal s s := fun _ _ => rfl

theorem Bal.trans {a b c : Sess} (h1 : Bal a b) (h2 : Bal b c) : Bal a c := by
  intro i ty
  have := h1 i ty
  have := h2 i ty
  omega

/-- nothing was sent or counted: same sent counters, outputs extended by non-writes only -/
def Quiet (s s' : Sess) : Prop :=
  (∀ i, (s'.conn i).sent = (s.conn i).sent) ∧ ∃ l, s'.outs = s.outs ++ l ∧ ∀ o ∈ l, isWrite o = false

theorem Quiet.refl (s : Sess) : Quiet s s := ⟨fun _ => rfl, [], by simp, by simp⟩

theorem Quiet.trans {a b c : Sess} (h1 : Quiet a b) (h2 : Quiet b c) : Quiet a c := by
  obtain ⟨hs1, l1, ho1, hw1⟩ := h1
  obtain ⟨hs2, l2, ho2, hw2⟩ := h2
  refine ⟨fun i => (hs2 i).trans (hs1 i), l1 ++ l2, by rw [ho2, ho1, List.append_assoc], ?_⟩
  intro o ho
  rcases List.mem_append.mp ho with h | h
  · exact hw1 o h
  · exact hw2 o h

theorem isW_of_not_write {o : Out} (h : isWrite o = false) (i ty : Nat) : isW i ty o = false := by
  cases o <;> simp_all [isWrite, isW]

theorem wcount_append_quiet (outs l : List Out) (hl : ∀ o ∈ l, isWrite o = false) (i ty : Nat) :
    wcount (outs ++ l) i ty = wcount outs i ty := by
  unfold wcount
  rw [List.countP_append]
  have : l.countP (isW i ty) = 0 := by
    rw [List.countP_eq_zero]
    intro o ho
    simp [isW_of_not_write (hl o ho)]
  omega

theorem Quiet.bal {s s' : Sess} (h : Quiet s s') : Bal s s' := by
  obtain ⟨hs, l, ho, hw⟩ := h
  intro i ty
  rw [hs i, ho, wcount_append_quiet _ _ hw]

/-- same connections, same outputs -/
theorem Quiet.of_same {s s' : Sess} (hc : s'.conns = s.conns) (ho : s'.outs = s.outs) : Quiet s s' :=
  ⟨fun i => by simp [conn, hc], [], by simp [ho], by simp⟩

theorem sq_emit (s : Sess) (o : Out) (h : isWrite o = false) : Quiet s (s.emit o) :=
  ⟨fun _ => rfl, [o], rfl, by simpa using h⟩

theorem sq_setConn (s : Sess) (j : Nat) (c : Conn) (h : c.sent = (s.conn j).sent) : Quiet s (s.setConn j c) := by
  refine ⟨fun i => ?_, [], by simp [setConn, withConns], by simp⟩
  rw [conn_setConn]
  split
  · rename_i hj; rw [← hj.1]; exact h
  · rfl

theorem sq_setPhase (s : Sess) (j : Nat) (p : Phase) : Quiet s (s.setPhase j p) := sq_setConn s j _ rfl
theorem sq_setDisconnected (s : Sess) (j : Nat) : Quiet s (s.setDisconnected j) := sq_setConn s j _ rfl
theorem sq_setAsn4 (s : Sess) (j : Nat) : Quiet s (s.setAsn4 j) := sq_setConn s j _ rfl
theorem sq_bumpRecv (s : Sess) (j : Nat) (g : Stats → Stats) : Quiet s (s.bumpRecv j g) := sq_setConn s j _ rfl

theorem sq_withTm (s : Sess) (v : Timers) : Quiet s (s.withTm v) := Quiet.of_same rfl rfl
theorem sq_withSt (s : Sess) (v : St) : Quiet s (s.withSt v) := Quiet.of_same rfl rfl
theorem sq_withNow (s : Sess) (v : Nat) : Quiet s (s.withNow v) := Quiet.of_same rfl rfl
theorem sq_withAllow (s : Sess) (v : Bool) : Quiet s (s.withAllow v) := Quiet.of_same rfl rfl
theorem sq_withRetryCounter (s : Sess) (v : Nat) : Quiet s (s.withRetryCounter v) := Quiet.of_same rfl rfl
theorem sq_incRetryCounter (s : Sess) : Quiet s (s.incRetryCounter) := Quiet.of_same rfl rfl
theorem sq_withHoldTime (s : Sess) (v : Nat) : Quiet s (s.withHoldTime v) := Quiet.of_same rfl rfl
theorem sq_withProto (s : Sess) (v : Option Nat) : Quiet s (s.withProto v) := Quiet.of_same rfl rfl
theorem sq_withEstab (s : Sess) (v : Option Nat) : Quiet s (s.withEstab v) := Quiet.of_same rfl rfl
theorem sq_withPending (s : Sess) (v : Option Nat) : Quiet s (s.withPending v) := Quiet.of_same rfl rfl
theorem sq_withLocalCaps (s : Sess) (v : LocalCaps) : Quiet s (s.withLocalCaps v) := Quiet.of_same rfl rfl
theorem sq_withRemote (s : Sess) (v : CapaDict) : Quiet s (s.withRemote v) := Quiet.of_same rfl rfl
theorem sq_withBgpId (s : Sess) (v : Option Nat) : Quiet s (s.withBgpId v) := Quiet.of_same rfl rfl
theorem sq_setRetry (s : Sess) (v : Option Nat) : Quiet s (s.setRetry v) := Quiet.of_same rfl rfl
theorem sq_setHold (s : Sess) (v : Option Nat) : Quiet s (s.setHold v) := Quiet.of_same rfl rfl
theorem sq_setKeepalive (s : Sess) (v : Option Nat) : Quiet s (s.setKeepalive v) := Quiet.of_same rfl rfl
theorem sq_setIdleHold (s : Sess) (v : Option Nat) : Quiet s (s.setIdleHold v) := Quiet.of_same rfl rfl

theorem sq_setSt (s : Sess) (v : St) : Quiet s (s.setSt v) := by
  unfold setSt
  split
  · exact (sq_emit s _ rfl).trans (sq_withSt _ _)
  · exact sq_withSt _ _

theorem sq_restartHold (s : Sess) : Quiet s (s.restartHold) := by
  unfold restartHold
  split
  · exact sq_setHold _ _
  · exact Quiet.refl _

theorem sq_closeOn (s : Sess) (j : Nat) : Quiet s (s.closeOn j) := by
  unfold closeOn
  split
  · exact ((sq_setPhase s j _).trans (sq_setDisconnected _ j)).trans (sq_emit _ _ rfl)
  · split
    · exact sq_setDisconnected _ _
    · exact Quiet.refl _

theorem sq_closeConn (s : Sess) : Quiet s (s.closeConn) := by
  unfold closeConn
  split
  · exact Quiet.refl _
  · exact (sq_closeOn s _).trans (sq_withRetryCounter _ _)

theorem sq_errorClose (s : Sess) : Quiet s (s.errorClose) := by
  unfold errorClose
  exact (((sq_withTm s _).trans (sq_closeConn _)).trans (sq_incRetryCounter _)).trans (sq_setSt _ _)

theorem sq_abortPending (s : Sess) : Quiet s (s.abortPending) := by
  unfold abortPending
  split
  · exact Quiet.refl _
  · split
    · exact (sq_withPending s _).trans (sq_setPhase _ _ _)
    · exact sq_withPending _ _

/-- appending a fresh connector changes no existing connection, and the new one has zero counters like the default -/
theorem sq_addConn (s : Sess) : Quiet s (s.withConns (s.conns ++ [({} : Conn)])) := by
  refine ⟨fun i => ?_, [], by simp [withConns], by simp⟩
  simp only [conn, withConns, List.getD_eq_getElem?_getD]
  by_cases h : i < s.conns.length
  · rw [List.getElem?_append_left h]
  · rw [List.getElem?_append_right (by omega)]
    have h2 : s.conns[i]? = none := by simp; omega
    rw [h2]
    by_cases h3 : i - s.conns.length = 0
    · simp [h3]
    · have : ([({} : Conn)] : List Conn)[i - s.conns.length]? = none := by simp; omega
      rw [this]

theorem sq_connectTcp (s : Sess) : Quiet s (s.connectTcp) := by
  unfold connectTcp
  split
  · exact (((sq_abortPending s).trans (sq_addConn _)).trans (sq_emit _ _ rfl)).trans (sq_withPending _ _)
  · exact sq_abortPending s

theorem sq_autoStart (s : Sess) (b : Bool) : Quiet s (s.autoStart b) := by
  unfold autoStart
  split
  · split
    · exact sq_setIdleHold _ _
    · split
      · exact (((sq_incRetryCounter s).trans (sq_setRetry _ _)).trans (sq_setSt _ _)).trans (sq_connectTcp _)
      · exact Quiet.refl _
  · exact Quiet.refl _

theorem sq_dropEstab (s : Sess) (p : Option Nat) : Quiet s (s.dropEstab p) := by
  unfold dropEstab
  split
  · split
    · exact (sq_withEstab s _).trans (sq_setSt _ _)
    · exact Quiet.refl _
  · exact Quiet.refl _

theorem sq_connectionClosed (s : Sess) (p : Option Nat) : Quiet s (s.connectionClosed p) := by
  unfold connectionClosed
  split
  · exact (sq_dropEstab s p).trans (sq_autoStart _ _)
  · exact sq_dropEstab s p

theorem sq_connectionFailed (s : Sess) : Quiet s (s.connectionFailed) := by
  unfold connectionFailed
  split
  · exact (((sq_setRetry s _).trans (sq_closeConn _)).trans (sq_setSt _ _)).trans (sq_connectionClosed _ _)
  · exact (sq_setRetry s _).trans (sq_setSt _ _)
  · exact ((((sq_closeConn s).trans (sq_setRetry _ _)).trans (sq_setHold _ _)).trans (sq_setSt _ _)).trans (sq_connectionClosed _ _)
  · exact sq_errorClose _
  · exact sq_errorClose _
  · exact Quiet.refl _

theorem sq_manualStart (s : Sess) : Quiet s (s.manualStart) := by
  unfold manualStart
  split
  · exact sq_emit _ _ rfl
  · exact ((((sq_withAllow s _).trans (sq_setRetry _ _)).trans (sq_setSt _ _)).trans (sq_connectTcp _)).trans
      (sq_emit _ _ rfl)
  · exact sq_emit _ _ rfl

theorem sq_connFail (s : Sess) (i : Nat) : Quiet s (s.connFail i) := by
  unfold connFail
  split
  · exact (((sq_withPending s _).trans (sq_setPhase _ _ _)).trans (sq_emit _ _ rfl)).trans (sq_connectionFailed _)
  · exact sq_setPhase _ _ _

theorem sq_connLost (s : Sess) (i : Nat) : Quiet s (s.connLost i) := by
  unfold connLost
  split
  · exact ((sq_setPhase s _ _).trans (sq_emit _ _ rfl)).trans (sq_connectionClosed _ _)
  · exact ((sq_setPhase s _ _).trans (sq_emit _ _ rfl)).trans (sq_connectionFailed _)

theorem sq_fireIdleHold (s : Sess) : Quiet s (s.fireIdleHold) := by
  unfold fireIdleHold
  split
  · exact (sq_setIdleHold s _).trans (sq_autoStart _ _)
  · exact sq_setIdleHold _ _

/-! ### the three send helpers -/

theorem sentOf_incKeepalives (st : Stats) (ty : Nat) : sentOf (incKeepalives st) ty = sentOf st ty + if ty = 4 then 1 else 0 := by
  unfold sentOf incKeepalives
  by_cases h1 : ty = 1 <;> by_cases h2 : ty = 2 <;> by_cases h3 : ty = 3 <;> by_cases h4 : ty = 4 <;> simp_all
theorem sentOf_incNotifications (st : Stats) (ty : Nat) :
    sentOf (incNotifications st) ty = sentOf st ty + if ty = 3 then 1 else 0 := by
  unfold sentOf incNotifications
  by_cases h1 : ty = 1 <;> by_cases h2 : ty = 2 <;> by_cases h3 : ty = 3 <;> simp_all
theorem sentOf_incOpens (st : Stats) (ty : Nat) : sentOf (incOpens st) ty = sentOf st ty + if ty = 1 then 1 else 0 := by
  unfold sentOf incOpens
  by_cases h1 : ty = 1 <;> simp_all

/-- counting one message and writing one message of the same type on the same connection is balanced -/
theorem bal_count_write (s : Sess) (i t : Nat) (g : Stats → Stats) (w : Bytes) (hlt : i < s.conns.length)
    (hg : ∀ st ty, sentOf (g st) ty = sentOf st ty + if ty = t then 1 else 0) (hw : wireKind w = t) :
    Bal s ((s.bumpSent i g).emit (.write i w)) := by
  intro j ty
  have ho : ((s.bumpSent i g).emit (.write i w)).outs = s.outs ++ [.write i w] := rfl
  have hc : ((s.bumpSent i g).emit (.write i w)).conn j = (s.bumpSent i g).conn j := rfl
  rw [ho, hc]
  unfold wcount
  rw [List.countP_append]
  simp only [bumpSent, conn_setConn, List.countP_singleton, isW, hw]
  by_cases hj : i = j
  · subst hj
    simp only [hlt, and_self, ↓reduceIte, hg, beq_self_eq_true, Bool.true_and, beq_iff_eq]
    by_cases ht : t = ty
    · subst ht; simp; omega
    · have : ¬ ty = t := fun e => ht e.symm
      simp [ht, this]
  · have hji : ¬ (i == j) = true := by simpa using hj
    simp [hj]

theorem wireKind_of_type {w : Bytes} {t : Nat} (h : wireType w = t) (ht : t ≠ 128) : wireKind w = t := by
  unfold wireKind; rw [h, if_neg ht]

theorem wireType_keepalive : wireType constructKeepalive = 4 := by decide

theorem wireType_header (ty : Nat) (body w : Bytes) (hty : ty < 256) (h : constructHeader ty body = some w) : wireType w = ty := by
  unfold constructHeader at h
  split at h
  · injection h with h
    subst h
    unfold wireType
    have hm : marker.length = 16 := by decide
    have h2 : (be16 (body.length + 19)).length = 2 := by simp [be16]
    simp only [List.getD_eq_getElem?_getD, List.append_assoc]
    rw [List.getElem?_append_right (by omega), List.getElem?_append_right (by omega)]
    simp [hm, h2, be8, u8]
    omega
  · cases h

theorem wireType_notif (e sub : Nat) (d : Bytes) : wireType (notifWire e sub d) = 3 := by
  unfold wireType notifWire
  have hm : marker.length = 16 := by decide
  have h2 : (be16 (d.length + 21)).length = 2 := by simp [be16]
  simp only [List.getD_eq_getElem?_getD, List.append_assoc]
  rw [List.getElem?_append_right (by omega), List.getElem?_append_right (by omega)]
  simp [hm, h2, be8, u8]

theorem bal_sendKeepalive {s : Sess} {i : Nat} (h : Norm s i) : Bal s s.sendKeepalive := by
  rw [sendKeepalive_norm h]
  exact bal_count_write s i 4 _ _ h.lt sentOf_incKeepalives (wireKind_of_type wireType_keepalive (by decide))

theorem bal_sendNotification {s : Sess} {i : Nat} (h : Norm s i) (e sub : Nat) (d : Bytes)
    (he : e < 256) (hs : sub < 256) (hd : d.length + 21 < 65536) : Bal s (s.sendNotification e sub d) := by
  rw [sendNotification_norm h e sub d he hs hd]
  exact bal_count_write s i 3 _ _ h.lt sentOf_incNotifications (wireKind_of_type (wireType_notif e sub d) (by decide))

theorem wireType_openWire (s : Sess) (w : Bytes) (h : s.openWire = some w) : wireType w = 1 := by
  unfold openWire constructOpen at h
  simp only [Option.bind_eq_bind] at h
  cases hc : constructCaps s.cfg.localAs (negotiateCaps s.localCaps s.remote) with
  | none => simp [hc] at h
  | some capas =>
    simp only [hc, Option.bind_some] at h
    split at h
    · exact wireType_header _ _ _ (by decide) h
    · cases h

/-- send_open on a tracked connection whose transport is up -/
theorem bal_sendOpen {s : Sess} {i : Nat} (hp : s.proto = some i) (hlt : i < s.conns.length)
    (hup : transportUp (s.conn i) = true) : Bal s s.sendOpen.1 := by
  unfold sendOpen
  simp only [hp]
  cases hw : s.openWire with
  | none => exact (sq_withLocalCaps s _).bal
  | some w =>
    simp only
    have hup' : transportUp ((s.withLocalCaps (negotiateCaps s.localCaps s.remote)).conn i) = true := hup
    simp only [writeOn, hup', ↓reduceIte]
    -- the order here is write, then count; the balance is the same
    have hb : Bal (s.withLocalCaps (negotiateCaps s.localCaps s.remote))
        (((s.withLocalCaps (negotiateCaps s.localCaps s.remote)).emit (.write i w)).bumpSent i incOpens) := by
      have := bal_count_write (s.withLocalCaps (negotiateCaps s.localCaps s.remote)) i 1 incOpens w hlt sentOf_incOpens
        (wireKind_of_type (wireType_openWire s w hw) (by decide))
      intro j ty
      have h1 := this j ty
      have e1 : (((s.withLocalCaps (negotiateCaps s.localCaps s.remote)).emit (.write i w)).bumpSent i incOpens).outs =
          (((s.withLocalCaps (negotiateCaps s.localCaps s.remote)).bumpSent i incOpens).emit (.write i w)).outs := rfl
      have e2 : (((s.withLocalCaps (negotiateCaps s.localCaps s.remote)).emit (.write i w)).bumpSent i incOpens).conn j =
          (((s.withLocalCaps (negotiateCaps s.localCaps s.remote)).bumpSent i incOpens).emit (.write i w)).conn j := rfl
      rw [e1, e2]
      exact h1
    exact ((sq_withLocalCaps s _).bal.trans hb).trans (sq_emit _ _ rfl).bal

end Sess
end Yabgp
