/-
  The "at most one connection or attempt" invariant of C12, on the control skeleton, for the histories that
  avoid the three recorded findings (a start, a connect-retry expiry or an automatic start while a connection
  attempt is still pending).
-/
import Yabgp.Lemmas.Heal

namespace Yabgp
namespace Core

/-- connection `j` is live: an attempt is pending or the transport is up and we have not closed it -/
def Live (c : Core) (j : Nat) : Prop := (c.conn j).1 = .connecting ∨ (c.conn j).1 = .connected

structure One (c : Core) : Prop where
  one : ∀ i j, i < c.conns.length → j < c.conns.length → Live c i → Live c j → i = j
  tracked : ∀ j, j < c.conns.length → (c.conn j).1 = .connected → c.proto = some j ∧ c.estab = some j ∧ c.st ≠ .idle

def NoConnected (c : Core) : Prop := ∀ j, j < c.conns.length → (c.conn j).1 ≠ .connected
def NoLive (c : Core) : Prop := ∀ j, j < c.conns.length → ¬ Live c j

/-- the events that start a connection attempt must not find one pending (the recorded findings of C12 / C13) -/
def calmC (c : Core) : Ev → Prop
  | .manualStart | .boot | .fire .retry | .fire .idleHold => ∀ j, j < c.conns.length → (c.conn j).1 ≠ .connecting
  | _ => True

/-- `c'` has the same connections as `c`, except that some may have moved towards closing / closed -/
def Shrunk (c c' : Core) : Prop :=
  c'.conns.length = c.conns.length ∧ ∀ j, Live c' j → Live c j ∧ (c'.conn j).1 = (c.conn j).1

theorem Shrunk.refl (c : Core) : Shrunk c c := ⟨rfl, fun _ h => ⟨h, rfl⟩⟩
theorem Shrunk.trans {a b c : Core} (h1 : Shrunk a b) (h2 : Shrunk b c) : Shrunk a c :=
  ⟨h2.1.trans h1.1, fun j h => ⟨(h1.2 j (h2.2 j h).1).1, (h2.2 j h).2.trans (h1.2 j (h2.2 j h).1).2⟩⟩
theorem Shrunk.of_conns {c c' : Core} (h : c'.conns = c.conns) : Shrunk c c' := by
  refine ⟨by rw [h], fun j hl => ?_⟩
  have : c'.conn j = c.conn j := by simp only [conn, h]
  unfold Live at *; rw [this] at hl ⊢; exact ⟨hl, rfl⟩

theorem shrunk_closeOn (c : Core) (i : Nat) : Shrunk c (c.closeOn i) := by
  refine ⟨len_closeOn c i, fun j hl => ?_⟩
  unfold Live at hl ⊢
  rw [conn_closeOn] at hl ⊢
  split at hl
  · simp at hl
  · rename_i h; rw [if_neg h]; exact ⟨hl, rfl⟩

theorem shrunk_closeConn (c : Core) : Shrunk c c.closeConn := by
  unfold closeConn; split
  · exact Shrunk.refl c
  · exact shrunk_closeOn c _

theorem shrunk_setPhase_closed (c : Core) (i : Nat) : Shrunk c (c.setPhase i .closed) := by
  refine ⟨len_setPhase c i _, fun j hl => ?_⟩
  unfold Live at hl ⊢
  rw [conn_setPhase] at hl ⊢
  split at hl
  · simp at hl
  · rename_i h; rw [if_neg h]; exact ⟨hl, rfl⟩

/-- the uniqueness half survives shrinking -/
theorem one_of_shrunk {c c' : Core} (h : One c) (hs : Shrunk c c') :
    ∀ i j, i < c'.conns.length → j < c'.conns.length → Live c' i → Live c' j → i = j := by
  intro i j hi hj li lj
  rw [hs.1] at hi hj
  exact h.one i j hi hj (hs.2 i li).1 (hs.2 j lj).1

/-- nothing connected: the invariant only needs uniqueness -/
theorem One.of_noConnected {c : Core} (h1 : ∀ i j, i < c.conns.length → j < c.conns.length → Live c i → Live c j → i = j)
    (h2 : NoConnected c) : One c := ⟨h1, fun j hj hc => absurd hc (h2 j hj)⟩

/-- after `_close_connection` nothing is connected any more: the only connected connection was the tracked one -/
theorem noConnected_closeConn {c : Core} (h : One c) : NoConnected c.closeConn := by
  intro j hj hc
  rw [len_closeConn] at hj
  have hs := (shrunk_closeConn c).2 j (Or.inr hc)
  have hcj : (c.conn j).1 = .connected := by rw [← hs.2]; exact hc
  obtain ⟨hp, _, _⟩ := h.tracked j hj hcj
  unfold closeConn at hc
  rw [hp] at hc
  simp only at hc
  rw [conn_closeOn, if_pos ⟨rfl, hj, Or.inl hcj⟩] at hc
  cases hc

/-- any state reached from `closeConn c` by scalar updates satisfies the invariant -/
theorem one_after_close {c c' : Core} (h : One c) (hc : c'.conns = c.closeConn.conns) : One c' := by
  have hs : Shrunk c c' := (shrunk_closeConn c).trans (Shrunk.of_conns hc)
  apply One.of_noConnected (one_of_shrunk h hs)
  intro j hj
  have : c'.conn j = c.closeConn.conn j := by simp only [conn, hc]
  rw [this]
  exact noConnected_closeConn h j (by rw [← hc]; exact hj)

theorem one_errorClose {c : Core} (h : One c) : One c.errorClose := by
  have h' : One (c.withTm false true) := ⟨h.one, h.tracked⟩
  exact one_after_close h' rfl

/-- same connections and references; the state does not become Idle unless nothing is connected -/
theorem One.of_same {c c' : Core} (h : One c) (hc : c'.conns = c.conns) (hp : c'.proto = c.proto) (he : c'.estab = c.estab)
    (hst : c'.st = .idle → c.st = .idle) : One c' := by
  have hconn : ∀ j, c'.conn j = c.conn j := fun j => by simp only [conn, hc]
  refine ⟨?_, ?_⟩
  · intro i j hi hj li lj
    rw [hc] at hi hj
    unfold Live at li lj; rw [hconn] at li lj
    exact h.one i j hi hj li lj
  · intro j hj hcj
    rw [hc] at hj; rw [hconn] at hcj
    obtain ⟨h1, h2, h3⟩ := h.tracked j hj hcj
    exact ⟨hp.trans h1, he.trans h2, fun e => h3 (hst e)⟩

/-- a new attempt when nothing is live -/
theorem one_connectTcp {c : Core} (hn : NoLive c) : One c.connectTcp := by
  unfold connectTcp
  split
  · have hconn : ∀ j, ({ c with conns := c.conns ++ [(.connecting, false)] } : Core).conn j =
        if j < c.conns.length then c.conn j else if j = c.conns.length then (.connecting, false) else (.connecting, false) := by
      intro j; simp only [conn, getD_append_one]
    refine ⟨?_, ?_⟩
    · intro i j hi hj li lj
      simp only [List.length_append, List.length_cons, List.length_nil] at hi hj
      have key : ∀ k, k < c.conns.length + 1 → Live ({ c with conns := c.conns ++ [(.connecting, false)] } : Core) k → k = c.conns.length := by
        intro k hk lk
        by_cases hkl : k < c.conns.length
        · unfold Live at lk; rw [hconn, if_pos hkl] at lk
          exact absurd lk (hn k hkl)
        · omega
      rw [key i (by omega) li, key j (by omega) lj]
    · intro j hj hcj
      simp only [List.length_append, List.length_cons, List.length_nil] at hj
      rw [hconn] at hcj
      split at hcj
      · rename_i hl; exact absurd (Or.inr hcj) (hn j hl)
      · split at hcj <;> cases hcj
  · exact One.of_noConnected (fun i j hi hj li _ => absurd li (hn i hi)) (fun j hj hc => hn j hj (Or.inr hc))

theorem NoLive.of_conns {c c' : Core} (h : NoLive c) (hc : c'.conns = c.conns) : NoLive c' := by
  intro j hj; unfold Live; simp only [conn, hc]; rw [hc] at hj; exact h j hj

/-- in Idle nothing is connected; with no attempt pending nothing is live -/
theorem noLive_of_idle {c : Core} (h : One c) (hs : c.st = .idle)
    (hcalm : ∀ j, j < c.conns.length → (c.conn j).1 ≠ .connecting) : NoLive c := by
  intro j hj hl
  rcases hl with hl | hl
  · exact hcalm j hj hl
  · exact (h.tracked j hj hl).2.2 hs

theorem one_autoStart {c : Core} (h : One c) (b : Bool)
    (hcalm : b = false → ∀ j, j < c.conns.length → (c.conn j).1 ≠ .connecting) : One (c.autoStart b) := by
  unfold autoStart
  split
  · rename_i hs
    split
    · exact h.of_same rfl rfl rfl (fun _ => hs)
    · rename_i hb
      split
      · exact one_connectTcp ((noLive_of_idle h hs (hcalm (by simpa using hb))).of_conns rfl)
      · exact h
  · exact h

theorem one_frameOutcome {c : Core} (h : One c) : ∀ o ∈ c.frameOutcomes, One o := by
  intro o ho
  simp only [frameOutcomes, List.mem_cons, List.not_mem_nil, or_false] at ho
  have herr := one_errorClose h
  rcases ho with rfl | rfl | rfl | rfl | rfl | rfl | rfl
  · exact h
  · exact herr
  · unfold fsmOpenReceived
    cases hs : c.st <;> simp only <;> first | exact h | exact herr | skip
    exact h.of_same rfl rfl rfl (fun e => by simp [withSt] at e)
  · unfold fsmKeepaliveReceived
    cases hs : c.st <;> simp only <;> first | exact h | exact herr | skip
    exact h.of_same rfl rfl rfl (fun e => by simp [withSt] at e)
  · unfold fsmUpdateReceived
    cases hs : c.st <;> simp only <;> first | exact h | exact herr
  · unfold fsmNotificationReceived
    simp only [↓reduceIte]
    have hv : One (((c.setRetry false).closeConn).withSt .idle) :=
      one_after_close (c := c.setRetry false) ⟨h.one, h.tracked⟩ rfl
    cases hs : c.st <;> simp only <;> first | exact h | exact herr | exact hv
  · unfold fsmNotificationReceived
    simp only [Bool.false_eq_true, ↓reduceIte]
    split
    · exact herr
    · exact h

/-- BGPPeering.connection_closed on a state where nothing connected would be orphaned by going Idle -/
theorem one_connectionClosed {c : Core} (h : One c) (p : Option Nat)
    (hp : ∀ q, p = some q → c.estab = some q → NoConnected c) : One (c.connectionClosed p) := by
  have hd : One (c.dropEstab p) := by
    unfold dropEstab
    cases p with
    | none => exact h
    | some q =>
      simp only
      split
      · rename_i he
        exact One.of_noConnected h.one (hp q rfl he)
      · exact h
  unfold connectionClosed
  split
  · exact one_autoStart hd true (fun e => by cases e)
  · exact hd

theorem one_connectionFailed {c : Core} (h : One c) (hna : c.st ≠ .active) : One c.connectionFailed := by
  unfold connectionFailed
  cases hs : c.st <;> simp only
  · exact h
  · -- Connect
    apply one_connectionClosed
    · exact one_after_close (c := c.setRetry false) ⟨h.one, h.tracked⟩ rfl
    · intro q _ _ j hj
      have : (((c.setRetry false).closeConn).withSt .idle).conn j = (c.setRetry false).closeConn.conn j := rfl
      rw [this]
      exact noConnected_closeConn (c := c.setRetry false) ⟨h.one, h.tracked⟩ j hj
  · exact absurd hs hna
  · -- OpenSent
    apply one_connectionClosed
    · exact one_after_close (c := c) h rfl
    · intro q _ _ j hj
      have : (((c.closeConn).setRetry true).withSt .active).conn j = c.closeConn.conn j := rfl
      rw [this]
      exact noConnected_closeConn h j hj
  · exact one_errorClose h
  · exact one_errorClose h

theorem one_setPhase_closed {c : Core} (h : One c) (i : Nat) : One (c.setPhase i .closed) := by
  refine ⟨one_of_shrunk h (shrunk_setPhase_closed c i), ?_⟩
  intro j hj hcj
  rw [len_setPhase] at hj
  have hs := (shrunk_setPhase_closed c i).2 j (Or.inr hcj)
  have := h.tracked j hj (by rw [← hs.2]; exact hcj)
  exact this

theorem one_stepOutcome {c : Core} (h : One c) (hh : Heal c) (e : Ev) (hen : enabledC c e) (hcalm : calmC c e) :
    ∀ o ∈ c.stepOutcome e, One o := by
  intro o ho
  cases e with
  | boot =>
    simp only [stepOutcome, List.mem_singleton] at ho; subst ho
    exact one_autoStart h false (fun _ => hcalm)
  | manualStart =>
    simp only [stepOutcome, List.mem_singleton] at ho; subst ho
    unfold manualStart
    cases hs : c.st <;> simp only
    · exact one_connectTcp ((noLive_of_idle h hs hcalm).of_conns rfl)
    all_goals exact h
  | manualStop =>
    simp only [stepOutcome, List.mem_singleton] at ho; subst ho
    exact one_after_close (c := c.withTm false false) ⟨h.one, h.tracked⟩ rfl
  | connOk i =>
    obtain ⟨hl, hph⟩ := hen
    -- the adopted connection was the only live one
    have hconn : ∀ (c' : Core), c'.conns = (c.setPhase i .connected).conns → ∀ j, j < c.conns.length →
        (c'.conn j).1 = .connected → j = i := by
      intro c' hc j hj hcj
      have e1 : c'.conn j = (c.setPhase i .connected).conn j := by simp only [conn, hc]
      rw [e1, conn_setPhase] at hcj
      by_cases hij : i = j
      · exact hij.symm
      · rw [if_neg (fun hh => hij hh.1)] at hcj
        exact (h.one i j hl hj (Or.inl hph) (Or.inr hcj)).symm
    have hone : ∀ (c' : Core), c'.conns = (c.setPhase i .connected).conns →
        ∀ a b, a < c'.conns.length → b < c'.conns.length → Live c' a → Live c' b → a = b := by
      intro c' hc a b ha hb la lb
      rw [hc, len_setPhase] at ha hb
      have key : ∀ k, k < c.conns.length → Live c' k → k = i := by
        intro k hk lk
        have e1 : c'.conn k = (c.setPhase i .connected).conn k := by simp only [conn, hc]
        unfold Live at lk
        rw [e1, conn_setPhase] at lk
        by_cases hik : i = k
        · exact hik.symm
        · rw [if_neg (fun hh => hik hh.1)] at lk
          exact (h.one i k hl hk (Or.inl hph) lk).symm
      rw [key a ha la, key b hb lb]
    simp only [stepOutcome, List.mem_cons, List.not_mem_nil, or_false] at ho
    rcases ho with rfl | rfl
    · simp only [connOk, ↓reduceIte]
      refine ⟨hone _ rfl, ?_⟩
      intro j hj hcj
      have hj' : j < c.conns.length := by simpa [withSt, setIdleHold, setRetry, withEstab, withProto, setPhase] using hj
      have := hconn _ rfl j hj' hcj
      subst this
      exact ⟨rfl, rfl, by simp [withSt]⟩
    · simp only [connOk, Bool.false_eq_true, ↓reduceIte]
      refine ⟨hone _ rfl, ?_⟩
      intro j hj hcj
      have hj' : j < c.conns.length := by simpa [withSt, setIdleHold, setRetry, withEstab, withProto, setPhase] using hj
      have := hconn _ rfl j hj' hcj
      subst this
      exact ⟨rfl, rfl, by simp [withSt, setIdleHold, setRetry, withEstab]⟩
  | connFail i =>
    obtain ⟨hl, hph⟩ := hen
    simp only [stepOutcome, List.mem_singleton] at ho; subst ho
    unfold connFail
    exact one_connectionFailed (one_setPhase_closed h i) hh.noActive
  | lost i =>
    simp only [stepOutcome, List.mem_singleton] at ho; subst ho
    unfold connLost
    split
    · rename_i hd
      apply one_connectionClosed (one_setPhase_closed h i)
      intro q hq he j hj hcj
      cases hq
      rw [len_setPhase] at hj
      have hs := (shrunk_setPhase_closed c i).2 j (Or.inr hcj)
      have ht := h.tracked j hj (by rw [← hs.2]; exact hcj)
      have he' : c.estab = some i := he
      rw [he'] at ht
      have hji : j = i := by have := ht.2.1; simp at this; exact this.symm
      subst hji
      rw [conn_setPhase, if_pos ⟨rfl, hj⟩] at hcj
      cases hcj
    · rename_i hd
      exact one_connectionFailed (one_setPhase_closed h i) hh.noActive
  | advance dt =>
    simp only [stepOutcome, List.mem_singleton] at ho; subst ho; exact h
  | chunk i d => simp [stepOutcome] at ho
  | fire t =>
    cases t with
    | retry =>
      simp only [stepOutcome, List.mem_singleton] at ho; subst ho
      unfold fireRetry
      have hcl : One ((c.setRetry false).closeConn) := one_after_close (c := c.setRetry false) ⟨h.one, h.tracked⟩ rfl
      have hnl : NoLive (((c.setRetry false).closeConn).setRetry true) := by
        intro j hj hlv
        have hj' : j < c.conns.length := by
          have : (((c.setRetry false).closeConn).setRetry true).conns.length = c.conns.length := len_closeConn (c.setRetry false)
          rw [this] at hj; exact hj
        have hlv' : Live ((c.setRetry false).closeConn) j := hlv
        rcases hlv' with hc | hc
        · have hs := (shrunk_closeConn (c.setRetry false)).2 j (Or.inl hc)
          have e : (c.setRetry false).conn j = c.conn j := rfl
          exact hcalm j hj' (by rw [← e, ← hs.2]; exact hc)
        · exact noConnected_closeConn (c := c.setRetry false) ⟨h.one, h.tracked⟩ j (by rw [len_closeConn]; exact hj') hc
      cases hs : c.st <;> simp only
      · exact h.of_same rfl rfl rfl (fun _ => hs)
      · exact one_connectTcp hnl
      · exact one_connectTcp hnl
      all_goals exact one_errorClose (c := c.setRetry false) ⟨h.one, h.tracked⟩
    | hold =>
      simp only [stepOutcome, List.mem_singleton] at ho; subst ho
      unfold fireHold
      have h2 : One (((c.setRetry false).errorClose).withSt .idle) :=
        one_after_close (c := (c.setRetry false).withTm false true) ⟨h.one, h.tracked⟩ rfl
      cases hs : c.st <;> simp only
      · exact h
      · exact one_errorClose h
      · exact one_errorClose h
      all_goals exact h2
    | keepalive =>
      simp only [stepOutcome, List.mem_singleton] at ho; subst ho
      unfold fireKeepalive
      cases hs : c.st <;> simp only
      all_goals first | exact h | exact one_errorClose h
    | idleHold =>
      simp only [stepOutcome, List.mem_singleton] at ho; subst ho
      unfold fireIdleHold
      split
      · exact one_autoStart (c := c.setIdleHold false) ⟨h.one, h.tracked⟩ false (fun _ => hcalm)
      · rename_i hs
        exact h.of_same rfl rfl rfl (fun e => absurd e hs)

end Core
end Yabgp
