/-
  The "at most one connection or attempt" invariant of C12, on the control skeleton, for ALL histories: the peering
  keeps the connector of the attempt in flight (`pending`, BGPPeering.connector) and gives it up before it starts
  another one and at manual stop.
-/
import Yabgp.Lemmas.Heal

namespace Yabgp
namespace Core

/-- connection `j` is live: an attempt is pending or the transport is up and we have not closed it -/
def Live (c : Core) (j : Nat) : Prop := (c.conn j).1 = .connecting ∨ (c.conn j).1 = .connected

structure One (c : Core) : Prop where
  one : ∀ i j, i < c.conns.length → j < c.conns.length → Live c i → Live c j → i = j
  tracked : ∀ j, j < c.conns.length → (c.conn j).1 = .connected → c.proto = some j ∧ c.estab = some j ∧ c.st ≠ .idle

def NoConnected (c : Core) : Prop := ∀ j, j < c.conns.length → (c.conn j).1 ≠ .connected
def NoLive (c : Core) : Prop := ∀ j, j < c.conns.length → ¬ Live c j

/-- every attempt in flight is the one the peering remembers -/
def Pend (c : Core) : Prop := ∀ j, j < c.conns.length → (c.conn j).1 = .connecting → c.pending = some j

def NoConnecting (c : Core) : Prop := ∀ j, j < c.conns.length → (c.conn j).1 ≠ .connecting

/-- `c'` has the same connections as `c`, except that some may have moved towards closing / closed -/
def Shrunk (c c' : Core) : Prop :=
  c'.conns.length = c.conns.length ∧ ∀ j, Live c' j → Live c j ∧ (c'.conn j).1 = (c.conn j).1

theorem Shrunk.refl (c : Core) : Shrunk c c := ⟨rfl, fun _ h => ⟨h, rfl⟩⟩
theorem Shrunk.trans {a b c : Core} (h1 : Shrunk a b) (h2 : Shrunk b c) : Shrunk a c :=
  ⟨h2.1.trans h1.1, fun j h => ⟨(h1.2 j (h2.2 j h).1).1, (h2.2 j h).2.trans (h1.2 j (h2.2 j h).1).2⟩⟩
theorem Shrunk.of_conns {c c' : Core} (h : c'.conns = c.conns) : Shrunk c c' := by
  refine ⟨by rw [h], fun j hl => ?_⟩
  have : c'.conn j = c.conn j := by simp only [conn, h]
  unfold Live at *; rw [this] at hl ⊢; exact ⟨hl, rfl⟩

theorem shrunk_closeOn (c : Core) (i : Nat) : Shrunk c (c.closeOn i) := by
  refine ⟨len_closeOn c i, fun j hl => ?_⟩
  unfold Live at hl ⊢
  rw [conn_closeOn] at hl ⊢
  split at hl
  · simp at hl
  · rename_i h; rw [if_neg h]; exact ⟨hl, rfl⟩

theorem shrunk_closeConn (c : Core) : Shrunk c c.closeConn := by
  unfold closeConn; split
  · exact Shrunk.refl c
  · exact shrunk_closeOn c _

theorem shrunk_setPhase_closed (c : Core) (i : Nat) : Shrunk c (c.setPhase i .closed) := by
  refine ⟨len_setPhase c i _, fun j hl => ?_⟩
  unfold Live at hl ⊢
  rw [conn_setPhase] at hl ⊢
  split at hl
  · simp at hl
  · rename_i h; rw [if_neg h]; exact ⟨hl, rfl⟩

theorem shrunk_abortPending (c : Core) : Shrunk c c.abortPending := by
  refine ⟨len_abortPending c, fun j hl => ?_⟩
  unfold Live at hl ⊢
  rcases conn_abortPending c j with h | ⟨h, _, _⟩
  · rw [h] at hl ⊢; exact ⟨hl, rfl⟩
  · rw [h] at hl; simp at hl

/-- after the abort no attempt is in flight -/
theorem noConnecting_abortPending {c : Core} (h : Pend c) : NoConnecting c.abortPending := by
  intro j hj hc
  rw [len_abortPending] at hj
  rcases conn_abortPending c j with h1 | ⟨h1, _, _⟩
  · rw [h1] at hc
    have hp := h j hj hc
    -- then `j` is the pending one and the abort closes it
    unfold abortPending at h1
    rw [hp] at h1
    simp only [hc, ↓reduceIte] at h1
    have := conn_setPhase (c.withPending none) j j .closed
    rw [if_pos ⟨rfl, hj⟩] at this
    rw [this] at h1
    have hh : (c.conn j).1 = .closed := by rw [← h1]
    rw [hc] at hh; cases hh
  · rw [h1] at hc; cases hc

theorem Pend.of_conns {c c' : Core} (h : Pend c) (hc : c'.conns = c.conns) (hp : c'.pending = c.pending) : Pend c' := by
  intro j hj hcj
  rw [hc] at hj
  have : c'.conn j = c.conn j := by simp only [conn, hc]
  rw [this] at hcj
  exact hp.trans (h j hj hcj)

/-- removing attempts / moving connections towards closed keeps `Pend` -/
theorem Pend.of_shrunk {c c' : Core} (h : Pend c) (hs : Shrunk c c') (hp : c'.pending = c.pending) : Pend c' := by
  intro j hj hcj
  rw [hs.1] at hj
  have := hs.2 j (Or.inl hcj)
  exact hp.trans (h j hj (by rw [← this.2]; exact hcj))

theorem pend_closeConn {c : Core} (h : Pend c) : Pend c.closeConn :=
  h.of_shrunk (shrunk_closeConn c) (by unfold closeConn; split <;> simp [closeOn]; split <;> rfl)

theorem pend_of_noConnecting {c : Core} (h : NoConnecting c) : Pend c := fun j hj hc => absurd hc (h j hj)

theorem pend_abortPending {c : Core} (h : Pend c) : Pend c.abortPending := pend_of_noConnecting (noConnecting_abortPending h)

theorem pend_connectTcp {c : Core} (h : Pend c) : Pend c.connectTcp := by
  have hn := noConnecting_abortPending h
  unfold connectTcp
  split
  · intro j hj hcj
    simp only [List.length_append, List.length_cons, List.length_nil] at hj
    simp only [conn, getD_append_one] at hcj
    by_cases hl : j < c.abortPending.conns.length
    · rw [if_pos hl] at hcj; exact absurd hcj (hn j hl)
    · have : j = c.abortPending.conns.length := by omega
      rw [this]
  · exact pend_of_noConnecting hn

/-- the uniqueness half survives shrinking -/
theorem one_of_shrunk {c c' : Core} (h : One c) (hs : Shrunk c c') :
    ∀ i j, i < c'.conns.length → j < c'.conns.length → Live c' i → Live c' j → i = j := by
  intro i j hi hj li lj
  rw [hs.1] at hi hj
  exact h.one i j hi hj (hs.2 i li).1 (hs.2 j lj).1

/-- nothing connected: the invariant only needs uniqueness -/
theorem One.of_noConnected {c : Core} (h1 : ∀ i j, i < c.conns.length → j < c.conns.length → Live c i → Live c j → i = j)
    (h2 : NoConnected c) : One c := ⟨h1, fun j hj hc => absurd hc (h2 j hj)⟩

/-- after `_close_connection` nothing is connected any more: the only connected connection was the tracked one -/
theorem noConnected_closeConn {c : Core} (h : One c) : NoConnected c.closeConn := by
  intro j hj hc
  rw [len_closeConn] at hj
  have hs := (shrunk_closeConn c).2 j (Or.inr hc)
  have hcj : (c.conn j).1 = .connected := by rw [← hs.2]; exact hc
  obtain ⟨hp, _, _⟩ := h.tracked j hj hcj
  unfold closeConn at hc
  rw [hp] at hc
  simp only at hc
  rw [conn_closeOn, if_pos ⟨rfl, hj, Or.inl hcj⟩] at hc
  cases hc

/-- any state reached from `closeConn c` by scalar updates satisfies the invariant -/
theorem one_after_close {c c' : Core} (h : One c) (hc : c'.conns = c.closeConn.conns) : One c' := by
  have hs : Shrunk c c' := (shrunk_closeConn c).trans (Shrunk.of_conns hc)
  apply One.of_noConnected (one_of_shrunk h hs)
  intro j hj
  have : c'.conn j = c.closeConn.conn j := by simp only [conn, hc]
  rw [this]
  exact noConnected_closeConn h j (by rw [← hc]; exact hj)

theorem one_errorClose {c : Core} (h : One c) : One c.errorClose := by
  have h' : One (c.withTm false true) := ⟨h.one, h.tracked⟩
  exact one_after_close h' rfl

/-- same connections and references; the state does not become Idle unless nothing is connected -/
theorem One.of_same {c c' : Core} (h : One c) (hc : c'.conns = c.conns) (hp : c'.proto = c.proto) (he : c'.estab = c.estab)
    (hst : c'.st = .idle → c.st = .idle) : One c' := by
  have hconn : ∀ j, c'.conn j = c.conn j := fun j => by simp only [conn, hc]
  refine ⟨?_, ?_⟩
  · intro i j hi hj li lj
    rw [hc] at hi hj
    unfold Live at li lj; rw [hconn] at li lj
    exact h.one i j hi hj li lj
  · intro j hj hcj
    rw [hc] at hj; rw [hconn] at hcj
    obtain ⟨h1, h2, h3⟩ := h.tracked j hj hcj
    exact ⟨hp.trans h1, he.trans h2, fun e => h3 (hst e)⟩

/-- a new attempt when nothing is live -/
theorem one_append {a : Core} (hn : NoLive a) (p : Option Nat) :
    One ({ a with conns := a.conns ++ [(.connecting, false)], pending := p } : Core) := by
  have hconn : ∀ j, ({ a with conns := a.conns ++ [(.connecting, false)], pending := p } : Core).conn j =
      if j < a.conns.length then a.conn j else if j = a.conns.length then (.connecting, false) else (.connecting, false) := by
    intro j; simp only [conn, getD_append_one]
  refine ⟨?_, ?_⟩
  · intro i j hi hj li lj
    simp only [List.length_append, List.length_cons, List.length_nil] at hi hj
    have key : ∀ k, k < a.conns.length + 1 →
        Live ({ a with conns := a.conns ++ [(.connecting, false)], pending := p } : Core) k → k = a.conns.length := by
      intro k hk lk
      by_cases hkl : k < a.conns.length
      · unfold Live at lk; rw [hconn, if_pos hkl] at lk
        exact absurd lk (hn k hkl)
      · omega
    rw [key i (by omega) li, key j (by omega) lj]
  · intro j hj hcj
    simp only [List.length_append, List.length_cons, List.length_nil] at hj
    rw [hconn] at hcj
    split at hcj
    · rename_i hl; exact absurd (Or.inr hcj) (hn j hl)
    · split at hcj <;> cases hcj

theorem one_connectTcp {c : Core} (hn : NoLive c.abortPending) : One c.connectTcp := by
  unfold connectTcp
  split
  · exact one_append hn _
  · exact One.of_noConnected (fun i j hi hj li _ => absurd li (hn i hi)) (fun j hj hc => hn j hj (Or.inr hc))

/-- after the abort nothing is live, provided nothing was connected -/
theorem noLive_abort {c : Core} (hp : Pend c) (hnc : NoConnected c) : NoLive c.abortPending := by
  intro j hj hl
  rcases hl with hl | hl
  · exact noConnecting_abortPending hp j hj hl
  · rw [len_abortPending] at hj
    have := (shrunk_abortPending c).2 j (Or.inr hl)
    exact hnc j hj (by rw [← this.2]; exact hl)

theorem NoLive.of_conns {c c' : Core} (h : NoLive c) (hc : c'.conns = c.conns) : NoLive c' := by
  intro j hj; unfold Live; simp only [conn, hc]; rw [hc] at hj; exact h j hj

/-- in Idle nothing is connected -/
theorem noConnected_of_idle {c : Core} (h : One c) (hs : c.st = .idle) : NoConnected c :=
  fun j hj hl => (h.tracked j hj hl).2.2 hs

theorem one_autoStart {c : Core} (h : One c) (hp : Pend c) (b : Bool) : One (c.autoStart b) := by
  unfold autoStart
  split
  · rename_i hs
    split
    · exact h.of_same rfl rfl rfl (fun _ => hs)
    · split
      · apply one_connectTcp
        apply noLive_abort (c := (c.setRetry true).withSt .connect) (hp.of_conns rfl rfl)
        exact fun j hj hl => noConnected_of_idle h hs j hj hl
      · exact h
  · exact h

theorem pend_autoStart {c : Core} (hp : Pend c) (b : Bool) : Pend (c.autoStart b) := by
  unfold autoStart
  split
  · split
    · exact hp.of_conns rfl rfl
    · split
      · exact pend_connectTcp (hp.of_conns rfl rfl)
      · exact hp
  · exact hp

theorem one_frameOutcome {c : Core} (h : One c) : ∀ o ∈ c.frameOutcomes, One o := by
  intro o ho
  simp only [frameOutcomes, List.mem_cons, List.not_mem_nil, or_false] at ho
  have herr := one_errorClose h
  rcases ho with rfl | rfl | rfl | rfl | rfl | rfl | rfl
  · exact h
  · exact herr
  · unfold fsmOpenReceived
    cases hs : c.st <;> simp only <;> first | exact h | exact herr | skip
    exact h.of_same rfl rfl rfl (fun e => by simp [withSt] at e)
  · unfold fsmKeepaliveReceived
    cases hs : c.st <;> simp only <;> first | exact h | exact herr | skip
    exact h.of_same rfl rfl rfl (fun e => by simp [withSt] at e)
  · unfold fsmUpdateReceived
    cases hs : c.st <;> simp only <;> first | exact h | exact herr
  · unfold fsmNotificationReceived
    simp only [↓reduceIte]
    have hv : One (((c.setRetry false).closeConn).withSt .idle) :=
      one_after_close (c := c.setRetry false) ⟨h.one, h.tracked⟩ rfl
    cases hs : c.st <;> simp only <;> first | exact h | exact herr | exact hv
  · unfold fsmNotificationReceived
    simp only [Bool.false_eq_true, ↓reduceIte]
    split
    · exact herr
    · exact h

theorem pend_errorClose {c : Core} (hp : Pend c) : Pend c.errorClose :=
  (pend_closeConn (c := c.withTm false true) (hp.of_conns rfl rfl)).of_conns rfl rfl

theorem pend_frameOutcome {c : Core} (hp : Pend c) : ∀ o ∈ c.frameOutcomes, Pend o := by
  intro o ho
  simp only [frameOutcomes, List.mem_cons, List.not_mem_nil, or_false] at ho
  have herr := pend_errorClose hp
  have hv : Pend (((c.setRetry false).closeConn).withSt .idle) :=
    (pend_closeConn (c := c.setRetry false) (hp.of_conns rfl rfl)).of_conns rfl rfl
  rcases ho with rfl | rfl | rfl | rfl | rfl | rfl | rfl
  · exact hp
  · exact herr
  · unfold fsmOpenReceived
    cases hs : c.st <;> simp only <;> first | exact hp | exact herr | exact hp.of_conns rfl rfl
  · unfold fsmKeepaliveReceived
    cases hs : c.st <;> simp only <;> first | exact hp | exact herr | exact hp.of_conns rfl rfl
  · unfold fsmUpdateReceived
    cases hs : c.st <;> simp only <;> first | exact hp | exact herr
  · unfold fsmNotificationReceived
    simp only [↓reduceIte]
    cases hs : c.st <;> simp only <;> first | exact hp | exact herr | exact hv
  · unfold fsmNotificationReceived
    simp only [Bool.false_eq_true, ↓reduceIte]
    split
    · exact herr
    · exact hp

/-- BGPPeering.connection_closed on a state where nothing connected would be orphaned by going Idle -/
theorem one_connectionClosed {c : Core} (h : One c) (hpd : Pend c) (p : Option Nat)
    (hp : ∀ q, p = some q → c.estab = some q → NoConnected c) : One (c.connectionClosed p) := by
  have hd : One (c.dropEstab p) ∧ Pend (c.dropEstab p) := by
    unfold dropEstab
    cases p with
    | none => exact ⟨h, hpd⟩
    | some q =>
      simp only
      split
      · rename_i he
        exact ⟨One.of_noConnected h.one (hp q rfl he), hpd.of_conns rfl rfl⟩
      · exact ⟨h, hpd⟩
  unfold connectionClosed
  split
  · exact one_autoStart hd.1 hd.2 true
  · exact hd.1

theorem pend_connectionClosed {c : Core} (hpd : Pend c) (p : Option Nat) : Pend (c.connectionClosed p) := by
  have hd : Pend (c.dropEstab p) := by
    unfold dropEstab
    cases p with
    | none => exact hpd
    | some q => simp only; split <;> first | exact hpd.of_conns rfl rfl | exact hpd
  unfold connectionClosed
  split
  · exact pend_autoStart hd true
  · exact hd

theorem one_connectionFailed {c : Core} (h : One c) (hpd : Pend c) (hna : c.st ≠ .active) : One c.connectionFailed := by
  unfold connectionFailed
  cases hs : c.st <;> simp only
  · exact h
  · -- Connect
    apply one_connectionClosed
    · exact one_after_close (c := c.setRetry false) ⟨h.one, h.tracked⟩ rfl
    · exact (pend_closeConn (c := c.setRetry false) (hpd.of_conns rfl rfl)).of_conns rfl rfl
    · intro q _ _ j hj
      have : (((c.setRetry false).closeConn).withSt .idle).conn j = (c.setRetry false).closeConn.conn j := rfl
      rw [this]
      exact noConnected_closeConn (c := c.setRetry false) ⟨h.one, h.tracked⟩ j hj
  · exact absurd hs hna
  · -- OpenSent
    apply one_connectionClosed
    · exact one_after_close (c := c) h rfl
    · exact (pend_closeConn hpd).of_conns rfl rfl
    · intro q _ _ j hj
      have : (((c.closeConn).setRetry true).withSt .active).conn j = c.closeConn.conn j := rfl
      rw [this]
      exact noConnected_closeConn h j hj
  · exact one_errorClose h
  · exact one_errorClose h

theorem pend_connectionFailed {c : Core} (hpd : Pend c) : Pend c.connectionFailed := by
  unfold connectionFailed
  cases hs : c.st <;> simp only
  · exact hpd
  · exact pend_connectionClosed (c := ((c.setRetry false).closeConn).withSt .idle)
      ((pend_closeConn (c := c.setRetry false) (hpd.of_conns rfl rfl)).of_conns rfl rfl) _
  · exact hpd.of_conns rfl rfl
  · exact pend_connectionClosed (c := ((c.closeConn).setRetry true).withSt .active) ((pend_closeConn hpd).of_conns rfl rfl) _
  · exact pend_errorClose hpd
  · exact pend_errorClose hpd

theorem one_setPhase_closed {c : Core} (h : One c) (i : Nat) : One (c.setPhase i .closed) := by
  refine ⟨one_of_shrunk h (shrunk_setPhase_closed c i), ?_⟩
  intro j hj hcj
  rw [len_setPhase] at hj
  have hs := (shrunk_setPhase_closed c i).2 j (Or.inr hcj)
  have := h.tracked j hj (by rw [← hs.2]; exact hcj)
  exact this

theorem pend_setPhase_closed {c : Core} (h : Pend c) (i : Nat) : Pend (c.setPhase i .closed) :=
  h.of_shrunk (shrunk_setPhase_closed c i) rfl

/-- **every event keeps: at most one live connection, every open connection tracked, every attempt remembered** -/
theorem one_stepOutcome {c : Core} (h : One c) (hpd : Pend c) (hh : Heal c) (e : Ev) (hen : enabledC c e) :
    ∀ o ∈ c.stepOutcome e, One o ∧ Pend o := by
  intro o ho
  cases e with
  | boot =>
    simp only [stepOutcome, List.mem_singleton] at ho; subst ho
    exact ⟨one_autoStart h hpd false, pend_autoStart hpd false⟩
  | manualStart =>
    simp only [stepOutcome, List.mem_singleton] at ho; subst ho
    unfold manualStart
    cases hs : c.st <;> simp only
    · constructor
      · apply one_connectTcp
        apply noLive_abort (c := ((c.withAllow true).setRetry true).withSt .connect) (hpd.of_conns rfl rfl)
        exact fun j hj hl => noConnected_of_idle h hs j hj hl
      · exact pend_connectTcp (c := ((c.withAllow true).setRetry true).withSt .connect) (hpd.of_conns rfl rfl)
    all_goals exact ⟨h, hpd⟩
  | manualStop =>
    simp only [stepOutcome, List.mem_singleton] at ho; subst ho
    unfold manualStop
    have h1 : One ((((c.withTm false false).closeConn).withAllow false).withSt .idle) :=
      one_after_close (c := c.withTm false false) ⟨h.one, h.tracked⟩ rfl
    have p1 : Pend ((((c.withTm false false).closeConn).withAllow false).withSt .idle) :=
      (pend_closeConn (c := c.withTm false false) (hpd.of_conns rfl rfl)).of_conns rfl rfl
    refine ⟨?_, pend_abortPending p1⟩
    apply One.of_noConnected (one_of_shrunk h1 (shrunk_abortPending _))
    intro j hj hc
    rw [len_abortPending] at hj
    have := (shrunk_abortPending ((((c.withTm false false).closeConn).withAllow false).withSt .idle)).2 j (Or.inr hc)
    have hcc : ((((c.withTm false false).closeConn).withAllow false).withSt .idle).conn j = (c.withTm false false).closeConn.conn j := rfl
    have hnc := noConnected_closeConn (c := c.withTm false false) ⟨h.one, h.tracked⟩ j hj
    apply hnc
    rw [← hcc, ← this.2]; exact hc
  | connOk i =>
    obtain ⟨hl, hph⟩ := hen
    have hconn : ∀ (c' : Core), c'.conns = (c.setPhase i .connected).conns → ∀ j, j < c.conns.length →
        (c'.conn j).1 = .connected → j = i := by
      intro c' hc j hj hcj
      have e1 : c'.conn j = (c.setPhase i .connected).conn j := by simp only [conn, hc]
      rw [e1, conn_setPhase] at hcj
      by_cases hij : i = j
      · exact hij.symm
      · rw [if_neg (fun hh => hij hh.1)] at hcj
        exact (h.one i j hl hj (Or.inl hph) (Or.inr hcj)).symm
    have hone : ∀ (c' : Core), c'.conns = (c.setPhase i .connected).conns →
        ∀ a b, a < c'.conns.length → b < c'.conns.length → Live c' a → Live c' b → a = b := by
      intro c' hc a b ha hb la lb
      rw [hc, len_setPhase] at ha hb
      have key : ∀ k, k < c.conns.length → Live c' k → k = i := by
        intro k hk lk
        have e1 : c'.conn k = (c.setPhase i .connected).conn k := by simp only [conn, hc]
        unfold Live at lk
        rw [e1, conn_setPhase] at lk
        by_cases hik : i = k
        · exact hik.symm
        · rw [if_neg (fun hh => hik hh.1)] at lk
          exact (h.one i k hl hk (Or.inl hph) lk).symm
      rw [key a ha la, key b hb lb]
    have hpend : ∀ (c' : Core), c'.conns = (c.setPhase i .connected).conns → c'.pending = c.pending → Pend c' := by
      intro c' hc hp j hj hcj
      rw [hc, len_setPhase] at hj
      have e1 : c'.conn j = (c.setPhase i .connected).conn j := by simp only [conn, hc]
      rw [e1, conn_setPhase] at hcj
      split at hcj
      · cases hcj
      · exact hp.trans (hpd j hj hcj)
    simp only [stepOutcome, List.mem_cons, List.not_mem_nil, or_false] at ho
    rcases ho with rfl | rfl
    · simp only [connOk, ↓reduceIte]
      refine ⟨⟨hone _ rfl, ?_⟩, hpend _ rfl rfl⟩
      intro j hj hcj
      have hj' : j < c.conns.length := by simpa [withSt, setIdleHold, setRetry, withEstab, withProto, setPhase] using hj
      have := hconn _ rfl j hj' hcj
      subst this
      exact ⟨rfl, rfl, by simp [withSt]⟩
    · simp only [connOk, Bool.false_eq_true, ↓reduceIte]
      refine ⟨⟨hone _ rfl, ?_⟩, hpend _ rfl rfl⟩
      intro j hj hcj
      have hj' : j < c.conns.length := by simpa [withSt, setIdleHold, setRetry, withEstab, withProto, setPhase] using hj
      have := hconn _ rfl j hj' hcj
      subst this
      exact ⟨rfl, rfl, by simp [withSt, setIdleHold, setRetry, withEstab]⟩
  | connFail i =>
    simp only [stepOutcome, List.mem_singleton] at ho; subst ho
    unfold connFail
    split
    · have h1 : One ((c.withPending none).setPhase i .closed) := one_setPhase_closed (c := c.withPending none) ⟨h.one, h.tracked⟩ i
      have p1 : Pend ((c.withPending none).setPhase i .closed) := by
        -- the failed attempt was the remembered one, so no attempt is left
        rename_i hpi
        apply pend_of_noConnecting
        intro j hj hcj
        rw [len_setPhase] at hj
        rw [conn_setPhase] at hcj
        split at hcj
        · cases hcj
        · rename_i hne
          have hj' : j < c.conns.length := hj
          have := hpd j hj' hcj
          rw [hpi] at this
          have hij : i = j := by simpa using this
          exact hne ⟨hij, by rw [hij]; exact hj'⟩
      exact ⟨one_connectionFailed h1 p1 hh.noActive, pend_connectionFailed p1⟩
    · exact ⟨one_setPhase_closed h i, pend_setPhase_closed hpd i⟩
  | lost i =>
    simp only [stepOutcome, List.mem_singleton] at ho; subst ho
    unfold connLost
    split
    · rename_i hd
      refine ⟨?_, pend_connectionClosed (pend_setPhase_closed hpd i) _⟩
      apply one_connectionClosed (one_setPhase_closed h i) (pend_setPhase_closed hpd i)
      intro q hq he j hj hcj
      cases hq
      rw [len_setPhase] at hj
      have hs := (shrunk_setPhase_closed c i).2 j (Or.inr hcj)
      have ht := h.tracked j hj (by rw [← hs.2]; exact hcj)
      have he' : c.estab = some i := he
      rw [he'] at ht
      have hji : j = i := by have := ht.2.1; simp at this; exact this.symm
      subst hji
      rw [conn_setPhase, if_pos ⟨rfl, hj⟩] at hcj
      cases hcj
    · exact ⟨one_connectionFailed (one_setPhase_closed h i) (pend_setPhase_closed hpd i) hh.noActive,
        pend_connectionFailed (pend_setPhase_closed hpd i)⟩
  | advance dt =>
    simp only [stepOutcome, List.mem_singleton] at ho; subst ho; exact ⟨h, hpd⟩
  | chunk i d => simp [stepOutcome] at ho
  | fire t =>
    cases t with
    | retry =>
      simp only [stepOutcome, List.mem_singleton] at ho; subst ho
      unfold fireRetry
      have p1 : Pend (((c.setRetry false).closeConn).setRetry true) :=
        (pend_closeConn (c := c.setRetry false) (hpd.of_conns rfl rfl)).of_conns rfl rfl
      have hnl : NoLive (((c.setRetry false).closeConn).setRetry true).abortPending := by
        apply noLive_abort p1
        intro j hj hcj
        exact noConnected_closeConn (c := c.setRetry false) ⟨h.one, h.tracked⟩ j hj hcj
      cases hs : c.st <;> simp only
      · exact ⟨h.of_same rfl rfl rfl (fun _ => hs), hpd.of_conns rfl rfl⟩
      · exact ⟨one_connectTcp hnl, pend_connectTcp p1⟩
      · exact ⟨one_connectTcp hnl, pend_connectTcp p1⟩
      all_goals exact ⟨one_errorClose (c := c.setRetry false) ⟨h.one, h.tracked⟩, pend_errorClose (c := c.setRetry false) (hpd.of_conns rfl rfl)⟩
    | hold =>
      simp only [stepOutcome, List.mem_singleton] at ho; subst ho
      unfold fireHold
      have h2 : One (((c.setRetry false).errorClose).withSt .idle) :=
        one_after_close (c := (c.setRetry false).withTm false true) ⟨h.one, h.tracked⟩ rfl
      have p2 : Pend (((c.setRetry false).errorClose).withSt .idle) :=
        (pend_errorClose (c := c.setRetry false) (hpd.of_conns rfl rfl)).of_conns rfl rfl
      cases hs : c.st <;> simp only
      · exact ⟨h, hpd⟩
      · exact ⟨one_errorClose h, pend_errorClose hpd⟩
      · exact ⟨one_errorClose h, pend_errorClose hpd⟩
      all_goals exact ⟨h2, p2⟩
    | keepalive =>
      simp only [stepOutcome, List.mem_singleton] at ho; subst ho
      unfold fireKeepalive
      cases hs : c.st <;> simp only
      all_goals first | exact ⟨h, hpd⟩ | exact ⟨one_errorClose h, pend_errorClose hpd⟩
    | idleHold =>
      simp only [stepOutcome, List.mem_singleton] at ho; subst ho
      unfold fireIdleHold
      split
      · exact ⟨one_autoStart (c := c.setIdleHold false) ⟨h.one, h.tracked⟩ (hpd.of_conns rfl rfl) false,
          pend_autoStart (c := c.setIdleHold false) (hpd.of_conns rfl rfl) false⟩
      · rename_i hs
        exact ⟨h.of_same rfl rfl rfl (fun e => absurd e hs), hpd.of_conns rfl rfl⟩

end Core
end Yabgp
