/-
  (kept for import stability) Structural lemmas about the session model live in Lemmas/Framing.lean.
-/
import Yabgp.Model.Session
