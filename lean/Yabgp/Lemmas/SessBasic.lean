/-
  Structural lemmas about `abortPending` (BGPPeering.abort_pending_connect): it only changes the phase of the
  connector it gives up and the `pending` reference.  (Other structural lemmas live in Lemmas/Framing.lean.)
-/
import Yabgp.Model.Session

namespace Yabgp
namespace Sess

@[simp] theorem st_withPending (s : Sess) (v : Option Nat) : (s.withPending v).st = s.st := rfl
@[simp] theorem tm_withPending (s : Sess) (v : Option Nat) : (s.withPending v).tm = s.tm := rfl
@[simp] theorem now_withPending (s : Sess) (v : Option Nat) : (s.withPending v).now = s.now := rfl
@[simp] theorem outs_withPending (s : Sess) (v : Option Nat) : (s.withPending v).outs = s.outs := rfl
@[simp] theorem conns_withPending (s : Sess) (v : Option Nat) : (s.withPending v).conns = s.conns := rfl
@[simp] theorem proto_withPending (s : Sess) (v : Option Nat) : (s.withPending v).proto = s.proto := rfl
@[simp] theorem estab_withPending (s : Sess) (v : Option Nat) : (s.withPending v).estab = s.estab := rfl
@[simp] theorem allow_withPending (s : Sess) (v : Option Nat) : (s.withPending v).allowAuto = s.allowAuto := rfl
@[simp] theorem cfg_withPending (s : Sess) (v : Option Nat) : (s.withPending v).cfg = s.cfg := rfl
@[simp] theorem holdTime_withPending (s : Sess) (v : Option Nat) : (s.withPending v).holdTime = s.holdTime := rfl
@[simp] theorem localCaps_withPending (s : Sess) (v : Option Nat) : (s.withPending v).localCaps = s.localCaps := rfl
@[simp] theorem remote_withPending (s : Sess) (v : Option Nat) : (s.withPending v).remote = s.remote := rfl
@[simp] theorem bgpId_withPending (s : Sess) (v : Option Nat) : (s.withPending v).bgpId = s.bgpId := rfl
@[simp] theorem retryCounter_withPending (s : Sess) (v : Option Nat) : (s.withPending v).retryCounter = s.retryCounter := rfl
@[simp] theorem pending_withPending (s : Sess) (v : Option Nat) : (s.withPending v).pending = v := rfl
@[simp] theorem conn_withPending (s : Sess) (v : Option Nat) (j : Nat) : (s.withPending v).conn j = s.conn j := rfl

/-- everything but the connections and the `pending` reference -/
theorem abortPending_scalars (s : Sess) :
    s.abortPending.st = s.st ∧ s.abortPending.tm = s.tm ∧ s.abortPending.now = s.now ∧ s.abortPending.outs = s.outs ∧
    s.abortPending.proto = s.proto ∧ s.abortPending.estab = s.estab ∧ s.abortPending.allowAuto = s.allowAuto ∧
    s.abortPending.cfg = s.cfg ∧ s.abortPending.holdTime = s.holdTime ∧ s.abortPending.localCaps = s.localCaps ∧
    s.abortPending.remote = s.remote ∧ s.abortPending.bgpId = s.bgpId ∧ s.abortPending.retryCounter = s.retryCounter ∧
    s.abortPending.conns.length = s.conns.length ∧ s.abortPending.pending = none := by
  unfold abortPending
  split
  · rename_i h; simp [h]
  · split <;> simp [setPhase, setConn, withConns, withPending]

@[simp] theorem st_abortPending (s : Sess) : s.abortPending.st = s.st := (abortPending_scalars s).1
@[simp] theorem tm_abortPending (s : Sess) : s.abortPending.tm = s.tm := (abortPending_scalars s).2.1
@[simp] theorem now_abortPending (s : Sess) : s.abortPending.now = s.now := (abortPending_scalars s).2.2.1
@[simp] theorem outs_abortPending (s : Sess) : s.abortPending.outs = s.outs := (abortPending_scalars s).2.2.2.1
@[simp] theorem proto_abortPending (s : Sess) : s.abortPending.proto = s.proto := (abortPending_scalars s).2.2.2.2.1
@[simp] theorem estab_abortPending (s : Sess) : s.abortPending.estab = s.estab := (abortPending_scalars s).2.2.2.2.2.1
@[simp] theorem allow_abortPending (s : Sess) : s.abortPending.allowAuto = s.allowAuto := (abortPending_scalars s).2.2.2.2.2.2.1
@[simp] theorem cfg_abortPending (s : Sess) : s.abortPending.cfg = s.cfg := (abortPending_scalars s).2.2.2.2.2.2.2.1
@[simp] theorem holdTime_abortPending (s : Sess) : s.abortPending.holdTime = s.holdTime := (abortPending_scalars s).2.2.2.2.2.2.2.2.1
@[simp] theorem localCaps_abortPending (s : Sess) : s.abortPending.localCaps = s.localCaps := (abortPending_scalars s).2.2.2.2.2.2.2.2.2.1
@[simp] theorem remote_abortPending (s : Sess) : s.abortPending.remote = s.remote := (abortPending_scalars s).2.2.2.2.2.2.2.2.2.2.1
@[simp] theorem bgpId_abortPending (s : Sess) : s.abortPending.bgpId = s.bgpId := (abortPending_scalars s).2.2.2.2.2.2.2.2.2.2.2.1
@[simp] theorem retryCounter_abortPending (s : Sess) : s.abortPending.retryCounter = s.retryCounter :=
  (abortPending_scalars s).2.2.2.2.2.2.2.2.2.2.2.2.1
@[simp] theorem len_abortPending (s : Sess) : s.abortPending.conns.length = s.conns.length :=
  (abortPending_scalars s).2.2.2.2.2.2.2.2.2.2.2.2.2.1
@[simp] theorem pending_abortPending (s : Sess) : s.abortPending.pending = none :=
  (abortPending_scalars s).2.2.2.2.2.2.2.2.2.2.2.2.2.2

/-- a connection that is not an attempt in flight is left alone -/
theorem conn_abortPending_of_not_connecting (s : Sess) (j : Nat) (h : (s.conn j).phase ≠ .connecting) :
    s.abortPending.conn j = s.conn j := by
  unfold abortPending
  split
  · rfl
  · rename_i k _
    split
    · rename_i hk
      have hne : k ≠ j := by intro e; subst e; exact h hk
      simp only [setPhase, setConn, withConns, withPending, Sess.conn, List.getD_eq_getElem?_getD, List.getElem?_set]
      rw [if_neg hne]
    · rfl

/-- the phase of every connection after the abort: the given-up attempt is closed, nothing else changes -/
theorem phase_abortPending (s : Sess) (j : Nat) :
    (s.abortPending.conn j).phase = (s.conn j).phase ∨
    ((s.abortPending.conn j).phase = .closed ∧ (s.conn j).phase = .connecting ∧ s.pending = some j) := by
  unfold abortPending
  split
  · exact Or.inl rfl
  · rename_i k hk
    split
    · rename_i hph
      by_cases hkj : k = j
      · subst hkj
        by_cases hl : k < s.conns.length
        · right
          refine ⟨?_, hph, hk⟩
          simp [setPhase, setConn, withConns, withPending, Sess.conn, List.getD_eq_getElem?_getD, List.getElem?_set, hl]
        · left
          simp [setPhase, setConn, withConns, withPending, Sess.conn, List.getD_eq_getElem?_getD, List.getElem?_set, hl]
      · left
        simp only [setPhase, setConn, withConns, withPending, Sess.conn, List.getD_eq_getElem?_getD, List.getElem?_set]
        rw [if_neg hkj]
    · exact Or.inl rfl

theorem disconnected_abortPending (s : Sess) (j : Nat) :
    (s.abortPending.conn j).disconnected = (s.conn j).disconnected := by
  unfold abortPending
  split
  · rfl
  · rename_i k hk
    split
    · by_cases hkj : k = j
      · subst hkj
        by_cases hl : k < s.conns.length
        · simp [setPhase, setConn, withConns, withPending, Sess.conn, List.getD_eq_getElem?_getD, List.getElem?_set, hl]
        · simp [setPhase, setConn, withConns, withPending, Sess.conn, List.getD_eq_getElem?_getD, List.getElem?_set, hl]
      · simp only [setPhase, setConn, withConns, withPending, Sess.conn, List.getD_eq_getElem?_getD, List.getElem?_set]
        rw [if_neg hkj]
    · rfl

end Sess
end Yabgp
