/-
  A generic frame rule: a per-connection observable that does not depend on the phase, the `disconnected`
  flag or the counters of a connection is untouched by everything the FSM does in reaction to a message,
  except by the explicit `setAsn4`.
-/
import Yabgp.Lemmas.Framing

namespace Yabgp
namespace Sess

structure Indep {α : Type} (f : Conn → α) : Prop where
  phase : ∀ (c : Conn) (p : Phase), f { c with phase := p } = f c
  disc : ∀ (c : Conn) (b : Bool), f { c with disconnected := b } = f c
  sent : ∀ (c : Conn) (x : Stats), f { c with sent := x } = f c

/-- additionally independent of the receive counters (needed at the dispatch level only) -/
def IndepRecv {α : Type} (f : Conn → α) : Prop := ∀ (c : Conn) (x : Stats), f { c with recv := x } = f c

def Keeps {α : Type} (f : Conn → α) (s s' : Sess) : Prop := ∀ j, f (s'.conn j) = f (s.conn j)

theorem Keeps.refl {α : Type} (f : Conn → α) (s : Sess) : Keeps f s s := fun _ => rfl
theorem Keeps.trans {α : Type} {f : Conn → α} {a b c : Sess} (h1 : Keeps f a b) (h2 : Keeps f b c) : Keeps f a c :=
  fun j => (h2 j).trans (h1 j)
theorem Keeps.of_same {α : Type} {f : Conn → α} {s s' : Sess} (hc : s'.conns = s.conns) : Keeps f s s' := by
  intro j; simp [conn, hc]

theorem Keeps.setConn {α : Type} {f : Conn → α} {s : Sess} {i : Nat} {c : Conn} (h : f c = f (s.conn i)) :
    Keeps f s (s.setConn i c) := by
  intro j; rw [conn_setConn]; split
  · rename_i hh; rw [← hh.1]; exact h
  · rfl

section
variable {α : Type} (f : Conn → α)
theorem keeps_emit (s : Sess) (o : Out) : Keeps f s (s.emit o) := Keeps.of_same rfl
theorem keeps_withTm (s : Sess) (v : Timers) : Keeps f s (s.withTm v) := Keeps.of_same rfl
theorem keeps_withRetryCounter (s : Sess) (v : Nat) : Keeps f s (s.withRetryCounter v) := Keeps.of_same rfl
theorem keeps_incRetryCounter (s : Sess) : Keeps f s (s.incRetryCounter) := Keeps.of_same rfl
theorem keeps_withHoldTime (s : Sess) (v : Nat) : Keeps f s (s.withHoldTime v) := Keeps.of_same rfl
theorem keeps_withRemote (s : Sess) (v : CapaDict) : Keeps f s (s.withRemote v) := Keeps.of_same rfl
theorem keeps_setRetry (s : Sess) (v : Option Nat) : Keeps f s (s.setRetry v) := Keeps.of_same rfl
theorem keeps_setHold (s : Sess) (v : Option Nat) : Keeps f s (s.setHold v) := Keeps.of_same rfl
theorem keeps_setKeepalive (s : Sess) (v : Option Nat) : Keeps f s (s.setKeepalive v) := Keeps.of_same rfl
theorem keeps_withSt (s : Sess) (v : St) : Keeps f s (s.withSt v) := Keeps.of_same rfl
end

section
variable {α : Type} {f : Conn → α} (hf : Indep f)
include hf

theorem keeps_setPhase (s : Sess) (i : Nat) (p : Phase) : Keeps f s (s.setPhase i p) := Keeps.setConn (hf.phase _ _)
theorem keeps_setDisconnected (s : Sess) (i : Nat) : Keeps f s (s.setDisconnected i) := Keeps.setConn (hf.disc _ _)
theorem keeps_bumpSent (s : Sess) (i : Nat) (g : Stats → Stats) : Keeps f s (s.bumpSent i g) := Keeps.setConn (hf.sent _ _)
theorem keeps_bumpRecv (hr : IndepRecv f) (s : Sess) (i : Nat) (g : Stats → Stats) : Keeps f s (s.bumpRecv i g) :=
  Keeps.setConn (hr _ _)

theorem keeps_setSt (s : Sess) (v : St) : Keeps f s (s.setSt v) := by
  unfold Sess.setSt; split
  · exact (keeps_emit f s _).trans (keeps_withSt f _ _)
  · exact keeps_withSt f s _

theorem keeps_writeOn (s : Sess) (i : Nat) (b : Bytes) : Keeps f s (s.writeOn i b) := by
  unfold writeOn; split
  · exact keeps_emit f s _
  · exact Keeps.refl f s

theorem keeps_sendNotification (s : Sess) (e sub : Nat) (d : Bytes) : Keeps f s (s.sendNotification e sub d) := by
  unfold sendNotification
  split
  · exact keeps_emit f s _
  · split
    · exact (keeps_bumpSent hf s _ _).trans (keeps_writeOn hf _ _ _)
    · exact (keeps_bumpSent hf s _ _).trans (keeps_emit f _ _)

theorem keeps_sendKeepalive (s : Sess) : Keeps f s (s.sendKeepalive) := by
  unfold sendKeepalive
  split
  · exact keeps_emit f s _
  · exact (keeps_bumpSent hf s _ _).trans (keeps_writeOn hf _ _ _)

theorem keeps_closeOn (s : Sess) (i : Nat) : Keeps f s (s.closeOn i) := by
  unfold closeOn
  split
  · exact ((keeps_setPhase hf s i _).trans (keeps_setDisconnected hf _ i)).trans (keeps_emit f _ _)
  · split
    · exact keeps_setDisconnected hf s i
    · exact Keeps.refl f s

theorem keeps_closeConn (s : Sess) : Keeps f s (s.closeConn) := by
  unfold closeConn
  split
  · exact Keeps.refl f s
  · exact (keeps_closeOn hf s _).trans (keeps_withRetryCounter f _ _)

theorem keeps_errorClose (s : Sess) : Keeps f s (s.errorClose) := by
  unfold errorClose
  exact (((keeps_withTm f s _).trans (keeps_closeConn hf _)).trans (keeps_incRetryCounter f _)).trans (keeps_setSt hf _ _)

theorem keeps_headerError (s : Sess) (sub : Nat) (d : Bytes) : Keeps f s (s.headerError sub d) :=
  (keeps_sendNotification hf s _ _ _).trans (keeps_errorClose hf _)

theorem keeps_openMessageError (s : Sess) (sub : Nat) : Keeps f s (s.openMessageError sub) :=
  (keeps_sendNotification hf s _ _ _).trans (keeps_errorClose hf _)

theorem keeps_restartHold (s : Sess) : Keeps f s (s.restartHold) := by
  unfold restartHold; split
  · exact keeps_setHold f s _
  · exact Keeps.refl f s

theorem keeps_fsmErr (s : Sess) : Keeps f s ((s.sendNotification C.errFsm 0 []).errorClose) :=
  (keeps_sendNotification hf s _ _ _).trans (keeps_errorClose hf _)

theorem keeps_fsmOpenReceived (s : Sess) : Keeps f s (s.fsmOpenReceived) := by
  unfold fsmOpenReceived
  split
  · exact keeps_errorClose hf s
  · exact keeps_errorClose hf s
  · split
    · exact ((((keeps_setRetry f s none).trans (keeps_sendKeepalive hf _)).trans
        (keeps_setKeepalive f _ _)).trans (keeps_setHold f _ _)).trans (keeps_setSt hf _ _)
    · exact ((((keeps_setRetry f s none).trans (keeps_sendKeepalive hf _)).trans
        (keeps_setKeepalive f _ _)).trans (keeps_setHold f _ _)).trans (keeps_setSt hf _ _)
  · exact keeps_fsmErr hf s
  · exact keeps_fsmErr hf s
  · exact Keeps.refl f s

theorem keeps_fsmKeepaliveReceived (s : Sess) : Keeps f s (s.fsmKeepaliveReceived) := by
  unfold fsmKeepaliveReceived
  split
  · exact (keeps_restartHold hf s).trans (keeps_setSt hf _ _)
  · exact keeps_restartHold hf s
  · exact keeps_errorClose hf s
  · exact keeps_errorClose hf s
  · exact keeps_fsmErr hf s
  · exact Keeps.refl f s

theorem keeps_fsmUpdateReceived (s : Sess) : Keeps f s (s.fsmUpdateReceived) := by
  unfold fsmUpdateReceived
  split
  · exact keeps_restartHold hf s
  · exact keeps_errorClose hf s
  · exact keeps_errorClose hf s
  · exact keeps_fsmErr hf s
  · exact keeps_fsmErr hf s
  · exact Keeps.refl f s

theorem keeps_fsmNotificationReceived (s : Sess) (e sub : Nat) : Keeps f s (s.fsmNotificationReceived e sub) := by
  unfold fsmNotificationReceived
  split
  · split
    · exact ((((keeps_setRetry f s none).trans (keeps_setHold f _ none)).trans (keeps_setKeepalive f _ none)).trans (keeps_closeConn hf _)).trans (keeps_setSt hf _ _)
    · exact ((((keeps_setRetry f s none).trans (keeps_setHold f _ none)).trans (keeps_setKeepalive f _ none)).trans (keeps_closeConn hf _)).trans (keeps_setSt hf _ _)
    · exact keeps_errorClose hf s
    · exact keeps_errorClose hf s
    · exact keeps_errorClose hf s
    · exact Keeps.refl f s
  · split
    · exact keeps_errorClose hf s
    · exact Keeps.refl f s

/-- every message type except OPEN -/
theorem keeps_dispatch_nonOpen (hr : IndepRecv f) (U : Bool → Bytes → UpdClass) (s : Sess) (i ty : Nat) (body : Bytes)
    (hty : ty ≠ C.msgOpen) : Keeps f s (dispatch U s i ty body).1 := by
  unfold dispatch
  rw [if_neg hty]
  split
  · split
    · exact keeps_bumpRecv hf hr s _ _
    · exact (keeps_bumpRecv hf hr s _ _).trans (keeps_emit f _ _)
    · exact ((keeps_bumpRecv hf hr s _ _).trans (keeps_emit f _ _)).trans (keeps_fsmUpdateReceived hf _)
    · exact ((keeps_bumpRecv hf hr s _ _).trans (keeps_emit f _ _)).trans (keeps_fsmUpdateReceived hf _)
  · split
    · split
      · exact Keeps.refl f s
      · exact ((keeps_bumpRecv hf hr s _ _).trans (keeps_emit f _ _)).trans
          (keeps_fsmNotificationReceived hf _ _ _)
    · split
      · split
        · exact ((keeps_bumpRecv hf hr s _ _).trans (keeps_emit f _ _)).trans
            (keeps_fsmKeepaliveReceived hf _)
        · exact ((keeps_bumpRecv hf hr s _ _).trans (keeps_emit f _ _)).trans
            (keeps_headerError hf _ _ _)
      · split
        · split
          · exact keeps_bumpRecv hf hr s _ _
          · exact (keeps_bumpRecv hf hr s _ _).trans (keeps_emit f _ _)
        · exact keeps_headerError hf s _ _

end

theorem indep_asn4 : Indep (fun c : Conn => c.asn4) := ⟨fun _ _ => rfl, fun _ _ => rfl, fun _ _ => rfl⟩
theorem indepRecv_asn4 : IndepRecv (fun c : Conn => c.asn4) := fun _ _ => rfl
theorem indep_recv : Indep (fun c : Conn => c.recv) := ⟨fun _ _ => rfl, fun _ _ => rfl, fun _ _ => rfl⟩

end Sess
end Yabgp
