/-
  Inverse laws of the text forms of Model/Text.lean (DESIGN §4.4): decimal integers, dotted quads,
  "a:b" communities incl. the well-known names, "a:b:c" large communities, and the splitting lemmas the
  C17 proofs are built from.
-/
import Yabgp.Model.Text
import Mathlib.Tactic.IntervalCases

namespace Yabgp.Text

/-! ### characters -/

def IsDigit (c : Char) : Prop := 48 ≤ c.toNat ∧ c.toNat ≤ 57

def AllDigits (s : List Char) : Prop := ∀ c ∈ s, IsDigit c

theorem digitChar_toNat {d : Nat} (h : d < 10) : (digitChar d).toNat = 48 + d := by
  interval_cases d <;> rfl

theorem digitChar_isDigit {d : Nat} (h : d < 10) : IsDigit (digitChar d) := by
  unfold IsDigit; rw [digitChar_toNat h]; omega

theorem digitVal_digitChar {d : Nat} (h : d < 10) : digitVal (digitChar d) = some d := by
  unfold digitVal; rw [digitChar_toNat h]
  rw [if_pos (by omega)]; congr 1; omega

/-- a digit differs from every character outside '0'..'9' -/
theorem IsDigit.ne {c d : Char} (h : IsDigit c) (hd : d.toNat < 48 ∨ 57 < d.toNat) : c ≠ d := by
  rintro rfl; unfold IsDigit at h; omega

theorem AllDigits.not_mem {s : List Char} (h : AllDigits s) {d : Char} (hd : d.toNat < 48 ∨ 57 < d.toNat) :
    d ∉ s := fun hm => (h d hm).ne hd rfl

theorem AllDigits.append {s t : List Char} (hs : AllDigits s) (ht : AllDigits t) : AllDigits (s ++ t) := by
  intro c hc; rcases List.mem_append.mp hc with h | h
  · exact hs c h
  · exact ht c h

/-! ### decimal rendering -/

theorem decRev_lt {n : Nat} (h : n < 10) : decRev n = [digitChar n] := by
  rw [decRev]; simp [h]

theorem decRev_ge {n : Nat} (h : 10 ≤ n) : decRev n = digitChar (n % 10) :: decRev (n / 10) := by
  rw [decRev]; simp [Nat.not_lt.mpr h]

theorem decStr_lt {n : Nat} (h : n < 10) : decStr n = [digitChar n] := by
  simp [decStr, decRev_lt h]

theorem decStr_ge {n : Nat} (h : 10 ≤ n) : decStr n = decStr (n / 10) ++ [digitChar (n % 10)] := by
  simp [decStr, decRev_ge h]

theorem decStr_ne_nil (n : Nat) : decStr n ≠ [] := by
  by_cases h : n < 10
  · simp [decStr_lt h]
  · simp [decStr_ge (Nat.not_lt.mp h)]

/-- `str(n)` consists of ASCII digits only -/
theorem decStr_allDigits (n : Nat) : AllDigits (decStr n) := by
  induction n using Nat.strongRecOn with
  | _ n ih =>
    by_cases h : n < 10
    · rw [decStr_lt h]; intro c hc; simp at hc; subst hc; exact digitChar_isDigit h
    · rw [decStr_ge (Nat.not_lt.mp h)]
      apply AllDigits.append (ih (n / 10) (by omega))
      intro c hc; simp at hc; subst hc; exact digitChar_isDigit (by omega)

/-- in particular none of the separators the text forms use occurs in it -/
theorem decStr_no_sep (n : Nat) : ':' ∉ decStr n ∧ '.' ∉ decStr n ∧ ',' ∉ decStr n ∧ '-' ∉ decStr n :=
  ⟨(decStr_allDigits n).not_mem (by decide), (decStr_allDigits n).not_mem (by decide),
   (decStr_allDigits n).not_mem (by decide), (decStr_allDigits n).not_mem (by decide)⟩

theorem decStr_head_isDigit (n : Nat) : ∃ c r, decStr n = c :: r ∧ IsDigit c := by
  cases h : decStr n with
  | nil => exact absurd h (decStr_ne_nil n)
  | cons c r => exact ⟨c, r, rfl, decStr_allDigits n c (by simp [h])⟩

/-! ### decimal parsing -/

theorem parseDecAux_append (acc : Nat) (s t : List Char) :
    parseDecAux acc (s ++ t) = (parseDecAux acc s).bind (fun v => parseDecAux v t) := by
  induction s generalizing acc with
  | nil => simp [parseDecAux]
  | cons c r ih =>
    simp only [List.cons_append, parseDecAux]
    cases digitVal c with
    | none => simp
    | some d => simp [ih]

theorem parseDecAux_decStr (n : Nat) : parseDecAux 0 (decStr n) = some n := by
  induction n using Nat.strongRecOn with
  | _ n ih =>
    by_cases h : n < 10
    · rw [decStr_lt h]; simp [parseDecAux, digitVal_digitChar h]
    · have h10 : 10 ≤ n := Nat.not_lt.mp h
      rw [decStr_ge h10, parseDecAux_append, ih (n / 10) (by omega)]
      simp only [Option.bind_some, parseDecAux, digitVal_digitChar (Nat.mod_lt n (by omega : 10 > 0))]
      congr 1; omega

/-- `int(str(n)) == n` -/
theorem parseDec_of_ne_nil {s : List Char} (h : s ≠ []) : parseDec s = parseDecAux 0 s := by
  cases s with
  | nil => exact absurd rfl h
  | cons c r => rfl

theorem parseDec_decStr (n : Nat) : parseDec (decStr n) = some n := by
  rw [parseDec_of_ne_nil (decStr_ne_nil n)]; exact parseDecAux_decStr n

/-! ### splitting -/

theorem splitOnFirst_append {sep : Char} {a : List Char} (b : List Char) (h : sep ∉ a) :
    splitOnFirst sep (a ++ sep :: b) = some (a, b) := by
  induction a with
  | nil => simp [splitOnFirst]
  | cons c r ih =>
    have hc : c ≠ sep := fun e => h (by simp [e])
    have hr : sep ∉ r := fun e => h (by simp [e])
    simp [splitOnFirst, hc, ih hr]

theorem splitOnFirst_none {sep : Char} {s : List Char} (h : sep ∉ s) : splitOnFirst sep s = none := by
  induction s with
  | nil => rfl
  | cons c r ih =>
    have hc : c ≠ sep := fun e => h (by simp [e])
    have hr : sep ∉ r := fun e => h (by simp [e])
    simp [splitOnFirst, hc, ih hr]

theorem splitAll_of_none {sep : Char} {s : List Char} (h : splitOnFirst sep s = none) :
    splitAll sep s = [s] := by
  rw [splitAll]; split <;> simp_all

theorem splitAll_of_some {sep : Char} {s a b : List Char} (h : splitOnFirst sep s = some (a, b)) :
    splitAll sep s = a :: splitAll sep b := by
  rw [splitAll]; split <;> simp_all

/-- `s.split(sep)` of a string without the separator -/
theorem splitAll_single {sep : Char} {s : List Char} (h : sep ∉ s) : splitAll sep s = [s] :=
  splitAll_of_none (splitOnFirst_none h)

/-- `(a + sep + b).split(sep) == [a] + b.split(sep)` when `sep` is not in `a` -/
theorem splitAll_append {sep : Char} {a : List Char} (b : List Char) (h : sep ∉ a) :
    splitAll sep (a ++ sep :: b) = a :: splitAll sep b :=
  splitAll_of_some (splitOnFirst_append b h)

/-! ### dotted quads -/

theorem ipv4Str_eq (n : Nat) :
    ipv4Str n = decStr (n / 16777216 % 256) ++ '.' :: (decStr (n / 65536 % 256) ++ '.' ::
      (decStr (n / 256 % 256) ++ '.' :: decStr (n % 256))) := by
  simp [ipv4Str]

/-- `netaddr.IPAddress(str(netaddr.IPAddress(n)))` is `n` again -/
theorem parseIpv4_ipv4Str {n : Nat} (h : n < 4294967296) : parseIpv4 (ipv4Str n) = some n := by
  unfold parseIpv4
  rw [ipv4Str_eq, splitAll_append _ (decStr_no_sep _).2.1, splitAll_append _ (decStr_no_sep _).2.1,
    splitAll_append _ (decStr_no_sep _).2.1, splitAll_single (decStr_no_sep _).2.1]
  simp only [parseDec_decStr]
  rw [if_pos (by omega)]
  congr 1; omega

/-- the dotted quad contains no ':' or ',' and is not empty -/
theorem ipv4Str_no_sep (n : Nat) : ':' ∉ ipv4Str n ∧ ',' ∉ ipv4Str n := by
  have h := fun k => decStr_no_sep k
  constructor <;> simp [ipv4Str, h]

theorem ipv4Str_has_dot (n : Nat) : '.' ∈ ipv4Str n := by simp [ipv4Str]

/-! ### large communities -/

theorem parseLarge_largeStr (t : Nat × Nat × Nat) : parseLarge (largeStr t) = some t := by
  unfold parseLarge largeStr
  have e : decStr t.1 ++ [':'] ++ decStr t.2.1 ++ [':'] ++ decStr t.2.2
      = decStr t.1 ++ ':' :: (decStr t.2.1 ++ ':' :: decStr t.2.2) := by simp
  rw [e, splitAll_append _ (decStr_no_sep _).1, splitAll_append _ (decStr_no_sep _).1,
    splitAll_single (decStr_no_sep _).1]
  simp only [parseDec_decStr]

/-! ### communities -/

/-- every well-known name is read back as its value (finite table) -/
theorem parseComm_wellKnown : ∀ e ∈ wellKnown, parseComm e.2.toList = some e.1 := by decide

/-- no well-known name starts with a digit, also after upper-casing -/
theorem wellKnown_head_not_digit :
    ∀ e ∈ wellKnown, ((upper e.2.toList).head?.map fun c => decide (48 ≤ c.toNat ∧ c.toNat ≤ 57)) = some false := by
  decide

theorem upperChar_digit {c : Char} (h : IsDigit c) : upperChar c = c := by
  unfold upperChar; unfold IsDigit at h; rw [if_neg (by omega)]

theorem commPlain_eq (v : Nat) : commPlain v = decStr (v / 65536) ++ ':' :: decStr (v % 65536) := by
  simp [commPlain]

theorem find_name_none_of_digit_head {c : Char} {r : List Char} (hc : IsDigit c) :
    wellKnown.find? (fun e => upper e.2.toList = upper (c :: r)) = none := by
  rw [List.find?_eq_none]
  intro e he heq
  have h1 := wellKnown_head_not_digit e he
  simp only [decide_eq_true_eq] at heq
  rw [heq] at h1
  simp only [upper, List.map_cons, List.head?_cons, Option.map_some, Option.some.injEq,
    decide_eq_false_iff_not, upperChar_digit hc] at h1
  exact h1 hc

theorem parseComm_commPlain {v : Nat} (h : v < 4294967296) : parseComm (commPlain v) = some v := by
  obtain ⟨c, r, hcr, hc⟩ := decStr_head_isDigit (v / 65536)
  have hs : commPlain v = c :: (r ++ ':' :: decStr (v % 65536)) := by
    rw [commPlain_eq, hcr]; rfl
  unfold parseComm
  rw [hs, find_name_none_of_digit_head hc, ← hs, commPlain_eq, splitAll_append _ (decStr_no_sep _).1,
    splitAll_single (decStr_no_sep _).1]
  simp only [parseDec_decStr]
  rw [if_pos (by omega)]
  congr 1; omega

/-- `Community.construct` reads every rendering of `Community.parse` back as the same 32-bit value:
    the well-known names (all of the table) and the plain "a:b" form -/
theorem parseComm_commStr {v : Nat} (h : v < 4294967296) : parseComm (commStr v) = some v := by
  unfold commStr
  cases hf : wellKnown.find? (·.1 = v) with
  | none => exact parseComm_commPlain h
  | some e =>
    obtain ⟨v', name⟩ := e
    have hm := List.mem_of_find?_eq_some hf
    have hp := List.find?_some hf
    simp only [decide_eq_true_eq] at hp
    have := parseComm_wellKnown (v', name) hm
    simpa [hp] using this

end Yabgp.Text
