/-
  Specification for C20: the audit of a message-log directory.  Shares nothing with Model/MsgLog.lean: it has
  its own view of a directory (what an auditor sees when reading the files) and its own ordering of the files.

  The audit (DESIGN Appendix C): reading the files in the order of their names, every newline-terminated line
  is one complete record with the documented keys, the sequence numbers are 1, 2, 3, ... without a gap or a
  repetition across the file boundaries, no two files share a name, and bytes that are not terminated by a
  newline exist at most at the end of the newest file and only while no handler is running (the fragment a
  crash left behind, which the next start has to get rid of before it writes).
  Import-free.
-/

namespace Yabgp.LogSpec

/-- what an auditor sees of one newline-terminated line -/
inductive SLine where
  | record (seq : Nat)     -- one JSON object with the keys t, seq, type, msg and nothing else on the line
  | broken                 -- anything else
  deriving DecidableEq, Repr

/-- what an auditor sees of one file: its name, its lines, the number of bytes after the last newline -/
structure SFile where
  name : Nat
  lines : List SLine
  torn : Nat
  deriving DecidableEq, Repr

def insertName (f : SFile) : List SFile → List SFile
  | [] => [f]
  | g :: gs => if f.name ≤ g.name then f :: g :: gs else g :: insertName f gs

/-- the files in the order of their names -/
def byName : List SFile → List SFile
  | [] => []
  | f :: fs => insertName f (byName fs)

/-- in a list ordered by name: no name twice -/
def distinctNames : List SFile → Bool
  | [] => true
  | [_] => true
  | f :: g :: r => decide (f.name < g.name) && distinctNames (g :: r)

def allLines : List SFile → List SLine
  | [] => []
  | f :: fs => f.lines ++ allLines fs

/-- every line is a record and the numbers are k, k+1, k+2, ... -/
def seqRun : Nat → List SLine → Bool
  | _, [] => true
  | k, .record s :: ls => decide (s = k) && seqRun (k + 1) ls
  | _, .broken :: _ => false

/-- unterminated bytes nowhere but (possibly) in the last file of the list -/
def tornOnlyLast : List SFile → Bool
  | [] => true
  | [_] => true
  | f :: g :: r => decide (f.torn = 0) && tornOnlyLast (g :: r)

def noTorn : List SFile → Bool
  | [] => true
  | f :: fs => decide (f.torn = 0) && noTorn fs

/-- the audit of a directory; `running` = a handler is running on it -/
def audit (files : List SFile) (running : Bool) : Bool :=
  distinctNames (byName files) && seqRun 1 (allLines (byName files)) &&
    (if running then noTorn (byName files) else tornOnlyLast (byName files))

/-- the numbers an auditor reads, in order (used to state "exactly one line per reported event") -/
def seqsOf : List SLine → List (Option Nat)
  | [] => []
  | .record s :: ls => some s :: seqsOf ls
  | .broken :: ls => none :: seqsOf ls

end Yabgp.LogSpec
