/-
  Reference UPDATE encoder written from RFC 4271 §4.3 (message layout, attribute header, NLRI encoding),
  RFC 1997 (COMMUNITIES), RFC 4456 (ORIGINATOR_ID, CLUSTER_LIST), RFC 6793 (AS4_PATH, AS4_AGGREGATOR, AS width),
  RFC 8092 (LARGE_COMMUNITY), RFC 7911 (add-path NLRI), with the legal encoding variants the agent itself never
  emits: extended-length flag on short attributes, non-zero trailing bits in prefixes, the Partial bit, any attribute
  order.  Shares only the byte helpers with the models.
-/
import Yabgp.Model.Update

namespace Yabgp.Spec

/-- one path attribute as the reference encoder takes it -/
structure RefAttr where
  code : Nat
  val : AttrVal
  ext : Bool := false          -- use the 2-octet length even when 1 octet would do
  partialBit : Bool := false   -- set the Partial bit (legal on optional transitive attributes)
  deriving Repr

/-- RFC category flags by type code -/
def baseFlags (code : Nat) : Nat :=
  if code = 1 ∨ code = 2 ∨ code = 3 ∨ code = 5 ∨ code = 6 then 0x40          -- well-known
  else if code = 4 ∨ code = 9 ∨ code = 10 then 0x80                           -- optional non-transitive
  else 0xC0                                                                    -- optional transitive (7, 8, 17, 18, 32, ...)

def asnBytes (four : Bool) (a : Nat) : Bytes := if four then be32 a else be16 a

/-- attribute value octets -/
def refValue (asn4 : Bool) (code : Nat) : AttrVal → Bytes
  | .origin n => [u8 n]
  | .asPath segs =>
      segs.flatMap fun s => [u8 s.1, u8 s.2.length] ++ s.2.flatMap (asnBytes (asn4 || code == 17))
  | .nextHop ip => be32 ip
  | .med n => be32 n
  | .localPref n => be32 n
  | .atomicAgg => []
  | .aggregator a ip => asnBytes (asn4 || code == 18) a ++ be32 ip
  | .community cs => cs.flatMap be32
  | .originatorId ip => be32 ip
  | .clusterList ips => ips.flatMap be32
  | .largeCommunity xs => xs.flatMap fun t => be32 t.1 ++ be32 t.2.1 ++ be32 t.2.2
  | .raw b => b
  | .unmodelled _ => []

def refAttr (asn4 : Bool) (a : RefAttr) : Bytes :=
  let v := refValue asn4 a.code a.val
  let useExt := a.ext || decide (255 < v.length)
  let flags := baseFlags a.code + (if a.partialBit then 0x20 else 0) + (if useExt then 0x10 else 0)
  [u8 flags, u8 a.code] ++ (if useExt then be16 v.length else [u8 v.length]) ++ v

/-- one NLRI entry: the prefix in network form plus arbitrary trailing bits `junk` below the prefix length -/
structure RefPfx where
  addr : Nat
  len : Nat
  junk : Nat := 0
  pathId : Option Nat := none
  deriving Repr

def refPfx (p : RefPfx) : Bytes :=
  (match p.pathId with | some i => be32 i | none => []) ++
  [u8 p.len] ++ (be32 (p.addr + p.junk)).take ((p.len + 7) / 8)

def refUpdateBody (asn4 : Bool) (withdrawn : List RefPfx) (attrs : List RefAttr) (nlri : List RefPfx) : Bytes :=
  be16 (withdrawn.flatMap refPfx).length ++ withdrawn.flatMap refPfx ++
  be16 (attrs.flatMap (refAttr asn4)).length ++ attrs.flatMap (refAttr asn4) ++ nlri.flatMap refPfx

/-! ### executable well-formedness test (proved sound for `RefValid` in Props/C09): the correspondence suite only
    counts a generated case as an instance of the theorem when this returns true -/

def u32B (n : Nat) : Bool := decide (n < 4294967296)
def asnB (four : Bool) (n : Nat) : Bool := if four then decide (n < 4294967296) else decide (n < 65536)
def segB (four : Bool) (s : Nat × List Nat) : Bool :=
  decide (1 ≤ s.1) && decide (s.1 ≤ 4) && decide (s.2.length < 256) && s.2.all (asnB four)

def attrValB (asn4 : Bool) (code : Nat) : AttrVal → Bool
  | .origin n => code == 1 && decide (n ≤ 2)
  | .asPath segs => (code == 2 && segs.all (segB asn4)) || (code == 17 && segs.all (segB true))
  | .nextHop ip => code == 3 && u32B ip
  | .med n => code == 4 && u32B n
  | .localPref n => code == 5 && u32B n
  | .atomicAgg => code == 6
  | .aggregator a ip => (code == 7 && asnB asn4 a && u32B ip) || (code == 18 && u32B a && u32B ip)
  | .community cs => code == 8 && cs.all u32B
  | .originatorId ip => code == 9 && u32B ip
  | .clusterList ips => code == 10 && ips.all u32B
  | .largeCommunity xs => code == 32 && xs.all fun t => u32B t.1 && u32B t.2.1 && u32B t.2.2
  | .raw _ => !([1, 2, 3, 4, 5, 6, 7, 8, 9, 10, 17, 18, 32, 14, 15, 16, 22, 29, 40] : List Nat).contains code
  | .unmodelled _ => false

def refPfxB (addpath : Bool) (p : RefPfx) : Bool :=
  decide (p.len ≤ 32) && u32B p.addr && decide (p.addr % 2 ^ (32 - p.len) = 0) && decide (p.junk < 2 ^ (32 - p.len)) &&
  (match p.pathId with
   | some pid => addpath && u32B pid
   | none => !addpath)

def nodupB : List Nat → Bool
  | [] => true
  | x :: r => !r.contains x && nodupB r

def refValidB (asn4 addpath : Bool) (wd : List RefPfx) (attrs : List RefAttr) (nlri : List RefPfx) : Bool :=
  attrs.all (fun a => decide (a.code < 256) && attrValB asn4 a.code a.val &&
                      decide ((refValue asn4 a.code a.val).length < 65536)) &&
  nodupB (attrs.map (·.code)) && nlri.all (refPfxB addpath) && wd.all (refPfxB addpath) &&
  decide ((wd.flatMap refPfx).length < 65536) && decide ((attrs.flatMap (refAttr asn4)).length < 65536)

/-- the malformations of the error half and the UPDATE error sub-code RFC 4271 §6.3 assigns to each
    (ATOMIC_AGGREGATE with a body is reported by the agent as 9, Optional Attribute Error) -/
def rejectCode : String → Option Nat
  | "origin" => some 6
  | "segtype" => some 11
  | "fixedlen" => some 5
  | "atomic" => some 9
  | _ => none

end Yabgp.Spec
