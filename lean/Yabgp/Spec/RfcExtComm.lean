/-
  Reference encoding of the extended communities yabgp renders as text, written from the RFCs and
  independent of the constructor model (Model/ExtComm.lean); shares only the big-endian byte helpers and the
  decimal / dotted-quad renderers of Model/Text.lean (for the text form of a value).

    RFC 4360 §3.1-3.3, §4, §5   two-octet-AS / IPv4-address specific Route Target (sub-type 0x02), Route Origin (0x03)
    RFC 5668 §2                 four-octet-AS specific (type 0x02), sub-types as above.  §3: an AS number that fits two
                                octets SHOULD use the two-octet-AS form, so the four-octet form is *in range* here only
                                for AS numbers >= 65536 (the text "route-target:100:5" denotes the two-octet form)
    RFC 5512 §4.3 / RFC 9012    Color: type 0x03, sub-type 0x0b, two reserved octets (0), 4-octet colour value
    RFC 5512 §4.1 / RFC 9012    Encapsulation: type 0x03, sub-type 0x0c, four reserved octets (0), 2-octet tunnel type
    RFC 5575 §7                 0x8006 traffic-rate (2-octet AS, IEEE 754 binary32 rate in bytes per second),
                                0x8007 traffic-action (bit 47 = terminal action, bit 46 = sample, rest 0),
                                0x8008 redirect (6-octet two-octet-AS route target), 0x8009 traffic-marking (DSCP in the
                                low six bits of the last octet, rest 0)
    draft-simpson-idr-flowspec-redirect, as implemented by yabgp: 0x0800 redirect to IPv4 next hop,
                                4-octet address, 2-octet field whose low-order bit is the 'copy' flag
    draft-ietf-idr-link-bandwidth §2   type 0x40, sub-type 0x04: 2-octet AS, bandwidth as IEEE 754 binary32
                                (bytes per second)
    RFC 7432 §7.5               ESI Label: 0x06 0x01, flags, two reserved octets (0), 3-octet label field carrying the
                                20-bit label in its high-order bits (low nibble: bottom-of-stack bit set, as for every
                                MPLS label field of RFC 7432)
    RFC 7432 §7.6, §7.7         ES-Import 0x06 0x02 + 6-octet MAC;  MAC Mobility 0x06 0x00, flags, reserved (0),
                                4-octet sequence number
    RFC 9135 §8.1               EVPN Router's MAC: 0x06 0x03 + 6-octet MAC
    RFC 4271 §4.3 / RFC 4360 §2 the attribute: flags 0xC0 (optional transitive), type 16, 1-octet length
-/
import Yabgp.Base.Bytes
import Yabgp.Model.Text

namespace Yabgp.RfcExt

/-- an extended community value of one of the kinds yabgp's decoder renders as text -/
inductive EC
  | rtAs2 (asn an : Nat)        -- route-target, 2-octet AS administrator
  | rtIp4 (ip an : Nat)         -- route-target, IPv4 administrator
  | rtAs4 (asn an : Nat)        -- route-target, 4-octet AS administrator
  | roAs2 (asn an : Nat)        -- route-origin
  | roIp4 (ip an : Nat)
  | roAs4 (asn an : Nat)
  | color (c : Nat)
  | encap (tunnelType : Nat)
  | redirectVrf (asn an : Nat)
  | redirectNh (ip copy : Nat)
  | trafficRate (asn rate : Nat)
  | trafficAction (sample terminal : Bool)
  | trafficMarking (dscp : Nat)
  | linkBw (asn bw : Nat)       -- dmzlink-bw
  | esiLabel (flags label : Nat)
  | macMobility (flags seq : Nat)
  | esImport (mac : Nat)
  | routerMac (mac : Nat)
  deriving DecidableEq, Repr

/-- a natural number that IEEE 754 binary32 represents exactly: below 2^128 and with at most 24 significant bits
    (its lowest set bit is no more than 23 places under its highest) -/
def f32Exact (n : Nat) : Bool := n < 2 ^ 128 && (n * 2 ^ 23) % 2 ^ Nat.log2 n == 0

/-- IEEE 754 binary32 bit pattern of an exactly representable natural number: sign 0, biased exponent
    127 + ⌊log2 n⌋, fraction = the 23 bits below the leading one -/
def ieee32 (n : Nat) : Nat :=
  if n = 0 then 0 else (127 + Nat.log2 n) * 2 ^ 23 + (n * 2 ^ 23 / 2 ^ Nat.log2 n) % 2 ^ 23

/-- field ranges -/
def EC.inRange : EC → Bool
  | .rtAs2 a n => a < 65536 && n < 4294967296
  | .rtIp4 ip n => ip < 4294967296 && n < 65536
  | .rtAs4 a n => 65536 ≤ a && a < 4294967296 && n < 65536
  | .roAs2 a n => a < 65536 && n < 4294967296
  | .roIp4 ip n => ip < 4294967296 && n < 65536
  | .roAs4 a n => 65536 ≤ a && a < 4294967296 && n < 65536
  | .color c => c < 4294967296
  | .encap t => t < 65536
  | .redirectVrf a n => a < 65536 && n < 4294967296
  | .redirectNh ip c => ip < 4294967296 && c < 65536
  | .trafficRate a r => a < 65536 && f32Exact r
  | .trafficAction _ _ => true
  | .trafficMarking d => d < 64
  | .linkBw a b => a < 65536 && f32Exact b
  | .esiLabel f l => f < 256 && l < 1048576
  | .macMobility f s => f < 256 && s < 4294967296
  | .esImport m => m < 281474976710656
  | .routerMac m => m < 281474976710656

/-- does the kind carry a 4-octet AS number (the REST layer offers these only to peers that advertised the
    4-octet AS capability) -/
def EC.needsAs4 : EC → Bool
  | .rtAs4 _ _ => true
  | .roAs4 _ _ => true
  | _ => false

/-- the eight octets the RFCs require -/
def rfcBytes : EC → Bytes
  | .rtAs2 a n => [0x00, 0x02] ++ be16 a ++ be32 n
  | .rtIp4 ip n => [0x01, 0x02] ++ be32 ip ++ be16 n
  | .rtAs4 a n => [0x02, 0x02] ++ be32 a ++ be16 n
  | .roAs2 a n => [0x00, 0x03] ++ be16 a ++ be32 n
  | .roIp4 ip n => [0x01, 0x03] ++ be32 ip ++ be16 n
  | .roAs4 a n => [0x02, 0x03] ++ be32 a ++ be16 n
  | .color c => [0x03, 0x0b, 0, 0] ++ be32 c
  | .encap t => [0x03, 0x0c, 0, 0, 0, 0] ++ be16 t
  | .redirectVrf a n => [0x80, 0x08] ++ be16 a ++ be32 n
  | .redirectNh ip c => [0x08, 0x00] ++ be32 ip ++ be16 c
  | .trafficRate a r => [0x80, 0x06] ++ be16 a ++ be32 (ieee32 r)
  | .trafficAction s t => [0x80, 0x07, 0, 0, 0, 0, 0, u8 (2 * s.toNat + t.toNat)]
  | .trafficMarking d => [0x80, 0x09, 0, 0, 0, 0, 0, u8 d]
  | .linkBw a b => [0x40, 0x04] ++ be16 a ++ be32 (ieee32 b)
  | .esiLabel f l => [0x06, 0x01, u8 f, 0, 0] ++ be24 (l * 16 + 1)
  | .macMobility f s => [0x06, 0x00, u8 f, 0] ++ be32 s
  | .esImport m => [0x06, 0x02] ++ beN 6 m
  | .routerMac m => [0x06, 0x03] ++ beN 6 m

/-! ### the text form of a value (what the property calls "that text form"): the kind's name and the fields in
     decimal, IPv4 administrators as dotted quads, MAC addresses as six upper-case hex octets joined by '-' -/

open Yabgp.Text in
def hexUpper (d : Nat) : Char := if d < 10 then Char.ofNat (48 + d) else Char.ofNat (55 + d)

def octetHex (b : Nat) : List Char := [hexUpper (b / 16 % 16), hexUpper (b % 16)]

def macText (m : Nat) : List Char :=
  octetHex (m / 1099511627776 % 256) ++ '-' :: (octetHex (m / 4294967296 % 256) ++ '-' :: (octetHex (m / 16777216 % 256) ++ '-' ::
    (octetHex (m / 65536 % 256) ++ '-' :: (octetHex (m / 256 % 256) ++ '-' :: octetHex (m % 256)))))

/-- "name:a:b" -/
def text2 (name : String) (a b : List Char) : List Char := name.toList ++ ':' :: (a ++ ':' :: b)

/-- "name:a" -/
def text1 (name : String) (a : List Char) : List Char := name.toList ++ ':' :: a

open Yabgp.Text in
def text : EC → List Char
  | .rtAs2 a n => text2 "route-target" (decStr a) (decStr n)
  | .rtIp4 ip n => text2 "route-target" (ipv4Str ip) (decStr n)
  | .rtAs4 a n => text2 "route-target" (decStr a) (decStr n)
  | .roAs2 a n => text2 "route-origin" (decStr a) (decStr n)
  | .roIp4 ip n => text2 "route-origin" (ipv4Str ip) (decStr n)
  | .roAs4 a n => text2 "route-origin" (decStr a) (decStr n)
  | .color c => text1 "color" (decStr c)
  | .encap t => text1 "encapsulation" (decStr t)
  | .redirectVrf a n => text2 "redirect-vrf" (decStr a) (decStr n)
  | .redirectNh ip c => text2 "redirect-nexthop" (ipv4Str ip) (decStr c)
  | .trafficRate a r => text2 "traffic-rate" (decStr a) (decStr r)
  | .trafficAction s t => text1 "traffic-action" ('S' :: ':' :: (decStr s.toNat ++ ',' :: 'T' :: ':' :: decStr t.toNat))
  | .trafficMarking d => text1 "traffic-marking-dscp" (decStr d)
  | .linkBw a b => text2 "dmzlink-bw" (decStr a) (decStr b)
  | .esiLabel f l => text2 "esi-label" (decStr f) (decStr l)
  | .macMobility f s => text2 "mac-mobility" (decStr f) (decStr s)
  | .esImport m => text1 "es-import" (macText m)
  | .routerMac m => text1 "router-mac" (macText m)

/-- the EXTENDED_COMMUNITIES path attribute carrying the list -/
def rfcAttr (xs : List EC) : Bytes :=
  [0xC0, 16, u8 (8 * xs.length)] ++ xs.flatMap rfcBytes

/-- COMMUNITIES (RFC 1997): flags 0xC0, type 8, four octets per community -/
def rfcCommunityAttr (vs : List Nat) : Bytes :=
  [0xC0, 8, u8 (4 * vs.length)] ++ vs.flatMap be32

/-- LARGE_COMMUNITY (RFC 8092): type 32, twelve octets per community; yabgp sends flags 0xE0 -/
def rfcLargeAttr (ts : List (Nat × Nat × Nat)) : Bytes :=
  [0xE0, 32, u8 (12 * ts.length)] ++ ts.flatMap fun t => be32 t.1 ++ be32 t.2.1 ++ be32 t.2.2

end Yabgp.RfcExt
